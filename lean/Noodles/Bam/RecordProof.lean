import Noodles.Bam.Record
import Noodles.Bam.RecordSpec
/-! Helper lemmas for the C05 theorems: what the encoder writes (closed form), and that the eager
decoder reads it back. -/
namespace Noodles.Bam
open Noodles.Codec

/-! ## integers -/

theorem toU_lt (n : Nat) (v : Int) : toU n v < 256 ^ n := by
  unfold toU
  have hpos : (0 : Int) < ((256 ^ n : Nat) : Int) := by
    have : 0 < 256 ^ n := Nat.pow_pos (by decide)
    omega
  have h1 := Int.emod_lt_of_pos v hpos
  have h2 := Int.emod_nonneg v (Int.ne_of_gt hpos)
  omega

theorem fromU_toU_signed (n : Nat) (v : Int) (hn : 0 < n)
    (h : -((256 ^ n / 2 : Nat) : Int) ≤ v ∧ v < ((256 ^ n / 2 : Nat) : Int)) :
    fromU true n (toU n v) = v := by
  have heven : 256 ^ n = 2 * (256 ^ n / 2) := by
    obtain ⟨k, rfl⟩ : ∃ k, n = k + 1 := ⟨n - 1, by omega⟩
    rw [Nat.pow_succ]; omega
  have hpos : 0 < 256 ^ n := Nat.pow_pos (by decide)
  unfold fromU toU
  generalize 256 ^ n = m at *
  by_cases hv : 0 ≤ v
  · have : v % (m : Int) = v := Int.emod_eq_of_lt hv (by omega)
    rw [this]
    have : ¬ ((true = true) ∧ m ≤ 2 * v.toNat) := by omega
    rw [if_neg this]; omega
  · have : v % (m : Int) = v + m := by
      rw [← Int.add_emod_right]; exact Int.emod_eq_of_lt (by omega) (by omega)
    rw [this]
    have : (true = true) ∧ m ≤ 2 * (v + (m : Int)).toNat := ⟨rfl, by omega⟩
    rw [if_pos this]; omega

theorem fromU_toU_unsigned (n : Nat) (v : Int) (h : 0 ≤ v ∧ v < ((256 ^ n : Nat) : Int)) :
    fromU false n (toU n v) = v := by
  unfold fromU toU
  have : v % ((256 ^ n : Nat) : Int) = v := Int.emod_eq_of_lt h.1 h.2
  rw [this]; simp; omega

theorem fromU_toU (t : NumTy) (v : Int) (h : t.inRange v) :
    fromU t.signed t.size (toU t.size v) = v := by
  unfold NumTy.inRange at h
  cases t <;> simp only [NumTy.signed, NumTy.size] at h ⊢
  all_goals first
    | exact fromU_toU_signed _ v (by decide) (by simpa using h)
    | exact fromU_toU_unsigned _ v (by simpa using h)

theorem toU_neg_one : toU 4 (-1) = 4294967295 := by decide

theorem toU_of_nonneg (n k : Nat) (h : k < 256 ^ n) : toU n (k : Int) = k := by
  unfold toU
  have : ((k : Int)) % ((256 ^ n : Nat) : Int) = k := Int.emod_eq_of_lt (by omega) (by omega)
  rw [this]; simp

/-! ## the parser monad -/

@[simp] theorem bind_eq {α β : Type} (d : Dec α) (f : α → Dec β) (s : Bytes) :
    (d >>= f) s = match d s with
      | .error e => .error e
      | .ok (a, s') => f a s' := rfl

@[simp] theorem pure_eq {α : Type} (a : α) (s : Bytes) : (pure a : Dec α) s = .ok (a, s) := rfl

@[simp] theorem fail_eq {α : Type} (s : Bytes) : (fail : Dec α) s = .error .invalid := rfl

theorem takeN_append (a r : Bytes) : takeN a.length (a ++ r) = .ok (a, r) := by
  simp [takeN]

theorem takeN_append' (a r : Bytes) (n : Nat) (h : a.length = n) : takeN n (a ++ r) = .ok (a, r) := by
  subst h; exact takeN_append a r

theorem ofNat_toNat (k : Nat) (h : k < 256) : (UInt8.ofNat k).toNat = k := by
  simp; omega

theorem unle1_single (k : Nat) (h : k < 256) (r : Bytes) : unle 1 (UInt8.ofNat k :: r) = .ok (k, r) := by
  simp [unle, ofNat_toNat k h]

/-! ## field by field: the encoder accepts, and the decoder reads the bytes back -/

/-- `e` accepts, and `dec` reads its bytes back as `x` leaving the rest untouched -/
def RT {β : Type} (e : Except Err Bytes) (dec : Dec β) (x : β) : Prop :=
  ∃ b, e = .ok b ∧ ∀ rest, dec (b ++ rest) = .ok (x, rest)

theorem rt_refId (nref : Nat) (x : Option Nat) (h : refOk nref x) :
    RT (encRefId nref x) decRefId x := by
  cases x with
  | none =>
    refine ⟨_, rfl, fun rest => ?_⟩
    simp only [decRefId, bind_eq, toU_neg_one, unle_le 4 4294967295 (by decide)]
    simp
  | some id =>
    obtain ⟨h1, h2⟩ := h
    refine ⟨le 4 id, by simp [encRefId, h1, h2], fun rest => ?_⟩
    simp only [decRefId, bind_eq, unle_le 4 id (by omega)]
    have a : id ≠ 4294967295 := by omega
    have b : id < 2147483648 := by omega
    simp [a, b]

theorem rt_pos (x : Option Nat) (h : posOk x) (hp : ∀ p, x = some p → 1 ≤ p) :
    RT (encPos x) decPos x := by
  cases x with
  | none =>
    refine ⟨_, rfl, fun rest => ?_⟩
    simp only [decPos, bind_eq, toU_neg_one, unle_le 4 4294967295 (by decide)]
    simp
  | some p =>
    have h1 : p - 1 ≤ 2147483647 := h
    have h2 := hp p rfl
    refine ⟨le 4 (p - 1), by simp [encPos, h1], fun rest => ?_⟩
    simp only [decPos, bind_eq, unle_le 4 (p - 1) (by omega)]
    have a : p - 1 ≠ 4294967295 := by omega
    have b : p - 1 < 2147483648 := by omega
    have c : p - 1 + 1 = p := by omega
    simp [a, b, c]

/-- `l_read_name` as written -/
def nameLenVal : Option Bytes → Nat
  | none => 2
  | some s => s.length + 1

theorem rt_nameLen (x : Option Bytes) (h : nameLenOk x) :
    RT (encNameLen x) decNameLen (nameLenVal x) := by
  cases x with
  | none =>
    refine ⟨[UInt8.ofNat 2], rfl, fun rest => ?_⟩
    simp only [decNameLen, bind_eq, List.singleton_append, unle1_single 2 (by decide)]
    simp [nameLenVal]
  | some s =>
    have h1 : s.length + 1 ≤ 255 := h
    refine ⟨[UInt8.ofNat (s.length + 1)], by simp [encNameLen, h1], fun rest => ?_⟩
    simp only [decNameLen, bind_eq, List.singleton_append, unle1_single (s.length + 1) (by omega)]
    simp [nameLenVal]

theorem rt_name (x : Option Bytes) (h : nameOk x) :
    RT (encName x) (decName (nameLenVal x)) x := by
  cases x with
  | none =>
    refine ⟨[42, 0], rfl, fun rest => ?_⟩
    simp only [decName, bind_eq, nameLenVal]
    rw [takeN_append' [42, 0] rest 2 rfl]
    simp
  | some s =>
    have h1 : nameValid s = true := h
    refine ⟨s ++ [0], by simp [encName, h1], fun rest => ?_⟩
    simp only [decName, bind_eq, nameLenVal]
    rw [takeN_append' (s ++ [0]) rest (s.length + 1) (by simp)]
    have hne : s ≠ [42] := by
      simp only [nameValid, Bool.and_eq_true, bne_iff_ne] at h1
      exact h1.1.2
    have : ¬ (s ++ [0] = [42, 0]) := by
      intro e
      apply hne
      have : s ++ [0] = [42] ++ [0] := e
      exact List.append_cancel_right this
    simp [this]

/-! ### CIGAR -/

/-- the `u32` of an op -/
def opNat (o : Op) : Nat := o.len * 16 + o.kind

/-- closed form of `write_generic_cigar` -/
def opsBytes (ops : List Op) : Bytes := (ops.map fun o => le 4 (opNat o)).flatten

theorem encOps_closed (ops : List Op) (hl : opsOk ops) : encOps ops = .ok (opsBytes ops) := by
  induction ops with
  | nil => rfl
  | cons o os ih =>
    have h1 : o.len ≤ 268435455 := hl o (by simp)
    have h2 : opsOk os := fun x hx => hl x (List.mem_cons_of_mem _ hx)
    simp [encOps, encOp, h1, ih h2, opsBytes, opNat]

theorem opsBytes_length (ops : List Op) : (opsBytes ops).length = 4 * ops.length := by
  induction ops with
  | nil => rfl
  | cons o os ih =>
    simp only [opsBytes, List.map_cons, List.flatten_cons, List.length_append, le_length, List.length_cons] at ih ⊢
    omega

theorem decOpNat_opNat (o : Op) (hk : o.kind ≤ 8) : decOpNat (opNat o) = .ok o := by
  unfold decOpNat opNat
  have a : (o.len * 16 + o.kind) % 16 = o.kind := by omega
  have b : (o.len * 16 + o.kind) / 16 = o.len := by omega
  rw [a, b, if_pos hk]

theorem decOp_le (o : Op) (hk : o.kind ≤ 8) (hl : o.len ≤ 268435455) (rest : Bytes) :
    decOp (le 4 (opNat o) ++ rest) = .ok (o, rest) := by
  have hlt : opNat o < 256 ^ 4 := by unfold opNat; omega
  simp only [decOp, bind_eq, unle_le 4 (opNat o) hlt, decOpNat_opNat o hk]
  rfl

theorem decN_opsBytes (ops : List Op) (hk : ∀ o ∈ ops, o.kind ≤ 8) (hl : opsOk ops) (rest : Bytes) :
    decN decOp ops.length (opsBytes ops ++ rest) = .ok (ops, rest) := by
  induction ops with
  | nil => rfl
  | cons o os ih =>
    have h1 : o.len ≤ 268435455 := hl o (by simp)
    have h2 : opsOk os := fun x hx => hl x (List.mem_cons_of_mem _ hx)
    have h3 : ∀ x ∈ os, x.kind ≤ 8 := fun x hx => hk x (List.mem_cons_of_mem _ hx)
    simp only [opsBytes, List.map_cons, List.flatten_cons, List.append_assoc, List.length_cons, decN]
    rw [decOp_le o (hk o (by simp)) h1]
    simp only
    have := ih h3 h2
    simp only [opsBytes] at this
    rw [this]

theorem rt_cigar (ops : List Op) (hk : ∀ o ∈ ops, o.kind ≤ 8) (hl : opsOk ops) :
    RT (encOps ops) (decCigar ops.length) ops := by
  refine ⟨opsBytes ops, encOps_closed ops hl, fun rest => ?_⟩
  simp only [decCigar, bind_eq]
  rw [takeN_append' (opsBytes ops) rest (4 * ops.length) (opsBytes_length ops)]
  have := decN_opsBytes ops hk hl []
  rw [List.append_nil] at this
  simp only [this]
  rfl

/-! ### sequence -/

theorem ite_lt {c : Prop} [Decidable c] {a b n : Nat} (ha : a < n) (hb : b < n) :
    (if c then a else b) < n := by
  by_cases h : c
  · rw [if_pos h]; exact ha
  · rw [if_neg h]; exact hb

theorem baseCode_lt (b : UInt8) : baseCode b < 16 := by
  unfold baseCode
  repeat (apply ite_lt (by decide))
  decide

theorem baseCode_eq : baseCode 61 = 0 := by decide

theorem packBases_length (s : Bytes) : (packBases s).length = (s.length + 1) / 2 := by
  induction s using packBases.induct with
  | case1 => rfl
  | case2 l => simp [packBases]
  | case3 l r rest ih => simp only [packBases, List.length_cons, ih]; omega

theorem nib_hi (a b : Nat) (ha : a < 16) (hb : b < 16) : (UInt8.ofNat (a * 16 + b)).toNat / 16 = a := by
  rw [ofNat_toNat _ (by omega)]; omega

theorem nib_lo (a b : Nat) (ha : a < 16) (hb : b < 16) : (UInt8.ofNat (a * 16 + b)).toNat % 16 = b := by
  rw [ofNat_toNat _ (by omega)]; omega

theorem unpack_pack (s : Bytes) : (unpackBases (packBases s)).take s.length = s.map normBase := by
  induction s using packBases.induct with
  | case1 => rfl
  | case2 l =>
    simp only [packBases, unpackBases, List.length_cons, List.length_nil, List.map_cons, List.map_nil]
    rw [nib_hi _ _ (baseCode_lt l) (baseCode_lt 61)]
    simp [normBase]
  | case3 l r rest ih =>
    simp only [packBases, unpackBases, List.length_cons, List.map_cons]
    rw [nib_hi _ _ (baseCode_lt l) (baseCode_lt r), nib_lo _ _ (baseCode_lt l) (baseCode_lt r)]
    simp only [List.take_succ_cons, ih, normBase]

theorem rt_seq (cigar : List Op) (seq : Bytes) (h : seqOk cigar seq) :
    RT (encSeq (readLen cigar) seq) (decSeq seq.length) (seq.map normBase) := by
  refine ⟨packBases seq, ?_, fun rest => ?_⟩
  · unfold encSeq
    by_cases he : seq = []
    · subst he; rfl
    · have : seq.isEmpty = false := by cases seq <;> simp_all
      rw [this]
      rcases h with h | h
      · exact absurd h he
      · simp [h]
  · simp only [decSeq, bind_eq]
    rw [takeN_append' (packBases seq) rest _ (packBases_length seq)]
    simp only [pure_eq, unpack_pack]

/-! ### quality scores -/

theorem rt_qual (n : Nat) (q : Bytes) (h : qualOk n q) : RT (encQual n q) (decQual n) q := by
  rcases h with ⟨hl, hv⟩ | ⟨hl, rfl⟩
  · refine ⟨q, ?_, fun rest => ?_⟩
    · have : q.all (fun b => decide (b.toNat ≤ 93)) = true := by
        rw [List.all_eq_true]; intro b hb; simpa using hv b hb
      simp [encQual, hl, this]
    · unfold decQual
      by_cases hn : n = 0
      · have : q = [] := by cases q with
          | nil => rfl
          | cons a t => simp at hl; omega
        subst this
        simp [hn]
      · simp only [hn, if_false, bind_eq]
        rw [takeN_append' q rest n hl]
        have : q.all (· == 255) = false := by
          cases q with
          | nil => simp at hl; omega
          | cons a t =>
            have ha := hv a (by simp)
            have : a ≠ 255 := by
              intro e; subst e; simp at ha
            simp [this]
        simp [this]
  · refine ⟨List.replicate n 255, ?_, fun rest => ?_⟩
    · have hn : ¬ (0 = n) := by simpa using hl
      simp [encQual, hn]
    · have hn : n ≠ 0 := by
        intro e; apply hl; simp [e]
      unfold decQual
      simp only [hn, if_false, bind_eq]
      rw [takeN_append' (List.replicate n 255) rest n (by simp)]
      simp

/-! ### auxiliary data -/

theorem decNum_encNum (t : NumTy) (v : Int) (h : t.inRange v) (rest : Bytes) :
    decNum t (encNum t v ++ rest) = .ok (v, rest) := by
  simp only [decNum, encNum, bind_eq, unle_le t.size _ (toU_lt t.size v), pure_eq, fromU_toU t v h]

theorem roundTrip_num (t : NumTy) : RoundTrip (encNum t) (decNum t) t.inRange :=
  fun v h rest => decNum_encNum t v h rest

theorem splitNul_append (s rest : Bytes) (h : ∀ b ∈ s, b ≠ 0) :
    splitNul (s ++ 0 :: rest) = some (s, rest) := by
  induction s with
  | nil => simp [splitNul]
  | cons a t ih =>
    have ha : a ≠ 0 := h a (by simp)
    have ht : ∀ b ∈ t, b ≠ 0 := fun b hb => h b (List.mem_cons_of_mem _ hb)
    simp [splitNul, ha, ih ht]

theorem decStr_append (s rest : Bytes) (h : ∀ b ∈ s, b ≠ 0) :
    decStr (s ++ [0] ++ rest) = .ok (s, rest) := by
  simp [decStr, splitNul_append s rest h]

theorem strValid_no_nul (s : Bytes) (h : strValid s = true) : ∀ b ∈ s, b ≠ 0 := by
  intro b hb e
  subst e
  simp only [strValid, List.all_eq_true] at h
  have := h 0 hb
  simp at this

theorem hexValid_no_nul (s : Bytes) (h : hexValid s = true) : ∀ b ∈ s, b ≠ 0 := by
  intro b hb e
  subst e
  simp only [hexValid, Bool.and_eq_true, List.all_eq_true] at h
  have := h.2 0 hb
  simp at this

theorem code_ne (t : NumTy) : t.code ≠ 65 ∧ t.code ≠ 90 ∧ t.code ≠ 72 ∧ t.code ≠ 66 := by
  cases t <;> decide

theorem ofCode_code (t : NumTy) : NumTy.ofCode t.code = some t := by
  cases t <;> decide

theorem ofCode_code' (t : NumTy) : NumTy.ofCode (UInt8.ofNat t.code.toNat) = some t := by
  cases t <;> decide

theorem decVal_char : decVal 65 = (do let c ← takeN 1; match c with | [c] => pure (.char c) | _ => fail) := rfl
theorem decVal_str : decVal 90 = (do let s ← decStr; pure (.str s)) := rfl
theorem decVal_hex : decVal 72 = (do let s ← decStr; pure (.hex s)) := rfl
theorem decVal_arr : decVal 66 = (do
    let sub ← unle 1
    match NumTy.ofCode (UInt8.ofNat sub) with
    | none => fail
    | some t => do
      let n ← unle 4
      let vs ← decN (decNum t) n
      pure (.arr t vs)) := rfl
theorem decVal_num (t : NumTy) : decVal t.code = (do let v ← decNum t; pure (.num t v)) := by
  cases t <;> rfl

theorem rt_val (v : Val) (hw : valWF v) (ho : valOk v) : RT (encVal v) (decVal v.tyCode) v := by
  cases v with
  | char c =>
    refine ⟨[c], rfl, fun rest => ?_⟩
    simp only [Val.tyCode, decVal_char, bind_eq]
    rw [takeN_append' [c] rest 1 rfl]
    rfl
  | num t x =>
    refine ⟨encNum t x, rfl, fun rest => ?_⟩
    simp only [Val.tyCode, decVal_num, bind_eq, decNum_encNum t x hw rest, pure_eq]
  | str s =>
    have h : strValid s = true := ho
    refine ⟨s ++ [0], by simp [encVal, h], fun rest => ?_⟩
    simp only [Val.tyCode, decVal_str, bind_eq, decStr_append s rest (strValid_no_nul s h), pure_eq]
  | hex s =>
    have h : hexValid s = true := ho
    refine ⟨s ++ [0], by simp [encVal, h], fun rest => ?_⟩
    simp only [Val.tyCode, decVal_hex, bind_eq, decStr_append s rest (hexValid_no_nul s h), pure_eq]
  | arr t vs =>
    have h : vs.length ≤ 4294967295 := ho
    refine ⟨t.code :: (le 4 vs.length ++ (vs.map (encNum t)).flatten), by simp [encVal, h], fun rest => ?_⟩
    simp only [Val.tyCode, decVal_arr, bind_eq, List.cons_append, List.append_assoc]
    have h1 : unle 1 (t.code :: (le 4 vs.length ++ ((vs.map (encNum t)).flatten ++ rest)))
        = .ok (t.code.toNat, le 4 vs.length ++ ((vs.map (encNum t)).flatten ++ rest)) := by
      simp [unle]
    rw [h1]
    simp only [ofCode_code' t, bind_eq, unle_le 4 vs.length (by omega)]
    rw [decN_map (encNum t) (decNum t) t.inRange (roundTrip_num t) vs hw rest]
    rfl

theorem rt_field (t : Tag) (v : Val) (hw : valWF v) (ho : valOk v) :
    ∃ b, encField t v = .ok b ∧ b ≠ [] ∧ ∀ rest, decField (b ++ rest) = .ok ((t, v), rest) := by
  obtain ⟨vb, he, hd⟩ := rt_val v hw ho
  refine ⟨t.1 :: t.2 :: v.tyCode :: vb, by simp [encField, he], by simp, fun rest => ?_⟩
  simp only [decField, bind_eq, List.cons_append]
  have h1 : takeN 2 (t.1 :: t.2 :: v.tyCode :: (vb ++ rest)) = .ok ([t.1, t.2], v.tyCode :: (vb ++ rest)) := by
    simp [takeN]
  have h2 : takeN 1 (v.tyCode :: (vb ++ rest)) = .ok ([v.tyCode], vb ++ rest) := by
    simp [takeN]
  rw [h1]
  simp only [bind_eq, h2, hd rest, pure_eq]

/-- the data fields that are written: all but `CG` -/
def keep (d : List (Tag × Val)) : List (Tag × Val) := d.filter (fun f => f.1 != CG)

theorem hasTag_append (t : Tag) (a b : List (Tag × Val)) :
    hasTag t (a ++ b) = (hasTag t a || hasTag t b) := by
  simp [hasTag]

theorem decData_nil (fuel : Nat) (acc : List (Tag × Val)) : decData fuel [] acc = .ok acc := by
  cases fuel <;> simp [decData]

theorem data_rt (d : List (Tag × Val)) (hw : ∀ f ∈ d, valWF f.2) (ho : dataOk d) :
    ∃ b, encData d = .ok b ∧ (keep d).length ≤ b.length ∧
      ∀ fuel acc tail, (keep d).length ≤ fuel → (∀ f ∈ keep d, hasTag f.1 acc = false) →
        ((keep d).map (·.1)).Nodup →
        decData fuel (b ++ tail) acc = decData (fuel - (keep d).length) tail (acc ++ keep d) := by
  induction d with
  | nil =>
    refine ⟨[], rfl, by simp [keep], fun fuel acc tail _ _ _ => ?_⟩
    simp [keep]
  | cons f rest ih =>
    obtain ⟨t, v⟩ := f
    have hw' : ∀ f ∈ rest, valWF f.2 := fun f hf => hw f (List.mem_cons_of_mem _ hf)
    have ho' : dataOk rest := fun f hf => ho f (List.mem_cons_of_mem _ hf)
    obtain ⟨bs, hbs, hlen, hdec⟩ := ih hw' ho'
    by_cases ht : t = CG
    · subst ht
      have hk : keep ((CG, v) :: rest) = keep rest := by simp [keep]
      refine ⟨bs, by simp [encData, hbs], by rw [hk]; exact hlen, ?_⟩
      rw [hk]; exact hdec
    · have hk : keep ((t, v) :: rest) = (t, v) :: keep rest := by
        simp [keep, ht]
      obtain ⟨fb, hfb, hne, hfd⟩ := rt_field t v (hw (t, v) (by simp)) (ho (t, v) (by simp) ht)
      refine ⟨fb ++ bs, by simp [encData, ht, hfb, hbs], ?_, ?_⟩
      · rw [hk]
        have : 1 ≤ fb.length := by
          cases fb with
          | nil => exact absurd rfl hne
          | cons _ _ => simp
        simp only [List.length_cons, List.length_append]; omega
      · intro fuel acc tail hfuel hacc hnd
        rw [hk] at hfuel hacc hnd ⊢
        simp only [List.length_cons] at hfuel
        obtain ⟨fuel', rfl⟩ : ∃ k, fuel = k + 1 := ⟨fuel - 1, by omega⟩
        have hne' : (fb ++ bs ++ tail).isEmpty = false := by
          cases fb with
          | nil => exact absurd rfl hne
          | cons _ _ => rfl
        have ht0 : hasTag t acc = false := hacc (t, v) (by simp)
        simp only [List.map_cons, List.nodup_cons] at hnd
        rw [decData, hne']
        simp only [Bool.false_eq_true, if_false, List.append_assoc, hfd (bs ++ tail), ht0]
        have hacc' : ∀ f ∈ keep rest, hasTag f.1 (acc ++ [(t, v)]) = false := by
          intro f hf
          rw [hasTag_append, hacc f (List.mem_cons_of_mem _ hf)]
          have : f.1 ≠ t := by
            intro e
            apply hnd.1
            rw [← e]
            exact List.mem_map_of_mem hf
          simp [hasTag, Ne.symm this]
        have := hdec fuel' (acc ++ [(t, v)]) tail (by omega) hacc' hnd.2
        rw [this]
        have e1 : fuel' + 1 - ((keep rest).length + 1) = fuel' - (keep rest).length := by omega
        simp [e1]

theorem hasTag_keep_CG (d : List (Tag × Val)) : hasTag CG (keep d) = false := by
  simp only [hasTag, keep, List.any_eq_false]
  intro f hf
  simp only [List.mem_filter] at hf
  simpa [bne_iff_ne] using hf.2

/-- the integers of the `CG:B,I` array -/
def cgInts (ops : List Op) : List Int := ops.map fun o => ((opNat o : Nat) : Int)

theorem opsBytes_eq_ints (ops : List Op) (hl : opsOk ops) (hk : ∀ o ∈ ops, o.kind ≤ 8) :
    opsBytes ops = ((cgInts ops).map (encNum .I)).flatten := by
  unfold opsBytes cgInts
  rw [List.map_map]
  congr 1
  apply List.map_congr_left
  intro o ho
  have h1 := hl o ho
  have h2 := hk o ho
  have : opNat o < 256 ^ 4 := by unfold opNat; omega
  simp [encNum, NumTy.size, toU_of_nonneg 4 (opNat o) this]

theorem cgInts_inRange (ops : List Op) (hl : opsOk ops) (hk : ∀ o ∈ ops, o.kind ≤ 8) :
    ∀ v ∈ cgInts ops, NumTy.I.inRange v := by
  intro v hv
  simp only [cgInts, List.mem_map] at hv
  obtain ⟨o, ho, rfl⟩ := hv
  have h1 := hl o ho
  have h2 := hk o ho
  simp only [NumTy.inRange, NumTy.signed, NumTy.size, opNat]
  simp
  omega

theorem opsOfNats_cgInts (ops : List Op) (hk : ∀ o ∈ ops, o.kind ≤ 8) :
    opsOfNats (cgInts ops) = .ok ops := by
  induction ops with
  | nil => rfl
  | cons o os ih =>
    have h3 : ∀ x ∈ os, x.kind ≤ 8 := fun x hx => hk x (List.mem_cons_of_mem _ hx)
    have := ih h3
    simp only [cgInts] at this
    simp [cgInts, opsOfNats, decOpNat_opNat o (hk o (by simp)), this]

theorem cg_rt (ops : List Op) (hk : ∀ o ∈ ops, o.kind ≤ 8) (hl : opsOk ops) (hn : ops.length ≤ 4294967295) :
    ∃ b, encCg ops = .ok b ∧ b ≠ [] ∧
      ∀ rest, decField (b ++ rest) = .ok ((CG, .arr .I (cgInts ops)), rest) := by
  have hv : valWF (.arr .I (cgInts ops)) := cgInts_inRange ops hl hk
  have hlen : (cgInts ops).length = ops.length := by simp [cgInts]
  have ho : valOk (.arr .I (cgInts ops)) := by simp [valOk, hlen, hn]
  obtain ⟨fb, hfb, hne, hfd⟩ := rt_field CG (.arr .I (cgInts ops)) hv ho
  refine ⟨fb, ?_, hne, hfd⟩
  have : ¬ (4294967295 < ops.length) := by omega
  simp only [encField, encVal, hlen, hn, if_true] at hfb
  simp only [encCg, hn, if_true, encOps_closed ops hl, opsBytes_eq_ints ops hl hk]
  rw [← hfb]
  rfl

/-! ## the whole record -/

theorem decMapq_single (m : Option Nat) (hm : ∀ q, m = some q → q < 255) (rest : Bytes) :
    decMapq ([UInt8.ofNat (m.getD 255)] ++ rest) = .ok (m, rest) := by
  cases m with
  | none =>
    simp only [decMapq, bind_eq, Option.getD_none, List.singleton_append, unle1_single 255 (by decide)]
    rfl
  | some q =>
    have := hm q rfl
    simp only [decMapq, bind_eq, Option.getD_some, List.singleton_append, unle1_single q (by omega)]
    have : q ≠ 255 := by omega
    simp [this]

theorem fromU_toU_tlen (v : Int) (h : -2147483648 ≤ v ∧ v < 2147483648) :
    fromU true 4 (toU 4 v) = v :=
  fromU_toU_signed 4 v (by decide) (by
    have : ((256 ^ 4 / 2 : Nat) : Int) = 2147483648 := by decide
    rw [this]; exact h)

/-- `decodeRaw` over the concatenation of the parts, given that every part is read back -/
theorem decodeRaw_parts (r : Rec) (hw : WF r) (bin : Nat)
    (bRef bPos bLn bMref bMpos bName bCig bSeq bQual bData : Bytes) (slotOps : List Op)
    (dd : List (Tag × Val))
    (dRef : ∀ rest, decRefId (bRef ++ rest) = .ok (r.refId, rest))
    (dPos : ∀ rest, decPos (bPos ++ rest) = .ok (r.pos, rest))
    (dLn : ∀ rest, decNameLen (bLn ++ rest) = .ok (nameLenVal r.name, rest))
    (dMref : ∀ rest, decRefId (bMref ++ rest) = .ok (r.mateRefId, rest))
    (dMpos : ∀ rest, decPos (bMpos ++ rest) = .ok (r.matePos, rest))
    (dName : ∀ rest, decName (nameLenVal r.name) (bName ++ rest) = .ok (r.name, rest))
    (dCig : ∀ rest, decCigar slotOps.length (bCig ++ rest) = .ok (slotOps, rest))
    (dSeq : ∀ rest, decSeq r.seq.length (bSeq ++ rest) = .ok (r.seq.map normBase, rest))
    (dQual : ∀ rest, decQual r.seq.length (bQual ++ rest) = .ok (r.qual, rest))
    (hslot : slotOps.length ≤ 65535) (hseq : r.seq.length ≤ 4294967295)
    (dData : decData bData.length bData [] = .ok dd) :
    decodeRaw (bRef ++ bPos ++ bLn ++ [UInt8.ofNat (r.mapq.getD 255)] ++ le 2 bin
        ++ le 2 slotOps.length ++ le 2 r.flags ++ le 4 r.seq.length ++ bMref ++ bMpos
        ++ le 4 (toU 4 r.tlen) ++ bName ++ bCig ++ bSeq ++ bQual ++ bData)
      = .ok (⟨r.name, r.flags, r.refId, r.pos, r.mapq, slotOps, r.mateRefId, r.matePos, r.tlen,
          r.seq.map normBase, r.qual, dd⟩, []) := by
  have hbin : ∀ rest, takeN 2 (le 2 bin ++ rest) = .ok (le 2 bin, rest) :=
    fun rest => takeN_append' _ rest 2 (le_length 2 bin)
  have hflags : r.flags < 256 ^ 2 := by have := hw.flags; omega
  have hfl : r.flags % 4096 = r.flags := Nat.mod_eq_of_lt hw.flags
  simp only [decodeRaw, bind_eq, List.append_assoc, dRef, dPos, dLn,
    decMapq_single r.mapq hw.mapq, hbin, unle_le 2 slotOps.length (by omega),
    unle_le 2 r.flags hflags, unle_le 4 r.seq.length (by omega), dMref, dMpos,
    unle_le 4 (toU 4 r.tlen) (toU_lt 4 r.tlen), dName, dCig, dSeq, dQual]
  have := dQual bData
  simp only [dData, hfl, fromU_toU_tlen r.tlen hw.tlen]

theorem keep_nodup (d : List (Tag × Val)) (h : (d.map (·.1)).Nodup) : ((keep d).map (·.1)).Nodup := by
  have : ((keep d).map (·.1)).Sublist (d.map (·.1)) := by
    apply List.Sublist.map
    exact List.filter_sublist
  exact List.Nodup.sublist this h

theorem findIdx_keep (d : List (Tag × Val)) : (keep d).findIdx? (fun f => f.1 == CG) = none := by
  rw [List.findIdx?_eq_none_iff]
  intro f hf
  simp only [keep, List.mem_filter] at hf
  simpa [bne_iff_ne] using hf.2

theorem findIdx_keep_cg (d : List (Tag × Val)) (v : Val) :
    (keep d ++ [(CG, v)]).findIdx? (fun f => f.1 == CG) = some (keep d).length := by
  rw [List.findIdx?_append, findIdx_keep]
  simp

theorem swapRemove_last {α : Type} (l : List α) (x : α) : swapRemove l.length (l ++ [x]) = l := by
  simp [swapRemove]

/-- what the bytes of an accepted record decode to BEFORE `resolve`: the CIGAR slot (the ops, or
the `kSmN` placeholder with `k = l_seq`) and the written data fields, `CG:B,I` last -/
def rawOf (r : Rec) : Rec :=
  { norm r with
    cigar := (cigarSlot r.seq.length r.cigar).1
    data := keep r.data ++
      (if (cigarSlot r.seq.length r.cigar).2 then [(CG, .arr .I (cgInts r.cigar))] else []) }

/-- The writer accepts every fitting record, and the sequential decoder reads the bytes back as
`rawOf r`, consuming everything — both the ordinary path and the `CG` path. -/
theorem roundtrip_raw (nref : Nat) (r : Rec) (hw : WF r) (hf : Fits nref r) :
    ∃ b, encode nref r = .ok b ∧ decodeRaw b = .ok (rawOf r, []) := by
  obtain ⟨bRef, eRef, dRef⟩ := rt_refId nref r.refId hf.refId
  obtain ⟨bPos, ePos, dPos⟩ := rt_pos r.pos hf.pos hw.pos
  obtain ⟨bLn, eLn, dLn⟩ := rt_nameLen r.name hf.nameLen
  obtain ⟨bMref, eMref, dMref⟩ := rt_refId nref r.mateRefId hf.mateRefId
  obtain ⟨bMpos, eMpos, dMpos⟩ := rt_pos r.matePos hf.matePos hw.matePos
  obtain ⟨bName, eName, dName⟩ := rt_name r.name hf.name
  obtain ⟨bSeq, eSeq, dSeq⟩ := rt_seq r.cigar r.seq hf.seq
  obtain ⟨bQual, eQual, dQual⟩ := rt_qual r.seq.length r.qual hf.qual
  obtain ⟨bData, eData, hDlen, dData⟩ := data_rt r.data hw.vals hf.data
  have hnd := keep_nodup r.data hw.tags
  have hlseq : encSeqLen r.seq.length = .ok (le 4 r.seq.length) := by
    unfold encSeqLen; rw [if_pos hf.lSeq]
  by_cases hc : r.cigar.length ≤ 65535
  · -- ordinary path
    have hslot : cigarSlot r.seq.length r.cigar = (r.cigar, false) := by simp [cigarSlot, hc]
    have hops : opsOk r.cigar := by have := hf.slot; rwa [hslot] at this
    obtain ⟨bCig, eCig, dCig⟩ := rt_cigar r.cigar hw.kinds hops
    refine ⟨bRef ++ bPos ++ bLn ++ [UInt8.ofNat (r.mapq.getD 255)] ++ le 2 (binOf r.pos r.cigar)
        ++ le 2 r.cigar.length ++ le 2 r.flags ++ le 4 r.seq.length ++ bMref ++ bMpos
        ++ le 4 (toU 4 r.tlen) ++ bName ++ bCig ++ bSeq ++ bQual ++ bData ++ [], ?_, ?_⟩
    · simp only [encode, hslot, eRef, ePos, eLn, hlseq, eMref, eMpos, eName, eCig, eSeq, eQual, eData,
        encCgIf, bind, Except.bind, pure, Except.pure, Bool.false_eq_true, if_false]
    · have hdd : decData (bData ++ []).length (bData ++ []) [] = .ok (keep r.data) := by
        rw [dData _ [] [] (by simp; omega) (by simp [hasTag]) hnd, decData_nil]
        simp
      have := decodeRaw_parts r hw (binOf r.pos r.cigar) bRef bPos bLn bMref bMpos bName bCig bSeq bQual
        (bData ++ []) r.cigar (keep r.data) dRef dPos dLn dMref dMpos dName dCig dSeq dQual hc hf.lSeq hdd
      simp only [List.append_assoc] at this ⊢
      rw [this]
      simp [rawOf, norm, hslot]
  · -- more than 65535 ops: `kSmN` placeholder + trailing `CG` field
    have hc' : 65535 < r.cigar.length := by omega
    have hslot : cigarSlot r.seq.length r.cigar = ([⟨4, r.seq.length⟩, ⟨3, span r.cigar⟩], true) := by
      simp [cigarSlot, hc]
    have hops : opsOk [⟨4, r.seq.length⟩, ⟨3, span r.cigar⟩] := by have := hf.slot; rwa [hslot] at this
    have hk : ∀ o ∈ [(⟨4, r.seq.length⟩ : Op), ⟨3, span r.cigar⟩], o.kind ≤ 8 := by
      intro o ho; simp at ho; rcases ho with rfl | rfl <;> simp
    obtain ⟨bCig, eCig, dCig⟩ := rt_cigar _ hk hops
    obtain ⟨hn, hcl⟩ := hf.cg hc'
    obtain ⟨bCg, eCg, hCgne, dCg⟩ := cg_rt r.cigar hw.kinds hcl hn
    refine ⟨bRef ++ bPos ++ bLn ++ [UInt8.ofNat (r.mapq.getD 255)] ++ le 2 (binOf r.pos r.cigar)
        ++ le 2 [(⟨4, r.seq.length⟩ : Op), ⟨3, span r.cigar⟩].length ++ le 2 r.flags ++ le 4 r.seq.length
        ++ bMref ++ bMpos ++ le 4 (toU 4 r.tlen) ++ bName ++ bCig ++ bSeq ++ bQual ++ bData ++ bCg, ?_, ?_⟩
    · simp only [encode, hslot, eRef, ePos, eLn, hlseq, eMref, eMpos, eName, eCig, eSeq, eQual, eData, eCg,
        encCgIf, bind, Except.bind, pure, Except.pure, if_true]
    · have h1 : 1 ≤ bCg.length := by
        cases bCg with
        | nil => exact absurd rfl hCgne
        | cons _ _ => simp
      have hdd : decData (bData ++ bCg).length (bData ++ bCg) []
          = .ok (keep r.data ++ [(CG, .arr .I (cgInts r.cigar))]) := by
        rw [dData _ [] bCg (by simp; omega) (by simp [hasTag]) hnd]
        obtain ⟨k, hk⟩ : ∃ k, (bData ++ bCg).length - (keep r.data).length = k + 1 :=
          ⟨(bData ++ bCg).length - (keep r.data).length - 1, by simp; omega⟩
        rw [hk, decData]
        have hne : bCg.isEmpty = false := by
          cases bCg with
          | nil => exact absurd rfl hCgne
          | cons _ _ => rfl
        have := dCg []
        rw [List.append_nil] at this
        simp only [hne, Bool.false_eq_true, if_false, this, List.nil_append, hasTag_keep_CG, decData_nil]
      have := decodeRaw_parts r hw (binOf r.pos r.cigar) bRef bPos bLn bMref bMpos bName bCig bSeq bQual
        (bData ++ bCg) _ _ dRef dPos dLn dMref dMpos dName dCig dSeq dQual (by simp) hf.lSeq hdd
      simp only [List.append_assoc] at this ⊢
      rw [this]
      simp [rawOf, norm, hslot]

/-- `resolve` turns `rawOf r` into `norm r` -/
theorem resolve_rawOf (r : Rec) (hw : WF r) : resolve (rawOf r) = .ok (norm r) := by
  by_cases hc : r.cigar.length ≤ 65535
  · have hslot : cigarSlot r.seq.length r.cigar = (r.cigar, false) := by simp [cigarSlot, hc]
    simp only [resolve, rawOf, hslot, Bool.false_eq_true, if_false, List.append_nil, findIdx_keep]
    split <;> rfl
  · have hslot : cigarSlot r.seq.length r.cigar = ([⟨4, r.seq.length⟩, ⟨3, span r.cigar⟩], true) := by
      simp [cigarSlot, hc]
    simp only [resolve, rawOf, hslot, if_true, isPlaceholder, norm, List.length_map, decide_true,
      Bool.and_self, findIdx_keep_cg, List.getElem?_append_right (Nat.le_refl _), Nat.sub_self,
      List.getElem?_cons_zero, opsOfNats_cgInts r.cigar hw.kinds, swapRemove_last]
    rfl

/-- The writer accepts every fitting record and the eager decoder reads the bytes back as
`norm r` — both the ordinary path and the `CG` path. -/
theorem roundtrip_main (nref : Nat) (r : Rec) (hw : WF r) (hf : Fits nref r) :
    ∃ b, encode nref r = .ok b ∧ decode b = .ok (norm r) := by
  obtain ⟨b, he, hd⟩ := roundtrip_raw nref r hw hf
  exact ⟨b, he, by simp only [decode, hd, resolve_rawOf r hw]⟩

/-! ## rejection: whatever the writer accepts fits -/

theorem encRefId_inv (nref : Nat) (x : Option Nat) (b : Bytes) (h : encRefId nref x = .ok b) :
    refOk nref x := by
  cases x with
  | none => trivial
  | some id =>
    simp only [encRefId] at h
    by_cases h1 : id < nref
    · by_cases h2 : id ≤ 2147483647
      · exact ⟨h1, h2⟩
      · simp [h1, h2] at h
    · simp [h1] at h

theorem encPos_inv (x : Option Nat) (b : Bytes) (h : encPos x = .ok b) : posOk x := by
  cases x with
  | none => trivial
  | some p =>
    simp only [encPos] at h
    by_cases h1 : p - 1 ≤ 2147483647
    · exact h1
    · simp [h1] at h

theorem encNameLen_inv (x : Option Bytes) (b : Bytes) (h : encNameLen x = .ok b) : nameLenOk x := by
  cases x with
  | none => trivial
  | some s =>
    simp only [encNameLen] at h
    by_cases h1 : s.length + 1 ≤ 255
    · exact h1
    · simp [h1] at h

theorem encName_inv (x : Option Bytes) (b : Bytes) (h : encName x = .ok b) : nameOk x := by
  cases x with
  | none => trivial
  | some s =>
    simp only [encName] at h
    by_cases h1 : nameValid s = true
    · exact h1
    · simp [h1] at h

theorem encOps_inv (ops : List Op) (b : Bytes) (h : encOps ops = .ok b) : opsOk ops := by
  induction ops generalizing b with
  | nil => intro o ho; simp at ho
  | cons o os ih =>
    simp only [encOps, encOp] at h
    by_cases h1 : o.len ≤ 268435455
    · simp only [h1, if_true] at h
      cases h2 : encOps os with
      | error e => simp [h2] at h
      | ok bs =>
        intro x hx
        simp only [List.mem_cons] at hx
        rcases hx with rfl | hx
        · exact h1
        · exact ih bs h2 x hx
    · simp [h1] at h

theorem encSeq_inv (n : Nat) (seq b : Bytes) (h : encSeq n seq = .ok b) :
    seq = [] ∨ ¬ (0 < n ∧ seq.length ≠ n) := by
  by_cases he : seq = []
  · exact Or.inl he
  · right
    intro hc
    have : seq.isEmpty = false := by cases seq <;> simp_all
    simp [encSeq, this, hc] at h

theorem encQual_inv (n : Nat) (q b : Bytes) (h : encQual n q = .ok b) : qualOk n q := by
  unfold encQual at h
  by_cases h1 : q.length = n
  · simp only [h1, if_true] at h
    by_cases h2 : q.all (fun b => decide (b.toNat ≤ 93)) = true
    · left
      refine ⟨h1, ?_⟩
      rw [List.all_eq_true] at h2
      intro x hx
      simpa using h2 x hx
    · simp [h2] at h
  · simp only [h1, if_false] at h
    by_cases h2 : q.isEmpty = true
    · right
      refine ⟨h1, ?_⟩
      cases q with
      | nil => rfl
      | cons _ _ => simp at h2
    · simp [h2] at h

theorem encVal_inv (v : Val) (b : Bytes) (h : encVal v = .ok b) : valOk v := by
  cases v with
  | char c => trivial
  | num t x => trivial
  | str s =>
    by_cases h1 : strValid s = true
    · exact h1
    · simp [encVal, h1] at h
  | hex s =>
    by_cases h1 : hexValid s = true
    · exact h1
    · simp [encVal, h1] at h
  | arr t vs =>
    by_cases h1 : vs.length ≤ 4294967295
    · exact h1
    · simp [encVal, h1] at h

theorem encData_inv (d : List (Tag × Val)) (b : Bytes) (h : encData d = .ok b) : dataOk d := by
  induction d generalizing b with
  | nil => intro f hf; simp at hf
  | cons f rest ih =>
    obtain ⟨t, v⟩ := f
    simp only [encData] at h
    by_cases ht : t = CG
    · simp only [ht, if_true] at h
      intro x hx hne
      simp only [List.mem_cons] at hx
      rcases hx with rfl | hx
      · exact absurd ht hne
      · exact ih b h x hx hne
    · simp only [ht, if_false, encField] at h
      cases h1 : encVal v with
      | error e => simp [h1] at h
      | ok vb =>
        simp only [h1] at h
        cases h2 : encData rest with
        | error e => simp [h2] at h
        | ok bs =>
          intro x hx hne
          simp only [List.mem_cons] at hx
          rcases hx with rfl | hx
          · exact encVal_inv v vb h1
          · exact ih bs h2 x hx hne

theorem encCg_inv (ops : List Op) (b : Bytes) (h : encCg ops = .ok b) :
    ops.length ≤ 4294967295 ∧ opsOk ops := by
  unfold encCg at h
  by_cases h1 : ops.length ≤ 4294967295
  · simp only [h1, if_true] at h
    cases h2 : encOps ops with
    | error e => simp [h2] at h
    | ok bs => exact ⟨h1, encOps_inv ops bs h2⟩
  · simp [h1] at h

theorem bind_ok_inv {α β : Type} (x : Except Err α) (f : α → Except Err β) (y : β)
    (h : (x >>= f) = .ok y) : ∃ a, x = .ok a ∧ f a = .ok y := by
  cases x with
  | error e => simp [bind, Except.bind] at h
  | ok a => exact ⟨a, rfl, h⟩

/-- whatever the writer accepts fits: every rejection condition of `Fits` is enforced -/
theorem fits_of_encode_ok (nref : Nat) (r : Rec) (b : Bytes) (h : encode nref r = .ok b) :
    Fits nref r := by
  unfold encode at h
  obtain ⟨bRef, hRef, h⟩ := bind_ok_inv _ _ _ h
  obtain ⟨bPos, hPos, h⟩ := bind_ok_inv _ _ _ h
  obtain ⟨bLn, hLn, h⟩ := bind_ok_inv _ _ _ h
  obtain ⟨bLs, hLs, h⟩ := bind_ok_inv _ _ _ h
  obtain ⟨bMref, hMref, h⟩ := bind_ok_inv _ _ _ h
  obtain ⟨bMpos, hMpos, h⟩ := bind_ok_inv _ _ _ h
  obtain ⟨bName, hName, h⟩ := bind_ok_inv _ _ _ h
  obtain ⟨bCig, hCig, h⟩ := bind_ok_inv _ _ _ h
  obtain ⟨bSeq, hSeq, h⟩ := bind_ok_inv _ _ _ h
  obtain ⟨bQual, hQual, h⟩ := bind_ok_inv _ _ _ h
  obtain ⟨bData, hData, h⟩ := bind_ok_inv _ _ _ h
  obtain ⟨bCg, hCg, h⟩ := bind_ok_inv _ _ _ h
  refine ⟨encRefId_inv _ _ _ hRef, encPos_inv _ _ hPos, encNameLen_inv _ _ hLn, ?_,
    encRefId_inv _ _ _ hMref, encPos_inv _ _ hMpos, encName_inv _ _ hName,
    encOps_inv _ _ hCig, encSeq_inv _ _ _ hSeq, encQual_inv _ _ _ hQual, encData_inv _ _ hData, ?_⟩
  · by_cases h1 : r.seq.length ≤ 4294967295
    · exact h1
    · simp [encSeqLen, h1] at hLs
  · intro hc
    have hn : ¬ r.cigar.length ≤ 65535 := by omega
    have : (cigarSlot r.seq.length r.cigar).2 = true := by
      simp [cigarSlot, hn]
    rw [this] at hCg
    simp only [encCgIf, if_true] at hCg
    exact encCg_inv _ _ hCg

/-! ## the stored bin -/

theorem regionToBin_eq (s e : Nat) (he : e ≤ 536870912) :
    regionToBin s e = Noodles.Csi.reg2bin (s - 1) (e - 1) 14 5 := by
  have h14 : ∀ x : Nat, x >>> 14 = x / 16384 := fun x => by rw [Nat.shiftRight_eq_div_pow]
  have h17 : ∀ x : Nat, x >>> 17 = x / 131072 := fun x => by rw [Nat.shiftRight_eq_div_pow]
  have h20 : ∀ x : Nat, x >>> 20 = x / 1048576 := fun x => by rw [Nat.shiftRight_eq_div_pow]
  have h23 : ∀ x : Nat, x >>> 23 = x / 8388608 := fun x => by rw [Nat.shiftRight_eq_div_pow]
  have h26 : ∀ x : Nat, x >>> 26 = x / 67108864 := fun x => by rw [Nat.shiftRight_eq_div_pow]
  have c0 : (1 <<< 15 - 1) / 7 = 4681 := by decide
  have d1 : 1 <<< (4 * 3) = 4096 := by decide
  have d2 : 1 <<< (3 * 3) = 512 := by decide
  have d3 : 1 <<< (2 * 3) = 64 := by decide
  have d4 : 1 <<< (1 * 3) = 8 := by decide
  simp only [regionToBin, Noodles.Csi.reg2bin, Noodles.Csi.reg2binLoop]
  simp only [h14, h17, h20, h23, h26, c0, d1, d2, d3, d4]
  by_cases a0 : (s - 1) / 16384 = (e - 1) / 16384
  · simp only [a0, if_true]; omega
  by_cases a1 : (s - 1) / 131072 = (e - 1) / 131072
  · simp only [a0, a1, if_true, if_false]; omega
  by_cases a2 : (s - 1) / 1048576 = (e - 1) / 1048576
  · simp only [a0, a1, a2, if_true, if_false]; omega
  by_cases a3 : (s - 1) / 8388608 = (e - 1) / 8388608
  · simp only [a0, a1, a2, a3, if_true, if_false]; omega
  by_cases a4 : (s - 1) / 67108864 = (e - 1) / 67108864
  · simp only [a0, a1, a2, a3, a4, if_true, if_false]; omega
  · simp only [a0, a1, a2, a3, a4, if_false]

end Noodles.Bam
