import Noodles.Bam.Record
/-!
# Specification vocabulary for C05 (used in the statements of `Noodles/Props/C05.lean`)

* `WF r`   — the invariants the Rust types of `RecordBuf` guarantee (nothing the writer checks);
* `Fits nref r` — every length / count / coordinate / character class fits its BAM field
  (exactly the writer's acceptance condition, see `encode_ok_iff_fits`);
* `norm r` — what an accepted record reads back as.
-/
namespace Noodles.Bam
open Noodles.Codec

/-- value invariants of the Rust types (`i8`, `u16`, …) -/
def valWF : Val → Prop
  | .num t v => t.inRange v
  | .arr t vs => ∀ v ∈ vs, t.inRange v
  | _ => True

/-- invariants of `RecordBuf`'s types: `Flags` (12 bits), `Position` (≥ 1), `MappingQuality`
(≠ 255), `Kind` (9 kinds), `i32` template length, typed aux values, data is a map -/
structure WF (r : Rec) : Prop where
  flags : r.flags < 4096
  pos : ∀ p, r.pos = some p → 1 ≤ p
  matePos : ∀ p, r.matePos = some p → 1 ≤ p
  mapq : ∀ q, r.mapq = some q → q < 255
  kinds : ∀ o ∈ r.cigar, o.kind ≤ 8
  tlen : -2147483648 ≤ r.tlen ∧ r.tlen < 2147483648
  vals : ∀ f ∈ r.data, valWF f.2
  tags : (r.data.map (·.1)).Nodup

def refOk (nref : Nat) : Option Nat → Prop
  | none => True
  | some id => id < nref ∧ id ≤ 2147483647

def posOk : Option Nat → Prop
  | none => True
  | some p => p - 1 ≤ 2147483647

def nameLenOk : Option Bytes → Prop
  | none => True
  | some s => s.length + 1 ≤ 255

def nameOk : Option Bytes → Prop
  | none => True
  | some s => nameValid s = true

def opsOk (ops : List Op) : Prop := ∀ o ∈ ops, o.len ≤ 268435455

def seqOk (cigar : List Op) (seq : Bytes) : Prop :=
  seq = [] ∨ ¬ (0 < readLen cigar ∧ seq.length ≠ readLen cigar)

def qualOk (baseCount : Nat) (q : Bytes) : Prop :=
  (q.length = baseCount ∧ ∀ b ∈ q, b.toNat ≤ 93) ∨ (q.length ≠ baseCount ∧ q = [])

def valOk : Val → Prop
  | .str s => strValid s = true
  | .hex s => hexValid s = true
  | .arr _ vs => vs.length ≤ 4294967295
  | _ => True

def dataOk (d : List (Tag × Val)) : Prop := ∀ f ∈ d, f.1 ≠ CG → valOk f.2

/-- The writer's acceptance condition. -/
structure Fits (nref : Nat) (r : Rec) : Prop where
  refId : refOk nref r.refId
  pos : posOk r.pos
  nameLen : nameLenOk r.name
  lSeq : r.seq.length ≤ 4294967295
  mateRefId : refOk nref r.mateRefId
  matePos : posOk r.matePos
  name : nameOk r.name
  slot : opsOk (cigarSlot r.seq.length r.cigar).1
  seq : seqOk r.cigar r.seq
  qual : qualOk r.seq.length r.qual
  data : dataOk r.data
  cg : 65535 < r.cigar.length → r.cigar.length ≤ 4294967295 ∧ opsOk r.cigar

/-- `decode ∘ encode` on bases: upper-cased, anything outside `=ACMGRSVTWYHKDBN` becomes `N` -/
def normBase (b : UInt8) : UInt8 := baseChar (baseCode b)

/-- what an accepted record reads back as: bases folded; a `CG` field of the record is not
written (the tag is reserved for the long-CIGAR convention) -/
def norm (r : Rec) : Rec :=
  { r with seq := r.seq.map normBase, data := r.data.filter (fun f => f.1 != CG) }

end Noodles.Bam
