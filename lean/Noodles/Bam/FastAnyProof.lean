import Noodles.Bam.Reenc
import Noodles.Bam.RecordSpec
import Noodles.Bam.RecordProof
import Noodles.Bam.LazyProof
import Noodles.Bam.ReencProof
import Noodles.Bam.RecordRefProof
namespace Noodles.Bam
open Noodles.Codec

theorem any_bind_ok {α β : Type} (x : W α) (f : α → W β) (y : β) (h : (x >>= f) = .ok y) :
    ∃ a, x = .ok a ∧ f a = .ok y := by
  cases x with
  | error e => cases h
  | ok a => exact ⟨a, rfl, h⟩

theorem any_liftIn_ok {α : Type} (x : Except Err α) (a : α) (h : liftIn x = .ok a) : x = .ok a := by
  cases x with
  | error e => cases h
  | ok a' => simpa [liftIn] using h

/-- what a successful `encodeView` run went through (a one-constructor `Prop`, so that taking it
apart is a single `cases`) -/
inductive any_EncInv (nref : Nat) (v : View) (out : Bytes) : Prop
  | intro (refId : Option Nat) (bRef : Bytes) (pos : Option Nat) (bPos : Bytes) (name : Option Bytes)
      (lName : Bytes) (mapq aend : Option Nat) (s : Nat × Bytes) (c : CigarV)
      (ov : Nat × Option (List Op)) (flags : Nat) (lSeq : Bytes) (mref : Option Nat) (bMref : Bytes)
      (mpos : Option Nat) (bMpos : Bytes) (tlen : Int) (bName bCig : Bytes) (rl : Nat) (sr : SeqRef)
      (bSeq : Bytes) (qr : QualRef) (bQual : Bytes) (dr : DataRef) (bData bCg : Bytes)
      (h1 : v.refId = .ok refId) (h2 : encRefId nref refId = .ok bRef) (h3 : v.pos = .ok pos)
      (h4 : encPos pos = .ok bPos) (h5 : v.name = .ok name) (h6 : encNameLen name = .ok lName)
      (h7 : v.mapq = .ok mapq) (h8 : alignmentEndV pos v.cigar = .ok aend) (h9 : v.seq = .ok s)
      (h10 : v.cigar = .ok c) (h11 : overflowV s.1 c = .ok ov) (h12 : v.flags = .ok flags)
      (h13 : encSeqLen s.1 = .ok lSeq) (h14 : v.mateRefId = .ok mref)
      (h15 : encRefId nref mref = .ok bMref) (h16 : v.matePos = .ok mpos)
      (h17 : encPos mpos = .ok bMpos) (h18 : v.tlen = .ok tlen) (h19 : encName name = .ok bName)
      (h20 : (match ov.2 with
        | some ph => liftIn (encOps ph)
        | none => do let cr ← v.cigarRef; writeCigarRef v.cigar cr) = .ok bCig)
      (h21 : readLenI c.ops = .ok rl) (h22 : v.seqRef = .ok sr) (h23 : writeSeqRef rl s sr = .ok bSeq)
      (h24 : v.qualRef = .ok qr) (h25 : writeQualRef s.1 v.qual qr = .ok bQual)
      (h26 : v.dataRef = .ok dr) (h27 : writeDataRef v.data dr = .ok bData)
      (h28 : (match ov.2 with
        | some _ => writeCgV c
        | none => .ok []) = .ok bCg)
      (hout : out = bRef ++ bPos ++ lName ++ [UInt8.ofNat (mapq.getD 255)] ++ le 2 (binOfEnd pos aend)
        ++ le 2 ov.1 ++ le 2 flags ++ lSeq ++ bMref ++ bMpos ++ le 4 (toU 4 tlen) ++ bName ++ bCig
        ++ bSeq ++ bQual ++ bData ++ bCg) : any_EncInv nref v out

/-- general inversion of `encodeView` -/
theorem any_encodeView_inv (nref : Nat) (v : View) (out : Bytes) (hw : encodeView nref v = .ok out) :
    any_EncInv nref v out := by
  unfold encodeView at hw
  obtain ⟨refId, h1, hw⟩ := any_bind_ok _ _ _ hw
  obtain ⟨bRef, h2, hw⟩ := any_bind_ok _ _ _ hw
  obtain ⟨pos, h3, hw⟩ := any_bind_ok _ _ _ hw
  obtain ⟨bPos, h4, hw⟩ := any_bind_ok _ _ _ hw
  obtain ⟨name, h5, hw⟩ := any_bind_ok _ _ _ hw
  obtain ⟨lName, h6, hw⟩ := any_bind_ok _ _ _ hw
  obtain ⟨mapq, h7, hw⟩ := any_bind_ok _ _ _ hw
  obtain ⟨aend, h8, hw⟩ := any_bind_ok _ _ _ hw
  obtain ⟨s, h9, hw⟩ := any_bind_ok _ _ _ hw
  obtain ⟨c, h10, hw⟩ := any_bind_ok _ _ _ hw
  obtain ⟨ov, h11, hw⟩ := any_bind_ok _ _ _ hw
  obtain ⟨flags, h12, hw⟩ := any_bind_ok _ _ _ hw
  obtain ⟨lSeq, h13, hw⟩ := any_bind_ok _ _ _ hw
  obtain ⟨mref, h14, hw⟩ := any_bind_ok _ _ _ hw
  obtain ⟨bMref, h15, hw⟩ := any_bind_ok _ _ _ hw
  obtain ⟨mpos, h16, hw⟩ := any_bind_ok _ _ _ hw
  obtain ⟨bMpos, h17, hw⟩ := any_bind_ok _ _ _ hw
  obtain ⟨tlen, h18, hw⟩ := any_bind_ok _ _ _ hw
  obtain ⟨bName, h19, hw⟩ := any_bind_ok _ _ _ hw
  obtain ⟨n, o⟩ := ov
  cases o with
  | none =>
    dsimp only at hw
    obtain ⟨cr, hcr, hw⟩ := any_bind_ok _ _ _ hw
    obtain ⟨bCig, h20, hw⟩ := any_bind_ok _ _ _ hw
    obtain ⟨rl, h21, hw⟩ := any_bind_ok _ _ _ hw
    obtain ⟨sr, h22, hw⟩ := any_bind_ok _ _ _ hw
    obtain ⟨bSeq, h23, hw⟩ := any_bind_ok _ _ _ hw
    obtain ⟨qr, h24, hw⟩ := any_bind_ok _ _ _ hw
    obtain ⟨bQual, h25, hw⟩ := any_bind_ok _ _ _ hw
    obtain ⟨dr, h26, hw⟩ := any_bind_ok _ _ _ hw
    obtain ⟨bData, h27, hw⟩ := any_bind_ok _ _ _ hw
    obtain ⟨bCg, h28, hw⟩ := any_bind_ok _ _ _ hw
    simp only [pure, Except.pure, Except.ok.injEq] at hw
    refine ⟨refId, bRef, pos, bPos, name, lName, mapq, aend, s, c, (n, none), flags, lSeq, mref, bMref,
      mpos, bMpos, tlen, bName, bCig, rl, sr, bSeq, qr, bQual, dr, bData, bCg,
      h1, any_liftIn_ok _ _ h2, h3, any_liftIn_ok _ _ h4, h5, any_liftIn_ok _ _ h6, h7, h8, h9, h10, h11,
      h12, any_liftIn_ok _ _ h13, h14, any_liftIn_ok _ _ h15, h16, any_liftIn_ok _ _ h17, h18,
      any_liftIn_ok _ _ h19, ?_, h21, h22, h23, h24, h25, h26, h27, h28, hw.symm⟩
    dsimp only
    rw [hcr]
    exact h20
  | some ph =>
    dsimp only at hw
    obtain ⟨bCig, h20, hw⟩ := any_bind_ok _ _ _ hw
    obtain ⟨rl, h21, hw⟩ := any_bind_ok _ _ _ hw
    obtain ⟨sr, h22, hw⟩ := any_bind_ok _ _ _ hw
    obtain ⟨bSeq, h23, hw⟩ := any_bind_ok _ _ _ hw
    obtain ⟨qr, h24, hw⟩ := any_bind_ok _ _ _ hw
    obtain ⟨bQual, h25, hw⟩ := any_bind_ok _ _ _ hw
    obtain ⟨dr, h26, hw⟩ := any_bind_ok _ _ _ hw
    obtain ⟨bData, h27, hw⟩ := any_bind_ok _ _ _ hw
    obtain ⟨bCg, h28, hw⟩ := any_bind_ok _ _ _ hw
    simp only [pure, Except.pure, Except.ok.injEq] at hw
    exact ⟨refId, bRef, pos, bPos, name, lName, mapq, aend, s, c, (n, some ph), flags, lSeq, mref, bMref,
      mpos, bMpos, tlen, bName, bCig, rl, sr, bSeq, qr, bQual, dr, bData, bCg,
      h1, any_liftIn_ok _ _ h2, h3, any_liftIn_ok _ _ h4, h5, any_liftIn_ok _ _ h6, h7, h8, h9, h10, h11,
      h12, any_liftIn_ok _ _ h13, h14, any_liftIn_ok _ _ h15, h16, any_liftIn_ok _ _ h17, h18,
      any_liftIn_ok _ _ h19, h20, h21, h22, h23, h24, h25, h26, h27, h28, hw.symm⟩

/-! ## accessors as functions of the five segments -/

def any_nameOf (buf : Bytes) : L (Option Bytes) :=
  if buf = [42, 0] then .ok none
  else if buf.getLast? = some 0 then .ok (some buf.dropLast) else .ok (some buf)

def any_cigOf (bc : Nat) (src d : Bytes) : L (Bytes × Bool) :=
  if src.length = 8 then
    let op1 := leVal (src.take 4)
    let op2 := leVal ((src.drop 4).take 4)
    if op1 % 16 = 4 ∧ op1 / 16 = bc ∧ op2 % 16 = 3 then
      match getRawCigar d.length d with
      | .ok (some buf) => .ok (buf, true)
      | _ => .ok (src, false)
    else .ok (src, false)
  else .ok (src, false)

def any_seqOf (bc : Nat) (src : Bytes) : L Bytes :=
  if bc < src.length * 2 then .ok (unpackBases src).dropLast else .ok (unpackBases src)

def any_qualOf (src : Bytes) : L Bytes := if src.all (· == 255) then .ok [] else .ok src

theorem any_slice_pre (m s : Bytes) (c : Nat) (hc : c = m.length) : slice (m ++ s) 0 c = .ok m := by
  subst hc
  rw [slice_ok _ _ _ (Nat.zero_le _) (by simp)]
  simp

theorem any_slice_mid (p m s : Bytes) (a c : Nat) (ha : a = p.length) (hc : c = a + m.length) :
    slice (p ++ (m ++ s)) a c = .ok m := by
  subst ha; subst hc
  rw [slice_ok _ _ _ (Nat.le_add_right _ _) (by simp only [List.length_append]; omega)]
  rw [List.drop_left, Nat.add_sub_cancel_left, List.take_left]

theorem any_slice_suf (p m : Bytes) (a c : Nat) (ha : a = p.length) (hc : c = (p ++ m).length) :
    slice (p ++ m) a c = .ok m := by
  subst ha; subst hc
  rw [slice_ok _ _ _ (by simp) (Nat.le_refl _)]
  rw [List.drop_left]
  simp

/-- the bytes `x` are a 32-byte fixed part followed by the five segments its counts announce -/
structure any_Layout (x nm cg sq ql dt : Bytes) : Prop where
  rest : lRest x = nm ++ (cg ++ (sq ++ (ql ++ dt)))
  len : 32 ≤ x.length
  hnm : lNameLen x = nm.length
  hcg : lOpCount x * 4 = cg.length
  hsq : (lBaseCount x + 1) / 2 = sq.length
  hql : lBaseCount x = ql.length

theorem any_lay_name {x nm cg sq ql dt : Bytes} (h : any_Layout x nm cg sq ql dt) :
    lazyName x = any_nameOf nm := by
  unfold lazyName any_nameOf
  rw [h.rest, any_slice_pre _ _ _ h.hnm]

theorem any_lay_raw {x nm cg sq ql dt : Bytes} (h : any_Layout x nm cg sq ql dt) :
    lazyRawData x = .ok dt := by
  unfold lazyRawData
  simp only
  rw [h.rest]
  have e : nm ++ (cg ++ (sq ++ (ql ++ dt))) = (nm ++ cg ++ sq ++ ql) ++ dt := by
    simp only [List.append_assoc]
  rw [e]
  have h1 := h.hnm; have h2 := h.hcg; have h3 := h.hsq; have h4 := h.hql
  exact any_slice_suf _ _ _ _ (by simp only [List.length_append]; omega) rfl

theorem any_lay_cb {x nm cg sq ql dt : Bytes} (h : any_Layout x nm cg sq ql dt) :
    lazyCigarBytes x = any_cigOf (lBaseCount x) cg dt := by
  unfold lazyCigarBytes any_cigOf
  simp only
  rw [any_lay_raw h, h.rest, any_slice_mid _ _ _ _ _ h.hnm (by rw [h.hcg])]
  rfl

theorem any_lay_seq {x nm cg sq ql dt : Bytes} (h : any_Layout x nm cg sq ql dt) :
    lazySeq x = any_seqOf (lBaseCount x) sq := by
  unfold lazySeq any_seqOf
  simp only
  rw [h.rest]
  have e : nm ++ (cg ++ (sq ++ (ql ++ dt))) = (nm ++ cg) ++ (sq ++ (ql ++ dt)) := by
    simp only [List.append_assoc]
  rw [e, any_slice_mid _ _ _ _ _ (by simp only [List.length_append, h.hnm, h.hcg]) (by rw [h.hsq])]

theorem any_lay_qual {x nm cg sq ql dt : Bytes} (h : any_Layout x nm cg sq ql dt) :
    lazyQual x = any_qualOf ql := by
  unfold lazyQual any_qualOf
  simp only
  rw [h.rest]
  have e : nm ++ (cg ++ (sq ++ (ql ++ dt))) = (nm ++ cg ++ sq) ++ (ql ++ dt) := by
    simp only [List.append_assoc]
  have h1 := h.hnm; have h2 := h.hcg; have h3 := h.hsq
  rw [e, any_slice_mid _ _ _ _ _ (by simp only [List.length_append]; omega) (by rw [h.hql])]

theorem any_lay_valid {x nm cg sq ql dt : Bytes} (h : any_Layout x nm cg sq ql dt) :
    validate x = .ok () := by
  rw [validate_iff]
  refine ⟨h.len, ?_⟩
  have h1 := lRest_length x
  rw [h.rest] at h1
  simp only [List.length_append] at h1
  unfold lDataStart
  have := h.len
  rw [h.hnm, h.hcg, h.hsq, h.hql]
  omega

/-! ## the layout of validated bytes -/

theorem any_layout_b (b : Bytes) (hv : validate b = .ok ()) :
    any_Layout b (segName b) (lCigarSrc b) (segSeq b) (segQual b) (segData b) := by
  obtain ⟨h32, hl⟩ := (validate_iff b).mp hv
  refine ⟨?_, h32, (segName_length b hl).symm, (lCigarSrc_length b hl).symm, (segSeq_length b hl).symm,
    (segQual_length b hl).symm⟩
  have e := congrArg (List.drop 32) (body_split b hl)
  simp only [List.append_assoc] at e
  rw [List.drop_left' (by rw [List.length_take]; omega)] at e
  exact e

/-! ## the header of the written bytes -/

theorem any_len1 (f : Bytes) (h : f.length = 1) : ∃ a, f = [a] := by
  rcases f with _ | ⟨a, _ | ⟨b, r⟩⟩
  · simp at h
  · exact ⟨a, rfl⟩
  · simp at h

theorem any_len2 (f : Bytes) (h : f.length = 2) : ∃ a b, f = [a, b] := by
  rcases f with _ | ⟨a, _ | ⟨b, _ | ⟨c, r⟩⟩⟩
  · simp at h
  · simp at h
  · exact ⟨a, b, rfl⟩
  · simp at h

theorem any_len4 (f : Bytes) (h : f.length = 4) : ∃ a b c d, f = [a, b, c, d] := by
  rcases f with _ | ⟨a, _ | ⟨b, _ | ⟨c, _ | ⟨d, _ | ⟨e, r⟩⟩⟩⟩⟩
  · simp at h
  · simp at h
  · simp at h
  · simp at h
  · exact ⟨a, b, c, d, rfl⟩
  · simp at h

theorem any_head_fields (f0 f4 f8 f9 f10 f12 f14 f16 f20 f24 f28 r : Bytes)
    (h0 : f0.length = 4) (h4 : f4.length = 4) (h8 : f8.length = 1) (h9 : f9.length = 1)
    (h10 : f10.length = 2) (h12 : f12.length = 2) (h14 : f14.length = 2) (h16 : f16.length = 4)
    (h20 : f20.length = 4) (h24 : f24.length = 4) (h28 : f28.length = 4) (x : Bytes)
    (hx : x = f0 ++ (f4 ++ (f8 ++ (f9 ++ (f10 ++ (f12 ++ (f14 ++ (f16 ++ (f20 ++ (f24 ++ (f28 ++ r))))))))))) :
    headU x 0 4 = leVal f0 ∧ headU x 4 4 = leVal f4 ∧ headU x 8 1 = leVal f8 ∧ headU x 9 1 = leVal f9 ∧
    headU x 12 2 = leVal f12 ∧ headU x 14 2 = leVal f14 ∧ headU x 16 4 = leVal f16 ∧
    headU x 20 4 = leVal f20 ∧ headU x 24 4 = leVal f24 ∧ headU x 28 4 = leVal f28 ∧
    lRest x = r ∧ x.length = 32 + r.length := by
  obtain ⟨a0, a1, a2, a3, rfl⟩ := any_len4 f0 h0
  obtain ⟨a4, a5, a6, a7, rfl⟩ := any_len4 f4 h4
  obtain ⟨a8, rfl⟩ := any_len1 f8 h8
  obtain ⟨a9, rfl⟩ := any_len1 f9 h9
  obtain ⟨a10, a11, rfl⟩ := any_len2 f10 h10
  obtain ⟨a12, a13, rfl⟩ := any_len2 f12 h12
  obtain ⟨a14, a15, rfl⟩ := any_len2 f14 h14
  obtain ⟨a16, a17, a18, a19, rfl⟩ := any_len4 f16 h16
  obtain ⟨a20, a21, a22, a23, rfl⟩ := any_len4 f20 h20
  obtain ⟨a24, a25, a26, a27, rfl⟩ := any_len4 f24 h24
  obtain ⟨a28, a29, a30, a31, rfl⟩ := any_len4 f28 h28
  subst hx
  refine ⟨rfl, rfl, rfl, rfl, rfl, rfl, rfl, rfl, rfl, rfl, rfl, ?_⟩
  simp only [List.cons_append, List.nil_append, List.length_cons]
  omega

theorem any_head_le (v0 v4 v8 v9 v10 v12 v14 v16 v20 v24 v28 : Nat) (r x : Bytes)
    (b0 : v0 < 256 ^ 4) (b4 : v4 < 256 ^ 4) (b8 : v8 < 256 ^ 1) (b9 : v9 < 256 ^ 1) (b12 : v12 < 256 ^ 2)
    (b14 : v14 < 256 ^ 2) (b16 : v16 < 256 ^ 4) (b20 : v20 < 256 ^ 4) (b24 : v24 < 256 ^ 4)
    (b28 : v28 < 256 ^ 4)
    (hx : x = le 4 v0 ++ (le 4 v4 ++ (le 1 v8 ++ (le 1 v9 ++ (le 2 v10 ++ (le 2 v12 ++ (le 2 v14 ++
      (le 4 v16 ++ (le 4 v20 ++ (le 4 v24 ++ (le 4 v28 ++ r))))))))))) :
    headU x 0 4 = v0 ∧ headU x 4 4 = v4 ∧ headU x 8 1 = v8 ∧ headU x 9 1 = v9 ∧
    headU x 12 2 = v12 ∧ headU x 14 2 = v14 ∧ headU x 16 4 = v16 ∧
    headU x 20 4 = v20 ∧ headU x 24 4 = v24 ∧ headU x 28 4 = v28 ∧
    lRest x = r ∧ x.length = 32 + r.length := by
  have h := any_head_fields _ _ _ _ _ _ _ _ _ _ _ r (le_length 4 v0) (le_length 4 v4) (le_length 1 v8)
    (le_length 1 v9) (le_length 2 v10) (le_length 2 v12) (le_length 2 v14) (le_length 4 v16)
    (le_length 4 v20) (le_length 4 v24) (le_length 4 v28) x hx
  rw [leVal_le 4 v0 b0, leVal_le 4 v4 b4, leVal_le 1 v8 b8, leVal_le 1 v9 b9, leVal_le 2 v12 b12,
    leVal_le 2 v14 b14, leVal_le 4 v16 b16, leVal_le 4 v20 b20, leVal_le 4 v24 b24, leVal_le 4 v28 b28] at h
  exact h

/-! ## the written components -/

theorem any_cigOf_false (bc : Nat) (cg d src : Bytes) (h : any_cigOf bc cg d = .ok (src, false)) :
    src = cg := by
  unfold any_cigOf at h
  simp only at h
  repeat' split at h
  all_goals first
    | (simp only [L.ok.injEq, Prod.mk.injEq] at h; exact h.1.symm)
    | (simp at h)

theorem any_name_rt (name : Option Bytes) (lName bName : Bytes) (h1 : encNameLen name = .ok lName)
    (h2 : encName name = .ok bName) :
    any_nameOf bName = .ok name ∧ lName = le 1 bName.length ∧ bName.length < 256 ^ 1 := by
  cases name with
  | none =>
    simp only [encName, Except.ok.injEq] at h2
    subst h2
    have h1' : Except.ok [UInt8.ofNat 2] = (Except.ok lName : Except Err Bytes) := h1
    simp only [Except.ok.injEq] at h1'
    subst h1'
    refine ⟨rfl, rfl, by decide⟩
  | some s =>
    simp only [encName] at h2
    by_cases hval : nameValid s = true
    · simp only [hval, if_true, Except.ok.injEq] at h2
      subst h2
      unfold encNameLen at h1
      simp only at h1
      by_cases hlen : s.length + 1 ≤ 255
      · simp only [hlen, if_true, Except.ok.injEq] at h1
        subst h1
        have hne : s ≠ [42] := by
          intro h
          subst h
          revert hval
          decide
        refine ⟨?_, ?_, ?_⟩
        · unfold any_nameOf
          have e1 : s ++ [0] ≠ [42, 0] := by
            intro h
            apply hne
            have : s ++ [0] = [42] ++ [0] := h
            exact List.append_cancel_right this
          simp only [e1, if_false, List.getLast?_append, List.getLast?_singleton, Option.some_or,
            if_true, List.dropLast_concat]
        · rw [List.length_append, List.length_singleton, le1 _ (by omega)]
        · rw [List.length_append, List.length_singleton]; omega
      · simp [hlen] at h1
    · simp [hval] at h2

theorem any_qual_eq (ql : Bytes) (bc : Nat) (hlen : ql.length = bc) (q : Bytes)
    (hq : any_qualOf ql = .ok q) (w : W (Nat × Iter UInt8)) (bQual : Bytes)
    (h : writeQualRef bc w (.raw q) = .ok bQual) : bQual = ql := by
  unfold any_qualOf at hq
  unfold writeQualRef qualFrame at h
  by_cases hall : ql.all (· == 255) = true
  · simp only [hall, if_true, L.ok.injEq] at hq
    subst hq
    have hr := all_ff_replicate ql hall
    rw [hlen] at hr
    by_cases h0 : bc = 0
    · subst h0
      simp at h
      rw [h, hr]; rfl
    · have : ¬ (0 = bc) := fun e => h0 e.symm
      simp [this] at h
      rw [← h, ← hr]
  · simp only [hall, Bool.false_eq_true, if_false, L.ok.injEq] at hq
    subst hq
    simp only [hlen, if_true] at h
    split at h
    · simpa using h.symm
    · cases h

theorem any_mapq_byte (b : Bytes) : [UInt8.ofNat ((lazyMapq b).getD 255)] = le 1 (headU b 9 1) := by
  have hlt : headU b 9 1 < 256 := by have := headU_lt b 9 1; omega
  rw [le1 _ hlt]
  unfold lazyMapq
  split
  · next h => rw [h]; rfl
  · rfl

theorem any_tlen (b : Bytes) : le 4 (toU 4 (lazyTlen b)) = le 4 (headU b 28 4) := by
  unfold lazyTlen
  rw [toU_fromU4 _ (by have := headU_lt b 28 4; omega)]

theorem any_toW_ok {α : Type} (x : L α) (a : α) (h : toW x = .ok a) : x = .ok a := by
  cases x with
  | ok a' => simpa [toW] using h
  | err => cases h
  | panic => cases h

/-! ## what `viewRecord b` answers on validated bytes -/

theorem any_vr_cigarRef (b src : Bytes) (fl : Bool) (hcb : lazyCigarBytes b = .ok (src, fl)) :
    (viewRecord b).cigarRef = .ok (.packed src) := by
  simp only [viewRecord, hcb]

theorem any_vr_cigar (b src : Bytes) (fl : Bool) (hcb : lazyCigarBytes b = .ok (src, fl)) :
    (viewRecord b).cigar = .ok ⟨src.length / 4, opsIter src⟩ := by
  simp only [viewRecord, viewRef, cigarV, hcb]

theorem any_vr_seqRef (b : Bytes) (hl : lDataStart b ≤ b.length) :
    (viewRecord b).seqRef = .ok (.packed (segSeq b) (lBaseCount b)) := by
  simp only [viewRecord, lSeqSrc_eq b hl]

theorem any_vr_dataRef (b src : Bytes) (hl : lDataStart b ≤ b.length)
    (hcb : lazyCigarBytes b = .ok (src, false)) :
    (viewRecord b).dataRef = .ok (.encoded (segData b)) := by
  simp only [viewRecord, dataSrc_eq b hl src false hcb]
  rfl

theorem any_vr_qualRef (b : Bytes) (hv : validate b = .ok ()) :
    ∃ q, any_qualOf (segQual b) = .ok q ∧ (viewRecord b).qualRef = .ok (.raw q) := by
  have e := any_lay_qual (any_layout_b b hv)
  by_cases hall : (segQual b).all (· == 255) = true
  · refine ⟨[], by simp only [any_qualOf, hall, if_true], ?_⟩
    simp only [viewRecord, e, any_qualOf, hall, if_true]
  · refine ⟨segQual b, by simp only [any_qualOf, hall, Bool.false_eq_true, if_false], ?_⟩
    simp only [viewRecord, e, any_qualOf, hall, Bool.false_eq_true, if_false]

theorem any_seqV_fst (b : Bytes) (s : Nat × Bytes) (h : seqV b = .ok s) : s.1 = lBaseCount b := by
  unfold seqV at h
  split at h
  · simp only [Except.ok.injEq] at h
    rw [← h]
  · cases h
  · cases h

theorem any_encSeqLen (n : Nat) (lSeq : Bytes) (h : encSeqLen n = .ok lSeq) : lSeq = le 4 n := by
  unfold encSeqLen at h
  split at h
  · simpa using h.symm
  · cases h

theorem any_overflowV (bc n : Nat) (it : Iter Op) (hn : n ≤ 65535) (ov : Nat × Option (List Op))
    (h : overflowV bc ⟨n, it⟩ = .ok ov) : ov = (n, none) := by
  unfold overflowV at h
  simp only [hn, if_true, Except.ok.injEq] at h
  exact h.symm

/-! ## the explicit form of the written bytes -/

theorem any_out_form (nref : Nat) (b out src : Bytes) (hv : validate b = .ok ())
    (hcb : lazyCigarBytes b = .ok (src, false))
    (hw : encodeView nref (viewRecord b) = .ok out) :
    ∃ bin name', any_nameOf name' = lazyName b ∧ name'.length < 256 ^ 1 ∧
      out = le 4 (headU b 0 4) ++ (le 4 (headU b 4 4) ++ (le 1 name'.length ++ (le 1 (headU b 9 1) ++
        (le 2 bin ++ (le 2 (lOpCount b) ++ (le 2 (headU b 14 2 % 4096) ++ (le 4 (lBaseCount b) ++
        (le 4 (headU b 20 4) ++ (le 4 (headU b 24 4) ++ (le 4 (headU b 28 4) ++ (name' ++ (lCigarSrc b ++
        (segSeq b ++ (segQual b ++ segData b)))))))))))))) := by
  have hl := validate_inv b hv
  have lay := any_layout_b b hv
  have hsrc : src = lCigarSrc b := any_cigOf_false _ _ _ _ (by rw [← any_lay_cb lay]; exact hcb)
  subst hsrc
  obtain ⟨refId, bRef, pos, bPos, name, lName, mapq, aend, s, c, ov, flags, lSeq, mref, bMref, mpos,
    bMpos, tlen, bName, bCig, rl, sr, bSeq, qr, bQual, dr, bData, bCg, h1, h2, h3, h4, h5, h6, h7, h8,
    h9, h10, h11, h12, h13, h14, h15, h16, h17, h18, h19, h20, h21, h22, h23, h24, h25, h26, h27, h28,
    hout⟩ := any_encodeView_inv nref _ out hw
  -- core fields
  have e1 : bRef = le 4 (headU b 0 4) := core_ref nref _ refId bRef (any_toW_ok _ _ h1) h2
  have e3 : bPos = le 4 (headU b 4 4) := core_pos _ pos bPos (any_toW_ok _ _ h3) h4
  have e14 : bMref = le 4 (headU b 20 4) := core_ref nref _ mref bMref (any_toW_ok _ _ h14) h15
  have e16 : bMpos = le 4 (headU b 24 4) := core_pos _ mpos bMpos (any_toW_ok _ _ h16) h17
  have e5 : lazyName b = .ok name := any_toW_ok _ _ h5
  obtain ⟨n1, n2, n3⟩ := any_name_rt name lName bName h6 h19
  have e7 : mapq = lazyMapq b := by
    have : (Except.ok (lazyMapq b) : W (Option Nat)) = .ok mapq := h7
    simpa using this.symm
  have e12 : flags = lazyFlags b := by
    have : (Except.ok (lazyFlags b) : W Nat) = .ok flags := h12
    simpa using this.symm
  have e18 : tlen = lazyTlen b := by
    have : (Except.ok (lazyTlen b) : W Int) = .ok tlen := h18
    simpa using this.symm
  have e9 : s.1 = lBaseCount b := any_seqV_fst b s h9
  have e13 : lSeq = le 4 (lBaseCount b) := by rw [← e9]; exact any_encSeqLen _ _ h13
  -- CIGAR
  have hclen := lCigarSrc_length b hl
  have hop : lOpCount b < 256 ^ 2 := headU_lt b 12 2
  rw [any_vr_cigar b _ false hcb] at h10
  simp only [Except.ok.injEq] at h10
  subst h10
  have hdiv : (lCigarSrc b).length / 4 = lOpCount b := by rw [hclen]; omega
  have e11 := any_overflowV s.1 _ _ (by rw [hdiv]; omega) ov h11
  subst e11
  rw [hdiv] at hout
  have e20 : bCig = lCigarSrc b := by
    simp only [any_vr_cigarRef b _ false hcb] at h20
    exact writePackedCigar_ok _ _ h20
  have e28 : bCg = [] := by
    simp only [Except.ok.injEq] at h28
    exact h28.symm
  -- sequence, qualities, data
  rw [any_vr_seqRef b hl] at h22
  simp only [Except.ok.injEq] at h22
  subst h22
  have e23 : bSeq = segSeq b := writeSeqRef_packed_ok _ _ _ _ _ h23 (segSeq_length b hl)
  obtain ⟨q, hq, hqr⟩ := any_vr_qualRef b hv
  rw [hqr] at h24
  simp only [Except.ok.injEq] at h24
  subst h24
  have e25 : bQual = segQual b := any_qual_eq _ _ (by rw [e9]; exact segQual_length b hl) q hq _ _ h25
  rw [any_vr_dataRef b _ hl hcb] at h26
  simp only [Except.ok.injEq] at h26
  subst h26
  have e27 : bData = segData b := writeDataRef_encoded_ok _ _ _ h27
  refine ⟨binOfEnd pos aend, bName, ?_, n3, ?_⟩
  · rw [n1, e5]
  · rw [hout, e1, e3, n2, e7, any_mapq_byte, e12, e13, e14, e16, e18, any_tlen, e20, e23, e25, e27, e28]
    simp only [List.append_assoc, List.append_nil, lazyFlags]

/-- ANY validated bytes, CIGAR read from the CIGAR slot (not from a CG field): whatever the writer
accepts on the fast paths passes `validate` again and every lazy accessor returns what it returned on
the original. -/
theorem any_slot_roundtrip (nref : Nat) (b out src : Bytes) (hv : validate b = .ok ())
    (hcb : lazyCigarBytes b = .ok (src, false))
    (hw : encodeView nref (viewRecord b) = .ok out) :
    validate out = .ok () ∧
    lazyRefId out = lazyRefId b ∧ lazyPos out = lazyPos b ∧ lazyName out = lazyName b ∧
    lazyMapq out = lazyMapq b ∧ lazyFlags out = lazyFlags b ∧
    lazyMateRefId out = lazyMateRefId b ∧ lazyMatePos out = lazyMatePos b ∧ lazyTlen out = lazyTlen b ∧
    lazyCigarBytes out = lazyCigarBytes b ∧ lazyCigar out = lazyCigar b ∧
    lazySeq out = lazySeq b ∧ lazyQual out = lazyQual b ∧
    lazyRawData out = lazyRawData b ∧ lazyData out = lazyData b := by
  obtain ⟨bin, name', hname, hnlen, hout⟩ := any_out_form nref b out src hv hcb hw
  have lay := any_layout_b b hv
  have hfl : headU b 14 2 % 4096 < 256 ^ 2 := by omega
  obtain ⟨g0, g4, g8, g9, g12, g14, g16, g20, g24, g28, grest, glen⟩ :=
    any_head_le _ _ _ _ _ _ _ _ _ _ _ _ out (headU_lt b 0 4) (headU_lt b 4 4) hnlen (headU_lt b 9 1)
      (headU_lt b 12 2) hfl (headU_lt b 16 4) (headU_lt b 20 4) (headU_lt b 24 4) (headU_lt b 28 4) hout
  have gop : lOpCount out = lOpCount b := g12
  have gbc : lBaseCount out = lBaseCount b := g16
  have layo : any_Layout out name' (lCigarSrc b) (segSeq b) (segQual b) (segData b) :=
    ⟨grest, by omega, g8, by rw [gop]; exact lay.hcg, by rw [gbc]; exact lay.hsq,
      by rw [gbc]; exact lay.hql⟩
  have hcbeq : lazyCigarBytes out = lazyCigarBytes b := by
    rw [any_lay_cb layo, any_lay_cb lay, gbc]
  have hraw : lazyRawData out = lazyRawData b := by
    rw [any_lay_raw layo, any_lay_raw lay]
  refine ⟨any_lay_valid layo, ?_, ?_, ?_, ?_, ?_, ?_, ?_, ?_, hcbeq, ?_, ?_, ?_, hraw, ?_⟩
  · unfold lazyRefId; rw [g0]
  · unfold lazyPos; rw [g4]
  · rw [any_lay_name layo, hname]
  · unfold lazyMapq; rw [g9]
  · unfold lazyFlags; rw [g14, Nat.mod_mod]
  · unfold lazyMateRefId; rw [g20]
  · unfold lazyMatePos; rw [g24]
  · unfold lazyTlen; rw [g28]
  · unfold lazyCigar; rw [hcbeq]
  · rw [any_lay_seq layo, any_lay_seq lay, gbc]
  · rw [any_lay_qual layo, any_lay_qual lay]
  · unfold lazyData; rw [hraw, hcbeq]

end Noodles.Bam
