import Noodles.Bam.Reenc
import Noodles.Bam.RecordSpec
import Noodles.Bam.RecordProof
import Noodles.Bam.LazyProof
import Noodles.Bam.ReencProof
import Noodles.Bam.FastDataProof
namespace Noodles.Bam
open Noodles.Codec

/-! ## generic helpers -/

theorem ident_append_cancel {α : Type} {a x c y : List α} (h : a ++ x = c ++ y)
    (hl : a.length = c.length) : a = c ∧ x = y := List.append_inj h hl

theorem ident_encData_keep (d : List (Tag × Val)) :
    encData (d.filter (fun f => f.1 != CG)) = encData d := by
  induction d with
  | nil => rfl
  | cons f rest ih =>
    obtain ⟨t, v⟩ := f
    by_cases ht : t = CG
    · subst ht
      simp only [List.filter_cons, bne_self_eq_false, Bool.false_eq_true, if_false, encData, if_true]
      exact ih
    · have hb : (t != CG) = true := by simpa using ht
      simp only [List.filter_cons, hb, if_true, encData, ht, if_false, ih]

/-- `sequence::write_sequence` on the packed bytes makes the test `encSeq` made on the bases -/
theorem ident_writeSeq_packed (rl : Nat) (seq : Bytes) (s : Nat × Bytes) (src out : Bytes) (n : Nat)
    (he : encSeq rl seq = .ok out) (hn : n = seq.length) (hsrc : src = out) :
    writeSeqRef rl s (.packed src n) = .ok out := by
  subst hn hsrc
  unfold encSeq at he
  unfold writeSeqRef SeqRef.len
  cases seq with
  | nil =>
    simp only [List.isEmpty_nil, if_true, Except.ok.injEq] at he
    simp [he]
  | cons a t =>
    simp only [List.isEmpty_cons, Bool.false_eq_true, if_false] at he
    have h0 : ¬ (a :: t).length = 0 := by simp
    rw [if_neg h0]
    split at he
    · cases he
    · next hc => rw [if_neg hc]

/-- converse of `encodeView_parts`: the components succeed, so `encodeView` does, with their
concatenation -/
theorem ident_encodeView_ok (nref : Nat) (r : Rec) (cr : CigarRef) (sr : SeqRef) (qr : QualRef)
    (dr : DataRef) (hno : NoOverflow r.pos r.cigar)
    (bRef bPos lName lSeq bMref bMpos bName bCig bSeq bQual bData bCg : Bytes)
    (p1 : encRefId nref r.refId = .ok bRef) (p2 : encPos r.pos = .ok bPos)
    (p3 : encNameLen r.name = .ok lName) (p4 : encSeqLen r.seq.length = .ok lSeq)
    (p5 : encRefId nref r.mateRefId = .ok bMref) (p6 : encPos r.matePos = .ok bMpos)
    (p7 : encName r.name = .ok bName)
    (pc : if r.cigar.length ≤ 65535 then
          writeCigarRef (.ok ⟨r.cigar.length, (r.cigar, none)⟩) cr = .ok bCig ∧ bCg = []
        else encOps [⟨4, r.seq.length⟩, ⟨3, span r.cigar⟩] = .ok bCig ∧ encCg r.cigar = .ok bCg)
    (ps : writeSeqRef (readLen r.cigar) (r.seq.length, r.seq) sr = .ok bSeq)
    (pq : writeQualRef r.seq.length (.ok (r.qual.length, (r.qual, none))) qr = .ok bQual)
    (pd : writeDataRef (.ok (r.data, none)) dr = .ok bData) :
    encodeView nref (viewWith r cr sr qr dr) =
      .ok (bRef ++ bPos ++ lName ++ [UInt8.ofNat (r.mapq.getD 255)] ++ le 2 (binOf r.pos r.cigar)
        ++ le 2 (cigarSlot r.seq.length r.cigar).1.length ++ le 2 r.flags ++ lSeq ++ bMref ++ bMpos
        ++ le 4 (toU 4 r.tlen) ++ bName ++ bCig ++ bSeq ++ bQual ++ bData ++ bCg) := by
  unfold encodeView viewWith viewBuf
  simp only [bind, Except.bind, pure, Except.pure, alignmentEndV_buf _ _ _ hno, binOfEnd_eq,
    overflowV_buf _ _ hno.span, readLenI_all _ hno.readLen, p1, p2, p3, p4, p5, p6, p7, liftIn, ps, pq, pd]
  by_cases hc : r.cigar.length ≤ 65535
  · rw [if_pos hc] at pc
    obtain ⟨pc, rfl⟩ := pc
    simp only [cigarSlot, hc, if_true, Bool.false_eq_true, if_false, pc]
  · rw [if_neg hc] at pc
    obtain ⟨pc, pg⟩ := pc
    simp only [cigarSlot, hc, if_true, if_false, writeCgV_all, pc, pg, liftIn]

/-- `encode` accepted: its seventeen parts -/
theorem ident_encode_parts (nref : Nat) (r : Rec) (b : Bytes) (h : encode nref r = .ok b) :
    ∃ bRef bPos bLn bLs bMref bMpos bName bCig bSeq bQual bData bCg,
      encRefId nref r.refId = .ok bRef ∧ encPos r.pos = .ok bPos ∧ encNameLen r.name = .ok bLn ∧
      encSeqLen r.seq.length = .ok bLs ∧ encRefId nref r.mateRefId = .ok bMref ∧
      encPos r.matePos = .ok bMpos ∧ encName r.name = .ok bName ∧
      encOps (cigarSlot r.seq.length r.cigar).1 = .ok bCig ∧
      encSeq (readLen r.cigar) r.seq = .ok bSeq ∧ encQual r.seq.length r.qual = .ok bQual ∧
      encData r.data = .ok bData ∧ encCgIf (cigarSlot r.seq.length r.cigar).2 r.cigar = .ok bCg ∧
      b = bRef ++ bPos ++ bLn ++ [UInt8.ofNat (r.mapq.getD 255)] ++ le 2 (binOf r.pos r.cigar)
        ++ le 2 (cigarSlot r.seq.length r.cigar).1.length ++ le 2 r.flags ++ bLs ++ bMref ++ bMpos
        ++ le 4 (toU 4 r.tlen) ++ bName ++ bCig ++ bSeq ++ bQual ++ bData ++ bCg := by
  unfold encode at h
  obtain ⟨bRef, hRef, h⟩ := bind_ok_inv _ _ _ h
  obtain ⟨bPos, hPos, h⟩ := bind_ok_inv _ _ _ h
  obtain ⟨bLn, hLn, h⟩ := bind_ok_inv _ _ _ h
  obtain ⟨bLs, hLs, h⟩ := bind_ok_inv _ _ _ h
  obtain ⟨bMref, hMref, h⟩ := bind_ok_inv _ _ _ h
  obtain ⟨bMpos, hMpos, h⟩ := bind_ok_inv _ _ _ h
  obtain ⟨bName, hName, h⟩ := bind_ok_inv _ _ _ h
  obtain ⟨bCig, hCig, h⟩ := bind_ok_inv _ _ _ h
  obtain ⟨bSeq, hSeq, h⟩ := bind_ok_inv _ _ _ h
  obtain ⟨bQual, hQual, h⟩ := bind_ok_inv _ _ _ h
  obtain ⟨bData, hData, h⟩ := bind_ok_inv _ _ _ h
  obtain ⟨bCg, hCg, h⟩ := bind_ok_inv _ _ _ h
  simp only [pure, Except.pure, Except.ok.injEq] at h
  exact ⟨bRef, bPos, bLn, bLs, bMref, bMpos, bName, bCig, bSeq, bQual, bData, bCg,
    hRef, hPos, hLn, hLs, hMref, hMpos, hName, hCig, hSeq, hQual, hData, hCg, h.symm⟩

/-- the variable-length part of a body, read off a concatenation whose name / CIGAR / quality parts
are already known to be the segments -/
theorem ident_layout (b : Bytes) (hl : lDataStart b ≤ b.length) (pre bName bCig bSeq bQual rest : Bytes)
    (hb : b = pre ++ bName ++ bCig ++ bSeq ++ bQual ++ rest)
    (h1 : pre.length = 32) (hN : bName = segName b) (hC : bCig = lCigarSrc b)
    (hS : bSeq.length = (lBaseCount b + 1) / 2) (hQ : bQual = segQual b) :
    segSeq b = bSeq ∧ segData b = rest := by
  subst hN hC hQ
  have hs := body_split b hl
  have e := hb.symm.trans hs
  simp only [List.append_assoc] at e
  have h32 : 32 ≤ b.length := by unfold lDataStart at hl; omega
  have q1 := ident_append_cancel e (by rw [h1, List.length_take]; omega)
  have q2 := List.append_cancel_left q1.2
  have q3 := List.append_cancel_left q2
  have q4 := ident_append_cancel q3 (by rw [hS, segSeq_length b hl])
  have q5 := List.append_cancel_left q4.2
  exact ⟨q4.1.symm, q5.symm⟩

theorem ident_encSeq_length (rl : Nat) (seq out : Bytes) (h : encSeq rl seq = .ok out) :
    out.length = (seq.length + 1) / 2 := by
  unfold encSeq at h
  cases seq with
  | nil =>
    simp only [List.isEmpty_nil, if_true, Except.ok.injEq] at h
    subst h; rfl
  | cons a t =>
    simp only [List.isEmpty_cons, Bool.false_eq_true, if_false] at h
    split at h
    · cases h
    · simp only [Except.ok.injEq] at h
      subst h
      exact packBases_length _

/-- what the writer produced, seen through the offsets the lazy record uses -/
theorem ident_common (nref : Nat) (r : Rec) (b : Bytes) (hw : WF r) (h : encode nref r = .ok b) :
    RawParts b (rawOf r) ∧ lBaseCount b = r.seq.length ∧
    ∃ bRef bPos bLn bLs bMref bMpos bName bCig bSeq bQual bData bCg,
      encRefId nref r.refId = .ok bRef ∧ encPos r.pos = .ok bPos ∧ encNameLen r.name = .ok bLn ∧
      encSeqLen r.seq.length = .ok bLs ∧ encRefId nref r.mateRefId = .ok bMref ∧
      encPos r.matePos = .ok bMpos ∧ encName r.name = .ok bName ∧
      encOps (cigarSlot r.seq.length r.cigar).1 = .ok bCig ∧
      encSeq (readLen r.cigar) r.seq = .ok bSeq ∧ encQual r.seq.length r.qual = .ok bQual ∧
      encData r.data = .ok bData ∧ encCgIf (cigarSlot r.seq.length r.cigar).2 r.cigar = .ok bCg ∧
      b = bRef ++ bPos ++ bLn ++ [UInt8.ofNat (r.mapq.getD 255)] ++ le 2 (binOf r.pos r.cigar)
        ++ le 2 (cigarSlot r.seq.length r.cigar).1.length ++ le 2 r.flags ++ bLs ++ bMref ++ bMpos
        ++ le 4 (toU 4 r.tlen) ++ bName ++ bCig ++ bSeq ++ bQual ++ bData ++ bCg ∧
      lCigarSrc b = bCig ∧ segSeq b = bSeq ∧ segData b = bData ++ bCg := by
  obtain ⟨b', he, hd⟩ := roundtrip_raw nref r hw (fits_of_encode_ok nref r b h)
  rw [h] at he
  cases he
  have hp := decodeRaw_inv b (rawOf r) [] hd
  have hl := hp.len
  have hsl0 : (rawOf r).seq.length = r.seq.length := by simp [rawOf, norm]
  have hsl : lBaseCount b = r.seq.length := by rw [← seq_length_eq b _ hp, hsl0]
  obtain ⟨bRef, bPos, bLn, bLs, bMref, bMpos, bName, bCig, bSeq, bQual, bData, bCg,
    hRef, hPos, hLn, hLs, hMref, hMpos, hName, hCig, hSeq, hQual, hData, hCg, hb⟩ :=
      ident_encode_parts nref r b h
  obtain ⟨_, hN⟩ := core_name b (rawOf r) hp bLn bName hLn hName
  have hQ : bQual = segQual b := core_qual b (rawOf r) hp bQual (by rw [hsl0]; exact hQual)
  have hcl := lCigarSrc_length b hl
  have hC : bCig = lCigarSrc b := by
    obtain ⟨t, hc⟩ := hp.cigar
    have e4 : 4 * lOpCount b = lOpCount b * 4 := by omega
    rw [e4] at hc
    change decN decOp (lOpCount b) (lCigarSrc b) = .ok ((rawOf r).cigar, t) at hc
    have hlo := lazyOps_of_decN (lOpCount b) (lCigarSrc b) _ t (by rw [hcl]; omega) hc
    have hgen := (packed_eq_generic (lOpCount b) _ _ hcl hlo).2
    have : Except.ok bCig = (Except.ok (lCigarSrc b) : Except Err Bytes) := hCig.symm.trans hgen
    simpa using this
  have hS : bSeq.length = (lBaseCount b + 1) / 2 := by
    rw [hsl]; exact ident_encSeq_length _ _ _ hSeq
  have l1 := encRefId_len _ _ _ hRef
  have l2 := encPos_len _ _ hPos
  have l3 := encNameLen_len _ _ hLn
  have l4 : bLs.length = 4 := by rw [(encSeqLen_ok _ _ hLs).2]; exact le_length 4 _
  have l5 := encRefId_len _ _ _ hMref
  have l6 := encPos_len _ _ hMpos
  obtain ⟨hSS, hDD⟩ := ident_layout b hl
    (bRef ++ bPos ++ bLn ++ [UInt8.ofNat (r.mapq.getD 255)] ++ le 2 (binOf r.pos r.cigar)
        ++ le 2 (cigarSlot r.seq.length r.cigar).1.length ++ le 2 r.flags ++ bLs ++ bMref ++ bMpos
        ++ le 4 (toU 4 r.tlen)) bName bCig bSeq bQual (bData ++ bCg)
    (by rw [hb]; simp only [List.append_assoc])
    (by simp only [List.length_append, le_length, l1, l2, l3, l4, l5, l6, List.length_cons,
      List.length_nil]) hN hC hS hQ
  exact ⟨hp, hsl, bRef, bPos, bLn, bLs, bMref, bMpos, bName, bCig, bSeq, bQual, bData, bCg,
    hRef, hPos, hLn, hLs, hMref, hMpos, hName, hCig, hSeq, hQual, hData, hCg, hb, hC.symm, hSS, hDD⟩

/-- write ∘ read = identity on what the BAM writer produced: for EVERY record `r` of the Rust types
(`WF`) that the writer accepts with body `b` — any number of CIGAR ops, so also more than 65535 ops
moved to a trailing CG:B,I field — reading `b` lazily and writing the lazy record back through the
fast paths gives `b` again, byte for byte. -/
theorem ident_written (nref : Nat) (r : Rec) (b : Bytes) (hw : WF r) (h : encode nref r = .ok b) :
    encodeView nref (viewRecord b) = .ok b := by
  obtain ⟨hp, hsl, bRef, bPos, bLn, bLs, bMref, bMpos, bName, bCig, bSeq, bQual, bData, bCg,
    hRef, hPos, hLn, hLs, hMref, hMpos, hName, hCig, hSeq, hQual, hData, hCg, hb, hC, hSS, hDD⟩ :=
      ident_common nref r b hw h
  have hr := resolve_rawOf r hw
  have hno := decode_noOverflow b _ _ hp hr
  have hf := fits_of_encode_ok nref r b h
  have p4 : encSeqLen (r.seq.map normBase).length = .ok bLs := by rw [List.length_map]; exact hLs
  have pq : writeQualRef (r.seq.map normBase).length (.ok (r.qual.length, (r.qual, none))) (.raw r.qual)
      = .ok bQual := by
    rw [writeQualRef_raw, writeQualRef_generic, List.length_map, hQual]; rfl
  by_cases hc : r.cigar.length ≤ 65535
  · have hslot : cigarSlot r.seq.length r.cigar = (r.cigar, false) := by simp [cigarSlot, hc]
    have hdata : (rawOf r).data = keep r.data := by simp [rawOf, hslot]
    have hbCg : bCg = [] := by
      rw [hslot] at hCg
      simpa [encCgIf] using hCg.symm
    rcases decode_cases b (rawOf r) (norm r) hp hr with ⟨_, hrr, hcb, hlo, hld⟩ | ⟨hcg, _⟩
    · have hkinds := (packed_eq_generic (lOpCount b) _ _ (lCigarSrc_length b hp.len) hlo).1
      have pc : (if r.cigar.length ≤ 65535 then
          writeCigarRef (.ok ⟨r.cigar.length, (r.cigar, none)⟩) (.packed (lCigarSrc b)) = .ok bCig ∧
            ([] : Bytes) = []
          else encOps [⟨4, (r.seq.map normBase).length⟩, ⟨3, span r.cigar⟩] = .ok bCig ∧
            encCg r.cigar = .ok []) := by
        rw [if_pos hc]
        refine ⟨?_, rfl⟩
        show writePackedCigar (lCigarSrc b) = .ok bCig
        unfold writePackedCigar
        rw [hkinds, hC]
      have hval : validateData (segData b).length (segData b) = .ok () := by
        obtain ⟨fs, hfs, hiff⟩ := validateData_iff_of_decData _ _ [] _ (segData b).length hp.data
          (Nat.le_refl _)
        apply hiff.mpr
        intro f hfm
        have hfk : f ∈ keep r.data := by
          rw [← hdata, hfs]; simpa using hfm
        have hm := List.mem_filter.mp hfk
        exact hf.data f hm.1 (by simpa using hm.2)
      have pd : writeDataRef (.ok ((norm r).data, none)) (.encoded (segData b)) = .ok (segData b) := by
        unfold writeDataRef
        simp only [hval]
      rw [viewRecord_of_decode b (rawOf r) (norm r) hp hr (norm r).data hld _ _ hcb]
      simp only [Bool.false_eq_true, if_false]
      refine (ident_encodeView_ok nref _ _ _ _ _ hno bRef bPos bLn bLs bMref bMpos bName bCig bSeq bQual
        (segData b) [] hRef hPos hLn p4 hMref hMpos hName pc
        (ident_writeSeq_packed (readLen r.cigar) r.seq _ (segSeq b) bSeq (lBaseCount b) hSeq hsl hSS)
        pq pd).trans ?_
      rw [hDD, hbCg, hb]
      simp only [norm, List.length_map, hbCg, List.append_nil]
    · exfalso
      have hnone : (rawOf r).data.findIdx? (fun f => f.1 == CG) = none := by
        rw [List.findIdx?_eq_none_iff]
        intro x hx
        rw [hdata] at hx
        have hm := (List.mem_filter.mp hx).2
        simpa using hm
      have := hcg.2
      rw [hnone] at this
      simp at this
  · have hslot : cigarSlot r.seq.length r.cigar = ([⟨4, r.seq.length⟩, ⟨3, span r.cigar⟩], true) := by
      simp [cigarSlot, hc]
    rcases decode_cases b (rawOf r) (norm r) hp hr with ⟨_, hrr, _⟩ | ⟨_, buf, hcb, hlo, hbl, hld, _⟩
    · exfalso
      have := congrArg (fun x => x.cigar.length) hrr
      simp [rawOf, norm, hslot] at this
      omega
    · have hfsk : (rawOf r).data.filter (fun f => f.1 != CG) = keep r.data := by
        simp only [rawOf, hslot, List.filter_append]
        have h1 : (keep r.data).filter (fun f => f.1 != CG) = keep r.data := by
          simp [keep, List.filter_filter]
        rw [h1]
        simp [CG]
      have pd : writeDataRef (.ok ((rawOf r).data.filter (fun f => f.1 != CG), none)) .generic
          = .ok bData := by
        show writeGenericData _ = _
        rw [writeGenericData_all, hfsk]
        unfold keep
        rw [ident_encData_keep, hData]; rfl
      have pc : (if r.cigar.length ≤ 65535 then
          writeCigarRef (.ok ⟨r.cigar.length, (r.cigar, none)⟩) (.packed buf) = .ok bCig ∧ bCg = []
          else encOps [⟨4, (r.seq.map normBase).length⟩, ⟨3, span r.cigar⟩] = .ok bCig ∧
            encCg r.cigar = .ok bCg) := by
        rw [if_neg hc, List.length_map]
        rw [hslot] at hCig hCg
        exact ⟨hCig, by simpa [encCgIf] using hCg⟩
      rw [viewRecord_of_decode b (rawOf r) (norm r) hp hr _ hld _ _ hcb]
      simp only [if_true]
      refine (ident_encodeView_ok nref
        { norm r with data := (rawOf r).data.filter (fun f => f.1 != CG) } _ _ _ _ hno
        bRef bPos bLn bLs bMref bMpos bName bCig bSeq bQual
        bData bCg hRef hPos hLn p4 hMref hMpos hName pc
        (ident_writeSeq_packed (readLen r.cigar) r.seq _ (segSeq b) bSeq (lBaseCount b) hSeq hsl hSS)
        pq pd).trans ?_
      rw [hb]
      simp only [norm, List.length_map]

/-- with more than 65535 ops the lazy record of a written body takes its CIGAR from the trailing
`CG:B,I` field (so `ident_written` there is about the re-encoding path: placeholder recomputed, data
re-encoded field by field, `CG` field re-written) -/
theorem ident_long_from_cg (nref : Nat) (r : Rec) (b : Bytes) (hw : WF r) (h : encode nref r = .ok b)
    (hlong : 65535 < r.cigar.length) :
    ∃ buf, lazyCigarBytes b = .ok (buf, true) ∧ lazyOps buf = .ok r.cigar := by
  obtain ⟨hp, _⟩ := ident_common nref r b hw h
  have hr := resolve_rawOf r hw
  have hc : ¬ r.cigar.length ≤ 65535 := by omega
  have hslot : cigarSlot r.seq.length r.cigar = ([⟨4, r.seq.length⟩, ⟨3, span r.cigar⟩], true) := by
    simp [cigarSlot, hc]
  rcases decode_cases b (rawOf r) (norm r) hp hr with ⟨_, hrr, _⟩ | ⟨_, buf, hcb, hlo, _⟩
  · exfalso
    have := congrArg (fun x => x.cigar.length) hrr
    simp [rawOf, norm, hslot] at this
    omega
  · exact ⟨buf, hcb, hlo⟩

end Noodles.Bam
