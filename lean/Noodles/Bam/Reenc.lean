import Noodles.Bam.Record
/-!
# The BAM encoder over `&dyn sam::alignment::Record` — lazy records written back

`bam::io::Writer::write_alignment_record` takes `&dyn sam::alignment::Record`, and
`record/codec/encoder.rs::encode` reads the record only through the trait: the twelve accessors
(`name`, `flags`, `reference_sequence_id`, …, `cigar()`, `sequence()`, `quality_scores()`,
`data()`), the default methods `alignment_end` / `Cigar::alignment_span` / `Cigar::read_length`
built on them, and the four hidden `*_ref` methods through which a record type offers the encoder
a borrowed representation to copy instead of an iterator:

| trait method            | default (`RecordRef`, `Box<dyn Record>`, `RecordBuf` cigar/qual/data) | `bam::Record`                                   | `sam::Record` / `RecordBuf` |
|-------------------------|-----------------------------------------------------------------------|-------------------------------------------------|-----------------------------|
| `cigar_ref`             | `CigarRef::Cigar(self.cigar())`                                       | `FourBytePacked(self.cigar().as_bytes())`       | default                     |
| `sequence_ref`          | `SequenceRef::Sequence(self.sequence())`                              | `FourBitPacked(src, base_count)`                | `Raw(bytes)`                |
| `quality_scores_ref`    | `QualityScoresRef::QualityScores(..)`                                 | `Raw(self.quality_scores().as_bytes())`         | default                     |
| `data_ref`              | `DataRef::Data(self.data())`                                          | `FieldEncoded(raw)` unless `data.skips_cigar()` | default                     |

(`impl Record for Box<dyn Record>` forwards the twelve accessors only, so a boxed `bam::Record`
takes the default column.)

This file transcribes `encode` ONCE, over an abstract `View` of what the trait methods return
(`encodeView`), with the sub-encoders of `encoder/{cigar,sequence,quality_scores,data,name}.rs`
for every `*Ref` variant, and then gives the views of the concrete record types:

* `viewBuf r`     — `sam::alignment::RecordBuf` (what `Record.lean::encode` models; `encodeView_buf`
                    in `ReencProof.lean` shows that the two transcriptions agree),
* `viewRecord b`  — `bam::Record` over the bytes `b` (`record.rs`, all four fast paths),
* `viewRef b`     — `bam::RecordRef` over the bytes `b`, validated or not (`record_ref.rs`, default
                    paths; also what a `Box<dyn Record>` holding a `bam::Record` does).

Failures keep the `io::ErrorKind` here (the lazy accessors fail with `InvalidData` /
`UnexpectedEof`, the encoder with `InvalidInput`, and `?` passes both through), and a Rust panic
(`RecordRef` slicing outside an unvalidated buffer) is a fourth outcome.

`usize` overflow of the CIGAR length sums and of `alignment_start + span - 1` (`checked_add` →
`InvalidData`) IS modelled (`USZ`): a `sam::Record` can carry op lengths up to `usize::MAX`. For a
BAM-backed record (at most 2^32 ops of less than 2^28) it cannot happen (`decode_noOverflow`).
-/
namespace Noodles.Bam
open Noodles.Codec

/-- why `write_alignment_record` does not return `Ok(())`: `io::ErrorKind::{InvalidInput,
InvalidData, UnexpectedEof}` or a Rust panic -/
inductive Fail | input | data | eof | panic
deriving DecidableEq, Repr

abbrev W (α : Type) := Except Fail α

/-- what an iterator of `io::Result<α>` yields: the items before the first `Err`, and the kind of
that error (`none`: the iterator ended) -/
abbrev Iter (α : Type) := List α × Option Fail

/-- `Box<dyn Cigar>`: `len()` and `iter()` (for `sam::Record` the two are computed independently) -/
structure CigarV where
  len : Nat
  ops : Iter Op
deriving DecidableEq, Repr

/-- `sam::alignment::record::CigarRef` -/
inductive CigarRef
  | packed (src : Bytes)
  | generic
deriving DecidableEq, Repr

/-- `sam::alignment::record::SequenceRef`; `generic` is `SequenceRef::Sequence(self.sequence())` -/
inductive SeqRef
  | packed (src : Bytes) (baseCount : Nat)
  | raw (src : Bytes)
  | generic
deriving DecidableEq, Repr

/-- `sam::alignment::record::QualityScoresRef` -/
inductive QualRef
  | raw (src : Bytes)
  | offset (src : Bytes) (off : UInt8)
  | generic
deriving DecidableEq, Repr

/-- `sam::alignment::record::DataRef` -/
inductive DataRef
  | encoded (src : Bytes)
  | generic
deriving DecidableEq, Repr

/-- What `encode` can observe of a `&dyn sam::alignment::Record`. A field is `error` when the
accessor returns `Err` (`.data`, `.eof`, `.input`) or panics (`.panic`). -/
structure View where
  refId : W (Option Nat)
  pos : W (Option Nat)
  name : W (Option Bytes)
  mapq : W (Option Nat)
  /-- `record.cigar()` -/
  cigar : W CigarV
  flags : W Nat
  /-- `record.sequence()`: `len()` and the bases of `iter()` -/
  seq : W (Nat × Bytes)
  mateRefId : W (Option Nat)
  matePos : W (Option Nat)
  tlen : W Int
  /-- `record.quality_scores()`: `len()` and `iter()` -/
  qual : W (Nat × Iter UInt8)
  /-- `record.data().iter()` -/
  data : W (Iter (Tag × Val))
  cigarRef : W CigarRef
  seqRef : W SeqRef
  qualRef : W QualRef
  dataRef : W DataRef

/-! ## the sub-encoders -/

/-- an encoder-side rejection: every one is `io::ErrorKind::InvalidInput` -/
def liftIn {α : Type} : Except Err α → W α
  | .ok a => .ok a
  | .error _ => .error .input

/-- `usize::MAX + 1` on the 64-bit targets the harness runs on -/
def USZ : Nat := 18446744073709551616

/-- `Cigar::alignment_span` (default method): `for result in self.iter() { let op = result?; …
span = checked_add(span, op.len())? }` — the running sum leaves `usize` (`InvalidData`, "CIGAR
length overflow") before the iterator's own error is reached exactly when the sum over the items
before that error does -/
def spanI (it : Iter Op) : W Nat :=
  if USZ ≤ span it.1 then .error .data
  else
    match it.2 with
    | none => .ok (span it.1)
    | some e => .error e

/-- `Cigar::read_length` (default method) -/
def readLenI (it : Iter Op) : W Nat :=
  if USZ ≤ readLen it.1 then .error .data
  else
    match it.2 with
    | none => .ok (readLen it.1)
    | some e => .error e

/-- `Record::alignment_end` (default method): without a start the CIGAR is not looked at;
`start.checked_add(span - 1)` leaving `usize` is `InvalidData` -/
def alignmentEndV (pos : Option Nat) (c : W CigarV) : W (Option Nat) :=
  match pos with
  | none => .ok none
  | some s =>
    match c with
    | .error e => .error e
    | .ok cv =>
      match spanI cv.ops with
      | .error e => .error e
      | .ok sp =>
        if sp = 0 then .ok (some s)
        else if s + (sp - 1) < USZ then .ok (some (s + sp - 1))
        else .error .data

/-- `bin::write_bin` -/
def binOfEnd (pos aend : Option Nat) : Nat :=
  match pos, aend with
  | some s, some e => regionToBin s e
  | _, _ => 4680

/-- `cigar::overflowing_write_cigar_op_count`: the `n_cigar_op` value and, with more than 65535
ops, the `kSmN` placeholder -/
def overflowV (baseCount : Nat) (c : CigarV) : W (Nat × Option (List Op)) :=
  if c.len ≤ 65535 then .ok (c.len, none)
  else
    match spanI c.ops with
    | .error e => .error e
    | .ok m => .ok (2, some [⟨4, baseCount⟩, ⟨3, m⟩])

/-- `cigar::write_generic_cigar`: an `Err` item and an op length of 2^28 or more both surface as
`InvalidInput` (`EncodeError::Io` / `EncodeError::InvalidOp`, wrapped by the caller) -/
def writeGenericCigar (it : Iter Op) : W Bytes :=
  match encOps it.1 with
  | .error _ => .error .input
  | .ok b =>
    match it.2 with
    | none => .ok b
    | some .panic => .error .panic
    | some _ => .error .input

/-- the `all(|[b, _, _, _]| (b & 0x0f) <= 8)` test of `write_four_byte_packed_cigar`; `none` when
the bytes are not whole 4-byte chunks (`unreachable!()`) -/
def kindsOk : Bytes → Option Bool
  | [] => some true
  | a :: _ :: _ :: _ :: rest =>
    match kindsOk rest with
    | none => none
    | some r => some (decide (a.toNat % 16 ≤ 8) && r)
  | _ => none

/-- `cigar::write_four_byte_packed_cigar` -/
def writePackedCigar (src : Bytes) : W Bytes :=
  match kindsOk src with
  | none => .error .panic
  | some true => .ok src
  | some false => .error .input

/-- `cigar::write_cigar` -/
def writeCigarRef (c : W CigarV) : CigarRef → W Bytes
  | .packed src => writePackedCigar src
  | .generic =>
    match c with
    | .error e => .error e
    | .ok cv => writeGenericCigar cv.ops

/-- `SequenceRef::len` -/
def SeqRef.len (s : Nat × Bytes) : SeqRef → Nat
  | .packed _ n => n
  | .raw src => src.length
  | .generic => s.1

/-- `sequence::write_sequence`: `FourBitPacked` bytes are copied as they are (so a non-zero padding
nibble survives), `Raw` and `Sequence` bases are packed two per byte -/
def writeSeqRef (readLength : Nat) (s : Nat × Bytes) (r : SeqRef) : W Bytes :=
  if r.len s = 0 then .ok []
  else if 0 < readLength ∧ r.len s ≠ readLength then .error .input
  else
    match r with
    | .packed src _ => .ok src
    | .raw src => .ok (packBases src)
    | .generic => .ok (packBases s.2)

def scoreOk (n : UInt8) : Bool := decide (n.toNat ≤ 93)

/-- `quality_scores::write_generic_quality_scores`: `let n = result?; if is_valid_score(n) …` -/
def writeGenericQual (it : Iter UInt8) : W Bytes :=
  if it.1.all scoreOk then
    match it.2 with
    | none => .ok it.1
    | some e => .error e
  else .error .input

/-- `quality_scores::write_offset_quality_scores` -/
def writeOffsetQual (src : Bytes) (off : UInt8) : W Bytes :=
  if src.all (fun n => decide (off.toNat ≤ n.toNat) && decide (n.toNat - off.toNat ≤ 93)) then
    .ok (src.map fun n => UInt8.ofNat (n.toNat - off.toNat))
  else .error .input

/-- the frame of `quality_scores::write_quality_scores`: scores of the sequence's length are
written by `body`, no scores at all become `0xff` fillers, anything else is a length mismatch -/
def qualFrame (baseCount len : Nat) (body : W Bytes) : W Bytes :=
  if len = baseCount then body
  else if len = 0 then .ok (List.replicate baseCount 255)
  else .error .input

/-- `quality_scores::write_quality_scores`; `q` is `record.quality_scores()` (`len()`, `iter()`),
looked at only by the default `QualityScoresRef::QualityScores` -/
def writeQualRef (baseCount : Nat) (q : W (Nat × Iter UInt8)) : QualRef → W Bytes
  | .raw src => qualFrame baseCount src.length (if src.all scoreOk then .ok src else .error .input)
  | .offset src off => qualFrame baseCount src.length (writeOffsetQual src off)
  | .generic =>
    match q with
    | .error e => .error e
    | .ok q => qualFrame baseCount q.1 (writeGenericQual q.2)

/-- `data::write_generic_data`: the fields before the first `Err` item are written (`CG` skipped,
`write_field` may refuse a value: `InvalidInput`), the `Err` item is returned as it is -/
def writeGenericData (it : Iter (Tag × Val)) : W Bytes :=
  match encData it.1 with
  | .error _ => .error .input
  | .ok b =>
    match it.2 with
    | none => .ok b
    | some e => .error e

/-- bytes up to and including the first NUL removed; `none` without a NUL (`memchr`) -/
def afterNul (s : Bytes) : Option (Bytes × Bytes) := splitNul s

/-- element size of an array subtype byte (`validate`'s `match subtype`) -/
def subSize (b : UInt8) : Option Nat :=
  if b = 99 ∨ b = 67 then some 1
  else if b = 115 ∨ b = 83 then some 2
  else if b = 105 ∨ b = 73 ∨ b = 102 then some 4
  else none

/-- `data::validate` (the check of `write_field_encoded_data`): walks the field-encoded bytes;
a field cut short is `UnexpectedEof` (also a `Z`/`H` value without NUL), an unknown type or array
subtype, a `Z` value outside `[ -~]*` or an `H` value that is not `([0-9A-F]{2})*` is
`InvalidInput`. Tags are not looked at (no duplicate check, `CG` is not special here). `fuel` is
the length of the input: every field takes at least three bytes. -/
def validateData : Nat → Bytes → W Unit
  | 0, s => if s.isEmpty then .ok () else .error .eof
  | fuel+1, s =>
    match s with
    | [] => .ok ()
    | [_] => .error .eof
    | [_, _] => .error .eof
    | _ :: _ :: ty :: r =>
      if ty = 65 ∨ ty = 99 ∨ ty = 67 then
        match r with
        | [] => .error .eof
        | _ :: r' => validateData fuel r'
      else if ty = 115 ∨ ty = 83 then
        if 2 ≤ r.length then validateData fuel (r.drop 2) else .error .eof
      else if ty = 105 ∨ ty = 73 ∨ ty = 102 then
        if 4 ≤ r.length then validateData fuel (r.drop 4) else .error .eof
      else if ty = 90 then
        match splitNul r with
        | none => .error .eof
        | some (v, r') => if strValid v then validateData fuel r' else .error .input
      else if ty = 72 then
        match splitNul r with
        | none => .error .eof
        | some (v, r') => if hexValid v then validateData fuel r' else .error .input
      else if ty = 66 then
        match r with
        | [] => .error .eof
        | sub :: r1 =>
          if r1.length < 4 then .error .eof
          else
            let n := leVal (r1.take 4)
            match subSize sub with
            | none => .error .input
            | some size =>
              if size * n ≤ (r1.drop 4).length then validateData fuel ((r1.drop 4).drop (size * n))
              else .error .eof
      else .error .input

/-- `data::write_data` -/
def writeDataRef (d : W (Iter (Tag × Val))) : DataRef → W Bytes
  | .encoded src =>
    match validateData src.length src with
    | .error e => .error e
    | .ok () => .ok src
  | .generic =>
    match d with
    | .error e => .error e
    | .ok it => writeGenericData it

/-- `data::field::write_cigar`: `CG:B,I`, the count (`Cigar::len`, must fit `u32`), the ops -/
def writeCgV (c : CigarV) : W Bytes :=
  if c.len ≤ 4294967295 then
    match writeGenericCigar c.ops with
    | .error e => .error e
    | .ok b => .ok (CG.1 :: CG.2 :: 66 :: 73 :: (le 4 c.len ++ b))
  else .error .input

/-! ## `encoder::encode`, statement by statement -/

def encodeView (nref : Nat) (v : View) : W Bytes := do
  -- ref_id
  let refId ← v.refId
  let bRef ← liftIn (encRefId nref refId)
  -- pos
  let pos ← v.pos
  let bPos ← liftIn (encPos pos)
  -- l_read_name
  let name ← v.name
  let lName ← liftIn (encNameLen name)
  -- mapq
  let mapq ← v.mapq
  -- bin
  let aend ← alignmentEndV pos v.cigar
  let bin := le 2 (binOfEnd pos aend)
  -- n_cigar_op
  let s ← v.seq
  let baseCount := s.1
  let c ← v.cigar
  let ov ← overflowV baseCount c
  -- flag, l_seq
  let flags ← v.flags
  let lSeq ← liftIn (encSeqLen baseCount)
  -- next_ref_id, next_pos, tlen
  let mref ← v.mateRefId
  let bMref ← liftIn (encRefId nref mref)
  let mpos ← v.matePos
  let bMpos ← liftIn (encPos mpos)
  let tlen ← v.tlen
  -- read_name
  let bName ← liftIn (encName name)
  -- cigar
  let bCig ← match ov.2 with
    | some ph => liftIn (encOps ph)
    | none => do let cr ← v.cigarRef; writeCigarRef v.cigar cr
  -- seq
  let rl ← readLenI c.ops
  let sr ← v.seqRef
  let bSeq ← writeSeqRef rl s sr
  -- qual
  let qr ← v.qualRef
  let bQual ← writeQualRef baseCount v.qual qr
  -- data
  let dr ← v.dataRef
  let bData ← writeDataRef v.data dr
  let bCg ← match ov.2 with
    | some _ => writeCgV c
    | none => .ok []
  pure (bRef ++ bPos ++ lName ++ [UInt8.ofNat (mapq.getD 255)] ++ bin ++ le 2 ov.1 ++ le 2 flags
    ++ lSeq ++ bMref ++ bMpos ++ le 4 (toU 4 tlen) ++ bName ++ bCig ++ bSeq ++ bQual ++ bData ++ bCg)

/-- `io/writer.rs::write_alignment_record` on an empty sink: the body (the `block_size` prefix is
`le 4 body.length`, as in `writeRecord`) -/
def writeView (nref : Nat) (v : View) : W Bytes :=
  match encodeView nref v with
  | .error e => .error e
  | .ok body => if body.length ≤ 4294967295 then .ok body else .error .input

/-! ## the view of a `RecordBuf` -/

/-- `alignment/record_buf.rs`: every accessor is infallible; `sequence_ref` is `Raw`, the other
three `*_ref` are the defaults -/
def viewBuf (r : Rec) : View where
  refId := .ok r.refId
  pos := .ok r.pos
  name := .ok r.name
  mapq := .ok r.mapq
  cigar := .ok ⟨r.cigar.length, (r.cigar, none)⟩
  flags := .ok r.flags
  seq := .ok (r.seq.length, r.seq)
  mateRefId := .ok r.mateRefId
  matePos := .ok r.matePos
  tlen := .ok r.tlen
  qual := .ok (r.qual.length, (r.qual, none))
  data := .ok (r.data, none)
  cigarRef := .ok .generic
  seqRef := .ok (.raw r.seq)
  qualRef := .ok .generic
  dataRef := .ok .generic

/-! ## the views of the lazy BAM records -/

/-- a lazy accessor's `Err` is `InvalidData` (`try_to_reference_sequence_id`, `try_to_position`) -/
def toW {α : Type} : L α → W α
  | .ok a => .ok a
  | .err => .error .data
  | .panic => .error .panic

/-- `record/cigar.rs::Cigar::iter`: `let (chunks, []) = self.0.as_chunks() else { unreachable!() }`
first, then `decode_op` per chunk (an invalid kind is `InvalidData`) -/
def opChunks : Bytes → Iter Op
  | a :: b :: c :: d :: rest =>
    match decOpNat (leVal [a, b, c, d]) with
    | .error _ => ([], some .data)
    | .ok o => (o :: (opChunks rest).1, (opChunks rest).2)
  | _ => ([], none)

def opsIter (src : Bytes) : Iter Op :=
  if src.length % 4 = 0 then opChunks src else ([], some .panic)

/-- `RecordRef::cigar()`: `Cigar::len` is `src.len() / 4` -/
def cigarV (b : Bytes) : W CigarV :=
  match lazyCigarBytes b with
  | .ok (src, _) => .ok ⟨src.length / 4, opsIter src⟩
  | .err => .error .data
  | .panic => .error .panic

/-- `RecordRef::raw_sequence`: the packed bytes -/
def lSeqSrc (b : Bytes) : L Bytes :=
  let start := lNameLen b + lOpCount b * 4
  slice (lRest b) start (start + (lBaseCount b + 1) / 2)

/-- `RecordRef::sequence()`: `len()` is `base_count`, `iter()` as `lazySeq` -/
def seqV (b : Bytes) : W (Nat × Bytes) :=
  match lazySeq b with
  | .ok bases => .ok (lBaseCount b, bases)
  | .err => .error .data
  | .panic => .error .panic

/-- `RecordRef::quality_scores()`: the raw bytes, `[]` when all are `0xff`; `iter()` cannot fail -/
def qualV (b : Bytes) : W (Nat × Iter UInt8) :=
  match lazyQual b with
  | .ok q => .ok (q.length, (q, none))
  | .err => .error .data
  | .panic => .error .panic

/-- `Data::iter` with the kind of the first error kept: a field cut short is `UnexpectedEof`, an
unknown type / subtype or a string without NUL is `InvalidData` -/
def lazyFieldsE : Nat → Bytes → Iter (Tag × Val)
  | 0, s => ([], if s.isEmpty then none else some .data)
  | fuel+1, s =>
    if s.isEmpty then ([], none)
    else
      match lazyField s with
      | .error .eof => ([], some .eof)
      | .error .invalid => ([], some .data)
      | .ok (f, s') => (f :: (lazyFieldsE fuel s').1, (lazyFieldsE fuel s').2)

/-- `RecordRef::data()`: the raw bytes and `skips_cigar` (= `overflowing_cigar().is_some()`) -/
def dataSrc (b : Bytes) : W (Bytes × Bool) :=
  match lazyRawData b with
  | .ok d =>
    match lazyCigarBytes b with
    | .ok (_, fromCg) => .ok (d, fromCg)
    | .err => .error .data
    | .panic => .error .panic
  | .err => .error .data
  | .panic => .error .panic

/-- `Data::iter`: with `skips_cigar` every successfully decoded `CG` field is left out -/
def fieldsIter (d : Bytes) (skip : Bool) : Iter (Tag × Val) :=
  let it := lazyFieldsE d.length d
  if skip then (it.1.filter (fun f => f.1 != CG), it.2) else it

def dataV (b : Bytes) : W (Iter (Tag × Val)) :=
  match dataSrc b with
  | .ok (d, skip) => .ok (fieldsIter d skip)
  | .error e => .error e

/-- `bam::RecordRef` (`record_ref.rs`, `impl sam::alignment::Record for RecordRef`): the four
`*_ref` methods are the defaults. The reference sequence ids ignore the header. -/
def viewRef (b : Bytes) : View where
  refId := toW (lazyRefId b)
  pos := toW (lazyPos b)
  name := toW (lazyName b)
  mapq := .ok (lazyMapq b)
  cigar := cigarV b
  flags := .ok (lazyFlags b)
  seq := seqV b
  mateRefId := toW (lazyMateRefId b)
  matePos := toW (lazyMatePos b)
  tlen := .ok (lazyTlen b)
  qual := qualV b
  data := dataV b
  cigarRef := .ok .generic
  seqRef := .ok .generic
  qualRef := .ok .generic
  dataRef := .ok .generic

/-- `bam::Record` (`record.rs`, `impl sam::alignment::Record for Record`): the accessors of
`RecordRef` plus the four fast paths. `data_ref` falls back to the iterator when the CIGAR was
taken from the `CG` field ("the raw data still holds the overflowing CIGAR field, which is
rewritten by the encoder"). -/
def viewRecord (b : Bytes) : View :=
  { viewRef b with
    cigarRef := match lazyCigarBytes b with
      | .ok (src, _) => .ok (.packed src)
      | .err => .error .data
      | .panic => .error .panic
    seqRef := match lSeqSrc b with
      | .ok src => .ok (.packed src (lBaseCount b))
      | .err => .error .data
      | .panic => .error .panic
    qualRef := match lazyQual b with
      | .ok q => .ok (.raw q)
      | .err => .error .data
      | .panic => .error .panic
    dataRef := match dataSrc b with
      | .ok (d, skip) => .ok (if skip then .generic else .encoded d)
      | .error e => .error e }

/-- `Reader::read_record` (= `validate`) followed by `Writer::write_alignment_record(&record)` -/
def rewriteRecord (nref : Nat) (b : Bytes) : W Bytes :=
  match validate b with
  | .error _ => .error .eof
  | .ok () => writeView nref (viewRecord b)

/-- `RecordRef::new(b)` (32 bytes at least, nothing else checked) followed by
`write_alignment_record(&record_ref)`; `none` when `new` returns `None` -/
def rewriteRef (nref : Nat) (b : Bytes) : Option (W Bytes) :=
  if b.length < 32 then none else some (writeView nref (viewRef b))

end Noodles.Bam
