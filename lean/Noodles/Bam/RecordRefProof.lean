import Noodles.Bam.Record
import Noodles.Bam.LazyProof
import Noodles.Hostile.BamRecord
import Noodles.Hostile.Proof
/-!
# `bam::RecordRef` over bytes nobody validated

`RecordRef::new(src)` only asks for 32 bytes. This file says, for ARBITRARY bytes, exactly when
each accessor of the lazy model (`Record.lean`: `lazyName`, `lazySeq`, `lazyQual`, `lazyRawData`,
`lazyCigarBytes`, …) panics — the slice bound it computes from `l_read_name`, `n_cigar_op`, `l_seq`
exceeds the buffer — and ties that model to the explicit-slicing model of C15
(`Hostile/BamRecord.lean`), so the two transcriptions of `record_ref.rs` are shown to be one.
-/
namespace Noodles.Bam
open Noodles.Codec

theorem slice_panic_iff (s : Bytes) (a c : Nat) : slice s a c = .panic ↔ ¬ (a ≤ c ∧ c ≤ s.length) := by
  unfold slice
  split <;> simp_all

theorem slice_ok_bounds (s : Bytes) (a c : Nat) (r : Bytes) (h : slice s a c = .ok r) :
    a ≤ c ∧ c ≤ s.length := by
  unfold slice at h
  split at h
  · assumption
  · cases h

theorem slice_ne_err (s : Bytes) (a c : Nat) : slice s a c ≠ .err := by
  unfold slice
  split <;> simp

/-- end of the name, the CIGAR slot, the packed bases (absolute offsets) -/
def lNameEnd (b : Bytes) : Nat := 32 + lNameLen b
def lCigarEnd (b : Bytes) : Nat := 32 + lNameLen b + lOpCount b * 4
def lSeqEnd (b : Bytes) : Nat := 32 + lNameLen b + lOpCount b * 4 + (lBaseCount b + 1) / 2

theorem lazyName_panic_iff (b : Bytes) (h32 : 32 ≤ b.length) :
    lazyName b = .panic ↔ b.length < lNameEnd b := by
  unfold lazyName lNameEnd
  cases hs : slice (lRest b) 0 (lNameLen b) with
  | ok buf =>
    have := slice_ok_bounds _ _ _ _ hs
    rw [lRest_length] at this
    simp only
    constructor
    · intro h; split at h
      · cases h
      · split at h <;> cases h
    · intro h; omega
  | err => exact absurd hs (slice_ne_err _ _ _)
  | panic =>
    have := (slice_panic_iff (lRest b) 0 (lNameLen b)).mp hs
    rw [lRest_length] at this
    simp only [true_iff]
    omega

theorem lazySeq_panic_iff (b : Bytes) (h32 : 32 ≤ b.length) :
    lazySeq b = .panic ↔ b.length < lSeqEnd b := by
  unfold lazySeq lSeqEnd
  simp only
  cases hs : slice (lRest b) (lNameLen b + lOpCount b * 4)
      (lNameLen b + lOpCount b * 4 + (lBaseCount b + 1) / 2) with
  | ok buf =>
    have := slice_ok_bounds _ _ _ _ hs
    rw [lRest_length] at this
    simp only
    constructor
    · intro h; split at h <;> cases h
    · intro h; omega
  | err => exact absurd hs (slice_ne_err _ _ _)
  | panic =>
    have := (slice_panic_iff _ _ _).mp hs
    rw [lRest_length] at this
    simp only [true_iff]
    omega

theorem lazyQual_panic_iff (b : Bytes) (h32 : 32 ≤ b.length) :
    lazyQual b = .panic ↔ b.length < lDataStart b := by
  unfold lazyQual lDataStart
  simp only
  cases hs : slice (lRest b) (lNameLen b + lOpCount b * 4 + (lBaseCount b + 1) / 2)
      (lNameLen b + lOpCount b * 4 + (lBaseCount b + 1) / 2 + lBaseCount b) with
  | ok buf =>
    have := slice_ok_bounds _ _ _ _ hs
    rw [lRest_length] at this
    simp only
    constructor
    · intro h; split at h <;> cases h
    · intro h; omega
  | err => exact absurd hs (slice_ne_err _ _ _)
  | panic =>
    have := (slice_panic_iff _ _ _).mp hs
    rw [lRest_length] at this
    simp only [true_iff]
    omega

theorem lazyRawData_panic_iff (b : Bytes) (h32 : 32 ≤ b.length) :
    lazyRawData b = .panic ↔ b.length < lDataStart b := by
  unfold lazyRawData lDataStart
  simp only
  rw [slice_panic_iff, lRest_length]
  omega

/-- the CIGAR slot holds exactly two ops that look like the `kSmN` placeholder (`k = l_seq`), which
is when `RecordRef::cigar()` goes on to slice the data for a `CG` field -/
def lSlotIsPlaceholder (b : Bytes) : Prop :=
  lOpCount b = 2 ∧
    leVal ((lCigarSrc b).take 4) % 16 = 4 ∧ leVal ((lCigarSrc b).take 4) / 16 = lBaseCount b ∧
    leVal (((lCigarSrc b).drop 4).take 4) % 16 = 3

instance (b : Bytes) : Decidable (lSlotIsPlaceholder b) := by unfold lSlotIsPlaceholder; infer_instance

theorem lazyCigarBytes_panic_iff (b : Bytes) (h32 : 32 ≤ b.length) :
    lazyCigarBytes b = .panic ↔
      b.length < lCigarEnd b ∨ (lSlotIsPlaceholder b ∧ b.length < lDataStart b) := by
  unfold lazyCigarBytes lCigarEnd
  simp only
  cases hs : slice (lRest b) (lNameLen b) (lNameLen b + lOpCount b * 4) with
  | err => exact absurd hs (slice_ne_err _ _ _)
  | panic =>
    have := (slice_panic_iff _ _ _).mp hs
    rw [lRest_length] at this
    simp only [true_iff]
    left; omega
  | ok src =>
    have hb := slice_ok_bounds _ _ _ _ hs
    rw [lRest_length] at hb
    have hsrc : src = lCigarSrc b := by
      unfold slice at hs
      split at hs
      · simp only [L.ok.injEq] at hs
        rw [← hs]
        simp only [lRest, List.drop_drop, lCigarSrc]
        congr 1
        omega
      · cases hs
    have hlen : src.length = lOpCount b * 4 := by
      rw [hsrc, lCigarSrc, List.length_take, List.length_drop]; omega
    have hnot : ¬ b.length < 32 + lNameLen b + lOpCount b * 4 := by omega
    simp only [hnot, false_or]
    by_cases h8 : src.length = 8
    · have hc2 : lOpCount b = 2 := by omega
      simp only [h8, if_true]
      by_cases hcond : leVal (src.take 4) % 16 = 4 ∧ leVal (src.take 4) / 16 = lBaseCount b ∧
          leVal ((src.drop 4).take 4) % 16 = 3
      · rw [if_pos hcond]
        have hph : lSlotIsPlaceholder b := by
          unfold lSlotIsPlaceholder; rw [← hsrc]; exact ⟨hc2, hcond⟩
        cases hd : lazyRawData b with
        | ok d =>
          have : ¬ b.length < lDataStart b := by
            intro hlt
            have := (lazyRawData_panic_iff b h32).mpr hlt
            rw [hd] at this; cases this
          simp only
          constructor
          · intro h; split at h <;> cases h
          · intro h; exact absurd h.2 this
        | err =>
          unfold lazyRawData at hd
          exact absurd hd (slice_ne_err _ _ _)
        | panic =>
          have := (lazyRawData_panic_iff b h32).mp hd
          simp only [true_iff]
          exact ⟨hph, this⟩
      · rw [if_neg hcond]
        simp only [reduceCtorEq, false_iff]
        intro h
        apply hcond
        have := h.1
        unfold lSlotIsPlaceholder at this
        rw [← hsrc] at this
        exact this.2
    · simp only [h8, if_false, reduceCtorEq, false_iff]
      intro h
      have := h.1.1
      omega

theorem lazyCigar_panic_iff (b : Bytes) : lazyCigar b = .panic ↔ lazyCigarBytes b = .panic := by
  unfold lazyCigar
  cases hc : lazyCigarBytes b with
  | err => simp
  | panic => simp
  | ok p =>
    obtain ⟨src, f⟩ := p
    simp only [reduceCtorEq, iff_false]
    -- whole chunks: the slot is `4 * n_cigar_op` bytes, a `CG:B:I` payload `4 * count`
    have : ∃ n, src.length = n * 4 := by
      unfold lazyCigarBytes at hc
      simp only at hc
      cases hs : slice (lRest b) (lNameLen b) (lNameLen b + lOpCount b * 4) with
      | err => simp [hs] at hc
      | panic => simp [hs] at hc
      | ok s0 =>
        have hl0 : s0.length = lOpCount b * 4 := by
          unfold slice at hs
          split at hs
          · simp only [L.ok.injEq] at hs
            rw [← hs, List.length_take, List.length_drop]; omega
          · cases hs
        simp only [hs] at hc
        split at hc
        · split at hc
          · split at hc
            · split at hc
              · next buf hg =>
                simp only [L.ok.injEq, Prod.mk.injEq] at hc
                obtain ⟨rfl, _⟩ := hc
                exact getRawCigar_some_len _ _ _ hg
              · simp only [L.ok.injEq, Prod.mk.injEq] at hc
                exact ⟨lOpCount b, by rw [← hc.1, hl0]⟩
            · cases hc
            · cases hc
          · simp only [L.ok.injEq, Prod.mk.injEq] at hc
            exact ⟨lOpCount b, by rw [← hc.1, hl0]⟩
        · simp only [L.ok.injEq, Prod.mk.injEq] at hc
          exact ⟨lOpCount b, by rw [← hc.1, hl0]⟩
    obtain ⟨n, hn⟩ := this
    exact lazyOps_ne_panic n src hn

theorem lazyData_panic_iff (b : Bytes) :
    lazyData b = .panic ↔ lazyRawData b = .panic ∨ lazyCigarBytes b = .panic := by
  unfold lazyData
  cases hd : lazyRawData b with
  | err => simp only [reduceCtorEq, false_or, false_iff]
           unfold lazyRawData at hd; exact absurd hd (slice_ne_err _ _ _)
  | panic => simp
  | ok d =>
    simp only [reduceCtorEq, false_or]
    cases hc : lazyCigarBytes b with
    | err => simp
    | panic => simp
    | ok p =>
      obtain ⟨src, f⟩ := p
      cases f <;> simp

/-- `validate` accepts exactly the buffers in which the last slice bound (the end of the quality
scores, where the data starts) is inside the buffer -/
theorem validate_iff (b : Bytes) : validate b = .ok () ↔ 32 ≤ b.length ∧ lDataStart b ≤ b.length := by
  constructor
  · intro h
    have h32 : 32 ≤ b.length := by
      unfold validate at h
      split at h
      · cases h
      · omega
    exact ⟨h32, validate_inv b h⟩
  · intro ⟨h32, hl⟩
    unfold validate
    rw [if_neg (by omega)]
    have e1 : unle 1 (b.drop 8) = .ok (lNameLen b, (b.drop 8).drop 1) := by
      cases hu : unle 1 (b.drop 8) with
      | error e =>
        have : 1 ≤ (b.drop 8).length := by rw [List.length_drop]; omega
        match hb : b.drop 8, this with
        | x :: t, _ => rw [hb] at hu; simp [unle] at hu
      | ok p =>
        obtain ⟨v, s'⟩ := p
        obtain ⟨_, hv, hs'⟩ := unle_ok _ _ _ _ hu
        rw [hv, hs']; rfl
    have e2 : unle 2 (b.drop 12) = .ok (lOpCount b, (b.drop 12).drop 2) := by
      cases hu : unle 2 (b.drop 12) with
      | error e =>
        have : 2 ≤ (b.drop 12).length := by rw [List.length_drop]; omega
        match hb : b.drop 12, this with
        | x :: y :: t, _ => rw [hb] at hu; simp [unle] at hu
      | ok p =>
        obtain ⟨v, s'⟩ := p
        obtain ⟨_, hv, hs'⟩ := unle_ok _ _ _ _ hu
        rw [hv, hs']; rfl
    have e3 : unle 4 (b.drop 16) = .ok (lBaseCount b, (b.drop 16).drop 4) := by
      cases hu : unle 4 (b.drop 16) with
      | error e =>
        have : 4 ≤ (b.drop 16).length := by rw [List.length_drop]; omega
        match hb : b.drop 16, this with
        | x :: y :: z :: w :: t, _ => rw [hb] at hu; simp [unle] at hu
      | ok p =>
        obtain ⟨v, s'⟩ := p
        obtain ⟨_, hv, hs'⟩ := unle_ok _ _ _ _ hu
        rw [hv, hs']; rfl
    rw [e1, e2, e3]
    simp only
    unfold lDataStart at hl
    rw [if_neg (by omega)]

/-! ## a truncated buffer: every slice that still fits is the same slice -/

theorem headU_take (b : Bytes) (k off n : Nat) (h : off + n ≤ k) : headU (b.take k) off n = headU b off n := by
  unfold headU
  rw [List.drop_take, List.take_take]
  congr 2
  omega

theorem slice_take (s : Bytes) (m a c : Nat) (hm : m ≤ s.length) :
    slice (s.take m) a c = if c ≤ m then slice s a c else .panic := by
  unfold slice
  have hl : (s.take m).length = m := by rw [List.length_take]; omega
  by_cases hc : c ≤ m
  · rw [if_pos hc, hl]
    by_cases hac : a ≤ c
    · have c1 : a ≤ c ∧ c ≤ m := ⟨hac, hc⟩
      have c2 : a ≤ c ∧ c ≤ s.length := ⟨hac, by omega⟩
      rw [if_pos c1, if_pos c2, List.drop_take, List.take_take]
      congr 2
      omega
    · have c1 : ¬ (a ≤ c ∧ c ≤ m) := fun h => hac h.1
      have c2 : ¬ (a ≤ c ∧ c ≤ s.length) := fun h => hac h.1
      rw [if_neg c1, if_neg c2]
  · rw [if_neg hc, hl, if_neg (fun h => hc h.2)]

theorem lRest_take (b : Bytes) (k : Nat) : lRest (b.take k) = (lRest b).take (k - 32) := by
  unfold lRest
  rw [List.drop_take]

/-- `RecordRef` over the first `k ≥ 32` bytes of a buffer: name, bases and qualities are what they
are on the whole buffer as long as their slice ends within the `k` bytes, and a panic otherwise -/
theorem prefix_stable (b : Bytes) (k : Nat) (h32 : 32 ≤ k) (hk : k ≤ b.length) :
    lazyName (b.take k) = (if lNameEnd b ≤ k then lazyName b else .panic) ∧
    lazySeq (b.take k) = (if lSeqEnd b ≤ k then lazySeq b else .panic) ∧
    lazyQual (b.take k) = (if lDataStart b ≤ k then lazyQual b else .panic) := by
  have eN : lNameLen (b.take k) = lNameLen b := headU_take b k 8 1 (by omega)
  have eC : lOpCount (b.take k) = lOpCount b := headU_take b k 12 2 (by omega)
  have eL : lBaseCount (b.take k) = lBaseCount b := headU_take b k 16 4 (by omega)
  have hm : k - 32 ≤ (lRest b).length := by rw [lRest_length]; omega
  refine ⟨?_, ?_, ?_⟩
  · unfold lazyName lNameEnd
    rw [eN, lRest_take, slice_take _ _ _ _ hm]
    by_cases hc : lNameLen b ≤ k - 32
    · rw [if_pos hc, if_pos (by omega)]
    · rw [if_neg hc, if_neg (by omega)]
  · unfold lazySeq lSeqEnd
    simp only
    rw [eN, eC, eL, lRest_take, slice_take _ _ _ _ hm]
    by_cases hc : lNameLen b + lOpCount b * 4 + (lBaseCount b + 1) / 2 ≤ k - 32
    · rw [if_pos hc, if_pos (by omega)]
    · rw [if_neg hc, if_neg (by omega)]
  · unfold lazyQual lDataStart
    simp only
    rw [eN, eC, eL, lRest_take, slice_take _ _ _ _ hm]
    by_cases hc : lNameLen b + lOpCount b * 4 + (lBaseCount b + 1) / 2 + lBaseCount b ≤ k - 32
    · rw [if_pos hc, if_pos (by omega)]
    · rw [if_neg hc, if_neg (by omega)]

/-! ## the same slices as the explicit-slicing model of C15 (`Hostile/BamRecord.lean`) -/

theorem hleVal_eq : ∀ s : Bytes, Noodles.Hostile.leVal s = leVal s
  | [] => rfl
  | b :: r => by simp only [Noodles.Hostile.leVal, leVal, hleVal_eq r]

/-- outcome of a lazy slice, in C15's vocabulary -/
def toRes : L Bytes → Noodles.Hostile.Res Bytes
  | .ok a => .ok a
  | .err => .err .invalidData
  | .panic => .panic

theorem fN_eq (b : Bytes) (h : 9 ≤ b.length) : Noodles.Hostile.Bam.fN b = lNameLen b := by
  unfold Noodles.Hostile.Bam.fN lNameLen headU
  have : (b.drop 8).take 1 = [b[8]] := by
    rw [List.take_one]
    simp [List.head?_drop, List.getElem?_eq_getElem (show 8 < b.length by omega)]
  rw [this]
  simp [leVal, List.getD_eq_getElem?_getD, List.getElem?_eq_getElem (show 8 < b.length by omega)]

theorem fC_eq (b : Bytes) : Noodles.Hostile.Bam.fC b = lOpCount b := by
  unfold Noodles.Hostile.Bam.fC lOpCount headU
  exact hleVal_eq _

theorem fL_eq (b : Bytes) : Noodles.Hostile.Bam.fL b = lBaseCount b := by
  unfold Noodles.Hostile.Bam.fL lBaseCount headU
  exact hleVal_eq _

theorem hostile_slices (b : Bytes) (h32 : 32 ≤ b.length) :
    Hostile.Bam.rawName b = toRes (slice (lRest b) 0 (lNameLen b)) ∧
    Hostile.Bam.rawCigar b = toRes (slice (lRest b) (lNameLen b) (lNameLen b + lOpCount b * 4)) ∧
    Hostile.Bam.rawSequence b = toRes (slice (lRest b) (lNameLen b + lOpCount b * 4)
      (lNameLen b + lOpCount b * 4 + (lBaseCount b + 1) / 2)) ∧
    Hostile.Bam.rawQualityScores b = toRes (slice (lRest b)
      (lNameLen b + lOpCount b * 4 + (lBaseCount b + 1) / 2)
      (lNameLen b + lOpCount b * 4 + (lBaseCount b + 1) / 2 + lBaseCount b)) ∧
    Hostile.Bam.rawData b = toRes (lazyRawData b) := by
  have eN := fN_eq b (by omega)
  have eC := fC_eq b
  have eL := fL_eq b
  refine ⟨?_, ?_, ?_, ?_, ?_⟩
  · unfold Hostile.Bam.rawName
    rw [Hostile.Bam.split_eq h32]; simp only [Noodles.Hostile.Res.bind_ok]
    rw [Hostile.Bam.offsets_eq h32]; simp only [Noodles.Hostile.Res.bind_ok, eN]
    unfold Hostile.sliceTo slice lRest
    simp only [Nat.zero_le, true_and, List.drop_zero, Nat.sub_zero]
    split <;> rfl
  · unfold Hostile.Bam.rawCigar
    rw [Hostile.Bam.split_eq h32]; simp only [Noodles.Hostile.Res.bind_ok]
    rw [Hostile.Bam.offsets_eq h32]; simp only [Noodles.Hostile.Res.bind_ok, eN, eC]
    unfold Hostile.slice slice lRest
    split <;> rfl
  · unfold Hostile.Bam.rawSequence
    rw [Hostile.Bam.split_eq h32]; simp only [Noodles.Hostile.Res.bind_ok]
    rw [Hostile.Bam.offsets_eq h32]; simp only [Noodles.Hostile.Res.bind_ok, eN, eC, eL]
    unfold Hostile.slice slice lRest
    split <;> rfl
  · unfold Hostile.Bam.rawQualityScores
    rw [Hostile.Bam.split_eq h32]; simp only [Noodles.Hostile.Res.bind_ok]
    rw [Hostile.Bam.offsets_eq h32]; simp only [Noodles.Hostile.Res.bind_ok, eN, eC, eL]
    unfold Hostile.slice slice lRest
    split <;> rfl
  · unfold Hostile.Bam.rawData lazyRawData
    rw [Hostile.Bam.split_eq h32]; simp only [Noodles.Hostile.Res.bind_ok]
    rw [Hostile.Bam.offsets_eq h32]; simp only [Noodles.Hostile.Res.bind_ok, eN, eC, eL]
    unfold Hostile.sliceFrom slice lRest
    by_cases hc : lNameLen b + lOpCount b * 4 + (lBaseCount b + 1) / 2 + lBaseCount b ≤ (b.drop 32).length
    · simp only [hc, if_true, Nat.le_refl, and_self, toRes]
      congr 1
      rw [List.take_of_length_le (by rw [List.length_drop] at hc; simp; omega)]
    · simp only [hc, if_false, false_and, toRes]

end Noodles.Bam
