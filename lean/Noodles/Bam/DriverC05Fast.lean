import Noodles.Bam.DriverC05Reenc
import Noodles.Bam.Fast
/-! Line-protocol handler for the fast-path suite (`c05 fast …`), see `Noodles/Bam/Fast.lean` and
`Noodles/Props/C05Fast.lean`.

    c05 fast refs <hex body>         the four hidden `*_ref` answers of the `bam::Record` that
                                     `read_record` makes of the body (`fast_path_selection`):
                                     `cig=<hex> seq=<l_seq>/<hex> qual=<hex> data=e<hex>` | `… data=g`
    c05 fast acc <nref> <hex body>   `write_alignment_record(&header, &bam::Record)`:
                                     `<ok body | error class | panic> dec=<ok|err> fits=<t|f|-> ident=<t|f|->`
                                     `dec`: the eager decoder accepts the body; `fits`: `fastFits`, the
                                     right-hand side of `fast_accepts_iff_fits` (the harness prints the
                                     real writer's verdict there; `-` when `dec=err`); `ident`: the body
                                     written is the body read

`eof` / `unreadable` when the reader does not deliver the record. -/
namespace Noodles.Bam.DriverFast
open Noodles.Wire Noodles.Bam Noodles.Codec Noodles.Bam.Driver Noodles.Bam.DriverReenc

def tf (b : Bool) : String := if b then "t" else "f"

def handle : List String → String
  | ["refs", body] =>
    match unhex body with
    | some b =>
      if blockIsEof b then "eof" else
      match validate b with
      | .error _ => "unreadable"
      | .ok () =>
        match fastRefs b with
        | none => "none"
        | some r =>
          s!"cig={fmtBytes r.cigar} seq={r.seq.2}/{fmtBytes r.seq.1} qual={fmtBytes r.qual} data=" ++
            (match r.data with
             | some d => "e" ++ fmtBytes d
             | none => "g")
    | none => "bad-op"
  | ["acc", nref, body] =>
    match nref.toNat?, unhex body with
    | some nref, some b =>
      if blockIsEof b then "eof" else
      match validate b with
      | .error _ => "unreadable"
      | .ok () =>
        let w := writeView nref (viewRecord b)
        let dec := match decode b with | .ok _ => "ok" | .error _ => "err"
        let fits := match fastFits nref b with | some v => tf v | none => "-"
        let ident := match w with | .ok out => tf (out == b) | .error _ => "-"
        s!"{fmtW w} dec={dec} fits={fits} ident={ident}"
    | _, _ => "bad-op"
  | _ => "bad-op"

end Noodles.Bam.DriverFast
