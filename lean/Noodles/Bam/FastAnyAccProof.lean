import Noodles.Bam.FastAnyProof
import Noodles.Bam.FastProof
namespace Noodles.Bam
open Noodles.Codec

/-! ## the small encoders accept exactly the `*Ok` predicates -/

theorem anyacc_encRefId (nref : Nat) (x : Option Nat) :
    (∃ o, encRefId nref x = .ok o) ↔ refOk nref x := by
  cases x with
  | none => simp [encRefId, refOk]
  | some id =>
    by_cases h1 : id < nref <;> by_cases h2 : id ≤ 2147483647 <;> simp [encRefId, refOk, h1, h2]

theorem anyacc_encPos (x : Option Nat) : (∃ o, encPos x = .ok o) ↔ posOk x := by
  cases x with
  | none => simp [encPos, posOk]
  | some p => by_cases h : p - 1 ≤ 2147483647 <;> simp [encPos, posOk, h]

theorem anyacc_encNameLen (x : Option Bytes) : (∃ o, encNameLen x = .ok o) ↔ nameLenOk x := by
  cases x with
  | none => simp [encNameLen, nameLenOk]
  | some s => by_cases h : s.length + 1 ≤ 255 <;> simp [encNameLen, nameLenOk, h]

theorem anyacc_encName (x : Option Bytes) : (∃ o, encName x = .ok o) ↔ nameOk x := by
  cases x with
  | none => simp [encName, nameOk]
  | some s => by_cases h : nameValid s = true <;> simp [encName, nameOk, h]

/-! ## the CIGAR bytes -/

theorem anyacc_lazyOps_of_kinds (n : Nat) (src : Bytes) (hl : src.length = n * 4)
    (h : kindsOk src = some true) : ∃ ops, lazyOps src = .ok ops := by
  induction n generalizing src with
  | zero =>
    have : src = [] := by cases src with
      | nil => rfl
      | cons _ _ => simp at hl
    subst this
    exact ⟨[], rfl⟩
  | succ n ih =>
    match src, hl with
    | a :: b :: c :: d :: rest, hl =>
      have hl' : rest.length = n * 4 := by simp at hl; omega
      simp only [kindsOk] at h
      cases hk : kindsOk rest with
      | none => simp [hk] at h
      | some r =>
        simp only [hk, Option.some.injEq, Bool.and_eq_true, decide_eq_true_eq] at h
        obtain ⟨ha, hr⟩ := h
        subst hr
        obtain ⟨os, hos⟩ := ih rest hl' hk
        have e : a.toNat % 16 = leVal [a, b, c, d] % 16 := by simp only [leVal]; omega
        have hd : decOpNat (leVal [a, b, c, d])
            = .ok ⟨leVal [a, b, c, d] % 16, leVal [a, b, c, d] / 16⟩ := by
          unfold decOpNat
          rw [if_pos (by omega)]
        exact ⟨⟨leVal [a, b, c, d] % 16, leVal [a, b, c, d] / 16⟩ :: os, by simp only [lazyOps, hd, hos]⟩
    | [], hl => simp at hl
    | [_], hl => simp at hl; omega
    | [_, _], hl => simp at hl; omega
    | [_, _, _], hl => simp at hl; omega

theorem anyacc_kinds_of_write (src out : Bytes) (h : writePackedCigar src = .ok out) :
    kindsOk src = some true := by
  unfold writePackedCigar at h
  split at h
  · cases h
  · assumption
  · cases h

theorem anyacc_readLenI (ops : List Op) (h : readLen ops < USZ) :
    readLenI (ops, none) = .ok (readLen ops) := by
  unfold readLenI
  simp only
  rw [if_neg (by omega)]

theorem anyacc_alignmentEnd (pos : Option Nat) (n : Nat) (ops : List Op) (hp : posOk pos)
    (h : span ops < 1152921504606846976) :
    ∃ aend, alignmentEndV pos (.ok ⟨n, (ops, none)⟩) = .ok aend := by
  cases pos with
  | none => exact ⟨none, rfl⟩
  | some s =>
    have hp' : s - 1 ≤ 2147483647 := hp
    unfold alignmentEndV spanI
    simp only
    have hU : USZ = 18446744073709551616 := rfl
    rw [if_neg (by omega)]
    simp only
    by_cases h0 : span ops = 0
    · rw [if_pos h0]; exact ⟨_, rfl⟩
    · rw [if_neg h0, if_pos (by omega)]; exact ⟨_, rfl⟩

/-! ## the qualities -/

theorem anyacc_qual_iff (ql : Bytes) (bc : Nat) (hlen : ql.length = bc) (q : Bytes)
    (hq : any_qualOf ql = .ok q) (w : W (Nat × Iter UInt8)) :
    (∃ x, writeQualRef bc w (.raw q) = .ok x) ↔
      (ql.all (· == 255) = true ∨ ∀ x ∈ ql, x.toNat ≤ 93) := by
  unfold any_qualOf at hq
  unfold writeQualRef qualFrame
  by_cases hall : ql.all (· == 255) = true
  · simp only [hall, if_true, L.ok.injEq] at hq
    subst hq
    simp only [hall, true_or, iff_true]
    by_cases h0 : bc = 0
    · subst h0; exact ⟨_, rfl⟩
    · have : ¬ (0 = bc) := fun e => h0 e.symm
      simp [this]
  · simp only [hall, Bool.false_eq_true, if_false, L.ok.injEq] at hq
    subst hq
    simp only [hlen, if_true, hall, Bool.false_eq_true, false_or]
    by_cases hs : ql.all scoreOk = true
    · simp only [hs, if_true]
      refine ⟨fun _ => ?_, fun _ => ⟨_, rfl⟩⟩
      intro x hx
      have := List.all_eq_true.mp hs x hx
      simpa [scoreOk] using this
    · simp only [hs, Bool.false_eq_true, if_false]
      refine ⟨fun ⟨x, hx⟩ => (by cases hx), fun h => ?_⟩
      exfalso
      apply hs
      rw [List.all_eq_true]
      intro x hx
      simpa [scoreOk] using h x hx

/-! ## the converse of the inversion (at most 65535 ops) -/

theorem anyacc_encodeView_ok (nref : Nat) (v : View)
    {refId : Option Nat} {bRef : Bytes} {pos : Option Nat} {bPos : Bytes} {name : Option Bytes}
    {lName : Bytes} {mapq aend : Option Nat} {s : Nat × Bytes} {c : CigarV} {n flags : Nat}
    {lSeq : Bytes} {mref : Option Nat} {bMref : Bytes} {mpos : Option Nat} {bMpos : Bytes} {tlen : Int}
    {bName bCig : Bytes} {rl : Nat} {cr : CigarRef} {sr : SeqRef} {bSeq : Bytes} {qr : QualRef}
    {bQual : Bytes} {dr : DataRef} {bData : Bytes}
    (h1 : v.refId = .ok refId) (h2 : encRefId nref refId = .ok bRef) (h3 : v.pos = .ok pos)
    (h4 : encPos pos = .ok bPos) (h5 : v.name = .ok name) (h6 : encNameLen name = .ok lName)
    (h7 : v.mapq = .ok mapq) (h10 : v.cigar = .ok c) (h8 : alignmentEndV pos (.ok c) = .ok aend)
    (h9 : v.seq = .ok s) (h11 : overflowV s.1 c = .ok (n, none)) (h12 : v.flags = .ok flags)
    (h13 : encSeqLen s.1 = .ok lSeq) (h14 : v.mateRefId = .ok mref)
    (h15 : encRefId nref mref = .ok bMref) (h16 : v.matePos = .ok mpos)
    (h17 : encPos mpos = .ok bMpos) (h18 : v.tlen = .ok tlen) (h19 : encName name = .ok bName)
    (hcr : v.cigarRef = .ok cr) (h20 : writeCigarRef (.ok c) cr = .ok bCig)
    (h21 : readLenI c.ops = .ok rl) (h22 : v.seqRef = .ok sr) (h23 : writeSeqRef rl s sr = .ok bSeq)
    (h24 : v.qualRef = .ok qr) (h25 : writeQualRef s.1 v.qual qr = .ok bQual)
    (h26 : v.dataRef = .ok dr) (h27 : writeDataRef v.data dr = .ok bData) :
    ∃ out, encodeView nref v = .ok out := by
  unfold encodeView
  simp only [bind, Except.bind, pure, Except.pure, liftIn, h1, h2, h3, h4, h5, h6, h7, h10, h8, h9, h11,
    h12, h13, h14, h15, h16, h17, h18, h19, hcr, h20, h21, h22, h23, h24, h25, h26, h27]
  exact ⟨_, rfl⟩

/-! ## the acceptance condition -/

theorem anyacc_ops_bounds (n : Nat) (src : Bytes) (ops : List Op) (hl : src.length = n * 4)
    (hn : n < 65536) (h : lazyOps src = .ok ops) :
    span ops < 1152921504606846976 ∧ readLen ops < USZ := by
  have hb : ∀ o ∈ ops, o.len ≤ 268435455 := encOps_inv _ _ (packed_eq_generic n src ops hl h).2
  have hlen : ops.length = n := (opChunks_of_lazyOps n src ops hl h).2
  have h1 := span_le ops _ hb
  have h2 := readLen_le ops _ hb
  have hU : USZ = 18446744073709551616 := rfl
  rw [hlen] at h1 h2
  omega

/-- WHEN the fast paths accept, for ANY validated bytes (decodable by the eager decoder or not) whose
CIGAR is read from the CIGAR slot: exactly when the ids and positions are valid and inside the
dictionary, the name (as the lazy accessor returns it) has a valid length and valid characters, every
op kind is at most 8, `l_seq` is 0 or matches a non-zero read length of the CIGAR, the qualities are
all 0xff or all at most 93, and the data bytes pass the FieldEncoded validator. -/
theorem anyacc_slot_iff (nref : Nat) (b src : Bytes) (hv : validate b = .ok ())
    (hcb : lazyCigarBytes b = .ok (src, false)) :
    (∃ out, encodeView nref (viewRecord b) = .ok out) ↔
      ∃ refId pos name mref mpos ops,
        lazyRefId b = .ok refId ∧ refOk nref refId ∧
        lazyPos b = .ok pos ∧ posOk pos ∧
        lazyName b = .ok name ∧ nameLenOk name ∧ nameOk name ∧
        lazyMateRefId b = .ok mref ∧ refOk nref mref ∧
        lazyMatePos b = .ok mpos ∧ posOk mpos ∧
        lazyOps src = .ok ops ∧
        (lBaseCount b = 0 ∨ ¬ (0 < readLen ops ∧ lBaseCount b ≠ readLen ops)) ∧
        ((segQual b).all (· == 255) = true ∨ ∀ q ∈ segQual b, q.toNat ≤ 93) ∧
        validateData (segData b).length (segData b) = .ok () := by
  have hl := validate_inv b hv
  have lay := any_layout_b b hv
  have hsrc : src = lCigarSrc b := any_cigOf_false _ _ _ _ (by rw [← any_lay_cb lay]; exact hcb)
  have hclen : src.length = lOpCount b * 4 := by rw [hsrc]; exact lCigarSrc_length b hl
  have hop : lOpCount b < 256 ^ 2 := headU_lt b 12 2
  have hdiv : src.length / 4 = lOpCount b := by omega
  have hqlen : (segQual b).length = lBaseCount b := segQual_length b hl
  obtain ⟨q, hq, hqr⟩ := any_vr_qualRef b hv
  constructor
  · rintro ⟨out, hw⟩
    obtain ⟨refId, bRef, pos, bPos, name, lName, mapq, aend, s, c, ov, flags, lSeq, mref, bMref, mpos,
      bMpos, tlen, bName, bCig, rl, sr, bSeq, qr, bQual, dr, bData, bCg, h1, h2, h3, h4, h5, h6, h7, h8,
      h9, h10, h11, h12, h13, h14, h15, h16, h17, h18, h19, h20, h21, h22, h23, h24, h25, h26, h27, h28,
      hout⟩ := any_encodeView_inv nref _ out hw
    have e9 : s.1 = lBaseCount b := any_seqV_fst b s h9
    rw [any_vr_cigar b _ false hcb] at h10
    simp only [Except.ok.injEq] at h10
    subst h10
    have e11 := any_overflowV s.1 _ _ (by rw [hdiv]; omega) ov h11
    subst e11
    simp only [any_vr_cigarRef b _ false hcb] at h20
    have hk : kindsOk src = some true := anyacc_kinds_of_write src bCig h20
    obtain ⟨ops, hops⟩ := anyacc_lazyOps_of_kinds _ src hclen hk
    obtain ⟨hit, _⟩ := opsIter_of_lazyOps _ src ops hclen hops
    obtain ⟨_, hrlb⟩ := anyacc_ops_bounds _ src ops hclen hop hops
    have hrl : rl = readLen ops := by
      have h21' : readLenI (opsIter src) = .ok rl := h21
      rw [hit, anyacc_readLenI ops hrlb] at h21'
      simpa using h21'.symm
    rw [any_vr_seqRef b hl] at h22
    simp only [Except.ok.injEq] at h22
    subst h22
    have hseq := (fast_writeSeqRef_accept rl s _).mp ⟨bSeq, h23⟩
    simp only [SeqRef.len] at hseq
    rw [hrl] at hseq
    rw [hqr] at h24
    simp only [Except.ok.injEq] at h24
    subst h24
    have hqual := (anyacc_qual_iff _ _ (by rw [e9]; exact hqlen) q hq _).mp ⟨bQual, h25⟩
    rw [any_vr_dataRef b _ hl hcb] at h26
    simp only [Except.ok.injEq] at h26
    subst h26
    have hdata := (fast_writeDataRef_encoded _ _).mp ⟨bData, h27⟩
    exact ⟨refId, pos, name, mref, mpos, ops, any_toW_ok _ _ h1, (anyacc_encRefId _ _).mp ⟨_, h2⟩,
      any_toW_ok _ _ h3, (anyacc_encPos _).mp ⟨_, h4⟩, any_toW_ok _ _ h5,
      (anyacc_encNameLen _).mp ⟨_, h6⟩, (anyacc_encName _).mp ⟨_, h19⟩, any_toW_ok _ _ h14,
      (anyacc_encRefId _ _).mp ⟨_, h15⟩, any_toW_ok _ _ h16, (anyacc_encPos _).mp ⟨_, h17⟩, hops, hseq,
      hqual, hdata⟩
  · rintro ⟨refId, pos, name, mref, mpos, ops, g1, g2, g3, g4, g5, g6, g7, g8, g9, g10, g11, hops, hseq,
      hqual, hdata⟩
    obtain ⟨hit, _⟩ := opsIter_of_lazyOps _ src ops hclen hops
    obtain ⟨hspb, hrlb⟩ := anyacc_ops_bounds _ src ops hclen hop hops
    obtain ⟨hk, _⟩ := packed_eq_generic _ src ops hclen hops
    obtain ⟨bRef, h2⟩ := (anyacc_encRefId _ _).mpr g2
    obtain ⟨bPos, h4⟩ := (anyacc_encPos _).mpr g4
    obtain ⟨lName, h6⟩ := (anyacc_encNameLen _).mpr g6
    obtain ⟨bName, h19⟩ := (anyacc_encName _).mpr g7
    obtain ⟨bMref, h15⟩ := (anyacc_encRefId _ _).mpr g9
    obtain ⟨bMpos, h17⟩ := (anyacc_encPos _).mpr g11
    obtain ⟨aend, h8⟩ := anyacc_alignmentEnd pos (src.length / 4) ops g4 hspb
    have hbases : ∃ bases, lazySeq b = .ok bases := by
      rw [any_lay_seq lay]; unfold any_seqOf; split <;> exact ⟨_, rfl⟩
    obtain ⟨bases, hbases⟩ := hbases
    have h9 : (viewRecord b).seq = .ok (lBaseCount b, bases) := by
      show seqV b = _
      unfold seqV
      rw [hbases]
    have h10 : (viewRecord b).cigar = .ok ⟨src.length / 4, (ops, none)⟩ := by
      rw [any_vr_cigar b _ false hcb, hit]
    have h11 : overflowV (lBaseCount b, bases).1 ⟨src.length / 4, (ops, none)⟩
        = .ok (src.length / 4, none) := by
      unfold overflowV
      rw [if_pos (by show src.length / 4 ≤ 65535; omega)]
    have h13 : encSeqLen (lBaseCount b, bases).1 = .ok (le 4 (lBaseCount b)) := by
      unfold encSeqLen
      have := headU_lt b 16 4
      rw [if_pos (by show lBaseCount b ≤ 4294967295; unfold lBaseCount; omega)]
    have h20 : writeCigarRef (.ok ⟨src.length / 4, (ops, none)⟩) (.packed src) = .ok src := by
      simp only [writeCigarRef, writePackedCigar, hk]
    have h21 : readLenI (CigarV.mk (src.length / 4) (ops, none)).ops = .ok (readLen ops) :=
      anyacc_readLenI ops hrlb
    obtain ⟨bSeq, h23⟩ := (fast_writeSeqRef_accept (readLen ops) (lBaseCount b, bases)
      (.packed (segSeq b) (lBaseCount b))).mpr (by simp only [SeqRef.len]; exact hseq)
    obtain ⟨bQual, h25⟩ := (anyacc_qual_iff _ _ hqlen q hq (viewRecord b).qual).mpr hqual
    obtain ⟨bData, h27⟩ := (fast_writeDataRef_encoded (viewRecord b).data _).mpr hdata
    exact anyacc_encodeView_ok nref (viewRecord b)
      (show toW (lazyRefId b) = _ by rw [g1]; rfl) h2
      (show toW (lazyPos b) = _ by rw [g3]; rfl) h4
      (show toW (lazyName b) = _ by rw [g5]; rfl) h6
      (rfl : (viewRecord b).mapq = .ok (lazyMapq b)) h10 h8 h9 h11
      (rfl : (viewRecord b).flags = .ok (lazyFlags b)) h13
      (show toW (lazyMateRefId b) = _ by rw [g8]; rfl) h15
      (show toW (lazyMatePos b) = _ by rw [g10]; rfl) h17
      (rfl : (viewRecord b).tlen = .ok (lazyTlen b)) h19
      (any_vr_cigarRef b _ false hcb) h20 h21 (any_vr_seqRef b hl) h23 hqr h25
      (any_vr_dataRef b _ hl hcb) h27

end Noodles.Bam
