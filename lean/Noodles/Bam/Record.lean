import Noodles.Basic.Codec
import Noodles.Csi.Binning
/-!
# BAM record codec — executable model of `noodles-bam/src/record/codec/{encoder,decoder}.rs`,
`io/reader/record.rs::validate`, `io/writer.rs::write_alignment_record` and the lazy views of
`record_ref.rs` / `record/*.rs`.

Hand transcription (C05).  Rust integer types are `Nat`/`Int` here with the range guards the
code has (`try_from`, `<= MAX_LENGTH`); `usize` overflow of sums is not modelled.  Errors are
compared by class only, so the model keeps one rejection value per direction:
every encoder failure is `io::ErrorKind::InvalidInput`, every decoder failure is
`InvalidData` (`read_record_buf` maps all `DecodeError`s to it), `validate` fails with
`UnexpectedEof`.
-/
namespace Noodles.Bam
open Noodles.Codec

/-! ## Data model (`sam::alignment::RecordBuf` as the BAM writer sees it) -/

/-- CIGAR op; `kind` is the index in `MIDNSHP=X` (the Rust `Kind` enum, so `kind ≤ 8`). -/
structure Op where
  kind : Nat
  len : Nat
deriving DecidableEq, Repr

/-- numeric aux types `c C s S i I f`; an `f` value is carried as its IEEE-754 bit pattern. -/
inductive NumTy | c | C | s | S | i | I | f
deriving DecidableEq, Repr

def NumTy.code : NumTy → UInt8
  | .c => 99 | .C => 67 | .s => 115 | .S => 83 | .i => 105 | .I => 73 | .f => 102

def NumTy.size : NumTy → Nat
  | .c => 1 | .C => 1 | .s => 2 | .S => 2 | .i => 4 | .I => 4 | .f => 4

def NumTy.signed : NumTy → Bool
  | .c => true | .s => true | .i => true | _ => false

def NumTy.ofCode (b : UInt8) : Option NumTy :=
  if b = 99 then some .c else if b = 67 then some .C else if b = 115 then some .s
  else if b = 83 then some .S else if b = 105 then some .i else if b = 73 then some .I
  else if b = 102 then some .f else none

/-- the value range of the Rust type (`i8`, `u8`, …; `f32` = any 32-bit pattern) -/
def NumTy.inRange (t : NumTy) (v : Int) : Prop :=
  if t.signed then -(256 ^ t.size / 2 : Nat) ≤ v ∧ v < (256 ^ t.size / 2 : Nat)
  else 0 ≤ v ∧ v < (256 ^ t.size : Nat)

instance (t : NumTy) (v : Int) : Decidable (t.inRange v) := by unfold NumTy.inRange; infer_instance

/-- aux value (`record_buf::data::field::Value`) -/
inductive Val
  | char (c : UInt8)
  | num (t : NumTy) (v : Int)
  | str (s : Bytes)
  | hex (s : Bytes)
  | arr (t : NumTy) (vs : List Int)
deriving DecidableEq, Repr

abbrev Tag := UInt8 × UInt8
/-- `Tag::CIGAR` = `CG` -/
def CG : Tag := (67, 71)

structure Rec where
  name : Option Bytes
  flags : Nat
  refId : Option Nat
  pos : Option Nat
  mapq : Option Nat
  cigar : List Op
  mateRefId : Option Nat
  matePos : Option Nat
  tlen : Int
  seq : Bytes
  qual : Bytes
  data : List (Tag × Val)
deriving DecidableEq, Repr

/-! ## Integers -/

/-- `v as uN` (two's complement), `n` bytes wide -/
def toU (n : Nat) (v : Int) : Nat := (v % ((256 ^ n : Nat) : Int)).toNat

/-- `u as iN` when `signed`, identity otherwise -/
def fromU (signed : Bool) (n : Nat) (u : Nat) : Int :=
  if signed ∧ 256 ^ n ≤ 2 * u then (u : Int) - ((256 ^ n : Nat) : Int) else (u : Int)

/-! ## Encoder (`record/codec/encoder.rs` and sub-modules) -/

/-- `write_reference_sequence_id` -/
def encRefId (nref : Nat) : Option Nat → Except Err Bytes
  | none => .ok (le 4 (toU 4 (-1)))
  | some id =>
    if id < nref then
      if id ≤ 2147483647 then .ok (le 4 id) else .error .invalid
    else .error .invalid

/-- `write_position`: `i32::try_from(usize::from(position) - 1)` -/
def encPos : Option Nat → Except Err Bytes
  | none => .ok (le 4 (toU 4 (-1)))
  | some p => if p - 1 ≤ 2147483647 then .ok (le 4 (p - 1)) else .error .invalid

/-- `name::write_length`: `u8::try_from(len + 1)` -/
def encNameLen (name : Option Bytes) : Except Err Bytes :=
  let len := (match name with | some s => s.length | none => 1) + 1
  if len ≤ 255 then .ok [UInt8.ofNat len] else .error .invalid

/-- `name::is_valid` -/
def nameValid (s : Bytes) : Bool :=
  decide (1 ≤ s.length) && decide (s.length ≤ 254) && (s != [42]) &&
    s.all (fun b => decide (33 ≤ b.toNat) && decide (b.toNat ≤ 126) && (b != 64))

/-- `name::write_name` -/
def encName : Option Bytes → Except Err Bytes
  | none => .ok [42, 0]
  | some s => if nameValid s then .ok (s ++ [0]) else .error .invalid

def consumesRef (k : Nat) : Bool := k == 0 || k == 2 || k == 3 || k == 7 || k == 8
def consumesRead (k : Nat) : Bool := k == 0 || k == 1 || k == 4 || k == 7 || k == 8

/-- `Cigar::alignment_span` -/
def span : List Op → Nat
  | [] => 0
  | o :: os => (if consumesRef o.kind then o.len else 0) + span os

/-- `Cigar::read_length` -/
def readLen : List Op → Nat
  | [] => 0
  | o :: os => (if consumesRead o.kind then o.len else 0) + readLen os

/-- `Record::alignment_end` (1-based, inclusive) -/
def alignmentEnd (pos : Option Nat) (cigar : List Op) : Option Nat :=
  match pos with
  | none => none
  | some s => if span cigar = 0 then some s else some (s + span cigar - 1)

/-- `bin::region_to_bin` incl. the final `bin as u16` -/
def regionToBin (alignmentStart alignmentEnd : Nat) : Nat :=
  let start := alignmentStart - 1
  let end_ := alignmentEnd - 1
  let bin :=
    if start >>> 14 = end_ >>> 14 then ((1 <<< 15) - 1) / 7 + (start >>> 14)
    else if start >>> 17 = end_ >>> 17 then ((1 <<< 12) - 1) / 7 + (start >>> 17)
    else if start >>> 20 = end_ >>> 20 then ((1 <<< 9) - 1) / 7 + (start >>> 20)
    else if start >>> 23 = end_ >>> 23 then ((1 <<< 6) - 1) / 7 + (start >>> 23)
    else if start >>> 26 = end_ >>> 26 then ((1 <<< 3) - 1) / 7 + (start >>> 26)
    else 0
  bin % 65536

/-- `bin::write_bin` -/
def binOf (pos : Option Nat) (cigar : List Op) : Nat :=
  match pos, alignmentEnd pos cigar with
  | some s, some e => regionToBin s e
  | _, _ => 4680

/-- `cigar::op::encode_op` -/
def encOp (o : Op) : Except Err Bytes :=
  if o.len ≤ 268435455 then .ok (le 4 (o.len * 16 + o.kind)) else .error .invalid

/-- `write_generic_cigar` -/
def encOps : List Op → Except Err Bytes
  | [] => .ok []
  | o :: os =>
    match encOp o with
    | .error e => .error e
    | .ok b =>
      match encOps os with
      | .error e => .error e
      | .ok bs => .ok (b ++ bs)

/-- `sequence::encode_base`: index in `=ACMGRSVTWYHKDBN`, case-insensitive, anything else → 15 -/
def baseCode (b : UInt8) : Nat :=
  if b = 61 then 0
  else if b = 65 ∨ b = 97 then 1 else if b = 67 ∨ b = 99 then 2 else if b = 77 ∨ b = 109 then 3
  else if b = 71 ∨ b = 103 then 4 else if b = 82 ∨ b = 114 then 5 else if b = 83 ∨ b = 115 then 6
  else if b = 86 ∨ b = 118 then 7 else if b = 84 ∨ b = 116 then 8 else if b = 87 ∨ b = 119 then 9
  else if b = 89 ∨ b = 121 then 10 else if b = 72 ∨ b = 104 then 11 else if b = 75 ∨ b = 107 then 12
  else if b = 68 ∨ b = 100 then 13 else if b = 66 ∨ b = 98 then 14 else 15

/-- `write_raw_sequence`: two bases per byte, an odd tail is padded with `=` (code 0) -/
def packBases : Bytes → Bytes
  | [] => []
  | [l] => [UInt8.ofNat (baseCode l * 16 + baseCode 61)]
  | l :: r :: rest => UInt8.ofNat (baseCode l * 16 + baseCode r) :: packBases rest

/-- `sequence::write_sequence` -/
def encSeq (readLength : Nat) (seq : Bytes) : Except Err Bytes :=
  if seq.isEmpty then .ok []
  else if 0 < readLength ∧ seq.length ≠ readLength then .error .invalid
  else .ok (packBases seq)

/-- `quality_scores::write_quality_scores` -/
def encQual (baseCount : Nat) (q : Bytes) : Except Err Bytes :=
  if q.length = baseCount then
    if q.all (fun b => decide (b.toNat ≤ 93)) then .ok q else .error .invalid
  else if q.isEmpty then .ok (List.replicate baseCount 255)
  else .error .invalid

def encNum (t : NumTy) (v : Int) : Bytes := le t.size (toU t.size v)

/-- `string::is_valid`: `[ -~]*` -/
def strValid (s : Bytes) : Bool := s.all (fun b => decide (32 ≤ b.toNat) && decide (b.toNat ≤ 126))

/-- `hex::is_valid`: even length, `[0-9A-F]*` -/
def hexValid (s : Bytes) : Bool :=
  decide (s.length % 2 = 0) &&
    s.all (fun b => (decide (48 ≤ b.toNat) && decide (b.toNat ≤ 57)) || (decide (65 ≤ b.toNat) && decide (b.toNat ≤ 70)))

/-- `ty::encode` -/
def Val.tyCode : Val → UInt8
  | .char _ => 65 | .num t _ => t.code | .str _ => 90 | .hex _ => 72 | .arr _ _ => 66

/-- `value::write_value` -/
def encVal : Val → Except Err Bytes
  | .char c => .ok [c]
  | .num t v => .ok (encNum t v)
  | .str s => if strValid s then .ok (s ++ [0]) else .error .invalid
  | .hex s => if hexValid s then .ok (s ++ [0]) else .error .invalid
  | .arr t vs =>
    if vs.length ≤ 4294967295 then .ok (t.code :: (le 4 vs.length ++ (vs.map (encNum t)).flatten))
    else .error .invalid

/-- `field::write_field` -/
def encField (tag : Tag) (v : Val) : Except Err Bytes :=
  match encVal v with
  | .error e => .error e
  | .ok b => .ok (tag.1 :: tag.2 :: v.tyCode :: b)

/-- `data::write_generic_data`: fields in order; a `CG` field of the record is skipped -/
def encData : List (Tag × Val) → Except Err Bytes
  | [] => .ok []
  | (t, v) :: rest =>
    if t = CG then encData rest
    else
      match encField t v with
      | .error e => .error e
      | .ok b =>
        match encData rest with
        | .error e => .error e
        | .ok bs => .ok (b ++ bs)

/-- `data::field::write_cigar`: `CG:B,I` + count + packed ops -/
def encCg (ops : List Op) : Except Err Bytes :=
  if ops.length ≤ 4294967295 then
    match encOps ops with
    | .error e => .error e
    | .ok b => .ok (CG.1 :: CG.2 :: 66 :: 73 :: (le 4 ops.length ++ b))
  else .error .invalid

/-- `overflowing_write_cigar_op_count`: the ops written in the CIGAR slot and whether the real
CIGAR goes to a trailing `CG` field -/
def cigarSlot (baseCount : Nat) (cigar : List Op) : List Op × Bool :=
  if cigar.length ≤ 65535 then (cigar, false)
  else ([⟨4, baseCount⟩, ⟨3, span cigar⟩], true)

/-- `sequence::write_length`: `u32::try_from(base_count)` -/
def encSeqLen (baseCount : Nat) : Except Err Bytes :=
  if baseCount ≤ 4294967295 then .ok (le 4 baseCount) else .error .invalid

/-- the trailing `if cigar.is_some() { data::field::write_cigar(…) }` -/
def encCgIf (overflow : Bool) (cigar : List Op) : Except Err Bytes :=
  if overflow then encCg cigar else .ok []

/-- `encoder::encode` -/
def encode (nref : Nat) (r : Rec) : Except Err Bytes := do
  let refId ← encRefId nref r.refId
  let pos ← encPos r.pos
  let lName ← encNameLen r.name
  let mapq : Bytes := [UInt8.ofNat (r.mapq.getD 255)]
  let bin := le 2 (binOf r.pos r.cigar)
  let baseCount := r.seq.length
  let slot := cigarSlot baseCount r.cigar
  let nOps := le 2 slot.1.length
  let flags := le 2 r.flags
  let lSeq ← encSeqLen baseCount
  let mref ← encRefId nref r.mateRefId
  let mpos ← encPos r.matePos
  let tlen := le 4 (toU 4 r.tlen)
  let name ← encName r.name
  let cigar ← encOps slot.1
  let seq ← encSeq (readLen r.cigar) r.seq
  let qual ← encQual baseCount r.qual
  let data ← encData r.data
  let cg ← encCgIf slot.2 r.cigar
  pure (refId ++ pos ++ lName ++ mapq ++ bin ++ nOps ++ flags ++ lSeq ++ mref ++ mpos ++ tlen
    ++ name ++ cigar ++ seq ++ qual ++ data ++ cg)

/-- `io/writer.rs::write_alignment_record`: `buf.clear(); encode(&mut buf, …)?;` then the
`block_size` prefix and the body. The scratch buffer is cleared at the start of every call, so
the sink only ever receives whole records. -/
def writeRecord (nref : Nat) (sink : Bytes) (r : Rec) : Except Err Bytes :=
  match encode nref r with
  | .error e => .error e
  | .ok body => if body.length ≤ 4294967295 then .ok (sink ++ le 4 body.length ++ body) else .error .invalid

/-- the block (`block_size` + body) one record contributes to the stream; nothing if rejected -/
def frameOf (nref : Nat) (r : Rec) : Bytes :=
  match writeRecord nref [] r with
  | .ok f => f
  | .error _ => []

/-- one writer, several `write_alignment_record` calls; the caller goes on after a rejection -/
def writeAll (nref : Nat) (sink : Bytes) : List Rec → Bytes
  | [] => sink
  | r :: rs =>
    match writeRecord nref sink r with
    | .ok sink' => writeAll nref sink' rs
    | .error _ => writeAll nref sink rs

/-! ## Eager decoder (`record/codec/decoder.rs` and sub-modules) -/

instance : Monad Dec where
  pure a := fun s => .ok (a, s)
  bind d f := fun s =>
    match d s with
    | .error e => .error e
    | .ok (a, s') => f a s'

def fail {α : Type} : Dec α := fun _ => .error .invalid

/-- `split_at_checked(n)` / `split_off(..n)` -/
def takeN (n : Nat) : Dec Bytes := fun s =>
  if n ≤ s.length then .ok (s.take n, s.drop n) else .error .eof

/-- `read_reference_sequence_id` -/
def decRefId : Dec (Option Nat) := do
  let n ← unle 4
  if n = 4294967295 then pure none
  else if n < 2147483648 then pure (some n) else fail

/-- `read_position` -/
def decPos : Dec (Option Nat) := do
  let n ← unle 4
  if n = 4294967295 then pure none
  else if n < 2147483648 then pure (some (n + 1)) else fail

/-- `name::read_length` (`NonZero`) -/
def decNameLen : Dec Nat := do
  let n ← unle 1
  if n = 0 then fail else pure n

/-- `read_mapping_quality` (`MappingQuality::new`) -/
def decMapq : Dec (Option Nat) := do
  let n ← unle 1
  pure (if n = 255 then none else some n)

/-- `name::read_name` -/
def decName (len : Nat) : Dec (Option Bytes) := do
  let buf ← takeN len
  if buf = [42, 0] then pure none
  else
    match buf.getLast? with
    | none => fail
    | some t => if t = 0 then pure (some buf.dropLast) else fail

/-- `cigar::op::decode_op` on the `u32` value -/
def decOpNat (n : Nat) : Except Err Op :=
  if n % 16 ≤ 8 then .ok ⟨n % 16, n / 16⟩ else .error .invalid

def decOp : Dec Op := do
  let n ← unle 4
  match decOpNat n with
  | .ok o => pure o
  | .error _ => fail

/-- `cigar::read_cigar`: split `4 * op_count` bytes off, then decode them -/
def decCigar (opCount : Nat) : Dec (List Op) := do
  let buf ← takeN (4 * opCount)
  match decN decOp opCount buf with
  | .ok (ops, _) => pure ops
  | .error _ => fail

/-- `=ACMGRSVTWYHKDBN` -/
def baseChar (n : Nat) : UInt8 :=
  match n with
  | 0 => 61 | 1 => 65 | 2 => 67 | 3 => 77 | 4 => 71 | 5 => 82 | 6 => 83 | 7 => 86
  | 8 => 84 | 9 => 87 | 10 => 89 | 11 => 72 | 12 => 75 | 13 => 68 | 14 => 66 | _ => 78

/-- all nibbles of the packed sequence, high nibble first -/
def unpackBases : Bytes → Bytes
  | [] => []
  | b :: rest => baseChar (b.toNat / 16) :: baseChar (b.toNat % 16) :: unpackBases rest

/-- `sequence::read_sequence` -/
def decSeq (baseCount : Nat) : Dec Bytes := do
  let buf ← takeN ((baseCount + 1) / 2)
  pure ((unpackBases buf).take baseCount)

/-- `quality_scores::read_quality_scores` -/
def decQual (baseCount : Nat) : Dec Bytes := do
  if baseCount = 0 then pure []
  else
    let buf ← takeN baseCount
    if buf.all (· == 255) then pure [] else pure buf

/-- bytes up to the first NUL, and the rest after it (`memchr`) -/
def splitNul : Bytes → Option (Bytes × Bytes)
  | [] => none
  | b :: r =>
    if b = 0 then some ([], r)
    else
      match splitNul r with
      | none => none
      | some (a, r') => some (b :: a, r')

def decStr : Dec Bytes := fun s =>
  match splitNul s with
  | none => .error .invalid
  | some (a, r) => .ok (a, r)

def decNum (t : NumTy) : Dec Int := do
  let u ← unle t.size
  pure (fromU t.signed t.size u)

/-- `decoder::data::field::value::read_value` for type byte `ty` (arrays: element by element) -/
def decVal (ty : UInt8) : Dec Val :=
  if ty = 65 then do let c ← takeN 1; match c with | [c] => pure (.char c) | _ => fail
  else if ty = 90 then do let s ← decStr; pure (.str s)
  else if ty = 72 then do let s ← decStr; pure (.hex s)
  else if ty = 66 then do
    let sub ← unle 1
    match NumTy.ofCode (UInt8.ofNat sub) with
    | none => fail
    | some t => do
      let n ← unle 4
      let vs ← decN (decNum t) n
      pure (.arr t vs)
  else
    match NumTy.ofCode ty with
    | some t => do let v ← decNum t; pure (.num t v)
    | none => fail

/-- `decoder::data::field::read_field` -/
def decField : Dec (Tag × Val) := do
  let t ← takeN 2
  match t with
  | [a, b] => do
    let ty ← takeN 1
    match ty with
    | [ty] => do let v ← decVal ty; pure ((a, b), v)
    | _ => fail
  | _ => fail

def hasTag (t : Tag) (d : List (Tag × Val)) : Bool := d.any (fun f => f.1 == t)

/-- `decoder::data::read_data`: fields until the buffer is empty; a repeated tag is an error.
`fuel` bounds the loop (every field consumes at least 3 bytes). -/
def decData : Nat → Bytes → List (Tag × Val) → Except Err (List (Tag × Val))
  | 0, s, acc => if s.isEmpty then .ok acc else .error .invalid
  | fuel+1, s, acc =>
    if s.isEmpty then .ok acc
    else
      match decField s with
      | .error e => .error e
      | .ok ((t, v), s') =>
        if hasTag t acc then .error .invalid else decData fuel s' (acc ++ [(t, v)])

def opsOfNats : List Int → Except Err (List Op)
  | [] => .ok []
  | n :: ns =>
    match decOpNat n.toNat with
    | .error e => .error e
    | .ok o =>
      match opsOfNats ns with
      | .error e => .error e
      | .ok os => .ok (o :: os)

/-- `Vec::swap_remove` -/
def swapRemove {α : Type} (i : Nat) (l : List α) : List α :=
  match l.getLast? with
  | none => l
  | some last => if i + 1 = l.length then l.dropLast else (l.set i last).dropLast

/-- the CIGAR slot holds the `kSmN` placeholder for a record with `baseCount` bases -/
def isPlaceholder (baseCount : Nat) (cigar : List Op) : Bool :=
  match cigar with
  | [op0, op1] => decide (op0 = ⟨4, baseCount⟩) && decide (op1.kind = 3)
  | _ => false

/-- `cigar::resolve`: the placeholder is replaced by the ops of the `CG:B,I` field, which is
removed from the data (`Data::remove` is a `swap_remove`) -/
def resolve (r : Rec) : Except Err Rec :=
  if isPlaceholder r.seq.length r.cigar then
    match r.data.findIdx? (fun f => f.1 == CG) with
    | none => .ok r
    | some i =>
      match r.data[i]? with
      | some (_, .arr .I vs) =>
        match opsOfNats vs with
        | .error e => .error e
        | .ok ops => .ok { r with cigar := ops, data := swapRemove i r.data }
      | _ => .error .invalid
  else .ok r

/-- the fixed 32 bytes and the variable part, before `resolve` -/
def decodeRaw : Dec Rec := do
  let refId ← decRefId
  let pos ← decPos
  let nameLen ← decNameLen
  let mapq ← decMapq
  let _bin ← takeN 2
  let opCount ← unle 2
  let flags ← unle 2
  let baseCount ← unle 4
  let mref ← decRefId
  let mpos ← decPos
  let tlen ← unle 4
  let name ← decName nameLen
  let cigar ← decCigar opCount
  let seq ← decSeq baseCount
  let qual ← decQual baseCount
  fun s =>
    match decData s.length s [] with
    | .error e => .error e
    | .ok data =>
      -- `Flags::from(u16)` = `from_bits_truncate`: the 12 defined bits
      .ok (⟨name, flags % 4096, refId, pos, mapq, cigar, mref, mpos, fromU true 4 tlen, seq, qual, data⟩, [])

/-- `decoder::decode` -/
def decode (b : Bytes) : Except Err Rec :=
  match decodeRaw b with
  | .error e => .error e
  | .ok (r, _) => resolve r

/-- `io/reader/record.rs::validate`: the block is at least as long as its fixed part plus the
name, CIGAR, sequence and quality scores it announces -/
def validate (b : Bytes) : Except Err Unit :=
  if b.length < 32 then .error .eof
  else
    match unle 1 (b.drop 8), unle 2 (b.drop 12), unle 4 (b.drop 16) with
    | .ok (nameLen, _), .ok (opCount, _), .ok (baseCount, _) =>
      if b.length < 32 + nameLen + opCount * 4 + (baseCount + 1) / 2 + baseCount then .error .eof
      else .ok ()
    | _, _, _ => .error .eof

/-- `read_record`: a `block_size` of 0 is reported as end of stream (`Ok(0)`), not as a record -/
def blockIsEof (b : Bytes) : Bool := b.isEmpty

/-- `read_record_buf` on one block body: `validate`, then `decode` (all errors → `InvalidData`) -/
def readRecordBuf (b : Bytes) : Except Err Rec :=
  match validate b with
  | .error e => .error e
  | .ok () =>
    match decode b with
    | .error _ => .error .invalid
    | .ok r => .ok r

/-! ## Lazy views (`record_ref.rs`, `record/{cigar,sequence,quality_scores,data}.rs`) -/

/-- outcome of a lazy accessor: a value, a reported error, or a Rust panic (slice out of bounds,
`unreachable!()`) -/
inductive L (α : Type)
  | ok (a : α)
  | err
  | panic
deriving DecidableEq, Repr

/-- `&s[a..b]` -/
def slice (s : Bytes) (a b : Nat) : L Bytes :=
  if a ≤ b ∧ b ≤ s.length then .ok ((s.drop a).take (b - a)) else .panic

/-- little-endian value of a byte string -/
def leVal : Bytes → Nat
  | [] => 0
  | b :: r => b.toNat + 256 * leVal r

/-- little-endian field of the fixed part: `n` bytes at offset `off` -/
def headU (b : Bytes) (off n : Nat) : Nat := leVal ((b.drop off).take n)

def lNameLen (b : Bytes) : Nat := headU b 8 1
def lOpCount (b : Bytes) : Nat := headU b 12 2
def lBaseCount (b : Bytes) : Nat := headU b 16 4
/-- `self.rest` -/
def lRest (b : Bytes) : Bytes := b.drop 32

/-- `get_reference_sequence_id` + `try_to_reference_sequence_id` -/
def lazyId (u : Nat) : L (Option Nat) :=
  if u = 4294967295 then .ok none else if u < 2147483648 then .ok (some u) else .err

/-- `get_position` + `try_to_position` -/
def lazyPosOf (u : Nat) : L (Option Nat) :=
  if u = 4294967295 then .ok none else if u < 2147483648 then .ok (some (u + 1)) else .err

def lazyRefId (b : Bytes) : L (Option Nat) := lazyId (headU b 0 4)
def lazyPos (b : Bytes) : L (Option Nat) := lazyPosOf (headU b 4 4)
def lazyMapq (b : Bytes) : Option Nat := if headU b 9 1 = 255 then none else some (headU b 9 1)
def lazyFlags (b : Bytes) : Nat := headU b 14 2 % 4096
def lazyMateRefId (b : Bytes) : L (Option Nat) := lazyId (headU b 20 4)
def lazyMatePos (b : Bytes) : L (Option Nat) := lazyPosOf (headU b 24 4)
def lazyTlen (b : Bytes) : Int := fromU true 4 (headU b 28 4)

/-- `RecordRef::name`: `*\0` is missing; otherwise one trailing NUL is stripped if present -/
def lazyName (b : Bytes) : L (Option Bytes) :=
  match slice (lRest b) 0 (lNameLen b) with
  | .ok buf =>
    if buf = [42, 0] then .ok none
    else if buf.getLast? = some 0 then .ok (some buf.dropLast) else .ok (some buf)
  | .err => .err
  | .panic => .panic

/-- `RecordRef::raw_data`: `&self.rest[start..]` -/
def lazyRawData (b : Bytes) : L Bytes :=
  let start := lNameLen b + lOpCount b * 4 + (lBaseCount b + 1) / 2 + lBaseCount b
  slice (lRest b) start (lRest b).length

/-- lazy field value decoder `record/data/field/value.rs::decode_value`; arrays are sliced as
`n * size` raw bytes (`decode_raw_array`) and split into elements on iteration (`Values::iter`) -/
def chunkVals (t : NumTy) : Nat → Bytes → List Int
  | 0, _ => []
  | fuel+1, s =>
    if s.isEmpty then []
    else fromU t.signed t.size (leVal (s.take t.size)) :: chunkVals t fuel (s.drop t.size)

def lazyVal (ty : UInt8) : Dec Val :=
  if ty = 65 then do let c ← takeN 1; match c with | [c] => pure (.char c) | _ => fail
  else if ty = 90 then do let s ← decStr; pure (.str s)
  else if ty = 72 then do let s ← decStr; pure (.hex s)
  else if ty = 66 then do
    let sub ← unle 1
    match NumTy.ofCode (UInt8.ofNat sub) with
    | none => fail
    | some t => do
      let n ← unle 4
      let buf ← takeN (n * t.size)
      pure (.arr t (chunkVals t buf.length buf))
  else
    match NumTy.ofCode ty with
    | some t => do let v ← decNum t; pure (.num t v)
    | none => fail

/-- `record/data/field.rs::decode_field` -/
def lazyField : Dec (Tag × Val) := do
  let t ← takeN 2
  match t with
  | [a, b] => do
    let ty ← takeN 1
    match ty with
    | [ty] => do let v ← lazyVal ty; pure ((a, b), v)
    | _ => fail
  | _ => fail

/-- `Data::iter`: fields until the buffer is empty or a field fails (second component) -/
def lazyFields : Nat → Bytes → List (Tag × Val) × Bool
  | 0, s => ([], !s.isEmpty)
  | fuel+1, s =>
    if s.isEmpty then ([], false)
    else
      match lazyField s with
      | .error _ => ([], true)
      | .ok (f, s') => let r := lazyFields fuel s'; (f :: r.1, r.2)

/-- `record/data.rs::get_raw_cigar`: the raw bytes of the first `CG` field that is a `B:I` array
(CIGAR operations are packed as u32); `none` if there is none; error if a field before it fails to
parse -/
def getRawCigar : Nat → Bytes → Except Err (Option Bytes)
  | 0, _ => .ok none
  | fuel+1, s =>
    if s.isEmpty then .ok none
    else
      match takeN 2 s with
      | .ok ([a, b], s1) =>
        match takeN 1 s1 with
        | .ok ([ty], s2) =>
          if ty = 66 then
            match unle 1 s2 with
            | .error e => .error e
            | .ok (sub, s3) =>
              match NumTy.ofCode (UInt8.ofNat sub) with
              | none => .error .invalid
              | some t =>
                match unle 4 s3 with
                | .error e => .error e
                | .ok (n, s4) =>
                  match takeN (n * t.size) s4 with
                  | .error e => .error e
                  | .ok (buf, s5) => if (a, b) = CG ∧ t = .I then .ok (some buf) else getRawCigar fuel s5
          else
            match lazyVal ty s2 with
            | .error e => .error e
            | .ok (_, s3) => getRawCigar fuel s3
        | .ok _ => .error .invalid
        | .error e => .error e
      | .ok _ => .error .invalid
      | .error e => .error e

/-- `Cigar::iter` over raw bytes: 4-byte chunks; a trailing partial chunk is `unreachable!()` -/
def lazyOps : Bytes → L (List Op)
  | [] => .ok []
  | a :: b :: c :: d :: rest =>
    match decOpNat (leVal [a, b, c, d]), lazyOps rest with
    | _, .panic => .panic
    | .error _, _ => .err
    | _, .err => .err
    | .ok o, .ok os => .ok (o :: os)
  | _ => .panic

/-- `RecordRef::cigar`, first half: the raw CIGAR bytes that will be iterated, and whether they
come from the `CG` field -/
def lazyCigarBytes (b : Bytes) : L (Bytes × Bool) :=
  let start := lNameLen b
  match slice (lRest b) start (start + lOpCount b * 4) with
  | .ok src =>
    if src.length = 8 then
      let op1 := leVal (src.take 4)
      let op2 := leVal ((src.drop 4).take 4)
      if op1 % 16 = 4 ∧ op1 / 16 = lBaseCount b ∧ op2 % 16 = 3 then
        match lazyRawData b with
        | .ok d =>
          match getRawCigar d.length d with
          | .ok (some buf) => .ok (buf, true)
          | _ => .ok (src, false)
        | .err => .err
        | .panic => .panic
      else .ok (src, false)
    else .ok (src, false)
  | .err => .err
  | .panic => .panic

/-- `RecordRef::cigar().iter()` -/
def lazyCigar (b : Bytes) : L (List Op) :=
  match lazyCigarBytes b with
  | .ok (src, _) => lazyOps src
  | .err => .err
  | .panic => .panic

/-- `RecordRef::sequence().iter()`: all nibbles of the slice; the low nibble of the last byte is
discarded when the slice holds more nibbles than `base_count` -/
def lazySeq (b : Bytes) : L Bytes :=
  let start := lNameLen b + lOpCount b * 4
  match slice (lRest b) start (start + (lBaseCount b + 1) / 2) with
  | .ok src => if lBaseCount b < src.length * 2 then .ok (unpackBases src).dropLast else .ok (unpackBases src)
  | .err => .err
  | .panic => .panic

/-- `RecordRef::quality_scores` -/
def lazyQual (b : Bytes) : L Bytes :=
  let start := lNameLen b + lOpCount b * 4 + (lBaseCount b + 1) / 2
  match slice (lRest b) start (start + lBaseCount b) with
  | .ok src => if src.all (· == 255) then .ok [] else .ok src
  | .err => .err
  | .panic => .panic

/-- `RecordRef::data().iter()` — AS FIXED (fix "bam-lazy-data-cg"): when `cigar()` takes the
CIGAR from a `CG` field (`overflowing_cigar().is_some()`, i.e. `get_raw_cigar` found a `CG:B:I`
array), the view is `Data::without_cigar`, whose iterator leaves out EVERY successfully decoded
field with tag `CG` (`Ok((Tag::CIGAR, _)) if skips_cigar => {}`) — also a `CG` field of another
type that `get_raw_cigar` walked over before it. On input the eager decoder accepts there is at most
one `CG` field, and this is the field the eager decoder removes. (Before the fix — finding F28 —
every field was returned.) -/
def lazyData (b : Bytes) : L (List (Tag × Val) × Bool) :=
  match lazyRawData b with
  | .ok d =>
    let fs := lazyFields d.length d
    match lazyCigarBytes b with
    | .ok (_, true) => .ok (fs.1.filter (fun f => f.1 != CG), fs.2)
    | .ok (_, false) => .ok fs
    | .err => .err
    | .panic => .panic
  | .err => .err
  | .panic => .panic

end Noodles.Bam
