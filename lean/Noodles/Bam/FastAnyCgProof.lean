import Noodles.Bam.FastAnyProof
namespace Noodles.Bam
open Noodles.Codec

theorem anycg_vr_dataRef (b src : Bytes) (hl : lDataStart b ≤ b.length)
    (hcb : lazyCigarBytes b = .ok (src, true)) :
    (viewRecord b).dataRef = .ok .generic := by
  simp only [viewRecord, dataSrc_eq b hl src true hcb]
  rfl

theorem anycg_vr_data (b src : Bytes) (hl : lDataStart b ≤ b.length)
    (hcb : lazyCigarBytes b = .ok (src, true)) :
    (viewRecord b).data = .ok (fieldsIter (segData b) true) := by
  simp only [viewRecord, viewRef, dataV, dataSrc_eq b hl src true hcb]

theorem anycg_encOp_length (o : Op) (x : Bytes) (h : encOp o = .ok x) : x.length = 4 := by
  unfold encOp at h
  split at h
  · simp only [Except.ok.injEq] at h
    rw [← h, le_length]
  · cases h

theorem anycg_encOps2_length (o1 o2 : Op) (x : Bytes) (h : encOps [o1, o2] = .ok x) : x.length = 8 := by
  simp only [encOps] at h
  cases h1 : encOp o1 with
  | error e => simp [h1] at h
  | ok x1 =>
    cases h2 : encOp o2 with
    | error e => simp [h1, h2] at h
    | ok x2 =>
      simp only [h1, h2, Except.ok.injEq] at h
      rw [← h]
      simp only [List.length_append, anycg_encOp_length _ _ h1, anycg_encOp_length _ _ h2, List.length_nil]

/-- the explicit form of the written bytes, CIGAR taken from a `CG` field -/
theorem anycg_out_form (nref : Nat) (b out buf : Bytes) (hv : validate b = .ok ())
    (hcb : lazyCigarBytes b = .ok (buf, true))
    (hw : encodeView nref (viewRecord b) = .ok out) :
    ∃ bin name' nop bCig bData bCg ov2, any_nameOf name' = lazyName b ∧ name'.length < 256 ^ 1 ∧
      nop < 256 ^ 2 ∧ nop * 4 = bCig.length ∧
      overflowV (lBaseCount b) ⟨buf.length / 4, opsIter buf⟩ = .ok (nop, ov2) ∧
      (match ov2 with
        | some ph => encOps ph = .ok bCig
        | none => bCig = buf) ∧
      writeGenericData (fieldsIter (segData b) true) = .ok bData ∧
      (match ov2 with
        | some _ => writeCgV ⟨buf.length / 4, opsIter buf⟩
        | none => .ok []) = .ok bCg ∧
      out = le 4 (headU b 0 4) ++ (le 4 (headU b 4 4) ++ (le 1 name'.length ++ (le 1 (headU b 9 1) ++
        (le 2 bin ++ (le 2 nop ++ (le 2 (headU b 14 2 % 4096) ++ (le 4 (lBaseCount b) ++
        (le 4 (headU b 20 4) ++ (le 4 (headU b 24 4) ++ (le 4 (headU b 28 4) ++ (name' ++ (bCig ++
        (segSeq b ++ (segQual b ++ (bData ++ bCg))))))))))))))) := by
  have hl := validate_inv b hv
  have lay := any_layout_b b hv
  obtain ⟨refId, bRef, pos, bPos, name, lName, mapq, aend, s, c, ov, flags, lSeq, mref, bMref, mpos,
    bMpos, tlen, bName, bCig, rl, sr, bSeq, qr, bQual, dr, bData, bCg, h1, h2, h3, h4, h5, h6, h7, h8,
    h9, h10, h11, h12, h13, h14, h15, h16, h17, h18, h19, h20, h21, h22, h23, h24, h25, h26, h27, h28,
    hout⟩ := any_encodeView_inv nref _ out hw
  have e1 : bRef = le 4 (headU b 0 4) := core_ref nref _ refId bRef (any_toW_ok _ _ h1) h2
  have e3 : bPos = le 4 (headU b 4 4) := core_pos _ pos bPos (any_toW_ok _ _ h3) h4
  have e14 : bMref = le 4 (headU b 20 4) := core_ref nref _ mref bMref (any_toW_ok _ _ h14) h15
  have e16 : bMpos = le 4 (headU b 24 4) := core_pos _ mpos bMpos (any_toW_ok _ _ h16) h17
  have e5 : lazyName b = .ok name := any_toW_ok _ _ h5
  obtain ⟨n1, n2, n3⟩ := any_name_rt name lName bName h6 h19
  have e7 : mapq = lazyMapq b := by
    have : (Except.ok (lazyMapq b) : W (Option Nat)) = .ok mapq := h7
    simpa using this.symm
  have e12 : flags = lazyFlags b := by
    have : (Except.ok (lazyFlags b) : W Nat) = .ok flags := h12
    simpa using this.symm
  have e18 : tlen = lazyTlen b := by
    have : (Except.ok (lazyTlen b) : W Int) = .ok tlen := h18
    simpa using this.symm
  have e9 : s.1 = lBaseCount b := any_seqV_fst b s h9
  have e13 : lSeq = le 4 (lBaseCount b) := by rw [← e9]; exact any_encSeqLen _ _ h13
  -- CIGAR
  obtain ⟨n, hn⟩ := lazyCigarBytes_chunks b buf true hcb
  rw [any_vr_cigar b _ true hcb] at h10
  simp only [Except.ok.injEq] at h10
  subst h10
  rw [e9] at h11
  -- sequence, qualities, data
  rw [any_vr_seqRef b hl] at h22
  simp only [Except.ok.injEq] at h22
  subst h22
  have e23 : bSeq = segSeq b := writeSeqRef_packed_ok _ _ _ _ _ h23 (segSeq_length b hl)
  obtain ⟨q, hq, hqr⟩ := any_vr_qualRef b hv
  rw [hqr] at h24
  simp only [Except.ok.injEq] at h24
  subst h24
  have e25 : bQual = segQual b := any_qual_eq _ _ (by rw [e9]; exact segQual_length b hl) q hq _ _ h25
  rw [anycg_vr_dataRef b _ hl hcb] at h26
  simp only [Except.ok.injEq] at h26
  subst h26
  rw [anycg_vr_data b _ hl hcb] at h27
  have e27 : writeGenericData (fieldsIter (segData b) true) = .ok bData := h27
  have hfinal : out = le 4 (headU b 0 4) ++ (le 4 (headU b 4 4) ++ (le 1 bName.length ++ (le 1 (headU b 9 1) ++
        (le 2 (binOfEnd pos aend) ++ (le 2 ov.1 ++ (le 2 (headU b 14 2 % 4096) ++ (le 4 (lBaseCount b) ++
        (le 4 (headU b 20 4) ++ (le 4 (headU b 24 4) ++ (le 4 (headU b 28 4) ++ (bName ++ (bCig ++
        (segSeq b ++ (segQual b ++ (bData ++ bCg))))))))))))))) := by
    rw [hout, e1, e3, n2, e7, any_mapq_byte, e12, e13, e14, e16, e18, any_tlen, e23, e25]
    simp only [List.append_assoc, lazyFlags]
  have hnm : any_nameOf bName = lazyName b := by rw [n1, e5]
  clear hout
  obtain ⟨nop, ov2⟩ := ov
  cases ov2 with
  | none =>
    have h11' := h11
    unfold overflowV at h11
    simp only at h11
    by_cases hle : buf.length / 4 ≤ 65535
    · simp only [hle, if_true, Except.ok.injEq, Prod.mk.injEq] at h11
      obtain ⟨h11a, -⟩ := h11
      simp only [any_vr_cigarRef b _ true hcb] at h20
      have := writePackedCigar_ok _ _ h20
      subst this
      exact ⟨binOfEnd pos aend, bName, nop, bCig, bData, bCg, none, hnm, n3, by omega, by omega, h11', rfl,
        e27, h28, hfinal⟩
    · simp only [hle, if_false] at h11
      split at h11
      · cases h11
      · simp at h11
  | some ph =>
    have h20' := any_liftIn_ok _ _ h20
    have h11' := h11
    unfold overflowV at h11
    simp only at h11
    by_cases hle : buf.length / 4 ≤ 65535
    · simp [hle] at h11
    · simp only [hle, if_false] at h11
      split at h11
      · cases h11
      · simp only [Except.ok.injEq, Prod.mk.injEq, Option.some.injEq] at h11
        obtain ⟨h11a, h11b⟩ := h11
        subst h11b
        subst h11a
        exact ⟨binOfEnd pos aend, bName, 2, bCig, bData, bCg, _, hnm, n3, by decide,
          by rw [anycg_encOps2_length _ _ _ h20'], h11', h20', e27, h28, hfinal⟩

/-- ANY validated bytes whose CIGAR is taken from a CG:B,I field: the part that does not depend on
the contents of the data segment. -/
theorem anycg_roundtrip_fixed (nref : Nat) (b out buf : Bytes) (hv : validate b = .ok ())
    (hcb : lazyCigarBytes b = .ok (buf, true))
    (hw : encodeView nref (viewRecord b) = .ok out) :
    validate out = .ok () ∧
    lazyRefId out = lazyRefId b ∧ lazyPos out = lazyPos b ∧ lazyName out = lazyName b ∧
    lazyMapq out = lazyMapq b ∧ lazyFlags out = lazyFlags b ∧
    lazyMateRefId out = lazyMateRefId b ∧ lazyMatePos out = lazyMatePos b ∧ lazyTlen out = lazyTlen b ∧
    lazySeq out = lazySeq b ∧ lazyQual out = lazyQual b := by
  obtain ⟨bin, name', nop, bCig, bData, bCg, ov2, hname, hnlen, hnop, hciglen, hov, hcig, hdata, hcg, hout⟩ :=
    anycg_out_form nref b out buf hv hcb hw
  have lay := any_layout_b b hv
  have hfl : headU b 14 2 % 4096 < 256 ^ 2 := by omega
  obtain ⟨g0, g4, g8, g9, g12, g14, g16, g20, g24, g28, grest, glen⟩ :=
    any_head_le _ _ _ _ _ _ _ _ _ _ _ _ out (headU_lt b 0 4) (headU_lt b 4 4) hnlen (headU_lt b 9 1)
      hnop hfl (headU_lt b 16 4) (headU_lt b 20 4) (headU_lt b 24 4) (headU_lt b 28 4) hout
  have gop : lOpCount out = nop := g12
  have gbc : lBaseCount out = lBaseCount b := g16
  have layo : any_Layout out name' bCig (segSeq b) (segQual b) (bData ++ bCg) :=
    ⟨grest, by omega, g8, by rw [gop]; exact hciglen, by rw [gbc]; exact lay.hsq,
      by rw [gbc]; exact lay.hql⟩
  refine ⟨any_lay_valid layo, ?_, ?_, ?_, ?_, ?_, ?_, ?_, ?_, ?_, ?_⟩
  · unfold lazyRefId; rw [g0]
  · unfold lazyPos; rw [g4]
  · rw [any_lay_name layo, hname]
  · unfold lazyMapq; rw [g9]
  · unfold lazyFlags; rw [g14, Nat.mod_mod]
  · unfold lazyMateRefId; rw [g20]
  · unfold lazyMatePos; rw [g24]
  · unfold lazyTlen; rw [g28]
  · rw [any_lay_seq layo, any_lay_seq lay, gbc]
  · rw [any_lay_qual layo, any_lay_qual lay]

/-! ## the data segment -/

theorem anycg_lazyFields_nil (fuel : Nat) : lazyFields fuel [] = ([], false) := by
  cases fuel <;> simp [lazyFields]

theorem anycg_lazyFieldsE_none (fuel : Nat) (s : Bytes) (h : (lazyFieldsE fuel s).2 = none) :
    (lazyFields fuel s).2 = false := by
  induction fuel generalizing s with
  | zero =>
    simp only [lazyFieldsE] at h
    simp only [lazyFields]
    split at h
    · next he => simp [he]
    · cases h
  | succ fuel ih =>
    simp only [lazyFieldsE] at h
    simp only [lazyFields]
    split
    · rfl
    · next hne =>
      simp only [hne, Bool.false_eq_true, if_false] at h
      split at h
      · cases h
      · cases h
      · next f s' hf =>
        simp only [hf]
        exact ih s' h

theorem anycg_lazyFields_enc (fs : List (Tag × Val)) (hw : ∀ f ∈ fs, valWF f.2)
    (hcg : ∀ f ∈ fs, f.1 ≠ CG) (e : Bytes) (he : encData fs = .ok e) :
    ∀ fuel tail, (e ++ tail).length ≤ fuel →
      lazyFields fuel (e ++ tail) =
        (fs ++ (lazyFields (fuel - fs.length) tail).1, (lazyFields (fuel - fs.length) tail).2) := by
  induction fs generalizing e with
  | nil =>
    simp only [encData, Except.ok.injEq] at he
    subst he
    intro fuel tail _
    simp
  | cons f rest ih =>
    obtain ⟨t, v⟩ := f
    have hne : t ≠ CG := hcg (t, v) (List.mem_cons_self ..)
    simp only [encData, hne, if_false] at he
    cases h1 : encField t v with
    | error x => simp [h1] at he
    | ok bf =>
      cases h2 : encData rest with
      | error x => simp [h1, h2] at he
      | ok bs =>
        simp only [h1, h2, Except.ok.injEq] at he
        subst he
        have hvok : valOk v := by
          unfold encField at h1
          cases h3 : encVal v with
          | error x => simp [h3] at h1
          | ok x => exact encVal_inv v x h3
        obtain ⟨b', hb', hbne, hdec⟩ := rt_field t v (hw (t, v) (List.mem_cons_self ..)) hvok
        rw [h1] at hb'
        simp only [Except.ok.injEq] at hb'
        subst hb'
        intro fuel tail hf
        have hpos : 0 < bf.length := List.length_pos_iff.mpr hbne
        simp only [List.length_append] at hf
        cases fuel with
        | zero => omega
        | succ fuel =>
          have hlf := lazyField_of_decField _ _ _ (hdec (bs ++ tail))
          have hne2 : (bf ++ (bs ++ tail)).isEmpty = false := by
            cases bf with
            | nil => exact absurd rfl hbne
            | cons _ _ => rfl
          have hih := ih (fun f hf => hw f (List.mem_cons_of_mem _ hf))
            (fun f hf => hcg f (List.mem_cons_of_mem _ hf)) bs h2 fuel tail
            (by simp only [List.length_append]; omega)
          simp only [lazyFields, List.append_assoc, hne2, Bool.false_eq_true, if_false, hlf, hih,
            List.length_cons, Nat.add_sub_add_right, List.cons_append]

/-! ## `get_raw_cigar` finds only `CG`-tagged fields; lazily decoded values are well formed -/

theorem anycg_getRawCigar_mem (fuel : Nat) (s buf : Bytes) (h : getRawCigar fuel s = .ok (some buf)) :
    ∃ f ∈ (lazyFields fuel s).1, f.1 = CG := by
  fun_induction getRawCigar fuel s
  all_goals first
    | (simp at h; done)
    | skip
  case case7 fuel s hne a b s1 h1 s2 sub s3 h3 t h4 n s4 h5 buf' s5 h6 hcg h2 =>
    have hf : lazyField s = .ok (((a, b), .arr t (chunkVals t buf'.length buf')), s5) := by
      simp only [lazyField, bind_eq, pure_eq, h1, h2, lazyVal_arr, h3, h4, h5, h6]
    have hl : (lazyFields (fuel + 1) s).1 =
        ((a, b), Val.arr t (chunkVals t buf'.length buf')) :: (lazyFields fuel s5).1 := by
      simp only [lazyFields, hne, hf]; rfl
    rw [hl]
    exact ⟨_, List.mem_cons_self, hcg.1⟩
  case case8 fuel s hne a b s1 h1 s2 sub s3 h3 t h4 n s4 h5 buf' s5 h6 hcg h2 ih =>
    have hf : lazyField s = .ok (((a, b), .arr t (chunkVals t buf'.length buf')), s5) := by
      simp only [lazyField, bind_eq, pure_eq, h1, h2, lazyVal_arr, h3, h4, h5, h6]
    have hl : (lazyFields (fuel + 1) s).1 =
        ((a, b), Val.arr t (chunkVals t buf'.length buf')) :: (lazyFields fuel s5).1 := by
      simp only [lazyFields, hne, hf]; rfl
    rw [hl]
    obtain ⟨f, hm, hf'⟩ := ih h
    exact ⟨f, List.mem_cons_of_mem _ hm, hf'⟩
  case case10 fuel s hne a b s1 h1 ty s2 h2 hty v s3 h3 ih =>
    have hf : lazyField s = .ok (((a, b), v), s3) := by
      simp only [lazyField, bind_eq, pure_eq, h1, h2, h3]
    have hl : (lazyFields (fuel + 1) s).1 = ((a, b), v) :: (lazyFields fuel s3).1 := by
      simp only [lazyFields, hne, hf]; rfl
    rw [hl]
    obtain ⟨f, hm, hf'⟩ := ih h
    exact ⟨f, List.mem_cons_of_mem _ hm, hf'⟩

theorem anycg_chunkVals_wf (t : NumTy) (fuel : Nat) (s : Bytes) :
    ∀ v ∈ chunkVals t fuel s, t.inRange v := by
  induction fuel generalizing s with
  | zero => intro v hv; simp [chunkVals] at hv
  | succ n ih =>
    intro v hv
    simp only [chunkVals] at hv
    split at hv
    · simp at hv
    · simp only [List.mem_cons] at hv
      rcases hv with rfl | hv
      · exact fromU_inRange t _ (leVal_take_lt _ _)
      · exact ih _ v hv

theorem anycg_lazyVal_wf (ty : UInt8) (s : Bytes) (v : Val) (s' : Bytes)
    (h : lazyVal ty s = .ok (v, s')) : valWF v := by
  by_cases h65 : ty = 65
  · subst h65; rw [lazyVal_char] at h; exact decVal_wf _ _ _ _ h
  by_cases h90 : ty = 90
  · subst h90; rw [lazyVal_str] at h; exact decVal_wf _ _ _ _ h
  by_cases h72 : ty = 72
  · subst h72; rw [lazyVal_hex] at h; exact decVal_wf _ _ _ _ h
  by_cases h66 : ty = 66
  · subst h66
    rw [lazyVal_arr] at h
    obtain ⟨sub, s1, hs1, h⟩ := dbind_ok_inv _ _ _ _ h
    cases ht : NumTy.ofCode (UInt8.ofNat sub) with
    | none => simp [ht] at h
    | some t =>
      simp only [ht] at h
      obtain ⟨n, s2, hs2, h⟩ := dbind_ok_inv _ _ _ _ h
      obtain ⟨buf, s3, hs3, h⟩ := dbind_ok_inv _ _ _ _ h
      simp only [pure_eq, Except.ok.injEq, Prod.mk.injEq] at h
      obtain ⟨rfl, _⟩ := h
      exact anycg_chunkVals_wf t _ _
  · have h' : decVal ty s = .ok (v, s') := by
      unfold lazyVal at h
      unfold decVal
      simp only [h65, h90, h72, h66, if_false] at h ⊢; exact h
    exact decVal_wf _ _ _ _ h'

theorem anycg_lazyField_wf (s : Bytes) (f : Tag × Val) (s' : Bytes)
    (h : lazyField s = .ok (f, s')) : valWF f.2 := by
  unfold lazyField at h
  obtain ⟨t, s1, h1, h⟩ := dbind_ok_inv _ _ _ _ h
  match t, h with
  | [a, b], h =>
    simp only at h
    obtain ⟨ty, s2, h2, h⟩ := dbind_ok_inv _ _ _ _ h
    match ty, h with
    | [ty], h =>
      simp only at h
      obtain ⟨v, s3, h3, h⟩ := dbind_ok_inv _ _ _ _ h
      simp only [pure_eq, Except.ok.injEq, Prod.mk.injEq] at h
      obtain ⟨rfl, _⟩ := h
      exact anycg_lazyVal_wf ty s2 v s3 h3
    | [], h => simp at h
    | _ :: _ :: _, h => simp at h
  | [], h => simp at h
  | [_], h => simp at h
  | _ :: _ :: _ :: _, h => simp at h

theorem anycg_lazyFields_wf (fuel : Nat) (s : Bytes) :
    ∀ f ∈ (lazyFields fuel s).1, valWF f.2 := by
  induction fuel generalizing s with
  | zero => intro f hf; simp [lazyFields] at hf
  | succ n ih =>
    intro f hf
    simp only [lazyFields] at hf
    split at hf
    · simp at hf
    · cases hl : lazyField s with
      | error e => simp [hl] at hf
      | ok p =>
        obtain ⟨g, s1⟩ := p
        simp only [hl, List.mem_cons] at hf
        rcases hf with rfl | hf
        · exact anycg_lazyField_wf s _ s1 hl
        · exact ih s1 f hf


theorem anycg_data_inv (d bData : Bytes) (h : writeGenericData (fieldsIter d true) = .ok bData) :
    (lazyFields d.length d).2 = false ∧
      encData ((lazyFields d.length d).1.filter (fun f => f.1 != CG)) = .ok bData := by
  unfold writeGenericData fieldsIter at h
  simp only [if_true] at h
  split at h
  · cases h
  · next x hx =>
    split at h
    · next hn =>
      simp only [Except.ok.injEq] at h
      subst h
      rw [← lazyFieldsE_fst]
      exact ⟨anycg_lazyFieldsE_none _ _ hn, hx⟩
    · cases h

/-- at most 65535 ops: the CIGAR goes back into the CIGAR slot, no `CG` field is written -/
theorem anycg_small_cigar_data (nref : Nat) (b out buf : Bytes) (hv : validate b = .ok ())
    (hcb : lazyCigarBytes b = .ok (buf, true)) (hle : buf.length / 4 ≤ 65535)
    (hw : encodeView nref (viewRecord b) = .ok out) :
    lazyCigarBytes out = .ok (buf, false) ∧ lazyCigar out = lazyCigar b ∧ lazyData out = lazyData b := by
  obtain ⟨bin, name', nop, bCig, bData, bCg, ov2, hname, hnlen, hnop, hciglen, hov, hcig, hdata, hcg, hout⟩ :=
    anycg_out_form nref b out buf hv hcb hw
  have hov' := any_overflowV _ _ _ hle _ hov
  simp only [Prod.mk.injEq] at hov'
  obtain ⟨rfl, rfl⟩ := hov'
  simp only at hcig hcg
  subst hcig
  simp only [Except.ok.injEq] at hcg
  subst hcg
  have lay := any_layout_b b hv
  have hfl : headU b 14 2 % 4096 < 256 ^ 2 := by omega
  obtain ⟨g0, g4, g8, g9, g12, g14, g16, g20, g24, g28, grest, glen⟩ :=
    any_head_le _ _ _ _ _ _ _ _ _ _ _ _ out (headU_lt b 0 4) (headU_lt b 4 4) hnlen (headU_lt b 9 1)
      hnop hfl (headU_lt b 16 4) (headU_lt b 20 4) (headU_lt b 24 4) (headU_lt b 28 4) hout
  have gop : lOpCount out = bCig.length / 4 := g12
  have gbc : lBaseCount out = lBaseCount b := g16
  have layo : any_Layout out name' bCig (segSeq b) (segQual b) (bData ++ []) :=
    ⟨grest, by omega, g8, by rw [gop]; exact hciglen, by rw [gbc]; exact lay.hsq,
      by rw [gbc]; exact lay.hql⟩
  obtain ⟨hfalse, henc⟩ := anycg_data_inv _ _ hdata
  have hw' : ∀ f ∈ (lazyFields (segData b).length (segData b)).1.filter (fun f => f.1 != CG), valWF f.2 :=
    fun f hf => anycg_lazyFields_wf _ _ f (List.mem_filter.mp hf).1
  have hcg' : ∀ f ∈ (lazyFields (segData b).length (segData b)).1.filter (fun f => f.1 != CG), f.1 ≠ CG := by
    intro f hf
    simpa using (List.mem_filter.mp hf).2
  have hrt := anycg_lazyFields_enc _ hw' hcg' bData henc bData.length [] (by simp)
  simp only [List.append_nil, anycg_lazyFields_nil] at hrt
  have hgrc : ∀ x, getRawCigar bData.length bData ≠ .ok (some x) := by
    intro x hx
    obtain ⟨f, hf, hfcg⟩ := anycg_getRawCigar_mem _ _ _ hx
    rw [hrt] at hf
    exact hcg' f hf hfcg
  have hcbo : lazyCigarBytes out = .ok (bCig, false) := by
    rw [any_lay_cb layo]
    unfold any_cigOf
    simp only [List.append_nil]
    split
    · split
      · cases hg : getRawCigar bData.length bData with
        | error e => rfl
        | ok o =>
          cases o with
          | none => rfl
          | some x => exact absurd hg (hgrc x)
      · rfl
    · rfl
  refine ⟨hcbo, ?_, ?_⟩
  · unfold lazyCigar; rw [hcbo, hcb]
  · unfold lazyData
    rw [any_lay_raw layo, any_lay_raw lay, hcbo, hcb]
    simp only [List.append_nil, hrt, hfalse]

/-! ## the re-written `CG:B,I` field and the placeholder -/

/-- converse of `opChunks_of_lazyOps` -/
theorem anycg_lazyOps_of_opChunks (n : Nat) (src : Bytes) (ops : List Op) (hl : src.length = n * 4)
    (h : opChunks src = (ops, none)) : lazyOps src = .ok ops := by
  induction n generalizing src ops with
  | zero =>
    have : src = [] := by cases src with
      | nil => rfl
      | cons _ _ => simp at hl
    subst this
    simp only [opChunks, Prod.mk.injEq, and_true] at h
    subst h
    rfl
  | succ n ih =>
    match src, hl with
    | a :: b :: c :: d :: rest, hl =>
      have hl' : rest.length = n * 4 := by simp at hl; omega
      simp only [opChunks] at h
      cases h1 : decOpNat (leVal [a, b, c, d]) with
      | error e => simp [h1] at h
      | ok o =>
        simp only [h1, Prod.mk.injEq] at h
        obtain ⟨e1, e2⟩ := h
        have e3 : opChunks rest = ((opChunks rest).1, none) := by
          rw [← e2]
        have h2 := ih rest (opChunks rest).1 hl' e3
        subst e1
        simp [lazyOps, h1, h2]
    | [], hl => simp at hl
    | [_], hl => simp at hl; omega
    | [_, _], hl => simp at hl; omega
    | [_, _, _], hl => simp at hl; omega

theorem anycg_writeCgV_inv (k n : Nat) (buf bCg : Bytes) (hl : buf.length = k * 4)
    (h : writeCgV ⟨n, opsIter buf⟩ = .ok bCg) :
    n ≤ 4294967295 ∧ bCg = CG.1 :: CG.2 :: 66 :: 73 :: (le 4 n ++ buf) := by
  unfold writeCgV at h
  simp only at h
  by_cases hn : n ≤ 4294967295
  · rw [if_pos hn] at h
    refine ⟨hn, ?_⟩
    have hi : opsIter buf = opChunks buf := by
      unfold opsIter
      rw [if_pos (by omega)]
    rw [hi] at h
    unfold writeGenericCigar at h
    cases he : encOps (opChunks buf).1 with
    | error e => simp [he] at h
    | ok x =>
      simp only [he] at h
      cases h2 : (opChunks buf).2 with
      | some f =>
        cases f <;> simp [h2] at h
      | none =>
        simp only [h2] at h
        have e3 : opChunks buf = ((opChunks buf).1, none) := by
          rw [← h2]
        have hz := anycg_lazyOps_of_opChunks k buf _ hl e3
        have hp := (packed_eq_generic k buf _ hl hz).2
        rw [he] at hp
        cases hp
        cases h
        rfl
  · rw [if_neg hn] at h
    cases h

/-- the `kSmN` placeholder written by the encoder has the shape `lazyCigarBytes` tests for -/
theorem anycg_placeholder_shape (bc m : Nat) (x : Bytes) (h : encOps [⟨4, bc⟩, ⟨3, m⟩] = .ok x) :
    x.length = 8 ∧ leVal (x.take 4) % 16 = 4 ∧ leVal (x.take 4) / 16 = bc ∧
      leVal ((x.drop 4).take 4) % 16 = 3 := by
  simp only [encOps, encOp] at h
  by_cases hb : bc ≤ 268435455
  · by_cases hm : m ≤ 268435455
    · simp only [hb, hm, if_true, Except.ok.injEq] at h
      subst h
      have h1 : bc * 16 + 4 < 256 ^ 4 := by show _ < 4294967296; omega
      have h2 : m * 16 + 3 < 256 ^ 4 := by show _ < 4294967296; omega
      have t1 : (le 4 (bc * 16 + 4) ++ (le 4 (m * 16 + 3) ++ [])).take 4 = le 4 (bc * 16 + 4) :=
        List.take_left' (le_length _ _)
      have t2 : (le 4 (bc * 16 + 4) ++ (le 4 (m * 16 + 3) ++ [])).drop 4 = le 4 (m * 16 + 3) ++ [] :=
        List.drop_left' (le_length _ _)
      have t3 : (le 4 (m * 16 + 3) ++ ([] : Bytes)).take 4 = le 4 (m * 16 + 3) :=
        List.take_left' (le_length _ _)
      rw [t1, t2, t3, leVal_le 4 _ h1, leVal_le 4 _ h2]
      refine ⟨?_, ?_, ?_, ?_⟩
      · simp [le_length]
      · omega
      · omega
      · omega
    · simp [hb, hm] at h
  · simp [hb] at h

theorem anycg_ofCode73 : NumTy.ofCode (UInt8.ofNat 73) = some .I := by decide

/-- `get_raw_cigar` stops at a `CG:B,I` field -/
theorem anycg_getRawCigar_hit (fuel n : Nat) (buf rest : Bytes) (hn : n ≤ 4294967295)
    (hl : buf.length = n * 4) :
    getRawCigar (fuel + 1) (CG.1 :: CG.2 :: 66 :: 73 :: (le 4 n ++ buf) ++ rest) = .ok (some buf) := by
  have hn' : n < 256 ^ 4 := by show _ < 4294967296; omega
  have e1 : ∀ r : Bytes, takeN 2 (CG.1 :: CG.2 :: r) = .ok ([CG.1, CG.2], r) := fun r => by
    simp [takeN]
  have e2 : ∀ r : Bytes, takeN 1 ((66 : UInt8) :: r) = .ok ([66], r) := fun r => by
    simp [takeN]
  have e3 : ∀ r : Bytes, unle 1 ((73 : UInt8) :: r) = .ok (73, r) := fun r =>
    unle1_single 73 (by decide) r
  have e4 : unle 4 (le 4 n ++ (buf ++ rest)) = .ok (n, buf ++ rest) := unle_le 4 n hn' _
  have e5 : takeN (n * NumTy.I.size) (buf ++ rest) = .ok (buf, rest) :=
    takeN_append' buf rest _ hl
  simp only [List.cons_append, List.append_assoc]
  simp only [getRawCigar, List.isEmpty_cons, e1, e2, e3, anycg_ofCode73, e4, e5]
  simp

/-- the lazy field decoder on a `CG:B,I` field -/
theorem anycg_lazyField_cg (n : Nat) (buf rest : Bytes) (hn : n ≤ 4294967295)
    (hl : buf.length = n * 4) :
    ∃ v, lazyField (CG.1 :: CG.2 :: 66 :: 73 :: (le 4 n ++ buf) ++ rest) = .ok ((CG, v), rest) := by
  have hn' : n < 256 ^ 4 := by show _ < 4294967296; omega
  have e1 : ∀ r : Bytes, takeN 2 (CG.1 :: CG.2 :: r) = .ok ([CG.1, CG.2], r) := fun r => by
    simp [takeN]
  have e2 : ∀ r : Bytes, takeN 1 ((66 : UInt8) :: r) = .ok ([66], r) := fun r => by
    simp [takeN]
  have e3 : ∀ r : Bytes, unle 1 ((73 : UInt8) :: r) = .ok (73, r) := fun r =>
    unle1_single 73 (by decide) r
  have e4 : unle 4 (le 4 n ++ (buf ++ rest)) = .ok (n, buf ++ rest) := unle_le 4 n hn' _
  have e5 : takeN (n * NumTy.I.size) (buf ++ rest) = .ok (buf, rest) :=
    takeN_append' buf rest _ hl
  refine ⟨.arr .I (chunkVals .I buf.length buf), ?_⟩
  simp only [List.cons_append, List.append_assoc]
  simp only [lazyField, bind_eq, pure_eq, e1, e2, lazyVal_arr, e3, anycg_ofCode73, e4, e5]

/-- `get_raw_cigar` walks over a field that `decode_field` parses and whose tag is not `CG` -/
theorem anycg_getRawCigar_step (fuel : Nat) (s s' : Bytes) (f : Tag × Val)
    (h : lazyField s = .ok (f, s')) (hcg : f.1 ≠ CG) :
    getRawCigar (fuel + 1) s = getRawCigar fuel s' := by
  have hne : s.isEmpty = false := by
    cases s with
    | nil => simp [lazyField, bind_eq, takeN] at h
    | cons x r => rfl
  unfold lazyField at h
  obtain ⟨t, s1, h1, h⟩ := dbind_ok_inv _ _ _ _ h
  match t, h with
  | [a, b], h =>
    simp only at h
    obtain ⟨ty, s2, h2, h⟩ := dbind_ok_inv _ _ _ _ h
    match ty, h with
    | [ty], h =>
      simp only at h
      obtain ⟨v, s3, h3, h⟩ := dbind_ok_inv _ _ _ _ h
      simp only [pure_eq, Except.ok.injEq, Prod.mk.injEq] at h
      obtain ⟨rfl, rfl⟩ := h
      simp only at hcg
      by_cases h66 : ty = 66
      · subst h66
        rw [lazyVal_arr] at h3
        obtain ⟨sub, s4, hu1, h3⟩ := dbind_ok_inv _ _ _ _ h3
        cases ht : NumTy.ofCode (UInt8.ofNat sub) with
        | none => simp [ht] at h3
        | some t =>
          simp only [ht] at h3
          obtain ⟨n, s5, hu4, h3⟩ := dbind_ok_inv _ _ _ _ h3
          obtain ⟨buf, s6, htk, h3⟩ := dbind_ok_inv _ _ _ _ h3
          simp only [pure_eq, Except.ok.injEq, Prod.mk.injEq] at h3
          obtain ⟨_, rfl⟩ := h3
          have hno : ¬ ((a, b) = CG ∧ t = .I) := fun hh => hcg hh.1
          simp only [getRawCigar, hne, Bool.false_eq_true, if_false, h1, h2, if_true, hu1, ht, hu4, htk, hno]
      · simp only [getRawCigar, hne, Bool.false_eq_true, if_false, h1, h2, h66, h3]
    | [], h => simp at h
    | _ :: _ :: _, h => simp at h
  | [], h => simp at h
  | [_], h => simp at h
  | _ :: _ :: _ :: _, h => simp at h


theorem anycg_encData_len (fs : List (Tag × Val)) (hcg : ∀ f ∈ fs, f.1 ≠ CG) (e : Bytes)
    (he : encData fs = .ok e) : fs.length ≤ e.length := by
  induction fs generalizing e with
  | nil => simp
  | cons f rest ih =>
    obtain ⟨t, v⟩ := f
    have hne : t ≠ CG := hcg (t, v) (List.mem_cons_self ..)
    simp only [encData, hne, if_false] at he
    cases h1 : encField t v with
    | error x => simp [h1] at he
    | ok bf =>
      cases h2 : encData rest with
      | error x => simp [h1, h2] at he
      | ok bs =>
        simp only [h1, h2, Except.ok.injEq] at he
        subst he
        have := ih (fun f hf => hcg f (List.mem_cons_of_mem _ hf)) bs h2
        have hb : 0 < bf.length := by
          unfold encField at h1
          split at h1
          · cases h1
          · simp only [Except.ok.injEq] at h1
            subst h1
            simp
        simp only [List.length_cons, List.length_append]
        omega

theorem anycg_getRawCigar_enc (fs : List (Tag × Val)) (hw : ∀ f ∈ fs, valWF f.2)
    (hcg : ∀ f ∈ fs, f.1 ≠ CG) (e : Bytes) (he : encData fs = .ok e) :
    ∀ fuel tail, fs.length ≤ fuel →
      getRawCigar fuel (e ++ tail) = getRawCigar (fuel - fs.length) tail := by
  induction fs generalizing e with
  | nil =>
    simp only [encData, Except.ok.injEq] at he
    subst he
    intro fuel tail _
    simp
  | cons f rest ih =>
    obtain ⟨t, v⟩ := f
    have hne : t ≠ CG := hcg (t, v) (List.mem_cons_self ..)
    simp only [encData, hne, if_false] at he
    cases h1 : encField t v with
    | error x => simp [h1] at he
    | ok bf =>
      cases h2 : encData rest with
      | error x => simp [h1, h2] at he
      | ok bs =>
        simp only [h1, h2, Except.ok.injEq] at he
        subst he
        have hvok : valOk v := by
          unfold encField at h1
          cases h3 : encVal v with
          | error x => simp [h3] at h1
          | ok x => exact encVal_inv v x h3
        obtain ⟨b', hb', hbne, hdec⟩ := rt_field t v (hw (t, v) (List.mem_cons_self ..)) hvok
        rw [h1] at hb'
        simp only [Except.ok.injEq] at hb'
        subst hb'
        intro fuel tail hf
        simp only [List.length_cons] at hf
        cases fuel with
        | zero => omega
        | succ fuel =>
          have hlf := lazyField_of_decField _ _ _ (hdec (bs ++ tail))
          have hih := ih (fun f hf => hw f (List.mem_cons_of_mem _ hf))
            (fun f hf => hcg f (List.mem_cons_of_mem _ hf)) bs h2 fuel tail (by omega)
          rw [List.append_assoc, anycg_getRawCigar_step fuel _ _ _ hlf hne, hih]
          simp only [List.length_cons, Nat.add_sub_add_right]

/-- more than 65535 ops: the placeholder goes into the CIGAR slot and the ops into a `CG:B,I` field
after the other fields -/
theorem anycg_big_cigar_data (nref : Nat) (b out buf : Bytes) (hv : validate b = .ok ())
    (hcb : lazyCigarBytes b = .ok (buf, true)) (hgt : ¬ buf.length / 4 ≤ 65535)
    (hw : encodeView nref (viewRecord b) = .ok out) :
    lazyCigarBytes out = .ok (buf, true) ∧ lazyCigar out = lazyCigar b ∧ lazyData out = lazyData b := by
  obtain ⟨bin, name', nop, bCig, bData, bCg, ov2, hname, hnlen, hnop, hciglen, hov, hcig, hdata, hcg, hout⟩ :=
    anycg_out_form nref b out buf hv hcb hw
  unfold overflowV at hov
  simp only [hgt, if_false] at hov
  split at hov
  · cases hov
  next m hm =>
  simp only [Except.ok.injEq, Prod.mk.injEq] at hov
  obtain ⟨rfl, rfl⟩ := hov
  simp only at hcig hcg
  obtain ⟨k, hk⟩ := lazyCigarBytes_chunks b buf true hcb
  obtain ⟨hn32, rfl⟩ := anycg_writeCgV_inv k _ buf bCg hk hcg
  obtain ⟨sh1, sh2, sh3, sh4⟩ := anycg_placeholder_shape _ _ _ hcig
  have hbl : buf.length = buf.length / 4 * 4 := by omega
  have lay := any_layout_b b hv
  have hfl : headU b 14 2 % 4096 < 256 ^ 2 := by omega
  obtain ⟨g0, g4, g8, g9, g12, g14, g16, g20, g24, g28, grest, glen⟩ :=
    any_head_le _ _ _ _ _ _ _ _ _ _ _ _ out (headU_lt b 0 4) (headU_lt b 4 4) hnlen (headU_lt b 9 1)
      hnop hfl (headU_lt b 16 4) (headU_lt b 20 4) (headU_lt b 24 4) (headU_lt b 28 4) hout
  have gop : lOpCount out = 2 := g12
  have gbc : lBaseCount out = lBaseCount b := g16
  have layo : any_Layout out name' bCig (segSeq b) (segQual b)
      (bData ++ (CG.1 :: CG.2 :: 66 :: 73 :: (le 4 (buf.length / 4) ++ buf))) :=
    ⟨grest, by omega, g8, by rw [gop]; exact hciglen, by rw [gbc]; exact lay.hsq,
      by rw [gbc]; exact lay.hql⟩
  obtain ⟨hfalse, henc⟩ := anycg_data_inv _ _ hdata
  have hw' : ∀ f ∈ (lazyFields (segData b).length (segData b)).1.filter (fun f => f.1 != CG), valWF f.2 :=
    fun f hf => anycg_lazyFields_wf _ _ f (List.mem_filter.mp hf).1
  have hcg' : ∀ f ∈ (lazyFields (segData b).length (segData b)).1.filter (fun f => f.1 != CG), f.1 ≠ CG := by
    intro f hf
    simpa using (List.mem_filter.mp hf).2
  have hlen := anycg_encData_len _ hcg' bData henc
  generalize hcgf : (CG.1 :: CG.2 :: 66 :: 73 :: (le 4 (buf.length / 4) ++ buf)) = cgf at layo
  have hcgfl : 4 ≤ cgf.length := by rw [← hcgf]; simp only [List.length_cons]; omega
  obtain ⟨j, hj⟩ : ∃ j, (bData ++ cgf).length -
      ((lazyFields (segData b).length (segData b)).1.filter (fun f => f.1 != CG)).length = j + 1 :=
    ⟨_, (Nat.sub_add_cancel (by simp only [List.length_append]; omega)).symm⟩
  obtain ⟨v, hlcg⟩ := anycg_lazyField_cg (buf.length / 4) buf [] hn32 hbl
  rw [hcgf, List.append_nil] at hlcg
  have hhit := anycg_getRawCigar_hit j (buf.length / 4) buf [] hn32 hbl
  rw [hcgf, List.append_nil] at hhit
  have hcgne : cgf.isEmpty = false := by
    cases cgf with
    | nil => simp at hcgfl
    | cons _ _ => rfl
  have hlf1 : lazyFields (j + 1) cgf = ([(CG, v)], false) := by
    simp only [lazyFields, hcgne, Bool.false_eq_true, if_false, hlcg, anycg_lazyFields_nil]
  have hrt := anycg_lazyFields_enc _ hw' hcg' bData henc (bData ++ cgf).length cgf (Nat.le_refl _)
  rw [hj, hlf1] at hrt
  have hgr := anycg_getRawCigar_enc _ hw' hcg' bData henc (bData ++ cgf).length cgf
    (by simp only [List.length_append]; omega)
  rw [hj, hhit] at hgr
  have hcbo : lazyCigarBytes out = .ok (buf, true) := by
    rw [any_lay_cb layo]
    unfold any_cigOf
    simp only
    rw [if_pos sh1, if_pos ⟨sh2, by rw [gbc]; exact sh3, sh4⟩, hgr]
  refine ⟨hcbo, ?_, ?_⟩
  · unfold lazyCigar; rw [hcbo, hcb]
  · unfold lazyData
    rw [any_lay_raw layo, any_lay_raw lay, hcbo, hcb]
    simp only [hrt, hfalse, List.filter_append, List.filter_filter, Bool.and_self]
    simp

/-- ANY validated bytes whose CIGAR is taken from a CG:B,I field: whatever the writer accepts passes
`validate` again and every lazy accessor returns what it returned on the original. -/
theorem anycg_roundtrip (nref : Nat) (b out buf : Bytes) (hv : validate b = .ok ())
    (hcb : lazyCigarBytes b = .ok (buf, true))
    (hw : encodeView nref (viewRecord b) = .ok out) :
    validate out = .ok () ∧
    lazyRefId out = lazyRefId b ∧ lazyPos out = lazyPos b ∧ lazyName out = lazyName b ∧
    lazyMapq out = lazyMapq b ∧ lazyFlags out = lazyFlags b ∧
    lazyMateRefId out = lazyMateRefId b ∧ lazyMatePos out = lazyMatePos b ∧ lazyTlen out = lazyTlen b ∧
    lazyCigar out = lazyCigar b ∧ lazySeq out = lazySeq b ∧ lazyQual out = lazyQual b ∧
    lazyData out = lazyData b := by
  obtain ⟨f1, f2, f3, f4, f5, f6, f7, f8, f9, f10, f11⟩ := anycg_roundtrip_fixed nref b out buf hv hcb hw
  have hcd : lazyCigar out = lazyCigar b ∧ lazyData out = lazyData b := by
    by_cases hle : buf.length / 4 ≤ 65535
    · exact (anycg_small_cigar_data nref b out buf hv hcb hle hw).2
    · exact (anycg_big_cigar_data nref b out buf hv hcb hle hw).2
  exact ⟨f1, f2, f3, f4, f5, f6, f7, f8, f9, hcd.1, f10, f11, hcd.2⟩

end Noodles.Bam
