import Noodles.Bam.DriverC05
import Noodles.Bam.Reenc
import Noodles.Sam.Reenc
import Noodles.Sam.DriverC06
/-! Line-protocol handler for the re-encoding model (`c05 re …`), see `Noodles/Bam/Reenc.lean`.

    c05 re lazy <nref> <hex body>    bam::Record read by the reader, written by the writer
    c05 re box  <nref> <hex body>    the same record as `Box<dyn Record>` (default `*_ref` paths)
    c05 re ref  <nref> <hex body>    bam::RecordRef::new(body) (no validate) written by the writer
    c05 re view <nref> <16 words>    a scripted `impl sam::alignment::Record` (any `View`)
    c05 re sam <refs> <hex line> <float table>   sam::Record read by the SAM reader, written by the
                                     BAM writer (refs / float table as in `c06`)

Answer: `ok <body>` | `err:invalid-input` | `err:invalid-data` | `err:eof` | `panic`; `eof` /
`unreadable` when the reader does not deliver the record, `short` when `RecordRef::new` is `None`.

Scripted view, 16 words: refid pos name mapq cigar flags seq materef matepos tlen qual data
cigarref seqref qualref dataref with
  `N` = `None`, `Ei`/`Ed`/`Ee` = the accessor returns `Err(InvalidInput/InvalidData/UnexpectedEof)`,
  cigar `len/ops/stop` (ops as in `c05 enc`, stop `.` or `i`/`d`/`e`), seq `len/hex`,
  qual `len/hex/stop`, data `fields/stop` (fields as in `c05 enc`),
  cigarref `g` | `p<hex>`, seqref `g` | `r<hex>` | `p<n>/<hex>`, qualref `g` | `r<hex>` |
  `o<off>/<hex>`, dataref `g` | `e<hex>`. -/
namespace Noodles.Bam.DriverReenc
open Noodles.Wire Noodles.Bam Noodles.Codec Noodles.Bam.Driver
abbrev Bytes := Noodles.Codec.Bytes

def fmtW : W Bytes → String
  | .ok b => "ok " ++ fmtBytes b
  | .error .input => "err:invalid-input"
  | .error .data => "err:invalid-data"
  | .error .eof => "err:eof"
  | .error .panic => "panic"

def failOf (s : String) : Option Fail :=
  match s with
  | "i" => some .input | "d" => some .data | "e" => some .eof | _ => none

def stopOf (s : String) : Option (Option Fail) :=
  if s = "." then some none else (failOf s).map some

/-- `N` / number / `E<c>` -/
def wOptNat (s : String) : Option (W (Option Nat)) :=
  if s = "N" then some (.ok none)
  else if s.startsWith "E" then (failOf (s.drop 1).toString).map .error
  else s.toNat?.map fun n => .ok (some n)

def wNat (s : String) : Option (W Nat) :=
  if s.startsWith "E" then (failOf (s.drop 1).toString).map .error else s.toNat?.map .ok

def wInt (s : String) : Option (W Int) :=
  if s.startsWith "E" then (failOf (s.drop 1).toString).map .error else s.toInt?.map .ok

def parseCigarV (s : String) : Option CigarV :=
  match s.splitOn "/" with
  | [len, ops, stop] => do pure ⟨← len.toNat?, (← parseCigar ops, ← stopOf stop)⟩
  | _ => none

def parseSeqV (s : String) : Option (Nat × Bytes) :=
  match s.splitOn "/" with
  | [len, bases] => do pure (← len.toNat?, ← unhex bases)
  | _ => none

def parseQualV (s : String) : Option (Nat × Iter UInt8) :=
  match s.splitOn "/" with
  | [len, q, stop] => do pure (← len.toNat?, (← unhex q, ← stopOf stop))
  | _ => none

def parseDataV (s : String) : Option (Iter (Tag × Val)) :=
  match s.splitOn "/" with
  | [fs, stop] => do pure (← parseData fs, ← stopOf stop)
  | _ => none

def parseCigarRef (s : String) : Option CigarRef :=
  if s = "g" then some .generic
  else if s.startsWith "p" then (unhex (s.drop 1).toString).map .packed
  else none

def parseSeqRef (s : String) : Option SeqRef :=
  if s = "g" then some .generic
  else if s.startsWith "r" then (unhex (s.drop 1).toString).map .raw
  else if s.startsWith "p" then
    match (s.drop 1).toString.splitOn "/" with
    | [n, src] => do pure (.packed (← unhex src) (← n.toNat?))
    | _ => none
  else none

def parseQualRef (s : String) : Option QualRef :=
  if s = "g" then some .generic
  else if s.startsWith "r" then (unhex (s.drop 1).toString).map .raw
  else if s.startsWith "o" then
    match (s.drop 1).toString.splitOn "/" with
    | [off, src] => do pure (.offset (← unhex src) (UInt8.ofNat (← off.toNat?)))
    | _ => none
  else none

def parseDataRef (s : String) : Option DataRef :=
  if s = "g" then some .generic
  else if s.startsWith "e" then (unhex (s.drop 1).toString).map .encoded
  else none

def parseView : List String → Option View
  | [refid, pos, name, mapq, cigar, flags, seq, mref, mpos, tlen, qual, data, cr, sr, qr, dr] => do
    let name ← if name = "N" then some none else (unhex name).map some
    pure {
      refId := ← wOptNat refid, pos := ← wOptNat pos, name := .ok name, mapq := ← wOptNat mapq,
      cigar := .ok (← parseCigarV cigar), flags := ← wNat flags, seq := .ok (← parseSeqV seq),
      mateRefId := ← wOptNat mref, matePos := ← wOptNat mpos, tlen := ← wInt tlen,
      qual := .ok (← parseQualV qual), data := .ok (← parseDataV data),
      cigarRef := .ok (← parseCigarRef cr), seqRef := .ok (← parseSeqRef sr),
      qualRef := .ok (← parseQualRef qr), dataRef := .ok (← parseDataRef dr) }
  | _ => none

def handle : List String → String
  | ["lazy", nref, body] =>
    match nref.toNat?, unhex body with
    | some nref, some b =>
      if blockIsEof b then "eof" else
      match validate b with
      | .error _ => "unreadable"
      | .ok () => fmtW (writeView nref (viewRecord b))
    | _, _ => "bad-op"
  | ["box", nref, body] =>
    match nref.toNat?, unhex body with
    | some nref, some b =>
      if blockIsEof b then "eof" else
      match validate b with
      | .error _ => "unreadable"
      | .ok () => fmtW (writeView nref (viewRef b))
    | _, _ => "bad-op"
  | ["ref", nref, body] =>
    match nref.toNat?, unhex body with
    | some nref, some b =>
      match rewriteRef nref b with
      | none => "short"
      | some w => fmtW w
    | _, _ => "bad-op"
  | "view" :: nref :: ws =>
    match nref.toNat?, parseView ws with
    | some nref, some v => fmtW (writeView nref v)
    | _, _ => "bad-op"
  | ["sam", refs, line, ftab] =>
    match Noodles.Sam.Drv.parseRefs refs, unhex line, Noodles.Sam.Drv.parseFTab ftab with
    | some refs, some l, some t =>
      match Noodles.Sam.samToBam t.fmt refs l with
      | none => "unreadable"
      | some w => fmtW w
    | _, _, _ => "bad-op"
  | _ => "bad-op"

end Noodles.Bam.DriverReenc
