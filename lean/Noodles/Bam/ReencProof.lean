import Noodles.Bam.Reenc
import Noodles.Bam.RecordSpec
import Noodles.Bam.RecordProof
import Noodles.Bam.LazyProof
/-!
# Lemmas about the re-encoding model (`Reenc.lean`); the theorems are in `Props/C05Reenc.lean`
-/
namespace Noodles.Bam
open Noodles.Codec

/-! ## `encodeView` on the view of a `RecordBuf` is `encode` -/

/-- the `usize` sums the encoder forms over the CIGAR stay inside `usize` -/
structure NoOverflow (pos : Option Nat) (cigar : List Op) : Prop where
  span : Noodles.Bam.span cigar < USZ
  readLen : Noodles.Bam.readLen cigar < USZ
  aend : ∀ s, pos = some s → s + (Noodles.Bam.span cigar - 1) < USZ

theorem spanI_all (ops : List Op) (h : span ops < USZ) : spanI (ops, none) = .ok (span ops) := by
  unfold spanI
  rw [if_neg (by simp only; omega)]

theorem readLenI_all (ops : List Op) (h : readLen ops < USZ) : readLenI (ops, none) = .ok (readLen ops) := by
  unfold readLenI
  rw [if_neg (by simp only; omega)]

theorem alignmentEndV_buf (pos : Option Nat) (len : Nat) (cigar : List Op) (h : NoOverflow pos cigar) :
    alignmentEndV pos (.ok ⟨len, (cigar, none)⟩) = .ok (alignmentEnd pos cigar) := by
  cases pos with
  | none => rfl
  | some s =>
    have ha := h.aend s rfl
    simp only [alignmentEndV, spanI_all cigar h.span, alignmentEnd]
    by_cases h0 : span cigar = 0
    · simp [h0]
    · rw [if_neg h0, if_pos ha, if_neg h0]

theorem binOfEnd_eq (pos : Option Nat) (cigar : List Op) :
    binOfEnd pos (alignmentEnd pos cigar) = binOf pos cigar := by
  cases pos <;> rfl

theorem overflowV_buf (n : Nat) (cigar : List Op) (h : span cigar < USZ) :
    overflowV n ⟨cigar.length, (cigar, none)⟩ =
      .ok ((cigarSlot n cigar).1.length, if (cigarSlot n cigar).2 then some (cigarSlot n cigar).1 else none) := by
  unfold overflowV cigarSlot
  by_cases hc : cigar.length ≤ 65535
  · simp [hc]
  · simp [hc, spanI_all cigar h]

theorem writeGenericCigar_all (ops : List Op) : writeGenericCigar (ops, none) = liftIn (encOps ops) := by
  unfold writeGenericCigar
  cases encOps ops <;> rfl

theorem writeSeqRef_raw (rl : Nat) (seq : Bytes) (n : Nat) :
    writeSeqRef rl (n, seq) (.raw seq) = liftIn (encSeq rl seq) := by
  unfold writeSeqRef encSeq SeqRef.len
  by_cases h : seq.length = 0
  · have : seq = [] := List.length_eq_zero_iff.mp h
    subst this; rfl
  · have hne : seq.isEmpty = false := by
      cases seq with
      | nil => simp at h
      | cons _ _ => rfl
    simp only [h, if_false, hne, Bool.false_eq_true]
    split <;> rfl

theorem all_scoreOk (q : Bytes) : q.all scoreOk = q.all (fun b => decide (b.toNat ≤ 93)) := rfl

theorem writeQualRef_generic (n : Nat) (q : Bytes) :
    writeQualRef n (.ok (q.length, (q, none))) .generic = liftIn (encQual n q) := by
  unfold writeQualRef qualFrame writeGenericQual encQual
  by_cases h : q.length = n
  · simp only [h, if_true, all_scoreOk]
    by_cases ha : (q.all fun b => decide (b.toNat ≤ 93)) = true
    · simp only [ha, if_true]; rfl
    · simp only [ha]; rfl
  · simp only [h, if_false]
    by_cases h0 : q.length = 0
    · have : q = [] := List.length_eq_zero_iff.mp h0
      subst this; rfl
    · have hne : q.isEmpty = false := by
        cases q with
        | nil => simp at h0
        | cons _ _ => rfl
      simp only [h0, if_false, hne, Bool.false_eq_true]
      rfl

theorem writeGenericData_all (d : List (Tag × Val)) : writeGenericData (d, none) = liftIn (encData d) := by
  unfold writeGenericData
  cases encData d <;> rfl

theorem writeCgV_all (ops : List Op) : writeCgV ⟨ops.length, (ops, none)⟩ = liftIn (encCg ops) := by
  unfold writeCgV encCg
  by_cases h : ops.length ≤ 4294967295
  · simp only [h, if_true, writeGenericCigar_all]
    cases encOps ops <;> rfl
  · simp only [h, if_false]; rfl

theorem liftIn_bind {α β : Type} (x : Except Err α) (f : α → Except Err β) :
    liftIn (x >>= f) = (liftIn x >>= fun a => liftIn (f a)) := by
  cases x <;> rfl

theorem liftIn_ok {α : Type} (a : α) : liftIn (.ok a : Except Err α) = .ok a := rfl
theorem liftIn_pure {α : Type} (a : α) : liftIn (pure a : Except Err α) = pure a := rfl

theorem encodeView_buf (nref : Nat) (r : Rec) (hno : NoOverflow r.pos r.cigar) :
    encodeView nref (viewBuf r) = liftIn (encode nref r) := by
  unfold encodeView encode viewBuf
  simp only [liftIn_bind, liftIn_pure]
  simp only [bind, Except.bind, pure, Except.pure, alignmentEndV_buf _ _ _ hno, binOfEnd_eq,
    overflowV_buf _ _ hno.span, writeCigarRef, writeGenericCigar_all, readLenI_all _ hno.readLen,
    writeSeqRef_raw, writeQualRef_generic, writeDataRef, writeGenericData_all]
  cases encRefId nref r.refId with
  | error e => rfl
  | ok bRef =>
    simp only [liftIn]
    cases encPos r.pos with
    | error e => rfl
    | ok bPos =>
      simp only
      cases encNameLen r.name with
      | error e => rfl
      | ok lName =>
        simp only
        cases encSeqLen r.seq.length with
        | error e => rfl
        | ok lSeq =>
          simp only
          cases encRefId nref r.mateRefId with
          | error e => rfl
          | ok bMref =>
            simp only
            cases encPos r.matePos with
            | error e => rfl
            | ok bMpos =>
              simp only
              cases encName r.name with
              | error e => rfl
              | ok bName =>
                simp only
                by_cases hc : r.cigar.length ≤ 65535
                · simp only [cigarSlot, hc, if_true, Bool.false_eq_true, if_false, encCgIf]
                · simp only [cigarSlot, hc, if_true, if_false, encCgIf, writeCgV_all]
                  cases encOps [⟨4, r.seq.length⟩, ⟨3, span r.cigar⟩] with
                  | error e => rfl
                  | ok bCig =>
                    simp only
                    cases encSeq (readLen r.cigar) r.seq with
                    | error e => rfl
                    | ok bSeq =>
                      simp only
                      cases encQual r.seq.length r.qual with
                      | error e => rfl
                      | ok bQual =>
                        simp only
                        cases encData r.data with
                        | error e => rfl
                        | ok bData =>
                          simp only
                          cases encCg r.cigar with
                          | error e => rfl
                          | ok bCg => rfl

/-! ## the lazy views of bytes the eager decoder accepts -/

theorem opChunks_of_lazyOps (n : Nat) (src : Bytes) (ops : List Op) (hl : src.length = n * 4)
    (h : lazyOps src = .ok ops) : opChunks src = (ops, none) ∧ ops.length = n := by
  induction n generalizing src ops with
  | zero =>
    have : src = [] := by cases src with
      | nil => rfl
      | cons _ _ => simp at hl
    subst this
    simp only [lazyOps, L.ok.injEq] at h
    subst h
    exact ⟨rfl, rfl⟩
  | succ n ih =>
    match src, hl with
    | a :: b :: c :: d :: rest, hl =>
      have hl' : rest.length = n * 4 := by simp at hl; omega
      simp only [lazyOps] at h
      cases h1 : decOpNat (leVal [a, b, c, d]) with
      | error e => cases h2 : lazyOps rest <;> simp [h1, h2] at h
      | ok o =>
        cases h2 : lazyOps rest with
        | err => simp [h1, h2] at h
        | panic => simp [h1, h2] at h
        | ok os =>
          simp only [h1, h2, L.ok.injEq] at h
          subst h
          obtain ⟨e1, e2⟩ := ih rest os hl' h2
          simp [opChunks, h1, e1, e2]
    | [], hl => simp at hl
    | [_], hl => simp at hl; omega
    | [_, _], hl => simp at hl; omega
    | [_, _, _], hl => simp at hl; omega

theorem opsIter_of_lazyOps (n : Nat) (src : Bytes) (ops : List Op) (hl : src.length = n * 4)
    (h : lazyOps src = .ok ops) : opsIter src = (ops, none) ∧ src.length / 4 = ops.length := by
  obtain ⟨e1, e2⟩ := opChunks_of_lazyOps n src ops hl h
  refine ⟨?_, by omega⟩
  unfold opsIter
  rw [if_pos (by omega), e1]

theorem slice_len (s : Bytes) (a c : Nat) (r : Bytes) (h : slice s a c = .ok r) : r.length = c - a := by
  unfold slice at h
  split at h
  · simp only [L.ok.injEq] at h
    subst h
    rw [List.length_take, List.length_drop]; omega
  · cases h

/-- FOR ANY BYTES: what `RecordRef::cigar()` hands to `Cigar::new` is whole 4-byte chunks -/
theorem lazyCigarBytes_chunks (b src : Bytes) (f : Bool) (h : lazyCigarBytes b = .ok (src, f)) :
    ∃ n, src.length = n * 4 := by
  unfold lazyCigarBytes at h
  simp only at h
  cases hs : slice (lRest b) (lNameLen b) (lNameLen b + lOpCount b * 4) with
  | err => simp [hs] at h
  | panic => simp [hs] at h
  | ok s0 =>
    have hl0 := slice_len _ _ _ _ hs
    simp only [hs] at h
    split at h
    · split at h
      · split at h
        · split at h
          · next buf hg =>
            simp only [L.ok.injEq, Prod.mk.injEq] at h
            obtain ⟨rfl, _⟩ := h
            exact getRawCigar_some_len _ _ _ hg
          · simp only [L.ok.injEq, Prod.mk.injEq] at h
            exact ⟨lOpCount b, by rw [← h.1, hl0]; omega⟩
        · cases h
        · cases h
      · simp only [L.ok.injEq, Prod.mk.injEq] at h
        exact ⟨lOpCount b, by rw [← h.1, hl0]; omega⟩
    · simp only [L.ok.injEq, Prod.mk.injEq] at h
      exact ⟨lOpCount b, by rw [← h.1, hl0]; omega⟩

theorem lazyFieldsE_fst (fuel : Nat) (s : Bytes) : (lazyFieldsE fuel s).1 = (lazyFields fuel s).1 := by
  induction fuel generalizing s with
  | zero => rfl
  | succ fuel ih =>
    simp only [lazyFieldsE, lazyFields]
    split
    · rfl
    · cases hf : lazyField s with
      | error e => cases e <;> rfl
      | ok p => obtain ⟨f, s'⟩ := p; simp only [ih]

theorem lazyFieldsE_snd (fuel : Nat) (s : Bytes) (h : (lazyFields fuel s).2 = false) :
    (lazyFieldsE fuel s).2 = none := by
  induction fuel generalizing s with
  | zero =>
    simp only [lazyFields, Bool.not_eq_eq_eq_not, Bool.not_false] at h
    simp [lazyFieldsE, h]
  | succ fuel ih =>
    simp only [lazyFieldsE, lazyFields] at h ⊢
    split
    · rfl
    · next hne =>
      simp only [hne, Bool.false_eq_true, if_false] at h
      cases hf : lazyField s with
      | error e => simp [hf] at h
      | ok p =>
        obtain ⟨f, s'⟩ := p
        simp only [hf] at h
        exact ih s' h

/-- `lazyCigar_and_data` (LazyProof.lean) with the source of the lazy CIGAR spelled out: either
`resolve` did nothing and `cigar()` iterates the CIGAR slot, or it took the `CG` field and `cigar()`
iterates that field's payload -/
theorem decode_cases (b : Bytes) (r0 r : Rec) (hp : RawParts b r0) (hr : resolve r0 = .ok r) :
    (¬ cgResolved r0 ∧ r = r0 ∧ lazyCigarBytes b = .ok (lCigarSrc b, false) ∧
        lazyOps (lCigarSrc b) = .ok r.cigar ∧ lazyData b = .ok (r.data, false)) ∨
    (cgResolved r0 ∧ ∃ buf, lazyCigarBytes b = .ok (buf, true) ∧ lazyOps buf = .ok r.cigar ∧
        buf.length = r.cigar.length * 4 ∧
        lazyData b = .ok (r0.data.filter (fun f => f.1 != CG), false) ∧
        ∃ i, r0.data.findIdx? (fun f => f.1 == CG) = some i ∧ r.data = swapRemove i r0.data) := by
  have hl := hp.len
  have hsl := lCigarSrc_length b hl
  obtain ⟨t, hc⟩ := hp.cigar
  have e4 : 4 * lOpCount b = lOpCount b * 4 := by omega
  rw [e4] at hc
  change decN decOp (lOpCount b) (lCigarSrc b) = .ok (r0.cigar, t) at hc
  have hsrcOps : lazyOps (lCigarSrc b) = .ok r0.cigar :=
    lazyOps_of_decN (lOpCount b) (lCigarSrc b) r0.cigar t (by rw [hsl]; omega) hc
  obtain ⟨fs, hfs, hspec⟩ := getRawCigar_of_decData _ _ [] _ hp.data
  simp only [List.nil_append] at hfs
  subst hfs
  obtain ⟨fs', hfs', hlf⟩ := lazyFields_of_decData _ _ [] _ hp.data
  simp only [List.nil_append] at hfs'
  subst hfs'
  have hcb := lazyCigarBytes_eq b r0 hp
  unfold resolve at hr
  by_cases hph : isPlaceholder r0.seq.length r0.cigar = true
  · rw [if_pos hph] at hr hcb
    cases hfi : r0.data.findIdx? (fun f => f.1 == CG) with
    | none =>
      simp only [hfi, Except.ok.injEq] at hr
      subst hr
      have hfind := find_none_of_imp _ isCgI _ isCgI_tag (findIdx_none_find _ _ hfi)
      simp only [cgSpec, hfind] at hspec
      rw [hspec] at hcb
      simp only at hcb
      refine Or.inl ⟨?_, rfl, hcb, hsrcOps, ?_⟩
      · intro hcr; have := hcr.2; simp [hfi] at this
      · simp only [lazyData, lazyRawData_eq b hl, hcb, hlf]
    | some i =>
      simp only [hfi] at hr
      obtain ⟨x, hx1, hx2⟩ := findIdx_some_find _ _ _ hfi
      rw [hx1] at hr
      obtain ⟨tag, v⟩ := x
      cases v with
      | arr ty vs =>
        cases ty with
        | I =>
          simp only at hr
          cases hops : opsOfNats vs with
          | error e => simp [hops] at hr
          | ok ops =>
            simp only [hops, Except.ok.injEq] at hr
            subst hr
            have hfind : r0.data.find? isCgI = some (tag, Val.arr .I vs) :=
              find_some_of_imp _ isCgI _ _ isCgI_tag hx2
                ((isCgI_arr _ _ _).2 ⟨by simpa using List.find?_some hx2, rfl⟩)
            simp only [cgSpec, hfind] at hspec
            obtain ⟨vs', buf, hvs, hbuf, hblen, hchunks⟩ := hspec
            simp only [Val.arr.injEq, true_and] at hvs
            subst hvs
            rw [hbuf] at hcb
            simp only at hcb
            rw [← hchunks] at hops
            have hlo := lazyOps_of_chunks vs.length buf buf.length ops hblen
              (by rw [hblen]; omega) hops
            have hol := (opChunks_of_lazyOps vs.length buf ops hblen hlo).2
            refine Or.inr ⟨⟨hph, by simp [hfi]⟩, buf, hcb, hlo, by simp only [hblen, hol], ?_, i, rfl, rfl⟩
            simp only [lazyData, lazyRawData_eq b hl, hcb, hlf]
        | c => simp at hr
        | C => simp at hr
        | s => simp at hr
        | S => simp at hr
        | i => simp at hr
        | f => simp at hr
      | char c => simp at hr
      | num t x => simp at hr
      | str x => simp at hr
      | hex x => simp at hr
  · have hph' : isPlaceholder r0.seq.length r0.cigar = false := by simpa using hph
    rw [hph'] at hr hcb
    simp only [Bool.false_eq_true, if_false, Except.ok.injEq] at hr hcb
    subst hr
    refine Or.inl ⟨?_, rfl, hcb, hsrcOps, ?_⟩
    · intro hcr; exact hph hcr.1
    · simp only [lazyData, lazyRawData_eq b hl, hcb, hlf]

theorem dataV_of_lazyData (b : Bytes) (fs : List (Tag × Val)) (h : lazyData b = .ok (fs, false)) :
    dataV b = .ok (fs, none) := by
  unfold lazyData at h
  unfold dataV dataSrc fieldsIter
  cases hd : lazyRawData b with
  | err => simp [hd] at h
  | panic => simp [hd] at h
  | ok d =>
    simp only [hd] at h ⊢
    cases hc : lazyCigarBytes b with
    | err => simp [hc] at h
    | panic => simp [hc] at h
    | ok p =>
      obtain ⟨src, flag⟩ := p
      cases flag with
      | true =>
        simp only [hc, L.ok.injEq, Prod.mk.injEq] at h
        simp only [if_true, lazyFieldsE_fst, h.1, lazyFieldsE_snd _ _ h.2]
      | false =>
        simp only [hc, L.ok.injEq] at h
        have h1 : (lazyFields d.length d).1 = fs := by rw [h]
        have h2 : (lazyFields d.length d).2 = false := by rw [h]
        simp only [Bool.false_eq_true, if_false]
        have : lazyFieldsE d.length d = (fs, none) := by
          rw [← h1, ← lazyFieldsE_fst, ← lazyFieldsE_snd _ _ h2]
        rw [this]

/-- what the trait accessors of a lazy BAM record return on bytes the eager decoder accepts -/
theorem views_of_decode (b : Bytes) (r0 r : Rec) (hp : RawParts b r0) (hr : resolve r0 = .ok r) :
    toW (lazyRefId b) = .ok r.refId ∧ toW (lazyPos b) = .ok r.pos ∧ toW (lazyName b) = .ok r.name ∧
    lazyMapq b = r.mapq ∧ cigarV b = .ok ⟨r.cigar.length, (r.cigar, none)⟩ ∧ lazyFlags b = r.flags ∧
    seqV b = .ok (r.seq.length, r.seq) ∧ toW (lazyMateRefId b) = .ok r.mateRefId ∧
    toW (lazyMatePos b) = .ok r.matePos ∧ lazyTlen b = r.tlen ∧
    qualV b = .ok (r.qual.length, (r.qual, none)) := by
  obtain ⟨e1, e2, e3, e4, e5, e6, e7, e8, e9, e10⟩ := resolve_fields r0 r hr
  have hcv : cigarV b = .ok ⟨r.cigar.length, (r.cigar, none)⟩ := by
    unfold cigarV
    rcases decode_cases b r0 r hp hr with ⟨_, _, hcb, hlo, _⟩ | ⟨_, buf, hcb, hlo, hbl, _⟩
    · obtain ⟨i1, i2⟩ := opsIter_of_lazyOps (lOpCount b) _ _ (lCigarSrc_length b hp.len) hlo
      simp only [hcb, i1, i2]
    · obtain ⟨i1, i2⟩ := opsIter_of_lazyOps r.cigar.length _ _ hbl hlo
      simp only [hcb, i1, i2]
  refine ⟨?_, ?_, ?_, ?_, hcv, ?_, ?_, ?_, ?_, ?_, ?_⟩
  · rw [e3, hp.refId]; rfl
  · rw [e4, hp.pos]; rfl
  · rw [e1, lazyName_eq b r0 hp]; rfl
  · rw [e5]; exact hp.mapq.symm
  · rw [e2]; exact hp.flags.symm
  · unfold seqV
    rw [lazySeq_eq b r0 hp, e9, seq_length_eq b r0 hp]
  · rw [e6, hp.mateRefId]; rfl
  · rw [e7, hp.matePos]; rfl
  · rw [e8]; exact hp.tlen.symm
  · unfold qualV
    rw [lazyQual_eq b r0 hp, e10]

theorem viewRef_of_decode (b : Bytes) (r0 r : Rec) (hp : RawParts b r0) (hr : resolve r0 = .ok r)
    (fs : List (Tag × Val)) (hfs : lazyData b = .ok (fs, false)) :
    viewRef b = { viewBuf { r with data := fs } with seqRef := .ok .generic } := by
  obtain ⟨h1, h2, h3, h4, h5, h6, h7, h8, h9, h10, h11⟩ := views_of_decode b r0 r hp hr
  unfold viewRef viewBuf
  simp only [h1, h2, h3, h4, h5, h6, h7, h8, h9, h10, h11, dataV_of_lazyData b fs hfs]

theorem writeSeqRef_generic (rl : Nat) (seq : Bytes) :
    writeSeqRef rl (seq.length, seq) .generic = writeSeqRef rl (seq.length, seq) (.raw seq) := by
  unfold writeSeqRef SeqRef.len
  rfl

theorem encodeView_genericSeq (nref : Nat) (r : Rec) :
    encodeView nref { viewBuf r with seqRef := .ok .generic } = encodeView nref (viewBuf r) := by
  unfold encodeView viewBuf
  simp only [bind, Except.bind, writeSeqRef_generic]

/-- `RecordRef` / `Box<dyn Record>` over bytes the eager decoder accepts: the default paths of the
encoder do what `encode` does on the eagerly decoded record (data in the order the lazy view lists
it) -/
theorem reenc_ref (nref : Nat) (b : Bytes) (r0 r : Rec) (hp : RawParts b r0) (hr : resolve r0 = .ok r)
    (hno : NoOverflow r.pos r.cigar)
    (fs : List (Tag × Val)) (hfs : lazyData b = .ok (fs, false)) :
    encodeView nref (viewRef b) = liftIn (encode nref { r with data := fs }) := by
  rw [viewRef_of_decode b r0 r hp hr fs hfs, encodeView_genericSeq]
  exact encodeView_buf nref { r with data := fs } hno

/-! ## what the eager decoder produces is a `RecordBuf`: `WF` -/

theorem leVal_lt : ∀ s : Bytes, leVal s < 256 ^ s.length
  | [] => by simp [leVal]
  | b :: r => by
    have := leVal_lt r
    have hb := b.toNat_lt
    simp only [leVal, List.length_cons, Nat.pow_succ]
    omega

theorem leVal_take_lt (s : Bytes) (n : Nat) : leVal (s.take n) < 256 ^ n := by
  have h1 := leVal_lt (s.take n)
  have h2 : (s.take n).length ≤ n := by rw [List.length_take]; omega
  have : 256 ^ (s.take n).length ≤ 256 ^ n := Nat.pow_le_pow_right (by omega) h2
  omega

theorem headU_lt (b : Bytes) (off n : Nat) : headU b off n < 256 ^ n := leVal_take_lt _ _

theorem fromU_inRange (t : NumTy) (u : Nat) (h : u < 256 ^ t.size) : t.inRange (fromU t.signed t.size u) := by
  cases t <;> simp only [NumTy.inRange, NumTy.signed, NumTy.size, fromU] at h ⊢ <;>
    (simp only [Bool.false_eq_true, false_and, if_false, true_and, if_true]; try split) <;>
    simp_all <;> omega

theorem decNum_inRange (t : NumTy) (s : Bytes) (v : Int) (s' : Bytes) (h : decNum t s = .ok (v, s')) :
    t.inRange v := by
  obtain ⟨u, s1, hu, hv⟩ := dbind_ok_inv _ _ _ _ h
  obtain ⟨_, rfl, _⟩ := unle_ok _ _ _ _ hu
  simp only [pure_eq, Except.ok.injEq, Prod.mk.injEq] at hv
  rw [← hv.1]
  exact fromU_inRange t _ (leVal_take_lt _ _)

theorem decN_num_inRange (t : NumTy) (n : Nat) (s : Bytes) (vs : List Int) (s' : Bytes)
    (h : decN (decNum t) n s = .ok (vs, s')) : ∀ v ∈ vs, t.inRange v := by
  induction n generalizing s vs with
  | zero =>
    simp only [decN, Except.ok.injEq, Prod.mk.injEq] at h
    rw [← h.1]; simp
  | succ n ih =>
    simp only [decN] at h
    cases h1 : decNum t s with
    | error e => simp [h1] at h
    | ok p =>
      obtain ⟨v, s1⟩ := p
      simp only [h1] at h
      cases h2 : decN (decNum t) n s1 with
      | error e => simp [h2] at h
      | ok q =>
        obtain ⟨vs', s2⟩ := q
        simp only [h2, Except.ok.injEq, Prod.mk.injEq] at h
        obtain ⟨rfl, rfl⟩ := h
        intro x hx
        simp only [List.mem_cons] at hx
        rcases hx with rfl | hx
        · exact decNum_inRange t s _ s1 h1
        · exact ih s1 vs' h2 x hx

theorem decVal_wf (ty : UInt8) (s : Bytes) (v : Val) (s' : Bytes) (h : decVal ty s = .ok (v, s')) :
    valWF v := by
  by_cases h66 : ty = 66
  · subst h66
    obtain ⟨sub, s3, t, n, s4, vs, _, _, _, hdn, rfl⟩ := decVal_arr_inv s v s' h
    exact decN_num_inRange t n s4 vs s' hdn
  · cases v with
    | arr t vs => exact absurd rfl (decVal_not_arr ty s _ s' h66 h t vs)
    | char c => trivial
    | str x => trivial
    | hex x => trivial
    | num t x =>
      show t.inRange x
      by_cases h65 : ty = 65
      · subst h65
        rw [decVal_char] at h
        obtain ⟨c, s1, _, h⟩ := dbind_ok_inv _ _ _ _ h
        match c, h with
        | [c], h => simp at h
        | [], h => simp at h
        | _ :: _ :: _, h => simp at h
      by_cases h90 : ty = 90
      · subst h90
        rw [decVal_str] at h
        obtain ⟨c, s1, _, h⟩ := dbind_ok_inv _ _ _ _ h
        simp at h
      by_cases h72 : ty = 72
      · subst h72
        rw [decVal_hex] at h
        obtain ⟨c, s1, _, h⟩ := dbind_ok_inv _ _ _ _ h
        simp at h
      · unfold decVal at h
        simp only [h65, h90, h72, h66, if_false] at h
        cases ht : NumTy.ofCode ty with
        | none => simp [ht] at h
        | some t' =>
          simp only [ht] at h
          obtain ⟨c, s1, hc, h⟩ := dbind_ok_inv _ _ _ _ h
          simp only [pure_eq, Except.ok.injEq, Prod.mk.injEq, Val.num.injEq] at h
          obtain ⟨⟨rfl, rfl⟩, _⟩ := h
          exact decNum_inRange _ _ _ _ hc

theorem decData_wf (fuel : Nat) (s : Bytes) (acc out : List (Tag × Val))
    (h : decData fuel s acc = .ok out) (ha : ∀ f ∈ acc, valWF f.2) : ∀ f ∈ out, valWF f.2 := by
  induction fuel generalizing s acc with
  | zero =>
    simp only [decData] at h
    split at h
    · simp only [Except.ok.injEq] at h; subst h; exact ha
    · simp at h
  | succ fuel ih =>
    simp only [decData] at h
    split at h
    · simp only [Except.ok.injEq] at h; subst h; exact ha
    · cases hf : decField s with
      | error e => simp [hf] at h
      | ok p =>
        obtain ⟨⟨⟨a, b⟩, v⟩, s1⟩ := p
        simp only [hf] at h
        by_cases ht : hasTag (a, b) acc = true
        · simp [ht] at h
        · simp only [ht] at h
          simp only [Bool.false_eq_true, if_false] at h
          apply ih s1 (acc ++ [((a, b), v)]) h
          intro f hf'
          simp only [List.mem_append, List.mem_singleton] at hf'
          rcases hf' with hf' | rfl
          · exact ha f hf'
          · obtain ⟨_, s2, ty, _, _, h3⟩ := decField_inv s a b v s1 hf
            exact decVal_wf ty s2 v s1 h3

theorem lazyOps_kinds (n : Nat) (src : Bytes) (ops : List Op) (hl : src.length = n * 4)
    (h : lazyOps src = .ok ops) : ∀ o ∈ ops, o.kind ≤ 8 := by
  induction n generalizing src ops with
  | zero =>
    have : src = [] := by cases src with
      | nil => rfl
      | cons _ _ => simp at hl
    subst this
    simp only [lazyOps, L.ok.injEq] at h
    subst h
    simp
  | succ n ih =>
    match src, hl with
    | a :: b :: c :: d :: rest, hl =>
      have hl' : rest.length = n * 4 := by simp at hl; omega
      simp only [lazyOps] at h
      cases h1 : decOpNat (leVal [a, b, c, d]) with
      | error e => cases h2 : lazyOps rest <;> simp [h1, h2] at h
      | ok o =>
        cases h2 : lazyOps rest with
        | err => simp [h1, h2] at h
        | panic => simp [h1, h2] at h
        | ok os =>
          simp only [h1, h2, L.ok.injEq] at h
          subst h
          intro x hx
          simp only [List.mem_cons] at hx
          rcases hx with rfl | hx
          · have := (decOpNat_ok _ _ h1).1
            unfold decOpNat at h1
            split at h1
            · omega
            · cases h1
          · exact ih rest os hl' h2 x hx
    | [], hl => simp at hl
    | [_], hl => simp at hl; omega
    | [_, _], hl => simp at hl; omega
    | [_, _, _], hl => simp at hl; omega

theorem decode_wf (b : Bytes) (r0 r : Rec) (hp : RawParts b r0) (hr : resolve r0 = .ok r) : WF r := by
  obtain ⟨e1, e2, e3, e4, e5, e6, e7, e8, e9, e10⟩ := resolve_fields r0 r hr
  have hpos : ∀ u p, lazyPosOf u = .ok (some p) → 1 ≤ p := by
    intro u p h
    unfold lazyPosOf at h
    split at h
    · cases h
    · split at h
      · simp only [L.ok.injEq, Option.some.injEq] at h; omega
      · cases h
  have hnd0 : (r0.data.map (·.1)).Nodup := decData_nodup _ _ [] _ hp.data (by simp)
  have hwf0 : ∀ f ∈ r0.data, valWF f.2 := decData_wf _ _ [] _ hp.data (by simp)
  have hkd : ∀ o ∈ r.cigar, o.kind ≤ 8 := by
    rcases decode_cases b r0 r hp hr with ⟨_, _, _, hlo, _⟩ | ⟨_, buf, _, hlo, hbl, _⟩
    · exact lazyOps_kinds (lOpCount b) _ _ (lCigarSrc_length b hp.len) hlo
    · exact lazyOps_kinds r.cigar.length _ _ hbl hlo
  have hperm : r.data = r0.data ∨ ∃ i, i < r0.data.length ∧ r.data = swapRemove i r0.data := by
    rcases decode_cases b r0 r hp hr with ⟨_, rfl, _⟩ | ⟨_, buf, _, _, _, _, i, hi, hs⟩
    · exact Or.inl rfl
    · obtain ⟨x, hx, _⟩ := findIdx_some_find _ _ _ hi
      exact Or.inr ⟨i, (List.getElem?_eq_some_iff.mp hx).1, hs⟩
  have hP : r.data.Perm r0.data ∨ ∃ i, i < r0.data.length ∧ r.data.Perm (r0.data.eraseIdx i) := by
    rcases hperm with h | ⟨i, hi, h⟩
    · exact Or.inl (by rw [h])
    · exact Or.inr ⟨i, hi, by rw [h]; exact (swapRemove_perm r0.data i hi).1⟩
  have hsub : ∀ f ∈ r.data, f ∈ r0.data := by
    rcases hP with h | ⟨i, _, h⟩
    · exact fun f hf => h.subset hf
    · exact fun f hf => (List.eraseIdx_sublist _ _).subset (h.subset hf)
  refine ⟨?_, ?_, ?_, ?_, hkd, ?_, ?_, ?_⟩
  · rw [e2, hp.flags]; unfold lazyFlags; omega
  · intro p h; rw [e4] at h; have := hp.pos; rw [h] at this; exact hpos _ _ this
  · intro p h; rw [e7] at h; have := hp.matePos; rw [h] at this; exact hpos _ _ this
  · intro q h
    rw [e5, hp.mapq] at h
    unfold lazyMapq at h
    have := headU_lt b 9 1
    split at h
    · cases h
    · simp only [Option.some.injEq] at h; omega
  · rw [e8, hp.tlen]
    have := fromU_inRange .i (headU b 28 4) (headU_lt b 28 4)
    simp only [NumTy.inRange, NumTy.signed, NumTy.size, if_true] at this
    unfold lazyTlen
    have c : ((256 ^ 4 / 2 : Nat) : Int) = 2147483648 := by decide
    rw [c] at this
    omega
  · exact fun f hf => hwf0 f (hsub f hf)
  · rcases hP with h | ⟨i, _, h⟩
    · exact (h.map _).nodup_iff.mpr hnd0
    · have : ((r0.data.eraseIdx i).map (·.1)).Nodup :=
        List.Nodup.sublist ((List.eraseIdx_sublist _ _).map _) hnd0
      exact (h.map _).nodup_iff.mpr this

/-! ## the fast paths: the pieces `encodeView` assembles -/

/-- a `RecordBuf`-like view with arbitrary `*_ref` answers -/
def viewWith (r : Rec) (cr : CigarRef) (sr : SeqRef) (qr : QualRef) (dr : DataRef) : View :=
  { viewBuf r with cigarRef := .ok cr, seqRef := .ok sr, qualRef := .ok qr, dataRef := .ok dr }

theorem encodeView_parts (nref : Nat) (r : Rec) (cr : CigarRef) (sr : SeqRef) (qr : QualRef)
    (dr : DataRef) (out : Bytes) (hno : NoOverflow r.pos r.cigar)
    (h : encodeView nref (viewWith r cr sr qr dr) = .ok out) :
    ∃ bRef bPos lName lSeq bMref bMpos bName bCig bSeq bQual bData bCg,
      encRefId nref r.refId = .ok bRef ∧ encPos r.pos = .ok bPos ∧ encNameLen r.name = .ok lName ∧
      encSeqLen r.seq.length = .ok lSeq ∧ encRefId nref r.mateRefId = .ok bMref ∧
      encPos r.matePos = .ok bMpos ∧ encName r.name = .ok bName ∧
      (if r.cigar.length ≤ 65535 then
          writeCigarRef (.ok ⟨r.cigar.length, (r.cigar, none)⟩) cr = .ok bCig ∧ bCg = []
        else encOps [⟨4, r.seq.length⟩, ⟨3, span r.cigar⟩] = .ok bCig ∧ encCg r.cigar = .ok bCg) ∧
      writeSeqRef (readLen r.cigar) (r.seq.length, r.seq) sr = .ok bSeq ∧
      writeQualRef r.seq.length (.ok (r.qual.length, (r.qual, none))) qr = .ok bQual ∧
      writeDataRef (.ok (r.data, none)) dr = .ok bData ∧
      out = bRef ++ bPos ++ lName ++ [UInt8.ofNat (r.mapq.getD 255)] ++ le 2 (binOf r.pos r.cigar)
        ++ le 2 (cigarSlot r.seq.length r.cigar).1.length ++ le 2 r.flags ++ lSeq ++ bMref ++ bMpos
        ++ le 4 (toU 4 r.tlen) ++ bName ++ bCig ++ bSeq ++ bQual ++ bData ++ bCg := by
  unfold encodeView viewWith viewBuf at h
  simp only [bind, Except.bind, pure, Except.pure, alignmentEndV_buf _ _ _ hno, binOfEnd_eq,
    overflowV_buf _ _ hno.span, readLenI_all _ hno.readLen] at h
  cases h1 : encRefId nref r.refId with
  | error e => simp [h1, liftIn] at h
  | ok bRef =>
    cases h2 : encPos r.pos with
    | error e => simp [h1, h2, liftIn] at h
    | ok bPos =>
      cases h3 : encNameLen r.name with
      | error e => simp [h1, h2, h3, liftIn] at h
      | ok lName =>
        cases h4 : encSeqLen r.seq.length with
        | error e => simp [h1, h2, h3, h4, liftIn] at h
        | ok lSeq =>
          cases h5 : encRefId nref r.mateRefId with
          | error e => simp [h1, h2, h3, h4, h5, liftIn] at h
          | ok bMref =>
            cases h6 : encPos r.matePos with
            | error e => simp [h1, h2, h3, h4, h5, h6, liftIn] at h
            | ok bMpos =>
              cases h7 : encName r.name with
              | error e => simp [h1, h2, h3, h4, h5, h6, h7, liftIn] at h
              | ok bName =>
                simp only [h1, h2, h3, h4, h5, h6, h7, liftIn] at h
                by_cases hc : r.cigar.length ≤ 65535
                · simp only [cigarSlot, hc, if_true, Bool.false_eq_true, if_false] at h ⊢
                  cases h8 : writeCigarRef (.ok ⟨r.cigar.length, (r.cigar, none)⟩) cr with
                  | error e => simp [h8] at h
                  | ok bCig =>
                    simp only [h8] at h
                    cases h9 : writeSeqRef (readLen r.cigar) (r.seq.length, r.seq) sr with
                    | error e => simp [h9] at h
                    | ok bSeq =>
                      simp only [h9] at h
                      cases h10 : writeQualRef r.seq.length (.ok (r.qual.length, (r.qual, none))) qr with
                      | error e => simp [h10] at h
                      | ok bQual =>
                        simp only [h10] at h
                        cases h11 : writeDataRef (.ok (r.data, none)) dr with
                        | error e => simp [h11] at h
                        | ok bData =>
                          simp only [h11, Except.ok.injEq] at h
                          exact ⟨bRef, bPos, lName, lSeq, bMref, bMpos, bName, bCig, bSeq, bQual, bData, [],
                            rfl, rfl, rfl, rfl, rfl, rfl, rfl, ⟨rfl, rfl⟩, rfl, rfl, rfl, h.symm⟩
                · simp only [cigarSlot, hc, if_true, if_false, writeCgV_all] at h ⊢
                  cases h8 : encOps [⟨4, r.seq.length⟩, ⟨3, span r.cigar⟩] with
                  | error e => simp [h8, liftIn] at h
                  | ok bCig =>
                    simp only [h8, liftIn] at h
                    cases h9 : writeSeqRef (readLen r.cigar) (r.seq.length, r.seq) sr with
                    | error e => simp [h9] at h
                    | ok bSeq =>
                      simp only [h9] at h
                      cases h10 : writeQualRef r.seq.length (.ok (r.qual.length, (r.qual, none))) qr with
                      | error e => simp [h10] at h
                      | ok bQual =>
                        simp only [h10] at h
                        cases h11 : writeDataRef (.ok (r.data, none)) dr with
                        | error e => simp [h11] at h
                        | ok bData =>
                          simp only [h11] at h
                          cases h12 : encCg r.cigar with
                          | error e => simp [h12] at h
                          | ok bCg =>
                            simp only [h12, Except.ok.injEq] at h
                            exact ⟨bRef, bPos, lName, lSeq, bMref, bMpos, bName, bCig, bSeq, bQual, bData, bCg,
                              rfl, rfl, rfl, rfl, rfl, rfl, rfl, ⟨rfl, rfl⟩, rfl, rfl, rfl, h.symm⟩

theorem le_leVal : ∀ s : Bytes, le s.length (leVal s) = s
  | [] => rfl
  | b :: r => by
    have hb := b.toNat_lt
    have ih := le_leVal r
    simp only [List.length_cons, le, leVal]
    have e1 : (b.toNat + 256 * leVal r) % 256 = b.toNat := by omega
    have e2 : (b.toNat + 256 * leVal r) / 256 = leVal r := by omega
    rw [e1, e2, ih]
    simp

/-- copying the packed CIGAR is what re-encoding its decoded ops would write -/
theorem packed_eq_generic (n : Nat) (src : Bytes) (ops : List Op) (hl : src.length = n * 4)
    (h : lazyOps src = .ok ops) : kindsOk src = some true ∧ encOps ops = .ok src := by
  induction n generalizing src ops with
  | zero =>
    have : src = [] := by cases src with
      | nil => rfl
      | cons _ _ => simp at hl
    subst this
    simp only [lazyOps, L.ok.injEq] at h
    subst h
    exact ⟨rfl, rfl⟩
  | succ n ih =>
    match src, hl with
    | a :: b :: c :: d :: rest, hl =>
      have hl' : rest.length = n * 4 := by simp at hl; omega
      simp only [lazyOps] at h
      cases h1 : decOpNat (leVal [a, b, c, d]) with
      | error e => cases h2 : lazyOps rest <;> simp [h1, h2] at h
      | ok o =>
        cases h2 : lazyOps rest with
        | err => simp [h1, h2] at h
        | panic => simp [h1, h2] at h
        | ok os =>
          simp only [h1, h2, L.ok.injEq] at h
          subst h
          obtain ⟨i1, i2⟩ := ih rest os hl' h2
          obtain ⟨k1, k2⟩ := decOpNat_ok _ _ h1
          have hk : leVal [a, b, c, d] % 16 ≤ 8 := by
            unfold decOpNat at h1
            split at h1
            · assumption
            · cases h1
          have hlt := leVal_lt [a, b, c, d]
          simp only [List.length_cons, List.length_nil] at hlt
          have hv : o.len * 16 + o.kind = leVal [a, b, c, d] := by rw [k1, k2]; omega
          have hle := le_leVal [a, b, c, d]
          simp only [List.length_cons, List.length_nil] at hle
          refine ⟨?_, ?_⟩
          · simp only [kindsOk, i1]
            have : a.toNat % 16 = leVal [a, b, c, d] % 16 := by simp only [leVal]; omega
            simp [this, hk]
          · have hol : o.len ≤ 268435455 := by rw [k2]; omega
            simp only [encOps, encOp, hol, if_true, hv, i2, hle]
            rfl
    | [], hl => simp at hl
    | [_], hl => simp at hl; omega
    | [_, _], hl => simp at hl; omega
    | [_, _, _], hl => simp at hl; omega

theorem writeQualRef_raw (n : Nat) (s : Bytes) (q : W (Nat × Iter UInt8)) :
    writeQualRef n q (.raw s) = writeQualRef n (.ok (s.length, (s, none))) .generic := by
  unfold writeQualRef writeGenericQual
  simp only

theorem normBase_baseChar (k : Nat) (h : k < 16) : normBase (baseChar k) = baseChar k := by
  have : ∀ k : Fin 16, normBase (baseChar k.val) = baseChar k.val := by decide
  exact this ⟨k, h⟩

theorem normBase_unpack (s : Bytes) : ∀ x ∈ unpackBases s, normBase x = x := by
  induction s with
  | nil => simp [unpackBases]
  | cons b r ih =>
    have hb := b.toNat_lt
    intro x hx
    simp only [unpackBases, List.mem_cons] at hx
    rcases hx with rfl | rfl | hx
    · exact normBase_baseChar _ (by omega)
    · exact normBase_baseChar _ (by omega)
    · exact ih x hx

theorem map_normBase_take (s : Bytes) (n : Nat) :
    ((unpackBases s).take n).map normBase = (unpackBases s).take n := by
  have : ∀ x ∈ (unpackBases s).take n, normBase x = id x :=
    fun x hx => normBase_unpack s x (List.mem_of_mem_take hx)
  rw [List.map_congr_left this, List.map_id]

/-! ### the segments of a record body -/

def segName (b : Bytes) : Bytes := (b.drop 32).take (lNameLen b)
def segSeq (b : Bytes) : Bytes :=
  (b.drop (32 + lNameLen b + lOpCount b * 4)).take ((lBaseCount b + 1) / 2)
def segQual (b : Bytes) : Bytes :=
  (b.drop (32 + lNameLen b + lOpCount b * 4 + (lBaseCount b + 1) / 2)).take (lBaseCount b)
def segData (b : Bytes) : Bytes := b.drop (lDataStart b)

theorem segSeq_length (b : Bytes) (hl : lDataStart b ≤ b.length) :
    (segSeq b).length = (lBaseCount b + 1) / 2 := by
  unfold lDataStart at hl
  unfold segSeq
  rw [List.length_take, List.length_drop]; omega

theorem segQual_length (b : Bytes) (hl : lDataStart b ≤ b.length) : (segQual b).length = lBaseCount b := by
  unfold lDataStart at hl
  unfold segQual
  rw [List.length_take, List.length_drop]; omega

theorem segName_length (b : Bytes) (hl : lDataStart b ≤ b.length) : (segName b).length = lNameLen b := by
  unfold lDataStart at hl
  unfold segName
  rw [List.length_take, List.length_drop]; omega

theorem lSeqSrc_eq (b : Bytes) (hl : lDataStart b ≤ b.length) : lSeqSrc b = .ok (segSeq b) := by
  have hl' := hl
  unfold lDataStart at hl'
  unfold lSeqSrc segSeq
  simp only
  rw [slice_ok _ _ _ (by omega) (by rw [lRest_length]; omega)]
  simp only [lRest, List.drop_drop]
  have e1 : lNameLen b + lOpCount b * 4 + (lBaseCount b + 1) / 2 - (lNameLen b + lOpCount b * 4)
      = (lBaseCount b + 1) / 2 := by omega
  have e2 : 32 + (lNameLen b + lOpCount b * 4) = 32 + lNameLen b + lOpCount b * 4 := by omega
  rw [e1, e2]

theorem body_split (b : Bytes) (hl : lDataStart b ≤ b.length) :
    b = b.take 32 ++ segName b ++ lCigarSrc b ++ segSeq b ++ segQual b ++ segData b := by
  have hl' := hl
  unfold lDataStart at hl'
  unfold segName lCigarSrc segSeq segQual segData lDataStart
  have step : ∀ (l : Bytes) (a n : Nat), l.drop a = (l.drop a).take n ++ l.drop (a + n) := by
    intro l a n
    rw [← List.drop_drop]
    exact (List.take_append_drop n (l.drop a)).symm
  have s1 := step b 32 (lNameLen b)
  have s2 := step b (32 + lNameLen b) (lOpCount b * 4)
  have s3 := step b (32 + lNameLen b + lOpCount b * 4) ((lBaseCount b + 1) / 2)
  have s4 := step b (32 + lNameLen b + lOpCount b * 4 + (lBaseCount b + 1) / 2) (lBaseCount b)
  simp only [List.append_assoc]
  rw [← s4, ← s3, ← s2, ← s1, List.take_append_drop]

/-- `roundtrip_raw` (RecordProof.lean) with the packed-sequence bytes left open: ANY bytes that the
sequence decoder reads back as the (folded) bases may stand in the sequence slot -/
theorem decodeRaw_assembled (nref : Nat) (r : Rec) (hw : WF r)
    (bRef bPos lName lSeq bMref bMpos bName bCig bSeq bQual bData bCg : Bytes)
    (e1 : encRefId nref r.refId = .ok bRef) (e2 : encPos r.pos = .ok bPos)
    (e3 : encNameLen r.name = .ok lName) (e4 : encSeqLen r.seq.length = .ok lSeq)
    (e5 : encRefId nref r.mateRefId = .ok bMref) (e6 : encPos r.matePos = .ok bMpos)
    (e7 : encName r.name = .ok bName)
    (eCig : if r.cigar.length ≤ 65535 then encOps r.cigar = .ok bCig ∧ bCg = []
      else encOps [⟨4, r.seq.length⟩, ⟨3, span r.cigar⟩] = .ok bCig ∧ encCg r.cigar = .ok bCg)
    (dSeq : ∀ rest, decSeq r.seq.length (bSeq ++ rest) = .ok (r.seq.map normBase, rest))
    (eQual : encQual r.seq.length r.qual = .ok bQual) (eData : encData r.data = .ok bData) :
    decodeRaw (bRef ++ bPos ++ lName ++ [UInt8.ofNat (r.mapq.getD 255)] ++ le 2 (binOf r.pos r.cigar)
        ++ le 2 (cigarSlot r.seq.length r.cigar).1.length ++ le 2 r.flags ++ lSeq ++ bMref ++ bMpos
        ++ le 4 (toU 4 r.tlen) ++ bName ++ bCig ++ bSeq ++ bQual ++ bData ++ bCg)
      = .ok (rawOf r, []) := by
  obtain ⟨bRef', eRef, dRef⟩ := rt_refId nref r.refId (encRefId_inv nref _ _ e1)
  obtain ⟨bPos', ePos, dPos⟩ := rt_pos r.pos (encPos_inv _ _ e2) hw.pos
  obtain ⟨bLn', eLn, dLn⟩ := rt_nameLen r.name (encNameLen_inv _ _ e3)
  obtain ⟨bMref', eMref, dMref⟩ := rt_refId nref r.mateRefId (encRefId_inv nref _ _ e5)
  obtain ⟨bMpos', eMpos, dMpos⟩ := rt_pos r.matePos (encPos_inv _ _ e6) hw.matePos
  obtain ⟨bName', eName, dName⟩ := rt_name r.name (encName_inv _ _ e7)
  obtain ⟨bQual', eQual', dQual⟩ := rt_qual r.seq.length r.qual (encQual_inv _ _ _ eQual)
  obtain ⟨bData', eData', hDlen, dData⟩ := data_rt r.data hw.vals (encData_inv _ _ eData)
  rw [e1] at eRef; rw [e2] at ePos; rw [e3] at eLn; rw [e5] at eMref; rw [e6] at eMpos
  rw [e7] at eName; rw [eQual] at eQual'; rw [eData] at eData'
  cases eRef; cases ePos; cases eLn; cases eMref; cases eMpos; cases eName; cases eQual'; cases eData'
  have hnd := keep_nodup r.data hw.tags
  have hlseq : r.seq.length ≤ 4294967295 := by
    unfold encSeqLen at e4
    split at e4
    · assumption
    · cases e4
  have hlSeq : lSeq = le 4 r.seq.length := by
    unfold encSeqLen at e4
    rw [if_pos hlseq] at e4
    cases e4; rfl
  subst hlSeq
  by_cases hc : r.cigar.length ≤ 65535
  · rw [if_pos hc] at eCig
    obtain ⟨eCig, rfl⟩ := eCig
    have hslot : cigarSlot r.seq.length r.cigar = (r.cigar, false) := by simp [cigarSlot, hc]
    obtain ⟨bCig', eCig', dCig⟩ := rt_cigar r.cigar hw.kinds (encOps_inv _ _ eCig)
    rw [eCig] at eCig'; cases eCig'
    have hdd : decData (bData ++ []).length (bData ++ []) [] = .ok (keep r.data) := by
      rw [dData _ [] [] (by simp; omega) (by simp [hasTag]) hnd, decData_nil]
      simp
    have := decodeRaw_parts r hw (binOf r.pos r.cigar) bRef bPos lName bMref bMpos bName bCig bSeq bQual
      (bData ++ []) r.cigar (keep r.data) dRef dPos dLn dMref dMpos dName dCig dSeq dQual hc hlseq hdd
    simp only [List.append_assoc, hslot] at this ⊢
    rw [this]
    simp [rawOf, norm, hslot, keep]
  · rw [if_neg hc] at eCig
    obtain ⟨eCig, eCg⟩ := eCig
    have hc' : 65535 < r.cigar.length := by omega
    have hslot : cigarSlot r.seq.length r.cigar = ([⟨4, r.seq.length⟩, ⟨3, span r.cigar⟩], true) := by
      simp [cigarSlot, hc]
    have hk : ∀ o ∈ [(⟨4, r.seq.length⟩ : Op), ⟨3, span r.cigar⟩], o.kind ≤ 8 := by
      intro o ho; simp at ho; rcases ho with rfl | rfl <;> simp
    obtain ⟨bCig', eCig', dCig⟩ := rt_cigar _ hk (encOps_inv _ _ eCig)
    rw [eCig] at eCig'; cases eCig'
    obtain ⟨hn, hcl⟩ := encCg_inv _ _ eCg
    obtain ⟨bCg', eCg', hCgne, dCg⟩ := cg_rt r.cigar hw.kinds hcl hn
    rw [eCg] at eCg'; cases eCg'
    have hdd : decData (bData ++ bCg).length (bData ++ bCg) []
        = .ok (keep r.data ++ [(CG, .arr .I (cgInts r.cigar))]) := by
      rw [dData _ [] bCg (by simp; omega) (by simp [hasTag]) hnd]
      obtain ⟨k, hk⟩ : ∃ k, (bData ++ bCg).length - (keep r.data).length = k + 1 :=
        ⟨(bData ++ bCg).length - (keep r.data).length - 1, by
          have h1 : 1 ≤ bCg.length := by
            cases bCg with
            | nil => exact absurd rfl hCgne
            | cons _ _ => simp
          simp; omega⟩
      rw [hk, decData]
      have hne : bCg.isEmpty = false := by
        cases bCg with
        | nil => exact absurd rfl hCgne
        | cons _ _ => rfl
      have := dCg []
      rw [List.append_nil] at this
      simp only [hne, Bool.false_eq_true, if_false, this, List.nil_append, hasTag_keep_CG, decData_nil]
    have := decodeRaw_parts r hw (binOf r.pos r.cigar) bRef bPos lName bMref bMpos bName bCig bSeq bQual
      (bData ++ bCg) _ _ dRef dPos dLn dMref dMpos dName dCig dSeq dQual (by simp) hlseq hdd
    simp only [List.append_assoc, hslot] at this ⊢
    rw [this]
    simp [rawOf, norm, hslot, keep]

/-! ## a BAM-backed record cannot overflow the encoder's `usize` sums -/

def arrLenOk : Val → Prop
  | .arr _ vs => vs.length < 4294967296
  | _ => True

theorem decVal_arrlen (ty : UInt8) (s : Bytes) (v : Val) (s' : Bytes) (h : decVal ty s = .ok (v, s')) :
    arrLenOk v := by
  by_cases h66 : ty = 66
  · subst h66
    obtain ⟨sub, s3, t, n, s4, vs, _, _, hu4, hdn, rfl⟩ := decVal_arr_inv s v s' h
    obtain ⟨_, hn, _⟩ := unle_ok _ _ _ _ hu4
    have hlt := leVal_take_lt s3 4
    have hvl : vs.length = n := decN_length _ _ _ _ _ hdn
    show vs.length < 4294967296
    have c : (256 : Nat) ^ 4 = 4294967296 := by decide
    omega
  · cases v with
    | arr t vs => exact absurd rfl (decVal_not_arr ty s _ s' h66 h t vs)
    | char c => trivial
    | str x => trivial
    | hex x => trivial
    | num t x => trivial

theorem decData_arrlen (fuel : Nat) (s : Bytes) (acc out : List (Tag × Val))
    (h : decData fuel s acc = .ok out) (ha : ∀ f ∈ acc, arrLenOk f.2) : ∀ f ∈ out, arrLenOk f.2 := by
  induction fuel generalizing s acc with
  | zero =>
    simp only [decData] at h
    split at h
    · simp only [Except.ok.injEq] at h; subst h; exact ha
    · simp at h
  | succ fuel ih =>
    simp only [decData] at h
    split at h
    · simp only [Except.ok.injEq] at h; subst h; exact ha
    · cases hf : decField s with
      | error e => simp [hf] at h
      | ok p =>
        obtain ⟨⟨⟨a, b⟩, v⟩, s1⟩ := p
        simp only [hf] at h
        by_cases ht : hasTag (a, b) acc = true
        · simp [ht] at h
        · simp only [ht] at h
          simp only [Bool.false_eq_true, if_false] at h
          apply ih s1 (acc ++ [((a, b), v)]) h
          intro f hf'
          simp only [List.mem_append, List.mem_singleton] at hf'
          rcases hf' with hf' | rfl
          · exact ha f hf'
          · obtain ⟨_, s2, ty, _, _, h3⟩ := decField_inv s a b v s1 hf
            exact decVal_arrlen ty s2 v s1 h3

theorem opsOfNats_length (vs : List Int) (ops : List Op) (h : opsOfNats vs = .ok ops) :
    ops.length = vs.length := by
  induction vs generalizing ops with
  | nil => simp only [opsOfNats, Except.ok.injEq] at h; subst h; rfl
  | cons n ns ih =>
    simp only [opsOfNats] at h
    cases ho : decOpNat n.toNat with
    | error e => simp [ho] at h
    | ok o =>
      simp only [ho] at h
      cases hr : opsOfNats ns with
      | error e => simp [hr] at h
      | ok os =>
        simp only [hr, Except.ok.injEq] at h
        subst h
        simp [ih os hr]

theorem resolve_cigar_len (r0 r : Rec) (hr : resolve r0 = .ok r) (harr : ∀ f ∈ r0.data, arrLenOk f.2)
    (h0 : r0.cigar.length < 4294967296) : r.cigar.length < 4294967296 := by
  unfold resolve at hr
  split at hr
  · cases hfi : r0.data.findIdx? (fun f => f.1 == CG) with
    | none => simp only [hfi, Except.ok.injEq] at hr; subst hr; exact h0
    | some i =>
      simp only [hfi] at hr
      cases hg : r0.data[i]? with
      | none => simp [hg] at hr
      | some x =>
        obtain ⟨tag, v⟩ := x
        have hmem : (tag, v) ∈ r0.data := List.mem_of_getElem? hg
        simp only [hg] at hr
        cases v with
        | arr ty vs =>
          cases ty <;> try (simp at hr; done)
          simp only at hr
          cases hops : opsOfNats vs with
          | error e => simp [hops] at hr
          | ok ops =>
            simp only [hops, Except.ok.injEq] at hr
            subst hr
            have : vs.length < 4294967296 := harr _ hmem
            show ops.length < 4294967296
            rw [opsOfNats_length vs ops hops]; exact this
        | char c => simp at hr
        | num t x => simp at hr
        | str x => simp at hr
        | hex x => simp at hr
  · simp only [Except.ok.injEq] at hr; subst hr; exact h0

theorem span_le (ops : List Op) (m : Nat) (h : ∀ o ∈ ops, o.len ≤ m) : span ops ≤ ops.length * m := by
  induction ops with
  | nil => simp [span]
  | cons o os ih =>
    have h1 := h o (by simp)
    have h2 := ih (fun x hx => h x (List.mem_cons_of_mem _ hx))
    simp only [span, List.length_cons]
    split <;> (rw [Nat.add_mul]; omega)

theorem readLen_le (ops : List Op) (m : Nat) (h : ∀ o ∈ ops, o.len ≤ m) : readLen ops ≤ ops.length * m := by
  induction ops with
  | nil => simp [readLen]
  | cons o os ih =>
    have h1 := h o (by simp)
    have h2 := ih (fun x hx => h x (List.mem_cons_of_mem _ hx))
    simp only [readLen, List.length_cons]
    split <;> (rw [Nat.add_mul]; omega)

/-- at most 2^32 ops (`n_cigar_op` is 16 bits, the `CG` array count 32 bits) of less than 2^28, a
start of at most 2^31: nothing the encoder adds up can leave `usize` -/
theorem decode_noOverflow (b : Bytes) (r0 r : Rec) (hp : RawParts b r0) (hr : resolve r0 = .ok r) :
    NoOverflow r.pos r.cigar := by
  have hops : ∀ o ∈ r.cigar, o.len ≤ 268435455 := by
    rcases decode_cases b r0 r hp hr with ⟨_, _, _, hlo, _⟩ | ⟨_, buf, _, hlo, hbl, _⟩
    · exact encOps_inv _ _ (packed_eq_generic (lOpCount b) _ _ (lCigarSrc_length b hp.len) hlo).2
    · exact encOps_inv _ _ (packed_eq_generic r.cigar.length _ _ hbl hlo).2
  have hlen : r.cigar.length < 4294967296 := by
    apply resolve_cigar_len r0 r hr (decData_arrlen _ _ [] _ hp.data (by simp))
    obtain ⟨t, hc⟩ := hp.cigar
    have := decN_length _ _ _ _ _ hc
    have h2 := headU_lt b 12 2
    unfold lOpCount at this
    have c : (256 : Nat) ^ 2 = 65536 := by decide
    omega
  have hs := span_le r.cigar 268435455 hops
  have hrl := readLen_le r.cigar 268435455 hops
  have hmul : r.cigar.length * 268435455 ≤ 4294967295 * 268435455 := Nat.mul_le_mul_right _ (by omega)
  refine ⟨by unfold USZ; omega, by unfold USZ; omega, ?_⟩
  intro s hs'
  have hpos : s ≤ 2147483648 := by
    have e4 := (resolve_fields r0 r hr).2.2.2.1
    have := hp.pos
    rw [← e4, hs'] at this
    unfold lazyPos lazyPosOf at this
    split at this
    · cases this
    · split at this
      · simp only [L.ok.injEq, Option.some.injEq] at this; omega
      · cases this
  unfold USZ; omega

theorem liftIn_eq_ok {α : Type} {x : Except Err α} {a : α} (h : liftIn x = .ok a) : x = .ok a := by
  cases x with
  | error e => cases h
  | ok v => simpa [liftIn] using h

theorem wf_perm (r : Rec) (hw : WF r) (fs : List (Tag × Val)) (hperm : fs.Perm r.data) :
    WF { r with data := fs } :=
  ⟨hw.flags, hw.pos, hw.matePos, hw.mapq, hw.kinds, hw.tlen,
    fun f hf => hw.vals f (hperm.subset hf), (hperm.map _).nodup_iff.mpr hw.tags⟩

theorem dataSrc_eq (b : Bytes) (hl : lDataStart b ≤ b.length) (src : Bytes) (skip : Bool)
    (hcb : lazyCigarBytes b = .ok (src, skip)) : dataSrc b = .ok (segData b, skip) := by
  unfold dataSrc
  rw [lazyRawData_eq b hl, hcb]
  rfl

theorem viewRecord_of_decode (b : Bytes) (r0 r : Rec) (hp : RawParts b r0) (hr : resolve r0 = .ok r)
    (fs : List (Tag × Val)) (hfs : lazyData b = .ok (fs, false)) (src : Bytes) (skip : Bool)
    (hcb : lazyCigarBytes b = .ok (src, skip)) :
    viewRecord b = viewWith { r with data := fs } (.packed src) (.packed (segSeq b) (lBaseCount b))
      (.raw r.qual) (if skip then .generic else .encoded (segData b)) := by
  have hq : lazyQual b = .ok r.qual := by
    rw [lazyQual_eq b r0 hp, (resolve_fields r0 r hr).2.2.2.2.2.2.2.2.2]
  unfold viewRecord
  rw [viewRef_of_decode b r0 r hp hr fs hfs]
  simp only [hcb, lSeqSrc_eq b hp.len, hq, dataSrc_eq b hp.len src skip hcb]
  rfl

theorem writeSeqRef_packed_ok (rl : Nat) (s : Nat × Bytes) (src : Bytes) (n : Nat) (out : Bytes)
    (h : writeSeqRef rl s (.packed src n) = .ok out) (hl : src.length = (n + 1) / 2) : out = src := by
  unfold writeSeqRef SeqRef.len at h
  by_cases h0 : n = 0
  · subst h0
    simp only [if_true, Except.ok.injEq] at h
    have : src = [] := List.length_eq_zero_iff.mp (by omega)
    rw [this, h]
  · simp only [h0, if_false] at h
    split at h
    · cases h
    · simpa using h.symm

theorem writeDataRef_encoded_ok (d : W (Iter (Tag × Val))) (src out : Bytes)
    (h : writeDataRef d (.encoded src) = .ok out) : out = src := by
  unfold writeDataRef at h
  cases hv : validateData src.length src with
  | error e => simp [hv] at h
  | ok u => simpa [hv] using h.symm

theorem writePackedCigar_ok (src out : Bytes) (h : writePackedCigar src = .ok out) : out = src := by
  unfold writePackedCigar at h
  split at h
  · cases h
  · simpa using h.symm
  · cases h

theorem decSeq_seg (b : Bytes) (r0 : Rec) (hp : RawParts b r0) :
    ∀ rest, decSeq r0.seq.length (segSeq b ++ rest) = .ok (r0.seq.map normBase, rest) := by
  intro rest
  have hlen := seq_length_eq b r0 hp
  have hs : r0.seq = (unpackBases (segSeq b)).take (lBaseCount b) := hp.seq
  unfold decSeq
  simp only [bind_eq, hlen, takeN_append' _ rest _ (segSeq_length b hp.len), pure_eq]
  rw [hs, map_normBase_take]

theorem encSeqLen_ok (n : Nat) (out : Bytes) (h : encSeqLen n = .ok out) : n ≤ 4294967295 ∧ out = le 4 n := by
  unfold encSeqLen at h
  split at h
  · exact ⟨by assumption, by simpa using h.symm⟩
  · cases h

theorem norm_self (r : Rec) (hs : r.seq.map normBase = r.seq)
    (hd : r.data.filter (fun f => f.1 != CG) = r.data) : norm r = r := by
  unfold norm
  rw [hs, hd]

/-- the CIGAR slot is the CIGAR (`resolve` did nothing): everything after the fixed 32 bytes is
copied, and the bytes decode to the same record -/
theorem reenc_record_slot (nref : Nat) (b : Bytes) (r : Rec) (out : Bytes) (hp : RawParts b r)
    (hr : resolve r = .ok r) (hw : WF r) (hcb : lazyCigarBytes b = .ok (lCigarSrc b, false))
    (hlo : lazyOps (lCigarSrc b) = .ok r.cigar) (hld : lazyData b = .ok (r.data, false))
    (h : encodeView nref (viewRecord b) = .ok out) :
    decodeRaw out = .ok (r, []) ∧
      ∃ bRef bPos lName bMref bMpos bName bQual,
        encRefId nref r.refId = .ok bRef ∧ encPos r.pos = .ok bPos ∧ encNameLen r.name = .ok lName ∧
        encRefId nref r.mateRefId = .ok bMref ∧ encPos r.matePos = .ok bMpos ∧
        encName r.name = .ok bName ∧ encQual r.seq.length r.qual = .ok bQual ∧
        out = bRef ++ bPos ++ lName ++ [UInt8.ofNat (r.mapq.getD 255)] ++ le 2 (binOf r.pos r.cigar)
          ++ le 2 (lOpCount b) ++ le 2 r.flags ++ le 4 (lBaseCount b) ++ bMref ++ bMpos
          ++ le 4 (toU 4 r.tlen) ++ bName ++ lCigarSrc b ++ segSeq b ++ bQual ++ segData b := by
  have hsl : r.seq.length = lBaseCount b := seq_length_eq b r hp
  have hdSeq := decSeq_seg b r hp
  have hsn : r.seq.map normBase = r.seq := by
    rw [hp.seq]; exact map_normBase_take _ _
  have hcl := lCigarSrc_length b hp.len
  obtain ⟨hkinds, hgen⟩ := packed_eq_generic (lOpCount b) _ _ hcl hlo
  have hnops : r.cigar.length = lOpCount b := (opChunks_of_lazyOps (lOpCount b) _ _ hcl hlo).2
  have hc : r.cigar.length ≤ 65535 := by
    have := headU_lt b 12 2
    unfold lOpCount at hnops
    omega
  rw [viewRecord_of_decode b r r hp hr r.data hld _ _ hcb] at h
  obtain ⟨bRef, bPos, lName, lSeq, bMref, bMpos, bName, bCig, bSeq, bQual, bData, bCg,
    p1, p2, p3, p4, p5, p6, p7, pc, ps, pq, pd, pout⟩ :=
      encodeView_parts nref _ _ _ _ _ out (decode_noOverflow b r r hp hr) h
  simp only [Bool.false_eq_true, if_false] at pd
  obtain ⟨hlseq, rfl⟩ := encSeqLen_ok _ _ p4
  rw [if_pos hc] at pc
  obtain ⟨pc, rfl⟩ := pc
  have hbCig : bCig = lCigarSrc b := writePackedCigar_ok _ _ pc
  have hbSeq : bSeq = segSeq b := writeSeqRef_packed_ok _ _ _ _ _ ps (segSeq_length b hp.len)
  have hbData : bData = segData b := writeDataRef_encoded_ok _ _ _ pd
  have eQual : encQual r.seq.length r.qual = .ok bQual := by
    rw [writeQualRef_raw, writeQualRef_generic] at pq
    exact liftIn_eq_ok pq
  subst hbCig hbSeq hbData
  have hslot : cigarSlot r.seq.length r.cigar = (r.cigar, false) := by simp [cigarSlot, hc]
  obtain ⟨_, eRef, dRef⟩ := rt_refId nref r.refId (encRefId_inv nref _ _ p1)
  obtain ⟨_, ePos, dPos⟩ := rt_pos r.pos (encPos_inv _ _ p2) hw.pos
  obtain ⟨_, eLn, dLn⟩ := rt_nameLen r.name (encNameLen_inv _ _ p3)
  obtain ⟨_, eMref, dMref⟩ := rt_refId nref r.mateRefId (encRefId_inv nref _ _ p5)
  obtain ⟨_, eMpos, dMpos⟩ := rt_pos r.matePos (encPos_inv _ _ p6) hw.matePos
  obtain ⟨_, eName, dName⟩ := rt_name r.name (encName_inv _ _ p7)
  obtain ⟨_, eQual', dQual⟩ := rt_qual r.seq.length r.qual (encQual_inv _ _ _ eQual)
  obtain ⟨_, eCig', dCig⟩ := rt_cigar r.cigar hw.kinds (encOps_inv _ _ hgen)
  rw [p1] at eRef; rw [p2] at ePos; rw [p3] at eLn; rw [p5] at eMref; rw [p6] at eMpos
  rw [p7] at eName; rw [eQual] at eQual'; rw [hgen] at eCig'
  cases eRef; cases ePos; cases eLn; cases eMref; cases eMpos; cases eName; cases eQual'; cases eCig'
  have hdd : decData (segData b ++ []).length (segData b ++ []) [] = .ok r.data := by
    rw [List.append_nil]; exact hp.data
  have hdec := decodeRaw_parts r hw (binOf r.pos r.cigar) bRef bPos lName bMref bMpos bName
    (lCigarSrc b) (segSeq b) bQual (segData b ++ []) r.cigar r.data dRef dPos dLn dMref dMpos dName dCig
    hdSeq dQual hc hlseq hdd
  simp only [hslot] at pout
  simp only [hnops, hsl] at pout
  refine ⟨?_, bRef, bPos, lName, bMref, bMpos, bName, bQual, p1, p2, p3, p5, p6, p7, eQual, ?_⟩
  · rw [pout]
    simp only [hnops, hsl, List.append_assoc] at hdec ⊢
    rw [hdec, hsn]
  · rw [pout]; simp

/-- the CIGAR came from the `CG` field: the data fields are re-encoded one by one (without `CG`), the
ops go to the CIGAR slot — or, more than 65535 of them, back to a trailing `CG` field -/
theorem reenc_record_cg (nref : Nat) (b : Bytes) (r0 r : Rec) (out : Bytes) (hp : RawParts b r0)
    (hr : resolve r0 = .ok r) (hw : WF r) (buf : Bytes) (hcb : lazyCigarBytes b = .ok (buf, true))
    (hlo : lazyOps buf = .ok r.cigar) (hbl : buf.length = r.cigar.length * 4)
    (fs : List (Tag × Val)) (hfs : fs = r0.data.filter (fun f => f.1 != CG))
    (hld : lazyData b = .ok (fs, false)) (hperm : fs.Perm r.data)
    (h : encodeView nref (viewRecord b) = .ok out) :
    decodeRaw out = .ok (rawOf { r with data := fs }, []) ∧
      resolve (rawOf { r with data := fs }) = .ok { r with data := fs } := by
  obtain ⟨e1, e2, e3, e4, e5, e6, e7, e8, e9, e10⟩ := resolve_fields r0 r hr
  have hw1 : WF { r with data := fs } := wf_perm r hw fs hperm
  have hsl : r.seq.length = lBaseCount b := by rw [e9]; exact seq_length_eq b r0 hp
  have hdSeq : ∀ rest, decSeq r.seq.length (segSeq b ++ rest) = .ok (r.seq.map normBase, rest) := by
    rw [e9]; exact decSeq_seg b r0 hp
  have hsn : r.seq.map normBase = r.seq := by
    rw [e9, hp.seq]; exact map_normBase_take _ _
  obtain ⟨hkinds, hgen⟩ := packed_eq_generic r.cigar.length _ _ hbl hlo
  rw [viewRecord_of_decode b r0 r hp hr fs hld _ _ hcb] at h
  obtain ⟨bRef, bPos, lName, lSeq, bMref, bMpos, bName, bCig, bSeq, bQual, bData, bCg,
    p1, p2, p3, p4, p5, p6, p7, pc, ps, pq, pd, pout⟩ :=
      encodeView_parts nref { r with data := fs } _ _ _ _ out (decode_noOverflow b r0 r hp hr) h
  simp only [if_true] at pd
  have hbSeq : bSeq = segSeq b := writeSeqRef_packed_ok _ _ _ _ _ ps (segSeq_length b hp.len)
  have eQual : encQual r.seq.length r.qual = .ok bQual := by
    rw [writeQualRef_raw, writeQualRef_generic] at pq
    exact liftIn_eq_ok pq
  have eData : encData fs = .ok bData := by
    simp only [writeDataRef, writeGenericData_all] at pd
    exact liftIn_eq_ok pd
  have eCig : if r.cigar.length ≤ 65535 then encOps r.cigar = .ok bCig ∧ bCg = []
      else encOps [⟨4, r.seq.length⟩, ⟨3, span r.cigar⟩] = .ok bCig ∧ encCg r.cigar = .ok bCg := by
    by_cases hc : r.cigar.length ≤ 65535
    · rw [if_pos hc] at pc ⊢
      obtain ⟨pc, hcg⟩ := pc
      have : bCig = buf := writePackedCigar_ok _ _ pc
      rw [this]
      exact ⟨hgen, hcg⟩
    · rw [if_neg hc] at pc ⊢
      exact pc
  subst hbSeq
  have hdec := decodeRaw_assembled nref { r with data := fs } hw1 bRef bPos lName lSeq bMref bMpos bName
    bCig (segSeq b) bQual bData bCg p1 p2 p3 p4 p5 p6 p7 eCig hdSeq eQual eData
  refine ⟨by rw [pout]; exact hdec, ?_⟩
  rw [resolve_rawOf _ hw1]
  congr 1
  apply norm_self
  · exact hsn
  · show fs.filter (fun f => f.1 != CG) = fs
    rw [hfs, List.filter_filter]
    simp

/-- `bam::Record` through the writer, on bytes the eager decoder accepts -/
theorem reenc_record (nref : Nat) (b : Bytes) (r0 r : Rec) (out : Bytes) (hp : RawParts b r0)
    (hr : resolve r0 = .ok r) (h : encodeView nref (viewRecord b) = .ok out) :
    ∃ fs, lazyData b = .ok (fs, false) ∧ fs.Perm r.data ∧ decode out = .ok { r with data := fs } ∧
      ((lazyCigarBytes b = .ok (lCigarSrc b, false) ∧ r = r0 ∧ fs = r.data ∧
          ∃ bRef bPos lName bMref bMpos bName bQual,
            encRefId nref r.refId = .ok bRef ∧ encPos r.pos = .ok bPos ∧ encNameLen r.name = .ok lName ∧
            encRefId nref r.mateRefId = .ok bMref ∧ encPos r.matePos = .ok bMpos ∧
            encName r.name = .ok bName ∧ encQual r.seq.length r.qual = .ok bQual ∧
            out = bRef ++ bPos ++ lName ++ [UInt8.ofNat (r.mapq.getD 255)] ++ le 2 (binOf r.pos r.cigar)
              ++ le 2 (lOpCount b) ++ le 2 r.flags ++ le 4 (lBaseCount b) ++ bMref ++ bMpos
              ++ le 4 (toU 4 r.tlen) ++ bName ++ lCigarSrc b ++ segSeq b ++ bQual ++ segData b) ∨
       ((∃ buf, lazyCigarBytes b = .ok (buf, true)) ∧
          decodeRaw out = .ok (rawOf { r with data := fs }, []))) := by
  have hw := decode_wf b r0 r hp hr
  rcases decode_cases b r0 r hp hr with ⟨hncg, hrr, hcb, hlo, hld⟩ | ⟨hcg, buf, hcb, hlo, hbl, hld, i, hi, hsw⟩
  · subst hrr
    obtain ⟨hdec, hex⟩ := reenc_record_slot nref b r out hp hr hw hcb hlo hld h
    refine ⟨r.data, hld, List.Perm.refl _, ?_, Or.inl ⟨hcb, rfl, rfl, hex⟩⟩
    simp only [decode, hdec, hr]
  · obtain ⟨fs, hfs, hperm, _⟩ := lazy_data_perm b r0 r hp hr
    have hfe : fs = r0.data.filter (fun f => f.1 != CG) := by
      rw [hld] at hfs
      simp only [L.ok.injEq, Prod.mk.injEq, and_true] at hfs
      exact hfs.symm
    obtain ⟨hdec, hres⟩ := reenc_record_cg nref b r0 r out hp hr hw buf hcb hlo hbl fs hfe hfs hperm h
    refine ⟨fs, hfs, hperm, ?_, Or.inr ⟨⟨buf, hcb⟩, hdec⟩⟩
    simp only [decode, hdec, hres]

/-! ## byte identity: what the fast paths write is the original body with two fields recomputed -/

/-- the record body with the bin (bytes 10..12) replaced and the four undefined flag bits cleared -/
def patchCore (b : Bytes) (bin : Nat) : Bytes :=
  b.take 10 ++ le 2 bin ++ (b.drop 12).take 2 ++ le 2 (lazyFlags b) ++ b.drop 16

theorem toU_fromU4 (u : Nat) (h : u < 4294967296) : toU 4 (fromU true 4 u) = u := by
  unfold toU fromU
  have c : (256 ^ 4 : Nat) = 4294967296 := by decide
  simp only [c, true_and]
  split <;> omega

theorem le_headU (b : Bytes) (off n : Nat) (h : off + n ≤ b.length) :
    le n (headU b off n) = (b.drop off).take n := by
  have hl : ((b.drop off).take n).length = n := by rw [List.length_take, List.length_drop]; omega
  have := le_leVal ((b.drop off).take n)
  rw [hl] at this
  exact this

theorem core_ref (nref u : Nat) (x : Option Nat) (out : Bytes) (hl : lazyId u = .ok x)
    (he : encRefId nref x = .ok out) : out = le 4 u := by
  unfold lazyId at hl
  split at hl
  · next h =>
    cases hl
    simp only [encRefId, toU_neg_one, Except.ok.injEq] at he
    rw [← he, h]
  · split at hl
    · cases hl
      unfold encRefId at he
      simp only at he
      split at he
      · split at he
        · simpa using he.symm
        · cases he
      · cases he
    · cases hl

theorem core_pos (u : Nat) (x : Option Nat) (out : Bytes) (hl : lazyPosOf u = .ok x)
    (he : encPos x = .ok out) : out = le 4 u := by
  unfold lazyPosOf at hl
  split at hl
  · next h =>
    cases hl
    simp only [encPos, toU_neg_one, Except.ok.injEq] at he
    rw [← he, h]
  · split at hl
    · cases hl
      unfold encPos at he
      simp only at he
      split at he
      · simpa using he.symm
      · cases he
    · cases hl

theorem le1 (x : Nat) (h : x < 256) : le 1 x = [UInt8.ofNat x] := by
  simp [le, Nat.mod_eq_of_lt h]

theorem core_name (b : Bytes) (r0 : Rec) (hp : RawParts b r0) (lName bName : Bytes)
    (h3 : encNameLen r0.name = .ok lName) (h7 : encName r0.name = .ok bName) :
    lName = le 1 (lNameLen b) ∧ bName = segName b := by
  have hlen := segName_length b hp.len
  have hlt : lNameLen b < 256 := headU_lt b 8 1
  rcases hp.name with ⟨h1, h2⟩ | ⟨h1, h2, h3'⟩
  · change segName b = [42, 0] at h1
    rw [h2] at h3 h7
    have : lNameLen b = 2 := by rw [← hlen, h1]; rfl
    rw [this, h1]
    simp only [encNameLen, encName, Except.ok.injEq] at h3 h7
    refine ⟨?_, h7.symm⟩
    have : (1 + 1 ≤ 255) := by omega
    rw [if_pos this] at h3
    simp only [Except.ok.injEq] at h3
    rw [← h3]; rfl
  · change (segName b).getLast? = some 0 at h2
    change r0.name = some (segName b).dropLast at h3'
    rw [h3'] at h3 h7
    have hne : segName b ≠ [] := by
      intro h; rw [h] at h2; simp at h2
    have hdl : (segName b).dropLast.length + 1 = lNameLen b := by
      rw [List.length_dropLast, hlen]
      have : 0 < (segName b).length := List.length_pos_iff.mpr hne
      omega
    refine ⟨?_, ?_⟩
    · unfold encNameLen at h3
      simp only [hdl] at h3
      split at h3
      · rw [le1 _ hlt]; simpa using h3.symm
      · cases h3
    · unfold encName at h7
      simp only at h7
      split at h7
      · simp only [Except.ok.injEq] at h7
        rw [← h7]
        obtain ⟨ys, hys⟩ := List.getLast?_eq_some_iff.mp h2
        rw [hys, List.dropLast_concat]
      · cases h7

theorem all_ff_replicate : ∀ s : Bytes, s.all (· == 255) = true → s = List.replicate s.length 255
  | [], _ => rfl
  | a :: r, h => by
    simp only [List.all_cons, Bool.and_eq_true, beq_iff_eq] at h
    simp only [List.length_cons, List.replicate_succ]
    rw [h.1, ← all_ff_replicate r h.2]

theorem core_qual (b : Bytes) (r0 : Rec) (hp : RawParts b r0) (bQual : Bytes)
    (h : encQual r0.seq.length r0.qual = .ok bQual) : bQual = segQual b := by
  have hsl := seq_length_eq b r0 hp
  have hql := segQual_length b hp.len
  have hq : r0.qual = (if (segQual b).all (· == 255) then [] else segQual b) := hp.qual
  rw [hsl] at h
  by_cases hall : (segQual b).all (· == 255) = true
  · rw [if_pos hall] at hq
    rw [hq] at h
    unfold encQual at h
    by_cases h0 : lBaseCount b = 0
    · have : segQual b = [] := List.length_eq_zero_iff.mp (by omega)
      simp only [h0, List.length_nil, if_true, List.all_nil, Except.ok.injEq] at h
      rw [this, h]
    · have hne : ¬ ([] : Bytes).length = lBaseCount b := by simp; omega
      simp only [hne, if_false, List.isEmpty_nil, if_true, Except.ok.injEq] at h
      rw [← h, all_ff_replicate _ hall, hql]
  · rw [if_neg hall] at hq
    rw [hq] at h
    unfold encQual at h
    simp only [hql, if_true] at h
    split at h
    · simpa using h.symm
    · cases h

theorem drop32_split (b : Bytes) (hl : lDataStart b ≤ b.length) :
    b.drop 32 = segName b ++ lCigarSrc b ++ segSeq b ++ segQual b ++ segData b := by
  have h1 := body_split b hl
  have h2 : b.take 32 ++ b.drop 32 = b.take 32 ++ (segName b ++ lCigarSrc b ++ segSeq b ++ segQual b ++ segData b) := by
    rw [List.take_append_drop]
    simp only [List.append_assoc] at h1 ⊢
    exact h1
  exact List.append_cancel_left h2

theorem head_split (b : Bytes) :
    b.take 10 = (b.drop 0).take 4 ++ (b.drop 4).take 4 ++ (b.drop 8).take 1 ++ (b.drop 9).take 1 := by
  have e1 : b.take 10 = b.take 4 ++ (b.drop 4).take 6 := List.take_add (i := 4) (j := 6)
  have e2 : (b.drop 4).take 6 = (b.drop 4).take 4 ++ ((b.drop 4).drop 4).take 2 := List.take_add (i := 4) (j := 2)
  have e3 : ((b.drop 4).drop 4).take 2 = ((b.drop 4).drop 4).take 1 ++ (((b.drop 4).drop 4).drop 1).take 1 :=
    List.take_add (i := 1) (j := 1)
  rw [e1, e2, e3]
  simp only [List.drop_drop, List.drop_zero, List.append_assoc]

theorem tail_split (b : Bytes) :
    b.drop 16 = (b.drop 16).take 4 ++ (b.drop 20).take 4 ++ (b.drop 24).take 4 ++ (b.drop 28).take 4
      ++ b.drop 32 := by
  have step : ∀ (a n : Nat), b.drop a = (b.drop a).take n ++ b.drop (a + n) := by
    intro a n
    rw [← List.drop_drop]
    exact (List.take_append_drop n (b.drop a)).symm
  have s1 := step 16 4
  have s2 := step 20 4
  have s3 := step 24 4
  have s4 := step 28 4
  simp only [List.append_assoc]
  rw [← s4, ← s3, ← s2, ← s1]

/-- the explicit output of `reenc_record_slot` is `patchCore` -/
theorem slot_output_eq_patch (nref : Nat) (b : Bytes) (r : Rec) (hp : RawParts b r)
    (bRef bPos lName bMref bMpos bName bQual : Bytes)
    (p1 : encRefId nref r.refId = .ok bRef) (p2 : encPos r.pos = .ok bPos)
    (p3 : encNameLen r.name = .ok lName) (p5 : encRefId nref r.mateRefId = .ok bMref)
    (p6 : encPos r.matePos = .ok bMpos) (p7 : encName r.name = .ok bName)
    (pq : encQual r.seq.length r.qual = .ok bQual) (bin : Nat) :
    bRef ++ bPos ++ lName ++ [UInt8.ofNat (r.mapq.getD 255)] ++ le 2 bin
      ++ le 2 (lOpCount b) ++ le 2 r.flags ++ le 4 (lBaseCount b) ++ bMref ++ bMpos
      ++ le 4 (toU 4 r.tlen) ++ bName ++ lCigarSrc b ++ segSeq b ++ bQual ++ segData b
      = patchCore b bin := by
  have hl := hp.len
  have h32 : 32 ≤ b.length := by unfold lDataStart at hl; omega
  have c1 : bRef = (b.drop 0).take 4 := by
    rw [core_ref nref _ _ _ hp.refId p1]; exact le_headU b 0 4 (by omega)
  have c2 : bPos = (b.drop 4).take 4 := by
    rw [core_pos _ _ _ hp.pos p2]; exact le_headU b 4 4 (by omega)
  obtain ⟨c3, c12⟩ := core_name b r hp lName bName p3 p7
  have c3' : lName = (b.drop 8).take 1 := by rw [c3]; exact le_headU b 8 1 (by omega)
  have c4 : [UInt8.ofNat (r.mapq.getD 255)] = (b.drop 9).take 1 := by
    rw [← le_headU b 9 1 (by omega), le1 _ (headU_lt b 9 1), hp.mapq]
    unfold lazyMapq
    split
    · next h => rw [h]; rfl
    · rfl
  have c6 : le 2 (lOpCount b) = (b.drop 12).take 2 := le_headU b 12 2 (by omega)
  have c7 : le 2 r.flags = le 2 (lazyFlags b) := by rw [hp.flags]
  have c8 : le 4 (lBaseCount b) = (b.drop 16).take 4 := le_headU b 16 4 (by omega)
  have c9 : bMref = (b.drop 20).take 4 := by
    rw [core_ref nref _ _ _ hp.mateRefId p5]; exact le_headU b 20 4 (by omega)
  have c10 : bMpos = (b.drop 24).take 4 := by
    rw [core_pos _ _ _ hp.matePos p6]; exact le_headU b 24 4 (by omega)
  have c11 : le 4 (toU 4 r.tlen) = (b.drop 28).take 4 := by
    rw [hp.tlen]
    unfold lazyTlen
    rw [toU_fromU4 _ (headU_lt b 28 4)]
    exact le_headU b 28 4 (by omega)
  have c13 : bQual = segQual b := core_qual b r hp bQual pq
  unfold patchCore
  rw [head_split, tail_split, drop32_split b hl, c1, c2, c3', c4, c6, c7, c8, c9, c10, c11, c12, c13]
  simp only [List.append_assoc]

theorem le_inj (n a c : Nat) (ha : a < 256 ^ n) (hc : c < 256 ^ n) (h : le n a = le n c) : a = c := by
  have h1 := leVal_le n a ha
  have h2 := leVal_le n c hc
  rw [h] at h1
  omega

theorem split16 (b : Bytes) :
    b = b.take 10 ++ (b.drop 10).take 2 ++ (b.drop 12).take 2 ++ (b.drop 14).take 2 ++ b.drop 16 := by
  have step : ∀ (a n : Nat), b.drop a = (b.drop a).take n ++ b.drop (a + n) := by
    intro a n
    rw [← List.drop_drop]
    exact (List.take_append_drop n (b.drop a)).symm
  have s1 := step 10 2
  have s2 := step 12 2
  have s3 := step 14 2
  simp only [List.append_assoc]
  rw [← s3, ← s2, ← s1, List.take_append_drop]

/-- re-encoding changes nothing exactly when the stored bin is the computed one and the four
undefined flag bits are clear -/
theorem patchCore_eq_iff (b : Bytes) (bin : Nat) (h : 16 ≤ b.length) (hb : bin < 65536) :
    patchCore b bin = b ↔ headU b 10 2 = bin ∧ headU b 14 2 < 4096 := by
  have e10 := le_headU b 10 2 (by omega)
  have e14 := le_headU b 14 2 (by omega)
  have h10 := headU_lt b 10 2
  have h14 := headU_lt b 14 2
  have c2 : (256 : Nat) ^ 2 = 65536 := by decide
  rw [c2] at h10 h14
  have hsp := split16 b
  unfold patchCore
  constructor
  · intro heq
    have heq := heq.trans hsp
    simp only [List.append_assoc] at heq
    have q1 := List.append_inj heq rfl
    have q2 := List.append_inj q1.2 (by simp [le_length, List.length_take, List.length_drop]; omega)
    have q3 := List.append_inj q2.2 rfl
    have q4 := List.append_inj q3.2 (by simp [le_length, List.length_take, List.length_drop]; omega)
    have r1 : le 2 bin = le 2 (headU b 10 2) := by rw [e10]; exact q2.1
    have r2 : le 2 (lazyFlags b) = le 2 (headU b 14 2) := by rw [e14]; exact q4.1
    have f1 := le_inj 2 _ _ (by rw [c2]; exact hb) (by rw [c2]; exact h10) r1
    have hfl : lazyFlags b < 65536 := by unfold lazyFlags; omega
    have f2 := le_inj 2 _ _ (by rw [c2]; exact hfl) (by rw [c2]; exact h14) r2
    unfold lazyFlags at f2
    exact ⟨f1.symm, by omega⟩
  · intro ⟨h1, h2⟩
    have : lazyFlags b = headU b 14 2 := by unfold lazyFlags; omega
    rw [this, ← h1, e10, e14]
    exact hsp.symm

theorem decode_seq_norm (b : Bytes) (r0 r : Rec) (hp : RawParts b r0) (hr : resolve r0 = .ok r) :
    r.seq.map normBase = r.seq := by
  rw [(resolve_fields r0 r hr).2.2.2.2.2.2.2.2.1, hp.seq]
  exact map_normBase_take _ _

end Noodles.Bam
