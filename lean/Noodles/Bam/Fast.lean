import Noodles.Bam.Reenc
import Noodles.Bam.RecordSpec
/-!
# The BAM writer's fast paths for a lazy `bam::Record` — selection and acceptance (C05, extension)

`Noodles/Bam/Reenc.lean` transcribes `record/codec/encoder.rs::encode` over an abstract view and
gives the view of a `bam::Record` (`viewRecord`). This file adds what the theorems of
`Props/C05Fast.lean` are stated with, and what the driver prints for the suite `c05 fast`:

* `fastRefs b` — the four answers of the hidden trait methods `cigar_ref` / `sequence_ref` /
  `quality_scores_ref` / `data_ref` of `noodles-bam/src/record.rs` (`impl sam::alignment::Record
  for Record`), as data: which raw bytes the encoder is handed to COPY (`FourBytePacked(src)`,
  `FourBitPacked(src, base_count)`, `Raw(src)`, `FieldEncoded(src)`) and when it is handed the
  iterator to RE-ENCODE instead (`DataRef::Data`, when `data.skips_cigar()`: the CIGAR was taken
  from a `CG:B,I` field);
* `Fits` made decidable (`instance : Decidable (Fits nref r)`), `cgValsOk` — the extra demand of
  the `FieldEncoded` validator (`encoder/data.rs::validate`): it looks at EVERY field, also at the
  `CG`-tagged ones that the per-field encoder (`write_generic_data`) silently skips;
* `fastFits nref b` — the acceptance condition of `fast_accepts_iff_fits`, executable: the driver
  prints it next to the model's own answer, and the harness compares it with what the real writer
  did, so the right-hand side of the theorem is tied to the real code on every run.
-/
namespace Noodles.Bam
open Noodles.Codec

/-! ## which bytes are copied -/

/-- what `bam::Record` hands to the encoder through the four `*_ref` methods -/
structure FastRefs where
  /-- `CigarRef::FourBytePacked(self.cigar().as_bytes())` -/
  cigar : Bytes
  /-- `SequenceRef::FourBitPacked(FourBitPacked::new(src, base_count))` -/
  seq : Bytes × Nat
  /-- `QualityScoresRef::Raw(self.quality_scores().as_bytes())` -/
  qual : Bytes
  /-- `DataRef::FieldEncoded(data.as_bytes())`, or `none` for `DataRef::Data(Box::new(data))` -/
  data : Option Bytes
deriving DecidableEq, Repr

/-- `record.rs`: `cigar_ref`, `sequence_ref`, `quality_scores_ref`, `data_ref` of a `bam::Record`
(`none`: one of them fails or panics — impossible after `validate`, `fast_path_selection`) -/
def fastRefs (b : Bytes) : Option FastRefs :=
  match (viewRecord b).cigarRef, (viewRecord b).seqRef, (viewRecord b).qualRef, (viewRecord b).dataRef with
  | .ok (.packed c), .ok (.packed s n), .ok (.raw q), .ok (.encoded d) => some ⟨c, (s, n), q, some d⟩
  | .ok (.packed c), .ok (.packed s n), .ok (.raw q), .ok .generic => some ⟨c, (s, n), q, none⟩
  | _, _, _, _ => none

/-! ## `Fits` is decidable -/

instance (nref : Nat) (x : Option Nat) : Decidable (refOk nref x) := by
  cases x <;> unfold refOk <;> infer_instance

instance (x : Option Nat) : Decidable (posOk x) := by
  cases x <;> unfold posOk <;> infer_instance

instance (x : Option Bytes) : Decidable (nameLenOk x) := by
  cases x <;> unfold nameLenOk <;> infer_instance

instance (x : Option Bytes) : Decidable (nameOk x) := by
  cases x <;> unfold nameOk <;> infer_instance

instance (ops : List Op) : Decidable (opsOk ops) := by unfold opsOk; infer_instance

instance (c : List Op) (s : Bytes) : Decidable (seqOk c s) := by unfold seqOk; infer_instance

instance (n : Nat) (q : Bytes) : Decidable (qualOk n q) := by unfold qualOk; infer_instance

instance (v : Val) : Decidable (valOk v) := by cases v <;> unfold valOk <;> infer_instance

instance (d : List (Tag × Val)) : Decidable (dataOk d) := by unfold dataOk; infer_instance

theorem fits_iff (nref : Nat) (r : Rec) :
    Fits nref r ↔
      refOk nref r.refId ∧ posOk r.pos ∧ nameLenOk r.name ∧ r.seq.length ≤ 4294967295 ∧
      refOk nref r.mateRefId ∧ posOk r.matePos ∧ nameOk r.name ∧
      opsOk (cigarSlot r.seq.length r.cigar).1 ∧ seqOk r.cigar r.seq ∧ qualOk r.seq.length r.qual ∧
      dataOk r.data ∧ (65535 < r.cigar.length → r.cigar.length ≤ 4294967295 ∧ opsOk r.cigar) :=
  ⟨fun h => ⟨h.refId, h.pos, h.nameLen, h.lSeq, h.mateRefId, h.matePos, h.name, h.slot, h.seq, h.qual,
      h.data, h.cg⟩,
   fun ⟨h1, h2, h3, h4, h5, h6, h7, h8, h9, h10, h11, h12⟩ => ⟨h1, h2, h3, h4, h5, h6, h7, h8, h9, h10, h11, h12⟩⟩

instance (nref : Nat) (r : Rec) : Decidable (Fits nref r) := decidable_of_iff _ (fits_iff nref r).symm

/-! ## the acceptance condition of the fast paths -/

/-- the `CG`-tagged fields carry values the per-field encoder would accept; `data::validate` (the
check of `write_field_encoded_data`) demands this, `write_generic_data` never looks at them -/
def cgValsOk (fs : List (Tag × Val)) : Prop := ∀ f ∈ fs, f.1 = CG → valOk f.2

instance (fs : List (Tag × Val)) : Decidable (cgValsOk fs) := by unfold cgValsOk; infer_instance

/-- the right-hand side of `fast_accepts_iff_fits` on the bytes `b` (`none`: the eager decoder does
not accept `b`, about which that theorem says nothing): `Fits` of the eagerly decoded record with the
data in lazy order, plus `cgValsOk` when the data bytes go through the `FieldEncoded` validator -/
def fastFits (nref : Nat) (b : Bytes) : Option Bool :=
  match decode b, lazyData b, lazyCigarBytes b with
  | .ok r, .ok (fs, false), .ok (_, skip) =>
    some (decide (Fits nref { r with data := fs }) && (skip || decide (cgValsOk fs)))
  | _, _, _ => none

end Noodles.Bam
