import Noodles.Bam.RecordProof
/-! Helper lemmas for the C05 theorems about the lazy views: the slice bounds computed by
`record_ref.rs` are the ones the sequential eager decoder walks through. -/
namespace Noodles.Bam
open Noodles.Codec

/-! ## inverting the sequential readers -/

theorem dbind_ok_inv {α β : Type} (d : Dec α) (f : α → Dec β) (s : Bytes) (y : β × Bytes)
    (h : (d >>= f) s = .ok y) : ∃ a s', d s = .ok (a, s') ∧ f a s' = .ok y := by
  rw [bind_eq] at h
  cases hd : d s with
  | error e => rw [hd] at h; cases h
  | ok p => obtain ⟨a, s'⟩ := p; rw [hd] at h; exact ⟨a, s', rfl, h⟩

theorem unle_ok (n : Nat) (s : Bytes) (v : Nat) (s' : Bytes) (h : unle n s = .ok (v, s')) :
    n ≤ s.length ∧ v = leVal (s.take n) ∧ s' = s.drop n := by
  induction n generalizing s v s' with
  | zero =>
    simp only [unle, Except.ok.injEq, Prod.mk.injEq] at h
    obtain ⟨rfl, rfl⟩ := h
    simp [leVal]
  | succ n ih =>
    cases s with
    | nil => simp [unle] at h
    | cons b r =>
      simp only [unle] at h
      cases hr : unle n r with
      | error e => simp [hr] at h
      | ok p =>
        obtain ⟨v0, r'⟩ := p
        simp only [hr, Except.ok.injEq, Prod.mk.injEq] at h
        obtain ⟨rfl, rfl⟩ := h
        obtain ⟨h1, h2, h3⟩ := ih r v0 r' hr
        refine ⟨by simp; omega, ?_, ?_⟩
        · simp [leVal, h2]
        · simp [h3]

theorem takeN_ok (n : Nat) (s a s' : Bytes) (h : takeN n s = .ok (a, s')) :
    n ≤ s.length ∧ a = s.take n ∧ s' = s.drop n := by
  unfold takeN at h
  by_cases hn : n ≤ s.length
  · simp only [hn, if_true, Except.ok.injEq, Prod.mk.injEq] at h
    obtain ⟨rfl, rfl⟩ := h
    exact ⟨hn, rfl, rfl⟩
  · simp [hn] at h

theorem decRefId_ok (s : Bytes) (x : Option Nat) (s' : Bytes) (h : decRefId s = .ok (x, s')) :
    4 ≤ s.length ∧ s' = s.drop 4 ∧ lazyId (leVal (s.take 4)) = .ok x := by
  obtain ⟨n, s1, h1, h2⟩ := dbind_ok_inv _ _ _ _ h
  obtain ⟨a, hn, hs⟩ := unle_ok 4 s n s1 h1
  rw [← hn]
  unfold lazyId
  by_cases e1 : n = 4294967295
  · simp only [e1, if_true, pure_eq, Except.ok.injEq, Prod.mk.injEq] at h2
    obtain ⟨rfl, rfl⟩ := h2
    exact ⟨a, hs, by simp [e1]⟩
  · by_cases e2 : n < 2147483648
    · simp only [e1, e2, if_true, if_false, pure_eq, Except.ok.injEq, Prod.mk.injEq] at h2
      obtain ⟨rfl, rfl⟩ := h2
      exact ⟨a, hs, by simp [e1, e2]⟩
    · simp [e1, e2] at h2

theorem decPos_ok (s : Bytes) (x : Option Nat) (s' : Bytes) (h : decPos s = .ok (x, s')) :
    4 ≤ s.length ∧ s' = s.drop 4 ∧ lazyPosOf (leVal (s.take 4)) = .ok x := by
  obtain ⟨n, s1, h1, h2⟩ := dbind_ok_inv _ _ _ _ h
  obtain ⟨a, hn, hs⟩ := unle_ok 4 s n s1 h1
  rw [← hn]
  unfold lazyPosOf
  by_cases e1 : n = 4294967295
  · simp only [e1, if_true, pure_eq, Except.ok.injEq, Prod.mk.injEq] at h2
    obtain ⟨rfl, rfl⟩ := h2
    exact ⟨a, hs, by simp [e1]⟩
  · by_cases e2 : n < 2147483648
    · simp only [e1, e2, if_true, if_false, pure_eq, Except.ok.injEq, Prod.mk.injEq] at h2
      obtain ⟨rfl, rfl⟩ := h2
      exact ⟨a, hs, by simp [e1, e2]⟩
    · simp [e1, e2] at h2

theorem decNameLen_ok (s : Bytes) (n : Nat) (s' : Bytes) (h : decNameLen s = .ok (n, s')) :
    1 ≤ s.length ∧ s' = s.drop 1 ∧ n = leVal (s.take 1) ∧ n ≠ 0 := by
  obtain ⟨m, s1, h1, h2⟩ := dbind_ok_inv _ _ _ _ h
  obtain ⟨a, hm, hs⟩ := unle_ok 1 s m s1 h1
  by_cases e : m = 0
  · simp [e] at h2
  · simp only [e, if_false, pure_eq, Except.ok.injEq, Prod.mk.injEq] at h2
    obtain ⟨rfl, rfl⟩ := h2
    exact ⟨a, hs, hm, e⟩

theorem decMapq_ok (s : Bytes) (x : Option Nat) (s' : Bytes) (h : decMapq s = .ok (x, s')) :
    1 ≤ s.length ∧ s' = s.drop 1 ∧
      x = (if leVal (s.take 1) = 255 then none else some (leVal (s.take 1))) := by
  obtain ⟨m, s1, h1, h2⟩ := dbind_ok_inv _ _ _ _ h
  obtain ⟨a, hm, hs⟩ := unle_ok 1 s m s1 h1
  simp only [pure_eq, Except.ok.injEq, Prod.mk.injEq] at h2
  obtain ⟨rfl, rfl⟩ := h2
  rw [← hm]
  exact ⟨a, hs, rfl⟩

theorem decName_ok (n : Nat) (s : Bytes) (x : Option Bytes) (s' : Bytes)
    (h : decName n s = .ok (x, s')) :
    n ≤ s.length ∧ s' = s.drop n ∧
      ((s.take n = [42, 0] ∧ x = none) ∨
       (s.take n ≠ [42, 0] ∧ (s.take n).getLast? = some 0 ∧ x = some (s.take n).dropLast)) := by
  obtain ⟨buf, s1, h1, h2⟩ := dbind_ok_inv _ _ _ _ h
  obtain ⟨a, rfl, hs⟩ := takeN_ok n s buf s1 h1
  by_cases e : s.take n = [42, 0]
  · simp only [e, if_true, pure_eq, Except.ok.injEq, Prod.mk.injEq] at h2
    obtain ⟨rfl, rfl⟩ := h2
    exact ⟨a, hs, Or.inl ⟨e, rfl⟩⟩
  · simp only [e, if_false] at h2
    cases hl : (s.take n).getLast? with
    | none => simp [hl] at h2
    | some t =>
      simp only [hl] at h2
      by_cases ht : t = 0
      · simp only [ht, if_true, pure_eq, Except.ok.injEq, Prod.mk.injEq] at h2
        obtain ⟨rfl, rfl⟩ := h2
        exact ⟨a, hs, Or.inr ⟨e, by rw [ht], rfl⟩⟩
      · simp [ht] at h2

theorem decCigar_ok (n : Nat) (s : Bytes) (ops : List Op) (s' : Bytes)
    (h : decCigar n s = .ok (ops, s')) :
    4 * n ≤ s.length ∧ s' = s.drop (4 * n) ∧ ∃ t, decN decOp n (s.take (4 * n)) = .ok (ops, t) := by
  obtain ⟨buf, s1, h1, h2⟩ := dbind_ok_inv _ _ _ _ h
  obtain ⟨a, rfl, hs⟩ := takeN_ok (4 * n) s buf s1 h1
  cases hd : decN decOp n (s.take (4 * n)) with
  | error e => simp [hd] at h2
  | ok p =>
    obtain ⟨ops', t⟩ := p
    simp only [hd, pure_eq, Except.ok.injEq, Prod.mk.injEq] at h2
    obtain ⟨rfl, rfl⟩ := h2
    exact ⟨a, hs, t, rfl⟩

theorem decSeq_ok (n : Nat) (s : Bytes) (x : Bytes) (s' : Bytes) (h : decSeq n s = .ok (x, s')) :
    (n + 1) / 2 ≤ s.length ∧ s' = s.drop ((n + 1) / 2) ∧
      x = (unpackBases (s.take ((n + 1) / 2))).take n := by
  obtain ⟨buf, s1, h1, h2⟩ := dbind_ok_inv _ _ _ _ h
  obtain ⟨a, rfl, hs⟩ := takeN_ok _ s buf s1 h1
  simp only [pure_eq, Except.ok.injEq, Prod.mk.injEq] at h2
  obtain ⟨rfl, rfl⟩ := h2
  exact ⟨a, hs, rfl⟩

theorem decQual_ok (n : Nat) (s : Bytes) (x : Bytes) (s' : Bytes) (h : decQual n s = .ok (x, s')) :
    n ≤ s.length ∧ s' = s.drop n ∧
      x = (if (s.take n).all (· == 255) then [] else s.take n) := by
  unfold decQual at h
  by_cases hn : n = 0
  · simp only [hn, if_true, pure_eq, Except.ok.injEq, Prod.mk.injEq] at h
    obtain ⟨rfl, rfl⟩ := h
    subst hn
    simp
  · simp only [hn, if_false] at h
    obtain ⟨buf, s1, h1, h2⟩ := dbind_ok_inv _ _ _ _ h
    obtain ⟨a, rfl, hs⟩ := takeN_ok _ s buf s1 h1
    by_cases ha : (s.take n).all (· == 255) = true
    · simp only [ha, if_true, pure_eq, Except.ok.injEq, Prod.mk.injEq] at h2
      obtain ⟨rfl, rfl⟩ := h2
      exact ⟨a, hs, by rw [if_pos ha]⟩
    · simp only [ha] at h2
      simp only [Bool.false_eq_true, if_false, pure_eq, Except.ok.injEq, Prod.mk.injEq] at h2
      obtain ⟨rfl, rfl⟩ := h2
      exact ⟨a, hs, by rw [if_neg ha]⟩

/-! ## what a successful eager decode says about the bytes, in terms of absolute offsets -/

/-- offset of the first data byte -/
def lDataStart (b : Bytes) : Nat :=
  32 + lNameLen b + lOpCount b * 4 + (lBaseCount b + 1) / 2 + lBaseCount b

structure RawParts (b : Bytes) (r : Rec) : Prop where
  len : lDataStart b ≤ b.length
  refId : lazyRefId b = .ok r.refId
  pos : lazyPos b = .ok r.pos
  nameLen : lNameLen b ≠ 0
  mapq : r.mapq = lazyMapq b
  flags : r.flags = lazyFlags b
  mateRefId : lazyMateRefId b = .ok r.mateRefId
  matePos : lazyMatePos b = .ok r.matePos
  tlen : r.tlen = lazyTlen b
  name : ((b.drop 32).take (lNameLen b) = [42, 0] ∧ r.name = none) ∨
    ((b.drop 32).take (lNameLen b) ≠ [42, 0] ∧ ((b.drop 32).take (lNameLen b)).getLast? = some 0 ∧
      r.name = some ((b.drop 32).take (lNameLen b)).dropLast)
  cigar : ∃ t, decN decOp (lOpCount b) ((b.drop (32 + lNameLen b)).take (4 * lOpCount b)) = .ok (r.cigar, t)
  seq : r.seq = (unpackBases ((b.drop (32 + lNameLen b + lOpCount b * 4)).take ((lBaseCount b + 1) / 2))).take (lBaseCount b)
  qual : r.qual =
    (if ((b.drop (32 + lNameLen b + lOpCount b * 4 + (lBaseCount b + 1) / 2)).take (lBaseCount b)).all (· == 255)
      then [] else (b.drop (32 + lNameLen b + lOpCount b * 4 + (lBaseCount b + 1) / 2)).take (lBaseCount b))
  data : decData (b.drop (lDataStart b)).length (b.drop (lDataStart b)) [] = .ok r.data

theorem decodeRaw_inv (b : Bytes) (r : Rec) (rest : Bytes) (h : decodeRaw b = .ok (r, rest)) :
    RawParts b r := by
  unfold decodeRaw at h
  obtain ⟨refId, s1, h1, h⟩ := dbind_ok_inv _ _ _ _ h
  obtain ⟨pos, s2, h2, h⟩ := dbind_ok_inv _ _ _ _ h
  obtain ⟨nameLen, s3, h3, h⟩ := dbind_ok_inv _ _ _ _ h
  obtain ⟨mapq, s4, h4, h⟩ := dbind_ok_inv _ _ _ _ h
  obtain ⟨bin, s5, h5, h⟩ := dbind_ok_inv _ _ _ _ h
  obtain ⟨opCount, s6, h6, h⟩ := dbind_ok_inv _ _ _ _ h
  obtain ⟨flags, s7, h7, h⟩ := dbind_ok_inv _ _ _ _ h
  obtain ⟨baseCount, s8, h8, h⟩ := dbind_ok_inv _ _ _ _ h
  obtain ⟨mref, s9, h9, h⟩ := dbind_ok_inv _ _ _ _ h
  obtain ⟨mpos, s10, h10, h⟩ := dbind_ok_inv _ _ _ _ h
  obtain ⟨tlen, s11, h11, h⟩ := dbind_ok_inv _ _ _ _ h
  obtain ⟨name, s12, h12, h⟩ := dbind_ok_inv _ _ _ _ h
  obtain ⟨cigar, s13, h13, h⟩ := dbind_ok_inv _ _ _ _ h
  obtain ⟨seq, s14, h14, h⟩ := dbind_ok_inv _ _ _ _ h
  obtain ⟨qual, s15, h15, h⟩ := dbind_ok_inv _ _ _ _ h
  obtain ⟨l1, e1, v1⟩ := decRefId_ok _ _ _ h1
  obtain ⟨l2, e2, v2⟩ := decPos_ok _ _ _ h2
  obtain ⟨l3, e3, v3, n3⟩ := decNameLen_ok _ _ _ h3
  obtain ⟨l4, e4, v4⟩ := decMapq_ok _ _ _ h4
  obtain ⟨l5, _, e5⟩ := takeN_ok _ _ _ _ h5
  obtain ⟨l6, v6, e6⟩ := unle_ok _ _ _ _ h6
  obtain ⟨l7, v7, e7⟩ := unle_ok _ _ _ _ h7
  obtain ⟨l8, v8, e8⟩ := unle_ok _ _ _ _ h8
  obtain ⟨l9, e9, v9⟩ := decRefId_ok _ _ _ h9
  obtain ⟨l10, e10, v10⟩ := decPos_ok _ _ _ h10
  obtain ⟨l11, v11, e11⟩ := unle_ok _ _ _ _ h11
  obtain ⟨l12, e12, v12⟩ := decName_ok _ _ _ _ h12
  obtain ⟨l13, e13, v13⟩ := decCigar_ok _ _ _ _ h13
  obtain ⟨l14, e14, v14⟩ := decSeq_ok _ _ _ _ h14
  obtain ⟨l15, e15, v15⟩ := decQual_ok _ _ _ _ h15
  have d2 : s2 = b.drop 8 := by rw [e2, e1, List.drop_drop]
  have d3 : s3 = b.drop 9 := by rw [e3, d2, List.drop_drop]
  have d4 : s4 = b.drop 10 := by rw [e4, d3, List.drop_drop]
  have d5 : s5 = b.drop 12 := by rw [e5, d4, List.drop_drop]
  have d6 : s6 = b.drop 14 := by rw [e6, d5, List.drop_drop]
  have d7 : s7 = b.drop 16 := by rw [e7, d6, List.drop_drop]
  have d8 : s8 = b.drop 20 := by rw [e8, d7, List.drop_drop]
  have d9 : s9 = b.drop 24 := by rw [e9, d8, List.drop_drop]
  have d10 : s10 = b.drop 28 := by rw [e10, d9, List.drop_drop]
  have d11 : s11 = b.drop 32 := by rw [e11, d10, List.drop_drop]
  have nl : nameLen = lNameLen b := by rw [v3, d2]; rfl
  have oc : opCount = lOpCount b := by rw [v6, d5]; rfl
  have bc : baseCount = lBaseCount b := by rw [v8, d7]; rfl
  have d12 : s12 = b.drop (32 + lNameLen b) := by rw [e12, d11, List.drop_drop, nl]
  have d13 : s13 = b.drop (32 + lNameLen b + lOpCount b * 4) := by
    rw [e13, d12, List.drop_drop, oc]; congr 1; omega
  have d14 : s14 = b.drop (32 + lNameLen b + lOpCount b * 4 + (lBaseCount b + 1) / 2) := by
    rw [e14, d13, List.drop_drop, bc]
  have d15 : s15 = b.drop (lDataStart b) := by
    rw [e15, d14, List.drop_drop, bc]; rfl
  cases hd : decData s15.length s15 [] with
  | error e => simp [hd] at h
  | ok data =>
    simp only [hd, Except.ok.injEq, Prod.mk.injEq] at h
    obtain ⟨rfl, _⟩ := h
    rw [d14, bc, List.length_drop] at l15
    rw [d13, bc, List.length_drop] at l14
    rw [d12, oc, List.length_drop] at l13
    rw [d11, nl, List.length_drop] at l12
    rw [d10, List.length_drop] at l11
    refine ⟨?_, ?_, ?_, ?_, ?_, ?_, ?_, ?_, ?_, ?_, ?_, ?_, ?_, ?_⟩
    · unfold lDataStart; omega
    · exact v1
    · rw [e1] at v2; exact v2
    · rw [← nl]; exact n3
    · rw [v4, d3]; rfl
    · show flags % 4096 = _
      rw [v7, d6]; rfl
    · rw [d8] at v9; exact v9
    · rw [d9] at v10; exact v10
    · show fromU true 4 tlen = _
      rw [v11, d10]; rfl
    · rw [d11, nl] at v12; exact v12
    · rw [d12, oc] at v13; exact v13
    · show seq = _
      rw [v14, d13, bc]
    · show qual = _
      rw [v15, d14, bc]
    · rw [← d15]; exact hd

/-! ## the lazy accessors, field by field -/

theorem slice_ok (s : Bytes) (a c : Nat) (h1 : a ≤ c) (h2 : c ≤ s.length) :
    slice s a c = .ok ((s.drop a).take (c - a)) := by
  simp [slice, h1, h2]

theorem lRest_length (b : Bytes) : (lRest b).length = b.length - 32 := by
  simp [lRest]

theorem unpackBases_length (s : Bytes) : (unpackBases s).length = 2 * s.length := by
  induction s with
  | nil => rfl
  | cons a t ih => simp only [unpackBases, List.length_cons, ih]; omega

theorem lazyName_eq (b : Bytes) (r : Rec) (hp : RawParts b r) : lazyName b = .ok r.name := by
  have hl := hp.len
  unfold lDataStart at hl
  unfold lazyName
  rw [slice_ok _ 0 _ (Nat.zero_le _) (by rw [lRest_length]; omega)]
  simp only [List.drop_zero, Nat.sub_zero, lRest]
  rcases hp.name with ⟨h1, h2⟩ | ⟨h1, h2, h3⟩
  · rw [if_pos h1, h2]
  · rw [if_neg h1, if_pos h2, h3]

theorem lazySeq_eq (b : Bytes) (r : Rec) (hp : RawParts b r) : lazySeq b = .ok r.seq := by
  have hl := hp.len
  unfold lDataStart at hl
  unfold lazySeq
  simp only
  rw [slice_ok _ _ _ (by omega) (by rw [lRest_length]; omega)]
  simp only [lRest, List.drop_drop]
  have e1 : lNameLen b + lOpCount b * 4 + (lBaseCount b + 1) / 2 - (lNameLen b + lOpCount b * 4)
      = (lBaseCount b + 1) / 2 := by omega
  have e2 : 32 + (lNameLen b + lOpCount b * 4) = 32 + lNameLen b + lOpCount b * 4 := by omega
  rw [e1, e2, hp.seq]
  generalize hsrc : (b.drop (32 + lNameLen b + lOpCount b * 4)).take ((lBaseCount b + 1) / 2) = src
  have hsl : src.length = (lBaseCount b + 1) / 2 := by
    rw [← hsrc, List.length_take, List.length_drop]; omega
  have hul := unpackBases_length src
  by_cases hodd : lBaseCount b < src.length * 2
  · rw [if_pos hodd]
    congr 1
    rw [List.dropLast_eq_take]
    congr 1
    omega
  · rw [if_neg hodd]
    congr 1
    rw [List.take_of_length_le (by omega)]

theorem lazyQual_eq (b : Bytes) (r : Rec) (hp : RawParts b r) : lazyQual b = .ok r.qual := by
  have hl := hp.len
  unfold lDataStart at hl
  unfold lazyQual
  simp only
  rw [slice_ok _ _ _ (by omega) (by rw [lRest_length]; omega)]
  simp only [lRest, List.drop_drop]
  have e1 : lNameLen b + lOpCount b * 4 + (lBaseCount b + 1) / 2 + lBaseCount b
      - (lNameLen b + lOpCount b * 4 + (lBaseCount b + 1) / 2) = lBaseCount b := by omega
  have e2 : 32 + (lNameLen b + lOpCount b * 4 + (lBaseCount b + 1) / 2)
      = 32 + lNameLen b + lOpCount b * 4 + (lBaseCount b + 1) / 2 := by omega
  rw [e1, e2, hp.qual]
  split <;> rfl

theorem lazyRawData_eq (b : Bytes) (hl : lDataStart b ≤ b.length) :
    lazyRawData b = .ok (b.drop (lDataStart b)) := by
  unfold lDataStart at hl
  unfold lazyRawData
  simp only
  rw [slice_ok _ _ _ (by rw [lRest_length]; omega) (Nat.le_refl _)]
  simp only [lRest, List.drop_drop]
  congr 1
  rw [List.take_of_length_le (by simp; omega)]
  congr 1
  unfold lDataStart; omega

theorem seq_length_eq (b : Bytes) (r : Rec) (hp : RawParts b r) : r.seq.length = lBaseCount b := by
  have hl := hp.len
  unfold lDataStart at hl
  rw [hp.seq, List.length_take, unpackBases_length, List.length_take, List.length_drop]
  omega

/-! ### CIGAR -/

theorem unle4_cons (a b c d : UInt8) (s : Bytes) :
    unle 4 (a :: b :: c :: d :: s) = .ok (leVal [a, b, c, d], s) := by
  simp [unle, leVal]

theorem decOp_cons (a b c d : UInt8) (s : Bytes) :
    decOp (a :: b :: c :: d :: s) =
      (match decOpNat (leVal [a, b, c, d]) with
       | .ok o => .ok (o, s)
       | .error _ => .error .invalid) := by
  simp only [decOp, bind_eq, unle4_cons]
  cases decOpNat (leVal [a, b, c, d]) <;> rfl

theorem lazyOps_of_decN (n : Nat) (s : Bytes) (ops : List Op) (t : Bytes)
    (hl : s.length = 4 * n) (h : decN decOp n s = .ok (ops, t)) : lazyOps s = .ok ops := by
  induction n generalizing s ops t with
  | zero =>
    have : s = [] := by cases s with
      | nil => rfl
      | cons _ _ => simp at hl
    subst this
    simp only [decN, Except.ok.injEq, Prod.mk.injEq] at h
    obtain ⟨rfl, _⟩ := h
    rfl
  | succ n ih =>
    match s, hl with
    | a :: b :: c :: d :: s', hl =>
      simp only [decN, decOp_cons] at h
      cases ho : decOpNat (leVal [a, b, c, d]) with
      | error e => simp [ho] at h
      | ok o =>
        simp only [ho] at h
        cases hr : decN decOp n s' with
        | error e => simp [hr] at h
        | ok p =>
          obtain ⟨os, t'⟩ := p
          simp only [hr, Except.ok.injEq, Prod.mk.injEq] at h
          obtain ⟨rfl, _⟩ := h
          have hl' : s'.length = 4 * n := by simp at hl; omega
          have := ih s' os t' hl' hr
          simp only [lazyOps, ho, this]
    | [], hl => simp at hl
    | [_], hl => simp at hl; omega
    | [_, _], hl => simp at hl; omega
    | [_, _, _], hl => simp at hl; omega

/-! ### auxiliary data -/

theorem chunkVals_nil (t : NumTy) (fuel : Nat) : chunkVals t fuel [] = [] := by
  cases fuel <;> simp [chunkVals]

theorem size_pos (t : NumTy) : 1 ≤ t.size := by cases t <;> decide

theorem decN_num_chunks (t : NumTy) (n : Nat) (s : Bytes) (vs : List Int) (s' : Bytes) (fuel : Nat)
    (hf : n ≤ fuel) (h : decN (decNum t) n s = .ok (vs, s')) :
    n * t.size ≤ s.length ∧ s' = s.drop (n * t.size) ∧ chunkVals t fuel (s.take (n * t.size)) = vs := by
  induction n generalizing s vs fuel with
  | zero =>
    simp only [decN, Except.ok.injEq, Prod.mk.injEq] at h
    obtain ⟨rfl, rfl⟩ := h
    simp [chunkVals_nil]
  | succ n ih =>
    simp only [decN] at h
    cases h1 : decNum t s with
    | error e => simp [h1] at h
    | ok p =>
      obtain ⟨v, s1⟩ := p
      simp only [h1] at h
      cases h2 : decN (decNum t) n s1 with
      | error e => simp [h2] at h
      | ok q =>
        obtain ⟨vs', s2⟩ := q
        simp only [h2, Except.ok.injEq, Prod.mk.injEq] at h
        obtain ⟨rfl, rfl⟩ := h
        obtain ⟨u, s1', hu, hv⟩ := dbind_ok_inv _ _ _ _ h1
        obtain ⟨l1, rfl, rfl⟩ := unle_ok _ _ _ _ hu
        simp only [pure_eq, Except.ok.injEq, Prod.mk.injEq] at hv
        obtain ⟨rfl, rfl⟩ := hv
        obtain ⟨fuel', rfl⟩ : ∃ k, fuel = k + 1 := ⟨fuel - 1, by omega⟩
        obtain ⟨l2, e2, c2⟩ := ih (s.drop t.size) vs' fuel' (by omega) h2
        have hsz := size_pos t
        rw [List.length_drop] at l2
        have hmul : (n + 1) * t.size = n * t.size + t.size := by rw [Nat.add_mul]; omega
        refine ⟨by rw [hmul]; omega, ?_, ?_⟩
        · rw [e2, List.drop_drop, hmul]; congr 1; omega
        · have hne : (s.take ((n + 1) * t.size)).isEmpty = false := by
            cases hs : s.take ((n + 1) * t.size) with
            | nil =>
              have : (s.take ((n + 1) * t.size)).length = 0 := by rw [hs]; rfl
              rw [List.length_take] at this
              rw [hmul] at this; omega
            | cons _ _ => rfl
          rw [chunkVals, hne]
          simp only [Bool.false_eq_true, if_false]
          rw [List.take_take, List.drop_take]
          have m1 : min t.size ((n + 1) * t.size) = t.size := by rw [hmul]; omega
          have m2 : (n + 1) * t.size - t.size = n * t.size := by rw [hmul]; omega
          rw [m1, m2, c2]

theorem lazyVal_char : lazyVal 65 = decVal 65 := rfl
theorem lazyVal_str : lazyVal 90 = decVal 90 := rfl
theorem lazyVal_hex : lazyVal 72 = decVal 72 := rfl
theorem lazyVal_arr : lazyVal 66 = (do
    let sub ← unle 1
    match NumTy.ofCode (UInt8.ofNat sub) with
    | none => fail
    | some t => do
      let n ← unle 4
      let buf ← takeN (n * t.size)
      pure (.arr t (chunkVals t buf.length buf))) := rfl

theorem lazyVal_of_decVal (ty : UInt8) (s : Bytes) (v : Val) (s' : Bytes)
    (h : decVal ty s = .ok (v, s')) : lazyVal ty s = .ok (v, s') := by
  by_cases h65 : ty = 65
  · subst h65; rw [lazyVal_char]; exact h
  by_cases h90 : ty = 90
  · subst h90; rw [lazyVal_str]; exact h
  by_cases h72 : ty = 72
  · subst h72; rw [lazyVal_hex]; exact h
  by_cases h66 : ty = 66
  · subst h66
    rw [decVal_arr] at h
    rw [lazyVal_arr]
    obtain ⟨sub, s1, hs1, h⟩ := dbind_ok_inv _ _ _ _ h
    rw [bind_eq, hs1]
    simp only
    cases ht : NumTy.ofCode (UInt8.ofNat sub) with
    | none => simp [ht] at h
    | some t =>
      simp only [ht] at h ⊢
      obtain ⟨n, s2, hs2, h⟩ := dbind_ok_inv _ _ _ _ h
      obtain ⟨vs, s3, hs3, h⟩ := dbind_ok_inv _ _ _ _ h
      simp only [pure_eq, Except.ok.injEq, Prod.mk.injEq] at h
      obtain ⟨rfl, rfl⟩ := h
      obtain ⟨l, e, c⟩ := decN_num_chunks t n s2 vs s3 (n * t.size) (by
        have := size_pos t
        calc n = n * 1 := by omega
          _ ≤ n * t.size := Nat.mul_le_mul_left n this) hs3
      rw [bind_eq, hs2]
      simp only [bind_eq, takeN, l, if_true, pure_eq]
      rw [← e]
      have : (s2.take (n * t.size)).length = n * t.size := by rw [List.length_take]; omega
      rw [this, c]
  · unfold decVal at h
    unfold lazyVal
    simp only [h65, h90, h72, h66, if_false] at h ⊢; exact h

theorem lazyField_of_decField (s : Bytes) (f : Tag × Val) (s' : Bytes)
    (h : decField s = .ok (f, s')) : lazyField s = .ok (f, s') := by
  unfold decField at h
  unfold lazyField
  obtain ⟨t, s1, h1, h⟩ := dbind_ok_inv _ _ _ _ h
  rw [bind_eq, h1]
  simp only
  match t, h with
  | [a, b], h =>
    simp only at h ⊢
    obtain ⟨ty, s2, h2, h⟩ := dbind_ok_inv _ _ _ _ h
    rw [bind_eq, h2]
    simp only
    match ty, h with
    | [ty], h =>
      simp only at h ⊢
      obtain ⟨v, s3, h3, h⟩ := dbind_ok_inv _ _ _ _ h
      rw [bind_eq, lazyVal_of_decVal ty s2 v s3 h3]
      exact h
    | [], h => simp at h
    | _ :: _ :: _, h => simp at h
  | [], h => simp at h
  | [_], h => simp at h
  | _ :: _ :: _ :: _, h => simp at h

theorem lazyFields_of_decData (fuel : Nat) (s : Bytes) (acc out : List (Tag × Val))
    (h : decData fuel s acc = .ok out) : ∃ fs, out = acc ++ fs ∧ lazyFields fuel s = (fs, false) := by
  induction fuel generalizing s acc with
  | zero =>
    simp only [decData] at h
    by_cases he : s.isEmpty = true
    · simp only [he, if_true, Except.ok.injEq] at h
      exact ⟨[], by simp [h], by simp [lazyFields, he]⟩
    · simp [he] at h
  | succ fuel ih =>
    simp only [decData] at h
    by_cases he : s.isEmpty = true
    · simp only [he, if_true, Except.ok.injEq] at h
      exact ⟨[], by simp [h], by simp [lazyFields, he]⟩
    · simp only [he] at h
      simp only [Bool.false_eq_true, if_false] at h
      cases hf : decField s with
      | error e => simp [hf] at h
      | ok p =>
        obtain ⟨⟨t, v⟩, s1⟩ := p
        simp only [hf] at h
        by_cases ht : hasTag t acc = true
        · simp [ht] at h
        · simp only [ht] at h
          simp only [Bool.false_eq_true, if_false] at h
          obtain ⟨fs, hout, hlf⟩ := ih s1 (acc ++ [(t, v)]) h
          refine ⟨(t, v) :: fs, by rw [hout]; simp, ?_⟩
          simp only [lazyFields, he, Bool.false_eq_true, if_false, lazyField_of_decField s (t, v) s1 hf, hlf]

/-! ### the placeholder test: lazy (on raw `u32`s) = eager (on decoded ops) -/

theorem decN_length {α : Type} (d : Dec α) (n : Nat) (s : Bytes) (xs : List α) (t : Bytes)
    (h : decN d n s = .ok (xs, t)) : xs.length = n := by
  induction n generalizing s xs t with
  | zero =>
    simp only [decN, Except.ok.injEq, Prod.mk.injEq] at h
    obtain ⟨rfl, _⟩ := h
    rfl
  | succ n ih =>
    simp only [decN] at h
    cases h1 : d s with
    | error e => simp [h1] at h
    | ok p =>
      obtain ⟨a, s1⟩ := p
      simp only [h1] at h
      cases h2 : decN d n s1 with
      | error e => simp [h2] at h
      | ok q =>
        obtain ⟨as, s2⟩ := q
        simp only [h2, Except.ok.injEq, Prod.mk.injEq] at h
        obtain ⟨rfl, _⟩ := h
        simp [ih s1 as s2 h2]

theorem decOpNat_ok (v : Nat) (o : Op) (h : decOpNat v = .ok o) : o.kind = v % 16 ∧ o.len = v / 16 := by
  unfold decOpNat at h
  by_cases hk : v % 16 ≤ 8
  · simp only [hk, if_true, Except.ok.injEq] at h
    subst h
    exact ⟨rfl, rfl⟩
  · simp [hk] at h

/-- the raw CIGAR slot -/
def lCigarSrc (b : Bytes) : Bytes := (b.drop (32 + lNameLen b)).take (lOpCount b * 4)

theorem lCigarSrc_length (b : Bytes) (hl : lDataStart b ≤ b.length) :
    (lCigarSrc b).length = lOpCount b * 4 := by
  unfold lDataStart at hl
  rw [lCigarSrc, List.length_take, List.length_drop]; omega

/-- `RecordRef::cigar` takes the `CG` branch exactly when the eager `resolve` would look for `CG` -/
theorem lazyCigarBytes_eq (b : Bytes) (r : Rec) (hp : RawParts b r) :
    lazyCigarBytes b =
      (if isPlaceholder r.seq.length r.cigar then
        (match getRawCigar (b.drop (lDataStart b)).length (b.drop (lDataStart b)) with
          | .ok (some buf) => .ok (buf, true)
          | _ => .ok (lCigarSrc b, false))
       else .ok (lCigarSrc b, false)) := by
  have hl := hp.len
  have hsl := lCigarSrc_length b hl
  have hseq := seq_length_eq b r hp
  obtain ⟨t, hc⟩ := hp.cigar
  have hcl := decN_length _ _ _ _ _ hc
  have hsrc : slice (lRest b) (lNameLen b) (lNameLen b + lOpCount b * 4) = .ok (lCigarSrc b) := by
    unfold lDataStart at hl
    rw [slice_ok _ _ _ (by omega) (by rw [lRest_length]; omega)]
    simp only [lRest, List.drop_drop, lCigarSrc]
    congr 2
    omega
  have e4 : 4 * lOpCount b = lOpCount b * 4 := by omega
  rw [e4] at hc
  change decN decOp (lOpCount b) (lCigarSrc b) = .ok (r.cigar, t) at hc
  unfold lazyCigarBytes
  simp only [hsrc, lazyRawData_eq b hl]
  by_cases h8 : (lCigarSrc b).length = 8
  · rw [if_pos h8]
    have hoc : lOpCount b = 2 := by omega
    rw [hoc] at hc
    match hs : lCigarSrc b, h8 with
    | [a0, a1, a2, a3, c0, c1, c2, c3], _ =>
      rw [hs] at hc
      simp only [decN, decOp_cons] at hc
      cases h0 : decOpNat (leVal [a0, a1, a2, a3]) with
      | error e => simp [h0] at hc
      | ok o0 =>
        simp only [h0, decOp_cons] at hc
        cases h1 : decOpNat (leVal [c0, c1, c2, c3]) with
        | error e => simp [h1] at hc
        | ok o1 =>
          simp only [h1, Except.ok.injEq, Prod.mk.injEq] at hc
          obtain ⟨hcig, _⟩ := hc
          obtain ⟨k0, l0⟩ := decOpNat_ok _ _ h0
          obtain ⟨k1, _⟩ := decOpNat_ok _ _ h1
          have t1 : List.take 4 [a0, a1, a2, a3, c0, c1, c2, c3] = [a0, a1, a2, a3] := rfl
          have t2 : List.take 4 (List.drop 4 [a0, a1, a2, a3, c0, c1, c2, c3]) = [c0, c1, c2, c3] := rfl
          simp only [t1, t2, ← hcig, isPlaceholder, hseq]
          by_cases hcond : leVal [a0, a1, a2, a3] % 16 = 4 ∧ leVal [a0, a1, a2, a3] / 16 = lBaseCount b
              ∧ leVal [c0, c1, c2, c3] % 16 = 3
          · have : (decide (o0 = ⟨4, lBaseCount b⟩) && decide (o1.kind = 3)) = true := by
              obtain ⟨x, y, z⟩ := hcond
              have : o0 = ⟨4, lBaseCount b⟩ := by
                cases o0; simp only [Op.mk.injEq]; simp only at k0 l0; omega
              simp [this, k1, z]
            rw [if_pos hcond, if_pos this]
            rfl
          · have : ¬ ((decide (o0 = ⟨4, lBaseCount b⟩) && decide (o1.kind = 3)) = true) := by
              intro hh
              simp only [Bool.and_eq_true, decide_eq_true_eq] at hh
              obtain ⟨x, y⟩ := hh
              apply hcond
              subst x
              simp only at k0 l0
              exact ⟨k0.symm, l0.symm, by omega⟩
            rw [if_neg hcond, if_neg this]
  · rw [if_neg h8]
    have : isPlaceholder r.seq.length r.cigar = false := by
      unfold isPlaceholder
      match hcg : r.cigar with
      | [x, y] =>
        rw [hcg] at hcl
        simp at hcl
        omega
      | [] => rfl
      | [_] => rfl
      | _ :: _ :: _ :: _ => rfl
    rw [this]
    rfl

/-! ### `get_raw_cigar` walks the same fields as the eager `read_data` -/

theorem decField_inv (s : Bytes) (a b : UInt8) (v : Val) (s' : Bytes)
    (h : decField s = .ok (((a, b), v), s')) :
    ∃ s1 s2 ty, takeN 2 s = .ok ([a, b], s1) ∧ takeN 1 s1 = .ok ([ty], s2) ∧
      decVal ty s2 = .ok (v, s') := by
  unfold decField at h
  obtain ⟨t, s1, h1, h⟩ := dbind_ok_inv _ _ _ _ h
  match t, h1, h with
  | [a', b'], h1, h =>
    simp only at h
    obtain ⟨ty, s2, h2, h⟩ := dbind_ok_inv _ _ _ _ h
    match ty, h2, h with
    | [ty], h2, h =>
      simp only at h
      obtain ⟨v', s3, h3, h⟩ := dbind_ok_inv _ _ _ _ h
      simp only [pure_eq, Except.ok.injEq, Prod.mk.injEq] at h
      obtain ⟨⟨⟨rfl, rfl⟩, rfl⟩, rfl⟩ := h
      exact ⟨s1, s2, ty, h1, h2, h3⟩
    | [], _, h => simp at h
    | _ :: _ :: _, _, h => simp at h
  | [], _, h => simp at h
  | [_], _, h => simp at h
  | _ :: _ :: _ :: _, _, h => simp at h

theorem decVal_arr_inv (s : Bytes) (v : Val) (s' : Bytes) (h : decVal 66 s = .ok (v, s')) :
    ∃ sub s3 t n s4 vs, unle 1 s = .ok (sub, s3) ∧ NumTy.ofCode (UInt8.ofNat sub) = some t ∧
      unle 4 s3 = .ok (n, s4) ∧ decN (decNum t) n s4 = .ok (vs, s') ∧ v = .arr t vs := by
  rw [decVal_arr] at h
  obtain ⟨sub, s3, hs1, h⟩ := dbind_ok_inv _ _ _ _ h
  cases ht : NumTy.ofCode (UInt8.ofNat sub) with
  | none => simp [ht] at h
  | some t =>
    simp only [ht] at h
    obtain ⟨n, s4, hs2, h⟩ := dbind_ok_inv _ _ _ _ h
    obtain ⟨vs, s5, hs3, h⟩ := dbind_ok_inv _ _ _ _ h
    simp only [pure_eq, Except.ok.injEq, Prod.mk.injEq] at h
    obtain ⟨rfl, rfl⟩ := h
    exact ⟨sub, s3, t, n, s4, vs, hs1, ht, hs2, hs3, rfl⟩

theorem decVal_not_arr (ty : UInt8) (s : Bytes) (v : Val) (s' : Bytes) (hty : ty ≠ 66)
    (h : decVal ty s = .ok (v, s')) : ∀ t vs, v ≠ .arr t vs := by
  intro t vs hv
  subst hv
  by_cases h65 : ty = 65
  · subst h65
    rw [decVal_char] at h
    obtain ⟨c, s1, _, h⟩ := dbind_ok_inv _ _ _ _ h
    match c, h with
    | [c], h => simp at h
    | [], h => simp at h
    | _ :: _ :: _, h => simp at h
  by_cases h90 : ty = 90
  · subst h90
    rw [decVal_str] at h
    obtain ⟨c, s1, _, h⟩ := dbind_ok_inv _ _ _ _ h
    simp at h
  by_cases h72 : ty = 72
  · subst h72
    rw [decVal_hex] at h
    obtain ⟨c, s1, _, h⟩ := dbind_ok_inv _ _ _ _ h
    simp at h
  · unfold decVal at h
    simp only [h65, h90, h72, hty, if_false] at h
    cases ht : NumTy.ofCode ty with
    | none => simp [ht] at h
    | some t' =>
      simp only [ht] at h
      obtain ⟨c, s1, _, h⟩ := dbind_ok_inv _ _ _ _ h
      simp at h

/-- the field `get_raw_cigar` stops at: tag `CG` and a `B:I` (UInt32) array value; a `CG` field of
any other type is walked over like every other field -/
def isCgI (f : Tag × Val) : Bool :=
  f.1 == CG && (match f.2 with | .arr .I _ => true | _ => false)

theorem isCgI_arr (tag : Tag) (t : NumTy) (vs : List Int) :
    isCgI (tag, .arr t vs) = true ↔ tag = CG ∧ t = .I := by
  cases t <;> simp [isCgI]

theorem isCgI_not_arr (tag : Tag) (v : Val) (h : ∀ t vs, v ≠ .arr t vs) : isCgI (tag, v) = false := by
  cases v with
  | arr t vs => exact absurd rfl (h t vs)
  | char c => simp [isCgI]
  | num t x => simp [isCgI]
  | str x => simp [isCgI]
  | hex x => simp [isCgI]

theorem isCgI_tag (f : Tag × Val) (h : isCgI f = true) : (f.1 == CG) = true := by
  simp only [isCgI, Bool.and_eq_true] at h
  exact h.1

/-- what `get_raw_cigar` must answer, given the decoded fields it walks over: the raw bytes of the
first `CG:B:I` field, `none` if there is none -/
def cgSpec (fs : List (Tag × Val)) (res : Except Err (Option Bytes)) : Prop :=
  match fs.find? isCgI with
  | none => res = .ok none
  | some f =>
    ∃ vs buf, f.2 = .arr .I vs ∧ res = .ok (some buf) ∧ buf.length = vs.length * 4 ∧
      chunkVals .I buf.length buf = vs

theorem getRawCigar_of_decData (fuel : Nat) (s : Bytes) (acc out : List (Tag × Val))
    (h : decData fuel s acc = .ok out) :
    ∃ fs, out = acc ++ fs ∧ cgSpec fs (getRawCigar fuel s) := by
  induction fuel generalizing s acc with
  | zero =>
    simp only [decData] at h
    by_cases he : s.isEmpty = true
    · simp only [he, if_true, Except.ok.injEq] at h
      exact ⟨[], by simp [h], by simp [cgSpec, getRawCigar]⟩
    · simp [he] at h
  | succ fuel ih =>
    simp only [decData] at h
    by_cases he : s.isEmpty = true
    · simp only [he, if_true, Except.ok.injEq] at h
      exact ⟨[], by simp [h], by simp [cgSpec, getRawCigar, he]⟩
    · simp only [he] at h
      simp only [Bool.false_eq_true, if_false] at h
      cases hf : decField s with
      | error e => simp [hf] at h
      | ok p =>
        obtain ⟨⟨⟨a, b⟩, v⟩, s'⟩ := p
        simp only [hf] at h
        by_cases ht : hasTag (a, b) acc = true
        · simp [ht] at h
        · simp only [ht] at h
          simp only [Bool.false_eq_true, if_false] at h
          obtain ⟨fs, hout, hspec⟩ := ih s' (acc ++ [((a, b), v)]) h
          refine ⟨((a, b), v) :: fs, by rw [hout]; simp, ?_⟩
          obtain ⟨s1, s2, ty, h1, h2, h3⟩ := decField_inv s a b v s' hf
          have hne : s.isEmpty = false := by simpa using he
          by_cases h66 : ty = 66
          · subst h66
            obtain ⟨sub, s3, t, n, s4, vs, hu1, hoc, hu4, hdn, rfl⟩ := decVal_arr_inv s2 v s' h3
            obtain ⟨l, e, c⟩ := decN_num_chunks t n s4 vs s' (n * t.size) (by
              have := size_pos t
              calc n = n * 1 := by omega
                _ ≤ n * t.size := Nat.mul_le_mul_left n this) hdn
            have htk : takeN (n * t.size) s4 = .ok (s4.take (n * t.size), s') := by
              simp [takeN, l, e]
            have hstep : getRawCigar (fuel + 1) s =
                (if (a, b) = CG ∧ t = .I then .ok (some (s4.take (n * t.size)))
                 else getRawCigar fuel s') := by
              simp only [getRawCigar, hne, Bool.false_eq_true, if_false, h1, h2, if_true, hu1, hoc, hu4, htk]
            by_cases hcg : (a, b) = CG ∧ t = .I
            · rw [hstep, if_pos hcg]
              obtain ⟨hcg1, rfl⟩ := hcg
              have hlen : (s4.take (n * NumTy.size .I)).length = n * 4 := by
                rw [List.length_take]; simp only [NumTy.size] at l ⊢; omega
              have hvl : vs.length = n := decN_length _ _ _ _ _ hdn
              have : List.find? isCgI (((a, b), Val.arr .I vs) :: fs) = some ((a, b), Val.arr .I vs) := by
                rw [List.find?_cons_of_pos]
                exact (isCgI_arr _ _ _).2 ⟨hcg1, rfl⟩
              simp only [cgSpec, this]
              refine ⟨vs, _, rfl, rfl, by rw [hlen, hvl], ?_⟩
              rw [hlen]
              simpa only [NumTy.size] using c
            · rw [hstep, if_neg hcg]
              have hno : isCgI ((a, b), Val.arr t vs) = false := by
                cases hh : isCgI ((a, b), Val.arr t vs) with
                | false => rfl
                | true => exact absurd ((isCgI_arr _ _ _).1 hh) hcg
              have : List.find? isCgI (((a, b), Val.arr t vs) :: fs) = List.find? isCgI fs := by
                rw [List.find?_cons_of_neg]
                simp [hno]
              simp only [cgSpec, this]
              exact hspec
          · have hlv := lazyVal_of_decVal ty s2 v s' h3
            have hstep : getRawCigar (fuel + 1) s = getRawCigar fuel s' := by
              simp only [getRawCigar, hne, Bool.false_eq_true, if_false, h1, h2, h66, hlv]
            rw [hstep]
            have hno : isCgI ((a, b), v) = false :=
              isCgI_not_arr _ _ (decVal_not_arr ty s2 v s' h66 h3)
            have : List.find? isCgI (((a, b), v) :: fs) = List.find? isCgI fs := by
              rw [List.find?_cons_of_neg]
              simp [hno]
            simp only [cgSpec, this]
            exact hspec

/-! ### the lazy CIGAR and data against the eager decode -/

theorem findIdx_none_find {α : Type} (p : α → Bool) (l : List α) (h : l.findIdx? p = none) :
    l.find? p = none := by
  rw [List.findIdx?_eq_none_iff] at h
  rw [List.find?_eq_none]
  intro x hx
  simp [h x hx]

theorem findIdx_some_find {α : Type} (p : α → Bool) (l : List α) (i : Nat)
    (h : l.findIdx? p = some i) : ∃ x, l[i]? = some x ∧ l.find? p = some x := by
  induction l generalizing i with
  | nil => simp at h
  | cons a t ih =>
    rw [List.findIdx?_cons] at h
    by_cases hp : p a = true
    · simp only [hp, if_true, Option.some.injEq] at h
      subst h
      exact ⟨a, by simp, by simp [hp]⟩
    · simp only [hp] at h
      simp only [Bool.false_eq_true, if_false, Option.map_eq_some_iff] at h
      obtain ⟨j, hj, rfl⟩ := h
      obtain ⟨x, hx1, hx2⟩ := ih j hj
      exact ⟨x, by simpa using hx1, by simp [hp, hx2]⟩

/-- no field with the weaker property, so none with the stronger one -/
theorem find_none_of_imp {α : Type} (p q : α → Bool) (l : List α) (hq : ∀ x, q x = true → p x = true)
    (h : l.find? p = none) : l.find? q = none := by
  rw [List.find?_eq_none] at h ⊢
  intro x hx hqx
  exact h x hx (hq x hqx)

/-- the first field with the weaker property has the stronger one: it is also the first with the
stronger one -/
theorem find_some_of_imp {α : Type} (p q : α → Bool) (l : List α) (x : α)
    (hq : ∀ y, q y = true → p y = true) (h : l.find? p = some x) (hx : q x = true) :
    l.find? q = some x := by
  induction l with
  | nil => simp at h
  | cons a t ih =>
    by_cases hpa : p a = true
    · rw [List.find?_cons_of_pos hpa, Option.some.injEq] at h
      subst h
      rw [List.find?_cons_of_pos hx]
    · rw [List.find?_cons_of_neg hpa] at h
      have hqa : ¬ q a = true := fun hh => hpa (hq a hh)
      rw [List.find?_cons_of_neg hqa]
      exact ih h

theorem fromU_false (n u : Nat) : fromU false n u = (u : Int) := by simp [fromU]

theorem lazyOps_of_chunks (n : Nat) (buf : Bytes) (fuel : Nat) (ops : List Op)
    (hl : buf.length = n * 4) (hf : n ≤ fuel)
    (h : opsOfNats (chunkVals .I fuel buf) = .ok ops) : lazyOps buf = .ok ops := by
  induction n generalizing buf fuel ops with
  | zero =>
    have : buf = [] := by cases buf with
      | nil => rfl
      | cons _ _ => simp at hl
    subst this
    rw [chunkVals_nil] at h
    simp only [opsOfNats, Except.ok.injEq] at h
    subst h
    rfl
  | succ n ih =>
    match buf, hl with
    | a :: b :: c :: d :: rest, hl =>
      obtain ⟨fuel', rfl⟩ : ∃ k, fuel = k + 1 := ⟨fuel - 1, by omega⟩
      have hne : (a :: b :: c :: d :: rest).isEmpty = false := rfl
      have t4 : List.take 4 (a :: b :: c :: d :: rest) = [a, b, c, d] := rfl
      have d4 : List.drop 4 (a :: b :: c :: d :: rest) = rest := rfl
      simp only [chunkVals, hne, Bool.false_eq_true, if_false, NumTy.size, NumTy.signed, t4, d4,
        fromU_false, opsOfNats, Int.toNat_natCast] at h
      cases ho : decOpNat (leVal [a, b, c, d]) with
      | error e => simp [ho] at h
      | ok o =>
        simp only [ho] at h
        cases hr : opsOfNats (chunkVals .I fuel' rest) with
        | error e => simp [hr] at h
        | ok os =>
          simp only [hr, Except.ok.injEq] at h
          subst h
          have hl' : rest.length = n * 4 := by simp at hl; omega
          have := ih rest fuel' os hl' (by omega) hr
          simp only [lazyOps, ho, this]
    | [], hl => simp at hl
    | [_], hl => simp at hl; omega
    | [_, _], hl => simp at hl; omega
    | [_, _, _], hl => simp at hl; omega

theorem decode_inv (b : Bytes) (r : Rec) (h : decode b = .ok r) :
    ∃ r0, RawParts b r0 ∧ resolve r0 = .ok r := by
  unfold decode at h
  cases hd : decodeRaw b with
  | error e => simp [hd] at h
  | ok p =>
    obtain ⟨r0, rest⟩ := p
    simp only [hd] at h
    exact ⟨r0, decodeRaw_inv b r0 rest hd, h⟩

/-- The eager decode took the CIGAR from the `CG` field (`resolve` did something). -/
def cgResolved (r0 : Rec) : Prop :=
  isPlaceholder r0.seq.length r0.cigar = true ∧ (r0.data.findIdx? (fun f => f.1 == CG)).isSome

theorem lazyCigar_and_data (b : Bytes) (r0 r : Rec) (hp : RawParts b r0) (hr : resolve r0 = .ok r) :
    lazyCigar b = .ok r.cigar ∧
      ((¬ cgResolved r0 ∧ lazyData b = .ok (r.data, false)) ∨
       (cgResolved r0 ∧ lazyData b = .ok (r0.data.filter (fun f => f.1 != CG), false) ∧
          ∃ i, r0.data.findIdx? (fun f => f.1 == CG) = some i ∧ r.data = swapRemove i r0.data)) := by
  have hl := hp.len
  have hsl := lCigarSrc_length b hl
  obtain ⟨t, hc⟩ := hp.cigar
  have e4 : 4 * lOpCount b = lOpCount b * 4 := by omega
  rw [e4] at hc
  change decN decOp (lOpCount b) (lCigarSrc b) = .ok (r0.cigar, t) at hc
  have hsrcOps : lazyOps (lCigarSrc b) = .ok r0.cigar :=
    lazyOps_of_decN (lOpCount b) (lCigarSrc b) r0.cigar t (by rw [hsl]; omega) hc
  obtain ⟨fs, hfs, hspec⟩ := getRawCigar_of_decData _ _ [] _ hp.data
  simp only [List.nil_append] at hfs
  subst hfs
  obtain ⟨fs', hfs', hlf⟩ := lazyFields_of_decData _ _ [] _ hp.data
  simp only [List.nil_append] at hfs'
  subst hfs'
  have hcb := lazyCigarBytes_eq b r0 hp
  unfold resolve at hr
  by_cases hph : isPlaceholder r0.seq.length r0.cigar = true
  · rw [if_pos hph] at hr hcb
    cases hfi : r0.data.findIdx? (fun f => f.1 == CG) with
    | none =>
      simp only [hfi, Except.ok.injEq] at hr
      subst hr
      have hfind := find_none_of_imp _ isCgI _ isCgI_tag (findIdx_none_find _ _ hfi)
      simp only [cgSpec, hfind] at hspec
      rw [hspec] at hcb
      simp only at hcb
      refine ⟨by simp only [lazyCigar, hcb, hsrcOps], Or.inl ⟨?_, ?_⟩⟩
      · intro hcr; have := hcr.2; simp [hfi] at this
      · simp only [lazyData, lazyRawData_eq b hl, hcb, hlf]
    | some i =>
      simp only [hfi] at hr
      obtain ⟨x, hx1, hx2⟩ := findIdx_some_find _ _ _ hfi
      rw [hx1] at hr
      obtain ⟨tag, v⟩ := x
      cases v with
      | arr ty vs =>
        cases ty with
        | I =>
          simp only at hr
          cases hops : opsOfNats vs with
          | error e => simp [hops] at hr
          | ok ops =>
            simp only [hops, Except.ok.injEq] at hr
            subst hr
            have hfind : r0.data.find? isCgI = some (tag, Val.arr .I vs) :=
              find_some_of_imp _ isCgI _ _ isCgI_tag hx2
                ((isCgI_arr _ _ _).2 ⟨by simpa using List.find?_some hx2, rfl⟩)
            simp only [cgSpec, hfind] at hspec
            obtain ⟨vs', buf, hvs, hbuf, hblen, hchunks⟩ := hspec
            simp only [Val.arr.injEq, true_and] at hvs
            subst hvs
            rw [hbuf] at hcb
            simp only at hcb
            rw [← hchunks] at hops
            have hlo := lazyOps_of_chunks vs.length buf buf.length ops hblen
              (by rw [hblen]; omega) hops
            refine ⟨by simp only [lazyCigar, hcb, hlo], Or.inr ⟨⟨hph, by simp [hfi]⟩, ?_, i, rfl, rfl⟩⟩
            simp only [lazyData, lazyRawData_eq b hl, hcb, hlf]
        | c => simp at hr
        | C => simp at hr
        | s => simp at hr
        | S => simp at hr
        | i => simp at hr
        | f => simp at hr
      | char c => simp at hr
      | num t x => simp at hr
      | str x => simp at hr
      | hex x => simp at hr
  · have hph' : isPlaceholder r0.seq.length r0.cigar = false := by simpa using hph
    rw [hph'] at hr hcb
    simp only [Bool.false_eq_true, if_false, Except.ok.injEq] at hr hcb
    subst hr
    refine ⟨by simp only [lazyCigar, hcb, hsrcOps], Or.inl ⟨?_, ?_⟩⟩
    · intro hcr; exact hph hcr.1
    · simp only [lazyData, lazyRawData_eq b hl, hcb, hlf]

/-! ## `validate` and the slice bounds -/

theorem validate_inv (b : Bytes) (h : validate b = .ok ()) : lDataStart b ≤ b.length := by
  unfold validate at h
  by_cases h32 : b.length < 32
  · simp [h32] at h
  · simp only [h32, if_false] at h
    cases h1 : unle 1 (b.drop 8) with
    | error e => simp [h1] at h
    | ok p1 =>
      obtain ⟨nl, r1⟩ := p1
      cases h2 : unle 2 (b.drop 12) with
      | error e => simp [h1, h2] at h
      | ok p2 =>
        obtain ⟨oc, r2⟩ := p2
        cases h3 : unle 4 (b.drop 16) with
        | error e => simp [h1, h2, h3] at h
        | ok p3 =>
          obtain ⟨bc, r3⟩ := p3
          simp only [h1, h2, h3] at h
          obtain ⟨_, e1, _⟩ := unle_ok _ _ _ _ h1
          obtain ⟨_, e2, _⟩ := unle_ok _ _ _ _ h2
          obtain ⟨_, e3, _⟩ := unle_ok _ _ _ _ h3
          have a1 : nl = lNameLen b := e1
          have a2 : oc = lOpCount b := e2
          have a3 : bc = lBaseCount b := e3
          by_cases hlen : b.length < 32 + nl + oc * 4 + (bc + 1) / 2 + bc
          · simp [hlen] at h
          · unfold lDataStart; rw [← a1, ← a2, ← a3]; omega

theorem validate_of_decode (b : Bytes) (r : Rec) (h : decode b = .ok r) : validate b = .ok () := by
  obtain ⟨r0, hp, _⟩ := decode_inv b r h
  have hl := hp.len
  unfold lDataStart at hl
  have h32 : ¬ b.length < 32 := by omega
  unfold validate
  rw [if_neg h32]
  have u1 : unle 1 (b.drop 8) = .ok (lNameLen b, (b.drop 8).drop 1) := by
    have : (b.drop 8).length = b.length - 8 := List.length_drop
    match hb : b.drop 8, this with
    | x :: t, _ => simp [unle, lNameLen, headU, hb, leVal]
    | [], hh => simp at hh; omega
  have u2 : unle 2 (b.drop 12) = .ok (lOpCount b, (b.drop 12).drop 2) := by
    have : (b.drop 12).length = b.length - 12 := List.length_drop
    match hb : b.drop 12, this with
    | x :: y :: t, _ => simp [unle, lOpCount, headU, hb, leVal]
    | [], hh => simp at hh; omega
    | [_], hh => simp at hh; omega
  have u3 : unle 4 (b.drop 16) = .ok (lBaseCount b, (b.drop 16).drop 4) := by
    have : (b.drop 16).length = b.length - 16 := List.length_drop
    match hb : b.drop 16, this with
    | x :: y :: z :: w :: t, _ => simp [unle, lBaseCount, headU, hb, leVal]
    | [], hh => simp at hh; omega
    | [_], hh => simp at hh; omega
    | [_, _], hh => simp at hh; omega
    | [_, _, _], hh => simp at hh; omega
  simp only [u1, u2, u3]
  rw [if_neg (by omega)]

theorem lazyOps_ne_panic (n : Nat) (s : Bytes) (hl : s.length = n * 4) : lazyOps s ≠ .panic := by
  induction n generalizing s with
  | zero =>
    have : s = [] := by cases s with
      | nil => rfl
      | cons _ _ => simp at hl
    subst this
    simp [lazyOps]
  | succ n ih =>
    match s, hl with
    | a :: b :: c :: d :: rest, hl =>
      have hl' : rest.length = n * 4 := by simp at hl; omega
      have := ih rest hl'
      simp only [lazyOps]
      cases h1 : decOpNat (leVal [a, b, c, d]) <;> cases h2 : lazyOps rest <;> simp_all
    | [], hl => simp at hl
    | [_], hl => simp at hl; omega
    | [_, _], hl => simp at hl; omega
    | [_, _, _], hl => simp at hl; omega

theorem takeN_ok_length (n : Nat) (s buf r : Bytes) (h : takeN n s = .ok (buf, r)) :
    buf.length = n := by
  unfold takeN at h
  split at h
  · simp only [Except.ok.injEq, Prod.mk.injEq] at h
    obtain ⟨rfl, _⟩ := h
    rw [List.length_take]; omega
  · simp at h

/-- FOR ANY BYTES: what `get_raw_cigar` returns is the payload of a `B:I` array, `4 * n` bytes -/
theorem getRawCigar_some_len (fuel : Nat) (s buf : Bytes)
    (h : getRawCigar fuel s = .ok (some buf)) : ∃ n, buf.length = n * 4 := by
  fun_induction getRawCigar fuel s
  all_goals first
    | (simp at h; done)
    | (rename_i ih; exact ih h)
    | skip
  next n _ _ buf' _ htk hcg _ =>
    simp only [Except.ok.injEq, Option.some.injEq] at h
    subst h
    obtain ⟨_, rfl⟩ := hcg
    exact ⟨n, takeN_ok_length _ _ _ _ htk⟩

/-- After `validate`, every slice a lazy accessor takes is inside the buffer, and `Cigar::iter`
never reaches its `unreachable!()`: the bytes it iterates are either the `4 * n_cigar_op` bytes of
the CIGAR slot or the payload of a `CG:B:I` array (`4 * count` bytes) — `get_raw_cigar` walks over a
`CG` field of any other type (fix "bam record cigar panicked on a CG tag that is not a u32 array";
before it, `CG:B,C` with three elements was taken as the CIGAR and panicked). -/
theorem lazy_in_bounds_of_len (b : Bytes) (hl : lDataStart b ≤ b.length) :
    lazyName b ≠ .panic ∧ lazySeq b ≠ .panic ∧ lazyQual b ≠ .panic ∧ lazyRawData b ≠ .panic ∧
    lazyCigarBytes b ≠ .panic ∧ lazyData b ≠ .panic ∧ lazyCigar b ≠ .panic := by
  have hl' := hl
  unfold lDataStart at hl'
  have hrd := lazyRawData_eq b hl
  have hsrc : slice (lRest b) (lNameLen b) (lNameLen b + lOpCount b * 4) = .ok (lCigarSrc b) := by
    rw [slice_ok _ _ _ (by omega) (by rw [lRest_length]; omega)]
    simp only [lRest, List.drop_drop, lCigarSrc]
    congr 2
    omega
  have hsl := lCigarSrc_length b hl
  have hcb : (∃ buf n, lazyCigarBytes b = .ok (buf, true) ∧ buf.length = n * 4) ∨
      lazyCigarBytes b = .ok (lCigarSrc b, false) := by
    unfold lazyCigarBytes
    simp only [hsrc, hrd]
    split
    · split
      · split
        · next buf h =>
          obtain ⟨n, hn⟩ := getRawCigar_some_len _ _ _ h
          exact Or.inl ⟨_, n, rfl, hn⟩
        · exact Or.inr rfl
      · exact Or.inr rfl
    · exact Or.inr rfl
  refine ⟨?_, ?_, ?_, ?_, ?_, ?_, ?_⟩
  · unfold lazyName
    rw [slice_ok _ 0 _ (Nat.zero_le _) (by rw [lRest_length]; omega)]
    simp only
    split
    · simp
    · split <;> simp
  · unfold lazySeq
    simp only
    rw [slice_ok _ _ _ (by omega) (by rw [lRest_length]; omega)]
    simp only
    split <;> simp
  · unfold lazyQual
    simp only
    rw [slice_ok _ _ _ (by omega) (by rw [lRest_length]; omega)]
    simp only
    split <;> simp
  · rw [hrd]; simp
  · rcases hcb with ⟨buf, n, h, _⟩ | h <;> rw [h] <;> simp
  · unfold lazyData
    rw [hrd]
    simp only
    rcases hcb with ⟨buf, n, h, _⟩ | h <;> rw [h] <;> simp
  · intro hp
    rcases hcb with ⟨buf, n, h, hn⟩ | h
    · have := lazyOps_ne_panic n buf hn
      simp only [lazyCigar, h] at hp
      exact this hp
    · have := lazyOps_ne_panic (lOpCount b) (lCigarSrc b) hsl
      simp only [lazyCigar, h] at hp
      exact this hp

/-! ## `resolve` only touches the CIGAR and the data -/

theorem resolve_fields (r0 r : Rec) (h : resolve r0 = .ok r) :
    r.name = r0.name ∧ r.flags = r0.flags ∧ r.refId = r0.refId ∧ r.pos = r0.pos ∧
    r.mapq = r0.mapq ∧ r.mateRefId = r0.mateRefId ∧ r.matePos = r0.matePos ∧ r.tlen = r0.tlen ∧
    r.seq = r0.seq ∧ r.qual = r0.qual := by
  unfold resolve at h
  split at h
  · split at h
    · simp only [Except.ok.injEq] at h; subst h; simp
    · split at h
      · split at h
        · simp at h
        · simp only [Except.ok.injEq] at h; subst h; simp
      · simp at h
  · simp only [Except.ok.injEq] at h; subst h; simp

/-! ## the stored bin is at bytes 10..12 of what the writer emits -/

theorem leVal_le (n k : Nat) (h : k < 256 ^ n) : leVal (le n k) = k := by
  have h1 := unle_le n k h []
  rw [List.append_nil] at h1
  obtain ⟨_, h2, _⟩ := unle_ok _ _ _ _ h1
  have : (le n k).take n = le n k := List.take_of_length_le (by rw [le_length]; exact Nat.le_refl _)
  rw [this] at h2
  exact h2.symm

theorem encRefId_len (nref : Nat) (x : Option Nat) (b : Bytes) (h : encRefId nref x = .ok b) :
    b.length = 4 := by
  cases x with
  | none => simp only [encRefId, Except.ok.injEq] at h; subst h; exact le_length 4 _
  | some id =>
    simp only [encRefId] at h
    split at h
    · split at h
      · simp only [Except.ok.injEq] at h; subst h; exact le_length 4 _
      · simp at h
    · simp at h

theorem encPos_len (x : Option Nat) (b : Bytes) (h : encPos x = .ok b) : b.length = 4 := by
  cases x with
  | none => simp only [encPos, Except.ok.injEq] at h; subst h; exact le_length 4 _
  | some p =>
    simp only [encPos] at h
    split at h
    · simp only [Except.ok.injEq] at h; subst h; exact le_length 4 _
    · simp at h

theorem encNameLen_len (x : Option Bytes) (b : Bytes) (h : encNameLen x = .ok b) : b.length = 1 := by
  cases x with
  | none =>
    simp only [encNameLen] at h
    split at h
    · simp only [Except.ok.injEq] at h; subst h; rfl
    · simp at h
  | some s =>
    simp only [encNameLen] at h
    split at h
    · simp only [Except.ok.injEq] at h; subst h; rfl
    · simp at h

theorem encode_bin_field (nref : Nat) (r : Rec) (b : Bytes) (h : encode nref r = .ok b) :
    headU b 10 2 = binOf r.pos r.cigar % 65536 ∧ 12 ≤ b.length := by
  unfold encode at h
  obtain ⟨bRef, hRef, h⟩ := bind_ok_inv _ _ _ h
  obtain ⟨bPos, hPos, h⟩ := bind_ok_inv _ _ _ h
  obtain ⟨bLn, hLn, h⟩ := bind_ok_inv _ _ _ h
  obtain ⟨bLs, hLs, h⟩ := bind_ok_inv _ _ _ h
  obtain ⟨bMref, hMref, h⟩ := bind_ok_inv _ _ _ h
  obtain ⟨bMpos, hMpos, h⟩ := bind_ok_inv _ _ _ h
  obtain ⟨bName, hName, h⟩ := bind_ok_inv _ _ _ h
  obtain ⟨bCig, hCig, h⟩ := bind_ok_inv _ _ _ h
  obtain ⟨bSeq, hSeq, h⟩ := bind_ok_inv _ _ _ h
  obtain ⟨bQual, hQual, h⟩ := bind_ok_inv _ _ _ h
  obtain ⟨bData, hData, h⟩ := bind_ok_inv _ _ _ h
  obtain ⟨bCg, hCg, h⟩ := bind_ok_inv _ _ _ h
  simp only [pure, Except.pure, Except.ok.injEq] at h
  have l1 := encRefId_len _ _ _ hRef
  have l2 := encPos_len _ _ hPos
  have l3 := encNameLen_len _ _ hLn
  have hpre : (bRef ++ bPos ++ bLn ++ [UInt8.ofNat (r.mapq.getD 255)]).length = 10 := by
    simp [l1, l2, l3]
  subst h
  simp only [List.append_assoc] at hpre ⊢
  have e : bRef ++ (bPos ++ (bLn ++ ([UInt8.ofNat (r.mapq.getD 255)] ++ (le 2 (binOf r.pos r.cigar) ++
      (le 2 (cigarSlot r.seq.length r.cigar).1.length ++ (le 2 r.flags ++ (bLs ++ (bMref ++ (bMpos ++
      (le 4 (toU 4 r.tlen) ++ (bName ++ (bCig ++ (bSeq ++ (bQual ++ (bData ++ bCg)))))))))))))))
      = (bRef ++ (bPos ++ (bLn ++ [UInt8.ofNat (r.mapq.getD 255)]))) ++ (le 2 (binOf r.pos r.cigar) ++
      (le 2 (cigarSlot r.seq.length r.cigar).1.length ++ (le 2 r.flags ++ (bLs ++ (bMref ++ (bMpos ++
      (le 4 (toU 4 r.tlen) ++ (bName ++ (bCig ++ (bSeq ++ (bQual ++ (bData ++ bCg)))))))))))) := by
    simp only [List.append_assoc]
  rw [e]
  refine ⟨?_, by simp only [List.length_append, hpre, le_length]; omega⟩
  unfold headU
  rw [List.drop_left' hpre, List.take_left' (le_length 2 _)]
  -- `le 2` keeps the low 16 bits
  have : le 2 (binOf r.pos r.cigar) = le 2 (binOf r.pos r.cigar % 65536) := by
    simp only [le]
    have a : binOf r.pos r.cigar % 65536 % 256 = binOf r.pos r.cigar % 256 := by omega
    have c : binOf r.pos r.cigar % 65536 / 256 % 256 = binOf r.pos r.cigar / 256 % 256 := by omega
    rw [a, c]
  rw [this, leVal_le 2 _ (by omega)]

theorem binOf_lt (pos : Option Nat) (cigar : List Op) : binOf pos cigar < 65536 := by
  unfold binOf
  split
  · unfold regionToBin; simp only; omega
  · decide

/-! ## lazy data vs eager data when `CG` was removed by `swap_remove` -/

theorem decData_nodup (fuel : Nat) (s : Bytes) (acc out : List (Tag × Val))
    (h : decData fuel s acc = .ok out) (hn : (acc.map (·.1)).Nodup) : (out.map (·.1)).Nodup := by
  induction fuel generalizing s acc with
  | zero =>
    simp only [decData] at h
    split at h
    · simp only [Except.ok.injEq] at h; subst h; exact hn
    · simp at h
  | succ fuel ih =>
    simp only [decData] at h
    split at h
    · simp only [Except.ok.injEq] at h; subst h; exact hn
    · cases hf : decField s with
      | error e => simp [hf] at h
      | ok p =>
        obtain ⟨⟨t, v⟩, s1⟩ := p
        simp only [hf] at h
        by_cases ht : hasTag t acc = true
        · simp [ht] at h
        · simp only [ht] at h
          simp only [Bool.false_eq_true, if_false] at h
          apply ih s1 (acc ++ [(t, v)]) h
          rw [List.map_append, List.nodup_append]
          refine ⟨hn, by simp, ?_⟩
          intro a ha b hb
          simp only [List.map_cons, List.map_nil, List.mem_singleton] at hb
          subst hb
          intro e
          subst e
          apply ht
          simp only [List.mem_map] at ha
          obtain ⟨f, hf1, hf2⟩ := ha
          simp only [hasTag, List.any_eq_true]
          exact ⟨f, hf1, by simp [hf2]⟩

theorem filter_eq_eraseIdx (l : List (Tag × Val)) (i : Nat) (hn : (l.map (·.1)).Nodup)
    (hi : l.findIdx? (fun f => f.1 == CG) = some i) :
    l.filter (fun f => f.1 != CG) = l.eraseIdx i := by
  induction l generalizing i with
  | nil => simp at hi
  | cons a t ih =>
    simp only [List.map_cons, List.nodup_cons] at hn
    rw [List.findIdx?_cons] at hi
    by_cases ha : (a.1 == CG) = true
    · simp only [ha, if_true, Option.some.injEq] at hi
      subst hi
      have hne : (a.1 != CG) = false := by simp [bne, ha]
      simp only [List.filter_cons, hne, Bool.false_eq_true, if_false, List.eraseIdx_cons_zero]
      -- no other CG in t
      rw [List.filter_eq_self]
      intro f hf
      have : f.1 ≠ a.1 := by
        intro e
        apply hn.1
        rw [← e]
        exact List.mem_map_of_mem hf
      have ha' : a.1 = CG := by simpa using ha
      simp [bne_iff_ne, ha' ▸ this]
    · simp only [ha] at hi
      simp only [Bool.false_eq_true, if_false, Option.map_eq_some_iff] at hi
      obtain ⟨j, hj, rfl⟩ := hi
      have hne : (a.1 != CG) = true := by
        have : ¬ a.1 = CG := by simpa using ha
        simp [bne_iff_ne, this]
      simp only [List.filter_cons, hne, if_true, List.eraseIdx_cons_succ]
      rw [ih j hn.2 hj]

theorem set_perm_eraseIdx {α : Type} (l : List α) (i : Nat) (x : α) (hi : i < l.length) :
    (l.set i x).Perm (x :: l.eraseIdx i) := by
  induction l generalizing i with
  | nil => simp at hi
  | cons a t ih =>
    cases i with
    | zero => simp
    | succ j =>
      simp only [List.set_cons_succ, List.eraseIdx_cons_succ]
      have := ih j (by simpa using hi)
      exact (List.Perm.cons a this).trans (List.Perm.swap x a _)

theorem swapRemove_perm {α : Type} (l : List α) (i : Nat) (hi : i < l.length) :
    (swapRemove i l).Perm (l.eraseIdx i) ∧ (i + 1 = l.length → swapRemove i l = l.eraseIdx i) := by
  have hne : l ≠ [] := by intro e; subst e; simp at hi
  obtain ⟨init, last, rfl⟩ : ∃ init last, l = init ++ [last] :=
    ⟨l.dropLast, l.getLast hne, (List.dropLast_concat_getLast hne).symm⟩
  have hgl : (init ++ [last]).getLast? = some last := by simp
  simp only [swapRemove, hgl, List.length_append, List.length_singleton] at hi ⊢
  by_cases hlast : i = init.length
  · subst hlast
    simp only [if_true, List.dropLast_concat]
    have : (init ++ [last]).eraseIdx init.length = init := by
      rw [List.eraseIdx_append_of_length_le (Nat.le_refl _)]
      simp
    rw [this]
    exact ⟨List.Perm.refl _, fun _ => rfl⟩
  · have hlt : i < init.length := by omega
    have hne1 : ¬ (i + 1 = init.length + 1) := by omega
    simp only [hne1, if_false]
    rw [List.set_append_left _ _ hlt, List.dropLast_concat, List.eraseIdx_append_of_lt_length hlt]
    refine ⟨?_, fun h => h.elim⟩
    exact (set_perm_eraseIdx init i last hlt).trans (List.perm_append_singleton _ _).symm

theorem lazy_data_perm (b : Bytes) (r0 r : Rec) (hp : RawParts b r0) (hr : resolve r0 = .ok r) :
    ∃ fs, lazyData b = .ok (fs, false) ∧ fs.Perm r.data ∧
      (fs = r.data ∨ ∃ i, r0.data.findIdx? (fun f => f.1 == CG) = some i ∧ i + 1 < r0.data.length) := by
  rcases (lazyCigar_and_data b r0 r hp hr).2 with ⟨_, h2⟩ | ⟨_, h2, i, hi, hs⟩
  · exact ⟨r.data, h2, List.Perm.refl _, Or.inl rfl⟩
  · have hnd : (r0.data.map (·.1)).Nodup := decData_nodup _ _ [] _ hp.data (by simp)
    have hfe := filter_eq_eraseIdx r0.data i hnd hi
    obtain ⟨x, hx, _⟩ := findIdx_some_find _ _ _ hi
    have hlt : i < r0.data.length := by
      have := List.getElem?_eq_some_iff.mp hx
      exact this.1
    obtain ⟨hperm, heq⟩ := swapRemove_perm r0.data i hlt
    refine ⟨_, h2, ?_, ?_⟩
    · rw [hfe, hs]; exact hperm.symm
    · by_cases hl : i + 1 = r0.data.length
      · left; rw [hfe, hs, heq hl]
      · right; exact ⟨i, hi, by omega⟩

end Noodles.Bam
