import Noodles.Bam.Fast
import Noodles.Bam.FastDataProof
import Noodles.Bam.RecordProof
import Noodles.Bam.LazyProof
import Noodles.Bam.ReencProof
import Noodles.Bam.RecordRefProof
/-! Helper lemmas for `Noodles/Props/C05Fast.lean`: when the fast paths of the BAM writer accept a
lazy `bam::Record`, and which bytes they are handed. -/
namespace Noodles.Bam
open Noodles.Codec

/-! ## the converse of `encodeView_parts`: all components succeed ⇒ `encode` succeeds -/

theorem fast_encodeView_with_ok (nref : Nat) (r : Rec) (cr : CigarRef) (sr : SeqRef) (qr : QualRef)
    (dr : DataRef) (hno : NoOverflow r.pos r.cigar)
    {bRef bPos lName lSeq bMref bMpos bName bSeq bQual bData : Bytes}
    (h1 : encRefId nref r.refId = .ok bRef) (h2 : encPos r.pos = .ok bPos)
    (h3 : encNameLen r.name = .ok lName) (h4 : encSeqLen r.seq.length = .ok lSeq)
    (h5 : encRefId nref r.mateRefId = .ok bMref) (h6 : encPos r.matePos = .ok bMpos)
    (h7 : encName r.name = .ok bName)
    (h8 : if r.cigar.length ≤ 65535 then
        ∃ x, writeCigarRef (.ok ⟨r.cigar.length, (r.cigar, none)⟩) cr = .ok x
      else (∃ x, encOps [⟨4, r.seq.length⟩, ⟨3, span r.cigar⟩] = .ok x) ∧ ∃ x, encCg r.cigar = .ok x)
    (h9 : writeSeqRef (readLen r.cigar) (r.seq.length, r.seq) sr = .ok bSeq)
    (h10 : writeQualRef r.seq.length (.ok (r.qual.length, (r.qual, none))) qr = .ok bQual)
    (h11 : writeDataRef (.ok (r.data, none)) dr = .ok bData) :
    ∃ out, encodeView nref (viewWith r cr sr qr dr) = .ok out := by
  unfold encodeView viewWith viewBuf
  simp only [bind, Except.bind, pure, Except.pure, alignmentEndV_buf _ _ _ hno, binOfEnd_eq,
    overflowV_buf _ _ hno.span, readLenI_all _ hno.readLen, h1, h2, h3, h4, h5, h6, h7, liftIn]
  by_cases hc : r.cigar.length ≤ 65535
  · rw [if_pos hc] at h8
    obtain ⟨x, hx⟩ := h8
    simp only [cigarSlot, hc, if_true, Bool.false_eq_true, if_false, hx, h9, h10, h11]
    exact ⟨_, rfl⟩
  · rw [if_neg hc] at h8
    obtain ⟨⟨x, hx⟩, y, hy⟩ := h8
    simp only [cigarSlot, hc, if_true, if_false, writeCgV_all, hx, h9, h10, h11, hy, liftIn]
    exact ⟨_, rfl⟩

/-! ## component by component: fast path vs default path -/

/-- `write_sequence` accepts by the announced length alone, whatever the representation -/
theorem fast_writeSeqRef_accept (rl : Nat) (s : Nat × Bytes) (r : SeqRef) :
    (∃ x, writeSeqRef rl s r = .ok x) ↔ (r.len s = 0 ∨ ¬ (0 < rl ∧ r.len s ≠ rl)) := by
  unfold writeSeqRef
  by_cases h0 : r.len s = 0
  · simp [h0]
  · by_cases h1 : 0 < rl ∧ r.len s ≠ rl
    · simp [h0, h1]
    · simp only [h0, h1, if_false, false_or, not_false_eq_true, iff_true]
      cases r <;> exact ⟨_, rfl⟩

theorem fast_encData_ok (fs : List (Tag × Val)) (h : ∀ f ∈ fs, valOk f.2) : ∃ x, encData fs = .ok x := by
  induction fs with
  | nil => exact ⟨[], rfl⟩
  | cons f rest ih =>
    obtain ⟨t, v⟩ := f
    obtain ⟨y, hy⟩ := ih (fun g hg => h g (List.mem_cons_of_mem _ hg))
    unfold encData
    by_cases ht : t = CG
    · simp only [ht, if_true]; exact ⟨y, hy⟩
    · simp only [ht, if_false]
      have hv : valOk v := h (t, v) List.mem_cons_self
      have : ∃ e, encVal v = .ok e := by
        cases v with
        | char c => exact ⟨_, rfl⟩
        | num t x => exact ⟨_, rfl⟩
        | str s => simp only [valOk] at hv; simp [encVal, hv]
        | hex s => simp only [valOk] at hv; simp [encVal, hv]
        | arr t vs => simp only [valOk] at hv; simp [encVal, hv]
      obtain ⟨e, he⟩ := this
      simp only [encField, he, hy]
      exact ⟨_, rfl⟩

theorem fast_writeDataRef_encoded (d : W (Iter (Tag × Val))) (src : Bytes) :
    (∃ x, writeDataRef d (.encoded src) = .ok x) ↔ validateData src.length src = .ok () := by
  unfold writeDataRef
  cases hv : validateData src.length src with
  | error e => simp [hv]
  | ok u => simp [hv]

theorem fast_writeDataRef_generic (fs : List (Tag × Val)) :
    (∃ x, writeDataRef (.ok (fs, none)) .generic = .ok x) ↔ ∃ x, encData fs = .ok x := by
  unfold writeDataRef
  simp only [writeGenericData_all]
  cases encData fs with
  | error e => simp [liftIn]
  | ok y => simp [liftIn]

/-! ## the acceptance condition -/

/-- For bytes the eager decoder accepts (`r0` before, `r` after `cigar::resolve`): the writer accepts
the lazy `bam::Record` on its fast paths exactly when the decoded record (data in lazy order) fits —
plus, when the data bytes go through the `FieldEncoded` validator, every `CG`-tagged value is valid. -/
theorem fast_accepts_core (nref : Nat) (b : Bytes) (r0 r : Rec) (hp : RawParts b r0)
    (hr : resolve r0 = .ok r) :
    ∃ fs src skip, lazyData b = .ok (fs, false) ∧ lazyCigarBytes b = .ok (src, skip) ∧ fs.Perm r.data ∧
      ((∃ out, encodeView nref (viewRecord b) = .ok out) ↔
        Fits nref { r with data := fs } ∧ (skip = false → cgValsOk fs)) := by
  have hw := decode_wf b r0 r hp hr
  have hno : NoOverflow r.pos r.cigar := decode_noOverflow b r0 r hp hr
  obtain ⟨fs, hfs, hperm, _⟩ := lazy_data_perm b r0 r hp hr
  have hw1 : WF { r with data := fs } := wf_perm r hw fs hperm
  have hsl : r.seq.length = lBaseCount b := by
    rw [(resolve_fields r0 r hr).2.2.2.2.2.2.2.2.1]; exact seq_length_eq b r0 hp
  -- where the CIGAR bytes come from
  have hsrc : ∃ src skip n, lazyCigarBytes b = .ok (src, skip) ∧ lazyOps src = .ok r.cigar ∧
      src.length = n * 4 ∧
      (skip = false → decData (segData b).length (segData b) [] = .ok fs) := by
    rcases decode_cases b r0 r hp hr with ⟨_, hrr, hcb, hlo, hld⟩ | ⟨_, buf, hcb, hlo, hbl, _⟩
    · refine ⟨_, false, lOpCount b, hcb, hlo, lCigarSrc_length b hp.len, fun _ => ?_⟩
      rw [hld] at hfs
      simp only [L.ok.injEq, Prod.mk.injEq, and_true] at hfs
      rw [← hfs, hrr]
      exact hp.data
    · exact ⟨buf, true, r.cigar.length, hcb, hlo, hbl, fun h => by cases h⟩
  obtain ⟨src, skip, n, hcb, hlo, hn, hdat⟩ := hsrc
  obtain ⟨hkinds, hgenc⟩ := packed_eq_generic n src r.cigar hn hlo
  have hpk : ∀ cv, writeCigarRef cv (.packed src) = .ok src := by
    intro cv; simp [writeCigarRef, writePackedCigar, hkinds]
  have hgc : writeCigarRef (.ok ⟨r.cigar.length, (r.cigar, none)⟩) .generic = .ok src := by
    simp only [writeCigarRef, writeGenericCigar_all, hgenc, liftIn]
  -- the default-path view is the `RecordBuf` view, whose acceptance is `Fits`
  have hgen : (∃ out, encodeView nref (viewWith { r with data := fs } .generic (.raw r.seq) .generic
      .generic) = .ok out) ↔ Fits nref { r with data := fs } := by
    have e : viewWith { r with data := fs } .generic (.raw r.seq) .generic .generic
        = viewBuf { r with data := fs } := rfl
    rw [e, encodeView_buf nref { r with data := fs } hno]
    constructor
    · rintro ⟨out, ho⟩
      exact fits_of_encode_ok nref _ out (liftIn_eq_ok ho)
    · intro hf
      obtain ⟨b', he, _⟩ := roundtrip_main nref _ hw1 hf
      exact ⟨b', by rw [he]; rfl⟩
  -- the sequence is accepted by its length, in either representation
  have hseq : (∃ x, writeSeqRef (readLen r.cigar) (r.seq.length, r.seq)
        (.packed (segSeq b) (lBaseCount b)) = .ok x) ↔
      (∃ x, writeSeqRef (readLen r.cigar) (r.seq.length, r.seq) (.raw r.seq) = .ok x) := by
    rw [fast_writeSeqRef_accept, fast_writeSeqRef_accept]
    simp only [SeqRef.len, hsl]
  -- the data
  have hdata : (∃ x, writeDataRef (.ok (fs, none))
        (if skip then DataRef.generic else DataRef.encoded (segData b)) = .ok x) ↔
      ((∃ x, writeDataRef (.ok (fs, none)) .generic = .ok x) ∧ (skip = false → cgValsOk fs)) := by
    cases skip with
    | true => simp
    | false =>
      simp only [Bool.false_eq_true, if_false, true_implies]
      obtain ⟨fs', hfs', hiff⟩ := validateData_iff_of_decData _ _ [] fs (segData b).length
        (hdat rfl) (Nat.le_refl _)
      simp only [List.nil_append] at hfs'
      subst hfs'
      rw [fast_writeDataRef_encoded, hiff, fast_writeDataRef_generic]
      constructor
      · intro hall
        exact ⟨fast_encData_ok fs hall, fun f hf _ => hall f hf⟩
      · rintro ⟨⟨x, hx⟩, hcg⟩ f hf
        by_cases ht : f.1 = CG
        · exact hcg f hf ht
        · exact encData_inv fs x hx f hf ht
  refine ⟨fs, src, skip, hfs, hcb, hperm, ?_⟩
  rw [viewRecord_of_decode b r0 r hp hr fs hfs src skip hcb, ← hgen]
  constructor
  · rintro ⟨out, ho⟩
    obtain ⟨bRef, bPos, lName, lSeq, bMref, bMpos, bName, bCig, bSeq, bQual, bData, bCg,
      p1, p2, p3, p4, p5, p6, p7, pc, ps, pq, pd, _⟩ :=
        encodeView_parts nref { r with data := fs } _ _ _ _ out hno ho
    obtain ⟨⟨bData', pd'⟩, hcg⟩ := hdata.mp ⟨bData, pd⟩
    obtain ⟨bSeq', ps'⟩ := hseq.mp ⟨bSeq, ps⟩
    refine ⟨fast_encodeView_with_ok nref { r with data := fs } _ _ _ _ hno p1 p2 p3 p4 p5 p6 p7 ?_
      ps' (by rw [← writeQualRef_raw]; exact pq) pd', hcg⟩
    by_cases hc : r.cigar.length ≤ 65535
    · rw [if_pos hc]; exact ⟨src, hgc⟩
    · rw [if_neg hc] at pc ⊢; exact ⟨⟨_, pc.1⟩, ⟨_, pc.2⟩⟩
  · rintro ⟨⟨out, ho⟩, hcg⟩
    obtain ⟨bRef, bPos, lName, lSeq, bMref, bMpos, bName, bCig, bSeq, bQual, bData, bCg,
      p1, p2, p3, p4, p5, p6, p7, pc, ps, pq, pd, _⟩ :=
        encodeView_parts nref { r with data := fs } _ _ _ _ out hno ho
    obtain ⟨bData', pd'⟩ := hdata.mpr ⟨⟨bData, pd⟩, hcg⟩
    obtain ⟨bSeq', ps'⟩ := hseq.mpr ⟨bSeq, ps⟩
    refine fast_encodeView_with_ok nref { r with data := fs } _ _ _ _ hno p1 p2 p3 p4 p5 p6 p7 ?_
      ps' (by rw [writeQualRef_raw]; exact pq) pd'
    by_cases hc : r.cigar.length ≤ 65535
    · rw [if_pos hc]; exact ⟨src, hpk _⟩
    · rw [if_neg hc] at pc ⊢; exact ⟨⟨_, pc.1⟩, ⟨_, pc.2⟩⟩

/-! ## which bytes the encoder is handed -/

theorem fast_lazyCigarBytes_ok (b : Bytes) (hl : lDataStart b ≤ b.length) :
    ∃ src skip, lazyCigarBytes b = .ok (src, skip) := by
  have hl' := hl
  unfold lDataStart at hl'
  unfold lazyCigarBytes
  simp only
  rw [slice_ok _ _ _ (by omega) (by rw [lRest_length]; omega), lazyRawData_eq b hl]
  simp only
  split
  · split
    · split <;> exact ⟨_, _, rfl⟩
    · exact ⟨_, _, rfl⟩
  · exact ⟨_, _, rfl⟩

theorem fast_lazyQual_ok (b : Bytes) (hl : lDataStart b ≤ b.length) :
    lazyQual b = .ok (if (segQual b).all (· == 255) then [] else segQual b) := by
  have hl' := hl
  unfold lDataStart at hl'
  unfold lazyQual segQual
  simp only
  rw [slice_ok _ _ _ (by omega) (by rw [lRest_length]; omega)]
  simp only [lRest, List.drop_drop]
  have e : 32 + (lNameLen b + lOpCount b * 4 + (lBaseCount b + 1) / 2)
      = 32 + lNameLen b + lOpCount b * 4 + (lBaseCount b + 1) / 2 := by omega
  have e2 : lNameLen b + lOpCount b * 4 + (lBaseCount b + 1) / 2 + lBaseCount b
      - (lNameLen b + lOpCount b * 4 + (lBaseCount b + 1) / 2) = lBaseCount b := by omega
  rw [e, e2]
  split <;> rfl

/-- after `validate`, the four `*_ref` methods of a `bam::Record` cannot fail, and they hand the
encoder: the CIGAR bytes `cigar()` iterates, the packed-sequence slice with `l_seq`, the quality
slice (empty when all `0xff`), and the raw data bytes — unless the CIGAR came from `CG` -/
theorem fast_refs_of_validate (b : Bytes) (hl : lDataStart b ≤ b.length) :
    ∃ src skip, lazyCigarBytes b = .ok (src, skip) ∧
      fastRefs b = some ⟨src, (segSeq b, lBaseCount b),
        if (segQual b).all (· == 255) then [] else segQual b,
        if skip then none else some (segData b)⟩ := by
  obtain ⟨src, skip, hcb⟩ := fast_lazyCigarBytes_ok b hl
  refine ⟨src, skip, hcb, ?_⟩
  unfold fastRefs viewRecord
  simp only [hcb, lSeqSrc_eq b hl, fast_lazyQual_ok b hl, dataSrc_eq b hl src skip hcb]
  cases skip <;> rfl

/-! ## lazy = eager (`lazy_eq_eager` of Props/C05.lean, which this file cannot import) -/

theorem fast_lazy_eq_eager (b : Bytes) (r : Rec) (h : decode b = .ok r) :
    validate b = .ok () ∧
    lazyName b = .ok r.name ∧ lazyFlags b = r.flags ∧ lazyRefId b = .ok r.refId ∧
    lazyPos b = .ok r.pos ∧ lazyMapq b = r.mapq ∧ lazyCigar b = .ok r.cigar ∧
    lazyMateRefId b = .ok r.mateRefId ∧ lazyMatePos b = .ok r.matePos ∧ lazyTlen b = r.tlen ∧
    lazySeq b = .ok r.seq ∧ lazyQual b = .ok r.qual := by
  obtain ⟨r0, hp, hr⟩ := decode_inv b r h
  obtain ⟨e1, e2, e3, e4, e5, e6, e7, e8, e9, e10⟩ := resolve_fields r0 r hr
  refine ⟨validate_of_decode b r h, ?_, ?_, ?_, ?_, ?_, (lazyCigar_and_data b r0 r hp hr).1, ?_, ?_, ?_, ?_, ?_⟩
  · rw [e1]; exact lazyName_eq b r0 hp
  · rw [e2]; exact hp.flags.symm
  · rw [e3]; exact hp.refId
  · rw [e4]; exact hp.pos
  · rw [e5]; exact hp.mapq.symm
  · rw [e6]; exact hp.mateRefId
  · rw [e7]; exact hp.matePos
  · rw [e8]; exact hp.tlen.symm
  · rw [e9]; exact lazySeq_eq b r0 hp
  · rw [e10]; exact lazyQual_eq b r0 hp

end Noodles.Bam
