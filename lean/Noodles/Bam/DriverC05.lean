import Noodles.Basic.Wire
import Noodles.Basic.Crc32
import Noodles.Bam.Record
/-! Line-protocol handler for the BAM record codec model (`c05 …`).

Record text (12 space-separated fields, the same in requests and answers):
`name flags refid pos mapq cigar materef matepos tlen seq qual data` with `N` = missing,
byte strings in hex (`-` empty), cigar `kind:len,…`, data `TTTT:t:payload;…` where `TTTT` is the
tag in hex, `t ∈ A c C s S i I f Z H B`, numbers in decimal (`f` = IEEE bit pattern), `Z`/`H`
payload in hex, `B` payload `subtype:v,v,…`. -/
namespace Noodles.Bam.Driver
open Noodles.Wire Noodles.Bam Noodles.Codec
abbrev Bytes := Noodles.Codec.Bytes

def optNat (s : String) : Option (Option Nat) :=
  if s = "N" then some none else s.toNat?.map some

def parseCigar (s : String) : Option (List Op) :=
  if s = "-" then some [] else
  (s.splitOn ",").mapM fun e =>
    match e.splitOn ":" with
    | [k, l] => do pure ⟨← k.toNat?, ← l.toNat?⟩
    | _ => none

def numTyOfStr (s : String) : Option NumTy :=
  match s with
  | "c" => some .c | "C" => some .C | "s" => some .s | "S" => some .S
  | "i" => some .i | "I" => some .I | "f" => some .f | _ => none

def numTyStr : NumTy → String
  | .c => "c" | .C => "C" | .s => "s" | .S => "S" | .i => "i" | .I => "I" | .f => "f"

def parseInts (s : String) : Option (List Int) :=
  if s = "-" then some [] else (s.splitOn ",").mapM (·.toInt?)

def parseField (s : String) : Option (Tag × Val) :=
  match s.splitOn ":" with
  | tag :: ty :: rest => do
    let t ← unhex tag
    let tag ← match t with | [a, b] => some (a, b) | _ => none
    match ty, rest with
    | "A", [v] => do pure (tag, .char (UInt8.ofNat (← v.toNat?)))
    | "Z", [v] => do pure (tag, .str (← unhex v))
    | "H", [v] => do pure (tag, .hex (← unhex v))
    | "B", [sub, vs] => do pure (tag, .arr (← numTyOfStr sub) (← parseInts vs))
    | ty, [v] => do pure (tag, .num (← numTyOfStr ty) (← v.toInt?))
    | _, _ => none
  | _ => none

def parseData (s : String) : Option (List (Tag × Val)) :=
  if s = "-" then some [] else (s.splitOn ";").mapM parseField

def parseRec : List String → Option Rec
  | [name, flags, refid, pos, mapq, cigar, mref, mpos, tlen, seq, qual, data] => do
    let name ← if name = "N" then some none else (unhex name).map some
    pure ⟨name, ← flags.toNat?, ← optNat refid, ← optNat pos, ← optNat mapq, ← parseCigar cigar,
      ← optNat mref, ← optNat mpos, ← tlen.toInt?, ← unhex seq, ← unhex qual, ← parseData data⟩
  | _ => none

def fmtOptNat : Option Nat → String
  | none => "N"
  | some n => toString n

def fmtCigar (c : List Op) : String :=
  if c.isEmpty then "-" else ",".intercalate (c.map fun o => s!"{o.kind}:{o.len}")

def fmtInts (l : List Int) : String :=
  if l.isEmpty then "-" else ",".intercalate (l.map toString)

def fmtField (f : Tag × Val) : String :=
  let tag := hex [f.1.1, f.1.2]
  match f.2 with
  | .char c => s!"{tag}:A:{c.toNat}"
  | .num t v => s!"{tag}:{numTyStr t}:{v}"
  | .str s => s!"{tag}:Z:{hex s}"
  | .hex s => s!"{tag}:H:{hex s}"
  | .arr t vs => s!"{tag}:B:{numTyStr t}:{fmtInts vs}"

def fmtData (d : List (Tag × Val)) : String :=
  if d.isEmpty then "-" else ";".intercalate (d.map fmtField)

def fmtName : Option Bytes → String
  | none => "N"
  | some n => hex n

def fmtRec (r : Rec) : String :=
  " ".intercalate [fmtName r.name, toString r.flags, fmtOptNat r.refId, fmtOptNat r.pos,
    fmtOptNat r.mapq, fmtCigar r.cigar, fmtOptNat r.mateRefId, fmtOptNat r.matePos,
    toString r.tlen, hex r.seq, hex r.qual, fmtData r.data]

/-- long answers are compared as `#len:crc32` -/
def squash (s : String) : String :=
  if s.length ≤ 3000 then s else s!"#{s.length}:{Noodles.Crc32.crc32 s.toUTF8.toList}"

def fmtBytes (b : Bytes) : String :=
  if b.length ≤ 1500 then hex b else s!"#{b.length}:{Noodles.Crc32.crc32 b}"

def fmtL {α : Type} (f : α → String) : L α → String
  | .ok a => f a
  | .err => "E"
  | .panic => "P"

def lazyView (b : Bytes) : String :=
  " ".intercalate [
    fmtL fmtName (lazyName b), toString (lazyFlags b), fmtL fmtOptNat (lazyRefId b),
    fmtL fmtOptNat (lazyPos b), fmtOptNat (lazyMapq b), fmtL fmtCigar (lazyCigar b),
    fmtL fmtOptNat (lazyMateRefId b), fmtL fmtOptNat (lazyMatePos b), toString (lazyTlen b),
    fmtL hex (lazySeq b), fmtL hex (lazyQual b),
    fmtL (fun d => fmtData d.1 ++ (if d.2 then "!E" else "")) (lazyData b)]

/-- several records through one writer: statuses and the final sink -/
def runSeq (nref : Nat) : Nat → List String → Bytes → List String → Option (List String × Bytes)
  | 0, _, sink, acc => some (acc.reverse, sink)
  | fuel+1, ws, sink, acc =>
    if ws.isEmpty then some (acc.reverse, sink)
    else
      match parseRec (ws.take 12) with
      | none => none
      | some r =>
        match writeRecord nref sink r with
        | .ok sink' => runSeq nref fuel (ws.drop 12) sink' ("ok" :: acc)
        | .error _ => runSeq nref fuel (ws.drop 12) sink ("err:invalid-input" :: acc)

def handle : List String → String
  | "enc" :: nref :: rec =>
    match nref.toNat?, parseRec rec with
    | some nref, some r =>
      match writeRecord nref [] r with
      | .ok out => "ok " ++ fmtBytes (out.drop 4)
      | .error _ => "err:invalid-input"
    | _, _ => "bad-op"
  | ["dec", body] =>
    match unhex body with
    | some b =>
      if blockIsEof b then "eof" else
      match readRecordBuf b with
      | .ok r => "ok " ++ squash (fmtRec r)
      | .error .eof => "err:eof"
      | .error .invalid => "err:invalid-data"
    | none => "bad-op"
  | ["lazy", body] =>
    match unhex body with
    | some b =>
      if blockIsEof b then "eof" else
      match validate b with
      | .ok () => squash (lazyView b)
      | .error _ => "err:eof"
    | none => "bad-op"
  | ["raw", body] =>
    match unhex body with
    | some b => if b.length < 32 then "short" else squash (lazyView b)
    | none => "bad-op"
  | "wseq" :: nref :: ws =>
    match nref.toNat? with
    | some nref =>
      match runSeq nref ws.length ws [] [] with
      | some (st, sink) => ",".intercalate st ++ " " ++ fmtBytes sink
      | none => "bad-op"
    | none => "bad-op"
  | ["bin", s, e] =>
    match s.toNat?, e.toNat? with
    | some s, some e => toString (regionToBin s e)
    | _, _ => "bad-op"
  | _ => "bad-op"

end Noodles.Bam.Driver
