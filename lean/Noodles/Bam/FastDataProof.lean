import Noodles.Bam.Reenc
import Noodles.Bam.ReencProof
namespace Noodles.Bam
open Noodles.Codec

theorem ofCode_some_code (b : UInt8) (t : NumTy) (h : NumTy.ofCode b = some t) : b = t.code := by
  unfold NumTy.ofCode at h
  repeat' split at h
  all_goals first | (cases h; assumption) | cases h

theorem subSize_code (t : NumTy) : subSize t.code = some t.size := by
  cases t <;> rfl

theorem decNum_ok (t : NumTy) (s : Bytes) (v : Int) (s' : Bytes) (h : decNum t s = .ok (v, s')) :
    t.size ≤ s.length ∧ s' = s.drop t.size := by
  obtain ⟨u, s1, hu, hv⟩ := dbind_ok_inv _ _ _ _ h
  obtain ⟨hl, _, rfl⟩ := unle_ok _ _ _ _ hu
  simp only [pure_eq, Except.ok.injEq, Prod.mk.injEq] at hv
  exact ⟨hl, hv.2.symm⟩

theorem splitNul_length (s a r : Bytes) (h : splitNul s = some (a, r)) : r.length ≤ s.length := by
  induction s generalizing a with
  | nil => simp [splitNul] at h
  | cons b t ih =>
    simp only [splitNul] at h
    by_cases hb : b = 0
    · simp only [hb, if_true, Option.some.injEq, Prod.mk.injEq] at h
      obtain ⟨_, rfl⟩ := h
      simp
    · simp only [hb, if_false] at h
      cases hs : splitNul t with
      | none => simp [hs] at h
      | some p =>
        obtain ⟨a', r'⟩ := p
        simp only [hs, Option.some.injEq, Prod.mk.injEq] at h
        obtain ⟨_, rfl⟩ := h
        have := ih a' hs
        simp only [List.length_cons]
        omega

theorem decStr_ok (s x s' : Bytes) (h : decStr s = .ok (x, s')) : splitNul s = some (x, s') := by
  unfold decStr at h
  cases hs : splitNul s with
  | none => simp [hs] at h
  | some p =>
    obtain ⟨a, r⟩ := p
    simp only [hs, Except.ok.injEq, Prod.mk.injEq] at h
    obtain ⟨rfl, rfl⟩ := h
    rfl

/-- one field: what `validateData` does on the bytes of a value the eager decoder accepts -/
theorem validateData_step (a b ty : UInt8) (r : Bytes) (v : Val) (s' : Bytes) (fuel : Nat)
    (h : decVal ty r = .ok (v, s')) :
    s'.length ≤ r.length ∧
    (valOk v → validateData (fuel+1) (a :: b :: ty :: r) = validateData fuel s') ∧
    (¬ valOk v → validateData (fuel+1) (a :: b :: ty :: r) = .error .input) := by
  by_cases h65 : ty = 65
  · subst h65
    rw [decVal_char] at h
    obtain ⟨c, s1, hc, hv⟩ := dbind_ok_inv _ _ _ _ h
    obtain ⟨hl, rfl, rfl⟩ := takeN_ok _ _ _ _ hc
    cases r with
    | nil => simp at hl
    | cons x r' =>
      simp only [List.take_succ_cons, List.take_zero, List.drop_succ_cons, List.drop_zero, pure_eq,
        Except.ok.injEq, Prod.mk.injEq] at hv
      obtain ⟨rfl, rfl⟩ := hv
      refine ⟨by simp, fun _ => ?_, fun hn => absurd trivial hn⟩
      simp [validateData]
  by_cases h90 : ty = 90
  · subst h90
    rw [decVal_str] at h
    obtain ⟨x, s1, hx, hv⟩ := dbind_ok_inv _ _ _ _ h
    simp only [pure_eq, Except.ok.injEq, Prod.mk.injEq] at hv
    obtain ⟨rfl, rfl⟩ := hv
    have hsp := decStr_ok _ _ _ hx
    refine ⟨splitNul_length _ _ _ hsp, fun hv => ?_, fun hv => ?_⟩
    · have hv' : strValid x = true := hv
      simp [validateData, hsp, hv']
    · have hv' : strValid x = false := by
        cases hq : strValid x with
        | false => rfl
        | true => exact absurd hq hv
      simp [validateData, hsp, hv']
  by_cases h72 : ty = 72
  · subst h72
    rw [decVal_hex] at h
    obtain ⟨x, s1, hx, hv⟩ := dbind_ok_inv _ _ _ _ h
    simp only [pure_eq, Except.ok.injEq, Prod.mk.injEq] at hv
    obtain ⟨rfl, rfl⟩ := hv
    have hsp := decStr_ok _ _ _ hx
    refine ⟨splitNul_length _ _ _ hsp, fun hv => ?_, fun hv => ?_⟩
    · have hv' : hexValid x = true := hv
      simp [validateData, hsp, hv']
    · have hv' : hexValid x = false := by
        cases hq : hexValid x with
        | false => rfl
        | true => exact absurd hq hv
      simp [validateData, hsp, hv']
  by_cases h66 : ty = 66
  · subst h66
    have hal := decVal_arrlen _ _ _ _ h
    obtain ⟨sub, s3, t, n, s4, vs, hu1, hoc, hu4, hdn, rfl⟩ := decVal_arr_inv r v s' h
    obtain ⟨hl1, rfl, rfl⟩ := unle_ok _ _ _ _ hu1
    obtain ⟨hl4, rfl, rfl⟩ := unle_ok _ _ _ _ hu4
    obtain ⟨hlen, rfl, _⟩ := decN_num_chunks t _ _ vs s' _ (Nat.le_refl _) hdn
    have hok : valOk (.arr t vs) := by
      have : vs.length < 4294967296 := hal
      show vs.length ≤ 4294967295
      omega
    cases r with
    | nil => simp at hl1
    | cons x r1 =>
      simp only [List.take_succ_cons, List.take_zero, List.drop_succ_cons, List.drop_zero] at *
      have hx : UInt8.ofNat (leVal [x]) = x := by simp [leVal]
      rw [hx] at hoc
      have hxc := ofCode_some_code _ _ hoc
      have hss : subSize x = some t.size := by rw [hxc]; exact subSize_code t
      refine ⟨by simp only [List.length_drop, List.length_cons]; omega, fun _ => ?_,
        fun hn => absurd hok hn⟩
      have hnl : ¬ r1.length < 4 := by omega
      have hm : ¬ (r1.length - 4 < leVal (List.take 4 r1) * t.size) := by
        have := hlen
        simp only [List.length_drop] at this
        omega
      simp [validateData, hss, hnl, hm, Nat.mul_comm]
  · unfold decVal at h
    simp only [h65, h90, h72, h66, if_false] at h
    cases hoc : NumTy.ofCode ty with
    | none => simp [hoc] at h
    | some t =>
      simp only [hoc] at h
      obtain ⟨x, s1, hx, hv⟩ := dbind_ok_inv _ _ _ _ h
      simp only [pure_eq, Except.ok.injEq, Prod.mk.injEq] at hv
      obtain ⟨rfl, rfl⟩ := hv
      obtain ⟨hl, rfl⟩ := decNum_ok _ _ _ _ hx
      have hc := ofCode_some_code _ _ hoc
      subst hc
      refine ⟨by simp, fun _ => ?_, fun hn => absurd trivial hn⟩
      cases t <;> simp only [NumTy.code, NumTy.size] at hl ⊢ <;>
        first
        | (cases r with
           | nil => simp at hl
           | cons y r' => simp [validateData])
        | simp [validateData, hl]

/-- `data::validate` (the FieldEncoded fast path's validator, model `validateData` in Reenc.lean) accepts
the raw data bytes exactly when every field the eager decoder reads from them — `CG`-tagged or not —
has a value the per-field encoder would accept (`valOk`, RecordSpec.lean) -/
theorem validateData_iff_of_decData (fuel : Nat) (s : Bytes) (acc out : List (Tag × Val)) (fuel2 : Nat)
    (h : decData fuel s acc = .ok out) (hf : s.length ≤ fuel2) :
    ∃ fs, out = acc ++ fs ∧ (validateData fuel2 s = .ok () ↔ ∀ f ∈ fs, valOk f.2) := by
  induction fuel generalizing s acc fuel2 with
  | zero =>
    simp only [decData] at h
    by_cases he : s.isEmpty = true
    · simp only [he, if_true, Except.ok.injEq] at h
      have hs : s = [] := by simpa using he
      subst hs
      refine ⟨[], by simp [h], ?_⟩
      cases fuel2 <;> simp [validateData]
    · simp [he] at h
  | succ fuel ih =>
    simp only [decData] at h
    by_cases he : s.isEmpty = true
    · simp only [he, if_true, Except.ok.injEq] at h
      have hs : s = [] := by simpa using he
      subst hs
      refine ⟨[], by simp [h], ?_⟩
      cases fuel2 <;> simp [validateData]
    · simp only [he] at h
      simp only [Bool.false_eq_true, if_false] at h
      cases hdf : decField s with
      | error e => simp [hdf] at h
      | ok p =>
        obtain ⟨⟨⟨a, b⟩, v⟩, s1⟩ := p
        simp only [hdf] at h
        by_cases ht : hasTag (a, b) acc = true
        · simp [ht] at h
        · simp only [ht] at h
          simp only [Bool.false_eq_true, if_false] at h
          obtain ⟨s2, s3, ty, h1, h2, h3⟩ := decField_inv s a b v s1 hdf
          obtain ⟨_, e1, rfl⟩ := takeN_ok _ _ _ _ h1
          obtain ⟨_, e2, rfl⟩ := takeN_ok _ _ _ _ h2
          have hs : s = a :: b :: ty :: (s.drop 2).drop 1 := by
            have q1 := List.take_append_drop 2 s
            have q2 := List.take_append_drop 1 (s.drop 2)
            rw [← e1] at q1
            rw [← e2] at q2
            rw [← q2] at q1
            exact q1.symm
          generalize (s.drop 2).drop 1 = r at hs h3
          subst hs
          obtain ⟨k, rfl⟩ : ∃ k, fuel2 = k + 1 := ⟨fuel2 - 1, by simp only [List.length_cons] at hf; omega⟩
          obtain ⟨hlen, hyes, hno⟩ := validateData_step a b ty r v s1 k h3
          obtain ⟨fs, hout, hiff⟩ := ih s1 (acc ++ [((a, b), v)]) k h
            (by simp only [List.length_cons] at hf; omega)
          refine ⟨((a, b), v) :: fs, by rw [hout]; simp, ?_⟩
          by_cases hv : valOk v
          · rw [hyes hv, hiff]
            constructor
            · intro hall f hfm
              cases hfm with
              | head => exact hv
              | tail _ hm => exact hall f hm
            · intro hall f hfm
              exact hall f (List.mem_cons_of_mem _ hfm)
          · rw [hno hv]
            constructor
            · intro hc; cases hc
            · intro hall
              exact absurd (hall _ (List.mem_cons_self)) hv

end Noodles.Bam
