import Noodles.Vcf.Model
import Noodles.Vcf.Lazy
/-! Helper lemmas for the C09 record theorems (`Noodles/Props/C09.lean`). -/
namespace Noodles.Vcf
open Noodles.Text (splitOn join parseNat printNat printNatAux digit parseNatAux)

/-! ### decimal digits -/

def IsDigit (b : UInt8) : Prop := 48 ≤ b.toNat ∧ b.toNat ≤ 57

theorem digit_isDigit (n : Nat) : IsDigit (digit n) := by
  unfold IsDigit; rw [Noodles.Text.digit_toNat]; omega

theorem printNatAux_digits (fuel n : Nat) (acc : Bytes) (hacc : ∀ b ∈ acc, IsDigit b) :
    ∀ b ∈ printNatAux fuel n acc, IsDigit b := by
  induction fuel generalizing n acc with
  | zero => simpa [printNatAux] using hacc
  | succ fuel ih =>
    unfold printNatAux
    split
    · intro b hb
      rcases List.mem_cons.mp hb with rfl | hb
      · exact digit_isDigit n
      · exact hacc b hb
    · apply ih
      intro b hb
      rcases List.mem_cons.mp hb with rfl | hb
      · exact digit_isDigit n
      · exact hacc b hb

theorem printNat_digits (n : Nat) : ∀ b ∈ printNat n, IsDigit b :=
  printNatAux_digits _ _ [] (by simp)

theorem printNat_ne_nil (n : Nat) : printNat n ≠ [] :=
  Noodles.Text.printNatAux_ne_nil _ _ (by omega) _

theorem printNat_cons (n : Nat) : ∃ b r, printNat n = b :: r ∧ IsDigit b := by
  cases h : printNat n with
  | nil => exact absurd h (printNat_ne_nil n)
  | cons b r => exact ⟨b, r, rfl, printNat_digits n b (by rw [h]; simp)⟩

theorem printNat_not_mem (n : Nat) (d : UInt8) (hd : ¬ IsDigit d) : d ∉ printNat n :=
  fun h => hd (printNat_digits n d h)

theorem parseUsize_printNat (n : Nat) (hn : n ≤ USIZE_MAX) : parseUsize (printNat n) = some n := by
  obtain ⟨b, r, e, hb⟩ := printNat_cons n
  have hp := Noodles.Text.parse_print n
  rw [e] at hp
  unfold parseUsize
  have hb43 : b ≠ 43 := by
    intro h; subst h; unfold IsDigit at hb; simp at hb
  rw [e]
  split
  · rename_i r' heq
    injection heq with h1 h2
    exact absurd h1 hb43
  · rw [hp]; simp [hn]

theorem parseI32_printInt (n : Int) (lo : -2147483648 ≤ n) (hi : n ≤ 2147483647) :
    parseI32 (printInt n) = some n := by
  unfold printInt
  split
  · rename_i hneg
    unfold parseI32
    have hp := Noodles.Text.parse_print n.natAbs
    simp only [hp, Option.bind]
    have : n.natAbs ≤ 2147483648 := by omega
    simp only [this, if_true]
    congr 1; simp only [Int.ofNat_eq_natCast]; omega
  · rename_i hpos
    obtain ⟨b, r, e, hb⟩ := printNat_cons n.natAbs
    have hp := Noodles.Text.parse_print n.natAbs
    rw [e] at hp
    unfold parseI32
    rw [e]
    have hb43 : b ≠ 43 := by intro h; subst h; unfold IsDigit at hb; simp at hb
    have hb45 : b ≠ 45 := by intro h; subst h; unfold IsDigit at hb; simp at hb
    split
    · rename_i heq; cases heq
    · rename_i r' heq; injection heq with h1 _; exact absurd h1 hb43
    · rename_i r' heq; injection heq with h1 _; exact absurd h1 hb45
    · rw [hp]
      have : n.natAbs ≤ 2147483647 := by omega
      simp only [Option.bind, this, if_true]
      congr 1; simp only [Int.ofNat_eq_natCast]; omega

theorem printInt_chars (n : Int) : ∀ b ∈ printInt n, IsDigit b ∨ b = 45 := by
  unfold printInt
  split
  · intro b hb
    rcases List.mem_cons.mp hb with rfl | hb
    · right; rfl
    · left; exact printNat_digits _ b hb
  · intro b hb; left; exact printNat_digits _ b hb

theorem printInt_ne_nil (n : Int) : printInt n ≠ [] := by
  unfold printInt; split
  · simp
  · exact printNat_ne_nil _

/-! ### fields -/

theorem nextField_append (f rest : Bytes) (hf : TAB ∉ f) : nextField (f ++ TAB :: rest) = (f, rest) := by
  induction f with
  | nil => simp [nextField]
  | cons b r ih =>
    have hb : b ≠ TAB := fun h => hf (by simp [h])
    have hr : TAB ∉ r := fun h => hf (List.mem_cons_of_mem _ h)
    simp [nextField, hb, ih hr]

theorem nextField_last (f : Bytes) (hf : TAB ∉ f) : nextField f = (f, []) := by
  induction f with
  | nil => simp [nextField]
  | cons b r ih =>
    have hb : b ≠ TAB := fun h => hf (by simp [h])
    have hr : TAB ∉ r := fun h => hf (List.mem_cons_of_mem _ h)
    simp [nextField, hb, ih hr]

theorem takeField_append (f rest : Bytes) (hf : TAB ∉ f) : takeField (f ++ TAB :: rest) = (f, some rest) := by
  induction f with
  | nil => simp [takeField]
  | cons b r ih =>
    have hb : b ≠ TAB := fun h => hf (by simp [h])
    have hr : TAB ∉ r := fun h => hf (List.mem_cons_of_mem _ h)
    simp [takeField, hb, ih hr]

theorem takeField_last (f : Bytes) (hf : TAB ∉ f) : takeField f = (f, none) := by
  induction f with
  | nil => simp [takeField]
  | cons b r ih =>
    have hb : b ≠ TAB := fun h => hf (by simp [h])
    have hr : TAB ∉ r := fun h => hf (List.mem_cons_of_mem _ h)
    simp [takeField, hb, ih hr]

/-- membership in a joined list -/
theorem mem_join (d : UInt8) (fs : List Bytes) (x : UInt8) (hx : x ∈ join d fs) :
    x = d ∨ ∃ f ∈ fs, x ∈ f := by
  induction fs with
  | nil => simp [join] at hx
  | cons f rest ih =>
    cases rest with
    | nil => simp only [join] at hx; exact Or.inr ⟨f, by simp, hx⟩
    | cons g gs =>
      simp only [join] at hx
      rcases List.mem_append.mp hx with h | h
      · exact Or.inr ⟨f, by simp, h⟩
      · rcases List.mem_cons.mp h with h | h
        · exact Or.inl h
        · rcases ih h with h | ⟨f', hf', hx'⟩
          · exact Or.inl h
          · exact Or.inr ⟨f', List.mem_cons_of_mem _ hf', hx'⟩

theorem not_mem_join (d x : UInt8) (fs : List Bytes) (hxd : x ≠ d) (h : ∀ f ∈ fs, x ∉ f) : x ∉ join d fs := by
  intro hx
  rcases mem_join d fs x hx with h1 | ⟨f, hf, hx'⟩
  · exact hxd h1
  · exact h f hf hx'

/-! ### UTF-8 characters -/

theorem isCont_ge (b : UInt8) (h : isCont b = true) : 128 ≤ b.toNat := by
  unfold isCont at h; simp at h; omega

theorem map_cons_eq_singleton {o : Option (List Bytes)} {x c : Bytes}
    (h : o.map (x :: ·) = some [c]) : x = c := by
  cases o with
  | none => simp at h
  | some l => simp at h; exact h.1

/-- a multi-byte character consists of bytes ≥ 0x80 only -/
theorem char_bytes_high (c : Bytes) (hc : utf8Chars c = some [c]) (hlen : c.length ≠ 1) :
    ∀ b ∈ c, 128 ≤ b.toNat := by
  cases c with
  | nil => rw [utf8Chars.eq_def] at hc; simp at hc
  | cons b0 rest =>
    rw [utf8Chars.eq_def] at hc
    simp only at hc
    split at hc
    · have := map_cons_eq_singleton hc
      injection this with _ h2
      subst h2; simp at hlen
    · rename_i h0
      cases rest with
      | nil => simp at hc
      | cons b1 r1 =>
        simp only at hc
        split at hc
        · split at hc
          · rename_i hc1
            have := map_cons_eq_singleton hc
            injection this with _ h2; injection h2 with _ h3; subst h3
            intro b hb
            simp at hb
            rcases hb with rfl | rfl
            · omega
            · exact isCont_ge _ hc1
          · simp at hc
        · cases r1 with
          | nil => simp at hc
          | cons b2 r2 =>
            simp only at hc
            split at hc
            · split at hc
              · rename_i hc1
                have := map_cons_eq_singleton hc
                injection this with _ h2; injection h2 with _ h3; injection h3 with _ h4; subst h4
                simp only [Bool.and_eq_true] at hc1
                intro b hb
                simp at hb
                rcases hb with rfl | rfl | rfl
                · omega
                · exact isCont_ge _ hc1.1.1.1
                · exact isCont_ge _ hc1.1.1.2
              · simp at hc
            · cases r2 with
              | nil => simp at hc
              | cons b3 r3 =>
                simp only at hc
                split at hc
                · split at hc
                  · rename_i hc1
                    have := map_cons_eq_singleton hc
                    injection this with _ h2; injection h2 with _ h3; injection h3 with _ h4
                    injection h4 with _ h5; subst h5
                    simp only [Bool.and_eq_true] at hc1
                    intro b hb
                    simp at hb
                    rcases hb with rfl | rfl | rfl | rfl
                    · omega
                    · exact isCont_ge _ hc1.1.1.1.1
                    · exact isCont_ge _ hc1.1.1.1.2
                    · exact isCont_ge _ hc1.1.1.2
                  · simp at hc
                · simp at hc

/-! ### percent-encoded strings and characters -/

open Noodles.Pct (encode decode hexDigit decode_encode encode_free decode_cons_ne)

def IsChar (c : Bytes) : Prop := utf8Chars c = some [c]

theorem decode_no_pct (s : Bytes) (h : (37 : UInt8) ∉ s) : decode s = s := by
  induction s with
  | nil => simp [decode]
  | cons b r ih =>
    have hb : b ≠ 37 := fun e => h (by simp [e])
    rw [decode_cons_ne b r hb, ih (fun e => h (List.mem_cons_of_mem _ e))]

theorem decode_pctByte (b : UInt8) : decode (pctByte b) = [b] := by
  have := decode_encode (fun _ => true) rfl [b]
  simpa [encode, pctByte] using this

theorem encode_eq_nil (esc : UInt8 → Bool) (s : Bytes) (h : encode esc s = []) : s = [] := by
  cases s with
  | nil => rfl
  | cons b r => unfold encode at h; split at h <;> simp at h

theorem parseString_writeString (esc : UInt8 → Bool) (hpct : esc 37 = true) (s : Bytes)
    (hu : utf8Valid s = true) : parseString (writeString esc s) = some s := by
  unfold writeString parseString
  split
  · rename_i h; subst h
    have e : decode [37, 50, 69] = DOT := by
      have := decode_pctByte 46
      simpa [pctByte, hexDigit, DOT] using this
    simp only [e, hu, if_true]
  · simp only [decode_encode esc hpct s, hu, if_true]

theorem hexDigit_cases (n : Nat) (h : n < 16) (d : UInt8) (hd : hexDigit n = d) :
    (48 ≤ d.toNat ∧ d.toNat ≤ 57) ∨ (65 ≤ d.toNat ∧ d.toNat ≤ 70) := by
  subst hd
  unfold hexDigit
  split
  · left; have : (UInt8.ofNat (48 + n)).toNat = 48 + n := by simp; omega
    omega
  · right; have : (UInt8.ofNat (55 + n)).toNat = 55 + n := by simp; omega
    omega

/-- a byte that is neither `%` nor an upper-case hex digit -/
def NotHex (d : UInt8) : Prop := d ≠ 37 ∧ ¬ (48 ≤ d.toNat ∧ d.toNat ≤ 57) ∧ ¬ (65 ≤ d.toNat ∧ d.toNat ≤ 70)

theorem NotHex.hex {d : UInt8} (h : NotHex d) : ∀ n, n < 16 → hexDigit n ≠ d := by
  intro n hn e
  rcases hexDigit_cases n hn d e with h1 | h1
  · exact h.2.1 h1
  · exact h.2.2 h1

theorem writeString_free (esc : UInt8 → Bool) (s : Bytes) (d : UInt8) (hd : esc d = true)
    (hn : NotHex d) : d ∉ writeString esc s := by
  unfold writeString
  split
  · intro hm
    simp at hm
    rcases hm with rfl | rfl | rfl
    · exact hn.1 rfl
    · exact hn.2.1 (by decide)
    · exact hn.2.2 (by decide)
  · exact encode_free esc s d hd hn.1 hn.hex

theorem writeString_ne_dot (esc : UInt8 → Bool) (s : Bytes) : writeString esc s ≠ DOT := by
  unfold writeString
  split
  · decide
  · rename_i hs
    intro h
    apply hs
    cases s with
    | nil => simp [encode, DOT] at h
    | cons b r =>
      unfold encode at h
      split at h
      · simp [DOT] at h
      · simp only [DOT, List.cons.injEq] at h
        have := encode_eq_nil esc r h.2
        rw [h.1, this]; rfl

theorem writeString_ne_nil (esc : UInt8 → Bool) (s : Bytes) (hs : s ≠ []) : writeString esc s ≠ [] := by
  unfold writeString
  split
  · simp
  · intro h; exact hs (encode_eq_nil esc s h)

theorem parseChar_writeChar (set : UInt8 → Bool) (h37 : set 37 = true) (c : Bytes) (hc : IsChar c) :
    parseChar (writeChar set c) = some c := by
  unfold IsChar at hc
  unfold parseChar
  have key : decode (writeChar set c) = c := by
    unfold writeChar
    split
    · rename_i b
      split
      · exact decode_pctByte b
      · rename_i hne
        apply decode_no_pct
        intro hm
        simp at hm
        rw [← hm] at hne
        simp [h37] at hne
    · rename_i hne
      apply decode_no_pct
      intro hm
      have hl : c.length ≠ 1 := by
        intro hl
        match c, hl with
        | [b], _ => exact hne b rfl
      have := char_bytes_high c hc hl 37 hm
      simp at this
  simp only [key, hc]

theorem pctByte_free (b d : UInt8) (hn : NotHex d) : d ∉ pctByte b := by
  unfold pctByte
  intro hm
  simp at hm
  rcases hm with rfl | h | h
  · exact hn.1 rfl
  · exact hn.hex _ (by have := b.toNat_lt; omega) h.symm
  · exact hn.hex _ (by omega) h.symm

theorem writeChar_free (set : UInt8 → Bool) (c : Bytes) (hc : IsChar c) (d : UInt8)
    (hd : isCtl d = true ∨ set d = true) (hlt : d.toNat < 128) (hn : NotHex d) : d ∉ writeChar set c := by
  unfold writeChar
  split
  · rename_i b
    split
    · exact pctByte_free b d hn
    · rename_i hne
      intro hm
      simp at hm
      subst hm
      rcases hd with h | h <;> simp [h] at hne
  · rename_i hne
    intro hm
    have hl : c.length ≠ 1 := by
      intro hl
      match c, hl with
      | [b], _ => exact hne b rfl
    have := char_bytes_high c hc hl d hm
    omega

theorem writeChar_ne_dot (set : UInt8 → Bool) (h46 : set 46 = true) (c : Bytes) : writeChar set c ≠ DOT := by
  unfold writeChar
  split
  · rename_i b
    split
    · simp [pctByte, DOT]
    · rename_i hne
      intro h
      simp [DOT] at h
      subst h
      simp [h46] at hne
  · rename_i hne
    intro h
    exact hne 46 h

theorem writeChar_ne_nil (set : UInt8 → Bool) (c : Bytes) (hc : IsChar c) : writeChar set c ≠ [] := by
  unfold writeChar
  split
  · split <;> simp [pctByte]
  · intro h
    subst h
    unfold IsChar at hc
    rw [utf8Chars.eq_def] at hc
    simp at hc

/-! ### arrays -/

/-- the float law the theorems assume: on the canonical bit patterns, parsing inverts formatting
and the text is non-empty, not `.` and free of the VCF delimiters (TAB `;` `,` `:`) -/
structure FloatFmt.Lawful (F : FloatFmt) (canon : Nat → Prop) : Prop where
  roundtrip : ∀ b, canon b → F.prs (F.fmt b) = some b
  ne_nil : ∀ b, canon b → F.fmt b ≠ []
  ne_dot : ∀ b, canon b → F.fmt b ≠ DOT
  plain : ∀ b, canon b → ∀ x ∈ F.fmt b, x ≠ 9 ∧ x ≠ 59 ∧ x ≠ 44 ∧ x ≠ 58

/-- what the array lemma needs of one element -/
def ElemOK {α : Type} (w : α → Option Bytes) (p : Bytes → Option α) (D : List UInt8) (x : α) : Prop :=
  ∃ t, w x = some t ∧ p t = some x ∧ t ≠ DOT ∧ t ≠ [] ∧ (44 : UInt8) ∉ t ∧ ∀ d ∈ D, d ∉ t

theorem optList_spec {α : Type} (w : α → Option Bytes) (p : Bytes → Option α) (D : List UInt8)
    (hD : (46 : UInt8) ∉ D) (l : List (Option α)) (h : ∀ x, some x ∈ l → ElemOK w p D x) :
    ∃ ts, writeOptList w l = some ts ∧ parseOptList p ts = some l ∧ ts.length = l.length ∧
      (∀ t ∈ ts, t ≠ [] ∧ (44 : UInt8) ∉ t ∧ ∀ d ∈ D, d ∉ t) ∧
      (∀ t, ts = [t] → t = DOT → l = [none]) := by
  induction l with
  | nil => exact ⟨[], rfl, rfl, rfl, by simp, by simp⟩
  | cons a r ih =>
    obtain ⟨ts, h1, h2, h3, h4, _⟩ := ih (fun x hx => h x (List.mem_cons_of_mem _ hx))
    cases a with
    | none =>
      refine ⟨DOT :: ts, by simp [writeOptList, h1], by simp [parseOptList, h2], by simp [h3], ?_, ?_⟩
      · intro t ht
        rcases List.mem_cons.mp ht with rfl | ht
        · refine ⟨by simp [DOT], by simp [DOT], ?_⟩
          intro d hd hm
          simp [DOT] at hm; subst hm; exact hD hd
        · exact h4 t ht
      · intro t ht _
        simp at ht
        have : ts = [] := ht.2
        subst this
        have : r = [] := by
          cases r with
          | nil => rfl
          | cons a b => simp at h3
        rw [this]
    | some x =>
      obtain ⟨t, w1, p1, nd, nn, nc, nD⟩ := h x (by simp)
      refine ⟨t :: ts, by simp [writeOptList, w1, h1], ?_, by simp [h3], ?_, ?_⟩
      · simp [parseOptList, nd, p1, h2]
      · intro t' ht
        rcases List.mem_cons.mp ht with rfl | ht
        · exact ⟨nn, nc, nD⟩
        · exact h4 t' ht
      · intro t' ht hdot
        simp at ht
        rw [← ht.1] at hdot
        exact absurd hdot nd

theorem join_singleton_or_comma (ts : List Bytes) (hne : ts ≠ []) :
    (∃ t, ts = [t] ∧ join 44 ts = t) ∨ (44 : UInt8) ∈ join 44 ts := by
  cases ts with
  | nil => exact absurd rfl hne
  | cons t r =>
    cases r with
    | nil => left; exact ⟨t, rfl, rfl⟩
    | cons g gs => right; simp [join]

theorem array_spec {α : Type} (w : α → Option Bytes) (p : Bytes → Option α) (D : List UInt8)
    (hD46 : (46 : UInt8) ∉ D) (hD44 : (44 : UInt8) ∉ D) (l : List (Option α)) (hne : l ≠ [])
    (hnm : l ≠ [none]) (h : ∀ x, some x ∈ l → ElemOK w p D x) :
    ∃ text, writeArray w l = some text ∧ parseArray p text = some l ∧ text ≠ DOT ∧ text ≠ [] ∧
      ∀ d ∈ D, d ∉ text := by
  obtain ⟨ts, h1, h2, h3, h4, h5⟩ := optList_spec w p D hD46 l h
  have tsne : ts ≠ [] := by
    intro e; subst e
    cases l with
    | nil => exact hne rfl
    | cons a b => simp at h3
  refine ⟨join 44 ts, by simp [writeArray, h1], ?_, ?_, ?_, ?_⟩
  · unfold parseArray
    rw [Noodles.Text.splitOn_join 44 ts tsne (fun f hf => (h4 f hf).2.1), h2]
  · intro e
    rcases join_singleton_or_comma ts tsne with ⟨t, e1, e2⟩ | hc
    · rw [e2] at e
      exact hnm (h5 t e1 e)
    · rw [e] at hc; simp [DOT] at hc
  · intro e
    rcases join_singleton_or_comma ts tsne with ⟨t, e1, e2⟩ | hc
    · rw [e2] at e
      exact (h4 t (by rw [e1]; simp)).1 e
    · rw [e] at hc; simp at hc
  · intro d hd
    apply not_mem_join
    · intro e; subst e; exact hD44 hd
    · intro f hf; exact (h4 f hf).2.2 d hd

/-! ### typed values -/

/-- what the value lemmas need of a context (INFO: `escInfo`, `chrInfo`, `;` — samples:
`escSample`, `chrSample`, `:`) -/
structure VCtx (esc set : UInt8 → Bool) (d : UInt8) : Prop where
  esc37 : esc 37 = true
  esc9 : esc 9 = true
  escd : esc d = true
  esc44 : esc 44 = true
  set37 : set 37 = true
  set46 : set 46 = true
  setd : set d = true
  set44 : set 44 = true
  hd : d = 59 ∨ d = 58

theorem vctxInfo : VCtx escInfo chrInfo 59 := by constructor <;> decide
theorem vctxSample : VCtx escSample chrSample 58 := by constructor <;> decide

def I32Ok (n : Int) : Prop := I32_MIN_VALID ≤ n ∧ n ≤ 2147483647

/-- a value of the shape and type the header declares for its key, inside the text grammar:
integers the writer accepts, canonical floats, one character, valid non-empty UTF-8, arrays that
are neither empty nor the single missing entry -/
inductive ValOK (canon : Nat → Prop) : Shape → Ty → Val → Prop
  | int (n : Int) : I32Ok n → ValOK canon .one .integer (.integer n)
  | float (b : Nat) : canon b → ValOK canon .one .float (.float b)
  | char (c : Bytes) : IsChar c → ValOK canon .one .character (.character c)
  | str (s : Bytes) : utf8Valid s = true → s ≠ [] → ValOK canon .one .string (.string s)
  | ints (l : List (Option Int)) : l ≠ [] → l ≠ [none] → (∀ n, some n ∈ l → I32Ok n) →
      ValOK canon .many .integer (.ints l)
  | floats (l : List (Option Nat)) : l ≠ [] → l ≠ [none] → (∀ b, some b ∈ l → canon b) →
      ValOK canon .many .float (.floats l)
  | chars (l : List (Option Bytes)) : l ≠ [] → l ≠ [none] → (∀ c, some c ∈ l → IsChar c) →
      ValOK canon .many .character (.chars l)
  | strs (l : List (Option Bytes)) : l ≠ [] → l ≠ [none] →
      (∀ s, some s ∈ l → utf8Valid s = true ∧ s ≠ []) → ValOK canon .many .string (.strings l)

theorem notHex_9 : NotHex 9 := by unfold NotHex; decide
theorem notHex_44 : NotHex 44 := by unfold NotHex; decide
theorem notHex_58 : NotHex 58 := by unfold NotHex; decide
theorem notHex_59 : NotHex 59 := by unfold NotHex; decide

theorem VCtx.notHex {esc set d} (c : VCtx esc set d) : NotHex d := by
  rcases c.hd with rfl | rfl
  · exact notHex_59
  · exact notHex_58

theorem VCtx.lt {esc set d} (c : VCtx esc set d) : d.toNat < 128 := by
  rcases c.hd with rfl | rfl <;> decide

theorem VCtx.notDigit {esc set d} (c : VCtx esc set d) : ¬ IsDigit d ∧ d ≠ 45 ∧ d ≠ 46 ∧ d ≠ 44 ∧ d ≠ 9 := by
  rcases c.hd with rfl | rfl <;> (unfold IsDigit; decide)

theorem elem_int {esc set d} (c : VCtx esc set d) (n : Int) (hn : I32Ok n) :
    ElemOK writeInt parseI32 [9, d] n := by
  have hch := printInt_chars n
  have nm : ∀ x : UInt8, ¬ IsDigit x → x ≠ 45 → x ∉ printInt n := by
    intro x h1 h2 hm
    rcases hch x hm with h | h
    · exact h1 h
    · exact h2 h
  refine ⟨printInt n, ?_, ?_, ?_, printInt_ne_nil n, ?_, ?_⟩
  · unfold writeInt; simp [hn.1]
  · exact parseI32_printInt n (by have := hn.1; unfold I32_MIN_VALID at this; omega) hn.2
  · intro e
    have : (46 : UInt8) ∈ printInt n := by rw [e]; simp [DOT]
    exact nm 46 (by unfold IsDigit; decide) (by decide) this
  · exact nm 44 (by unfold IsDigit; decide) (by decide)
  · intro x hx
    simp at hx
    rcases hx with rfl | rfl
    · exact nm 9 (by unfold IsDigit; decide) (by decide)
    · exact nm _ c.notDigit.1 c.notDigit.2.1

theorem elem_float {esc set d} (c : VCtx esc set d) (F : FloatFmt) (canon : Nat → Prop)
    (hF : F.Lawful canon) (b : Nat) (hb : canon b) :
    ElemOK (fun b => some (F.fmt b)) F.prs [9, d] b := by
  have hp := hF.plain b hb
  refine ⟨F.fmt b, rfl, hF.roundtrip b hb, hF.ne_dot b hb, hF.ne_nil b hb, ?_, ?_⟩
  · intro hm; exact (hp 44 hm).2.2.1 rfl
  · intro x hx
    simp at hx
    rcases hx with rfl | rfl
    · intro hm; exact (hp 9 hm).1 rfl
    · intro hm
      rcases c.hd with rfl | rfl
      · exact (hp 59 hm).2.1 rfl
      · exact (hp 58 hm).2.2.2 rfl

theorem elem_char {esc set d} (c : VCtx esc set d) (ch : Bytes) (hc : IsChar ch) :
    ElemOK (fun ch => some (writeChar set ch)) parseChar [9, d] ch := by
  refine ⟨writeChar set ch, rfl, parseChar_writeChar set c.set37 ch hc, writeChar_ne_dot set c.set46 ch,
    writeChar_ne_nil set ch hc, ?_, ?_⟩
  · exact writeChar_free set ch hc 44 (Or.inr c.set44) (by decide) notHex_44
  · intro x hx
    simp at hx
    rcases hx with rfl | rfl
    · exact writeChar_free set ch hc 9 (Or.inl (by decide)) (by decide) notHex_9
    · exact writeChar_free set ch hc _ (Or.inr c.setd) c.lt c.notHex

theorem elem_str {esc set d} (c : VCtx esc set d) (st : Bytes) (hu : utf8Valid st = true) (hne : st ≠ []) :
    ElemOK (fun st => some (writeString esc st)) parseString [9, d] st := by
  refine ⟨writeString esc st, rfl, parseString_writeString esc c.esc37 st hu, writeString_ne_dot esc st,
    writeString_ne_nil esc st hne, ?_, ?_⟩
  · exact writeString_free esc st 44 c.esc44 notHex_44
  · intro x hx
    simp at hx
    rcases hx with rfl | rfl
    · exact writeString_free esc st 9 c.esc9 notHex_9
    · exact writeString_free esc st _ c.escd c.notHex

theorem ElemOK.scalar {α : Type} {w : α → Option Bytes} {p : Bytes → Option α} {d : UInt8} {x : α}
    (h : ElemOK w p [9, d] x) :
    ∃ t, w x = some t ∧ p t = some x ∧ t ≠ DOT ∧ t ≠ [] ∧ (9 : UInt8) ∉ t ∧ d ∉ t := by
  obtain ⟨t, a, b, c, e, _, g⟩ := h
  exact ⟨t, a, b, c, e, g 9 (by simp), g d (by simp)⟩

theorem array_spec' {α : Type} {esc set d} (c : VCtx esc set d) (w : α → Option Bytes)
    (p : Bytes → Option α) (l : List (Option α)) (hne : l ≠ []) (hnm : l ≠ [none])
    (h : ∀ x, some x ∈ l → ElemOK w p [9, d] x) :
    ∃ t, writeArray w l = some t ∧ parseArray p t = some l ∧ t ≠ DOT ∧ t ≠ [] ∧ (9 : UInt8) ∉ t ∧ d ∉ t := by
  have h46 : (46 : UInt8) ∉ [9, d] := by
    simp; exact fun e => c.notDigit.2.2.1 e.symm
  have h44 : (44 : UInt8) ∉ [9, d] := by
    simp; exact fun e => c.notDigit.2.2.2.1 e.symm
  obtain ⟨t, a, b, e, f, g⟩ := array_spec w p [9, d] h46 h44 l hne hnm h
  exact ⟨t, a, b, e, f, g 9 (by simp), g d (by simp)⟩

/-- every well-typed value is written, reads back as itself, and its text is non-empty, not `.`,
and free of TAB and of the column's field delimiter -/
theorem typed_spec {esc set d} (c : VCtx esc set d) (F : FloatFmt) (canon : Nat → Prop)
    (hF : F.Lawful canon) (h : Hdr) (sh : Shape) (ty : Ty) (v : Val) (hv : ValOK canon sh ty v) :
    ∃ t, writeVal F h esc set v = some t ∧ parseTyped F sh ty t = some v ∧ t ≠ DOT ∧ t ≠ [] ∧
      (9 : UInt8) ∉ t ∧ d ∉ t := by
  cases hv with
  | int n hn =>
    obtain ⟨t, a, b, r⟩ := (elem_int c n hn).scalar
    exact ⟨t, by simpa [writeVal] using a, by simp [parseTyped, b], r⟩
  | float b hb =>
    obtain ⟨t, a, b', r⟩ := (elem_float c F canon hF b hb).scalar
    exact ⟨t, by simpa [writeVal] using a, by simp [parseTyped, b'], r⟩
  | char ch hc =>
    obtain ⟨t, a, b, r⟩ := (elem_char c ch hc).scalar
    exact ⟨t, by simpa [writeVal] using a, by simp [parseTyped, b], r⟩
  | str st hu hne =>
    obtain ⟨t, a, b, r⟩ := (elem_str c st hu hne).scalar
    exact ⟨t, by simpa [writeVal] using a, by simp [parseTyped, b], r⟩
  | ints l hne hnm hl =>
    obtain ⟨t, a, b, r⟩ := array_spec' c writeInt parseI32 l hne hnm (fun n hn => elem_int c n (hl n hn))
    exact ⟨t, by simpa [writeVal] using a, by simp [parseTyped, b], r⟩
  | floats l hne hnm hl =>
    obtain ⟨t, a, b, r⟩ := array_spec' c (fun b => some (F.fmt b)) F.prs l hne hnm
      (fun b hb => elem_float c F canon hF b (hl b hb))
    exact ⟨t, by simpa [writeVal] using a, by simp [parseTyped, b], r⟩
  | chars l hne hnm hl =>
    obtain ⟨t, a, b, r⟩ := array_spec' c (fun ch => some (writeChar set ch)) parseChar l hne hnm
      (fun ch hc => elem_char c ch (hl ch hc))
    exact ⟨t, by simpa [writeVal] using a, by simp [parseTyped, b], r⟩
  | strs l hne hnm hl =>
    obtain ⟨t, a, b, r⟩ := array_spec' c (fun st => some (writeString esc st)) parseString l hne hnm
      (fun st hs => elem_str c st (hl st hs).1 (hl st hs).2)
    exact ⟨t, by simpa [writeVal] using a, by simp [parseTyped, b], r⟩

/-- on a non-empty text the lazy typed reader is the eager one -/
theorem lazyTyped_eq (F : FloatFmt) (sh : Shape) (ty : Ty) (t : Bytes) (ht : t ≠ []) :
    lazyTyped F sh ty t = parseTyped F sh ty t := by
  cases sh <;> cases ty <;> simp [lazyTyped, parseTyped, lazyArray, ht]

/-! ### genotypes -/

/-- the first allele's phasing is not in the text before VCF 4.4: the reader's inference is the
normal form -/
def normGt (h : Hdr) (g : List Allele) : List Allele :=
  if h.before 4 4 then
    match g with
    | [] => []
    | a :: r => ⟨a.pos, impliedFirst r⟩ :: r
  else g

def AlleleOk (a : Allele) : Prop := ∀ n, a.pos = some n → n ≤ USIZE_MAX

/-- bytes of an allele position: digits or `.` -/
def PosByte (b : UInt8) : Prop := IsDigit b ∨ b = 46

theorem writeAllelePos_bytes (p : Option Nat) : ∀ b ∈ writeAllelePos p, PosByte b := by
  cases p with
  | none => intro b hb; simp [writeAllelePos, DOT] at hb; right; exact hb
  | some n => intro b hb; left; exact printNat_digits n b hb

theorem writeAllelePos_ne_nil (p : Option Nat) : writeAllelePos p ≠ [] := by
  cases p with
  | none => simp [writeAllelePos, DOT]
  | some n => exact printNat_ne_nil n

theorem posByte_not_phasing (b : UInt8) (h : PosByte b) : isPhasing b = false := by
  unfold isPhasing
  rcases h with h | h
  · unfold IsDigit at h
    have h1 : b ≠ 47 := by intro e; subst e; simp at h
    have h2 : b ≠ 124 := by intro e; subst e; simp at h
    simp [h1, h2]
  · subst h; decide

theorem isPhasing_phasingByte (p : Bool) : isPhasing (phasingByte p) = true := by
  cases p <;> decide

theorem parseAllelePos_write (p : Option Nat) (hp : ∀ n, p = some n → n ≤ USIZE_MAX) :
    parseAllelePos (writeAllelePos p) = some p := by
  cases p with
  | none => simp [parseAllelePos, writeAllelePos]
  | some n =>
    unfold parseAllelePos writeAllelePos
    have : printNat n ≠ DOT := by
      intro e
      have := printNat_digits n 46 (by rw [e]; simp [DOT])
      unfold IsDigit at this; simp at this
    simp [this, parseUsize_printNat n (hp n rfl)]

/-- `spanAllele` stops exactly at the next allele -/
theorem spanAllele_write (u : Bytes) (hu : ∀ b ∈ u, PosByte b) (r : List Allele) :
    spanAllele (u ++ writeGt44 r) = (u, writeGt44 r) := by
  induction u with
  | nil =>
    cases r with
    | nil => simp [writeGt44, spanAllele]
    | cons a r => simp [writeGt44, spanAllele, isPhasing_phasingByte]
  | cons b u ih =>
    have hb := posByte_not_phasing b (hu b (by simp))
    have := ih (fun x hx => hu x (List.mem_cons_of_mem _ hx))
    simp [spanAllele, hb, this]

theorem nextAllele_write (b : UInt8) (u : Bytes) (hu : ∀ x ∈ u, PosByte x) (r : List Allele) :
    nextAllele (b :: (u ++ writeGt44 r)) = (b :: u, writeGt44 r) := by
  simp [nextAllele, spanAllele_write u hu r]

theorem phasingByte_124 (ph : Bool) : decide (phasingByte ph = 124) = ph := by
  cases ph <;> decide

theorem parseAllele_write (a : Allele) (ha : AlleleOk a) :
    parseAllele (phasingByte a.phased :: writeAllelePos a.pos) = some a := by
  simp [parseAllele, isPhasing_phasingByte, parseAllelePos_write a.pos ha, phasingByte_124]

theorem parseFirstAllele_explicit (a : Allele) (ha : AlleleOk a) :
    parseFirstAllele (phasingByte a.phased :: writeAllelePos a.pos) = some (a.pos, some a.phased) := by
  simp [parseFirstAllele, isPhasing_phasingByte, parseAllelePos_write a.pos ha, phasingByte_124]

theorem parseFirstAllele_implicit (p : Option Nat) (hp : ∀ n, p = some n → n ≤ USIZE_MAX) :
    parseFirstAllele (writeAllelePos p) = some (p, none) := by
  have hpos := parseAllelePos_write p hp
  cases e : writeAllelePos p with
  | nil => exact absurd e (writeAllelePos_ne_nil p)
  | cons b u =>
    have hb := posByte_not_phasing b (writeAllelePos_bytes p b (by rw [e]; simp))
    rw [e] at hpos
    simp [parseFirstAllele, hb, hpos]

theorem parseAlleles_write (r : List Allele) (hr : ∀ a ∈ r, AlleleOk a) :
    ∀ fuel, r.length < fuel → parseAlleles fuel (writeGt44 r) = some r := by
  induction r with
  | nil => intro fuel hf; cases fuel with
    | zero => omega
    | succ f => simp [parseAlleles, writeGt44]
  | cons a r ih =>
    intro fuel hf
    cases fuel with
    | zero => omega
    | succ f =>
      have hrest := ih (fun x hx => hr x (List.mem_cons_of_mem _ hx)) f (by simp at hf; omega)
      have hn := nextAllele_write (phasingByte a.phased) (writeAllelePos a.pos) (writeAllelePos_bytes a.pos) r
      have hp := parseAllele_write a (hr a (by simp))
      unfold parseAlleles
      simp [writeGt44, hn, hp, hrest]

theorem writeGt44_length (r : List Allele) : r.length ≤ (writeGt44 r).length := by
  induction r with
  | nil => simp [writeGt44]
  | cons a r ih => simp [writeGt44]; omega

theorem writeGt44_any_slash (r : List Allele) :
    (writeGt44 r).any (· = 47) = r.any (fun a => !a.phased) := by
  induction r with
  | nil => simp [writeGt44]
  | cons a r ih =>
    have hpos : (writeAllelePos a.pos).any (· = 47) = false := by
      rw [List.any_eq_false]
      intro b hb
      have := posByte_not_phasing b (writeAllelePos_bytes a.pos b hb)
      unfold isPhasing at this
      simp at this
      simp [this.1]
    simp only [writeGt44, List.any_cons, List.any_append, hpos, ih]
    cases a with
    | mk p ph => cases ph <;> simp [phasingByte]

theorem impliedFirst_eq (r : List Allele) : impliedFirst r = !(r.any (fun a => !a.phased)) := by
  unfold impliedFirst
  induction r with
  | nil => simp
  | cons a r ih => simp only [List.all_cons, List.any_cons, ih]; cases a.phased <;> simp

/-- bytes of a genotype text -/
theorem writeGt44_bytes (r : List Allele) : ∀ b ∈ writeGt44 r, PosByte b ∨ b = 47 ∨ b = 124 := by
  induction r with
  | nil => simp [writeGt44]
  | cons a r ih =>
    intro b hb
    rw [writeGt44] at hb
    rcases List.mem_cons.mp hb with h | hb
    · right; subst h; cases a.phased <;> simp [phasingByte]
    · rcases List.mem_append.mp hb with h | h
      · left; exact writeAllelePos_bytes _ b h
      · exact ih b h

theorem writeGenotype_bytes (h : Hdr) (g : List Allele) :
    ∀ b ∈ writeGenotype h g, PosByte b ∨ b = 47 ∨ b = 124 := by
  unfold writeGenotype
  split
  · cases g with
    | nil => simp [writeGt40]
    | cons a r =>
      intro b hb
      rw [writeGt40] at hb
      rcases List.mem_append.mp hb with hb | hb
      · left; exact writeAllelePos_bytes _ b hb
      · exact writeGt44_bytes r b hb
  · exact writeGt44_bytes g

theorem gtByte_free (b d : UInt8) (hb : PosByte b ∨ b = 47 ∨ b = 124) (hd : d = 9 ∨ d = 58 ∨ d = 44) : b ≠ d := by
  intro e; subst e
  rcases hb with (h | h) | h | h
  · unfold IsDigit at h; rcases hd with rfl | rfl | rfl <;> simp at h
  · rcases hd with rfl | rfl | rfl <;> simp at h
  · rcases hd with rfl | rfl | rfl <;> simp at h
  · rcases hd with rfl | rfl | rfl <;> simp at h

/-- the genotype round trip, for the eager and the lazy reader -/
theorem genotype_spec (h : Hdr) (g : List Allele) (hne : g ≠ []) (hok : ∀ a ∈ g, AlleleOk a)
    (hdot : h.before 4 4 = true → ∀ ph, g ≠ [⟨none, ph⟩]) :
    parseGenotype (writeGenotype h g) = some (normGt h g) ∧
    lazyGenotype (writeGenotype h g) = some (normGt h g) ∧
    writeGenotype h g ≠ DOT ∧ writeGenotype h g ≠ [] := by
  cases g with
  | nil => exact absurd rfl hne
  | cons a r =>
    have ha : AlleleOk a := hok a (by simp)
    have hpos := parseAllelePos_write a.pos ha
    have hr : ∀ x ∈ r, AlleleOk x := fun x hx => hok x (List.mem_cons_of_mem _ hx)
    have hfuel := parseAlleles_write r hr ((writeGt44 r).length + 1) (by have := writeGt44_length r; omega)
    unfold writeGenotype normGt
    by_cases hv : h.before 4 4 = true
    · simp only [hv, if_true, writeGt40]
      have hfirst := parseFirstAllele_implicit a.pos ha
      cases e : writeAllelePos a.pos with
      | nil => exact absurd e (writeAllelePos_ne_nil _)
      | cons b u =>
        have hbytes := writeAllelePos_bytes a.pos
        rw [e] at hbytes hfirst hpos
        have hb := posByte_not_phasing b (hbytes b (by simp))
        have hn := nextAllele_write b u (fun x hx => hbytes x (List.mem_cons_of_mem _ hx)) r
        refine ⟨?_, ?_, ?_, ?_⟩
        · unfold parseGenotype
          simp [hn, hfirst, hfuel]
        · unfold lazyGenotype
          simp [hn, hb, hpos, hfuel, writeGt44_any_slash, impliedFirst_eq]
        · intro ed
          cases r with
          | nil =>
            simp only [writeGt44, List.append_nil] at ed
            cases hp : a.pos with
            | none => exact hdot hv a.phased (by cases a; simp_all)
            | some n =>
              rw [hp, writeAllelePos] at e
              have := printNat_digits n 46 (by rw [e, ed]; simp [DOT])
              unfold IsDigit at this; simp at this
          | cons a2 r2 =>
            have : (b :: u ++ writeGt44 (a2 :: r2)).length = 1 := by rw [ed]; rfl
            simp [writeGt44] at this
        · simp
    · simp only [hv, if_false]
      have hn := nextAllele_write (phasingByte a.phased) (writeAllelePos a.pos) (writeAllelePos_bytes a.pos) r
      have hfirst := parseFirstAllele_explicit a ha
      refine ⟨?_, ?_, ?_, ?_⟩
      · unfold parseGenotype
        simp [writeGt44, hn, hfirst, hfuel]
      · unfold lazyGenotype
        simp [writeGt44, hn, isPhasing_phasingByte, hpos, hfuel, phasingByte_124]
      · intro ed
        have : (46 : UInt8) = phasingByte a.phased := by
          simp only [writeGt44, DOT] at ed
          injection ed with h1 _
          exact h1.symm
        have h2 : ∀ ph : Bool, (46 : UInt8) ≠ phasingByte ph := by intro ph; cases ph <;> decide
        exact h2 _ this
      · simp [writeGt44]

/-! ### whitespace-free strings -/

theorem map_cons_some {o : Option (List Bytes)} {x : Bytes} {cs : List Bytes}
    (h : o.map (x :: ·) = some cs) : ∃ cs', o = some cs' ∧ cs = x :: cs' := by
  cases o with
  | none => simp at h
  | some l => simp at h; exact ⟨l, rfl, h.symm⟩

/-- an ASCII byte of a valid UTF-8 string is one of its characters -/
theorem ascii_mem_chars (s : Bytes) : ∀ cs, utf8Chars s = some cs → ∀ b ∈ s, b.toNat < 128 → [b] ∈ cs := by
  fun_induction utf8Chars s with
  | case1 => intro cs _ b hb; simp at hb
  | case2 b0 rest n hlt ih =>
    intro cs h b hb hlt'
    obtain ⟨cs', e1, e2⟩ := map_cons_some h
    subst e2
    rcases List.mem_cons.mp hb with rfl | hb
    · simp
    · exact List.mem_cons_of_mem _ (ih cs' e1 b hb hlt')
  | case3 => intro cs h; simp at h
  | case4 b0 n hge b1 r1 hr hc ih =>
    intro cs h b hb hlt'
    obtain ⟨cs', e1, e2⟩ := map_cons_some h
    subst e2
    rcases List.mem_cons.mp hb with rfl | hb
    · omega
    · rcases List.mem_cons.mp hb with rfl | hb
      · have := isCont_ge _ hc; omega
      · exact List.mem_cons_of_mem _ (ih cs' e1 b hb hlt')
  | case5 => intro cs h; simp at h
  | case6 => intro cs h; simp at h
  | case7 b0 n hge b1 hr b2 r2 hr3 hc ih =>
    intro cs h b hb hlt'
    obtain ⟨cs', e1, e2⟩ := map_cons_some h
    subst e2
    simp only [Bool.and_eq_true] at hc
    rcases List.mem_cons.mp hb with rfl | hb
    · omega
    · rcases List.mem_cons.mp hb with rfl | hb
      · have := isCont_ge _ hc.1.1.1; omega
      · rcases List.mem_cons.mp hb with rfl | hb
        · have := isCont_ge _ hc.1.1.2; omega
        · exact List.mem_cons_of_mem _ (ih cs' e1 b hb hlt')
  | case8 => intro cs h; simp at h
  | case9 => intro cs h; simp at h
  | case10 b0 n hge b1 hr b2 hr3 b3 r3 hr4 hc ih =>
    intro cs h b hb hlt'
    obtain ⟨cs', e1, e2⟩ := map_cons_some h
    subst e2
    simp only [Bool.and_eq_true] at hc
    rcases List.mem_cons.mp hb with rfl | hb
    · omega
    · rcases List.mem_cons.mp hb with rfl | hb
      · have := isCont_ge _ hc.1.1.1.1; omega
      · rcases List.mem_cons.mp hb with rfl | hb
        · have := isCont_ge _ hc.1.1.1.2; omega
        · rcases List.mem_cons.mp hb with rfl | hb
          · have := isCont_ge _ hc.1.1.2; omega
          · exact List.mem_cons_of_mem _ (ih cs' e1 b hb hlt')
  | case11 => intro cs h; simp at h
  | case12 => intro cs h; simp at h

theorem noWs_ascii (s : Bytes) (hu : utf8Valid s = true) (hw : hasWs s = false) (b : UInt8)
    (hb : b ∈ s) (hlt : b.toNat < 128) : isWsChar [b] = false := by
  unfold utf8Valid at hu
  unfold hasWs at hw
  cases e : utf8Chars s with
  | none => rw [e] at hu; simp at hu
  | some cs =>
    rw [e] at hw
    simp only at hw
    have hm := ascii_mem_chars s cs e b hb hlt
    rw [List.any_eq_false] at hw
    have := hw [b] hm
    simpa using this

theorem noWs_no_tab (s : Bytes) (hu : utf8Valid s = true) (hw : hasWs s = false) : TAB ∉ s := by
  intro hb
  have := noWs_ascii s hu hw TAB hb (by decide)
  simp [isWsChar, TAB] at this

/-! ### the fixed columns -/

theorem mapM'_id (valid : Bytes → Bool) (l : List Bytes) (h : ∀ x ∈ l, valid x = true) :
    mapM' (fun x => if valid x then some x else none) l = some l := by
  induction l with
  | nil => rfl
  | cons x r ih =>
    simp [mapM', h x (by simp), ih (fun y hy => h y (List.mem_cons_of_mem _ hy))]

theorem writeList_ok (valid : Bytes → Bool) (d : UInt8) (l : List Bytes) (h : ∀ x ∈ l, valid x = true) :
    writeList valid d l = some (if l = [] then DOT else join d l) := by
  unfold writeList
  split
  · rfl
  · simp [mapM'_id valid l h]

theorem join_ne_nil (d : UInt8) (l : List Bytes) (hl : l ≠ []) (h : ∀ x ∈ l, x ≠ []) : join d l ≠ [] := by
  cases l with
  | nil => exact absurd rfl hl
  | cons x r =>
    cases r with
    | nil => simpa [join] using h x (by simp)
    | cons y ys =>
      simp only [join]
      intro e
      have := List.append_eq_nil_iff.mp e
      exact h x (by simp) this.1

/-- a joined list equals a delimiter-free text only if it is that single text -/
theorem join_eq_single (d : UInt8) (l : List Bytes) (t : Bytes) (hd : d ∉ t) (hl : l ≠ [])
    (e : join d l = t) : l = [t] := by
  cases l with
  | nil => exact absurd rfl hl
  | cons x r =>
    cases r with
    | nil => simp [join] at e; rw [e]
    | cons y ys =>
      exfalso
      apply hd
      rw [← e]
      simp [join]

theorem hasDup_false_of_cons {x : Bytes} {r : List Bytes} (h : hasDup (x :: r) = false) :
    x ∉ r ∧ hasDup r = false := by
  simp [hasDup] at h
  exact ⟨h.1, h.2⟩

def IdLikeOk (x : Bytes) : Prop := utf8Valid x = true ∧ validIdLike x = true ∧ x ≠ [] ∧ x ≠ DOT
def AltOk (x : Bytes) : Prop := utf8Valid x = true ∧ validAlt x = true ∧ x ≠ [] ∧ x ≠ DOT

theorem contains_false {s : Bytes} {d : UInt8} (h : s.contains d = false) : d ∉ s := by
  intro hm
  have : s.contains d = true := List.contains_iff_mem.mpr hm
  rw [h] at this; cases this

theorem IdLikeOk.free {x : Bytes} (h : IdLikeOk x) : TAB ∉ x ∧ (59 : UInt8) ∉ x := by
  obtain ⟨hu, hv, _, _⟩ := h
  unfold validIdLike at hv
  simp only [Bool.and_eq_true, Bool.not_eq_true'] at hv
  exact ⟨noWs_no_tab x hu hv.1, contains_false hv.2⟩

theorem AltOk.free {x : Bytes} (h : AltOk x) : TAB ∉ x ∧ (44 : UInt8) ∉ x := by
  obtain ⟨hu, hv, _, _⟩ := h
  unfold validAlt at hv
  simp only [Bool.and_eq_true, Bool.not_eq_true'] at hv
  exact ⟨noWs_no_tab x hu hv.1, contains_false hv.2⟩

/-- text of a non-empty list column: not `.`, not empty, tab-free, and it splits back -/
theorem listColumn (d : UInt8) (hd46 : d ≠ 46) (hd9 : d ≠ TAB) (l : List Bytes) (hl : l ≠ [])
    (h : ∀ x ∈ l, x ≠ [] ∧ x ≠ DOT ∧ TAB ∉ x ∧ d ∉ x) :
    join d l ≠ DOT ∧ join d l ≠ [] ∧ TAB ∉ join d l ∧ splitOn d (join d l) = l := by
  refine ⟨?_, join_ne_nil d l hl (fun x hx => (h x hx).1), ?_, ?_⟩
  · intro e
    have := join_eq_single d l DOT (by simp [DOT]; exact fun e => hd46 e) hl e
    rw [this] at h
    exact (h DOT (by simp)).2.1 rfl
  · exact not_mem_join d TAB l (fun e => hd9 e.symm) (fun f hf => (h f hf).2.2.1)
  · exact Noodles.Text.splitOn_join d l hl (fun f hf => (h f hf).2.2.2)

theorem any_nil_false (l : List Bytes) (h : ∀ x ∈ l, x ≠ []) : (l.any (· = [])) = false := by
  rw [List.any_eq_false]
  intro x hx
  simpa using h x hx

theorem parseIds_ok (l : List Bytes) (hl : l ≠ []) (h : ∀ x ∈ l, IdLikeOk x) (hdup : hasDup l = false) :
    join 59 l ≠ DOT ∧ TAB ∉ join 59 l ∧ parseIds (join 59 l) = some l := by
  obtain ⟨a, b, c, e⟩ := listColumn 59 (by decide) (by decide) l hl
    (fun x hx => ⟨(h x hx).2.2.1, (h x hx).2.2.2, (h x hx).free.1, (h x hx).free.2⟩)
  refine ⟨a, c, ?_⟩
  unfold parseIds
  simp [b, e, any_nil_false l (fun x hx => (h x hx).2.2.1), hdup]

theorem parseFilters_ok (l : List Bytes) (hl : l ≠ []) (h : ∀ x ∈ l, IdLikeOk x) (hdup : hasDup l = false) :
    join 59 l ≠ DOT ∧ TAB ∉ join 59 l ∧ parseFilters (join 59 l) = some l := by
  obtain ⟨a, b, c, e⟩ := listColumn 59 (by decide) (by decide) l hl
    (fun x hx => ⟨(h x hx).2.2.1, (h x hx).2.2.2, (h x hx).free.1, (h x hx).free.2⟩)
  refine ⟨a, c, ?_⟩
  unfold parseFilters
  by_cases hp : join 59 l = PASS
  · have := join_eq_single 59 l PASS (by decide) hl hp
    rw [if_neg b, if_pos hp, this]
  · simp [b, hp, e, hdup]

theorem parseAlts_ok (l : List Bytes) (hl : l ≠ []) (h : ∀ x ∈ l, AltOk x) :
    join 44 l ≠ DOT ∧ TAB ∉ join 44 l ∧ parseAlts (join 44 l) = some l := by
  obtain ⟨a, b, c, e⟩ := listColumn 44 (by decide) (by decide) l hl
    (fun x hx => ⟨(h x hx).2.2.1, (h x hx).2.2.2, (h x hx).free.1, (h x hx).free.2⟩)
  refine ⟨a, c, ?_⟩
  unfold parseAlts
  simp [b, e]

/-- POS -/
theorem parsePos_ok (p : Option Nat) (hp : ∀ n, p = some n → 1 ≤ n ∧ n ≤ USIZE_MAX) :
    parsePos (writePos p) = some p ∧ TAB ∉ writePos p := by
  cases p with
  | none => exact ⟨by simp [parsePos, writePos], by simp [writePos, TAB]⟩
  | some n =>
    obtain ⟨h1, h2⟩ := hp n rfl
    refine ⟨?_, printNat_not_mem n TAB (by unfold IsDigit; decide)⟩
    unfold parsePos writePos
    have hne := printNat_ne_nil n
    have h48 : printNat n ≠ [48] := by
      intro e
      have := Noodles.Text.parse_print n
      rw [e] at this
      simp [parseNat, parseNatAux] at this
      omega
    simp only [hne, h48, if_false, parseUsize_printNat n h2]
    cases n with
    | zero => omega
    | succ k => rfl

/-- REF -/
def RefOk (s : Bytes) : Prop := s ≠ [] ∧ ∀ b ∈ s, resolveBase b = some b

theorem ref_ok (s : Bytes) (h : RefOk s) : mapM' resolveBase s = some s ∧ TAB ∉ s := by
  refine ⟨?_, ?_⟩
  · have := h.2
    clear h
    induction s with
    | nil => rfl
    | cons b r ih =>
      simp [mapM', this b (by simp), ih (fun x hx => this x (List.mem_cons_of_mem _ hx))]
  · intro hm
    have := h.2 TAB hm
    simp [resolveBase, TAB] at this

/-- CHROM -/
theorem validChromChar_ne_tab (b : UInt8) (h : validChromChar b = true) : b ≠ TAB := by
  intro e; subst e; simp [validChromChar, TAB] at h

theorem dropLast_getLast (r : Bytes) (x : UInt8) (h : r.getLast? = some x) : r = r.dropLast ++ [x] := by
  induction r with
  | nil => simp at h
  | cons a t ih =>
    cases t with
    | nil => simp at h; simp [h]
    | cons b u =>
      have : (b :: u).getLast? = some x := by simpa [List.getLast?_cons_cons] using h
      have := ih this
      simp only [List.dropLast_cons_cons, List.cons_append]
      rw [← this]

theorem chrom_ok (s : Bytes) (h : validChrom s = true) : TAB ∉ s := by
  unfold validChrom at h
  have key : ∀ t : Bytes, (match t with | [] => false | b :: r => b ≠ 42 && b ≠ 61 && validChromChar b && r.all validChromChar) = true →
      TAB ∉ t := by
    intro t ht hm
    cases t with
    | nil => simp at hm
    | cons b r =>
      simp only [Bool.and_eq_true] at ht
      rcases List.mem_cons.mp hm with e | hm
      · exact validChromChar_ne_tab b ht.1.2 e.symm
      · have := List.all_eq_true.mp ht.2 TAB hm
        exact validChromChar_ne_tab TAB this rfl
  cases s with
  | nil => simp
  | cons a r =>
    by_cases ha : a = 60
    · subst ha
      by_cases hl : r.getLast? = some 62
      · have hs : stripSymbol (60 :: r) = r.dropLast := by simp [stripSymbol, hl]
        rw [hs] at h
        have hr := key _ h
        have e := dropLast_getLast r 62 hl
        intro hm
        rcases List.mem_cons.mp hm with e1 | hm
        · simp [TAB] at e1
        · rw [e] at hm
          rcases List.mem_append.mp hm with hm | hm
          · exact hr hm
          · simp [TAB] at hm
      · have hs : stripSymbol (60 :: r) = 60 :: r := by simp [stripSymbol, hl]
        rw [hs] at h
        exact key _ h
    · have hs : stripSymbol (a :: r) = a :: r := by
        unfold stripSymbol
        split
        · rename_i heq; injection heq with h1 _; exact absurd h1 ha
        · rfl
      rw [hs] at h
      exact key _ h

/-! ### keys -/

def KeyLike (k : Bytes) : Prop := k ≠ [] ∧ (∀ b ∈ k, keyChar b = true) ∧ k ≠ DOT

theorem keyChar_free (b : UInt8) (h : keyChar b = true) : b ≠ 9 ∧ b ≠ 59 ∧ b ≠ 61 ∧ b ≠ 58 := by
  refine ⟨?_, ?_, ?_, ?_⟩ <;> (intro e; subst e; simp [keyChar, isAlpha, isDigit] at h)

theorem validKey_keyLike (k : Bytes) (h : validKey k = true) : KeyLike k := by
  cases k with
  | nil => simp [validKey] at h
  | cons b r =>
    simp only [validKey, Bool.and_eq_true] at h
    have hb : keyChar b = true := by
      unfold keyChar
      rcases Bool.or_eq_true _ _ |>.mp h.1 with h1 | h1
      · simp [h1]
      · simp at h1; simp [h1]
    refine ⟨by simp, ?_, ?_⟩
    · intro x hx
      rcases List.mem_cons.mp hx with rfl | hx
      · exact hb
      · exact List.all_eq_true.mp h.2 x hx
    · intro e
      simp only [DOT, List.cons.injEq] at e
      have := h.1
      rw [e.1] at this
      simp [isAlpha] at this

theorem validInfoKey_keyLike (k : Bytes) (h : validInfoKey k = true) : KeyLike k := by
  unfold validInfoKey at h
  rcases Bool.or_eq_true _ _ |>.mp h with h1 | h1
  · exact validKey_keyLike k h1
  · simp at h1
    subst h1
    refine ⟨by simp [KEY_1000G], ?_, by simp [KEY_1000G, DOT]⟩
    intro b hb
    simp [KEY_1000G] at hb
    rcases hb with rfl | rfl | rfl <;> decide

theorem KeyLike.free {k : Bytes} (h : KeyLike k) :
    TAB ∉ k ∧ (59 : UInt8) ∉ k ∧ (61 : UInt8) ∉ k ∧ (58 : UInt8) ∉ k := by
  refine ⟨?_, ?_, ?_, ?_⟩ <;> intro hm
  · exact (keyChar_free _ (h.2.1 _ hm)).1 rfl
  · exact (keyChar_free _ (h.2.1 _ hm)).2.1 rfl
  · exact (keyChar_free _ (h.2.1 _ hm)).2.2.1 rfl
  · exact (keyChar_free _ (h.2.1 _ hm)).2.2.2 rfl

theorem splitEq_append (k t : Bytes) (hk : (61 : UInt8) ∉ k) : splitEq (k ++ 61 :: t) = (k, some t) := by
  induction k with
  | nil => simp [splitEq]
  | cons b r ih =>
    have hb : b ≠ 61 := fun e => hk (by simp [e])
    simp [splitEq, hb, ih (fun e => hk (List.mem_cons_of_mem _ e))]

theorem splitEq_none (k : Bytes) (hk : (61 : UInt8) ∉ k) : splitEq k = (k, none) := by
  induction k with
  | nil => simp [splitEq]
  | cons b r ih =>
    have hb : b ≠ 61 := fun e => hk (by simp [e])
    simp [splitEq, hb, ih (fun e => hk (List.mem_cons_of_mem _ e))]

/-! ### INFO -/

/-- an INFO field consistent with the header: a valid key; a missing value; or a value of the
declared (or reserved) shape and type; for an undeclared key a Flag or a String -/
def InfoFieldOk (canon : Nat → Prop) (h : Hdr) (kv : Bytes × Option Val) : Prop :=
  validInfoKey kv.1 = true ∧
  match kv.2 with
  | none => True
  | some v =>
    match h.infoDef kv.1 with
    | some (num, ty) =>
      if ty = .flag then (num.shape = .zero ∧ v = .flag) else ValOK canon num.shape ty v
    | none => v = .flag ∨ ∃ s, v = .string s ∧ utf8Valid s = true ∧ s ≠ []

/-- text of a field: the key, or `key=raw` -/
def fieldText (k : Bytes) : Option Bytes → Bytes
  | none => k
  | some t => k ++ 61 :: t

theorem ValOK.ne_flag {canon sh ty v} (h : ValOK canon sh ty v) : v ≠ .flag := by
  cases h <;> simp

theorem parseInfoValue_typed (F : FloatFmt) (num : Num) (ty : Ty) (t : Bytes) (hty : ty ≠ .flag) :
    parseInfoValue F num ty t = parseTyped F num.shape ty t := by
  unfold parseInfoValue
  cases ty <;> first | exact absurd rfl hty | (cases num.shape <;> rfl)

theorem lazyInfoTyped_typed (F : FloatFmt) (num : Num) (ty : Ty) (t : Bytes) (hty : ty ≠ .flag) :
    lazyInfoTyped F num ty t = lazyTyped F num.shape ty t := by
  unfold lazyInfoTyped
  cases ty <;> first | exact absurd rfl hty | (cases num.shape <;> rfl)

theorem writeInfoField_val (F : FloatFmt) (h : Hdr) (k : Bytes) (v : Val) (hk : validInfoKey k = true)
    (hv : v ≠ .flag) :
    writeInfoField F h (k, some v) = (writeVal F h escInfo chrInfo v).map fun t => k ++ 61 :: t := by
  unfold writeInfoField
  cases v <;> first | exact absurd rfl hv | simp [hk]

/-- one INFO field: what is written, and that both readers recover the value from the raw text -/
theorem infoField_spec (F : FloatFmt) (canon : Nat → Prop) (hF : F.Lawful canon) (h : Hdr)
    (kv : Bytes × Option Val) (hkv : InfoFieldOk canon h kv) :
    ∃ raw, writeInfoField F h kv = some (fieldText kv.1 raw) ∧
      infoFieldValue F h kv.1 raw = some kv.2 ∧
      lazyInfoValue F h kv.1 raw = some kv.2 ∧
      (∀ tv, raw = some tv → TAB ∉ tv ∧ (59 : UInt8) ∉ tv) := by
  obtain ⟨k, v⟩ := kv
  obtain ⟨hk, hv⟩ := hkv
  simp only at hk hv
  cases v with
  | none =>
    refine ⟨some DOT, ?_, ?_, ?_, ?_⟩
    · simp [writeInfoField, hk, fieldText]
    · unfold infoFieldValue
      cases h.infoDef k with
      | none => simp
      | some d => obtain ⟨num, ty⟩ := d; by_cases hty : ty = .flag <;> simp [hty]
    · unfold lazyInfoValue
      cases h.infoDef k with
      | none => simp
      | some d => simp
    · intro tv e; cases e; exact ⟨by decide, by decide⟩
  | some v =>
    simp only at hv
    cases hd : h.infoDef k with
    | none =>
      rw [hd] at hv
      simp only at hv
      rcases hv with rfl | ⟨st, rfl, hu, hne⟩
      · refine ⟨none, ?_, ?_, ?_, by simp⟩
        · simp [writeInfoField, hk, fieldText]
        · simp [infoFieldValue, hd]
        · simp [lazyInfoValue, hd]
      · obtain ⟨t, w, p, nd, nn, n9, n59⟩ := typed_spec vctxInfo F canon hF h .one .string (.string st)
          (ValOK.str st hu hne)
        refine ⟨some t, ?_, ?_, ?_, ?_⟩
        · rw [writeInfoField_val F h k _ hk (by simp), w]; rfl
        · simp only [infoFieldValue, hd, nd, if_false]
          rw [parseInfoValue_typed F (.count 1) .string t (by simp)]
          have : (Num.count 1).shape = .one := rfl
          rw [this, p]; rfl
        · simp only [lazyInfoValue, hd, Option.getD, nd, if_false]
          rw [lazyInfoTyped_typed F (.count 1) .string t (by simp)]
          have : (Num.count 1).shape = .one := rfl
          rw [this, lazyTyped_eq F .one .string t nn, p]; rfl
        · intro tv e; cases e; exact ⟨n9, n59⟩
    | some d =>
      obtain ⟨num, ty⟩ := d
      rw [hd] at hv
      simp only at hv
      by_cases hty : ty = .flag
      · subst hty
        simp only [if_true] at hv
        obtain ⟨hz, rfl⟩ := hv
        refine ⟨none, ?_, ?_, ?_, by simp⟩
        · simp [writeInfoField, hk, fieldText]
        · simp [infoFieldValue, hd, parseInfoValue, hz, DOT]
        · simp [lazyInfoValue, hd]
      · simp only [hty, if_false] at hv
        obtain ⟨t, w, p, nd, nn, n9, n59⟩ := typed_spec vctxInfo F canon hF h num.shape ty v hv
        refine ⟨some t, ?_, ?_, ?_, ?_⟩
        · rw [writeInfoField_val F h k _ hk hv.ne_flag, w]; rfl
        · simp only [infoFieldValue, hd, hty, if_false, nd]
          rw [parseInfoValue_typed F num ty t hty, p]; rfl
        · simp only [lazyInfoValue, hd, Option.getD, nd, if_false]
          rw [lazyInfoTyped_typed F num ty t hty, lazyTyped_eq F _ _ t nn, p]; rfl
        · intro tv e; cases e; exact ⟨n9, n59⟩

/-- pointwise relation between two lists (core has no `All2`) -/
inductive All2 {α β : Type} (R : α → β → Prop) : List α → List β → Prop
  | nil : All2 R [] []
  | cons {a b l₁ l₂} : R a b → All2 R l₁ l₂ → All2 R (a :: l₁) (b :: l₂)

theorem All2.of_mem_right {α β : Type} {R : α → β → Prop} {l₁ : List α} {l₂ : List β}
    (h : All2 R l₁ l₂) {b : β} (hb : b ∈ l₂) : ∃ a, a ∈ l₁ ∧ R a b := by
  induction h with
  | nil => simp at hb
  | cons hr _ ih =>
    rcases List.mem_cons.mp hb with rfl | hb
    · exact ⟨_, by simp, hr⟩
    · obtain ⟨a, ha, r⟩ := ih hb
      exact ⟨a, List.mem_cons_of_mem _ ha, r⟩

/-- the relation between an INFO field and its raw `(key, text after =)` pair -/
def FieldRel (F : FloatFmt) (h : Hdr) (kv : Bytes × Option Val) (kr : Bytes × Option Bytes) : Prop :=
  kr.1 = kv.1 ∧ KeyLike kr.1 ∧
  writeInfoField F h kv = some (fieldText kr.1 kr.2) ∧
  infoFieldValue F h kr.1 kr.2 = some kv.2 ∧
  lazyInfoValue F h kr.1 kr.2 = some kv.2 ∧
  (∀ tv, kr.2 = some tv → TAB ∉ tv ∧ (59 : UInt8) ∉ tv)

theorem fieldRel_exists (F : FloatFmt) (canon : Nat → Prop) (hF : F.Lawful canon) (h : Hdr)
    (info : List (Bytes × Option Val)) (hok : ∀ kv ∈ info, InfoFieldOk canon h kv) :
    ∃ rs, All2 (FieldRel F h) info rs := by
  induction info with
  | nil => exact ⟨[], All2.nil⟩
  | cons kv r ih =>
    obtain ⟨rs, hrs⟩ := ih (fun x hx => hok x (List.mem_cons_of_mem _ hx))
    obtain ⟨raw, a, b, c, d⟩ := infoField_spec F canon hF h kv (hok kv (by simp))
    exact ⟨(kv.1, raw) :: rs, All2.cons
      ⟨rfl, validInfoKey_keyLike _ (hok kv (by simp)).1, a, b, c, d⟩ hrs⟩

def ft (kr : Bytes × Option Bytes) : Bytes := fieldText kr.1 kr.2

theorem FieldRel.text {F h kv kr} (r : FieldRel F h kv kr) :
    ft kr ≠ [] ∧ ft kr ≠ DOT ∧ TAB ∉ ft kr ∧ (59 : UInt8) ∉ ft kr := by
  obtain ⟨_, hk, _, _, _, hraw⟩ := r
  obtain ⟨k, raw⟩ := kr
  simp only at hk hraw
  have hf := hk.free
  cases raw with
  | none => exact ⟨hk.1, hk.2.2, hf.1, hf.2.1⟩
  | some tv =>
    obtain ⟨t9, t59⟩ := hraw tv rfl
    simp only [ft, fieldText]
    refine ⟨by simp, ?_, ?_, ?_⟩
    · intro e
      cases k with
      | nil => exact hk.1 rfl
      | cons b r => simp [DOT] at e
    · intro hm
      rcases List.mem_append.mp hm with hm | hm
      · exact hf.1 hm
      · rcases List.mem_cons.mp hm with e | hm
        · simp [TAB] at e
        · exact t9 hm
    · intro hm
      rcases List.mem_append.mp hm with hm | hm
      · exact hf.2.1 hm
      · rcases List.mem_cons.mp hm with e | hm
        · simp at e
        · exact t59 hm

theorem FieldRel.parse {F h kv kr} (r : FieldRel F h kv kr) : parseInfoField F h (ft kr) = some kv := by
  obtain ⟨hk1, hk, _, hv, _, _⟩ := r
  obtain ⟨k, raw⟩ := kr
  obtain ⟨k', v⟩ := kv
  simp only at hk1 hk hv
  subst hk1
  unfold parseInfoField
  cases raw with
  | none => simp [ft, fieldText, splitEq_none k hk.free.2.2.1, hv]
  | some tv => simp [ft, fieldText, splitEq_append k tv hk.free.2.2.1, hv]

theorem forall2_write {F h} {info : List (Bytes × Option Val)} {rs : List (Bytes × Option Bytes)}
    (hr : All2 (FieldRel F h) info rs) :
    mapM' (writeInfoField F h) info = some (rs.map ft) ∧
    mapM' (parseInfoField F h) (rs.map ft) = some info ∧
    rs.map (·.1) = info.map (·.1) ∧ rs.length = info.length := by
  induction hr with
  | nil => exact ⟨rfl, rfl, rfl, rfl⟩
  | cons hd _ ih =>
    obtain ⟨a, b, c, d⟩ := ih
    refine ⟨?_, ?_, ?_, ?_⟩
    · simp [mapM', hd.2.2.1, a, ft]
    · simp [mapM', hd.parse, b]
    · simp [hd.1, c]
    · simp [d]

/-- the INFO column of a non-empty, well-typed field list -/
theorem info_column {F : FloatFmt} {h : Hdr} {info : List (Bytes × Option Val)}
    {rs : List (Bytes × Option Bytes)} (hr : All2 (FieldRel F h) info rs) (hne : info ≠ [])
    (hdup : hasDup (info.map (·.1)) = false) :
    writeInfo F h info = some (join 59 (rs.map ft)) ∧ join 59 (rs.map ft) ≠ DOT ∧
    TAB ∉ join 59 (rs.map ft) ∧ parseInfo F h (join 59 (rs.map ft)) = some info := by
  obtain ⟨a, b, c, d⟩ := forall2_write hr
  have htext : ∀ x ∈ rs.map ft, x ≠ [] ∧ x ≠ DOT ∧ TAB ∉ x ∧ (59 : UInt8) ∉ x := by
    intro x hx
    obtain ⟨kr, hkr, rfl⟩ := List.mem_map.mp hx
    obtain ⟨kv, _, hrel⟩ := hr.of_mem_right hkr  -- some kv related to kr
    exact hrel.text
  have hne' : rs.map ft ≠ [] := by
    intro e
    have : rs = [] := List.map_eq_nil_iff.mp e
    subst this
    simp at d
    exact hne (List.length_eq_zero_iff.mp d.symm)
  obtain ⟨p, q, r, e⟩ := listColumn 59 (by decide) (by decide) (rs.map ft) hne' htext
  refine ⟨?_, p, r, ?_⟩
  · simp [writeInfo, hne, a]
  · unfold parseInfo
    simp [q, e, b, hdup]

/-! ### samples -/

def GtOk (h : Hdr) (g : List Allele) : Prop :=
  g ≠ [] ∧ (∀ a ∈ g, AlleleOk a) ∧ (h.before 4 4 = true → ∀ ph, g ≠ [⟨none, ph⟩])

/-- a sample value consistent with the header: missing; under `GT` a non-empty genotype; else a
value of the declared (reserved, default) shape and type of its key -/
def SampleValOk (canon : Nat → Prop) (h : Hdr) (key : Bytes) (v : Option Val) : Prop :=
  match v with
  | none => True
  | some v =>
    if key = GT then ∃ g, v = .genotype g ∧ GtOk h g
    else ValOK canon (h.formatDef key).1.shape (h.formatDef key).2 v

def normVal (h : Hdr) : Option Val → Option Val
  | some (.genotype g) => some (.genotype (normGt h g))
  | v => v

theorem ValOK.normVal {canon sh ty v} (hv : ValOK canon sh ty v) (h : Hdr) : normVal h (some v) = some v := by
  cases hv <;> rfl

theorem sampleValue_spec (F : FloatFmt) (canon : Nat → Prop) (hF : F.Lawful canon) (h : Hdr)
    (key : Bytes) (v : Option Val) (hv : SampleValOk canon h key v) :
    ∃ t, writeSampleValue F h v = some t ∧
      parseSampleValue F h key t = some (normVal h v) ∧
      lazySampleValue F h key t = some (normVal h v) ∧
      t ≠ [] ∧ TAB ∉ t ∧ (58 : UInt8) ∉ t ∧ (t = DOT → v = none) := by
  cases v with
  | none =>
    refine ⟨DOT, rfl, ?_, ?_, by simp [DOT], by decide, by decide, fun _ => rfl⟩
    · simp [parseSampleValue, normVal]
    · simp [lazySampleValue, normVal]
  | some v =>
    simp only [SampleValOk] at hv
    by_cases hk : key = GT
    · simp only [hk, if_true] at hv
      obtain ⟨g, rfl, hne, hok, hdot⟩ := hv
      obtain ⟨a, b, c, d⟩ := genotype_spec h g hne hok hdot
      have hb := writeGenotype_bytes h g
      refine ⟨writeGenotype h g, rfl, ?_, ?_, d, ?_, ?_, fun e => absurd e c⟩
      · simp [parseSampleValue, c, hk, a, normVal]
      · simp [lazySampleValue, c, hk, b, normVal]
      · intro hm; exact gtByte_free _ TAB (hb _ hm) (Or.inl rfl) rfl
      · intro hm; exact gtByte_free _ 58 (hb _ hm) (Or.inr (Or.inl rfl)) rfl
    · simp only [hk, if_false] at hv
      obtain ⟨t, w, p, nd, nn, n9, n58⟩ := typed_spec vctxSample F canon hF h _ _ v hv
      refine ⟨t, w, ?_, ?_, nn, n9, n58, fun e => absurd e nd⟩
      · simp [parseSampleValue, nd, hk, p, hv.normVal h]
      · simp [lazySampleValue, nd, hk, lazyTyped_eq F _ _ t nn, p, hv.normVal h]

/-- a sample consistent with the keys: no more values than keys, every value consistent with its
key -/
def SampleOk (canon : Nat → Prop) (h : Hdr) (keys : List Bytes) (vals : List (Option Val)) : Prop :=
  vals.length ≤ keys.length ∧ ∀ p ∈ keys.zip vals, SampleValOk canon h p.1 p.2

/-- the text's own normal form of a sample: a lone missing value is no value -/
def normSample (h : Hdr) (vals : List (Option Val)) : List (Option Val) :=
  if vals = [none] then [] else vals.map (normVal h)

theorem zip_map_snd {α β : Type} (l₁ : List α) (l₂ : List β) (h : l₂.length ≤ l₁.length) :
    (l₁.zip l₂).map (·.2) = l₂ := by
  induction l₂ generalizing l₁ with
  | nil => cases l₁ <;> simp
  | cons b r ih =>
    cases l₁ with
    | nil => simp at h
    | cons a t => simp at h; simp [ih t h]

/-- per-value texts of a sample -/
theorem sampleTexts (F : FloatFmt) (canon : Nat → Prop) (hF : F.Lawful canon) (h : Hdr)
    (keys : List Bytes) (vals : List (Option Val)) (hs : SampleOk canon h keys vals) :
    ∃ ts, mapM' (writeSampleValue F h) vals = some ts ∧ ts.length = vals.length ∧
      parseZip F h keys ts = some (vals.map (normVal h)) ∧
      lazyZip F h keys ts = some (vals.map (normVal h)) ∧
      (∀ t ∈ ts, t ≠ [] ∧ TAB ∉ t ∧ (58 : UInt8) ∉ t) ∧
      (ts = [DOT] → vals = [none]) := by
  induction vals generalizing keys with
  | nil => exact ⟨[], rfl, rfl, by cases keys <;> rfl, by cases keys <;> rfl, by simp, by simp⟩
  | cons v r ih =>
    cases keys with
    | nil => have := hs.1; simp at this
    | cons k ks =>
      have hs' : SampleOk canon h ks r := ⟨by have := hs.1; simp at this; exact this,
        fun p hp => hs.2 p (by simp [hp])⟩
      obtain ⟨ts, a, b, c, d, e, f⟩ := ih ks hs'
      obtain ⟨t, w, p, l, nn, n9, n58, hd⟩ := sampleValue_spec F canon hF h k v (hs.2 (k, v) (by simp))
      refine ⟨t :: ts, by simp [mapM', w, a], by simp [b], by simp [parseZip, p, c],
        by simp [lazyZip, l, d], ?_, ?_⟩
      · intro x hx
        rcases List.mem_cons.mp hx with rfl | hx
        · exact ⟨nn, n9, n58⟩
        · exact e x hx
      · intro e1
        simp only [List.cons.injEq] at e1
        have : r = [] := by
          have := e1.2; subst this; simp at b
          exact List.length_eq_zero_iff.mp b.symm
        rw [hd e1.1, this]

/-- pointwise reading of a zipped sample -/
theorem lazyZip_get (F : FloatFmt) (h : Hdr) (keys : List Bytes) :
    ∀ (ts : List Bytes) (vs : List (Option Val)), lazyZip F h keys ts = some vs →
      ∀ (i : Nat) (k : Bytes), keys[i]? = some k →
        (match ts[i]? with
          | some raw => lazySampleValue F h k raw
          | none => some none) = some (vs[i]?.getD none) := by
  induction keys with
  | nil => intro ts vs _ i k hk; simp at hk
  | cons k0 ks ih =>
    intro ts vs hz i k hk
    cases ts with
    | nil =>
      simp [lazyZip] at hz
      subst hz
      simp
    | cons t tr =>
      simp only [lazyZip] at hz
      cases hv : lazySampleValue F h k0 t with
      | none => rw [hv] at hz; simp at hz
      | some x =>
        rw [hv] at hz
        simp only at hz
        cases hr : lazyZip F h ks tr with
        | none => rw [hr] at hz; simp at hz
        | some xs =>
          rw [hr] at hz
          simp at hz
          subst hz
          cases i with
          | zero =>
            simp at hk
            subst hk
            simp [hv]
          | succ j =>
            simp at hk
            have := ih tr xs hr j k hk
            simpa using this

/-- one sample column: written text, and what both readers make of it -/
theorem sample_spec (F : FloatFmt) (canon : Nat → Prop) (hF : F.Lawful canon) (h : Hdr)
    (keys : List Bytes) (vals : List (Option Val)) (hs : SampleOk canon h keys vals) :
    ∃ t, writeSample F h keys vals = some t ∧ t ≠ [] ∧ TAB ∉ t ∧
      parseValues F h keys t = some (normSample h vals) ∧
      lazySample F h keys (if t = DOT then [] else t) = some (normSample h vals) ∧
      (∀ (i : Nat) (k : Bytes), keys[i]? = some k →
        lazyColValue F h k i (if t = DOT then [] else t) = some ((normSample h vals)[i]?.getD none)) := by
  obtain ⟨ts, a, b, c, d, e, f⟩ := sampleTexts F canon hF h keys vals hs
  have hz := zip_map_snd keys vals hs.1
  by_cases hv : vals = []
  · subst hv
    refine ⟨DOT, ?_, by simp [DOT], by decide, ?_, ?_, ?_⟩
    · simp [writeSample]
    · simp [parseValues, normSample, DOT]
    · simp [lazySample, normSample]
    · intro i k _; simp [lazyColValue, normSample]
  · have tsne : ts ≠ [] := by
      intro e1; subst e1; simp at b
      exact hv (List.length_eq_zero_iff.mp b.symm)
    have hw : writeSample F h keys vals = some (join 58 ts) := by
      simp [writeSample, hz, hv, a]
    have hne : join 58 ts ≠ [] := join_ne_nil 58 ts tsne (fun x hx => (e x hx).1)
    have htab : TAB ∉ join 58 ts := not_mem_join 58 TAB ts (by decide) (fun x hx => (e x hx).2.1)
    have hsplit : splitOn 58 (join 58 ts) = ts :=
      Noodles.Text.splitOn_join 58 ts tsne (fun x hx => (e x hx).2.2)
    by_cases hdot : join 58 ts = DOT
    · have := join_eq_single 58 ts DOT (by decide) tsne hdot
      have hvn := f this
      refine ⟨join 58 ts, hw, hne, htab, ?_, ?_, ?_⟩
      · simp [parseValues, hdot, normSample, hvn, DOT]
      · simp [hdot, lazySample, normSample, hvn]
      · intro i k _; simp [hdot, lazyColValue, normSample, hvn]
    · have hnn : vals ≠ [none] := by
        intro e1
        subst e1
        simp [mapM', writeSampleValue] at a
        subst a
        exact hdot rfl
      refine ⟨join 58 ts, hw, hne, htab, ?_, ?_, ?_⟩
      · unfold parseValues
        simp only [hne, hdot, if_false, hsplit, c, normSample, hnn]
        have : ¬ keys.length < ts.length := by rw [b]; have := hs.1; omega
        simp [this]
      · simp only [hdot, if_false, lazySample, hne, hsplit, d, normSample, hnn]
      · intro i k hk
        have := lazyZip_get F h keys ts _ d i k hk
        simp only [hdot, if_false, lazyColValue, hne, hsplit, normSample, hnn]
        exact this

/-- FORMAT keys the writer accepts and the reader returns unchanged -/
def KeysOk (keys : List Bytes) : Prop :=
  (∀ k ∈ keys, validKey k = true) ∧ GT ∉ keys.tail ∧ hasDup keys = false

theorem writeKeysAux_false (r : List Bytes) (hv : ∀ k ∈ r, validKey k = true) (hg : GT ∉ r) :
    writeKeysAux false r = some r := by
  induction r with
  | nil => rfl
  | cons k t ih =>
    have hk : k ≠ GT := fun e => hg (by simp [e])
    simp [writeKeysAux, hk, hv k (by simp),
      ih (fun x hx => hv x (List.mem_cons_of_mem _ hx)) (fun e => hg (List.mem_cons_of_mem _ e))]

theorem keys_spec (keys : List Bytes) (hne : keys ≠ []) (hk : KeysOk keys) :
    writeKeys keys = some (join 58 keys) ∧ join 58 keys ≠ [] ∧ join 58 keys ≠ DOT ∧
    TAB ∉ join 58 keys ∧ parseKeys (join 58 keys) = some keys ∧ splitOn 58 (join 58 keys) = keys := by
  obtain ⟨hv, hg, hd⟩ := hk
  have hkl : ∀ x ∈ keys, x ≠ [] ∧ x ≠ DOT ∧ TAB ∉ x ∧ (58 : UInt8) ∉ x := by
    intro x hx
    have := validKey_keyLike x (hv x hx)
    exact ⟨this.1, this.2.2, this.free.1, this.free.2.2.2⟩
  obtain ⟨a, b, c, e⟩ := listColumn 58 (by decide) (by decide) keys hne hkl
  refine ⟨?_, b, a, c, ?_, e⟩
  · cases keys with
    | nil => exact absurd rfl hne
    | cons k r =>
      simp only [List.tail_cons] at hg
      simp [writeKeys, writeKeysAux, hv k (by simp),
        writeKeysAux_false r (fun x hx => hv x (List.mem_cons_of_mem _ hx)) hg]
  · simp [parseKeys, a, b, e, hd]

def colsText : List Bytes → Bytes
  | [] => []
  | t :: r => TAB :: t ++ colsText r

/-- a sample and its column text -/
def SampleRel (F : FloatFmt) (h : Hdr) (keys : List Bytes) (vals : List (Option Val)) (t : Bytes) : Prop :=
  writeSample F h keys vals = some t ∧ t ≠ [] ∧ TAB ∉ t ∧
  parseValues F h keys t = some (normSample h vals) ∧
  lazySample F h keys (if t = DOT then [] else t) = some (normSample h vals) ∧
  (∀ (i : Nat) (k : Bytes), keys[i]? = some k →
    lazyColValue F h k i (if t = DOT then [] else t) = some ((normSample h vals)[i]?.getD none))

theorem sampleRel_exists (F : FloatFmt) (canon : Nat → Prop) (hF : F.Lawful canon) (h : Hdr)
    (keys : List Bytes) (samples : List (List (Option Val)))
    (hok : ∀ s ∈ samples, SampleOk canon h keys s) :
    ∃ ts, All2 (SampleRel F h keys) samples ts := by
  induction samples with
  | nil => exact ⟨[], All2.nil⟩
  | cons v r ih =>
    obtain ⟨ts, hts⟩ := ih (fun x hx => hok x (List.mem_cons_of_mem _ hx))
    obtain ⟨t, ht⟩ := sample_spec F canon hF h keys v (hok v (by simp))
    exact ⟨t :: ts, All2.cons ht hts⟩

theorem colsText_tail_nextField (t : Bytes) (ht : TAB ∉ t) (r : List Bytes) :
    nextField (t ++ colsText r) = (t, (colsText r).tail) := by
  cases r with
  | nil => simpa [colsText] using nextField_last t ht
  | cons u us => simpa [colsText] using nextField_append t (u ++ colsText us) ht

theorem samples_cols {F : FloatFmt} {h : Hdr} {keys : List Bytes} {samples : List (List (Option Val))}
    {ts : List Bytes} (hr : All2 (SampleRel F h keys) samples ts) :
    writeSamples F h keys samples = some (colsText ts) ∧ ts.length = samples.length ∧
    parseSampleCols F h keys samples.length (colsText ts).tail = some (samples.map (normSample h)) := by
  induction hr with
  | nil => exact ⟨rfl, rfl, rfl⟩
  | cons hd _ ih =>
    obtain ⟨a, b, c⟩ := ih
    obtain ⟨w, _, nt, p, _, _⟩ := hd
    refine ⟨by simp [writeSamples, w, a, colsText], by simp [b], ?_⟩
    simp only [List.length_cons, parseSampleCols, colsText, List.cons_append, List.tail_cons]
    rw [colsText_tail_nextField _ nt]
    simp [p, c]

end Noodles.Vcf
