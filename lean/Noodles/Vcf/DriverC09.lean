import Noodles.Basic.Wire
import Noodles.Vcf.Model
import Noodles.Vcf.Lazy
import Noodles.Vcf.HeaderModel
/-! Line-protocol handler for the VCF text model (`c09 rec|line|hdr …`); the wire format is
documented in harness/src/props/c09.rs. -/
namespace Noodles.Vcf.Driver
open Noodles.Wire (hex unhex)
open Noodles.Vcf

def parseList {α : Type} (f : String → Option α) (s : String) : Option (List α) :=
  if s = "~" then some [] else (s.splitOn ",").mapM f

def fmtList (l : List String) : String := if l.isEmpty then "~" else ",".intercalate l

def parseNum (s : String) : Option Num :=
  match s with
  | "A" => some .a | "R" => some .r | "G" => some .g | "LA" => some .la | "LR" => some .lr
  | "LG" => some .lg | "P" => some .p | "M" => some .m | "U" => some .unknown
  | _ => s.toNat?.map .count

def parseTy (s : String) : Option Ty :=
  match s with
  | "I" => some .integer | "F" => some .float | "G" => some .flag | "C" => some .character
  | "S" => some .string | _ => none

def parseDef (s : String) : Option (Bytes × Num × Ty) :=
  match s.splitOn ":" with
  | [k, n, t] => do pure (← unhex k, ← parseNum n, ← parseTy t)
  | _ => none

def parseHdr (s : String) : Option Hdr :=
  match s.splitOn "/" with
  | [ver, infos, formats, ns, idefs, fdefs] =>
    match ver.splitOn "." with
    | [a, b] => do
      pure ⟨← a.toNat?, ← b.toNat?, ← parseList parseDef infos, ← parseList parseDef formats,
            ← ns.toNat?, ← parseList parseDef idefs, ← parseList parseDef fdefs⟩
    | _ => none
  | _ => none

/-- `fmt/prs` tables → a `FloatFmt` -/
def parseFloatTables (s : String) : Option FloatFmt :=
  match s.splitOn "/" with
  | [f, p] => do
    let ft ← parseList (fun e => match e.splitOn ":" with
      | [b, t] => do pure (← b.toNat?, ← unhex t)
      | _ => none) f
    let pt ← parseList (fun e => match e.splitOn ":" with
      | [t, b] => do pure (← unhex t, ← b.toNat?)
      | _ => none) p
    pure ⟨fun b => ((ft.find? (·.1 = b)).map (·.2)).getD [63],
          fun t => match (pt.find? (·.1 = t)) with
            | some e => some e.2
            | none => (ft.find? (·.2 = t)).map (·.1)⟩
  | _ => none

def parseIntS (s : String) : Option Int := s.toInt?

def parseElems {α : Type} (f : String → Option α) (s : String) : Option (List (Option α)) :=
  if s = "" then some [] else
  (s.splitOn ";").mapM fun e => if e = "." then some none else (f e).map some

def parseAlleleS (s : String) : Option Allele :=
  let cs := s.toList
  match cs.getLast? with
  | some 'p' => let b := String.ofList cs.dropLast
    if b = "." then some ⟨none, true⟩ else b.toNat?.map fun n => ⟨some n, true⟩
  | some 'u' => let b := String.ofList cs.dropLast
    if b = "." then some ⟨none, false⟩ else b.toNat?.map fun n => ⟨some n, false⟩
  | _ => none

def parseVal (s : String) : Option (Option Val) :=
  if s = "." then some none else
  match s.toList with
  | ['G'] => some (some .flag)
  | 'I' :: r => (parseIntS (String.ofList r)).map fun n => some (.integer n)
  | 'F' :: r => (String.ofList r).toNat?.map fun n => some (.float n)
  | 'C' :: r => (unhex (String.ofList r)).map fun c => some (.character c)
  | 'S' :: r => (unhex (String.ofList r)).map fun c => some (.string c)
  | 'T' :: r =>
    let t := String.ofList r
    if t = "" then some (some (.genotype [])) else
    ((t.splitOn ";").mapM parseAlleleS).map fun g => some (.genotype g)
  | 'A' :: 'I' :: r => (parseElems parseIntS (String.ofList r)).map fun l => some (.ints l)
  | 'A' :: 'F' :: r => (parseElems (·.toNat?) (String.ofList r)).map fun l => some (.floats l)
  | 'A' :: 'C' :: r => (parseElems unhex (String.ofList r)).map fun l => some (.chars l)
  | 'A' :: 'S' :: r => (parseElems unhex (String.ofList r)).map fun l => some (.strings l)
  | _ => none

def parseRecWords : List String → Option Rec
  | [chrom, pos, ids, ref, alts, qual, filters, info, keys, samples] => do
    let pos ← if pos = "-" then some none else pos.toNat?.map some
    let qual ← if qual = "." then some none else qual.toNat?.map some
    let info ← parseList (fun e => match e.splitOn "=" with
      | [k, v] => do pure (← unhex k, ← parseVal v)
      | _ => none) info
    let samples ← if samples = "!" then some [] else
      (samples.splitOn "/").mapM (parseList parseVal)
    pure ⟨← unhex chrom, pos, ← parseList unhex ids, ← unhex ref, ← parseList unhex alts, qual,
          ← parseList unhex filters, info, ← parseList unhex keys, samples⟩
  | _ => none

def fmtElems {α : Type} (f : α → String) (l : List (Option α)) : String :=
  ";".intercalate (l.map fun x => match x with | some v => f v | none => ".")

def fmtVal : Option Val → String
  | none => "."
  | some .flag => "G"
  | some (.integer n) => s!"I{n}"
  | some (.float b) => s!"F{b}"
  | some (.character c) => s!"C{hex c}"
  | some (.string c) => s!"S{hex c}"
  | some (.genotype g) => "T" ++ ";".intercalate (g.map fun a =>
      (match a.pos with | some n => toString n | none => ".") ++ (if a.phased then "p" else "u"))
  | some (.ints l) => "AI" ++ fmtElems toString l
  | some (.floats l) => "AF" ++ fmtElems toString l
  | some (.chars l) => "AC" ++ fmtElems hex l
  | some (.strings l) => "AS" ++ fmtElems hex l

def fmtRec (r : Rec) : String :=
  "|".intercalate [
    hex r.chrom,
    (match r.pos with | some n => toString n | none => "-"),
    fmtList (r.ids.map hex), hex r.ref, fmtList (r.alts.map hex),
    (match r.qual with | some b => toString b | none => "."),
    fmtList (r.filters.map hex),
    fmtList (r.info.map fun kv => hex kv.1 ++ "=" ++ fmtVal kv.2),
    fmtList (r.keys.map hex),
    (if r.samples.isEmpty then "!" else "/".intercalate (r.samples.map fun s => fmtList (s.map fmtVal)))]

def writeErr : Err → String
  | .chrom => "err:InvalidReferenceSequenceName"
  | .ids => "err:InvalidIds"
  | .refBases => "err:InvalidReferenceBases"
  | .altBases => "err:InvalidAlternateBases"
  | .filters => "err:InvalidFilters"
  | .info => "err:InvalidInfo"
  | .samples => "err:InvalidSamples"
  | .position => "err:InvalidPosition"
  | .qual => "err:InvalidQualityScore"
  | .lazy => "err"

def fmtEnd : Option Nat → String
  | some n => toString n
  | none => "err"

/-- `e=… l=… end=…/…` for a text line (what `real_line_answer` prints) -/
def lineAnswer (F : FloatFmt) (h : Hdr) (line0 : Bytes) : String :=
  let line := stripCr line0
  let eager := parseRecord F h line
  let e := match eager with | .ok r => fmtRec r | .error x => writeErr x
  let eend := match eager with | .ok r => fmtEnd (eagerEnd h r) | .error _ => "-"
  let (l, lend) := match lazyRead line with
    | none => ("err", "-")
    | some z => ((match lazyToRec F h z with | some r => fmtRec r | none => "err"), fmtEnd (lazyEnd F h z))
  s!"e={e} l={l} end={eend}/{lend}"

/-! ### headers -/

def parseDefTables (s : String) : Option Header.DefTables := do
  let tabs ← (s.splitOn "+").mapM fun e => match e.splitOn "/" with
    | [ver, i, f] => match ver.splitOn "." with
      | [a, b] => do pure ((← a.toNat?, ← b.toNat?), ← parseList parseDef i, ← parseList parseDef f)
      | _ => none
    | _ => none
  pure ⟨fun a b => ((tabs.find? (·.1 = (a, b))).map (·.2.1)).getD [],
        fun a b => ((tabs.find? (·.1 = (a, b))).map (·.2.2)).getD []⟩

def fmtNum : Num → String
  | .count n => toString n
  | .a => "A" | .r => "R" | .g => "G" | .la => "LA" | .lr => "LR" | .lg => "LG" | .p => "P" | .m => "M"
  | .unknown => "U"

def fmtTy : Ty → String
  | .integer => "I" | .float => "F" | .flag => "G" | .character => "C" | .string => "S"

def fmtOthers (fs : Header.Fields) : String := fmtList (fs.map fun kv => hex kv.1 ++ "=" ++ hex kv.2)
def fmtOptN : Option Nat → String | some n => toString n | none => "-"
def fmtOptS : Option Bytes → String | some b => hex b | none => "."

def dumpHeader (h : Header.Header) : String :=
  "|".intercalate (
    [s!"ver={h.major}.{h.minor}"] ++
    h.infos.map (fun l => s!"I:{hex l.id}:{fmtNum l.num}:{fmtTy l.ty}:{hex l.desc}:{fmtOptN l.idx}:{fmtOthers l.others}") ++
    h.filters.map (fun l => s!"F:{hex l.id}:{hex l.desc}:{fmtOptN l.idx}:{fmtOthers l.others}") ++
    h.formats.map (fun l => s!"M:{hex l.id}:{fmtNum l.num}:{fmtTy l.ty}:{hex l.desc}:{fmtOptN l.idx}:{fmtOthers l.others}") ++
    h.alts.map (fun l => s!"A:{hex l.id}:{hex l.desc}:{fmtOthers l.others}") ++
    h.contigs.map (fun l => s!"C:{hex l.id}:{fmtOptN l.length}:{fmtOptS l.md5}:{fmtOptS l.url}:{fmtOptN l.idx}:{fmtOthers l.others}") ++
    h.others.map (fun kc => match kc.2 with
      | .unstructured vs => s!"O:{hex kc.1}:U:{fmtList (vs.map hex)}"
      | .structured ms => s!"O:{hex kc.1}:S:" ++ (if ms.isEmpty then "!" else
          "/".intercalate (ms.map fun m => s!"{hex m.id};{hex m.idTag};{fmtOthers m.others}"))) ++
    [s!"S:{fmtList (h.samples.map hex)}"])

def hErr : Header.HErr → String
  | .empty => "err:Empty" | .missingFileFormat => "err:MissingFileFormat"
  | .unexpectedFileFormat => "err:UnexpectedFileFormat" | .invalidRecord => "err:InvalidRecord"
  | .dupInfo => "err:DuplicateInfoId" | .dupFilter => "err:DuplicateFilterId"
  | .dupFormat => "err:DuplicateFormatId" | .dupAlt => "err:DuplicateAlternativeAlleleId"
  | .dupContig => "err:DuplicateContigId" | .invalidRecordValue => "err:InvalidRecordValue"
  | .missingHeader => "err:MissingHeader" | .invalidHeader => "err:InvalidHeader"
  | .dupSample => "err:DuplicateSampleName" | .expectedEof => "err:ExpectedEof"
  | .writeInvalidInput => "err:invalid-input"

def headerAnswer (D : Header.DefTables) (text : Bytes) : String :=
  match Header.parseHeader D text with
  | .error e => s!"p={hErr e}"
  | .ok h =>
    let w := match Header.writeHeader h with
      | some t => hex t
      | none => "err:invalid-input"
    s!"p={dumpHeader h} w={w}"

def handle : List String → String
  | "rec" :: hdr :: ft :: words =>
    match parseHdr hdr, parseFloatTables ft, parseRecWords words with
    | some h, some F, some r =>
      match writeRecord F h r with
      | .ok text => s!"w={hex text} {lineAnswer F h text}"
      | .error e => s!"w={writeErr e}"
    | _, _, _ => "bad-op"
  | ["line", hdr, ft, line] =>
    match parseHdr hdr, parseFloatTables ft, unhex line with
    | some h, some F, some l => lineAnswer F h l
    | _, _, _ => "bad-op"
  | ["hdr", defs, text] =>
    match parseDefTables defs, unhex text with
    | some d, some t => headerAnswer d t
    | _, _ => "bad-op"
  | _ => "bad-op"

end Noodles.Vcf.Driver
