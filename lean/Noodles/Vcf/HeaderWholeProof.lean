import Noodles.Vcf.HeaderLinesProof
/-! Helper lemmas (2/2) for the whole-header theorems of C09 (`Props/C09Header.lean`): line framing
(`headerLines`, `strLines`), the lines of a written header are framed back, the parser's state
machine run over them. -/
set_option linter.unusedSimpArgs false
namespace Noodles.Vcf.Header
open Noodles.Text (splitOn join parseNat printNat)
open Noodles.Vcf

/-- so that concrete parser runs can be compared by `decide` -/
instance : DecidableEq (Except HErr Header) := fun a b =>
  match a, b with
  | .ok x, .ok y => if h : x = y then isTrue (by rw [h]) else isFalse (fun e => by cases e; exact h rfl)
  | .error x, .error y => if h : x = y then isTrue (by rw [h]) else isFalse (fun e => by cases e; exact h rfl)
  | .ok _, .error _ => isFalse (fun e => by cases e)
  | .error _, .ok _ => isFalse (fun e => by cases e)

/-! ### line framing -/

/-- a line the header reader hands to the parser unchanged -/
structure GoodLine (l : Bytes) : Prop where
  hash : l.head? = some 35
  nolf : (10 : UInt8) ∉ l
  nocr : l.getLast? ≠ some 13

def unlines (ls : List Bytes) : Bytes := (ls.map (· ++ [10])).flatten

theorem unlines_append (a b : List Bytes) : unlines (a ++ b) = unlines a ++ unlines b := by
  simp [unlines]

theorem unlines_cons (l : Bytes) (r : List Bytes) : unlines (l :: r) = l ++ 10 :: unlines r := by
  simp [unlines]

theorem splitOn_unlines (ls : List Bytes) (h : ∀ l ∈ ls, (10 : UInt8) ∉ l) :
    splitOn 10 (unlines ls) = ls ++ [[]] := by
  induction ls with
  | nil => rfl
  | cons l r ih =>
    rw [unlines_cons, Noodles.Text.splitOn_append_delim 10 l (h l (by simp)),
      ih (fun x hx => h x (List.mem_cons_of_mem _ hx))]
    rfl

theorem stripCr_good {l : Bytes} (h : l.getLast? ≠ some 13) : stripCr l = l := by
  simp [stripCr, h]

theorem headerLinesAux_good (ls : List Bytes) (h : ∀ l ∈ ls, GoodLine l) :
    headerLinesAux (ls ++ [[]]) = ls := by
  induction ls with
  | nil => rfl
  | cons l r ih =>
    have hl := h l (by simp)
    obtain ⟨t, ht⟩ : ∃ t, l = 35 :: t := by
      cases l with
      | nil => exact absurd hl.hash (by simp)
      | cons b t => have := hl.hash; simp at this; exact ⟨t, by rw [this]⟩
    have ihr := ih (fun x hx => h x (List.mem_cons_of_mem _ hx))
    cases hr : r ++ [[]] with
    | nil => simp at hr
    | cons x xs =>
      rw [List.cons_append, hr]
      rw [hr] at ihr
      rw [ht] at hl ⊢
      rw [headerLinesAux]
      · simp only [stripCr_good hl.nocr, ihr]
      · simp

theorem headerLines_unlines (ls : List Bytes) (h : ∀ l ∈ ls, GoodLine l) :
    headerLines (unlines ls) = ls := by
  unfold headerLines
  rw [splitOn_unlines ls (fun l hl => (h l hl).nolf), headerLinesAux_good ls h]

theorem splitOn_unlines_then (ls : List Bytes) (h : ∀ l ∈ ls, (10 : UInt8) ∉ l) (rest : Bytes) :
    splitOn 10 (unlines ls ++ rest) = ls ++ splitOn 10 rest := by
  induction ls with
  | nil => rfl
  | cons l r ih =>
    rw [unlines_cons, List.append_assoc, List.cons_append,
      Noodles.Text.splitOn_append_delim 10 l (h l (by simp)), ih (fun x hx => h x (List.mem_cons_of_mem _ hx))]
    rfl

theorem splitOn_first (rest : Bytes) (hrest : rest.head? ≠ some 35) :
    ∃ p ps, splitOn 10 rest = p :: ps ∧ p.head? ≠ some 35 := by
  cases rest with
  | nil => exact ⟨[], [], rfl, by simp⟩
  | cons b r =>
    by_cases hb : b = 10
    · exact ⟨[], splitOn 10 r, by simp [splitOn, hb], by simp⟩
    · cases hs : splitOn 10 r with
      | nil => exact absurd hs (Noodles.Text.splitOn_ne_nil 10 r)
      | cons f fs => exact ⟨b :: f, fs, by simp [splitOn, hb, hs], by simpa using hrest⟩

theorem headerLinesAux_then (ls : List Bytes) (h : ∀ l ∈ ls, GoodLine l) (p : Bytes) (ps : List Bytes)
    (hp : p.head? ≠ some 35) : headerLinesAux (ls ++ p :: ps) = ls := by
  induction ls with
  | nil =>
    have hne : ∀ t, p ≠ 35 :: t := fun t e => hp (by rw [e]; rfl)
    cases ps with
    | nil =>
      rw [List.nil_append, headerLinesAux.eq_def]
      simp only
    | cons q qs =>
      rw [List.nil_append, headerLinesAux.eq_def]
      simp only
  | cons l r ih =>
    have hl := h l (by simp)
    obtain ⟨t, ht⟩ : ∃ t, l = 35 :: t := by
      cases l with
      | nil => exact absurd hl.hash (by simp)
      | cons b t => have := hl.hash; simp at this; exact ⟨t, by rw [this]⟩
    have ihr := ih (fun x hx => h x (List.mem_cons_of_mem _ hx))
    cases hr : r ++ p :: ps with
    | nil => simp at hr
    | cons x xs =>
      rw [List.cons_append, hr]
      rw [hr] at ihr
      rw [ht] at hl ⊢
      rw [headerLinesAux]
      · simp only [stripCr_good hl.nocr, ihr]
      · simp

/-- the header reader stops at the first line that does not start with `#` -/
theorem headerLines_unlines_then (ls : List Bytes) (h : ∀ l ∈ ls, GoodLine l) (rest : Bytes)
    (hrest : rest.head? ≠ some 35) : headerLines (unlines ls ++ rest) = ls := by
  unfold headerLines
  obtain ⟨p, ps, hs, hp⟩ := splitOn_first rest hrest
  rw [splitOn_unlines_then ls (fun l hl => (h l hl).nolf), hs, headerLinesAux_then ls h p ps hp]

theorem strLines_unlines (ls : List Bytes) (h : ∀ l ∈ ls, GoodLine l) : strLines (unlines ls) = ls := by
  unfold strLines
  rw [splitOn_unlines ls (fun l hl => (h l hl).nolf)]
  simp only [List.dropLast_concat, List.getLast?_concat]
  have : ls.map stripCr = ls := by
    have := List.map_congr_left (f := stripCr) (g := id) (fun l hl => stripCr_good (h l hl).nocr)
    rw [this]; simp
  simp [this]

/-! ### the parser's state machine -/

theorem parseLines_append (D : DefTables) (a b : List Bytes) : ∀ p,
    parseLines D p (a ++ b) =
      match parseLines D p a with
      | .ok p' => parseLines D p' b
      | .error e => .error e := by
  induction a with
  | nil => intro p; rfl
  | cons l r ih =>
    intro p
    simp only [List.cons_append, parseLines]
    cases parsePartial D p l with
    | ok p' => exact ih p'
    | error e => rfl

theorem not_chrom (r : Bytes) : CHROM_PREFIX.isPrefixOf (35 :: 35 :: r) = false := by
  simp [CHROM_PREFIX, List.isPrefixOf]

theorem hasDup_append (a b : List Bytes) :
    hasDup (a ++ b) = false ↔ hasDup a = false ∧ hasDup b = false ∧ ∀ x ∈ a, x ∉ b := by
  induction a with
  | nil => simp [hasDup]
  | cons x r ih =>
    simp only [List.cons_append, hasDup, Bool.or_eq_false_iff, ih, List.contains_eq_mem,
      decide_eq_false_iff_not, List.mem_append, not_or, List.mem_cons, forall_eq_or_imp]
    constructor
    · rintro ⟨⟨h1, h2⟩, h3, h4, h5⟩; exact ⟨⟨h1, h3⟩, h4, h2, h5⟩
    · rintro ⟨⟨h1, h3⟩, h4, h2, h5⟩; exact ⟨⟨h1, h2⟩, h3, h4, h5⟩

/-- a new id at the end of a duplicate-free list -/
theorem hasDup_snoc_split {ids : List Bytes} {x : Bytes} {rest : List Bytes}
    (h : hasDup (ids ++ x :: rest) = false) : x ∉ ids ∧ hasDup ((ids ++ [x]) ++ rest) = false := by
  have e : ids ++ x :: rest = (ids ++ [x]) ++ rest := by simp
  refine ⟨?_, e ▸ h⟩
  rw [hasDup_append] at h
  exact fun hm => h.2.2 x hm (by simp)

theorem parsePartial_ready (D : DefTables) (h : Header) (r : Bytes) :
    parsePartial D ⟨.ready, h⟩ (35 :: 35 :: r) =
      match parseRecordLine D h.major h.minor (35 :: 35 :: r) with
      | none => .error .invalidRecord
      | some (.fileFormat _ _) => .error .unexpectedFileFormat
      | some (.info l) => if h.infos.any (·.id = l.id) then .error .dupInfo else .ok ⟨.ready, { h with infos := h.infos ++ [l] }⟩
      | some (.filter l) => if h.filters.any (·.id = l.id) then .error .dupFilter else .ok ⟨.ready, { h with filters := h.filters ++ [l] }⟩
      | some (.format l) => if h.formats.any (·.id = l.id) then .error .dupFormat else .ok ⟨.ready, { h with formats := h.formats ++ [l] }⟩
      | some (.alt l) => if h.alts.any (·.id = l.id) then .error .dupAlt else .ok ⟨.ready, { h with alts := h.alts ++ [l] }⟩
      | some (.contig l) => if h.contigs.any (·.id = l.id) then .error .dupContig else .ok ⟨.ready, { h with contigs := h.contigs ++ [l] }⟩
      | some (.otherStr k v) => match addOther k (.inl v) h.others with
        | some o => .ok ⟨.ready, { h with others := o }⟩
        | none => .error .invalidRecordValue
      | some (.otherMap k m) => match addOther k (.inr m) h.others with
        | some o => .ok ⟨.ready, { h with others := o }⟩
        | none => .error .invalidRecordValue := by
  unfold parsePartial
  simp only [not_chrom, Bool.false_eq_true, if_false]
  rfl

theorem any_id_false {α : Type} (f : α → Bytes) (xs : List α) (x : Bytes) (h : x ∉ xs.map f) :
    xs.any (fun y => decide (f y = x)) = false := by
  rw [List.any_eq_false]
  intro y hy
  simp only [decide_eq_true_eq]
  intro e
  exact h (List.mem_map.mpr ⟨y, hy, e⟩)

theorem mapLineBody_cons (key idTag id body : Bytes) :
    ∃ r, mapLineBody key idTag id body = 35 :: 35 :: r := ⟨_, rfl⟩

/-! ### the five typed groups -/

theorem infos_lines (D : DefTables) (xs : List InfoL) : ∀ h0 : Header,
    (∀ x ∈ xs, wfInfo (D.info h0.major h0.minor) x = true) →
    hasDup (h0.infos.map (·.id) ++ xs.map (·.id)) = false →
    parseLines D ⟨.ready, h0⟩ (xs.map (typedLine K_INFO)) = .ok ⟨.ready, { h0 with infos := h0.infos ++ xs }⟩ := by
  induction xs with
  | nil => intro h0 _ _; simp [parseLines]
  | cons x r ih =>
    intro h0 hwf hdup
    obtain ⟨hx, hdup'⟩ := hasDup_snoc_split (by simpa using hdup)
    have hp := info_line' D h0.major h0.minor x (hwf x (by simp))
    simp only [List.map_cons, parseLines]
    obtain ⟨rr, hrr⟩ : ∃ rr, typedLine K_INFO x = 35 :: 35 :: rr := ⟨_, rfl⟩
    rw [hrr] at hp ⊢
    rw [parsePartial_ready, hp]
    simp only [any_id_false (·.id) h0.infos x.id hx, Bool.false_eq_true, if_false]
    have := ih { h0 with infos := h0.infos ++ [x] } (fun y hy => hwf y (List.mem_cons_of_mem _ hy))
      (by simpa using hdup')
    simpa using this

theorem filters_lines (D : DefTables) (xs : List FilterL) : ∀ h0 : Header,
    (∀ x ∈ xs, wfFilter x = true) →
    hasDup (h0.filters.map (·.id) ++ xs.map (·.id)) = false →
    parseLines D ⟨.ready, h0⟩ (xs.map filterLine) = .ok ⟨.ready, { h0 with filters := h0.filters ++ xs }⟩ := by
  induction xs with
  | nil => intro h0 _ _; simp [parseLines]
  | cons x r ih =>
    intro h0 hwf hdup
    obtain ⟨hx, hdup'⟩ := hasDup_snoc_split (by simpa using hdup)
    have hp := filter_line D h0.major h0.minor x (hwf x (by simp))
    simp only [List.map_cons, parseLines]
    obtain ⟨rr, hrr⟩ : ∃ rr, filterLine x = 35 :: 35 :: rr := ⟨_, rfl⟩
    rw [hrr] at hp ⊢
    rw [parsePartial_ready, hp]
    simp only [any_id_false (·.id) h0.filters x.id hx, Bool.false_eq_true, if_false]
    have := ih { h0 with filters := h0.filters ++ [x] } (fun y hy => hwf y (List.mem_cons_of_mem _ hy))
      (by simpa using hdup')
    simpa using this

theorem formats_lines (D : DefTables) (xs : List InfoL) : ∀ h0 : Header,
    (∀ x ∈ xs, wfFormat (D.format h0.major h0.minor) x = true) →
    hasDup (h0.formats.map (·.id) ++ xs.map (·.id)) = false →
    parseLines D ⟨.ready, h0⟩ (xs.map (typedLine K_FORMAT)) = .ok ⟨.ready, { h0 with formats := h0.formats ++ xs }⟩ := by
  induction xs with
  | nil => intro h0 _ _; simp [parseLines]
  | cons x r ih =>
    intro h0 hwf hdup
    obtain ⟨hx, hdup'⟩ := hasDup_snoc_split (by simpa using hdup)
    have hp := format_line' D h0.major h0.minor x (hwf x (by simp))
    simp only [List.map_cons, parseLines]
    obtain ⟨rr, hrr⟩ : ∃ rr, typedLine K_FORMAT x = 35 :: 35 :: rr := ⟨_, rfl⟩
    rw [hrr] at hp ⊢
    rw [parsePartial_ready, hp]
    simp only [any_id_false (·.id) h0.formats x.id hx, Bool.false_eq_true, if_false]
    have := ih { h0 with formats := h0.formats ++ [x] } (fun y hy => hwf y (List.mem_cons_of_mem _ hy))
      (by simpa using hdup')
    simpa using this

theorem alts_lines (D : DefTables) (xs : List AltL) : ∀ h0 : Header,
    (∀ x ∈ xs, wfAlt x = true) →
    hasDup (h0.alts.map (·.id) ++ xs.map (·.id)) = false →
    parseLines D ⟨.ready, h0⟩ (xs.map altLine) = .ok ⟨.ready, { h0 with alts := h0.alts ++ xs }⟩ := by
  induction xs with
  | nil => intro h0 _ _; simp [parseLines]
  | cons x r ih =>
    intro h0 hwf hdup
    obtain ⟨hx, hdup'⟩ := hasDup_snoc_split (by simpa using hdup)
    have hp := alt_line D h0.major h0.minor x (hwf x (by simp))
    simp only [List.map_cons, parseLines]
    obtain ⟨rr, hrr⟩ : ∃ rr, altLine x = 35 :: 35 :: rr := ⟨_, rfl⟩
    rw [hrr] at hp ⊢
    rw [parsePartial_ready, hp]
    simp only [any_id_false (·.id) h0.alts x.id hx, Bool.false_eq_true, if_false]
    have := ih { h0 with alts := h0.alts ++ [x] } (fun y hy => hwf y (List.mem_cons_of_mem _ hy))
      (by simpa using hdup')
    simpa using this

theorem contigs_lines (D : DefTables) (xs : List ContigL) : ∀ h0 : Header,
    (∀ x ∈ xs, wfContig x = true) →
    hasDup (h0.contigs.map (·.id) ++ xs.map (·.id)) = false →
    parseLines D ⟨.ready, h0⟩ (xs.map contigLine) = .ok ⟨.ready, { h0 with contigs := h0.contigs ++ xs }⟩ := by
  induction xs with
  | nil => intro h0 _ _; simp [parseLines]
  | cons x r ih =>
    intro h0 hwf hdup
    obtain ⟨hx, hdup'⟩ := hasDup_snoc_split (by simpa using hdup)
    have hp := contig_line D h0.major h0.minor x (hwf x (by simp))
    simp only [List.map_cons, parseLines]
    obtain ⟨rr, hrr⟩ : ∃ rr, contigLine x = 35 :: 35 :: rr := ⟨_, rfl⟩
    rw [hrr] at hp ⊢
    rw [parsePartial_ready, hp]
    simp only [any_id_false (·.id) h0.contigs x.id hx, Bool.false_eq_true, if_false]
    have := ih { h0 with contigs := h0.contigs ++ [x] } (fun y hy => hwf y (List.mem_cons_of_mem _ hy))
      (by simpa using hdup')
    simpa using this

/-! ### other records -/

theorem addOther_new (k : Bytes) (v : Bytes ⊕ OtherL) (os : List (Bytes × Coll)) (h : ∀ kc ∈ os, kc.1 ≠ k) :
    addOther k v os =
      some (os ++ [(k, match v with | .inl x => .unstructured [x] | .inr m => .structured [m])]) := by
  induction os with
  | nil => rfl
  | cons a r ih =>
    obtain ⟨k', c⟩ := a
    have hk : k' ≠ k := h (k', c) (by simp)
    simp only [addOther, hk, if_false, ih (fun x hx => h x (List.mem_cons_of_mem _ hx)), Option.map_some,
      List.cons_append]

theorem addOther_last_str (k x : Bytes) (vs : List Bytes) (os : List (Bytes × Coll)) (h : ∀ kc ∈ os, kc.1 ≠ k) :
    addOther k (.inl x) (os ++ [(k, .unstructured vs)]) = some (os ++ [(k, .unstructured (vs ++ [x]))]) := by
  induction os with
  | nil => simp [addOther]
  | cons a r ih =>
    obtain ⟨k', c⟩ := a
    have hk : k' ≠ k := h (k', c) (by simp)
    simp only [List.cons_append, addOther, hk, if_false, ih (fun x hx => h x (List.mem_cons_of_mem _ hx)),
      Option.map_some]

theorem addOther_last_map (k : Bytes) (m : OtherL) (ms : List OtherL) (os : List (Bytes × Coll))
    (h : ∀ kc ∈ os, kc.1 ≠ k) (hm : m.id ∉ ms.map (·.id)) :
    addOther k (.inr m) (os ++ [(k, .structured ms)]) = some (os ++ [(k, .structured (ms ++ [m]))]) := by
  induction os with
  | nil => simp [addOther, any_id_false (·.id) ms m.id hm]
  | cons a r ih =>
    obtain ⟨k', c⟩ := a
    have hk : k' ≠ k := h (k', c) (by simp)
    simp only [List.cons_append, addOther, hk, if_false, ih (fun x hx => h x (List.mem_cons_of_mem _ hx)),
      Option.map_some]

/-- the line of a structured other record under `key` -/
def structLine (key : Bytes) (m : OtherL) : Bytes :=
  if key = META then metaLine m else if key = PEDIGREE then pedLine m else otherLine key m

theorem structLine_cons (key : Bytes) (m : OtherL) : ∃ r, structLine key m = 35 :: 35 :: r := by
  unfold structLine
  split
  · exact ⟨_, rfl⟩
  · split <;> exact ⟨_, rfl⟩

theorem struct_line (D : DefTables) (maj min : Nat) (key : Bytes) (m : OtherL) (hk : keyOk key = true)
    (h : wfOtherMap maj min key m = true) :
    parseRecordLine D maj min (structLine key m) = some (.otherMap key m) := by
  unfold structLine
  by_cases hM : key = META
  · subst hM; simp only [if_true]; exact meta_line D maj min m h
  · by_cases hP : key = PEDIGREE
    · subst hP; simp only [hM, if_false, if_true]; exact ped_line D maj min m h
    · simp only [hM, hP, if_false]; exact other_line D maj min key m hk hM hP h

theorem writeOtherL_struct (key : Bytes) (m : OtherL) : writeOtherL key m = structLine key m ++ [10] := by
  unfold structLine
  by_cases hM : key = META
  · subst hM; simp only [if_true]; exact writeOtherL_meta m
  · by_cases hP : key = PEDIGREE
    · subst hP; simp only [hM, if_false, if_true]; exact writeOtherL_ped m
    · simp only [hM, hP, if_false]; exact writeOtherL_eq key m hM

def collLines (kc : Bytes × Coll) : List Bytes :=
  match kc.2 with
  | .unstructured vs => vs.map (unstrLine kc.1)
  | .structured ms => ms.map (structLine kc.1)

/-- more values of an unstructured collection that is already there -/
theorem unstr_more (D : DefTables) (k : Bytes) (hk : keyOk k = true) (hM : k ≠ META) (hP : k ≠ PEDIGREE)
    (vs : List Bytes) : ∀ (h0 : Header) (os : List (Bytes × Coll)) (pre : List Bytes),
    h0.others = os ++ [(k, .unstructured pre)] → (∀ kc ∈ os, kc.1 ≠ k) →
    (∀ v ∈ vs, unstrOk h0.major h0.minor v = true) →
    parseLines D ⟨.ready, h0⟩ (vs.map (unstrLine k)) =
      .ok ⟨.ready, { h0 with others := os ++ [(k, .unstructured (pre ++ vs))] }⟩ := by
  induction vs with
  | nil => intro h0 os pre ho _ _; simp [parseLines, ← ho]
  | cons v r ih =>
    intro h0 os pre ho hos hwf
    have hp := unstr_line D h0.major h0.minor k v hk hM hP (hwf v (by simp))
    simp only [List.map_cons, parseLines]
    obtain ⟨rr, hrr⟩ : ∃ rr, unstrLine k v = 35 :: 35 :: rr := ⟨_, rfl⟩
    rw [hrr] at hp ⊢
    rw [parsePartial_ready, hp]
    simp only [ho, addOther_last_str k v pre os hos]
    have := ih { h0 with others := os ++ [(k, .unstructured (pre ++ [v]))] } os (pre ++ [v]) rfl hos
      (fun y hy => hwf y (List.mem_cons_of_mem _ hy))
    simpa using this

theorem struct_more (D : DefTables) (k : Bytes) (hk : keyOk k = true) (ms : List OtherL) :
    ∀ (h0 : Header) (os : List (Bytes × Coll)) (pre : List OtherL),
    h0.others = os ++ [(k, .structured pre)] → (∀ kc ∈ os, kc.1 ≠ k) →
    (∀ m ∈ ms, wfOtherMap h0.major h0.minor k m = true) →
    hasDup (pre.map (·.id) ++ ms.map (·.id)) = false →
    parseLines D ⟨.ready, h0⟩ (ms.map (structLine k)) =
      .ok ⟨.ready, { h0 with others := os ++ [(k, .structured (pre ++ ms))] }⟩ := by
  induction ms with
  | nil => intro h0 os pre ho _ _ _; simp [parseLines, ← ho]
  | cons m r ih =>
    intro h0 os pre ho hos hwf hdup
    obtain ⟨hx, hdup'⟩ := hasDup_snoc_split (by simpa using hdup)
    have hp := struct_line D h0.major h0.minor k m hk (hwf m (by simp))
    simp only [List.map_cons, parseLines]
    obtain ⟨rr, hrr⟩ := structLine_cons k m
    rw [hrr] at hp ⊢
    rw [parsePartial_ready, hp]
    simp only [ho, addOther_last_map k m pre os hos hx]
    have := ih { h0 with others := os ++ [(k, .structured (pre ++ [m]))] } os (pre ++ [m]) rfl hos
      (fun y hy => hwf y (List.mem_cons_of_mem _ hy)) (by simpa using hdup')
    simpa using this

/-- one collection: its lines add exactly the entry `(key, collection)` at the end -/
theorem coll_lines (D : DefTables) (kc : Bytes × Coll) (h0 : Header)
    (hwf : wfColl h0.major h0.minor kc = true) (hnew : ∀ x ∈ h0.others, x.1 ≠ kc.1) :
    parseLines D ⟨.ready, h0⟩ (collLines kc) = .ok ⟨.ready, { h0 with others := h0.others ++ [kc] }⟩ := by
  obtain ⟨k, c⟩ := kc
  simp only [wfColl, Bool.and_eq_true] at hwf
  obtain ⟨hk, hc⟩ := hwf
  cases c with
  | unstructured vs =>
    simp only [Bool.and_eq_true, bne_iff_ne, ne_eq, List.all_eq_true] at hc
    obtain ⟨⟨⟨hne, hM⟩, hP⟩, hall⟩ := hc
    cases vs with
    | nil => exact absurd rfl hne
    | cons v r =>
      have hp := unstr_line D h0.major h0.minor k v hk hM hP (hall v (by simp))
      simp only [collLines, List.map_cons, parseLines]
      obtain ⟨rr, hrr⟩ : ∃ rr, unstrLine k v = 35 :: 35 :: rr := ⟨_, rfl⟩
      rw [hrr] at hp ⊢
      rw [parsePartial_ready, hp]
      simp only [addOther_new k (.inl v) h0.others hnew]
      have := unstr_more D k hk hM hP r { h0 with others := h0.others ++ [(k, .unstructured [v])] }
        h0.others [v] rfl hnew (fun y hy => hall y (List.mem_cons_of_mem _ hy))
      simpa using this
  | structured ms =>
    simp only [Bool.and_eq_true, bne_iff_ne, ne_eq, List.all_eq_true, Bool.not_eq_true'] at hc
    obtain ⟨⟨hne, hdup⟩, hall⟩ := hc
    cases ms with
    | nil => exact absurd rfl hne
    | cons m r =>
      have hp := struct_line D h0.major h0.minor k m hk (hall m (by simp))
      simp only [collLines, List.map_cons, parseLines]
      obtain ⟨rr, hrr⟩ := structLine_cons k m
      rw [hrr] at hp ⊢
      rw [parsePartial_ready, hp]
      simp only [addOther_new k (.inr m) h0.others hnew]
      have := struct_more D k hk r { h0 with others := h0.others ++ [(k, .structured [m])] }
        h0.others [m] rfl hnew (fun y hy => hall y (List.mem_cons_of_mem _ hy)) (by simpa using hdup)
      simpa using this

theorem others_lines (D : DefTables) (xs : List (Bytes × Coll)) : ∀ h0 : Header,
    (∀ x ∈ xs, wfColl h0.major h0.minor x = true) →
    hasDup (h0.others.map (·.1) ++ xs.map (·.1)) = false →
    parseLines D ⟨.ready, h0⟩ (xs.map collLines).flatten =
      .ok ⟨.ready, { h0 with others := h0.others ++ xs }⟩ := by
  induction xs with
  | nil => intro h0 _ _; simp [parseLines]
  | cons x r ih =>
    intro h0 hwf hdup
    obtain ⟨hx, hdup'⟩ := hasDup_snoc_split (by simpa using hdup)
    have hc := coll_lines D x h0 (hwf x (by simp)) (fun y hy e => hx (List.mem_map.mpr ⟨y, hy, e⟩))
    simp only [List.map_cons, List.flatten_cons]
    rw [parseLines_append, hc]
    have := ih { h0 with others := h0.others ++ [x] } (fun y hy => hwf y (List.mem_cons_of_mem _ hy))
      (by simpa using hdup')
    simpa using this

/-! ### the written lines contain no LF, start with `#`, do not end in CR -/

theorem nolf_escape (v : Bytes) (h : (10 : UInt8) ∉ v) : (10 : UInt8) ∉ escape v := by
  induction v with
  | nil => simp [escape]
  | cons b r ih =>
    have hb : (10 : UInt8) ≠ b := fun e => h (by simp [e])
    have hr := ih (fun e => h (List.mem_cons_of_mem _ e))
    unfold escape
    split <;> simp [hb, hr]

theorem nolf_quote (v : Bytes) (h : (10 : UInt8) ∉ v) : (10 : UInt8) ∉ quote v := by
  simp [quote, nolf_escape v h]

theorem nolf_fieldsText (fs : List (Bytes × FV)) (h : ∀ kf ∈ fs, (10 : UInt8) ∉ kf.1 ∧ (10 : UInt8) ∉ kf.2.text) :
    (10 : UInt8) ∉ fieldsText fs := by
  induction fs with
  | nil => simp [fieldsText]
  | cons a r ih =>
    obtain ⟨k, f⟩ := a
    have := h (k, f) (by simp)
    have hr := ih (fun x hx => h x (List.mem_cons_of_mem _ hx))
    simp [fieldsText, this.1, this.2, hr]

theorem nolf_strFields (fs : Fields) (h : ∀ kv ∈ fs, (10 : UInt8) ∉ kv.1 ∧ (10 : UInt8) ∉ kv.2) :
    ∀ kf ∈ strFields fs, (10 : UInt8) ∉ kf.1 ∧ (10 : UInt8) ∉ kf.2.text := by
  intro kf hkf
  obtain ⟨kv, hkv, rfl⟩ := List.mem_map.mp hkf
  exact ⟨(h kv hkv).1, nolf_quote _ (h kv hkv).2⟩

theorem nolf_printNat (n : Nat) : (10 : UInt8) ∉ printNat n :=
  printNat_not_mem n 10 (by unfold IsDigit; decide)

theorem nolf_optRawF (k : Bytes) (o : Option Bytes) (hk : (10 : UInt8) ∉ k) (ho : ∀ v, o = some v → (10 : UInt8) ∉ v) :
    ∀ kf ∈ optRawF k o, (10 : UInt8) ∉ kf.1 ∧ (10 : UInt8) ∉ kf.2.text := by
  intro kf hkf
  cases o with
  | none => simp [optRawF] at hkf
  | some v => simp [optRawF] at hkf; subst hkf; exact ⟨hk, ho v rfl⟩

theorem nolf_optAutoF (k : Bytes) (o : Option Bytes) (hk : (10 : UInt8) ∉ k) (ho : ∀ v, o = some v → (10 : UInt8) ∉ v) :
    ∀ kf ∈ optAutoF k o, (10 : UInt8) ∉ kf.1 ∧ (10 : UInt8) ∉ kf.2.text := by
  intro kf hkf
  cases o with
  | none => simp [optAutoF] at hkf
  | some v =>
    simp [optAutoF] at hkf
    subst hkf
    refine ⟨hk, ?_⟩
    unfold autoFV
    split
    · exact nolf_quote v (ho v rfl)
    · exact ho v rfl

theorem nolf_idxField (i : Option Nat) : ∀ kf ∈ idxField i, (10 : UInt8) ∉ kf.1 ∧ (10 : UInt8) ∉ kf.2.text := by
  rw [idxField_eq]
  refine nolf_optRawF IDX _ (by unfold IDX; decide) ?_
  intro v hv
  cases i with
  | none => simp at hv
  | some n => simp at hv; subst hv; exact nolf_printNat n

theorem nolf_loopText (fs : List LEntry) (h : ∀ e ∈ fs, (10 : UInt8) ∉ e.1 ∧ (10 : UInt8) ∉ e.2.1) :
    (10 : UInt8) ∉ loopText fs := by
  induction fs with
  | nil => simp [loopText]
  | cons a r ih =>
    have := h a (by simp)
    have hr := ih (fun x hx => h x (List.mem_cons_of_mem _ hx))
    simp [loopText, this.1, this.2, hr]

theorem good_mapLineBody (key idTag id body : Bytes) (h1 : (10 : UInt8) ∉ key) (h2 : (10 : UInt8) ∉ idTag)
    (h3 : (10 : UInt8) ∉ id) (h4 : (10 : UInt8) ∉ body) : GoodLine (mapLineBody key idTag id body) := by
  refine ⟨rfl, ?_, ?_⟩
  · simp [mapLineBody, h1, h2, h3, h4]
  · have : (mapLineBody key idTag id body).getLast? = some 62 := by
      have e : mapLineBody key idTag id body = (35 :: 35 :: (key ++ 61 :: 60 :: (idTag ++ 61 :: id ++ body))) ++ [62] := by
        simp [mapLineBody]
      rw [e, List.getLast?_concat]
    rw [this]; decide

theorem othersOk_nolf {std : List Bytes} {fs : Fields} (h : othersOk std fs = true) :
    ∀ kv ∈ fs, (10 : UInt8) ∉ kv.1 ∧ (10 : UInt8) ∉ kv.2 :=
  fun kv hkv => ⟨((othersOk_spec h).1 kv hkv).2.1, ((othersOk_spec h).1 kv hkv).2.2.2⟩

theorem nolf_writeNum (n : Num) : (10 : UInt8) ∉ writeNum n := by
  cases n with
  | count k => exact nolf_printNat k
  | _ => (unfold writeNum; decide)

theorem nolf_writeTy (t : Ty) : (10 : UInt8) ∉ writeTy t := by
  cases t <;> (unfold writeTy T_INTEGER T_FLOAT T_FLAG T_CHARACTER T_STRING; decide)

theorem nolf_consts : (10 : UInt8) ∉ NUMBER ∧ (10 : UInt8) ∉ TYPE ∧ (10 : UInt8) ∉ DESCRIPTION := by
  unfold NUMBER TYPE DESCRIPTION; decide

theorem good_typedLine (key : Bytes) (hk : (10 : UInt8) ∉ key) (l : InfoL) (h : typedOk l = true) :
    GoodLine (typedLine key l) := by
  simp only [typedOk, Bool.and_eq_true] at h
  obtain ⟨⟨⟨⟨hid, hdesc⟩, _⟩, _⟩, hoth⟩ := h
  refine good_mapLineBody _ _ _ _ hk (by unfold ID; decide) (rawOk_spec hid).2 (nolf_fieldsText _ ?_)
  intro kf hkf
  simp only [typedFields, List.mem_append, List.mem_cons, List.mem_nil_iff, or_false] at hkf
  rcases hkf with ((rfl | rfl | rfl) | hkf) | hkf
  · exact ⟨nolf_consts.1, nolf_writeNum _⟩
  · exact ⟨nolf_consts.2.1, nolf_writeTy _⟩
  · exact ⟨nolf_consts.2.2, nolf_quote _ (strOk_spec hdesc)⟩
  · exact nolf_idxField _ kf hkf
  · exact nolf_strFields _ (othersOk_nolf hoth) kf hkf

theorem good_filterLine (l : FilterL) (h : wfFilter l = true) : GoodLine (filterLine l) := by
  simp only [wfFilter, Bool.and_eq_true] at h
  obtain ⟨⟨⟨hid, hdesc⟩, _⟩, hoth⟩ := h
  refine good_mapLineBody _ _ _ _ (by unfold K_FILTER; decide) (by unfold ID; decide) (rawOk_spec hid).2
    (nolf_fieldsText _ ?_)
  intro kf hkf
  simp only [filterFields, List.mem_append, List.mem_cons, List.mem_nil_iff, or_false] at hkf
  rcases hkf with (rfl | hkf) | hkf
  · exact ⟨nolf_consts.2.2, nolf_quote _ (strOk_spec hdesc)⟩
  · exact nolf_idxField _ kf hkf
  · exact nolf_strFields _ (othersOk_nolf hoth) kf hkf

theorem good_altLine (l : AltL) (h : wfAlt l = true) : GoodLine (altLine l) := by
  simp only [wfAlt, Bool.and_eq_true] at h
  obtain ⟨⟨hid, hdesc⟩, hoth⟩ := h
  refine good_mapLineBody _ _ _ _ (by unfold K_ALT; decide) (by unfold ID; decide) (rawOk_spec hid).2
    (nolf_fieldsText _ ?_)
  intro kf hkf
  simp only [altFields, List.mem_append, List.mem_cons, List.mem_nil_iff, or_false] at hkf
  rcases hkf with rfl | hkf
  · exact ⟨nolf_consts.2.2, nolf_quote _ (strOk_spec hdesc)⟩
  · exact nolf_strFields _ (othersOk_nolf hoth) kf hkf

theorem good_contigLine (l : ContigL) (h : wfContig l = true) : GoodLine (contigLine l) := by
  simp only [wfContig, Bool.and_eq_true] at h
  obtain ⟨⟨⟨⟨⟨hid, _⟩, hmd5⟩, hurl⟩, _⟩, hoth⟩ := h
  refine good_mapLineBody _ _ _ _ (by unfold K_CONTIG; decide) (by unfold ID; decide) (rawOk_spec hid).2
    (nolf_fieldsText _ ?_)
  intro kf hkf
  simp only [contigFields, List.mem_append] at hkf
  rcases hkf with (((hkf | hkf) | hkf) | hkf) | hkf
  · refine nolf_optRawF LENGTH _ (by unfold LENGTH; decide) ?_ kf hkf
    intro v hv
    cases hl : l.length with
    | none => simp [hl] at hv
    | some n => simp [hl] at hv; subst hv; exact nolf_printNat n
  · exact nolf_optAutoF MD5 _ (by unfold MD5; decide) (fun v hv => strOk_spec (optAll_spec hmd5 v hv)) kf hkf
  · exact nolf_optAutoF URL _ (by unfold URL; decide) (fun v hv => strOk_spec (optAll_spec hurl v hv)) kf hkf
  · exact nolf_idxField _ kf hkf
  · exact nolf_strFields _ (othersOk_nolf hoth) kf hkf

theorem good_ffLine (maj min : Nat) : GoodLine (ffLine maj min) := by
  refine ⟨rfl, ?_, ?_⟩
  · simp only [ffLine, List.mem_append, List.mem_cons, not_or]
    exact ⟨⟨by unfold FILEFORMAT_LINE; decide, nolf_printNat maj⟩, by decide, nolf_printNat min⟩
  · obtain ⟨ys, hys⟩ : ∃ ys, printNat min = ys ++ [(printNat min).getLast (printNat_ne_nil min)] :=
      ⟨_, (List.dropLast_concat_getLast (printNat_ne_nil min)).symm⟩
    have hd : IsDigit ((printNat min).getLast (printNat_ne_nil min)) :=
      printNat_digits min _ (List.getLast_mem _)
    have e : ffLine maj min = (FILEFORMAT_LINE ++ printNat maj ++ 46 :: ys) ++
        [(printNat min).getLast (printNat_ne_nil min)] := by
      unfold ffLine; conv => lhs; rw [hys]
      simp
    rw [e, List.getLast?_concat]
    intro e2
    simp only [Option.some.injEq] at e2
    rw [e2] at hd
    unfold IsDigit at hd; simp at hd

theorem good_colLine (ss : List Bytes) (h : wfSamples ss = true) : GoodLine (colLine ss) := by
  simp only [wfSamples, Bool.and_eq_true, List.all_eq_true, Bool.not_eq_true'] at h
  obtain ⟨⟨hall, _⟩, hlast⟩ := h
  have hfree : ∀ s ∈ ss, (10 : UInt8) ∉ s := fun s hs => by
    have := (hall s hs).2; simpa using this
  refine ⟨rfl, ?_, ?_⟩
  · unfold colLine
    by_cases hs : ss = []
    · simp only [hs, if_true, List.append_nil]; unfold COLUMNS; decide
    · simp only [hs, if_false, List.mem_append, List.mem_cons, List.mem_flatten, List.mem_map, not_or]
      refine ⟨by unfold COLUMNS; decide, by unfold K_FORMAT; decide, ?_⟩
      rintro ⟨l, ⟨s, hs', rfl⟩, hm⟩
      simp only [List.mem_cons] at hm
      rcases hm with hm | hm
      · exact absurd hm (by decide)
      · exact hfree s hs' hm
  · unfold colLine
    by_cases hs : ss = []
    · simp only [hs, if_true, List.append_nil]; unfold COLUMNS; decide
    · simp only [hs, if_false]
      obtain ⟨ys, y, rfl⟩ : ∃ ys y, ss = ys ++ [y] :=
        ⟨ss.dropLast, ss.getLast hs, (List.dropLast_concat_getLast hs).symm⟩
      simp only [List.getLast?_concat, bne_iff_ne, ne_eq] at hlast
      cases y with
      | nil =>
        have e : COLUMNS ++ (9 :: K_FORMAT ++ (List.map (fun x => 9 :: x) (ys ++ [[]])).flatten) =
            (COLUMNS ++ 9 :: K_FORMAT ++ (List.map (fun x => 9 :: x) ys).flatten) ++ [9] := by simp
        rw [e, List.getLast?_concat]; decide
      | cons b t =>
        obtain ⟨zs, z, hz⟩ : ∃ zs z, b :: t = zs ++ [z] :=
          ⟨(b :: t).dropLast, (b :: t).getLast (by simp), (List.dropLast_concat_getLast (by simp)).symm⟩
        rw [hz] at hlast ⊢
        have e : COLUMNS ++ (9 :: K_FORMAT ++ (List.map (fun x => 9 :: x) (ys ++ [zs ++ [z]])).flatten) =
            (COLUMNS ++ 9 :: K_FORMAT ++ (List.map (fun x => 9 :: x) ys).flatten ++ 9 :: zs) ++ [z] := by simp
        rw [e, List.getLast?_concat]
        simpa using hlast

theorem good_structLine (maj min : Nat) (key : Bytes) (m : OtherL) (hk : keyOk key = true)
    (h : wfOtherMap maj min key m = true) : GoodLine (structLine key m) := by
  have hkey := (keyOk_spec hk).2.1
  unfold structLine
  by_cases hM : key = META
  · simp only [hM, if_true]
    rw [hM] at h
    simp only [wfOtherMap, if_true, Bool.and_eq_true, decide_eq_true_eq, List.all_eq_true] at h
    obtain ⟨⟨hid, _⟩, htag, hall⟩ := h
    refine good_mapLineBody _ _ _ _ (by unfold META; decide) (by rw [htag]; unfold ID; decide)
      (rawOk_spec hid).2 (nolf_loopText _ ?_)
    intro e he
    obtain ⟨kv, hkv, rfl⟩ := List.mem_map.mp he
    have hf := hall kv hkv
    simp only [metaFieldOk, Bool.and_eq_true, bne_iff_ne] at hf
    obtain ⟨⟨ht, _⟩, hval⟩ := hf
    refine ⟨(tagOk_spec ht).2, ?_⟩
    show (10 : UInt8) ∉ (if isRawMeta kv.1 = true then kv.2 else quote kv.2)
    by_cases hr : isRawMeta kv.1 = true
    · rw [if_pos hr]
      have hr' : (kv.1 = NUMBER || kv.1 = TYPE || kv.1 = VALUES) = true := hr
      simp only [hr', if_true] at hval
      split at hval
      · simp only [bracketOk, Bool.and_eq_true, Bool.not_eq_true'] at hval
        simpa using hval.2
      · exact (rawOk_spec hval).2
    · rw [if_neg hr]
      have hr' : ¬((kv.1 = NUMBER || kv.1 = TYPE || kv.1 = VALUES) = true) := hr
      simp only [hr', if_false] at hval
      exact nolf_quote _ (strOk_spec hval)
  · by_cases hP : key = PEDIGREE
    · simp only [hM, hP, if_false, if_true]
      rw [hP] at h
      simp only [wfOtherMap, PEDIGREE_ne_META, if_false, if_true, Bool.and_eq_true, List.all_eq_true] at h
      obtain ⟨⟨hid, _⟩, htag, hall⟩ := h
      have htag' : m.idTag ∈ pedIdTags maj min := List.contains_iff_mem.mp htag
      have hnt : (10 : UInt8) ∉ m.idTag := by
        unfold pedIdTags at htag'
        split at htag'
        · simp at htag'
          rcases htag' with e | e | e <;> rw [e]
          · unfold ID; decide
          · unfold CHILD; decide
          · unfold DERIVED; decide
        · simp at htag'; rw [htag']; unfold ID; decide
      refine good_mapLineBody _ _ _ _ (by unfold PEDIGREE; decide) hnt (rawOk_spec hid).2 (nolf_loopText _ ?_)
      intro e he
      obtain ⟨kv, hkv, rfl⟩ := List.mem_map.mp he
      obtain ⟨⟨ht, _⟩, hv⟩ := hall kv hkv
      exact ⟨(tagOk_spec ht).2, nolf_quote _ (strOk_spec hv)⟩
    · simp only [hM, hP, if_false]
      simp only [wfOtherMap, hM, hP, if_false, Bool.and_eq_true, decide_eq_true_eq, List.all_eq_true] at h
      obtain ⟨⟨hid, _⟩, htag, hall⟩ := h
      refine good_mapLineBody _ _ _ _ hkey (by rw [htag]; unfold ID; decide) (rawOk_spec hid).2
        (nolf_fieldsText _ (nolf_strFields _ ?_))
      intro kv hkv
      obtain ⟨⟨ht, _⟩, hv⟩ := hall kv hkv
      exact ⟨(tagOk_spec ht).2, strOk_spec hv⟩

theorem good_unstrLine (maj min : Nat) (key v : Bytes) (hk : keyOk key = true) (h : unstrOk maj min v = true) :
    GoodLine (unstrLine key v) := by
  have hkey := (keyOk_spec hk).2.1
  simp only [unstrOk, Bool.and_eq_true, Bool.not_eq_true', bne_iff_ne] at h
  obtain ⟨⟨⟨h10, h13⟩, _⟩, _⟩ := h
  have h10' : (10 : UInt8) ∉ v := by simpa using h10
  refine ⟨rfl, by simp [unstrLine, hkey, h10'], ?_⟩
  cases v with
  | nil =>
    have e : unstrLine key [] = (35 :: 35 :: key) ++ [61] := by simp [unstrLine]
    rw [e, List.getLast?_concat]; decide
  | cons b t =>
    obtain ⟨zs, z, hz⟩ : ∃ zs z, b :: t = zs ++ [z] :=
      ⟨(b :: t).dropLast, (b :: t).getLast (by simp), (List.dropLast_concat_getLast (by simp)).symm⟩
    rw [hz] at h13 ⊢
    have e : unstrLine key (zs ++ [z]) = (35 :: 35 :: (key ++ 61 :: zs)) ++ [z] := by simp [unstrLine]
    rw [e, List.getLast?_concat]
    simpa using h13

theorem good_collLines (maj min : Nat) (kc : Bytes × Coll) (h : wfColl maj min kc = true) :
    ∀ l ∈ collLines kc, GoodLine l := by
  obtain ⟨k, c⟩ := kc
  simp only [wfColl, Bool.and_eq_true] at h
  obtain ⟨hk, hc⟩ := h
  intro l hl
  cases c with
  | unstructured vs =>
    simp only [Bool.and_eq_true, List.all_eq_true] at hc
    obtain ⟨v, hv, rfl⟩ := List.mem_map.mp hl
    exact good_unstrLine maj min k v hk (hc.2 v hv)
  | structured ms =>
    simp only [Bool.and_eq_true, List.all_eq_true] at hc
    obtain ⟨m, hm, rfl⟩ := List.mem_map.mp hl
    exact good_structLine maj min k m hk (hc.2 m hm)

/-! ### the writer's text is its lines -/

def linesOf (h : Header) : List Bytes :=
  [ffLine h.major h.minor] ++ h.infos.map (typedLine K_INFO) ++ h.filters.map filterLine ++
    h.formats.map (typedLine K_FORMAT) ++ h.alts.map altLine ++ h.contigs.map contigLine ++
    (h.others.map collLines).flatten ++ [colLine h.samples]

theorem flatten_map_lines {α : Type} (w : α → Bytes) (line : α → Bytes) (xs : List α)
    (h : ∀ x, w x = line x ++ [10]) : (xs.map w).flatten = unlines (xs.map line) := by
  induction xs with
  | nil => rfl
  | cons x r ih => simp only [List.map_cons, List.flatten_cons, unlines_cons, ih, h x]; simp

theorem writeColl_eq (maj min : Nat) (kc : Bytes × Coll) (h : wfColl maj min kc = true) :
    writeColl maj min kc = some (unlines (collLines kc)) := by
  obtain ⟨k, c⟩ := kc
  simp only [wfColl, Bool.and_eq_true] at h
  obtain ⟨_, hc⟩ := h
  cases c with
  | unstructured vs =>
    simp only [Bool.and_eq_true, List.all_eq_true] at hc
    have hall := hc.2
    simp only [writeColl, collLines]
    clear hc
    induction vs with
    | nil => rfl
    | cons v r ih =>
      simp only [List.map_cons, concatOpt, writeUnstructured_eq maj min k v (hall v (by simp)),
        ih (fun y hy => hall y (List.mem_cons_of_mem _ hy)), Option.map_some, unlines_cons]
      simp
  | structured ms =>
    simp only [writeColl, collLines]
    rw [flatten_map_lines (writeOtherL k) (structLine k) ms (writeOtherL_struct k)]

theorem concatOpt_colls (maj min : Nat) (xs : List (Bytes × Coll)) (h : ∀ x ∈ xs, wfColl maj min x = true) :
    concatOpt (xs.map (writeColl maj min)) = some (unlines (xs.map collLines).flatten) := by
  induction xs with
  | nil => rfl
  | cons x r ih =>
    simp only [List.map_cons, concatOpt, writeColl_eq maj min x (h x (by simp)),
      ih (fun y hy => h y (List.mem_cons_of_mem _ hy)), Option.map_some, List.flatten_cons, unlines_append]

/-! ### the whole header -/

/-- the clauses of `wfHeader`, as propositions -/
structure WFH (D : DefTables) (h : Header) : Prop where
  major : h.major ≤ U32_MAX
  minor : h.minor ≤ U32_MAX
  infos : ∀ x ∈ h.infos, wfInfo (D.info h.major h.minor) x = true
  infosDup : hasDup (h.infos.map (·.id)) = false
  filters : ∀ x ∈ h.filters, wfFilter x = true
  filtersDup : hasDup (h.filters.map (·.id)) = false
  formats : ∀ x ∈ h.formats, wfFormat (D.format h.major h.minor) x = true
  formatsDup : hasDup (h.formats.map (·.id)) = false
  alts : ∀ x ∈ h.alts, wfAlt x = true
  altsDup : hasDup (h.alts.map (·.id)) = false
  contigs : ∀ x ∈ h.contigs, wfContig x = true
  contigsDup : hasDup (h.contigs.map (·.id)) = false
  others : ∀ x ∈ h.others, wfColl h.major h.minor x = true
  othersDup : hasDup (h.others.map (·.1)) = false
  samples : wfSamples h.samples = true

theorem wfHeader_spec {D : DefTables} {h : Header} (hwf : wfHeader D h = true) : WFH D h := by
  simp only [wfHeader, Bool.and_eq_true, decide_eq_true_eq, List.all_eq_true, Bool.not_eq_true'] at hwf
  obtain ⟨⟨⟨⟨⟨⟨⟨⟨⟨⟨⟨⟨⟨⟨a1, a2⟩, a3⟩, a4⟩, a5⟩, a6⟩, a7⟩, a8⟩, a9⟩, a10⟩, a11⟩, a12⟩, a13⟩, a14⟩, a15⟩ := hwf
  exact ⟨a1, a2, a3, a4, a5, a6, a7, a8, a9, a10, a11, a12, a13, a14, a15⟩

theorem writeHeader_lines (D : DefTables) (h : Header) (hwf : WFH D h) :
    writeHeader h = some (unlines (linesOf h)) := by
  unfold writeHeader
  rw [concatOpt_colls h.major h.minor h.others hwf.others]
  simp only [Option.map_some, linesOf, unlines_append,
    flatten_map_lines (writeInfoL K_INFO) (typedLine K_INFO) h.infos (writeInfoL_eq' K_INFO),
    flatten_map_lines (writeInfoL K_FORMAT) (typedLine K_FORMAT) h.formats (writeInfoL_eq' K_FORMAT),
    flatten_map_lines writeFilterL filterLine h.filters writeFilterL_eq,
    flatten_map_lines writeAltL altLine h.alts writeAltL_eq,
    flatten_map_lines writeContigL contigLine h.contigs writeContigL_eq, writeColumns_eq]
  simp [unlines, ffLine]

theorem linesOf_good (D : DefTables) (h : Header) (hwf : WFH D h) : ∀ l ∈ linesOf h, GoodLine l := by
  intro l hl
  simp only [linesOf, List.mem_append, List.mem_cons, List.mem_nil_iff, or_false, List.mem_map,
    List.mem_flatten] at hl
  rcases hl with ((((((rfl | ⟨x, hx, rfl⟩) | ⟨x, hx, rfl⟩) | ⟨x, hx, rfl⟩) | ⟨x, hx, rfl⟩) | ⟨x, hx, rfl⟩) |
    ⟨ls, ⟨x, hx, rfl⟩, hl⟩) | rfl
  · exact good_ffLine _ _
  · have := hwf.infos x hx
    simp only [wfInfo, Bool.and_eq_true] at this
    exact good_typedLine K_INFO (by unfold K_INFO; decide) x this.1.1
  · exact good_filterLine x (hwf.filters x hx)
  · have := hwf.formats x hx
    simp only [wfFormat, Bool.and_eq_true] at this
    exact good_typedLine K_FORMAT (by unfold K_FORMAT; decide) x this.1.1
  · exact good_altLine x (hwf.alts x hx)
  · exact good_contigLine x (hwf.contigs x hx)
  · exact good_collLines h.major h.minor x (hwf.others x hx) l hl
  · exact good_colLine _ hwf.samples

theorem chrom_colLine (ss : List Bytes) : CHROM_PREFIX.isPrefixOf (colLine ss) = true := by
  simp [colLine, COLUMNS, CHROM_PREFIX, List.isPrefixOf]

theorem wfSamples_spec {ss : List Bytes} (h : wfSamples ss = true) :
    (∀ s ∈ ss, (9 : UInt8) ∉ s) ∧ hasDup ss = false := by
  simp only [wfSamples, Bool.and_eq_true, List.all_eq_true, Bool.not_eq_true'] at h
  exact ⟨fun s hs => by simpa using (h.1.1 s hs).1, h.1.2⟩

theorem parseLines_linesOf (D : DefTables) (h : Header) (hwf : WFH D h) :
    parseLines D ⟨.empty, emptyHeader⟩ (linesOf h) = .ok ⟨.done, h⟩ := by
  have e : linesOf h = ffLine h.major h.minor :: (h.infos.map (typedLine K_INFO) ++ (h.filters.map filterLine ++
      (h.formats.map (typedLine K_FORMAT) ++ (h.alts.map altLine ++ (h.contigs.map contigLine ++
      ((h.others.map collLines).flatten ++ [colLine h.samples])))))) := by
    simp [linesOf]
  rw [e]
  -- the first line
  have h1 : parsePartial D ⟨.empty, emptyHeader⟩ (ffLine h.major h.minor) =
      .ok ⟨.ready, { emptyHeader with major := h.major, minor := h.minor }⟩ := by
    unfold parsePartial
    simp only [ff_line D 4 5 h.major h.minor hwf.major hwf.minor]
  simp only [parseLines, h1]
  simp only [emptyHeader]
  -- the five typed groups, the other records
  rw [parseLines_append, infos_lines D h.infos ⟨h.major, h.minor, [], [], [], [], [], [], []⟩ hwf.infos
    (by simpa using hwf.infosDup)]
  simp only [List.nil_append]
  rw [parseLines_append, filters_lines D h.filters ⟨h.major, h.minor, h.infos, [], [], [], [], [], []⟩ hwf.filters
    (by simpa using hwf.filtersDup)]
  simp only [List.nil_append]
  rw [parseLines_append, formats_lines D h.formats ⟨h.major, h.minor, h.infos, h.filters, [], [], [], [], []⟩
    hwf.formats (by simpa using hwf.formatsDup)]
  simp only [List.nil_append]
  rw [parseLines_append, alts_lines D h.alts ⟨h.major, h.minor, h.infos, h.filters, h.formats, [], [], [], []⟩
    hwf.alts (by simpa using hwf.altsDup)]
  simp only [List.nil_append]
  rw [parseLines_append, contigs_lines D h.contigs
    ⟨h.major, h.minor, h.infos, h.filters, h.formats, h.alts, [], [], []⟩ hwf.contigs
    (by simpa using hwf.contigsDup)]
  simp only [List.nil_append]
  rw [parseLines_append, others_lines D h.others
    ⟨h.major, h.minor, h.infos, h.filters, h.formats, h.alts, h.contigs, [], []⟩ hwf.others
    (by simpa using hwf.othersDup)]
  simp only [List.nil_append]
  -- the column line
  obtain ⟨hfree, hdup⟩ := wfSamples_spec hwf.samples
  simp only [parseLines]
  unfold parsePartial
  simp only [chrom_colLine, if_true, parseColumns_line h.samples hfree hdup]

end Noodles.Vcf.Header
