import Noodles.Vcf.Model
/-!
# VCF header text model (C09)

Transcribes the header writer `io/writer/header.rs`, `io/writer/header/record.rs`,
`io/writer/header/record/value/{file_format,string,map}.rs`, `…/map/{info,filter,format,
alternative_allele,contig,meta,other}.rs` and the header parser `header/parser.rs`,
`header/parser/record.rs`, `header/parser/record/{key,value}.rs`, `…/value/string/file_format.rs`,
`…/value/map.rs`, `…/value/map/field{,/key,/value,/value/string}.rs`,
`…/value/map/{info,filter,format,alternative_allele,contig,other}.rs`, with the line framing of
`io/reader/header.rs`.

The header text is valid UTF-8 (the harness only builds `&str`); slices cut at ASCII delimiters are
then valid too, so the per-slice `str::from_utf8` checks of the parser never fire and are not
modelled. The reserved-key tables `definition(file_format, key)` are a parameter (`DefTables`).

The writer emits `IDX=n` (after Description / URL, before the other fields) for INFO / FILTER /
FORMAT / contig maps that carry one (/repo commit f23eb11), and the FORMAT `Number` parser accepts
`LA LR LG P M`, which the writer emits (commit 523621b of the C09 round; was: rejected).

The contig writer is described AS FIXED by fixes/vcf-contig-url-unquoted.diff (whole-header
extension): `md5` / `URL` values that cannot be read back unquoted are written quoted.
-/
namespace Noodles.Vcf.Header
open Noodles.Text (splitOn join parseNat printNat)
open Noodles.Vcf

abbrev Fields := List (Bytes × Bytes)

structure InfoL where
  id : Bytes
  num : Num
  ty : Ty
  desc : Bytes
  idx : Option Nat
  others : Fields
  deriving DecidableEq, Repr

structure FilterL where
  id : Bytes
  desc : Bytes
  idx : Option Nat
  others : Fields
  deriving DecidableEq, Repr

structure AltL where
  id : Bytes
  desc : Bytes
  others : Fields
  deriving DecidableEq, Repr

structure ContigL where
  id : Bytes
  length : Option Nat
  md5 : Option Bytes
  url : Option Bytes
  idx : Option Nat
  others : Fields
  deriving DecidableEq, Repr

/-- `Map<Other>`: id, the tag that carries the id (`ID`, or `Child` / `Derived` before 4.3), fields -/
structure OtherL where
  id : Bytes
  idTag : Bytes
  others : Fields
  deriving DecidableEq, Repr

inductive Coll
  | unstructured (vs : List Bytes)
  | structured (ms : List OtherL)
  deriving DecidableEq, Repr

structure Header where
  major : Nat
  minor : Nat
  infos : List InfoL
  filters : List FilterL
  formats : List InfoL
  alts : List AltL
  contigs : List ContigL
  others : List (Bytes × Coll)
  samples : List Bytes
  deriving DecidableEq, Repr

inductive HErr
  | empty | missingFileFormat | unexpectedFileFormat | invalidRecord
  | dupInfo | dupFilter | dupFormat | dupAlt | dupContig | invalidRecordValue
  | missingHeader | invalidHeader | dupSample | expectedEof
  | writeInvalidInput
  deriving DecidableEq, Repr

/-- `definition(file_format, key)` for INFO and FORMAT -/
structure DefTables where
  info : Nat → Nat → Defs
  format : Nat → Nat → Defs

def before (maj min a b : Nat) : Bool := maj < a || (maj = a && min < b)

def ID : Bytes := [73, 68]
def NUMBER : Bytes := [78, 117, 109, 98, 101, 114]
def TYPE : Bytes := [84, 121, 112, 101]
def DESCRIPTION : Bytes := [68, 101, 115, 99, 114, 105, 112, 116, 105, 111, 110]
def IDX : Bytes := [73, 68, 88]
def LENGTH : Bytes := [108, 101, 110, 103, 116, 104]
def MD5 : Bytes := [109, 100, 53]
def URL : Bytes := [85, 82, 76]
def VALUES : Bytes := [86, 97, 108, 117, 101, 115]
def META : Bytes := [77, 69, 84, 65]
def PEDIGREE : Bytes := [80, 69, 68, 73, 71, 82, 69, 69]
def CHILD : Bytes := [67, 104, 105, 108, 100]
def DERIVED : Bytes := [68, 101, 114, 105, 118, 101, 100]
/-- `fileformat` -/
def K_FILEFORMAT : Bytes := [102, 105, 108, 101, 102, 111, 114, 109, 97, 116]
/-- `INFO` -/
def K_INFO : Bytes := [73, 78, 70, 79]
/-- `FILTER` -/
def K_FILTER : Bytes := [70, 73, 76, 84, 69, 82]
/-- `FORMAT` -/
def K_FORMAT : Bytes := [70, 79, 82, 77, 65, 84]
/-- `ALT` -/
def K_ALT : Bytes := [65, 76, 84]
/-- `contig` -/
def K_CONTIG : Bytes := [99, 111, 110, 116, 105, 103]
/-- `Integer` -/
def T_INTEGER : Bytes := [73, 110, 116, 101, 103, 101, 114]
/-- `Float` -/
def T_FLOAT : Bytes := [70, 108, 111, 97, 116]
/-- `Flag` -/
def T_FLAG : Bytes := [70, 108, 97, 103]
/-- `Character` -/
def T_CHARACTER : Bytes := [67, 104, 97, 114, 97, 99, 116, 101, 114]
/-- `String` -/
def T_STRING : Bytes := [83, 116, 114, 105, 110, 103]
/-- `#CHROM` -/
def CHROM_PREFIX : Bytes := [35, 67, 72, 82, 79, 77]
/-- `ID=` -/
def ID_EQ : Bytes := [73, 68, 61]
/-- `##fileformat=VCFv` -/
def FILEFORMAT_LINE : Bytes := [35, 35, 102, 105, 108, 101, 102, 111, 114, 109, 97, 116, 61, 86, 67, 70, 118]

/-! ## writer -/

/-- `write_escaped_string` (also what `write_string` produces when nothing needs escaping) -/
def escape : Bytes → Bytes
  | [] => []
  | b :: r => if b = 92 || b = 34 then 92 :: b :: escape r else b :: escape r

def quote (v : Bytes) : Bytes := 34 :: escape v ++ [34]

/-- `,key="value"` -/
def strField (k v : Bytes) : Bytes := 44 :: k ++ 61 :: quote v
/-- `,key=value` -/
def rawField (k v : Bytes) : Bytes := 44 :: k ++ 61 :: v

def writeOthers : Fields → Bytes
  | [] => []
  | (k, v) :: r => strField k v ++ writeOthers r

def writeNum : Num → Bytes
  | .count n => printNat n
  | .a => [65] | .r => [82] | .g => [71]
  | .la => [76, 65] | .lr => [76, 82] | .lg => [76, 71] | .p => [80] | .m => [77]
  | .unknown => [46]

def writeTy : Ty → Bytes
  | .integer => T_INTEGER | .float => T_FLOAT | .flag => T_FLAG
  | .character => T_CHARACTER | .string => T_STRING

def writeIdx : Option Nat → Bytes
  | none => []
  | some n => rawField IDX (printNat n)

/-- `##KEY=<ID=id … >\n` -/
def mapLine (key idTag id body : Bytes) : Bytes :=
  [35, 35] ++ key ++ [61, 60] ++ idTag ++ 61 :: id ++ body ++ [62, 10]

def writeInfoL (key : Bytes) (l : InfoL) : Bytes :=
  mapLine key ID l.id
    (rawField NUMBER (writeNum l.num) ++ rawField TYPE (writeTy l.ty) ++ strField DESCRIPTION l.desc ++
     writeIdx l.idx ++ writeOthers l.others)

def writeFilterL (l : FilterL) : Bytes :=
  mapLine K_FILTER ID l.id (strField DESCRIPTION l.desc ++ writeIdx l.idx ++ writeOthers l.others)

def writeAltL (l : AltL) : Bytes :=
  mapLine K_ALT ID l.id (strField DESCRIPTION l.desc ++ writeOthers l.others)

def writeOptRaw (k : Bytes) : Option Bytes → Bytes
  | none => []
  | some v => rawField k v

/-- `write_raw_or_string_field::requires_quotes` (fix `vcf-contig-url-unquoted`): a value that
`parse_raw_string` would not read back — it contains `,` or `>`, or starts with `"` -/
def needsQuote (v : Bytes) : Bool := v.head? == some 34 || v.contains 44 || v.contains 62

/-- `write_raw_or_string_field`: unquoted when that reads back, otherwise a quoted string -/
def autoField (k v : Bytes) : Bytes := if needsQuote v then strField k v else rawField k v

def writeOptAuto (k : Bytes) : Option Bytes → Bytes
  | none => []
  | some v => autoField k v

/-- `write_contig`; `md5` and `URL` through `write_raw_or_string_field` (was: always unquoted, so
that `URL=http://h/a,b` was written as a line the parser rejects) -/
def writeContigL (l : ContigL) : Bytes :=
  mapLine K_CONTIG ID l.id
    (writeOptRaw LENGTH (l.length.map printNat) ++ writeOptAuto MD5 l.md5 ++ writeOptAuto URL l.url ++
     writeIdx l.idx ++ writeOthers l.others)

/-- `write_meta`: `Number`, `Type`, `Values` are written unquoted -/
def writeMetaFields : Fields → Bytes
  | [] => []
  | (k, v) :: r =>
    (if k = NUMBER || k = TYPE || k = VALUES then rawField k v else strField k v) ++ writeMetaFields r

def writeOtherL (key : Bytes) (l : OtherL) : Bytes :=
  mapLine key l.idTag l.id (if key = META then writeMetaFields l.others else writeOthers l.others)

/-- `value::write_string`: from 4.3 an unstructured value is non-empty and does not start with `<` -/
def writeUnstructured (maj min : Nat) (key v : Bytes) : Option Bytes :=
  let ok := before maj min 4 3 || (match v with | [] => false | b :: _ => b ≠ 60)
  if ok then some ([35, 35] ++ key ++ 61 :: v ++ [10]) else none

def concatOpt : List (Option Bytes) → Option Bytes
  | [] => some []
  | none :: _ => none
  | some x :: r => (concatOpt r).map (x ++ ·)

def writeColl (maj min : Nat) (kc : Bytes × Coll) : Option Bytes :=
  match kc.2 with
  | .unstructured vs => concatOpt (vs.map (writeUnstructured maj min kc.1))
  | .structured ms => some (ms.map (writeOtherL kc.1)).flatten

def COLUMNS : Bytes := [35, 67, 72, 82, 79, 77, 9, 80, 79, 83, 9, 73, 68, 9, 82, 69, 70, 9, 65, 76, 84, 9, 81, 85, 65, 76, 9, 70, 73, 76, 84, 69, 82, 9, 73, 78, 70, 79]

def writeColumns (samples : List Bytes) : Bytes :=
  COLUMNS ++ (if samples = [] then [] else 9 :: K_FORMAT ++ (samples.map (9 :: ·)).flatten) ++ [10]

/-- `write_header` -/
def writeHeader (h : Header) : Option Bytes :=
  (concatOpt (h.others.map (writeColl h.major h.minor))).map fun others =>
    FILEFORMAT_LINE ++ printNat h.major ++ 46 :: printNat h.minor ++ [10] ++
    (h.infos.map (writeInfoL K_INFO)).flatten ++
    (h.filters.map writeFilterL).flatten ++
    (h.formats.map (writeInfoL K_FORMAT)).flatten ++
    (h.alts.map writeAltL).flatten ++
    (h.contigs.map writeContigL).flatten ++
    others ++ writeColumns h.samples

/-! ## parser: map fields -/

/-- `parse_escaped_string` + `unescape_string` (after the opening quote): value and rest -/
def parseQuoted : Bytes → Option (Bytes × Bytes)
  | [] => none
  | b :: r =>
    if b = 34 then some ([], r)
    else if b = 92 then
      match r with
      | [] => none
      | c :: r' => if c = 92 || c = 34 then (parseQuoted r').map fun p => (c :: p.1, p.2) else none
    else (parseQuoted r).map fun p => (b :: p.1, p.2)

/-- `parse_raw_string`: up to (not including) the next `,` or `>`, which must exist -/
def parseRaw : Bytes → Option (Bytes × Bytes)
  | [] => none
  | b :: r => if b = 44 || b = 62 then some ([], b :: r) else
    (parseRaw r).map fun p => (b :: p.1, p.2)

/-- `field::parse_value` -/
def parseFieldValue (src : Bytes) : Option (Bytes × Bytes) :=
  match src with
  | 34 :: r => parseQuoted r
  | _ => parseRaw src

/-- `field::parse_key`: up to `=`, which must exist -/
def parseFieldKey : Bytes → Option (Bytes × Bytes)
  | [] => none
  | b :: r => if b = 61 then some ([], r) else (parseFieldKey r).map fun p => (b :: p.1, p.2)

/-- `consume_separator`: `none` = end of input; `some (true, rest)` = a comma was consumed -/
def consumeSep : Bytes → Option (Bool × Bytes)
  | [] => none
  | b :: r => if b = 44 then some (true, r) else some (false, b :: r)

/-- the `while let Some(..) = split_field(src)` loop: fields and the source left at the `>` -/
def splitFields : Nat → Bytes → Option (Fields × Bytes)
  | 0, _ => none
  | fuel + 1, src =>
    match src with
    | 62 :: _ => some ([], src)
    | _ =>
      match parseFieldKey src with
      | none => none
      | some (k, r1) =>
        match parseFieldValue r1 with
        | none => none
        | some (v, r2) =>
          match consumeSep r2 with
          | none => none
          | some (_, r3) => (splitFields fuel r3).map fun p => ((k, v) :: p.1, p.2)

/-- `<` fields `>`; whatever follows the `>` is not looked at -/
def parseMapFields (src : Bytes) : Option Fields :=
  match src with
  | 60 :: r =>
    match splitFields (r.length + 1) r with
    | some (fs, 62 :: _) => some fs
    | _ => none
  | _ => none

/-! ## parser: typed maps -/

def getField (k : Bytes) : Fields → Option Bytes
  | [] => none
  | (k', v) :: r => if k' = k then some v else getField k r

def countKey (k : Bytes) (fs : Fields) : Nat := (fs.filter (·.1 = k)).length

def hasDupKeys : Fields → Bool
  | [] => false
  | (k, _) :: r => r.any (·.1 = k) || hasDupKeys r

/-- info `parse_number` -/
def parseInfoNum (t : Bytes) : Option Num :=
  if t = [] then none
  else if t = [65] then some .a else if t = [82] then some .r else if t = [71] then some .g
  else if t = [46] then some .unknown
  else (parseUsize t).map .count

/-- format `parse_number` (incl. `LA LR LG P M`, commit 523621b) -/
def parseFormatNum (t : Bytes) : Option Num :=
  if t = [76, 65] then some .la else if t = [76, 82] then some .lr else if t = [76, 71] then some .lg
  else if t = [80] then some .p else if t = [77] then some .m
  else parseInfoNum t

def parseInfoTy (t : Bytes) : Option Ty :=
  if t = T_INTEGER then some .integer else if t = T_FLOAT then some .float
  else if t = T_FLAG then some .flag else if t = T_CHARACTER then some .character
  else if t = T_STRING then some .string else none

def parseFormatTy (t : Bytes) : Option Ty :=
  match parseInfoTy t with
  | some .flag => none
  | x => x

def optField {α : Type} (k : Bytes) (f : Bytes → Option α) (fs : Fields) : Option (Option α) :=
  match getField k fs with
  | none => some none
  | some v => (f v).map some

/-- the fields that are not in `std` -/
def otherFields (std : List Bytes) (fs : Fields) : Fields := fs.filter fun kv => !std.contains kv.1

/-- `parse_info` / `parse_format`: every tag at most once (standard or not), values typed in
order of appearance, then the required ones -/
def parseTypedMap (pn : Bytes → Option Num) (pt : Bytes → Option Ty) (src : Bytes) : Option InfoL :=
  match parseMapFields src with
  | none => none
  | some fs =>
    if hasDupKeys fs then none else
    -- every present Number / Type / IDX must parse (errors surface while the fields are read)
    match optField NUMBER pn fs, optField TYPE pt fs, optField IDX parseUsize fs with
    | some num, some ty, some idx =>
      match getField ID fs, num, ty, getField DESCRIPTION fs with
      | some id, some num, some ty, some desc =>
        some ⟨id, num, ty, desc, idx, otherFields [ID, NUMBER, TYPE, DESCRIPTION, IDX] fs⟩
      | _, _, _, _ => none
    | _, _, _ => none

def parseFilterMap (src : Bytes) : Option FilterL :=
  match parseMapFields src with
  | none => none
  | some fs =>
    if hasDupKeys fs then none else
    match optField IDX parseUsize fs with
    | some idx =>
      match getField ID fs, getField DESCRIPTION fs with
      | some id, some desc => some ⟨id, desc, idx, otherFields [ID, DESCRIPTION, IDX] fs⟩
      | _, _ => none
    | none => none

def parseAltMap (src : Bytes) : Option AltL :=
  match parseMapFields src with
  | none => none
  | some fs =>
    if hasDupKeys fs then none else
    match getField ID fs, getField DESCRIPTION fs with
    | some id, some desc => some ⟨id, desc, otherFields [ID, DESCRIPTION] fs⟩
    | _, _ => none

def parseContigMap (src : Bytes) : Option ContigL :=
  match parseMapFields src with
  | none => none
  | some fs =>
    if hasDupKeys fs then none else
    match optField LENGTH parseUsize fs, optField IDX parseUsize fs with
    | some len, some idx =>
      match getField ID fs with
      | some id => some ⟨id, len, getField MD5 fs, getField URL fs, idx,
                         otherFields [ID, LENGTH, MD5, URL, IDX] fs⟩
      | none => none
    | _, _ => none

/-- `parse_other` -/
def parseOtherMap (src : Bytes) : Option OtherL :=
  match parseMapFields src with
  | none => none
  | some fs =>
    if hasDupKeys fs then none else
    match getField ID fs with
    | some id => some ⟨id, ID, otherFields [ID] fs⟩
    | none => none

/-- `parse_values`: `[ … ]` through the first `]`, else an ordinary value -/
def parseBracket : Bytes → Option (Bytes × Bytes)
  | [] => none
  | b :: r => if b = 93 then some ([93], r) else (parseBracket r).map fun p => (b :: p.1, p.2)

/-- the `loop` of `parse_meta` / `parse_pedigree`: at least one field, a field after every comma;
`idTags` are the tags that carry the id (`ID`, and `Child` / `Derived` for PEDIGREE before 4.3) -/
def loopFields (bracketValues : Bool) : Nat → Bytes → Option (Fields × Bytes)
  | 0, _ => none
  | fuel + 1, src =>
    match parseFieldKey src with
    | none => none
    | some (k, r1) =>
      let v := if bracketValues && k = VALUES then
          (match r1 with
           | 91 :: _ => (match parseBracket r1 with | some p => some p | none => parseFieldValue r1)
           | _ => parseFieldValue r1)
        else parseFieldValue r1
      match v with
      | none => none
      | some (v, r2) =>
        match consumeSep r2 with
        | none => none
        | some (true, r3) => (loopFields bracketValues fuel r3).map fun p => ((k, v) :: p.1, p.2)
        | some (false, r3) => some ([(k, v)], r3)

def parseLoopMap (bracketValues : Bool) (idTags : List Bytes) (src : Bytes) : Option OtherL :=
  match src with
  | 60 :: r =>
    match loopFields bracketValues (r.length + 1) r with
    | some (fs, 62 :: _) =>
      -- every id-carrying tag replaces the one id slot: two of them is a duplicate
      let ids := fs.filter fun kv => idTags.contains kv.1
      let rest := fs.filter fun kv => !idTags.contains kv.1
      if hasDupKeys rest then none else
      match ids with
      | [(t, id)] =>
        -- `id_tag` starts as `ID` and is only changed by a `Child` / `Derived` tag
        some ⟨id, t, rest⟩
      | _ => none
    | _ => none
  | _ => none

/-! ## parser: records and lines -/

inductive Record
  | fileFormat (maj min : Nat)
  | info (l : InfoL) | filter (l : FilterL) | format (l : InfoL) | alt (l : AltL) | contig (l : ContigL)
  | otherStr (key v : Bytes) | otherMap (key : Bytes) (l : OtherL)

def U32_MAX : Nat := 4294967295

/-- `parse_u32`: digits only, the empty string is 0 -/
def parseU32 : Bytes → Nat → Option Nat
  | [], acc => some acc
  | b :: r, acc =>
    if 48 ≤ b.toNat ∧ b.toNat ≤ 57 then
      let n := acc * 10 + (b.toNat - 48)
      if n ≤ U32_MAX then parseU32 r n else none
    else none

def cutDot : Bytes → Option (Bytes × Bytes)
  | [] => none
  | b :: r => if b = 46 then some ([], r) else (cutDot r).map fun p => (b :: p.1, p.2)

/-- `parse_file_format` -/
def parseFileFormat (src : Bytes) : Option (Nat × Nat) :=
  match src with
  | 86 :: 67 :: 70 :: 118 :: r =>
    match cutDot r with
    | some (a, b) => match parseU32 a 0, parseU32 b 0 with
      | some x, some y => some (x, y)
      | _, _ => none
    | none => none
  | _ => none

def containsSub (q : Bytes) : Bytes → Bool
  | [] => q = []
  | b :: r => q.isPrefixOf (b :: r) || containsSub q r

/-- `is_map` -/
def isMap (maj min : Nat) (src : Bytes) : Bool :=
  match src with
  | 60 :: _ => if before maj min 4 3 then containsSub ID_EQ src else true
  | _ => false

/-- `validate_{info,format}_definition` -/
def defOk (defs : Defs) (l : InfoL) : Bool :=
  match lookup l.id defs with
  | some (n, t) => n = l.num && t = l.ty
  | none => true

/-- `parse_record` (after `##`): `none` = `InvalidRecord` -/
def parseRecordLine (D : DefTables) (maj min : Nat) (line : Bytes) : Option Record :=
  match line with
  | 35 :: 35 :: r =>
    match parseFieldKey r with   -- `parse_key`: up to `=`
    | none => none
    | some (key, v) =>
      if key = K_FILEFORMAT then (parseFileFormat v).map fun p => .fileFormat p.1 p.2
      else if key = K_INFO then
        match parseTypedMap parseInfoNum parseInfoTy v with
        | some l => if defOk (D.info maj min) l then some (.info l) else none
        | none => none
      else if key = K_FILTER then (parseFilterMap v).map .filter
      else if key = K_FORMAT then
        match parseTypedMap parseFormatNum parseFormatTy v with
        | some l => if defOk (D.format maj min) l then some (.format l) else none
        | none => none
      else if key = K_ALT then (parseAltMap v).map .alt
      else if key = K_CONTIG then (parseContigMap v).map .contig
      else if key = META then (parseLoopMap (!before maj min 4 3) [ID] v).map (.otherMap key)
      else if key = PEDIGREE then
        (parseLoopMap false (if before maj min 4 3 then [ID, CHILD, DERIVED] else [ID]) v).map (.otherMap key)
      else if isMap maj min v then (parseOtherMap v).map (.otherMap key)
      else some (.otherStr key v)
  | _ => none

/-- `parse_header` (the `#CHROM` line) -/
def parseColumns (line : Bytes) : Except HErr (List Bytes) :=
  let fs := splitOn 9 line
  let req := splitOn 9 COLUMNS
  if fs.take 8 ≠ req then .error .invalidHeader
  else match fs.drop 8 with
    | [] => .ok []
    | f :: names =>
      if f ≠ K_FORMAT then .error .invalidHeader
      else if hasDup names then .error .dupSample else .ok names

/-- `insert_other_record`: the collection's kind is fixed by its first value -/
def addOther (key : Bytes) (v : Bytes ⊕ OtherL) : List (Bytes × Coll) → Option (List (Bytes × Coll))
  | [] => some [(key, match v with | .inl x => .unstructured [x] | .inr m => .structured [m])]
  | (k, c) :: r =>
    if k = key then
      match c, v with
      | .unstructured vs, .inl x => some ((k, .unstructured (vs ++ [x])) :: r)
      | .structured ms, .inr m => if ms.any (·.id = m.id) then none else some ((k, .structured (ms ++ [m])) :: r)
      | _, _ => none
    else (addOther key v r).map ((k, c) :: ·)

inductive St | empty | ready | done
  deriving DecidableEq

structure PState where
  st : St
  h : Header

def emptyHeader : Header := ⟨4, 5, [], [], [], [], [], [], []⟩

/-- `Parser::parse_partial` -/
def parsePartial (D : DefTables) (p : PState) (line : Bytes) : Except HErr PState :=
  match p.st with
  | .done => .error .expectedEof
  | .empty =>
    match parseRecordLine D 4 5 line with
    | none => .error .invalidRecord
    | some (.fileFormat a b) => .ok ⟨.ready, { p.h with major := a, minor := b }⟩
    | some _ => .error .missingFileFormat
  | .ready =>
    if CHROM_PREFIX.isPrefixOf line then
      match parseColumns line with
      | .ok names => .ok ⟨.done, { p.h with samples := names }⟩
      | .error e => .error e
    else
      let h := p.h
      match parseRecordLine D h.major h.minor line with
      | none => .error .invalidRecord
      | some (.fileFormat _ _) => .error .unexpectedFileFormat
      | some (.info l) => if h.infos.any (·.id = l.id) then .error .dupInfo else .ok ⟨.ready, { h with infos := h.infos ++ [l] }⟩
      | some (.filter l) => if h.filters.any (·.id = l.id) then .error .dupFilter else .ok ⟨.ready, { h with filters := h.filters ++ [l] }⟩
      | some (.format l) => if h.formats.any (·.id = l.id) then .error .dupFormat else .ok ⟨.ready, { h with formats := h.formats ++ [l] }⟩
      | some (.alt l) => if h.alts.any (·.id = l.id) then .error .dupAlt else .ok ⟨.ready, { h with alts := h.alts ++ [l] }⟩
      | some (.contig l) => if h.contigs.any (·.id = l.id) then .error .dupContig else .ok ⟨.ready, { h with contigs := h.contigs ++ [l] }⟩
      | some (.otherStr k v) => match addOther k (.inl v) h.others with
        | some o => .ok ⟨.ready, { h with others := o }⟩
        | none => .error .invalidRecordValue
      | some (.otherMap k m) => match addOther k (.inr m) h.others with
        | some o => .ok ⟨.ready, { h with others := o }⟩
        | none => .error .invalidRecordValue

/-- the pieces between LFs that start with `#`, up to the first one that does not; `read_line` pops
a CR only in front of an LF it has popped, so the last piece (the text after the last LF) keeps it -/
def headerLinesAux : List Bytes → List Bytes
  | [] => []
  | [l] => (match l with | 35 :: _ => [l] | _ => [])
  | l :: r => (match l with | 35 :: _ => stripCr l :: headerLinesAux r | _ => [])

/-- `io/reader/header.rs`: the lines that start with `#`, up to the first line that does not;
LF-terminated, a CR before the LF is dropped -/
def headerLines (text : Bytes) : List Bytes := headerLinesAux (splitOn 10 text)

def parseLines (D : DefTables) : PState → List Bytes → Except HErr PState
  | p, [] => .ok p
  | p, l :: r => match parsePartial D p l with
    | .ok p' => parseLines D p' r
    | .error e => .error e

/-- `read_header` -/
def parseHeader (D : DefTables) (text : Bytes) : Except HErr Header :=
  match parseLines D ⟨.empty, emptyHeader⟩ (headerLines text) with
  | .error e => .error e
  | .ok p => match p.st with
    | .empty => .error .empty
    | .ready => .error .missingHeader
    | .done => .ok p.h

end Noodles.Vcf.Header
