import Noodles.Vcf.Lazy
/-!
# Lazy `vcf::Record` vs eager `RecordBuf` on EVERY line (C09 / LazyAny)

Both sides are already total on byte lines: `parseRecord` (eager, `io/reader/record_buf.rs`) and
`lazyParse = lazyRead >>= lazyToRec` (lazy reader `io/reader/record.rs` + the accessors of
`record.rs`, `record/**` driven by `RecordBuf::try_from_variant_record`). This file adds the explicit
decidable predicate `linePlain` that separates the lines on which the two agree from the ones on
which the lazy accessors and the eager parser of /repo really differ:

* INFO (`record/info/field.rs::next` vs `record_buf/info.rs::parse_info`): the lazy iterator rejects an
  empty key and a `;` at the end of the column, the eager `split(';')` / `splitn(2, '=')` does not
  (`infoFramePlain`);
* array values (`variant/record/{info/field,samples/series}/value/array/values.rs` vs
  `record_buf/**/value.rs`): an EMPTY text typed `Number ≠ 0, 1` is an empty array for the lazy
  `Values::iter` and a one-entry array for the eager `split(',')` (`arrayEmpty`);
* FORMAT (`record/samples/keys.rs::iter` vs `record_buf/samples/keys.rs`): a trailing `:` is an
  empty last key only for the eager parser (`keysFramePlain`); FORMAT `.` makes the lazy
  `Fields::samples` empty while the eager parser keeps `sample_count` empty samples;
* sample columns (`record/samples.rs::iter` vs `record_buf/samples.rs::parse_samples`): the eager parser
  reads exactly `sample_count` columns and ignores what follows, the lazy iterator yields every
  column (`colsPlain … 0 s = (s = [])`).
-/
namespace Noodles.Vcf
open Noodles.Text (splitOn join)

/-- an empty text under an array typing (`Number` other than 0 and 1) -/
def arrayEmpty (sh : Shape) (raw : Bytes) : Bool := raw = [] && sh = .many

/-- the raw `(key, value?)` pairs of the eager `parse_info`: `split(';')` then `splitn(2, '=')` -/
def infoRaws (f : Bytes) : List (Bytes × Option Bytes) := (splitOn 59 f).map splitEq

/-- the lazy `Info::iter` yields the same raw pairs as the eager split -/
def infoFramePlain (f : Bytes) : Bool := lazyInfoFields (f.length + 1) f = some (infoRaws f)

/-- the structural reading of `infoFramePlain`: every `;`-part has a non-empty key -/
def infoKeysNonempty (f : Bytes) : Bool := (infoRaws f).all fun kr => kr.1 ≠ []

def infoValPlain (h : Hdr) (kr : Bytes × Option Bytes) : Bool :=
  match kr.2 with
  | some v => !(arrayEmpty ((h.infoDef kr.1).getD (.count 1, .string)).1.shape v)
  | none => true

/-- INFO column on which lazy and eager agree whenever the eager parser accepts -/
def infoPlain (h : Hdr) (f : Bytes) : Bool :=
  f = DOT || (infoFramePlain f && (infoRaws f).all (infoValPlain h))

def zipPlain (h : Hdr) : List Bytes → List Bytes → Bool
  | k :: ks, v :: vs => !(arrayEmpty (h.formatDef k).1.shape v) && zipPlain h ks vs
  | _, _ => true

/-- exactly `n` sample columns (a final tab allowed), none with an empty array text -/
def colsPlain (h : Hdr) (keys : List Bytes) : Nat → Bytes → Bool
  | 0, s => s = []
  | n + 1, s => zipPlain h keys (splitOn 58 (nextField s).1) && colsPlain h keys n (nextField s).2

/-- the lazy `Keys::iter` yields the same keys as the eager `split(':')` (no trailing `:`) -/
def keysFramePlain (f : Bytes) : Bool := lazyKeys (f.length + 1) f = splitOn 58 f

/-- everything after the INFO column -/
def samplesPlain (h : Hdr) (rest : Bytes) : Bool :=
  h.nsamples = 0 ||
    ((nextField rest).1 ≠ DOT && keysFramePlain (nextField rest).1 &&
      colsPlain h (splitOn 58 (nextField rest).1) h.nsamples (nextField rest).2)

/-- what is left after `n` columns (`next_field` n times) -/
def nthRest : Nat → Bytes → Bytes
  | 0, s => s
  | n + 1, s => nthRest n (nextField s).2

/-- THE predicate: the INFO column and the sample columns are plain -/
def linePlain (h : Hdr) (line : Bytes) : Bool :=
  infoPlain h (nextField (nthRest 7 line)).1 && samplesPlain h (nthRest 8 line)

/-- the four outcomes of running both sides on one line -/
inductive Outcome | same | differ | eagerOnly | lazyOnly | neither
  deriving DecidableEq, Repr

def outcome (F : FloatFmt) (h : Hdr) (line : Bytes) : Outcome :=
  match parseRecord F h line, lazyParse F h line with
  | .ok a, some b => if a = b then .same else .differ
  | .ok _, none => .eagerOnly
  | .error _, some _ => .lazyOnly
  | .error _, none => .neither

end Noodles.Vcf
