import Noodles.Vcf.HeaderModel
/-!
# VCF header: what the text can carry (C09, whole-header theorem)

`io/writer/header.rs::write_header` validates NOTHING except the value of an unstructured record
(`value/string.rs::write_string`, from VCF 4.3). Every other string of a `vcf::Header` — ids, tags,
descriptions, META `Number` / `Type` / `Values`, record keys, sample names — is copied to the output
as it is (`write_value`: unquoted; `write_string`: quoted, `\` and `"` escaped); contig `md5` /
`URL` are written unquoted or quoted, whichever reads back (fix `vcf-contig-url-unquoted`). `wfHeader` is the explicit, decidable (it is a `Bool` function, evaluated by the driver on
every generated header) description of the headers whose text the parser of `header/parser.rs`
reads back as the same value. Its clauses are of three kinds:

* **representable in Rust** (`vcf::Header` cannot hold anything else): `u32` file format numbers,
  `usize` counts / lengths / IDX, INFO `Number` ∈ {n, A, R, G, .} (`info::Number`), FORMAT `Type` ≠
  Flag (`format::Type`), the five typed maps and every collection are `IndexMap`s — ids / tags / keys
  are pairwise distinct and keep their insertion order —, an "other" tag is not a standard tag of
  its map kind, an "other" record key is not one of the six standard keys (`key::Other::from_str`),
  `Map<Other>::id_tag` is `ID` unless it came from a pre-4.3 PEDIGREE line;
* **what the writer refuses**: from 4.3 an empty unstructured value or one that starts with `<`;
* **what the text cannot carry** (the writer emits it, the reader returns something else or fails):
  LF anywhere; `,` `>` or a leading `"` in a value that is written unquoted; `=` in a tag or key; a
  tag that starts with `>`; TAB in a sample name; CR at the end of a line; an INFO / FORMAT record
  that contradicts the reserved definition of its id (`definition(file_format, id)`); an empty
  collection (no line is written for it); an unstructured value under the keys `META` / `PEDIGREE`
  or (before 4.3) one that looks like a map (`<…ID=…`); bracketed META `Values` before 4.3.

`parseStr` transcribes the second entry point, `header::Parser::parse(&str)` (= `Header::from_str`),
whose line framing is `str::lines` instead of `io/reader/header.rs`.
-/
namespace Noodles.Vcf.Header
open Noodles.Text (splitOn join parseNat printNat)
open Noodles.Vcf

/-! ## byte-level conditions -/

/-- a value that `write_value` emits unquoted is read back by `parse_raw_string`: no `,` `>` (the
raw string ends there), no LF (line framing), not starting with `"` (it would be read as a quoted
string) -/
def rawOk (v : Bytes) : Bool :=
  !v.contains 44 && !v.contains 62 && !v.contains 10 && v.head? != some 34

/-- a value that `write_string` quotes: every byte survives except LF (line framing) -/
def strOk (v : Bytes) : Bool := !v.contains 10

/-- a map field tag (`field::parse_key` reads up to `=`; `split_field` stops at a leading `>`) -/
def tagOk (k : Bytes) : Bool := !k.contains 61 && !k.contains 10 && k.head? != some 62

/-- the other fields of a map whose standard tags are `std`: written `,tag="value"` in order -/
def othersOk (std : List Bytes) (fs : Fields) : Bool :=
  fs.all (fun kv => tagOk kv.1 && !std.contains kv.1 && strOk kv.2) && !hasDupKeys fs

def optLe (o : Option Nat) (m : Nat) : Bool :=
  match o with
  | none => true
  | some n => decide (n ≤ m)

def optAll (p : Bytes → Bool) : Option Bytes → Bool
  | none => true
  | some v => p v

def STD_INFO : List Bytes := [ID, NUMBER, TYPE, DESCRIPTION, IDX]
def STD_FILTER : List Bytes := [ID, DESCRIPTION, IDX]
def STD_ALT : List Bytes := [ID, DESCRIPTION]
def STD_CONTIG : List Bytes := [ID, LENGTH, MD5, URL, IDX]
def STD_KEYS : List Bytes := [K_FILEFORMAT, K_INFO, K_FILTER, K_FORMAT, K_ALT, K_CONTIG]

/-! ## the five typed maps -/

/-- what INFO and FORMAT records share -/
def typedOk (l : InfoL) : Bool :=
  rawOk l.id && strOk l.desc && optLe l.idx USIZE_MAX &&
  (match l.num with | .count n => decide (n ≤ USIZE_MAX) | _ => true) &&
  othersOk STD_INFO l.others

/-- `info::Number` has no `LA LR LG P M` -/
def infoNumOk : Num → Bool
  | .count _ | .a | .r | .g | .unknown => true
  | _ => false

def wfInfo (defs : Defs) (l : InfoL) : Bool := typedOk l && infoNumOk l.num && defOk defs l

/-- `format::Type` has no `Flag` -/
def wfFormat (defs : Defs) (l : InfoL) : Bool := typedOk l && l.ty != .flag && defOk defs l

def wfFilter (l : FilterL) : Bool :=
  rawOk l.id && strOk l.desc && optLe l.idx USIZE_MAX && othersOk STD_FILTER l.others

def wfAlt (l : AltL) : Bool := rawOk l.id && strOk l.desc && othersOk STD_ALT l.others

/-- `length` and `IDX` are numbers; `md5` and `URL` are written unquoted when that reads back and
quoted otherwise (`write_raw_or_string_field`, fix `vcf-contig-url-unquoted`): any bytes but LF -/
def wfContig (l : ContigL) : Bool :=
  rawOk l.id && optLe l.length USIZE_MAX && optAll strOk l.md5 && optAll strOk l.url &&
  optLe l.idx USIZE_MAX && othersOk STD_CONTIG l.others

/-! ## other records -/

/-- `##key=`: `parse_key` reads up to the first `=`; the six standard keys are not `key::Other`s -/
def keyOk (k : Bytes) : Bool := !k.contains 61 && !k.contains 10 && !STD_KEYS.contains k

/-- an unstructured value: accepted by `write_string`, read back as a string (not a map), and the
line reader does not eat its last byte -/
def unstrOk (maj min : Nat) (v : Bytes) : Bool :=
  !v.contains 10 && v.getLast? != some 13 && !isMap maj min v && (before maj min 4 3 || v != [])

/-- `[` … `]` with the first `]` at the very end: what `parse_values` cuts out (from 4.3) -/
def bracketOk (v : Bytes) : Bool :=
  v.head? == some 91 && v.getLast? == some 93 && !v.dropLast.contains 93 && !v.contains 10

/-- META: `Number`, `Type`, `Values` are written unquoted, everything else quoted -/
def metaFieldOk (maj min : Nat) (kv : Bytes × Bytes) : Bool :=
  tagOk kv.1 && kv.1 != ID &&
  (if kv.1 = NUMBER || kv.1 = TYPE || kv.1 = VALUES then
     (if !before maj min 4 3 && kv.1 = VALUES && kv.2.head? == some 91 then bracketOk kv.2
      else rawOk kv.2)
   else strOk kv.2)

/-- the tags that carry the id of a PEDIGREE map -/
def pedIdTags (maj min : Nat) : List Bytes := if before maj min 4 3 then [ID, CHILD, DERIVED] else [ID]

/-- a structured other record under `key` -/
def wfOtherMap (maj min : Nat) (key : Bytes) (m : OtherL) : Bool :=
  rawOk m.id && !hasDupKeys m.others &&
  (if key = META then
     m.idTag = ID && m.others.all (metaFieldOk maj min)
   else if key = PEDIGREE then
     (pedIdTags maj min).contains m.idTag &&
       m.others.all (fun kv => tagOk kv.1 && !(pedIdTags maj min).contains kv.1 && strOk kv.2)
   else
     m.idTag = ID && m.others.all (fun kv => tagOk kv.1 && kv.1 != ID && strOk kv.2))

def wfColl (maj min : Nat) (kc : Bytes × Coll) : Bool :=
  keyOk kc.1 &&
  (match kc.2 with
   | .unstructured vs => vs != [] && kc.1 != META && kc.1 != PEDIGREE && vs.all (unstrOk maj min)
   | .structured ms => ms != [] && !hasDup (ms.map (·.id)) && ms.all (wfOtherMap maj min kc.1))

/-! ## the column line -/

/-- sample names: no TAB (the column separator), no LF, pairwise distinct (`IndexSet`), and the
last one does not end in CR -/
def wfSamples (ss : List Bytes) : Bool :=
  ss.all (fun s => !s.contains 9 && !s.contains 10) && !hasDup ss &&
  (match ss.getLast? with | some s => s.getLast? != some 13 | none => true)

/-! ## the whole header -/

def wfHeader (D : DefTables) (h : Header) : Bool :=
  decide (h.major ≤ U32_MAX) && decide (h.minor ≤ U32_MAX) &&
  h.infos.all (wfInfo (D.info h.major h.minor)) && !hasDup (h.infos.map (·.id)) &&
  h.filters.all wfFilter && !hasDup (h.filters.map (·.id)) &&
  h.formats.all (wfFormat (D.format h.major h.minor)) && !hasDup (h.formats.map (·.id)) &&
  h.alts.all wfAlt && !hasDup (h.alts.map (·.id)) &&
  h.contigs.all wfContig && !hasDup (h.contigs.map (·.id)) &&
  h.others.all (wfColl h.major h.minor) && !hasDup (h.others.map (·.1)) &&
  wfSamples h.samples

/-! ## `header::Parser::parse(&str)` / `Header::from_str` -/

/-- `str::lines`: split at LF, drop the empty piece after a final LF, and drop one CR in front of
each LF (a CR at the very end of a text without a final LF stays) -/
def strLines (text : Bytes) : List Bytes :=
  let ps := splitOn 10 text
  let init := ps.dropLast.map stripCr
  match ps.getLast? with
  | some [] => init
  | some l => init ++ [l]
  | none => init

/-- `Parser::parse`: every line goes through `parse_partial` (no stop at the first line without a
`#`), then `finish` -/
def parseStr (D : DefTables) (text : Bytes) : Except HErr Header :=
  match parseLines D ⟨.empty, emptyHeader⟩ (strLines text) with
  | .error e => .error e
  | .ok p => match p.st with
    | .empty => .error .empty
    | .ready => .error .missingHeader
    | .done => .ok p.h

end Noodles.Vcf.Header
