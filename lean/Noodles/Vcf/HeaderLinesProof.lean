import Noodles.Vcf.HeaderWF
import Noodles.Vcf.HeaderProof
/-! Helper lemmas (1/2) for the whole-header theorems of C09 (`Props/C09Header.lean`): from the `Bool`
conditions of `HeaderWF.lean` to the predicates of `HeaderProof.lean`, the FILTER / ALT / contig /
other / META / PEDIGREE / unstructured lines, the column line, line framing, the parser's state
machine. -/
set_option linter.unusedSimpArgs false
namespace Noodles.Vcf.Header
open Noodles.Text (splitOn join parseNat printNat parseNatAux)
open Noodles.Vcf

/-! ### from the Bool conditions to the predicates -/

theorem rawOk_spec {v : Bytes} (h : rawOk v = true) : RawVal v ∧ (10 : UInt8) ∉ v := by
  simp [rawOk] at h
  exact ⟨⟨h.1.1.1, h.1.1.2, h.2⟩, h.1.2⟩

theorem strOk_spec {v : Bytes} (h : strOk v = true) : (10 : UInt8) ∉ v := by
  simpa [strOk] using h

theorem tagOk_spec {k : Bytes} (h : tagOk k = true) : KeyOk k ∧ (10 : UInt8) ∉ k := by
  simp [tagOk] at h
  exact ⟨⟨h.1.1, h.2⟩, h.1.2⟩

theorem othersOk_spec {std : List Bytes} {fs : Fields} (h : othersOk std fs = true) :
    (∀ kv ∈ fs, KeyOk kv.1 ∧ (10 : UInt8) ∉ kv.1 ∧ kv.1 ∉ std ∧ (10 : UInt8) ∉ kv.2) ∧
      hasDupKeys fs = false := by
  simp only [othersOk, Bool.and_eq_true, List.all_eq_true, Bool.not_eq_true'] at h
  refine ⟨fun kv hkv => ?_, h.2⟩
  obtain ⟨⟨h1, h2⟩, h3⟩ := h.1 kv hkv
  have := tagOk_spec h1
  refine ⟨this.1, this.2, ?_, strOk_spec h3⟩
  intro hm
  rw [List.contains_iff_mem.mpr hm] at h2
  exact absurd h2 (by simp)

theorem optLe_spec {o : Option Nat} {m : Nat} (h : optLe o m = true) : ∀ n, o = some n → n ≤ m := by
  intro n hn; subst hn; simpa [optLe] using h

/-! ### field lists: standard fields first, other fields after -/

theorem hasDupKeys_append (a b : Fields) :
    hasDupKeys (a ++ b) = false ↔
      hasDupKeys a = false ∧ hasDupKeys b = false ∧ ∀ x ∈ a, ∀ y ∈ b, y.1 ≠ x.1 := by
  induction a with
  | nil => simp [hasDupKeys]
  | cons x r ih =>
    obtain ⟨k, v⟩ := x
    rw [List.cons_append, hasDupKeys_cons, hasDupKeys_cons, ih]
    constructor
    · rintro ⟨h1, h2, h3, h4⟩
      refine ⟨⟨fun kv hkv => h1 kv (List.mem_append_left _ hkv), h2⟩, h3, ?_⟩
      intro x hx y hy
      rcases List.mem_cons.mp hx with rfl | hx
      · exact h1 y (List.mem_append_right _ hy)
      · exact h4 x hx y hy
    · rintro ⟨⟨h1, h2⟩, h3, h4⟩
      refine ⟨?_, h2, h3, fun x hx y hy => h4 x (List.mem_cons_of_mem _ hx) y hy⟩
      intro kv hkv
      rcases List.mem_append.mp hkv with hkv | hkv
      · exact h1 kv hkv
      · exact h4 (k, v) (by simp) kv hkv

theorem getField_append (k : Bytes) (a b : Fields) :
    getField k (a ++ b) = match getField k a with | some v => some v | none => getField k b := by
  induction a with
  | nil => simp [getField]
  | cons x r ih =>
    obtain ⟨k', v⟩ := x
    by_cases hk : k' = k
    · simp [getField, hk]
    · simp [getField, hk, ih]

theorem otherFields_append (std : List Bytes) (a b : Fields) :
    otherFields std (a ++ b) = otherFields std a ++ otherFields std b := by
  simp [otherFields]

theorem otherFields_none (std : List Bytes) (r : Fields) (h : ∀ kv ∈ r, kv.1 ∈ std) :
    otherFields std r = [] := by
  unfold otherFields
  rw [List.filter_eq_nil_iff]
  intro kv hkv
  simpa using h kv hkv

/-- the field list of a map read from the writer's text: the id, the standard fields `S` that are
present, the other fields `O` -/
theorem std_fields (std : List Bytes) (id : Bytes) (S O : Fields) (hID : ID ∈ std)
    (hS : ∀ kv ∈ S, kv.1 ∈ std ∧ kv.1 ≠ ID) (hSd : hasDupKeys S = false)
    (hO : ∀ kv ∈ O, kv.1 ∉ std) (hOd : hasDupKeys O = false) :
    hasDupKeys ((ID, id) :: (S ++ O)) = false ∧
    getField ID ((ID, id) :: (S ++ O)) = some id ∧
    (∀ k ∈ std, k ≠ ID → getField k ((ID, id) :: (S ++ O)) = getField k S) ∧
    otherFields std ((ID, id) :: (S ++ O)) = O := by
  refine ⟨?_, getField_hit _ _ _, ?_, ?_⟩
  · rw [hasDupKeys_cons, hasDupKeys_append]
    refine ⟨?_, hSd, hOd, ?_⟩
    · intro kv hkv
      rcases List.mem_append.mp hkv with hkv | hkv
      · exact (hS kv hkv).2
      · intro e; exact hO kv hkv (e ▸ hID)
    · intro x hx y hy e
      exact hO y hy (e ▸ (hS x hx).1)
  · intro k hk hne
    rw [getField_skip _ _ _ _ (Ne.symm hne), getField_append]
    cases hg : getField k S with
    | some v => rfl
    | none => exact getField_none _ _ (fun kv hkv e => hO kv hkv (e ▸ hk))
  · rw [otherFields_skip _ _ _ _ hID, otherFields_append, otherFields_none _ _ (fun kv hkv => (hS kv hkv).1),
      otherFields_all _ _ hO]
    rfl

/-! ### structured lines: shape of the text -/

/-- `##key=<tag=id…>` without the line feed -/
def mapLineBody (key idTag id body : Bytes) : Bytes :=
  35 :: 35 :: (key ++ 61 :: 60 :: (idTag ++ 61 :: id ++ body ++ [62]))

theorem mapLine_eq (key idTag id body : Bytes) :
    mapLine key idTag id body = mapLineBody key idTag id body ++ [10] := by
  simp [mapLine, mapLineBody]

/-- the key of a `##key=value` line is found again -/
theorem parseRecordLine_key (D : DefTables) (maj min : Nat) (key v : Bytes) (hk : (61 : UInt8) ∉ key) :
    parseRecordLine D maj min (35 :: 35 :: (key ++ 61 :: v)) =
      (if key = K_FILEFORMAT then (parseFileFormat v).map fun p => .fileFormat p.1 p.2
      else if key = K_INFO then
        match parseTypedMap parseInfoNum parseInfoTy v with
        | some l => if defOk (D.info maj min) l then some (.info l) else none
        | none => none
      else if key = K_FILTER then (parseFilterMap v).map .filter
      else if key = K_FORMAT then
        match parseTypedMap parseFormatNum parseFormatTy v with
        | some l => if defOk (D.format maj min) l then some (.format l) else none
        | none => none
      else if key = K_ALT then (parseAltMap v).map .alt
      else if key = K_CONTIG then (parseContigMap v).map .contig
      else if key = META then (parseLoopMap (!before maj min 4 3) [ID] v).map (.otherMap key)
      else if key = PEDIGREE then
        (parseLoopMap false (if before maj min 4 3 then [ID, CHILD, DERIVED] else [ID]) v).map (.otherMap key)
      else if isMap maj min v then (parseOtherMap v).map (.otherMap key)
      else some (.otherStr key v)) := by
  unfold parseRecordLine
  simp only [parseFieldKey_stop key v hk]
  rfl

/-- an optional field -/
def optEntry (k : Bytes) : Option Bytes → Fields
  | none => []
  | some v => [(k, v)]

theorem idxField_vals (i : Option Nat) : vals (idxField i) = optEntry IDX (i.map printNat) := by
  cases i <;> simp [idxField, vals, FV.val, optEntry]

theorem idxField_ok (i : Option Nat) : ∀ kf ∈ idxField i, KeyOk kf.1 ∧ kf.2.Ok := by
  intro kf hkf
  cases i with
  | none => simp [idxField] at hkf
  | some n =>
    simp [idxField] at hkf
    subst hkf
    exact ⟨keyOk_IDX, printNat_rawVal n⟩

theorem strFields_ok (fs : Fields) (h : ∀ kv ∈ fs, KeyOk kv.1) : ∀ kf ∈ strFields fs, KeyOk kf.1 ∧ kf.2.Ok := by
  intro kf hkf
  obtain ⟨kv, hkv, rfl⟩ := List.mem_map.mp hkf
  exact ⟨h kv hkv, trivial⟩

/-! ### FILTER -/

def filterFields (l : FilterL) : List (Bytes × FV) :=
  [(DESCRIPTION, .str l.desc)] ++ idxField l.idx ++ strFields l.others

def filterLine (l : FilterL) : Bytes := mapLineBody K_FILTER ID l.id (fieldsText (filterFields l))

theorem writeFilterL_eq (l : FilterL) : writeFilterL l = filterLine l ++ [10] := by
  rw [filterLine, ← mapLine_eq]
  simp [writeFilterL, filterFields, fieldsText_append, fieldsText, writeOthers_eq, writeIdx_eq, strField,
    FV.text]

theorem ne_ID_DESCRIPTION : DESCRIPTION ≠ ID := by unfold ID DESCRIPTION; decide
theorem ne_ID_IDX : IDX ≠ ID := by unfold ID IDX; decide
theorem ne_DESCRIPTION_IDX : DESCRIPTION ≠ IDX := by unfold IDX DESCRIPTION; decide

theorem parseFilterMap_line (l : FilterL) (h : wfFilter l = true) (rest : Bytes) :
    parseFilterMap (60 :: (ID ++ 61 :: l.id ++ fieldsText (filterFields l) ++ 62 :: rest)) = some l := by
  simp only [wfFilter, Bool.and_eq_true] at h
  obtain ⟨⟨⟨hid, _hdesc⟩, hidx⟩, hoth⟩ := h
  obtain ⟨ho, hod⟩ := othersOk_spec hoth
  have hfields := parseMapFields_text ID (.raw l.id) (filterFields l) rest keyOk_ID (rawOk_spec hid).1 (by
    intro kf hkf
    simp only [filterFields, List.mem_append, List.mem_cons, List.mem_nil_iff, or_false] at hkf
    rcases hkf with (rfl | hkf) | hkf
    · exact ⟨keyOk_DESCRIPTION, trivial⟩
    · exact idxField_ok _ kf hkf
    · exact strFields_ok _ (fun kv hkv => (ho kv hkv).1) kf hkf)
  simp only [FV.text, FV.val] at hfields
  unfold parseFilterMap
  rw [hfields]
  obtain ⟨id, desc, idx, others⟩ := l
  simp only at ho hod hidx ⊢
  have hv : vals (filterFields ⟨id, desc, idx, others⟩) =
      ((DESCRIPTION, desc) :: optEntry IDX (idx.map printNat)) ++ others := by
    simp only [filterFields, vals_append, vals_strFields, idxField_vals]
    simp [vals, FV.val]
  rw [hv]
  obtain ⟨hd, gI, gS, oF⟩ := std_fields STD_FILTER id
    ((DESCRIPTION, desc) :: optEntry IDX (idx.map printNat)) others
    (by simp [STD_FILTER])
    (by
      intro kv hkv
      cases idx with
      | none => simp [optEntry] at hkv; subst hkv; exact ⟨by simp [STD_FILTER], ne_ID_DESCRIPTION⟩
      | some n =>
        simp [optEntry] at hkv
        rcases hkv with rfl | rfl
        · exact ⟨by simp [STD_FILTER], ne_ID_DESCRIPTION⟩
        · exact ⟨by simp [STD_FILTER], ne_ID_IDX⟩)
    (by
      cases idx with
      | none => simp [hasDupKeys, optEntry]
      | some n => simp [hasDupKeys, optEntry, ne_DESCRIPTION_IDX.symm])
    (fun kv hkv => (ho kv hkv).2.2.1) hod
  have gD := gS DESCRIPTION (by simp [STD_FILTER]) ne_ID_DESCRIPTION
  have gX := gS IDX (by simp [STD_FILTER]) ne_ID_IDX
  simp only [STD_FILTER] at oF
  simp only [hd, Bool.false_eq_true, if_false, optField, gI, gD, gX, oF]
  cases idx with
  | none => simp [getField, optEntry, ne_DESCRIPTION_IDX]
  | some n =>
    have hn := optLe_spec hidx n rfl
    simp [getField, optEntry, ne_DESCRIPTION_IDX, parseUsize_idx n hn]

theorem K_FILTER_no_eq : (61 : UInt8) ∉ K_FILTER := by unfold K_FILTER; decide

theorem filter_line (D : DefTables) (maj min : Nat) (l : FilterL) (h : wfFilter l = true) :
    parseRecordLine D maj min (filterLine l) = some (.filter l) := by
  have hp := parseFilterMap_line l h []
  unfold filterLine mapLineBody
  rw [parseRecordLine_key D maj min K_FILTER _ K_FILTER_no_eq]
  have n1 : K_FILTER ≠ K_FILEFORMAT := by unfold K_FILTER K_FILEFORMAT; decide
  have n2 : K_FILTER ≠ K_INFO := by unfold K_FILTER K_INFO; decide
  simp only [n1, n2, if_false, if_true, hp, Option.map_some]

/-! ### ALT -/

def altFields (l : AltL) : List (Bytes × FV) := [(DESCRIPTION, .str l.desc)] ++ strFields l.others

def altLine (l : AltL) : Bytes := mapLineBody K_ALT ID l.id (fieldsText (altFields l))

theorem writeAltL_eq (l : AltL) : writeAltL l = altLine l ++ [10] := by
  rw [altLine, ← mapLine_eq]
  simp [writeAltL, altFields, fieldsText, writeOthers_eq, strField, FV.text]

theorem parseAltMap_line (l : AltL) (h : wfAlt l = true) (rest : Bytes) :
    parseAltMap (60 :: (ID ++ 61 :: l.id ++ fieldsText (altFields l) ++ 62 :: rest)) = some l := by
  simp only [wfAlt, Bool.and_eq_true] at h
  obtain ⟨⟨hid, _hdesc⟩, hoth⟩ := h
  obtain ⟨ho, hod⟩ := othersOk_spec hoth
  have hfields := parseMapFields_text ID (.raw l.id) (altFields l) rest keyOk_ID (rawOk_spec hid).1 (by
    intro kf hkf
    simp only [altFields, List.mem_append, List.mem_cons, List.mem_nil_iff, or_false] at hkf
    rcases hkf with rfl | hkf
    · exact ⟨keyOk_DESCRIPTION, trivial⟩
    · exact strFields_ok _ (fun kv hkv => (ho kv hkv).1) kf hkf)
  simp only [FV.text, FV.val] at hfields
  unfold parseAltMap
  rw [hfields]
  obtain ⟨id, desc, others⟩ := l
  simp only at ho hod ⊢
  have hv : vals (altFields ⟨id, desc, others⟩) = [(DESCRIPTION, desc)] ++ others := by
    simp only [altFields, vals_append, vals_strFields]
    simp [vals, FV.val]
  rw [hv]
  obtain ⟨hd, gI, gS, oF⟩ := std_fields STD_ALT id [(DESCRIPTION, desc)] others (by simp [STD_ALT])
    (by intro kv hkv; simp at hkv; subst hkv; exact ⟨by simp [STD_ALT], ne_ID_DESCRIPTION⟩)
    (by simp [hasDupKeys]) (fun kv hkv => (ho kv hkv).2.2.1) hod
  have gD := gS DESCRIPTION (by simp [STD_ALT]) ne_ID_DESCRIPTION
  simp only [STD_ALT] at oF
  simp only [hd, Bool.false_eq_true, if_false, gI, gD, oF]
  simp [getField]

theorem alt_line (D : DefTables) (maj min : Nat) (l : AltL) (h : wfAlt l = true) :
    parseRecordLine D maj min (altLine l) = some (.alt l) := by
  have hp := parseAltMap_line l h []
  unfold altLine mapLineBody
  rw [parseRecordLine_key D maj min K_ALT _ (by unfold K_ALT; decide)]
  have n1 : K_ALT ≠ K_FILEFORMAT := by unfold K_ALT K_FILEFORMAT; decide
  have n2 : K_ALT ≠ K_INFO := by unfold K_ALT K_INFO; decide
  have n3 : K_ALT ≠ K_FILTER := by unfold K_ALT K_FILTER; decide
  have n4 : K_ALT ≠ K_FORMAT := by unfold K_ALT K_FORMAT; decide
  simp only [n1, n2, n3, n4, if_false, if_true, hp, Option.map_some]

/-! ### contig -/

def optRawF (k : Bytes) : Option Bytes → List (Bytes × FV)
  | none => []
  | some v => [(k, .raw v)]

theorem optRawF_vals (k : Bytes) (o : Option Bytes) : vals (optRawF k o) = optEntry k o := by
  cases o <;> simp [optRawF, vals, FV.val, optEntry]

theorem optRawF_text (k : Bytes) (o : Option Bytes) : fieldsText (optRawF k o) = writeOptRaw k o := by
  cases o <;> simp [optRawF, fieldsText, writeOptRaw, rawField, FV.text]

theorem idxField_eq (i : Option Nat) : idxField i = optRawF IDX (i.map printNat) := by
  cases i <;> rfl

theorem optRawF_ok (k : Bytes) (o : Option Bytes) (hk : KeyOk k) (ho : ∀ v, o = some v → RawVal v) :
    ∀ kf ∈ optRawF k o, KeyOk kf.1 ∧ kf.2.Ok := by
  intro kf hkf
  cases o with
  | none => simp [optRawF] at hkf
  | some v =>
    simp [optRawF] at hkf
    subst hkf
    exact ⟨hk, ho v rfl⟩

/-- the form `write_raw_or_string_field` chooses -/
def autoFV (v : Bytes) : FV := if needsQuote v then .str v else .raw v

theorem autoFV_val (v : Bytes) : (autoFV v).val = v := by
  unfold autoFV; split <;> rfl

theorem autoFV_ok (v : Bytes) : (autoFV v).Ok := by
  unfold autoFV
  split
  · trivial
  · rename_i h
    simp only [needsQuote, Bool.or_eq_true, beq_iff_eq, List.contains_eq_mem, decide_eq_true_eq, not_or] at h
    exact ⟨h.1.2, h.2, h.1.1⟩

def optAutoF (k : Bytes) : Option Bytes → List (Bytes × FV)
  | none => []
  | some v => [(k, autoFV v)]

theorem optAutoF_vals (k : Bytes) (o : Option Bytes) : vals (optAutoF k o) = optEntry k o := by
  cases o <;> simp [optAutoF, vals, autoFV_val, optEntry]

theorem optAutoF_text (k : Bytes) (o : Option Bytes) : fieldsText (optAutoF k o) = writeOptAuto k o := by
  cases o with
  | none => rfl
  | some v =>
    simp only [optAutoF, fieldsText, writeOptAuto, autoField, autoFV]
    split <;> simp [rawField, strField, FV.text]

theorem optAutoF_ok (k : Bytes) (o : Option Bytes) (hk : KeyOk k) :
    ∀ kf ∈ optAutoF k o, KeyOk kf.1 ∧ kf.2.Ok := by
  intro kf hkf
  cases o with
  | none => simp [optAutoF] at hkf
  | some v =>
    simp [optAutoF] at hkf
    subst hkf
    exact ⟨hk, autoFV_ok v⟩

def contigFields (l : ContigL) : List (Bytes × FV) :=
  optRawF LENGTH (l.length.map printNat) ++ optAutoF MD5 l.md5 ++ optAutoF URL l.url ++ idxField l.idx ++
    strFields l.others

def contigLine (l : ContigL) : Bytes := mapLineBody K_CONTIG ID l.id (fieldsText (contigFields l))

theorem writeContigL_eq (l : ContigL) : writeContigL l = contigLine l ++ [10] := by
  rw [contigLine, ← mapLine_eq]
  simp [writeContigL, contigFields, fieldsText_append, optRawF_text, optAutoF_text, writeOthers_eq, writeIdx_eq]

theorem getField_optEntry_hit (k : Bytes) (o : Option Bytes) (r : Fields) :
    getField k (optEntry k o ++ r) = match o with | some v => some v | none => getField k r := by
  cases o <;> simp [optEntry, getField]

theorem getField_optEntry_skip (k k' : Bytes) (o : Option Bytes) (r : Fields) (h : k' ≠ k) :
    getField k (optEntry k' o ++ r) = getField k r := by
  cases o <;> simp [optEntry, getField, h]

theorem getField_optEntry_hit' (k : Bytes) (o : Option Bytes) : getField k (optEntry k o) = o := by
  cases o <;> simp [optEntry, getField]

theorem keyOk_LENGTH : KeyOk LENGTH := by unfold KeyOk LENGTH; decide
theorem keyOk_MD5 : KeyOk MD5 := by unfold KeyOk MD5; decide
theorem keyOk_URL : KeyOk URL := by unfold KeyOk URL; decide

theorem contig_keys_ne : LENGTH ≠ ID ∧ MD5 ≠ ID ∧ URL ≠ ID ∧ IDX ≠ ID ∧ LENGTH ≠ MD5 ∧ LENGTH ≠ URL ∧
    LENGTH ≠ IDX ∧ MD5 ≠ URL ∧ MD5 ≠ IDX ∧ URL ≠ IDX := by
  unfold ID LENGTH MD5 URL IDX; decide

theorem optAll_spec {p : Bytes → Bool} {o : Option Bytes} (h : optAll p o = true) :
    ∀ v, o = some v → p v = true := by
  intro v hv; subst hv; simpa [optAll] using h

theorem parseContigMap_line (l : ContigL) (h : wfContig l = true) (rest : Bytes) :
    parseContigMap (60 :: (ID ++ 61 :: l.id ++ fieldsText (contigFields l) ++ 62 :: rest)) = some l := by
  simp only [wfContig, Bool.and_eq_true] at h
  obtain ⟨⟨⟨⟨⟨hid, hlen⟩, hmd5⟩, hurl⟩, hidx⟩, hoth⟩ := h
  obtain ⟨ho, hod⟩ := othersOk_spec hoth
  obtain ⟨c1, c2, c3, c4, c5, c6, c7, c8, c9, c10⟩ := contig_keys_ne
  have hfields := parseMapFields_text ID (.raw l.id) (contigFields l) rest keyOk_ID (rawOk_spec hid).1 (by
    intro kf hkf
    simp only [contigFields, List.mem_append] at hkf
    rcases hkf with (((hkf | hkf) | hkf) | hkf) | hkf
    · refine optRawF_ok _ _ keyOk_LENGTH ?_ kf hkf
      intro v hv
      cases hl : l.length with
      | none => simp [hl] at hv
      | some n => simp [hl] at hv; subst hv; exact printNat_rawVal n
    · exact optAutoF_ok _ _ keyOk_MD5 kf hkf
    · exact optAutoF_ok _ _ keyOk_URL kf hkf
    · exact idxField_ok _ kf hkf
    · exact strFields_ok _ (fun kv hkv => (ho kv hkv).1) kf hkf)
  simp only [FV.text, FV.val] at hfields
  unfold parseContigMap
  rw [hfields]
  obtain ⟨id, len, md5, url, idx, others⟩ := l
  simp only at ho hod hidx hlen ⊢
  have hv : vals (contigFields ⟨id, len, md5, url, idx, others⟩) =
      (optEntry LENGTH (len.map printNat) ++ (optEntry MD5 md5 ++ (optEntry URL url ++
        optEntry IDX (idx.map printNat)))) ++ others := by
    simp only [contigFields, vals_append, vals_strFields, idxField_vals, optRawF_vals, optAutoF_vals,
      List.append_assoc]
  rw [hv]
  obtain ⟨hd, gI, gS, oF⟩ := std_fields STD_CONTIG id
    (optEntry LENGTH (len.map printNat) ++ (optEntry MD5 md5 ++ (optEntry URL url ++
        optEntry IDX (idx.map printNat)))) others
    (by simp [STD_CONTIG])
    (by
      intro kv hkv
      simp only [List.mem_append] at hkv
      rcases hkv with hkv | hkv | hkv | hkv
      · cases len <;> simp [optEntry] at hkv; subst hkv; exact ⟨by simp [STD_CONTIG], c1⟩
      · cases md5 <;> simp [optEntry] at hkv; subst hkv; exact ⟨by simp [STD_CONTIG], c2⟩
      · cases url <;> simp [optEntry] at hkv; subst hkv; exact ⟨by simp [STD_CONTIG], c3⟩
      · cases idx <;> simp [optEntry] at hkv; subst hkv; exact ⟨by simp [STD_CONTIG], c4⟩)
    (by
      cases len <;> cases md5 <;> cases url <;> cases idx <;>
        simp [hasDupKeys, optEntry, c5.symm, c6.symm, c7.symm, c8.symm, c9.symm, c10.symm])
    (fun kv hkv => (ho kv hkv).2.2.1) hod
  have gL := gS LENGTH (by simp [STD_CONTIG]) c1
  have gM := gS MD5 (by simp [STD_CONTIG]) c2
  have gU := gS URL (by simp [STD_CONTIG]) c3
  have gX := gS IDX (by simp [STD_CONTIG]) c4
  rw [getField_optEntry_hit] at gL
  rw [getField_optEntry_skip _ _ _ _ c5, getField_optEntry_hit] at gM
  rw [getField_optEntry_skip _ _ _ _ c6, getField_optEntry_skip _ _ _ _ c8, getField_optEntry_hit] at gU
  rw [getField_optEntry_skip _ _ _ _ c7, getField_optEntry_skip _ _ _ _ c9, getField_optEntry_skip _ _ _ _ c10,
    getField_optEntry_hit'] at gX
  simp only [STD_CONTIG] at oF
  simp only [hd, Bool.false_eq_true, if_false, optField, gI, gL, gM, gU, gX, oF]
  have pL : ∀ n, len = some n → parseUsize (printNat n) = some n :=
    fun n hn => parseUsize_idx n (optLe_spec hlen n hn)
  have pX : ∀ n, idx = some n → parseUsize (printNat n) = some n :=
    fun n hn => parseUsize_idx n (optLe_spec hidx n hn)
  cases len <;> cases md5 <;> cases url <;> cases idx <;>
    simp [optEntry, getField, c5, c6, c7, c8, c9, c10, c5.symm, c6.symm, c7.symm, c8.symm, c9.symm, c10.symm,
      pL, pX]

theorem contig_line (D : DefTables) (maj min : Nat) (l : ContigL) (h : wfContig l = true) :
    parseRecordLine D maj min (contigLine l) = some (.contig l) := by
  have hp := parseContigMap_line l h []
  unfold contigLine mapLineBody
  rw [parseRecordLine_key D maj min K_CONTIG _ (by unfold K_CONTIG; decide)]
  have n1 : K_CONTIG ≠ K_FILEFORMAT := by unfold K_CONTIG K_FILEFORMAT; decide
  have n2 : K_CONTIG ≠ K_INFO := by unfold K_CONTIG K_INFO; decide
  have n3 : K_CONTIG ≠ K_FILTER := by unfold K_CONTIG K_FILTER; decide
  have n4 : K_CONTIG ≠ K_FORMAT := by unfold K_CONTIG K_FORMAT; decide
  have n5 : K_CONTIG ≠ K_ALT := by unfold K_CONTIG K_ALT; decide
  simp only [n1, n2, n3, n4, n5, if_false, if_true, hp, Option.map_some]

/-! ### INFO / FORMAT (explicit lines; the map lemma is `parseTypedMap_line` of `HeaderProof.lean`) -/

def typedLine (key : Bytes) (l : InfoL) : Bytes := mapLineBody key ID l.id (fieldsText (typedFields l))

theorem writeInfoL_eq' (key : Bytes) (l : InfoL) : writeInfoL key l = typedLine key l ++ [10] := by
  rw [typedLine, ← mapLine_eq]
  simp [writeInfoL, typedFields, fieldsText_append, fieldsText, writeOthers_eq, writeIdx_eq, rawField,
    strField, FV.text]

theorem typedOk_spec {l : InfoL} (h : typedOk l = true) : InfoLOk STD_TYPED l := by
  simp only [typedOk, Bool.and_eq_true] at h
  obtain ⟨⟨⟨⟨hid, _⟩, hidx⟩, hcnt⟩, hoth⟩ := h
  obtain ⟨ho, hod⟩ := othersOk_spec hoth
  exact ⟨(rawOk_spec hid).1, optLe_spec hidx, fun n hn => by rw [hn] at hcnt; simpa using hcnt,
    fun kv hkv => ⟨(ho kv hkv).1, (ho kv hkv).2.2.1⟩, hod⟩

theorem infoNumOk_spec {n : Num} (h : infoNumOk n = true) : InfoNum n := by
  cases n <;> simp [infoNumOk] at h <;> trivial

theorem info_line' (D : DefTables) (maj min : Nat) (l : InfoL) (h : wfInfo (D.info maj min) l = true) :
    parseRecordLine D maj min (typedLine K_INFO l) = some (.info l) := by
  simp only [wfInfo, Bool.and_eq_true] at h
  obtain ⟨⟨h1, h2⟩, h3⟩ := h
  have hok := typedOk_spec h1
  have hp := parseTypedMap_line parseInfoNum parseInfoTy l hok
    (parseInfoNum_write l.num (infoNumOk_spec h2) hok.count) (parseInfoTy_write l.ty) []
  simp only [FV.text] at hp
  unfold typedLine mapLineBody
  rw [parseRecordLine_key D maj min K_INFO _ (by unfold K_INFO; decide)]
  have n1 : K_INFO ≠ K_FILEFORMAT := by unfold K_INFO K_FILEFORMAT; decide
  simp only [n1, if_false, if_true, hp, h3]

theorem format_line' (D : DefTables) (maj min : Nat) (l : InfoL) (h : wfFormat (D.format maj min) l = true) :
    parseRecordLine D maj min (typedLine K_FORMAT l) = some (.format l) := by
  simp only [wfFormat, Bool.and_eq_true] at h
  obtain ⟨⟨h1, h2⟩, h3⟩ := h
  have hok := typedOk_spec h1
  have hp := parseTypedMap_line parseFormatNum parseFormatTy l hok
    (parseFormatNum_write l.num hok.count) (parseFormatTy_write l.ty (by simpa using h2)) []
  simp only [FV.text] at hp
  unfold typedLine mapLineBody
  rw [parseRecordLine_key D maj min K_FORMAT _ (by unfold K_FORMAT; decide)]
  have n1 : K_FORMAT ≠ K_FILEFORMAT := by unfold K_FORMAT K_FILEFORMAT; decide
  have n2 : K_FORMAT ≠ K_INFO := by unfold K_FORMAT K_INFO; decide
  have n3 : K_FORMAT ≠ K_FILTER := by unfold K_FORMAT K_FILTER; decide
  simp only [n1, n2, n3, if_false, if_true, hp, h3]

/-! ### other structured records read by `parse_other` (any key but META / PEDIGREE) -/

def otherLine (key : Bytes) (m : OtherL) : Bytes :=
  mapLineBody key m.idTag m.id (fieldsText (strFields m.others))

theorem writeOtherL_eq (key : Bytes) (m : OtherL) (hk : key ≠ META) :
    writeOtherL key m = otherLine key m ++ [10] := by
  rw [otherLine, ← mapLine_eq]
  simp [writeOtherL, hk, writeOthers_eq]

theorem isMap_written (maj min : Nat) (a b c : Bytes) :
    isMap maj min (60 :: (ID ++ 61 :: a ++ b ++ c)) = true := by
  simp [isMap, containsSub, ID_EQ, ID, List.isPrefixOf]

theorem parseOtherMap_line (m : OtherL) (hid : rawOk m.id = true) (hdup : hasDupKeys m.others = false)
    (ho : ∀ kv ∈ m.others, tagOk kv.1 = true ∧ kv.1 ≠ ID) (htag : m.idTag = ID) (rest : Bytes) :
    parseOtherMap (60 :: (ID ++ 61 :: m.id ++ fieldsText (strFields m.others) ++ 62 :: rest)) = some m := by
  have hfields := parseMapFields_text ID (.raw m.id) (strFields m.others) rest keyOk_ID (rawOk_spec hid).1
    (strFields_ok _ (fun kv hkv => (tagOk_spec (ho kv hkv).1).1))
  simp only [FV.text, FV.val, vals_strFields] at hfields
  unfold parseOtherMap
  rw [hfields]
  obtain ⟨id, idTag, others⟩ := m
  simp only at ho hdup htag ⊢
  subst htag
  obtain ⟨hd, gI, _, oF⟩ := std_fields [ID] id [] others (by simp) (by simp) (by simp [hasDupKeys])
    (fun kv hkv => by simpa using (ho kv hkv).2) hdup
  simp only [List.nil_append] at hd gI oF
  simp only [hd, Bool.false_eq_true, if_false, gI, oF]

/-! ### META / PEDIGREE: the `loop` parsers -/

/-- the value part of one iteration of `loopFields` -/
def loopVal (bv : Bool) (k r1 : Bytes) : Option (Bytes × Bytes) :=
  if bv && k = VALUES then
    (match r1 with
     | 91 :: _ => (match parseBracket r1 with | some p => some p | none => parseFieldValue r1)
     | _ => parseFieldValue r1)
  else parseFieldValue r1

theorem loopFields_succ (bv : Bool) (fuel : Nat) (src : Bytes) :
    loopFields bv (fuel + 1) src =
      match parseFieldKey src with
      | none => none
      | some (k, r1) =>
        match loopVal bv k r1 with
        | none => none
        | some (v, r2) =>
          match consumeSep r2 with
          | none => none
          | some (true, r3) => (loopFields bv fuel r3).map fun p => ((k, v) :: p.1, p.2)
          | some (false, r3) => some ([(k, v)], r3) := by
  rw [loopFields]
  rfl

/-- a field as the loop parser sees it: tag, written text, value read -/
abbrev LEntry := Bytes × Bytes × Bytes

/-- the text `t` written for tag `k` is read back as `v`, whatever separator follows -/
def LV (bv : Bool) (e : LEntry) : Prop :=
  (61 : UInt8) ∉ e.1 ∧
  ∀ (c : UInt8) (rest : Bytes), (c = 44 ∨ c = 62) → loopVal bv e.1 (e.2.1 ++ c :: rest) = some (e.2.2, c :: rest)

def loopText : List LEntry → Bytes
  | [] => []
  | e :: r => 44 :: e.1 ++ 61 :: e.2.1 ++ loopText r

def loopVals (fs : List LEntry) : Fields := fs.map fun e => (e.1, e.2.2)

theorem loopFields_text (bv : Bool) (rest : Bytes) (fs : List LEntry) :
    ∀ (e0 : LEntry), LV bv e0 → (∀ e ∈ fs, LV bv e) → ∀ fuel, fs.length + 1 ≤ fuel →
      loopFields bv fuel (e0.1 ++ 61 :: e0.2.1 ++ loopText fs ++ 62 :: rest) =
        some ((e0.1, e0.2.2) :: loopVals fs, 62 :: rest) := by
  induction fs with
  | nil =>
    intro e0 h0 _ fuel hfuel
    obtain ⟨f1, rfl⟩ : ∃ f1, fuel = f1 + 1 := ⟨fuel - 1, by simp at hfuel; omega⟩
    rw [loopFields_succ]
    simp only [loopText, List.append_nil, List.append_assoc, List.cons_append]
    rw [parseFieldKey_stop _ _ h0.1]
    simp only [h0.2 62 rest (Or.inr rfl), consumeSep, loopVals, List.map_nil]
    simp
  | cons e1 r ih =>
    intro e0 h0 hall fuel hfuel
    obtain ⟨fu, rfl⟩ : ∃ fu, fuel = fu + 1 := ⟨fuel - 1, by simp at hfuel; omega⟩
    have h1 := hall e1 (by simp)
    have ihr := ih e1 h1 (fun x hx => hall x (List.mem_cons_of_mem _ hx)) fu (by simp at hfuel; omega)
    rw [loopFields_succ]
    simp only [loopText, List.append_assoc, List.cons_append] at ihr ⊢
    rw [parseFieldKey_stop _ _ h0.1]
    simp only [h0.2 44 _ (Or.inl rfl), consumeSep, if_true, ihr, loopVals, List.map_cons, Option.map_some]

theorem loopText_length (fs : List LEntry) : fs.length ≤ (loopText fs).length := by
  induction fs with
  | nil => simp
  | cons a t ih => simp [loopText]; omega

/-- a map written `<tag=id,…>` is read back by the loop parsers: the id slot and the other fields -/
theorem parseLoopMap_text (bv : Bool) (idTags : List Bytes) (idTag id : Bytes) (fs : List LEntry) (rest : Bytes)
    (hid : LV bv (idTag, id, id)) (htag : idTag ∈ idTags) (hall : ∀ e ∈ fs, LV bv e)
    (hnot : ∀ e ∈ fs, e.1 ∉ idTags) (hdup : hasDupKeys (loopVals fs) = false) :
    parseLoopMap bv idTags (60 :: (idTag ++ 61 :: id ++ loopText fs ++ 62 :: rest)) =
      some ⟨id, idTag, loopVals fs⟩ := by
  unfold parseLoopMap
  have hl := loopFields_text bv rest fs (idTag, id, id) hid hall
    ((idTag ++ 61 :: id ++ loopText fs ++ 62 :: rest).length + 1) (by
      have := loopText_length fs
      simp only [List.length_append, List.length_cons]
      omega)
  simp only at hl
  simp only [hl]
  have hids : ((idTag, id) :: loopVals fs).filter (fun kv => idTags.contains kv.1) = [(idTag, id)] := by
    rw [List.filter_cons]
    simp only [List.contains_iff_mem.mpr htag, if_true]
    congr 1
    rw [List.filter_eq_nil_iff]
    intro kv hkv
    obtain ⟨e, he, rfl⟩ := List.mem_map.mp hkv
    simpa using hnot e he
  have hrest : ((idTag, id) :: loopVals fs).filter (fun kv => !idTags.contains kv.1) = loopVals fs := by
    rw [List.filter_cons]
    simp only [List.contains_iff_mem.mpr htag, Bool.not_true, Bool.false_eq_true, if_false]
    rw [List.filter_eq_self]
    intro kv hkv
    obtain ⟨e, he, rfl⟩ := List.mem_map.mp hkv
    simpa using hnot e he
  simp only [hids, hrest, hdup, Bool.false_eq_true, if_false]

theorem LV_raw (bv : Bool) (k v : Bytes) (hk : (61 : UInt8) ∉ k) (hv : RawVal v)
    (hb : ¬(bv = true ∧ k = VALUES) ∨ v.head? ≠ some 91) : LV bv (k, v, v) := by
  refine ⟨hk, fun c rest hc => ?_⟩
  have hp := parseFieldValue_text (.raw v) hv c hc rest
  simp only [FV.text, FV.val] at hp
  unfold loopVal
  by_cases hcond : (bv && decide (k = VALUES)) = true
  · simp only [hcond, if_true]
    have hne : ¬(bv = true ∧ k = VALUES) → False := by
      intro hn; apply hn; simpa using hcond
    have hh : v.head? ≠ some 91 := by
      rcases hb with hb | hb
      · exact absurd hb (fun hn => hne hn)
      · exact hb
    split
    · rename_i x heq
      cases v with
      | nil =>
        simp only [List.nil_append, List.cons.injEq] at heq
        rcases hc with rfl | rfl <;> exact absurd heq.1 (by decide)
      | cons b r =>
        simp only [List.cons_append, List.cons.injEq] at heq
        exact absurd (by simp [heq.1]) hh
    · exact hp
  · simp only [hcond, if_false]
    exact hp

theorem LV_str (bv : Bool) (k v : Bytes) (hk : (61 : UInt8) ∉ k) (hb : ¬(bv = true ∧ k = VALUES)) :
    LV bv (k, quote v, v) := by
  refine ⟨hk, fun c rest hc => ?_⟩
  have hp := parseFieldValue_text (.str v) trivial c hc rest
  simp only [FV.text, FV.val] at hp
  unfold loopVal
  have hcond : (bv && decide (k = VALUES)) = false := by
    cases hbv : bv with
    | false => simp
    | true =>
      have : k ≠ VALUES := fun e => hb ⟨hbv, e⟩
      simp [this]
  simp only [hcond, Bool.false_eq_true, if_false]
  exact hp

theorem parseBracket_stop (pre rest : Bytes) (h : (93 : UInt8) ∉ pre) :
    parseBracket (pre ++ 93 :: rest) = some (pre ++ [93], rest) := by
  induction pre with
  | nil => simp [parseBracket]
  | cons b r ih =>
    have hb : b ≠ 93 := fun e => h (by simp [e])
    simp [parseBracket, hb, ih (fun e => h (List.mem_cons_of_mem _ e))]

theorem LV_bracket (v : Bytes) (hv : bracketOk v = true) : LV true (VALUES, v, v) := by
  refine ⟨by show (61 : UInt8) ∉ VALUES; unfold VALUES; decide, fun c rest _ => ?_⟩
  simp only [bracketOk, Bool.and_eq_true, Bool.not_eq_true', beq_iff_eq] at hv
  obtain ⟨⟨⟨h1, h2⟩, h3⟩, _⟩ := hv
  have hne : v ≠ [] := by intro e; subst e; simp at h1
  obtain ⟨ys, hys⟩ := List.getLast?_eq_some_iff.mp h2
  have hdl : v.dropLast = ys := by rw [hys, List.dropLast_concat]
  have hsplit : v = v.dropLast ++ [93] := by rw [hdl]; exact hys
  have h93 : (93 : UInt8) ∉ v.dropLast := by simpa using h3
  obtain ⟨w, hw⟩ : ∃ w, v = 91 :: w := by
    cases v with
    | nil => exact absurd rfl hne
    | cons b r => simp at h1; exact ⟨r, by rw [h1]⟩
  have hp := parseBracket_stop v.dropLast (c :: rest) h93
  have e1 : v ++ c :: rest = v.dropLast ++ 93 :: (c :: rest) := by
    conv => lhs; rw [hsplit]
    simp
  unfold loopVal
  simp only [Bool.true_and, decide_true, if_true]
  have e2 : v ++ c :: rest = 91 :: (w ++ c :: rest) := by rw [hw]; rfl
  rw [e2]
  simp only
  rw [← e2, e1, hp, ← hsplit]

/-! ### META -/

def isRawMeta (k : Bytes) : Bool := k = NUMBER || k = TYPE || k = VALUES

def metaEntries (fs : Fields) : List LEntry :=
  fs.map fun kv => (kv.1, if isRawMeta kv.1 then kv.2 else quote kv.2, kv.2)

theorem metaEntries_text (fs : Fields) : loopText (metaEntries fs) = writeMetaFields fs := by
  induction fs with
  | nil => rfl
  | cons a r ih =>
    obtain ⟨k, v⟩ := a
    simp only [metaEntries, List.map_cons, loopText, writeMetaFields] at ih ⊢
    rw [ih]
    unfold isRawMeta
    by_cases hr : (decide (k = NUMBER) || decide (k = TYPE) || decide (k = VALUES)) = true
    · simp [hr, rawField]
    · simp [hr, strField]

theorem metaEntries_vals (fs : Fields) : loopVals (metaEntries fs) = fs := by
  induction fs with
  | nil => rfl
  | cons a r ih => simp only [loopVals, metaEntries, List.map_cons] at ih ⊢; rw [ih]

def metaLine (m : OtherL) : Bytes := mapLineBody META m.idTag m.id (loopText (metaEntries m.others))

theorem writeOtherL_meta (m : OtherL) : writeOtherL META m = metaLine m ++ [10] := by
  rw [metaLine, ← mapLine_eq]
  simp [writeOtherL, metaEntries_text]

theorem ID_no_eq : (61 : UInt8) ∉ ID := by unfold ID; decide
theorem ID_ne_VALUES : ID ≠ VALUES := by unfold ID VALUES; decide

theorem meta_line (D : DefTables) (maj min : Nat) (m : OtherL) (h : wfOtherMap maj min META m = true) :
    parseRecordLine D maj min (metaLine m) = some (.otherMap META m) := by
  simp only [wfOtherMap, if_true, Bool.and_eq_true, Bool.not_eq_true', decide_eq_true_eq,
    List.all_eq_true] at h
  obtain ⟨⟨hid, hdup⟩, htag, hall⟩ := h
  have hp := parseLoopMap_text (!before maj min 4 3) [ID] m.idTag m.id (metaEntries m.others) []
    (by rw [htag]; exact LV_raw _ ID m.id ID_no_eq (rawOk_spec hid).1 (Or.inl (fun hn => ID_ne_VALUES hn.2)))
    (by rw [htag]; simp)
    (by
      intro e he
      obtain ⟨kv, hkv, rfl⟩ := List.mem_map.mp he
      have hf := hall kv hkv
      simp only [metaFieldOk, Bool.and_eq_true, bne_iff_ne] at hf
      obtain ⟨⟨ht, _⟩, hval⟩ := hf
      have hk := (tagOk_spec ht).1.1
      by_cases hr : isRawMeta kv.1 = true
      · have hr' : (kv.1 = NUMBER || kv.1 = TYPE || kv.1 = VALUES) = true := hr
        show LV _ (kv.1, (if isRawMeta kv.1 = true then kv.2 else quote kv.2), kv.2)
        rw [if_pos hr]
        simp only [hr', if_true] at hval
        by_cases hbr : (!(!before maj min 4 3) = false ∧ kv.1 = VALUES ∧ kv.2.head? = some 91)
        · obtain ⟨hb1, hb2, hb3⟩ := hbr
          have hbv : (!before maj min 4 3) = true := by simpa using hb1
          have : ((!before maj min 4 3) = true ∧ decide (kv.1 = VALUES) = true) ∧
              (kv.2.head? == some 91) = true := ⟨⟨hbv, by simp [hb2]⟩, by simp [hb3]⟩
          rw [if_pos this] at hval
          rw [hbv]
          have := LV_bracket kv.2 hval
          rw [← hb2] at this
          exact this
        · have : ¬(((!before maj min 4 3) = true ∧ decide (kv.1 = VALUES) = true) ∧
              (kv.2.head? == some 91) = true) := by
            rintro ⟨⟨h1, h2⟩, h3⟩
            exact hbr ⟨by simp [h1], by simpa using h2, by simpa using h3⟩
          rw [if_neg this] at hval
          refine LV_raw _ kv.1 kv.2 hk (rawOk_spec hval).1 ?_
          by_cases hbv : (!before maj min 4 3) = true
          · by_cases hkV : kv.1 = VALUES
            · right; intro e; exact hbr ⟨by simp [hbv], hkV, e⟩
            · left; exact fun hn => hkV hn.2
          · left; exact fun hn => hbv hn.1
      · have hr2 : isRawMeta kv.1 = false := by simpa using hr
        show LV _ (kv.1, (if isRawMeta kv.1 = true then kv.2 else quote kv.2), kv.2)
        rw [if_neg hr]
        refine LV_str _ kv.1 kv.2 hk ?_
        intro hn
        simp [isRawMeta, hn.2] at hr2)
    (by
      intro e he
      obtain ⟨kv, hkv, rfl⟩ := List.mem_map.mp he
      have hf := hall kv hkv
      simp only [metaFieldOk, Bool.and_eq_true, bne_iff_ne] at hf
      simpa using hf.1.2)
    (by rw [metaEntries_vals]; exact hdup)
  rw [metaEntries_vals] at hp
  unfold metaLine mapLineBody
  rw [parseRecordLine_key D maj min META _ (by unfold META; decide)]
  have n1 : META ≠ K_FILEFORMAT := by unfold META K_FILEFORMAT; decide
  have n2 : META ≠ K_INFO := by unfold META K_INFO; decide
  have n3 : META ≠ K_FILTER := by unfold META K_FILTER; decide
  have n4 : META ≠ K_FORMAT := by unfold META K_FORMAT; decide
  have n5 : META ≠ K_ALT := by unfold META K_ALT; decide
  have n6 : META ≠ K_CONTIG := by unfold META K_CONTIG; decide
  simp only [n1, n2, n3, n4, n5, n6, if_false, if_true, hp, Option.map_some]

/-! ### PEDIGREE -/

def pedEntries (fs : Fields) : List LEntry := fs.map fun kv => (kv.1, quote kv.2, kv.2)

theorem pedEntries_text (fs : Fields) : loopText (pedEntries fs) = writeOthers fs := by
  induction fs with
  | nil => rfl
  | cons a r ih =>
    obtain ⟨k, v⟩ := a
    simp only [pedEntries, List.map_cons, loopText, writeOthers, strField] at ih ⊢
    rw [ih]

theorem pedEntries_vals (fs : Fields) : loopVals (pedEntries fs) = fs := by
  induction fs with
  | nil => rfl
  | cons a r ih => simp only [loopVals, pedEntries, List.map_cons] at ih ⊢; rw [ih]

def pedLine (m : OtherL) : Bytes := mapLineBody PEDIGREE m.idTag m.id (loopText (pedEntries m.others))

theorem PEDIGREE_ne_META : PEDIGREE ≠ META := by unfold PEDIGREE META; decide

theorem writeOtherL_ped (m : OtherL) : writeOtherL PEDIGREE m = pedLine m ++ [10] := by
  rw [pedLine, ← mapLine_eq]
  simp [writeOtherL, PEDIGREE_ne_META, pedEntries_text]

theorem pedIdTags_no_eq (maj min : Nat) : ∀ t ∈ pedIdTags maj min, (61 : UInt8) ∉ t := by
  intro t ht
  unfold pedIdTags at ht
  split at ht
  · simp at ht
    rcases ht with rfl | rfl | rfl
    · exact ID_no_eq
    · unfold CHILD; decide
    · unfold DERIVED; decide
  · simp at ht; subst ht; exact ID_no_eq

theorem ped_line (D : DefTables) (maj min : Nat) (m : OtherL) (h : wfOtherMap maj min PEDIGREE m = true) :
    parseRecordLine D maj min (pedLine m) = some (.otherMap PEDIGREE m) := by
  simp only [wfOtherMap, PEDIGREE_ne_META, if_false, if_true, Bool.and_eq_true, Bool.not_eq_true',
    List.all_eq_true] at h
  obtain ⟨⟨hid, hdup⟩, htag, hall⟩ := h
  have htag' : m.idTag ∈ pedIdTags maj min := List.contains_iff_mem.mp htag
  have hp := parseLoopMap_text false (pedIdTags maj min) m.idTag m.id (pedEntries m.others) []
    (LV_raw _ m.idTag m.id (pedIdTags_no_eq maj min _ htag') (rawOk_spec hid).1 (Or.inl (fun hn => by simp at hn)))
    htag'
    (by
      intro e he
      obtain ⟨kv, hkv, rfl⟩ := List.mem_map.mp he
      obtain ⟨⟨ht, _⟩, _⟩ := hall kv hkv
      exact LV_str _ kv.1 kv.2 (tagOk_spec ht).1.1 (fun hn => by simp at hn))
    (by
      intro e he
      obtain ⟨kv, hkv, rfl⟩ := List.mem_map.mp he
      obtain ⟨⟨_, hn⟩, _⟩ := hall kv hkv
      intro hm
      rw [List.contains_iff_mem.mpr hm] at hn
      exact absurd hn (by simp))
    (by rw [pedEntries_vals]; exact hdup)
  rw [pedEntries_vals] at hp
  unfold pedLine mapLineBody
  rw [parseRecordLine_key D maj min PEDIGREE _ (by unfold PEDIGREE; decide)]
  have n1 : PEDIGREE ≠ K_FILEFORMAT := by unfold PEDIGREE K_FILEFORMAT; decide
  have n2 : PEDIGREE ≠ K_INFO := by unfold PEDIGREE K_INFO; decide
  have n3 : PEDIGREE ≠ K_FILTER := by unfold PEDIGREE K_FILTER; decide
  have n4 : PEDIGREE ≠ K_FORMAT := by unfold PEDIGREE K_FORMAT; decide
  have n5 : PEDIGREE ≠ K_ALT := by unfold PEDIGREE K_ALT; decide
  have n6 : PEDIGREE ≠ K_CONTIG := by unfold PEDIGREE K_CONTIG; decide
  simp only [n1, n2, n3, n4, n5, n6, PEDIGREE_ne_META, if_false, if_true]
  unfold pedIdTags at hp
  simp only [hp, Option.map_some]

/-! ### any other structured key -/

theorem keyOk_spec {k : Bytes} (h : keyOk k = true) :
    (61 : UInt8) ∉ k ∧ (10 : UInt8) ∉ k ∧ k ≠ K_FILEFORMAT ∧ k ≠ K_INFO ∧ k ≠ K_FILTER ∧ k ≠ K_FORMAT ∧
      k ≠ K_ALT ∧ k ≠ K_CONTIG := by
  simp only [keyOk, Bool.and_eq_true, Bool.not_eq_true'] at h
  obtain ⟨⟨h1, h2⟩, h3⟩ := h
  have h3' : k ∉ STD_KEYS := by
    intro hm; rw [List.contains_iff_mem.mpr hm] at h3; exact absurd h3 (by simp)
  simp only [STD_KEYS, List.mem_cons, List.mem_nil_iff, or_false, not_or] at h3'
  exact ⟨by simpa using h1, by simpa using h2, h3'.1, h3'.2.1, h3'.2.2.1, h3'.2.2.2.1, h3'.2.2.2.2.1,
    h3'.2.2.2.2.2⟩

theorem other_line (D : DefTables) (maj min : Nat) (key : Bytes) (m : OtherL) (hk : keyOk key = true)
    (hM : key ≠ META) (hP : key ≠ PEDIGREE) (h : wfOtherMap maj min key m = true) :
    parseRecordLine D maj min (otherLine key m) = some (.otherMap key m) := by
  simp only [wfOtherMap, hM, hP, if_false, Bool.and_eq_true, Bool.not_eq_true', decide_eq_true_eq,
    List.all_eq_true, bne_iff_ne] at h
  obtain ⟨⟨hid, hdup⟩, htag, hall⟩ := h
  have hp := parseOtherMap_line m hid hdup (fun kv hkv => ⟨(hall kv hkv).1.1, (hall kv hkv).1.2⟩) htag []
  obtain ⟨k1, _, k3, k4, k5, k6, k7, k8⟩ := keyOk_spec hk
  unfold otherLine mapLineBody
  rw [parseRecordLine_key D maj min key _ k1, htag]
  simp only [k3, k4, k5, k6, k7, k8, hM, hP, if_false, isMap_written, if_true, hp, Option.map_some]

/-! ### unstructured records -/

def unstrLine (key v : Bytes) : Bytes := 35 :: 35 :: (key ++ 61 :: v)

theorem writeUnstructured_eq (maj min : Nat) (key v : Bytes) (h : unstrOk maj min v = true) :
    writeUnstructured maj min key v = some (unstrLine key v ++ [10]) := by
  simp only [unstrOk, Bool.and_eq_true, Bool.not_eq_true', Bool.or_eq_true, bne_iff_ne] at h
  obtain ⟨⟨_, hm⟩, hne⟩ := h
  unfold writeUnstructured
  cases v with
  | nil =>
    have hb : before maj min 4 3 = true := by
      rcases hne with hb | hv
      · exact hb
      · exact absurd rfl hv
    simp [hb, unstrLine]
  | cons b r =>
    cases hbf : before maj min 4 3 with
    | true => simp [unstrLine]
    | false =>
      have : b ≠ 60 := by
        intro e; subst e
        simp [isMap, hbf] at hm
      simp [this, unstrLine]

theorem unstr_line (D : DefTables) (maj min : Nat) (key v : Bytes) (hk : keyOk key = true)
    (hM : key ≠ META) (hP : key ≠ PEDIGREE) (h : unstrOk maj min v = true) :
    parseRecordLine D maj min (unstrLine key v) = some (.otherStr key v) := by
  simp only [unstrOk, Bool.and_eq_true, Bool.not_eq_true'] at h
  obtain ⟨⟨_, hm⟩, _⟩ := h
  obtain ⟨k1, _, k3, k4, k5, k6, k7, k8⟩ := keyOk_spec hk
  unfold unstrLine
  rw [parseRecordLine_key D maj min key _ k1]
  simp only [k3, k4, k5, k6, k7, k8, hM, hP, if_false, hm, Bool.false_eq_true]

/-! ### the `fileformat` line -/

def ffLine (maj min : Nat) : Bytes := FILEFORMAT_LINE ++ printNat maj ++ 46 :: printNat min

theorem parseNatAux_ge (s : Bytes) : ∀ acc m, parseNatAux s acc = some m → acc ≤ m := by
  induction s with
  | nil => intro acc m h; simp [parseNatAux] at h; omega
  | cons b r ih =>
    intro acc m h
    unfold parseNatAux at h
    split at h
    · have := ih _ _ h; omega
    · exact absurd h (by simp)

theorem parseU32_of_parseNatAux (s : Bytes) : ∀ acc m, parseNatAux s acc = some m → m ≤ U32_MAX →
    parseU32 s acc = some m := by
  induction s with
  | nil => intro acc m h _; simpa [parseNatAux, parseU32] using h
  | cons b r ih =>
    intro acc m h hm
    unfold parseNatAux at h
    unfold parseU32
    split at h
    · rename_i hd
      have hge := parseNatAux_ge _ _ _ h
      simp only [hd, and_self, if_true]
      have : acc * 10 + (b.toNat - 48) ≤ U32_MAX := by omega
      simp only [this, if_true]
      exact ih _ _ h hm
    · exact absurd h (by simp)

theorem parseU32_printNat (n : Nat) (hn : n ≤ U32_MAX) : parseU32 (printNat n) 0 = some n := by
  have h := Noodles.Text.parse_print n
  unfold parseNat at h
  simp only [printNat_ne_nil n, if_false] at h
  exact parseU32_of_parseNatAux _ _ _ h hn

theorem cutDot_stop (a b : Bytes) (h : (46 : UInt8) ∉ a) : cutDot (a ++ 46 :: b) = some (a, b) := by
  induction a with
  | nil => simp [cutDot]
  | cons x r ih =>
    have hx : x ≠ 46 := fun e => h (by simp [e])
    simp [cutDot, hx, ih (fun e => h (List.mem_cons_of_mem _ e))]

theorem ff_line (D : DefTables) (a b maj min : Nat) (h1 : maj ≤ U32_MAX) (h2 : min ≤ U32_MAX) :
    parseRecordLine D a b (ffLine maj min) = some (.fileFormat maj min) := by
  have e : ffLine maj min = 35 :: 35 :: (K_FILEFORMAT ++ 61 :: (86 :: 67 :: 70 :: 118 :: (printNat maj ++ 46 :: printNat min))) := by
    simp [ffLine, FILEFORMAT_LINE, K_FILEFORMAT]
  rw [e, parseRecordLine_key D a b K_FILEFORMAT _ (by unfold K_FILEFORMAT; decide)]
  simp only [if_true]
  unfold parseFileFormat
  simp only [cutDot_stop _ _ (printNat_not_mem maj 46 (by unfold IsDigit; decide)),
    parseU32_printNat maj h1, parseU32_printNat min h2, Option.map_some]

/-! ### the column line -/

def REQ : List Bytes :=
  [[35, 67, 72, 82, 79, 77], [80, 79, 83], [73, 68], [82, 69, 70], [65, 76, 84], [81, 85, 65, 76],
   [70, 73, 76, 84, 69, 82], [73, 78, 70, 79]]

theorem splitOn_COLUMNS : splitOn 9 COLUMNS = REQ := by decide

theorem COLUMNS_eq : COLUMNS = join 9 REQ := by decide

def colLine (ss : List Bytes) : Bytes :=
  COLUMNS ++ (if ss = [] then [] else 9 :: K_FORMAT ++ (ss.map (9 :: ·)).flatten)

theorem writeColumns_eq (ss : List Bytes) : writeColumns ss = colLine ss ++ [10] := by
  simp [writeColumns, colLine]

theorem join_append (d : UInt8) (l : List Bytes) (hl : l ≠ []) (xs : List Bytes) :
    join d (l ++ xs) = join d l ++ (xs.map (d :: ·)).flatten := by
  induction l with
  | nil => exact absurd rfl hl
  | cons f r ih =>
    cases r with
    | nil =>
      cases xs with
      | nil => simp [join]
      | cons x t =>
        have : ∀ (y : Bytes) (ys : List Bytes), join d (y :: ys) = y ++ (ys.map (d :: ·)).flatten := by
          intro y ys
          induction ys generalizing y with
          | nil => simp [join]
          | cons z zs ihz => simp [join, ihz z]
        simp [this]
    | cons g gs =>
      have := ih (by simp)
      simp only [List.cons_append, join] at this ⊢
      rw [this]
      simp

theorem colLine_eq (ss : List Bytes) :
    colLine ss = join 9 (REQ ++ (if ss = [] then [] else K_FORMAT :: ss)) := by
  unfold colLine
  by_cases h : ss = []
  · simp [h, COLUMNS_eq]
  · simp only [h, if_false]
    rw [join_append 9 REQ (by simp [REQ]), COLUMNS_eq]
    simp

theorem parseColumns_line (ss : List Bytes) (hfree : ∀ s ∈ ss, (9 : UInt8) ∉ s) (hdup : hasDup ss = false) :
    parseColumns (colLine ss) = .ok ss := by
  have hsplit : splitOn 9 (colLine ss) = REQ ++ (if ss = [] then [] else K_FORMAT :: ss) := by
    rw [colLine_eq]
    apply Noodles.Text.splitOn_join
    · simp [REQ]
    · intro f hf
      rcases List.mem_append.mp hf with hf | hf
      · have hreq : ∀ g ∈ REQ, (9 : UInt8) ∉ g := by unfold REQ; decide
        exact hreq f hf
      · by_cases h : ss = []
        · simp [h] at hf
        · simp only [h, if_false, List.mem_cons] at hf
          rcases hf with rfl | hf
          · unfold K_FORMAT; decide
          · exact hfree f hf
  unfold parseColumns
  simp only [hsplit, splitOn_COLUMNS]
  have ht : (REQ ++ (if ss = [] then [] else K_FORMAT :: ss)).take 8 = REQ := by
    simp [REQ]
  have hd : (REQ ++ (if ss = [] then [] else K_FORMAT :: ss)).drop 8 = (if ss = [] then [] else K_FORMAT :: ss) := by
    simp [REQ]
  simp only [ht, hd, ne_eq, not_true_eq_false, if_false]
  by_cases h : ss = []
  · simp [h]
  · simp [h, hdup]

end Noodles.Vcf.Header
