import Noodles.Vcf.DriverC09
import Noodles.Vcf.LazyAny
/-! `c09 lazyany <header ctx> <float tables> <hex line>`: both sides on an arbitrary line, the
re-written lines of both results and the outcome class (harness/src/props/c09_lazyany.rs). -/
namespace Noodles.Vcf.DriverLazyAny
open Noodles.Wire (hex unhex)
open Noodles.Vcf Noodles.Vcf.Driver

def rew (F : FloatFmt) (h : Hdr) : Option Rec → String
  | none => "-"
  | some r => match writeRecord F h r with
    | .ok t => hex t
    | .error e => writeErr e

def fmtOutcome : Outcome → String
  | .same => "same" | .differ => "differ" | .eagerOnly => "eager-only" | .lazyOnly => "lazy-only"
  | .neither => "neither"

def answer (F : FloatFmt) (h : Hdr) (line0 : Bytes) : String :=
  let line := stripCr line0
  let e := match parseRecord F h line with | .ok r => some r | .error _ => none
  let l := lazyParse F h line
  s!"{lineAnswer F h line0} we={rew F h e} wl={rew F h l} cls={fmtOutcome (outcome F h line)}"

def handle? : List String → Option String
  | ["lazyany", hdr, ft, line] =>
    some (match parseHdr hdr, parseFloatTables ft, unhex line with
      | some h, some F, some l => answer F h l
      | _, _, _ => "bad-op")
  | _ => none

end Noodles.Vcf.DriverLazyAny
