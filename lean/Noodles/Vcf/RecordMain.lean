import Noodles.Vcf.RecordProof
/-! The record-level round trip (C09): well-formedness, the normal form, and the main lemma. -/
namespace Noodles.Vcf
open Noodles.Text (splitOn join parseNat printNat)

/-- a record consistent with its header, inside the VCF text grammar -/
structure WF (canon : Nat → Prop) (h : Hdr) (r : Rec) : Prop where
  chrom : validChrom r.chrom = true
  pos : ∀ n, r.pos = some n → 1 ≤ n ∧ n ≤ USIZE_MAX
  ids : (∀ x ∈ r.ids, IdLikeOk x) ∧ hasDup r.ids = false
  ref : RefOk r.ref
  alts : ∀ x ∈ r.alts, AltOk x
  qual : ∀ b, r.qual = some b → canon b
  filters : (∀ x ∈ r.filters, IdLikeOk x) ∧ hasDup r.filters = false
  info : (∀ kv ∈ r.info, InfoFieldOk canon h kv) ∧ hasDup (r.info.map (·.1)) = false
  nsamples : r.samples.length = h.nsamples
  keys : if r.samples = [] then r.keys = [] else (r.keys ≠ [] ∧ KeysOk r.keys)
  samples : ∀ s ∈ r.samples, SampleOk canon h r.keys s

/-- the text's own normal form: a sample that is a lone missing value is a sample without
values, and (before VCF 4.4) the first allele's phasing is the one the text implies -/
def normRec (h : Hdr) (r : Rec) : Rec := { r with samples := r.samples.map (normSample h) }

/-- the column text of an optional list -/
def listText (d : UInt8) (l : List Bytes) : Bytes := if l = [] then DOT else join d l

theorem ids_column (l : List Bytes) (h : ∀ x ∈ l, IdLikeOk x) (hd : hasDup l = false) :
    writeList validIdLike 59 l = some (listText 59 l) ∧ TAB ∉ listText 59 l ∧
    idsCol (listText 59 l) = .ok l := by
  refine ⟨writeList_ok _ _ l (fun x hx => (h x hx).2.1), ?_, ?_⟩
  · unfold listText; split
    · decide
    · rename_i hl; exact (parseIds_ok l hl h hd).2.1
  · unfold idsCol listText; split
    · rename_i hl; simp [hl]
    · rename_i hl
      obtain ⟨a, _, c⟩ := parseIds_ok l hl h hd
      simp [a, c, orErr]

theorem filters_column (l : List Bytes) (h : ∀ x ∈ l, IdLikeOk x) (hd : hasDup l = false) :
    writeList validIdLike 59 l = some (listText 59 l) ∧ TAB ∉ listText 59 l ∧
    filtersCol (listText 59 l) = .ok l := by
  refine ⟨writeList_ok _ _ l (fun x hx => (h x hx).2.1), ?_, ?_⟩
  · unfold listText; split
    · decide
    · rename_i hl; exact (parseFilters_ok l hl h hd).2.1
  · unfold filtersCol listText; split
    · rename_i hl; simp [hl]
    · rename_i hl
      obtain ⟨a, _, c⟩ := parseFilters_ok l hl h hd
      simp [a, c, orErr]

theorem alts_column (l : List Bytes) (h : ∀ x ∈ l, AltOk x) :
    writeList validAlt 44 l = some (listText 44 l) ∧ TAB ∉ listText 44 l ∧
    altsCol (listText 44 l) = .ok l := by
  refine ⟨writeList_ok _ _ l (fun x hx => (h x hx).2.1), ?_, ?_⟩
  · unfold listText; split
    · decide
    · rename_i hl; exact (parseAlts_ok l hl h).2.1
  · unfold altsCol listText; split
    · rename_i hl; simp [hl]
    · rename_i hl
      obtain ⟨a, _, c⟩ := parseAlts_ok l hl h
      simp [a, c, orErr]

theorem qual_column (F : FloatFmt) (canon : Nat → Prop) (hF : F.Lawful canon) (q : Option Nat)
    (hq : ∀ b, q = some b → canon b) :
    TAB ∉ writeQual F q ∧
    qualCol F (writeQual F q) = .ok q := by
  cases q with
  | none => exact ⟨by simp [writeQual, DOT, TAB], by simp [qualCol, writeQual]⟩
  | some b =>
    have hb := hq b rfl
    refine ⟨fun hm => (hF.plain b hb _ hm).1 rfl, ?_⟩
    simp [qualCol, writeQual, hF.ne_dot b hb, hF.ne_nil b hb, hF.roundtrip b hb, orErr]

/-- the INFO column text -/
def infoText (rs : List (Bytes × Option Bytes)) : Bytes := if rs = [] then DOT else join 59 (rs.map ft)

theorem info_column' {F : FloatFmt} {h : Hdr} {info : List (Bytes × Option Val)}
    {rs : List (Bytes × Option Bytes)} (hr : All2 (FieldRel F h) info rs)
    (hdup : hasDup (info.map (·.1)) = false) :
    writeInfo F h info = some (infoText rs) ∧ TAB ∉ infoText rs ∧
    infoCol F h (infoText rs) = .ok info := by
  have hlen := (forall2_write hr).2.2.2
  by_cases hi : info = []
  · subst hi
    have : rs = [] := by cases rs with
      | nil => rfl
      | cons a b => simp at hlen
    subst this
    exact ⟨by simp [writeInfo, infoText], by decide, by simp [infoCol, infoText]⟩
  · have hrs : rs ≠ [] := by
      intro e; subst e; simp at hlen
      exact hi (List.length_eq_zero_iff.mp hlen.symm)
    obtain ⟨a, b, c, d⟩ := info_column hr hi hdup
    simp only [infoText, hrs, if_false]
    exact ⟨a, c, by simp [infoCol, b, d, orErr]⟩

theorem nextField_opt (f s : Bytes) (hf : TAB ∉ f) (hs : s = [] ∨ ∃ t, s = TAB :: t) :
    nextField (f ++ s) = (f, s.tail) := by
  rcases hs with rfl | ⟨t, rfl⟩
  · simpa using nextField_last f hf
  · simpa using nextField_append f t hf

/-- the line in terms of its column texts; `s` is empty or starts with the tab before FORMAT -/
def lineOf (c p i r a q f n s : Bytes) : Bytes :=
  c ++ TAB :: (p ++ TAB :: (i ++ TAB :: (r ++ TAB :: (a ++ TAB :: (q ++ TAB :: (f ++ TAB :: (n ++ s)))))))

/-- the text after the INFO column -/
def samplesText (keys : List Bytes) (ts : List Bytes) : Bytes :=
  if ts = [] then [] else TAB :: (join 58 keys ++ colsText ts)

/-- everything the theorems need to know about the line of a well-formed record -/
structure Written (F : FloatFmt) (h : Hdr) (r : Rec) (rs : List (Bytes × Option Bytes))
    (ts : List Bytes) : Prop where
  wf_info : All2 (FieldRel F h) r.info rs
  wf_samples : All2 (SampleRel F h r.keys) r.samples ts
  line : writeRecord F h r = .ok (lineOf r.chrom (writePos r.pos) (listText 59 r.ids) r.ref
    (listText 44 r.alts) (writeQual F r.qual) (listText 59 r.filters) (infoText rs)
    (samplesText r.keys ts))

theorem written_exists (F : FloatFmt) (canon : Nat → Prop) (hF : F.Lawful canon) (h : Hdr) (r : Rec)
    (w : WF canon h r) : ∃ rs ts, Written F h r rs ts := by
  obtain ⟨rs, hrs⟩ := fieldRel_exists F canon hF h r.info w.info.1
  obtain ⟨ts, hts⟩ := sampleRel_exists F canon hF h r.keys r.samples w.samples
  refine ⟨rs, ts, hrs, hts, ?_⟩
  have hi := (ids_column r.ids w.ids.1 w.ids.2).1
  have hf := (filters_column r.filters w.filters.1 w.filters.2).1
  have ha := (alts_column r.alts w.alts).1
  have hn := (info_column' hrs w.info.2).1
  have hr := (ref_ok r.ref w.ref).1
  obtain ⟨hsw, hlen, _⟩ := samples_cols hts
  unfold writeRecord
  simp only [w.chrom, if_true, hi, hf, ha, hn, hr, orErr, bind, Except.bind]
  by_cases hs : r.samples = []
  · have : ts = [] := by
      cases ts with
      | nil => rfl
      | cons a b => rw [hs] at hlen; simp at hlen
    simp [hs, this, samplesText, lineOf]
  · have hk := w.keys
    simp only [hs, if_false] at hk
    have hkw := (keys_spec r.keys hk.1 hk.2).1
    have hkne : r.keys ≠ [] := hk.1
    have : ts ≠ [] := by
      intro e; subst e; simp at hlen
      exact hs (List.length_eq_zero_iff.mp hlen.symm)
    simp [hs, hkne, hkw, hsw, this, samplesText, lineOf]

/-- the eager reader on the written line -/
theorem parse_written (F : FloatFmt) (canon : Nat → Prop) (hF : F.Lawful canon) (h : Hdr) (r : Rec)
    (w : WF canon h r) (rs : List (Bytes × Option Bytes)) (ts : List Bytes) (W : Written F h r rs ts) :
    parseRecord F h (lineOf r.chrom (writePos r.pos) (listText 59 r.ids) r.ref
      (listText 44 r.alts) (writeQual F r.qual) (listText 59 r.filters) (infoText rs)
      (samplesText r.keys ts)) = .ok (normRec h r) := by
  obtain ⟨_, hi9, hip⟩ := ids_column r.ids w.ids.1 w.ids.2
  obtain ⟨_, hf9, hfp⟩ := filters_column r.filters w.filters.1 w.filters.2
  obtain ⟨_, ha9, hap⟩ := alts_column r.alts w.alts
  obtain ⟨_, hn9, hnp⟩ := info_column' W.wf_info w.info.2
  obtain ⟨_, hr9⟩ := ref_ok r.ref w.ref
  obtain ⟨hpp, hp9⟩ := parsePos_ok r.pos w.pos
  obtain ⟨hq9, hqp⟩ := qual_column F canon hF r.qual w.qual
  have hc9 := chrom_ok r.chrom w.chrom
  obtain ⟨_, hlen, hcols⟩ := samples_cols W.wf_samples
  have hst : samplesText r.keys ts = [] ∨ ∃ t, samplesText r.keys ts = TAB :: t := by
    unfold samplesText; split
    · left; rfl
    · right; exact ⟨_, rfl⟩
  have hsamples : parseSamples F h (samplesText r.keys ts).tail =
      some (r.keys, r.samples.map (normSample h)) := by
    by_cases hs : r.samples = []
    · have hts : ts = [] := by
        cases ts with
        | nil => rfl
        | cons a b => rw [hs] at hlen; simp at hlen
      have hk := w.keys
      simp only [hs, if_true] at hk
      have hn0 : h.nsamples = 0 := by rw [← w.nsamples, hs]; rfl
      simp [parseSamples, hn0, hts, samplesText, hk, hs]
    · have hk := w.keys
      simp only [hs, if_false] at hk
      obtain ⟨_, _, _, hk9, hkp, _⟩ := keys_spec r.keys hk.1 hk.2
      have htsne : ts ≠ [] := by
        intro e; subst e; simp at hlen
        exact hs (List.length_eq_zero_iff.mp hlen.symm)
      have hn0 : h.nsamples ≠ 0 := by
        rw [← w.nsamples]
        intro e; exact hs (List.length_eq_zero_iff.mp e)
      rw [w.nsamples] at hcols
      simp only [parseSamples, hn0, if_false, samplesText, htsne, List.tail_cons,
        colsText_tail_nextField _ hk9, hkp, hcols]
      rfl
  unfold parseRecord lineOf
  simp only [nextField_append _ _ hc9, nextField_append _ _ hp9, nextField_append _ _ hi9,
    nextField_append _ _ hr9, nextField_append _ _ ha9, nextField_append _ _ hq9,
    nextField_append _ _ hf9, nextField_opt _ _ hn9 hst, hpp, hip, hap, hqp, hfp, hnp, hsamples,
    refCol, w.ref.1, if_false, orErr, bind, Except.bind, pure, Except.pure, normRec]

end Noodles.Vcf
