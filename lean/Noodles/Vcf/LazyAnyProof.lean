import Noodles.Vcf.LazyAny
import Noodles.Vcf.LazyProof
/-! Helper lemmas for `Noodles/Props/C09LazyAny.lean`: column by column, what the eager parser
accepts the lazy accessor reads identically. -/
namespace Noodles.Vcf
open Noodles.Text (splitOn join)

theorem orErr_ok {α : Type} {e : Err} {o : Option α} {v : α} (h : orErr e o = .ok v) : o = some v := by
  cases o <;> simp_all [orErr]

/-! ### framing: `next_field` (eager) vs `read_field` (lazy) -/

theorem nextField_takeField (s : Bytes) :
    nextField s = ((takeField s).1, (takeField s).2.getD []) := by
  induction s with
  | nil => simp [nextField, takeField]
  | cons b r ih =>
    by_cases hb : b = TAB
    · simp [nextField, takeField, hb]
    · simp [nextField, takeField, hb, ih]

theorem takeField_of_rest {s : Bytes} (h : (nextField s).2 ≠ []) :
    takeField s = ((nextField s).1, some (nextField s).2) := by
  rw [nextField_takeField] at h ⊢
  rcases ht : takeField s with ⟨a, b⟩
  rw [ht] at h
  cases b with
  | none => simp at h
  | some x => simp

theorem nextField_nil_fst {s : Bytes} (h : (nextField s).1 ≠ []) : s ≠ [] := by
  intro hs; subst hs; simp [nextField] at h

theorem nextField_length (s : Bytes) : (nextField s).2.length ≤ s.length := by
  induction s with
  | nil => simp [nextField]
  | cons b r ih =>
    by_cases hb : b = TAB
    · simp [nextField, hb]
    · simp only [nextField, hb, if_false]; simp; omega

theorem nextField_length_lt {s : Bytes} (h : s ≠ []) : (nextField s).2.length < s.length := by
  cases s with
  | nil => exact absurd rfl h
  | cons b r =>
    by_cases hb : b = TAB
    · simp [nextField, hb]
    · have := nextField_length r
      simp only [nextField, hb, if_false]; simp; omega

/-! ### the simple columns -/

theorem pos_any {f : Bytes} {v : Option Nat} (h : orErr .position (parsePos f) = .ok v) :
    lazyPos f = some v := by
  have := orErr_ok h
  unfold parsePos at this
  unfold lazyPos
  by_cases h0 : f = []
  · simp [h0] at this
  · simp only [h0, if_false] at this
    by_cases h48 : f = [48]
    · simp only [h48, if_true] at this ⊢; exact this
    · simp only [h48, if_false] at this ⊢
      cases hu : parseUsize f with
      | none => simp [hu] at this
      | some n =>
        cases n with
        | zero => simp [hu] at this
        | succ m => simpa [hu] using this

theorem ids_any {f : Bytes} {v : List Bytes} (h : idsCol f = .ok v) :
    dedup [] (lazyList 59 (unDot f)) = v := by
  unfold idsCol at h
  by_cases hd : f = DOT
  · simp [hd] at h; subst h; simp [unDot, hd, lazyList, dedup]
  · simp only [hd, if_false] at h
    have h' := orErr_ok h
    unfold parseIds at h'
    by_cases h0 : f = []
    · simp [h0] at h'
    · simp only [h0, if_false] at h'
      by_cases hc : ((splitOn 59 f).any (· = []) || hasDup (splitOn 59 f)) = true
      · simp [hc] at h'
      · simp only [hc] at h'
        simp only [Bool.false_eq_true, if_false, Option.some.injEq] at h'
        subst h'
        simp only [Bool.or_eq_true, not_or, Bool.not_eq_true] at hc
        simp only [unDot, hd, if_false, lazyList, h0]
        exact dedup_nodup _ hc.2

theorem ref_any {f v : Bytes} (h : refCol f = .ok v) : f = v := by
  unfold refCol at h
  by_cases h0 : f = [] <;> simp_all

theorem alts_any {f : Bytes} {v : List Bytes} (h : altsCol f = .ok v) :
    lazyList 44 (unDot f) = v := by
  unfold altsCol at h
  by_cases hd : f = DOT
  · simp [hd] at h; subst h; simp [unDot, hd, lazyList]
  · simp only [hd, if_false] at h
    have h' := orErr_ok h
    unfold parseAlts at h'
    by_cases h0 : f = []
    · simp [h0] at h'
    · simp only [h0, if_false, Option.some.injEq] at h'
      subst h'
      simp [unDot, hd, lazyList, h0]

theorem qual_any {F : FloatFmt} {f : Bytes} {v : Option Nat} (h : qualCol F f = .ok v) :
    lazyQual F f = some v := by
  unfold qualCol at h
  unfold lazyQual
  by_cases hd : f = DOT
  · simp [hd] at h; subst h; simp [hd]
  · simp only [hd, if_false] at h ⊢
    by_cases h0 : f = []
    · simp [h0] at h
    · simp only [h0, if_false] at h
      exact orErr_ok h

theorem filters_any {f : Bytes} {v : List Bytes} (h : filtersCol f = .ok v) :
    dedup [] (lazyList 59 (unDot f)) = v := by
  unfold filtersCol at h
  by_cases hd : f = DOT
  · simp [hd] at h; subst h; simp [unDot, hd, lazyList, dedup]
  · simp only [hd, if_false] at h
    have h' := orErr_ok h
    unfold parseFilters at h'
    by_cases h0 : f = []
    · simp [h0] at h'
    · simp only [h0, if_false] at h'
      by_cases hp : f = PASS
      · simp only [hp, if_true, Option.some.injEq] at h'
        subst h'; subst hp; decide
      · simp only [hp, if_false] at h'
        by_cases hc : hasDup (splitOn 59 f) = true
        · simp [hc] at h'
        · simp only [hc] at h'
          simp only [Bool.false_eq_true, if_false, Option.some.injEq] at h'
          subst h'
          simp only [unDot, hd, if_false, lazyList, h0]
          exact dedup_nodup _ (by simpa using hc)

/-! ### typed values -/

theorem lazyTyped_eq_any (F : FloatFmt) (sh : Shape) (ty : Ty) (s : Bytes) (hp : arrayEmpty sh s = false) :
    lazyTyped F sh ty s = parseTyped F sh ty s := by
  cases sh <;> cases ty <;> simp [lazyTyped, parseTyped]
  all_goals
    have hs : s ≠ [] := by simpa [arrayEmpty] using hp
    simp [lazyArray, hs]

theorem lazyInfoTyped_eq (F : FloatFmt) (num : Num) (ty : Ty) (s : Bytes)
    (hp : arrayEmpty num.shape s = false) :
    lazyInfoTyped F num ty s = parseInfoValue F num ty s := by
  have := lazyTyped_eq_any F num.shape ty s hp
  unfold lazyInfoTyped parseInfoValue
  cases hs : num.shape <;> cases ty <;> simp_all

/-- one INFO field: `record/info/field.rs::parse_value` = `record_buf/info/field.rs::parse_field` -/
theorem infoValue_any {F : FloatFmt} {h : Hdr} {k : Bytes} {raw : Option Bytes} {v : Option Val}
    (he : infoFieldValue F h k raw = some v) (hp : infoValPlain h (k, raw) = true) :
    lazyInfoValue F h k raw = some v := by
  unfold infoFieldValue at he
  unfold lazyInfoValue
  unfold infoValPlain at hp
  cases hd : h.infoDef k with
  | none =>
    simp only [hd] at he hp
    cases raw with
    | none => simpa using he
    | some t =>
      simp only [Option.getD] at he hp ⊢
      by_cases ht : t = DOT
      · simpa [ht] using he
      · simp only [ht, if_false] at he ⊢
        rw [lazyInfoTyped_eq]; exact he
        simp [arrayEmpty, Num.shape]
  | some d =>
    obtain ⟨num, ty⟩ := d
    simp only [hd] at he hp
    cases raw with
    | none =>
      simp only [Option.getD] at he ⊢
      by_cases hf : ty = .flag
      · subst hf
        simp only [if_true] at he ⊢
        have : ([] : Bytes) ≠ DOT := by decide
        simp only [this, if_false] at he
        unfold parseInfoValue at he
        cases hs : num.shape <;> simp [hs, parseTyped] at he <;> simp [← he]
      · simp [hf] at he
    | some t =>
      simp only [Option.getD, Bool.not_eq_true'] at he hp ⊢
      by_cases ht : t = DOT
      · by_cases hf : ty = .flag <;> simp_all
      · have e1 : lazyInfoTyped F num ty t = parseInfoValue F num ty t := lazyInfoTyped_eq F num ty t hp
        by_cases hf : ty = .flag
        · subst hf; simp only [if_true, ht, if_false] at he ⊢; rw [e1]; exact he
        · simp only [hf, if_false, ht] at he ⊢; rw [e1]; exact he

theorem infoFields_any {F : FloatFmt} {h : Hdr} : ∀ (parts : List Bytes) (l : List (Bytes × Option Val)),
    mapM' (parseInfoField F h) parts = some l →
    (parts.map splitEq).all (infoValPlain h) = true →
    mapM' (fun (kv : Bytes × Option Bytes) => (lazyInfoValue F h kv.1 kv.2).map fun v => (kv.1, v))
      (parts.map splitEq) = some l := by
  intro parts
  induction parts with
  | nil => intro l h1 _; simpa [mapM'] using h1
  | cons p r ih =>
    intro l h1 h2
    simp only [List.map_cons, List.all_cons, Bool.and_eq_true] at h2
    have hpf : parseInfoField F h p =
        (infoFieldValue F h (splitEq p).1 (splitEq p).2).map fun v => ((splitEq p).1, v) := rfl
    simp only [mapM', List.map_cons] at h1 ⊢
    rw [hpf] at h1
    cases hv : infoFieldValue F h (splitEq p).1 (splitEq p).2 with
    | none => simp [hv] at h1
    | some v =>
      cases hr : mapM' (parseInfoField F h) r with
      | none => simp [hv, hr] at h1
      | some lr =>
        have := infoValue_any hv (by simpa using h2.1)
        simp [hv, hr] at h1
        simp [this, ih lr hr h2.2, h1]

/-- the INFO column -/
theorem info_any {F : FloatFmt} {h : Hdr} {f : Bytes} {v : List (Bytes × Option Val)}
    (he : infoCol F h f = .ok v) (hp : infoPlain h f = true) :
    lazyInfo F h (unDot f) = some v := by
  unfold infoCol at he
  by_cases hd : f = DOT
  · simp [hd] at he; subst he
    simp [unDot, hd, lazyInfo, lazyInfoFields, mapM']
  · simp only [hd, if_false] at he
    have h' := orErr_ok he
    unfold parseInfo at h'
    by_cases h0 : f = []
    · simp [h0] at h'
    · simp only [h0, if_false] at h'
      simp only [infoPlain, hd, decide_false, Bool.false_or, Bool.and_eq_true] at hp
      cases hm : mapM' (parseInfoField F h) (splitOn 59 f) with
      | none => simp [hm] at h'
      | some l =>
        simp only [hm] at h'
        by_cases hc : hasDup (l.map (fun (kv : Bytes × Option Val) => kv.1)) = true
        · simp [hc] at h'
        · simp only [hc] at h'
          simp only [Bool.false_eq_true, if_false, Option.some.injEq] at h'
          subst h'
          have hframe : lazyInfoFields (f.length + 1) f = some (infoRaws f) := by
            simpa [infoFramePlain] using hp.1
          have hvals := infoFields_any (splitOn 59 f) l hm hp.2
          simp only [unDot, hd, if_false, lazyInfo, hframe]
          unfold infoRaws
          rw [hvals]
          have hn : (([] ++ l).map (fun (kv : Bytes × Option Val) => kv.1)).Nodup := by
            simpa using (hasDup_false_iff_nodup _).mp (by simpa using hc)
          simpa using foldl_insertKV l [] hn

/-! ### genotypes: the implied phasing of the first allele -/

theorem spanAllele_no47 (s : Bytes) : (spanAllele s).1.any (· = 47) = false := by
  induction s with
  | nil => simp [spanAllele]
  | cons b r ih =>
    by_cases hb : isPhasing b = true
    · simp [spanAllele, hb]
    · simp only [spanAllele, hb]
      have : b ≠ 47 := by intro h; subst h; simp [isPhasing] at hb
      simpa [this] using ih

theorem spanAllele_any (s : Bytes) :
    s.any (· = 47) = (spanAllele s).2.any (· = 47) := by
  induction s with
  | nil => simp [spanAllele]
  | cons b r ih =>
    by_cases hb : isPhasing b = true
    · simp [spanAllele, hb]
    · simp only [spanAllele, hb]
      have : b ≠ 47 := by intro h; subst h; simp [isPhasing] at hb
      simpa [this] using ih

theorem parseAlleles_phased : ∀ (fuel : Nat) (s : Bytes) (as : List Allele),
    parseAlleles fuel s = some as → impliedFirst as = !(s.any (· = 47)) := by
  intro fuel
  induction fuel with
  | zero => intro s as h; simp [parseAlleles] at h
  | succ n ih =>
    intro s as h
    unfold parseAlleles at h
    by_cases hs : s = []
    · simp [hs] at h; subst h; simp [hs, impliedFirst]
    · simp only [hs, if_false] at h
      cases s with
      | nil => exact absurd rfl hs
      | cons b r =>
        simp only [nextAllele] at h
        cases ha : parseAllele (b :: (spanAllele r).1) with
        | none => simp [ha] at h
        | some a =>
          simp only [ha] at h
          cases hr : parseAlleles n (spanAllele r).2 with
          | none => simp [hr] at h
          | some rest =>
            simp only [hr, Option.map_some, Option.some.injEq] at h
            subst h
            have ih' := ih _ _ hr
            unfold parseAllele at ha
            by_cases hb : isPhasing b = true
            · simp only [hb, if_true] at ha
              cases hp : parseAllelePos (spanAllele r).1 with
              | none => simp [hp] at ha
              | some p =>
                simp only [hp, Option.map_some, Option.some.injEq] at ha
                subst ha
                simp only [impliedFirst, List.all_cons] at ih' ⊢
                rw [ih', List.any_cons, spanAllele_any r]
                have : b = 47 ∨ b = 124 := by simpa [isPhasing] using hb
                rcases this with h1 | h1 <;> subst h1 <;> simp
            · simp [hb] at ha

theorem lazyGenotype_eq (s : Bytes) : lazyGenotype s = parseGenotype s := by
  unfold lazyGenotype parseGenotype
  cases s with
  | nil => simp [nextAllele]
  | cons b r =>
    simp only [nextAllele, List.cons_ne_nil, if_false, reduceCtorEq]
    unfold parseFirstAllele
    by_cases hb : isPhasing b = true
    · simp only [hb, if_true]
      cases hp : parseAllelePos (spanAllele r).1 with
      | none => simp
      | some p =>
        simp only [Option.map_some]
        cases hr : parseAlleles ((spanAllele r).2.length + 1) (spanAllele r).2 with
        | none => simp
        | some as => simp
    · simp only [hb]
      cases hp : parseAllelePos (b :: (spanAllele r).1) with
      | none => simp
      | some p =>
        simp only [Option.map_some]
        cases hr : parseAlleles ((spanAllele r).2.length + 1) (spanAllele r).2 with
        | none => simp
        | some as =>
          have := parseAlleles_phased _ _ _ hr
          simp [this]

/-! ### samples -/

theorem sampleValue_any (F : FloatFmt) (h : Hdr) (k raw : Bytes)
    (hp : arrayEmpty (h.formatDef k).1.shape raw = false) :
    lazySampleValue F h k raw = parseSampleValue F h k raw := by
  unfold lazySampleValue parseSampleValue
  by_cases hd : raw = DOT
  · simp [hd]
  · by_cases hg : k = GT
    · simp [hd, hg, lazyGenotype_eq]
    · simp [hd, hg, lazyTyped_eq_any F _ _ raw hp]

theorem zip_any (F : FloatFmt) (h : Hdr) : ∀ (ks vs : List Bytes), zipPlain h ks vs = true →
    lazyZip F h ks vs = parseZip F h ks vs := by
  intro ks
  induction ks with
  | nil => intro vs _; simp [lazyZip, parseZip]
  | cons k r ih =>
    intro vs hp
    cases vs with
    | nil => simp [lazyZip, parseZip]
    | cons v vr =>
      simp only [zipPlain, Bool.and_eq_true, Bool.not_eq_true'] at hp
      rw [lazyZip, parseZip, sampleValue_any F h k v hp.1, ih vr hp.2]
      cases parseSampleValue F h k v <;> rfl

/-- one sample column -/
theorem sample_any {F : FloatFmt} {h : Hdr} {keys : List Bytes} {f : Bytes} {v : List (Option Val)}
    (he : parseValues F h keys f = some v) (hp : zipPlain h keys (splitOn 58 f) = true) :
    lazySample F h keys (if f = DOT then [] else f) = some v := by
  unfold parseValues at he
  by_cases h0 : f = []
  · simp [h0] at he
  · simp only [h0, if_false] at he
    by_cases hd : f = DOT
    · simp only [hd, if_true, Option.some.injEq] at he ⊢
      subst he; simp [lazySample]
    · simp only [hd, if_false] at he ⊢
      simp only [lazySample, h0, if_false, zip_any F h keys _ hp]
      cases hz : parseZip F h keys (splitOn 58 f) with
      | none => simp [hz] at he
      | some vs =>
        simp only [hz] at he
        by_cases hl : keys.length < (splitOn 58 f).length
        · simp [hl] at he
        · simpa [hl] using he

/-- the sample columns: exactly `n` of them -/
theorem cols_any {F : FloatFmt} {h : Hdr} {keys : List Bytes} : ∀ (n : Nat) (s : Bytes) (fuel : Nat)
    (vs : List (List (Option Val))), s.length < fuel →
    parseSampleCols F h keys n s = some vs → colsPlain h keys n s = true →
    mapM' (lazySample F h keys) (lazySampleTexts fuel s) = some vs := by
  intro n
  induction n with
  | zero =>
    intro s fuel vs hf he hp
    simp only [colsPlain, decide_eq_true_eq] at hp
    subst hp
    cases fuel with
    | zero => simp at hf
    | succ m => simp [parseSampleCols] at he; subst he; simp [lazySampleTexts, mapM']
  | succ n ih =>
    intro s fuel vs hf he hp
    simp only [colsPlain, Bool.and_eq_true] at hp
    unfold parseSampleCols at he
    cases hv : parseValues F h keys (nextField s).1 with
    | none => simp [hv] at he
    | some v =>
      simp only [hv] at he
      cases hr : parseSampleCols F h keys n (nextField s).2 with
      | none => simp [hr] at he
      | some rest =>
        simp only [hr, Option.map_some, Option.some.injEq] at he
        subst he
        have hne : (nextField s).1 ≠ [] := by
          intro h0; simp [parseValues, h0] at hv
        have hs : s ≠ [] := nextField_nil_fst hne
        cases fuel with
        | zero => simp at hf
        | succ m =>
          have hlt := nextField_length_lt hs
          have := ih (nextField s).2 m rest (by omega) hr hp.2
          unfold lazySampleTexts
          simp only [hs, if_false, mapM', sample_any hv hp.1, this, Option.map_some]

end Noodles.Vcf
