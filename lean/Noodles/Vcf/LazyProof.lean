import Noodles.Vcf.RecordMain
/-! Lazy record = eager record on the writer's lines (C09): helper lemmas. -/
namespace Noodles.Vcf
open Noodles.Text (splitOn join parseNat printNat)

/-! ### duplicates -/

theorem hasDup_false_iff_nodup (l : List Bytes) : hasDup l = false ↔ l.Nodup := by
  induction l with
  | nil => simp [hasDup]
  | cons x r ih =>
    simp only [hasDup, Bool.or_eq_false_iff, List.nodup_cons, ih]
    constructor
    · intro ⟨a, b⟩
      refine ⟨fun hm => ?_, b⟩
      have := List.contains_iff_mem.mpr hm
      rw [a] at this; cases this
    · intro ⟨a, b⟩
      refine ⟨?_, b⟩
      cases hc : r.contains x with
      | false => rfl
      | true => exact absurd (List.contains_iff_mem.mp hc) a

theorem dedup_id (l : List Bytes) : ∀ seen : List Bytes, (∀ x ∈ l, x ∉ seen) → l.Nodup → dedup seen l = l := by
  induction l with
  | nil => intro _ _ _; rfl
  | cons x r ih =>
    intro seen hs hn
    have hx : seen.contains x = false := by
      cases hc : seen.contains x with
      | false => rfl
      | true => exact absurd (List.contains_iff_mem.mp hc) (hs x (by simp))
    obtain ⟨hxr, hnr⟩ := List.nodup_cons.mp hn
    simp only [dedup, hx]
    rw [ih (x :: seen) ?_ hnr]
    · simp
    · intro y hy hm
      rcases List.mem_cons.mp hm with e | hm
      · subst e; exact hxr hy
      · exact hs y (List.mem_cons_of_mem _ hy) hm

theorem dedup_nodup (l : List Bytes) (h : hasDup l = false) : dedup [] l = l :=
  dedup_id l [] (by simp) ((hasDup_false_iff_nodup l).mp h)

/-! ### the fixed columns, lazily -/

theorem lazyPos_ok (p : Option Nat) (hp : ∀ n, p = some n → 1 ≤ n ∧ n ≤ USIZE_MAX) :
    lazyPos (writePos p) = some p := by
  cases p with
  | none => simp [lazyPos, writePos]
  | some n =>
    obtain ⟨h1, h2⟩ := hp n rfl
    unfold lazyPos writePos
    have h48 : printNat n ≠ [48] := by
      intro e
      have := Noodles.Text.parse_print n
      rw [e] at this
      simp [parseNat, Noodles.Text.parseNatAux] at this
      omega
    simp only [h48, if_false, parseUsize_printNat n h2]
    cases n with
    | zero => omega
    | succ k => rfl

theorem lazyList_listText (d : UInt8) (hd46 : d ≠ 46) (hd9 : d ≠ TAB) (l : List Bytes)
    (h : ∀ x ∈ l, x ≠ [] ∧ x ≠ DOT ∧ TAB ∉ x ∧ d ∉ x) : lazyList d (unDot (listText d l)) = l := by
  unfold listText
  split
  · rename_i hl; simp [unDot, lazyList, hl]
  · rename_i hl
    obtain ⟨a, b, _, e⟩ := listColumn d hd46 hd9 l hl h
    simp [unDot, lazyList, a, b, e]

/-! ### INFO, lazily -/

theorem readKey_eq (k t : Bytes) (h61 : (61 : UInt8) ∉ k) (h59 : (59 : UInt8) ∉ k) :
    readKey (k ++ 61 :: t) = (k, some (61, t)) ∧ readKey (k ++ 59 :: t) = (k, some (59, t)) ∧
    readKey k = (k, none) := by
  induction k with
  | nil => simp [readKey]
  | cons b r ih =>
    have hb1 : b ≠ 61 := fun e => h61 (by simp [e])
    have hb2 : b ≠ 59 := fun e => h59 (by simp [e])
    obtain ⟨a, b', c⟩ := ih (fun e => h61 (List.mem_cons_of_mem _ e)) (fun e => h59 (List.mem_cons_of_mem _ e))
    simp [readKey, hb1, hb2, a, b', c]

theorem readValue_eq (v t : Bytes) (h59 : (59 : UInt8) ∉ v) :
    readValue (v ++ 59 :: t) = (v, some t) ∧ readValue v = (v, none) := by
  induction v with
  | nil => simp [readValue]
  | cons b r ih =>
    have hb : b ≠ 59 := fun e => h59 (by simp [e])
    obtain ⟨a, c⟩ := ih (fun e => h59 (List.mem_cons_of_mem _ e))
    simp [readValue, hb, a, c]

/-- what `lazyInfoNext` needs of a raw field -/
def RawOk (kr : Bytes × Option Bytes) : Prop :=
  KeyLike kr.1 ∧ ∀ tv, kr.2 = some tv → (59 : UInt8) ∉ tv

theorem lazyInfoNext_last (kr : Bytes × Option Bytes) (h : RawOk kr) :
    lazyInfoNext (ft kr) = some (kr, []) := by
  obtain ⟨k, raw⟩ := kr
  obtain ⟨hk, hraw⟩ := h
  simp only at hk hraw
  have hf := hk.free
  obtain ⟨a, b, c⟩ := readKey_eq k [] hf.2.2.1 hf.2.1
  cases raw with
  | none => simp [ft, fieldText, lazyInfoNext, c, hk.1]
  | some tv =>
    obtain ⟨a', _, _⟩ := readKey_eq k tv hf.2.2.1 hf.2.1
    obtain ⟨_, d⟩ := readValue_eq tv [] (hraw tv rfl)
    simp [ft, fieldText, lazyInfoNext, a', hk.1, d]

theorem lazyInfoNext_more (kr : Bytes × Option Bytes) (h : RawOk kr) (rest : Bytes) (hr : rest ≠ []) :
    lazyInfoNext (ft kr ++ 59 :: rest) = some (kr, rest) := by
  obtain ⟨k, raw⟩ := kr
  obtain ⟨hk, hraw⟩ := h
  simp only at hk hraw
  have hf := hk.free
  cases raw with
  | none =>
    obtain ⟨_, b, _⟩ := readKey_eq k rest hf.2.2.1 hf.2.1
    simp [ft, fieldText, lazyInfoNext, b, hk.1, hr]
  | some tv =>
    obtain ⟨a', _, _⟩ := readKey_eq k (tv ++ 59 :: rest) hf.2.2.1 hf.2.1
    obtain ⟨d, _⟩ := readValue_eq tv rest (hraw tv rfl)
    simp [ft, fieldText, lazyInfoNext, a', hk.1, d, hr]

theorem ft_ne_nil (kr : Bytes × Option Bytes) (h : RawOk kr) : ft kr ≠ [] := by
  obtain ⟨k, raw⟩ := kr
  cases raw with
  | none => exact h.1.1
  | some tv => simp [ft, fieldText]

theorem lazyInfoFields_join (rs : List (Bytes × Option Bytes)) (h : ∀ kr ∈ rs, RawOk kr) :
    ∀ fuel, rs.length < fuel → lazyInfoFields fuel (if rs = [] then [] else join 59 (rs.map ft)) = some rs := by
  induction rs with
  | nil =>
    intro fuel hf
    cases fuel with
    | zero => omega
    | succ f => simp [lazyInfoFields]
  | cons kr r ih =>
    intro fuel hf
    cases fuel with
    | zero => omega
    | succ f =>
      have hkr := h kr (by simp)
      have ihr := ih (fun x hx => h x (List.mem_cons_of_mem _ hx)) f (by simp at hf; omega)
      cases r with
      | nil =>
        have hne := ft_ne_nil kr hkr
        simp only [List.map_cons, List.map_nil, join, if_neg (List.cons_ne_nil _ _)]
        unfold lazyInfoFields
        simp only [hne, if_false, lazyInfoNext_last kr hkr]
        simp only [if_true] at ihr
        simp [ihr]
      | cons kr2 r2 =>
        have hne2 : join 59 ((kr2 :: r2).map ft) ≠ [] :=
          join_ne_nil 59 _ (by simp) (by
            intro x hx
            obtain ⟨y, hy, rfl⟩ := List.mem_map.mp hx
            exact ft_ne_nil y (h y (List.mem_cons_of_mem _ hy)))
        simp only [if_neg (List.cons_ne_nil _ _)] at ihr ⊢
        simp only [List.map_cons, join] at hne2 ihr ⊢
        unfold lazyInfoFields
        have hne : ft kr ++ 59 :: join 59 (ft kr2 :: List.map ft r2) ≠ [] := by simp
        simp only [hne, if_false, lazyInfoNext_more kr hkr _ hne2, ihr]
        rfl

/-! `IndexMap::from_iter` on distinct keys is the list itself -/

theorem insertKV_new (kv : Bytes × Option Val) (acc : List (Bytes × Option Val))
    (h : kv.1 ∉ acc.map (·.1)) : insertKV kv acc = acc ++ [kv] := by
  induction acc with
  | nil => rfl
  | cons a r ih =>
    obtain ⟨k, v⟩ := a
    have hk : k ≠ kv.1 := fun e => h (by simp [e])
    simp only [insertKV, hk, if_false]
    rw [ih (fun e => h (by simp at e ⊢; exact Or.inr e))]
    rfl

theorem foldl_insertKV (l : List (Bytes × Option Val)) :
    ∀ acc : List (Bytes × Option Val), ((acc ++ l).map (·.1)).Nodup →
      l.foldl (fun acc kv => insertKV kv acc) acc = acc ++ l := by
  induction l with
  | nil => intro acc _; simp
  | cons kv r ih =>
    intro acc hn
    have hkv : kv.1 ∉ acc.map (·.1) := by
      simp only [List.map_append, List.map_cons] at hn
      have := (List.nodup_append.mp hn).2.2
      intro hm
      exact this _ hm _ (by simp) rfl
    simp only [List.foldl_cons, insertKV_new kv acc hkv]
    rw [ih (acc ++ [kv]) (by simpa using hn)]
    simp

theorem lazyInfo_ok {F : FloatFmt} {h : Hdr} {info : List (Bytes × Option Val)}
    {rs : List (Bytes × Option Bytes)} (hr : All2 (FieldRel F h) info rs)
    (hdup : hasDup (info.map (·.1)) = false) :
    lazyInfo F h (unDot (infoText rs)) = some info := by
  have hraw : ∀ kr ∈ rs, RawOk kr := by
    intro kr hkr
    obtain ⟨kv, _, rel⟩ := hr.of_mem_right hkr
    exact ⟨rel.2.1, fun tv e => (rel.2.2.2.2.2 tv e).2⟩
  have htext : unDot (infoText rs) = (if rs = [] then [] else join 59 (rs.map ft)) := by
    unfold infoText unDot
    by_cases e : rs = []
    · simp [e]
    · have hi : info ≠ [] := by
        intro e2; subst e2
        cases hr with
        | nil => exact e rfl
      have := (info_column hr hi hdup).2.1
      simp [e, this]
  have hfields := lazyInfoFields_join rs hraw ((unDot (infoText rs)).length + 1) (by
    rw [htext]
    by_cases e : rs = []
    · simp [e]
    · simp only [e, if_false]
      -- every field contributes at least one byte
      have : ∀ (l : List (Bytes × Option Bytes)), (∀ kr ∈ l, RawOk kr) → l.length ≤ (join 59 (l.map ft)).length := by
        intro l
        induction l with
        | nil => simp [join]
        | cons a t ih =>
          intro hl
          have ha := ft_ne_nil a (hl a (by simp))
          have := ih (fun x hx => hl x (List.mem_cons_of_mem _ hx))
          cases t with
          | nil =>
            simp only [List.map_cons, List.map_nil, join, List.length_cons, List.length_nil]
            cases hh : ft a with
            | nil => exact absurd hh ha
            | cons _ _ => simp
          | cons b u =>
            simp only [List.map_cons, join, List.length_append, List.length_cons] at this ⊢
            omega
      have := this rs hraw
      omega)
  have hvals : mapM' (fun (kv : Bytes × Option Bytes) => (lazyInfoValue F h kv.1 kv.2).map fun v => (kv.1, v)) rs
      = some info := by
    clear hfields htext hraw hdup
    induction hr with
    | nil => rfl
    | cons hd _ ih =>
      obtain ⟨e1, _, _, _, lz, _⟩ := hd
      simp only [mapM']
      rw [lz, ih]
      simp [e1]
  have hfold := foldl_insertKV info [] (by simpa using (hasDup_false_iff_nodup _).mp hdup)
  unfold lazyInfo
  rw [← htext] at hfields
  rw [hfields]
  simp only [hvals, Option.map_some, hfold, List.nil_append]

/-! ### samples, lazily -/

theorem cutColon_eq (k t : Bytes) (h : (58 : UInt8) ∉ k) :
    cutColon (k ++ 58 :: t) = (k, t) ∧ cutColon k = (k, []) := by
  induction k with
  | nil => simp [cutColon]
  | cons b r ih =>
    have hb : b ≠ 58 := fun e => h (by simp [e])
    obtain ⟨a, c⟩ := ih (fun e => h (List.mem_cons_of_mem _ e))
    simp [cutColon, hb, a, c]

theorem lazyKeys_join (keys : List Bytes) (h : ∀ k ∈ keys, k ≠ [] ∧ (58 : UInt8) ∉ k) :
    ∀ fuel, keys.length < fuel → lazyKeys fuel (if keys = [] then [] else join 58 keys) = keys := by
  induction keys with
  | nil => intro fuel hf; cases fuel <;> simp [lazyKeys]
  | cons k r ih =>
    intro fuel hf
    cases fuel with
    | zero => omega
    | succ f =>
      have hk := h k (by simp)
      have ihr := ih (fun x hx => h x (List.mem_cons_of_mem _ hx)) f (by simp at hf; omega)
      cases r with
      | nil =>
        simp only [if_neg (List.cons_ne_nil _ _), join]
        unfold lazyKeys
        simp only [hk.1, if_false, (cutColon_eq k [] hk.2).2]
        simp only [if_true] at ihr
        simp [ihr]
      | cons k2 r2 =>
        simp only [if_neg (List.cons_ne_nil _ _)] at ihr ⊢
        simp only [join]
        unfold lazyKeys
        have hne : k ++ 58 :: join 58 (k2 :: r2) ≠ [] := by simp
        simp only [hne, if_false, (cutColon_eq k _ hk.2).1, ihr]

theorem lazySampleTexts_cols (ts : List Bytes) (h : ∀ t ∈ ts, t ≠ [] ∧ TAB ∉ t) :
    ∀ fuel, ts.length < fuel →
      lazySampleTexts fuel (colsText ts).tail = ts.map fun t => if t = DOT then [] else t := by
  induction ts with
  | nil => intro fuel hf; cases fuel <;> simp [lazySampleTexts, colsText]
  | cons t r ih =>
    intro fuel hf
    cases fuel with
    | zero => omega
    | succ f =>
      have ht := h t (by simp)
      have ihr := ih (fun x hx => h x (List.mem_cons_of_mem _ hx)) f (by simp at hf; omega)
      have hne : t ++ colsText r ≠ [] := by
        intro e; exact ht.1 (List.append_eq_nil_iff.mp e).1
      unfold lazySampleTexts
      simp only [colsText, List.cons_append, List.tail_cons, hne, if_false,
        colsText_tail_nextField t ht.2 r, ihr, List.map_cons]

theorem colsText_length (ts : List Bytes) (h : ∀ t ∈ ts, t ≠ []) : 2 * ts.length ≤ (colsText ts).length := by
  induction ts with
  | nil => simp [colsText]
  | cons t r ih =>
    have := ih (fun x hx => h x (List.mem_cons_of_mem _ hx))
    have ht := h t (by simp)
    cases hh : t with
    | nil => exact absurd hh ht
    | cons a b => simp [colsText]; omega

theorem lazySamples_ok {F : FloatFmt} {h : Hdr} {keys : List Bytes} {samples : List (List (Option Val))}
    {ts : List Bytes} (hr : All2 (SampleRel F h keys) samples ts) :
    mapM' (lazySample F h keys) (ts.map fun t => if t = DOT then [] else t) =
      some (samples.map (normSample h)) := by
  induction hr with
  | nil => rfl
  | cons hd _ ih =>
    obtain ⟨_, _, _, _, lz, _⟩ := hd
    simp only [List.map_cons, mapM']
    rw [lz, ih]
    rfl

/-! ### the lazy record on the written line -/

theorem lazyRead_line (c p i r a q f n s : Bytes) (hc : TAB ∉ c) (hp : TAB ∉ p) (hi : TAB ∉ i)
    (hr : TAB ∉ r) (ha : TAB ∉ a) (hq : TAB ∉ q) (hf : TAB ∉ f) (hn : TAB ∉ n)
    (hs : s = [] ∨ ∃ t, s = TAB :: t) :
    lazyRead (lineOf c p i r a q f n s) = some ⟨c, p, i, r, a, q, f, n, s.tail⟩ := by
  unfold lazyRead lineOf
  simp only [takeField_append _ _ hc, takeField_append _ _ hp, takeField_append _ _ hi,
    takeField_append _ _ hr, takeField_append _ _ ha, takeField_append _ _ hq,
    takeField_append _ _ hf]
  rcases hs with rfl | ⟨t, rfl⟩
  · simp [takeField_last n hn]
  · simp [takeField_append n t hn]

/-- the lazy record of the written line converts to the normal form of the record -/
theorem lazy_written (F : FloatFmt) (canon : Nat → Prop) (hF : F.Lawful canon) (h : Hdr) (r : Rec)
    (w : WF canon h r) (rs : List (Bytes × Option Bytes)) (ts : List Bytes) (W : Written F h r rs ts) :
    lazyParse F h (lineOf r.chrom (writePos r.pos) (listText 59 r.ids) r.ref
      (listText 44 r.alts) (writeQual F r.qual) (listText 59 r.filters) (infoText rs)
      (samplesText r.keys ts)) = some (normRec h r) := by
  obtain ⟨_, hi9, _⟩ := ids_column r.ids w.ids.1 w.ids.2
  obtain ⟨_, hf9, _⟩ := filters_column r.filters w.filters.1 w.filters.2
  obtain ⟨_, ha9, _⟩ := alts_column r.alts w.alts
  obtain ⟨_, hn9, _⟩ := info_column' W.wf_info w.info.2
  obtain ⟨_, hr9⟩ := ref_ok r.ref w.ref
  obtain ⟨_, hp9⟩ := parsePos_ok r.pos w.pos
  obtain ⟨hq9, _⟩ := qual_column F canon hF r.qual w.qual
  have hc9 := chrom_ok r.chrom w.chrom
  obtain ⟨_, hlen, _⟩ := samples_cols W.wf_samples
  have hst : samplesText r.keys ts = [] ∨ ∃ t, samplesText r.keys ts = TAB :: t := by
    unfold samplesText; split
    · left; rfl
    · right; exact ⟨_, rfl⟩
  have hids : dedup [] (lazyList 59 (unDot (listText 59 r.ids))) = r.ids := by
    rw [lazyList_listText 59 (by decide) (by decide) r.ids
      (fun x hx => ⟨(w.ids.1 x hx).2.2.1, (w.ids.1 x hx).2.2.2, (w.ids.1 x hx).free.1, (w.ids.1 x hx).free.2⟩)]
    exact dedup_nodup _ w.ids.2
  have hfil : dedup [] (lazyList 59 (unDot (listText 59 r.filters))) = r.filters := by
    rw [lazyList_listText 59 (by decide) (by decide) r.filters
      (fun x hx => ⟨(w.filters.1 x hx).2.2.1, (w.filters.1 x hx).2.2.2, (w.filters.1 x hx).free.1,
        (w.filters.1 x hx).free.2⟩)]
    exact dedup_nodup _ w.filters.2
  have halt : lazyList 44 (unDot (listText 44 r.alts)) = r.alts :=
    lazyList_listText 44 (by decide) (by decide) r.alts
      (fun x hx => ⟨(w.alts x hx).2.2.1, (w.alts x hx).2.2.2, (w.alts x hx).free.1, (w.alts x hx).free.2⟩)
  have hqual : lazyQual F (writeQual F r.qual) = some r.qual := by
    unfold lazyQual
    cases hq : r.qual with
    | none => simp [writeQual]
    | some b =>
      have hb := w.qual b hq
      simp [writeQual, hF.ne_dot b hb, hF.roundtrip b hb]
  have hinfo := lazyInfo_ok W.wf_info w.info.2
  have hpos := lazyPos_ok r.pos w.pos
  -- samples
  have hsam : ∃ keys' samples',
      (let st := lazySamplesText (samplesText r.keys ts).tail
       let kt := splitOnceTab st
       (dedup [] (lazyKeys (kt.1.length + 1) kt.1) = keys' ∧
        mapM' (lazySample F h (lazyKeys (kt.1.length + 1) kt.1)) (lazySampleTexts (kt.2.length + 1) kt.2) = some samples')) ∧
      keys' = r.keys ∧ samples' = r.samples.map (normSample h) := by
    by_cases hs : r.samples = []
    · have hts : ts = [] := by
        cases ts with
        | nil => rfl
        | cons a b => rw [hs] at hlen; simp at hlen
      have hk := w.keys
      simp only [hs, if_true] at hk
      refine ⟨[], [], ?_, hk.symm, by simp [hs]⟩
      simp [hts, samplesText, lazySamplesText, splitOnceTab, takeField, lazyKeys, lazySampleTexts, dedup, mapM']
    · have hk := w.keys
      simp only [hs, if_false] at hk
      obtain ⟨_, hkne, hkdot, hk9, _, _⟩ := keys_spec r.keys hk.1 hk.2
      have htsne : ts ≠ [] := by
        intro e; subst e; simp at hlen
        exact hs (List.length_eq_zero_iff.mp hlen.symm)
      have htsok : ∀ t ∈ ts, t ≠ [] ∧ TAB ∉ t := by
        intro t ht
        obtain ⟨v, _, rel⟩ := W.wf_samples.of_mem_right ht
        exact ⟨rel.2.1, rel.2.2.1⟩
      obtain ⟨t1, tr, ets⟩ : ∃ t1 tr, ts = t1 :: tr := by
        cases ts with
        | nil => exact absurd rfl htsne
        | cons a b => exact ⟨a, b, rfl⟩
      have hrest : (samplesText r.keys ts).tail = join 58 r.keys ++ colsText ts := by
        simp [samplesText, htsne]
      have hnf : nextField (join 58 r.keys ++ colsText ts) = (join 58 r.keys, (colsText ts).tail) :=
        colsText_tail_nextField _ hk9 ts
      have hlst : lazySamplesText (join 58 r.keys ++ colsText ts) = join 58 r.keys ++ colsText ts := by
        unfold lazySamplesText
        have : join 58 r.keys ++ colsText ts ≠ [] := by
          intro e; exact hkne (List.append_eq_nil_iff.mp e).1
        simp [this, hnf, hkdot]
      have hsplit : splitOnceTab (join 58 r.keys ++ colsText ts) = (join 58 r.keys, (colsText ts).tail) := by
        unfold splitOnceTab
        rw [ets]
        simp only [colsText, List.cons_append, List.tail_cons]
        rw [takeField_append _ _ hk9]
      have hkeys : lazyKeys ((join 58 r.keys).length + 1) (join 58 r.keys) = r.keys := by
        have := lazyKeys_join r.keys (fun k hk' => by
            have := validKey_keyLike k (hk.2.1 k hk')
            exact ⟨this.1, this.free.2.2.2⟩) ((join 58 r.keys).length + 1) (by
          -- at least one byte per key
          have : ∀ l : List Bytes, (∀ k ∈ l, k ≠ []) → l.length ≤ (join 58 l).length := by
            intro l
            induction l with
            | nil => simp [join]
            | cons a t ih =>
              intro hl
              have ha := hl a (by simp)
              have := ih (fun x hx => hl x (List.mem_cons_of_mem _ hx))
              cases t with
              | nil =>
                simp only [join, List.length_cons, List.length_nil]
                cases hh : a with
                | nil => exact absurd hh ha
                | cons _ _ => simp
              | cons b u =>
                simp only [join, List.length_append, List.length_cons] at this ⊢
                omega
          have := this r.keys (fun k hk' => (validKey_keyLike k (hk.2.1 k hk')).1)
          omega)
        simpa [hk.1] using this
      have htexts := lazySampleTexts_cols ts htsok ((colsText ts).tail.length + 1) (by
        have := colsText_length ts (fun t ht => (htsok t ht).1)
        have h2 : (colsText ts).tail.length = (colsText ts).length - 1 := by simp
        have h3 : 1 ≤ ts.length := by rw [ets]; simp
        omega)
      refine ⟨r.keys, r.samples.map (normSample h), ?_, rfl, rfl⟩
      simp only [hrest, hlst, hsplit, hkeys, htexts]
      exact ⟨dedup_nodup _ hk.2.2.2, lazySamples_ok W.wf_samples⟩
  obtain ⟨keys', samples', hks, ek, es⟩ := hsam
  subst ek es
  simp only at hks
  unfold lazyParse
  rw [lazyRead_line _ _ _ _ _ _ _ _ _ hc9 hp9 hi9 hr9 ha9 hq9 hf9 hn9 hst]
  simp only [Option.bind, lazyToRec, hpos, hids, hfil, halt, hqual, hinfo, bind, normRec]
  rw [hks.2]
  simp [hks.1, Option.bind]

end Noodles.Vcf
