import Noodles.Basic.Text
import Noodles.Basic.Pct
/-!
# VCF record text model (C09)

Hand transcription of the record paths of `noodles-vcf`:

* writer  `io/writer/record.rs` and `io/writer/record/**` (`write_record`, the per-field validators,
  percent-encoding of String / Character values, genotype rendering before / from VCF 4.4);
* eager reader `io/reader/record_buf.rs` and `io/reader/record_buf/**` (`parse_record_buf`,
  header-directed typing of INFO / FORMAT values, `genotype/parser.rs`);
* lazy record `record.rs`, `record/**`, `io/reader/record.rs` and its conversion
  `variant/record_buf/convert.rs` (`RecordBuf::try_from_variant_record`);
* `variant/record.rs` (`variant_end`).

Text is `List UInt8` (the readers only ever see valid UTF-8: `read_line` into a `String`); a Rust
`char` is modelled by its UTF-8 bytes. Integers are `Int`/`Nat` with the explicit range checks of
`i32::from_str` / `usize::from_str`. `f32` formatting and parsing are a parameter (`FloatFmt`); the
reserved-key tables `definition(file_format, key)` are a parameter (`Hdr.idefs`, `Hdr.fdefs`).

The model describes /repo including the `fix:` commits of the C09 round:
(1) b6be8f2 — a sample without values is written `.` (was: an empty column, F18);
(2) 2ba27cc — the eager reader percent-decodes Character values like the lazy one (was: `%3B`
    rejected with `InvalidCharacter`).
-/
namespace Noodles.Vcf
open Noodles.Text (splitOn join parseNat printNat)

abbrev Bytes := List UInt8

/-! ## header context -/

inductive Ty | integer | float | flag | character | string
  deriving DecidableEq, Repr

inductive Num | count (n : Nat) | a | r | g | la | lr | lg | p | m | unknown
  deriving DecidableEq, Repr

/-- the only thing the value parsers look at: `Count(0)`, `Count(1)`, anything else -/
inductive Shape | zero | one | many
  deriving DecidableEq, Repr

def Num.shape : Num → Shape
  | .count 0 => .zero
  | .count 1 => .one
  | _ => .many

abbrev Defs := List (Bytes × Num × Ty)

def lookup (k : Bytes) : Defs → Option (Num × Ty)
  | [] => none
  | (k', d) :: r => if k' = k then some d else lookup k r

structure Hdr where
  major : Nat
  minor : Nat
  infos : Defs
  formats : Defs
  nsamples : Nat
  /-- `info::definition::definition(file_format, ·)` as a table (parameter) -/
  idefs : Defs
  /-- `format::definition::definition(file_format, ·)` as a table (parameter) -/
  fdefs : Defs

/-- `file_format < FileFormat::new(a, b)` (derived lexicographic order) -/
def Hdr.before (h : Hdr) (a b : Nat) : Bool := h.major < a || (h.major = a && h.minor < b)

/-- `header.infos().get(key) … .or_else(|| definition(file_format, key))` -/
def Hdr.infoDef (h : Hdr) (k : Bytes) : Option (Num × Ty) :=
  match lookup k h.infos with
  | some d => some d
  | none => lookup k h.idefs

/-- `header.formats().get(key) … .or_else(definition) .unwrap_or_default()` = (Count(1), String) -/
def Hdr.formatDef (h : Hdr) (k : Bytes) : Num × Ty :=
  match lookup k h.formats with
  | some d => d
  | none => match lookup k h.fdefs with
    | some d => d
    | none => (.count 1, .string)

/-! ## floats are a parameter -/

/-- `f32` as its bit pattern; `fmt` = `Display for f32`, `prs` = `f32::from_str` -/
structure FloatFmt where
  fmt : Nat → Bytes
  prs : Bytes → Option Nat

/-! ## values -/

structure Allele where
  pos : Option Nat
  phased : Bool
  deriving DecidableEq, Repr

/-- INFO values (`flag`, never `genotype`) and sample values (`genotype`, never `flag`) -/
inductive Val
  | integer (n : Int)
  | float (bits : Nat)
  | flag
  | character (c : Bytes)
  | string (s : Bytes)
  | genotype (g : List Allele)
  | ints (l : List (Option Int))
  | floats (l : List (Option Nat))
  | chars (l : List (Option Bytes))
  | strings (l : List (Option Bytes))
  deriving DecidableEq, Repr

structure Rec where
  chrom : Bytes
  pos : Option Nat
  ids : List Bytes
  ref : Bytes
  alts : List Bytes
  qual : Option Nat
  filters : List Bytes
  info : List (Bytes × Option Val)
  keys : List Bytes
  samples : List (List (Option Val))
  deriving DecidableEq, Repr

inductive Err
  | chrom | position | ids | refBases | altBases | qual | filters | info | samples | lazy
  deriving DecidableEq, Repr

/-! ## UTF-8 (strict, as `str::from_utf8`) -/

def isCont (b : UInt8) : Bool := 0x80 ≤ b.toNat && b.toNat ≤ 0xBF

/-- the characters of a byte string as their UTF-8 byte sequences; `none` = not valid UTF-8 -/
def utf8Chars : Bytes → Option (List Bytes)
  | [] => some []
  | b0 :: rest =>
    let n := b0.toNat
    if n < 0x80 then (utf8Chars rest).map ([b0] :: ·)
    else match rest with
      | [] => none
      | b1 :: r1 =>
        if 0xC2 ≤ n ∧ n ≤ 0xDF then
          if isCont b1 then (utf8Chars r1).map ([b0, b1] :: ·) else none
        else match r1 with
          | [] => none
          | b2 :: r2 =>
            if 0xE0 ≤ n ∧ n ≤ 0xEF then
              if isCont b1 && isCont b2 && (n ≠ 0xE0 || 0xA0 ≤ b1.toNat) && (n ≠ 0xED || b1.toNat ≤ 0x9F)
              then (utf8Chars r2).map ([b0, b1, b2] :: ·) else none
            else match r2 with
              | [] => none
              | b3 :: r3 =>
                if 0xF0 ≤ n ∧ n ≤ 0xF4 then
                  if isCont b1 && isCont b2 && isCont b3 && (n ≠ 0xF0 || 0x90 ≤ b1.toNat) && (n ≠ 0xF4 || b1.toNat ≤ 0x8F)
                  then (utf8Chars r3).map ([b0, b1, b2, b3] :: ·) else none
                else none
termination_by l => l.length
decreasing_by all_goals simp_wf <;> omega

def utf8Valid (s : Bytes) : Bool := (utf8Chars s).isSome

/-- `char::is_whitespace` on the characters of a valid UTF-8 string (Unicode White_Space) -/
def isWsChar (c : Bytes) : Bool :=
  match c with
  | [b] => (9 ≤ b.toNat && b.toNat ≤ 13) || b.toNat = 32
  | [0xC2, b] => b.toNat = 0x85 || b.toNat = 0xA0
  | [0xE1, 0x9A, 0x80] => true
  | [0xE2, 0x80, b] => b.toNat ≤ 0x8A || b.toNat = 0xA8 || b.toNat = 0xA9 || b.toNat = 0xAF
  | [0xE2, 0x81, 0x9F] => true
  | [0xE3, 0x80, 0x80] => true
  | _ => false

def hasWs (s : Bytes) : Bool :=
  match utf8Chars s with
  | some cs => cs.any isWsChar
  | none => false

/-! ## integers -/

def printInt (n : Int) : Bytes :=
  if n < 0 then 45 :: printNat n.natAbs else printNat n.natAbs

/-- `i32::from_str` -/
def parseI32 (s : Bytes) : Option Int :=
  match s with
  | [] => none
  | 43 :: r => (parseNat r).bind fun n => if n ≤ 2147483647 then some (Int.ofNat n) else none
  | 45 :: r => (parseNat r).bind fun n => if n ≤ 2147483648 then some (- Int.ofNat n) else none
  | _ => (parseNat s).bind fun n => if n ≤ 2147483647 then some (Int.ofNat n) else none

def USIZE_MAX : Nat := 18446744073709551615

/-- `usize::from_str` -/
def parseUsize (s : Bytes) : Option Nat :=
  match s with
  | 43 :: r => (parseNat r).bind fun n => if n ≤ USIZE_MAX then some n else none
  | _ => (parseNat s).bind fun n => if n ≤ USIZE_MAX then some n else none

/-! ## percent-encoding of String and Character values
`io/writer/record/info/field/value/string.rs`, `…/samples/sample/value/string.rs` -/

def isCtl (b : UInt8) : Bool := b.toNat < 0x20 || b.toNat = 0x7F

/-- INFO: `CONTROLS ∪ { ; = % , }` and every non-ASCII byte (`utf8_percent_encode`) -/
def escInfo (b : UInt8) : Bool :=
  isCtl b || 0x80 ≤ b.toNat || b = 59 || b = 61 || b = 37 || b = 44

/-- samples: `CONTROLS ∪ { : % , }` and every non-ASCII byte -/
def escSample (b : UInt8) : Bool :=
  isCtl b || 0x80 ≤ b.toNat || b = 58 || b = 37 || b = 44

def DOT : Bytes := [46]

/-- `write_string`: a lone `.` becomes `%2E` -/
def writeString (esc : UInt8 → Bool) (s : Bytes) : Bytes :=
  if s = DOT then [37, 50, 69] else Noodles.Pct.encode esc s

/-- `percent_decode(s).decode_utf8()` -/
def parseString (s : Bytes) : Option Bytes :=
  let d := Noodles.Pct.decode s
  if utf8Valid d then some d else none

/-- the ASCII characters that `write_character` escapes besides the controls:
INFO `; = % , .`, samples `: % , .` -/
def chrInfo (b : UInt8) : Bool := b = 59 || b = 61 || b = 37 || b = 44 || b = 46
def chrSample (b : UInt8) : Bool := b = 58 || b = 37 || b = 44 || b = 46

def pctByte (b : UInt8) : Bytes :=
  [37, Noodles.Pct.hexDigit (b.toNat / 16), Noodles.Pct.hexDigit (b.toNat % 16)]

/-- `write_character` -/
def writeChar (set : UInt8 → Bool) (c : Bytes) : Bytes :=
  match c with
  | [b] => if isCtl b || set b then pctByte b else [b]
  | _ => c

/-- `parse_raw_char` (percent-decode first, as the lazy `record/…/value.rs` does; commit 2ba27cc) -/
def parseChar (s : Bytes) : Option Bytes :=
  let d := Noodles.Pct.decode s
  match utf8Chars d with
  | some [c] => some c
  | _ => none

/-! ## scalar and array values -/

def I32_MIN_VALID : Int := -2147483640   -- `n > i32::MIN + 7`

def writeInt (n : Int) : Option Bytes := if I32_MIN_VALID ≤ n then some (printInt n) else none

def writeOptList {α : Type} (f : α → Option Bytes) : List (Option α) → Option (List Bytes)
  | [] => some []
  | none :: r => (writeOptList f r).map (DOT :: ·)
  | some x :: r => match f x with
    | some t => (writeOptList f r).map (t :: ·)
    | none => none

/-- `write_array`: comma-joined, `.` for a missing entry (an empty array writes nothing) -/
def writeArray {α : Type} (f : α → Option Bytes) (l : List (Option α)) : Option Bytes :=
  (writeOptList f l).map (join 44)

def parseOptList {α : Type} (f : Bytes → Option α) : List Bytes → Option (List (Option α))
  | [] => some []
  | t :: r =>
    if t = DOT then (parseOptList f r).map (none :: ·)
    else match f t with
      | some x => (parseOptList f r).map (some x :: ·)
      | none => none

/-- `s.split(',').map(|t| match t { "." => None, _ => parse(t) })` -/
def parseArray {α : Type} (f : Bytes → Option α) (s : Bytes) : Option (List (Option α)) :=
  parseOptList f (splitOn 44 s)

/-! ## genotypes
writer `samples/sample/value/genotype.rs`; reader `record_buf/samples/sample/value/genotype/parser.rs` -/

def writeAllelePos : Option Nat → Bytes
  | none => DOT
  | some n => printNat n

def phasingByte (p : Bool) : UInt8 := if p then 124 else 47

/-- `vcf_4_4_write_genotype`: every allele is preceded by its phasing -/
def writeGt44 : List Allele → Bytes
  | [] => []
  | a :: r => phasingByte a.phased :: writeAllelePos a.pos ++ writeGt44 r

/-- `vcf_4_0_write_genotype`: the first allele's phasing is not written -/
def writeGt40 : List Allele → Bytes
  | [] => []
  | a :: r => writeAllelePos a.pos ++ writeGt44 r

def writeGenotype (h : Hdr) (g : List Allele) : Bytes :=
  if h.before 4 4 then writeGt40 g else writeGt44 g

def isPhasing (b : UInt8) : Bool := b = 47 || b = 124

/-- bytes up to (not including) the next phasing indicator -/
def spanAllele : Bytes → Bytes × Bytes
  | [] => ([], [])
  | b :: r => if isPhasing b then ([], b :: r) else
    let (t, rest) := spanAllele r
    (b :: t, rest)

/-- `next_allele`: the first byte, then everything up to the next phasing indicator -/
def nextAllele : Bytes → Bytes × Bytes
  | [] => ([], [])
  | b :: r => let (t, rest) := spanAllele r; (b :: t, rest)

/-- `allele::parse_position` -/
def parseAllelePos (s : Bytes) : Option (Option Nat) :=
  if s = DOT then some none else (parseUsize s).map some

/-- `impl FromStr for Allele` on a token produced by `next_allele` -/
def parseAllele (t : Bytes) : Option Allele :=
  match t with
  | [] => none
  | b :: r => if isPhasing b then (parseAllelePos r).map fun p => ⟨p, b = 124⟩ else none

/-- the alleles after the first one -/
def parseAlleles : Nat → Bytes → Option (List Allele)
  | 0, _ => none
  | fuel + 1, s =>
    if s = [] then some [] else
    let (t, rest) := nextAllele s
    match parseAllele t with
    | none => none
    | some a => (parseAlleles fuel rest).map (a :: ·)

/-- `parse_first_allele`: `(position, explicit phasing?)` -/
def parseFirstAllele (t : Bytes) : Option (Option Nat × Option Bool) :=
  match t with
  | [] => none
  | b :: r =>
    if isPhasing b then (parseAllelePos r).map fun p => (p, some (b = 124))
    else (parseAllelePos t).map fun p => (p, none)

/-- the phasing the reader gives to a first allele that has no prefix: unphased iff some later
allele is unphased -/
def impliedFirst (rest : List Allele) : Bool := rest.all (·.phased)

/-- `genotype::parser::parse` -/
def parseGenotype (s : Bytes) : Option (List Allele) :=
  if s = [] then none else
  let (t, rest) := nextAllele s
  match parseFirstAllele t with
  | none => none
  | some (p, ph) =>
    match parseAlleles (rest.length + 1) rest with
    | none => none
    | some as =>
      let first := match ph with
        | some e => e
        | none => impliedFirst as
      some (⟨p, first⟩ :: as)

/-! ## typed values -/

/-- `write_value` (INFO and samples share the scalar / array code; only the escape sets differ) -/
def writeVal (F : FloatFmt) (h : Hdr) (esc set : UInt8 → Bool) : Val → Option Bytes
  | .integer n => writeInt n
  | .float b => some (F.fmt b)
  | .flag => some []
  | .character c => some (writeChar set c)
  | .string s => some (writeString esc s)
  | .genotype g => some (writeGenotype h g)
  | .ints l => writeArray writeInt l
  | .floats l => writeArray (fun b => some (F.fmt b)) l
  | .chars l => writeArray (fun c => some (writeChar set c)) l
  | .strings l => writeArray (fun s => some (writeString esc s)) l

/-- `parse_value(number, ty, s)` of the samples reader (no Flag type there) and, for
`ty ≠ Flag`, of the INFO reader -/
def parseTyped (F : FloatFmt) (sh : Shape) (ty : Ty) (s : Bytes) : Option Val :=
  match sh, ty with
  | .zero, _ => none
  | _, .flag => none
  | .one, .integer => (parseI32 s).map .integer
  | .one, .float => (F.prs s).map .float
  | .one, .character => (parseChar s).map .character
  | .one, .string => (parseString s).map .string
  | .many, .integer => (parseArray parseI32 s).map .ints
  | .many, .float => (parseArray F.prs s).map .floats
  | .many, .character => (parseArray parseChar s).map .chars
  | .many, .string => (parseArray parseString s).map .strings

/-- INFO `parse_value` -/
def parseInfoValue (F : FloatFmt) (num : Num) (ty : Ty) (s : Bytes) : Option Val :=
  match num.shape, ty with
  | .zero, .flag => if s = [] then some .flag else none
  | sh, ty => parseTyped F sh ty s

/-! ## the fixed columns: validators of the writer -/

def validChromChar (b : UInt8) : Bool :=
  0x21 ≤ b.toNat && b.toNat ≤ 0x7E &&
  !(b = 92 || b = 44 || b = 34 || b = 96 || b = 39 || b = 40 || b = 41 || b = 91 || b = 93 ||
    b = 123 || b = 125 || b = 60 || b = 62)

/-- `strip_symbol_delimiters` -/
def stripSymbol (s : Bytes) : Bytes :=
  match s with
  | 60 :: r => if r.getLast? = some 62 then r.dropLast else s
  | _ => s

/-- `reference_sequence_name::is_valid` -/
def validChrom (s : Bytes) : Bool :=
  match stripSymbol s with
  | [] => false
  | b :: r => b ≠ 42 && b ≠ 61 && validChromChar b && r.all validChromChar

/-- IDs and filters: no whitespace, no `;` -/
def validIdLike (s : Bytes) : Bool := !hasWs s && !s.contains 59
/-- ALT alleles: no whitespace, no `,` -/
def validAlt (s : Bytes) : Bool := !hasWs s && !s.contains 44

/-- `resolve_base` -/
def resolveBase (b : UInt8) : Option UInt8 :=
  if b = 65 || b = 87 || b = 77 || b = 82 || b = 68 || b = 72 || b = 86 then some 65
  else if b = 67 || b = 83 || b = 89 || b = 66 then some 67
  else if b = 71 || b = 75 then some 71
  else if b = 84 then some 84
  else if b = 78 then some 78
  else if b = 97 || b = 119 || b = 109 || b = 114 || b = 100 || b = 104 || b = 118 then some 97
  else if b = 99 || b = 115 || b = 121 || b = 98 then some 99
  else if b = 103 || b = 107 then some 103
  else if b = 116 then some 116
  else if b = 110 then some 110
  else none

def isAlpha (b : UInt8) : Bool := (65 ≤ b.toNat && b.toNat ≤ 90) || (97 ≤ b.toNat && b.toNat ≤ 122)
def isDigit (b : UInt8) : Bool := 48 ≤ b.toNat && b.toNat ≤ 57
def keyChar (b : UInt8) : Bool := isAlpha b || isDigit b || b = 95 || b = 46

/-- FORMAT keys `[A-Za-z_][0-9A-Za-z_.]*` -/
def validKey (s : Bytes) : Bool :=
  match s with
  | [] => false
  | b :: r => (isAlpha b || b = 95) && r.all keyChar

def KEY_1000G : Bytes := [49, 48, 48, 48, 71]
/-- INFO keys: the same, or `1000G` -/
def validInfoKey (s : Bytes) : Bool := validKey s || s = KEY_1000G

def GT : Bytes := [71, 84]
def PASS : Bytes := [80, 65, 83, 83]
def TAB : UInt8 := 9

/-! ## writer -/

def mapM' {α β : Type} (f : α → Option β) : List α → Option (List β)
  | [] => some []
  | x :: r => match f x with
    | some y => (mapM' f r).map (y :: ·)
    | none => none

/-- `.` when empty, else the validated entries joined by `d` (`write_ids`, `write_filters`,
`write_alternate_bases`) -/
def writeList (valid : Bytes → Bool) (d : UInt8) (l : List Bytes) : Option Bytes :=
  if l = [] then some DOT
  else (mapM' (fun x => if valid x then some x else none) l).map (join d)

def writeInfoField (F : FloatFmt) (h : Hdr) (kv : Bytes × Option Val) : Option Bytes :=
  if !validInfoKey kv.1 then none else
  match kv.2 with
  | some .flag => some kv.1
  | some v => (writeVal F h escInfo chrInfo v).map fun t => kv.1 ++ 61 :: t
  | none => some (kv.1 ++ 61 :: DOT)

def writeInfo (F : FloatFmt) (h : Hdr) (info : List (Bytes × Option Val)) : Option Bytes :=
  if info = [] then some DOT else (mapM' (writeInfoField F h) info).map (join 59)

/-- `write_keys`: `GT` only in first position -/
def writeKeysAux : Bool → List Bytes → Option (List Bytes)
  | _, [] => some []
  | first, k :: r =>
    if !first && k = GT then none
    else if !validKey k then none
    else (writeKeysAux false r).map (k :: ·)

def writeKeys (keys : List Bytes) : Option Bytes := (writeKeysAux true keys).map (join 58)

def writeSampleValue (F : FloatFmt) (h : Hdr) : Option Val → Option Bytes
  | none => some DOT
  | some v => writeVal F h escSample chrSample v

/-- `write_sample` over `keys.zip(values)` (no values → `.`, commit b6be8f2) -/
def writeSample (F : FloatFmt) (h : Hdr) (keys : List Bytes) (vals : List (Option Val)) : Option Bytes :=
  let vs := (keys.zip vals).map (·.2)
  if vs = [] then some DOT
  else (mapM' (writeSampleValue F h) vs).map (join 58)

def writeSamples (F : FloatFmt) (h : Hdr) (keys : List Bytes) : List (List (Option Val)) → Option Bytes
  | [] => some []
  | s :: r => match writeSample F h keys s with
    | some t => (writeSamples F h keys r).map fun rest => TAB :: t ++ rest
    | none => none

def writePos : Option Nat → Bytes
  | none => [48]
  | some n => printNat n

def writeQual (F : FloatFmt) : Option Nat → Bytes
  | none => DOT
  | some b => F.fmt b

def orErr {α : Type} (e : Err) : Option α → Except Err α
  | some x => .ok x
  | none => .error e

/-- `write_record` (without the final line feed) -/
def writeRecord (F : FloatFmt) (h : Hdr) (r : Rec) : Except Err Bytes := do
  let chrom ← if validChrom r.chrom then .ok r.chrom else .error Err.chrom
  let ids ← orErr .ids (writeList validIdLike 59 r.ids)
  let ref ← orErr .refBases (mapM' resolveBase r.ref)
  let alts ← orErr .altBases (writeList validAlt 44 r.alts)
  let filters ← orErr .filters (writeList validIdLike 59 r.filters)
  let info ← orErr .info (writeInfo F h r.info)
  let fixed := chrom ++ TAB :: writePos r.pos ++ TAB :: ids ++ TAB :: ref ++ TAB :: alts ++ TAB ::
    writeQual F r.qual ++ TAB :: filters ++ TAB :: info
  if r.samples = [] ∨ r.keys = [] then .ok fixed
  else do
    let keys ← orErr .samples (writeKeys r.keys)
    let ss ← orErr .samples (writeSamples F h r.keys r.samples)
    .ok (fixed ++ TAB :: keys ++ ss)

/-! ## eager reader -/

/-- `next_field`: `split_once('\t')`, or everything -/
def nextField : Bytes → Bytes × Bytes
  | [] => ([], [])
  | b :: r => if b = TAB then ([], r) else
    let (f, rest) := nextField r
    (b :: f, rest)

/-- `parse_position` -/
def parsePos (s : Bytes) : Option (Option Nat) :=
  if s = [] then none
  else if s = [48] then some none
  else match parseUsize s with
    | some 0 => none
    | some n => some (some n)
    | none => none

def hasDup : List Bytes → Bool
  | [] => false
  | x :: r => r.contains x || hasDup r

/-- `parse_ids` (field is not `.`) -/
def parseIds (s : Bytes) : Option (List Bytes) :=
  if s = [] then none else
  let l := splitOn 59 s
  if l.any (· = []) || hasDup l then none else some l

/-- `parse_alternate_bases` (field is not `.`) -/
def parseAlts (s : Bytes) : Option (List Bytes) :=
  if s = [] then none else some (splitOn 44 s)

/-- `parse_filters` (field is not `.`) -/
def parseFilters (s : Bytes) : Option (List Bytes) :=
  if s = [] then none
  else if s = PASS then some [PASS]
  else
    let l := splitOn 59 s
    if hasDup l then none else some l

/-- `splitn(2, '=')` -/
def splitEq : Bytes → Bytes × Option Bytes
  | [] => ([], none)
  | b :: r => if b = 61 then ([], some r) else
    let (k, v) := splitEq r
    (b :: k, v)

/-- `info::field::parse_field` after the `splitn(2, '=')`: the value for `key` given the raw text
after the `=` (if any); outer `none` = error -/
def infoFieldValue (F : FloatFmt) (h : Hdr) (key : Bytes) (raw : Option Bytes) : Option (Option Val) :=
  match h.infoDef key with
  | some (num, ty) =>
    if ty = .flag then
      let t := raw.getD []
      if t = DOT then some none else (parseInfoValue F num ty t).map some
    else match raw with
      | some t => if t = DOT then some none else (parseInfoValue F num ty t).map some
      | none => none
  | none =>
    match raw with
    | some t => if t = DOT then some none else (parseInfoValue F (.count 1) .string t).map some
    | none => some (some .flag)

/-- `info::field::parse_field` -/
def parseInfoField (F : FloatFmt) (h : Hdr) (s : Bytes) : Option (Bytes × Option Val) :=
  let (key, raw) := splitEq s
  (infoFieldValue F h key raw).map fun v => (key, v)

/-- `parse_info` (field is not `.`): duplicate keys are an error -/
def parseInfo (F : FloatFmt) (h : Hdr) (s : Bytes) : Option (List (Bytes × Option Val)) :=
  if s = [] then none else
  match mapM' (parseInfoField F h) (splitOn 59 s) with
  | some l => if hasDup (l.map (·.1)) then none else some l
  | none => none

/-- `parse_keys` -/
def parseKeys (s : Bytes) : Option (List Bytes) :=
  if s = [] then none
  else if s = DOT then some []
  else
    let l := splitOn 58 s
    if hasDup l then none else some l

/-- one raw value of a sample -/
def parseSampleValue (F : FloatFmt) (h : Hdr) (key raw : Bytes) : Option (Option Val) :=
  if raw = DOT then some none
  else if key = GT then (parseGenotype raw).map fun g => some (.genotype g)
  else
    let d := h.formatDef key
    (parseTyped F d.1.shape d.2 raw).map some

def parseZip (F : FloatFmt) (h : Hdr) : List Bytes → List Bytes → Option (List (Option Val))
  | k :: ks, v :: vs => match parseSampleValue F h k v with
    | some x => (parseZip F h ks vs).map (x :: ·)
    | none => none
  | _, _ => some []

/-- `parse_values`: more values than keys is an error, fewer is not -/
def parseValues (F : FloatFmt) (h : Hdr) (keys : List Bytes) (s : Bytes) : Option (List (Option Val)) :=
  if s = [] then none
  else if s = DOT then some []
  else
    let raws := splitOn 58 s
    match parseZip F h keys raws with
    | some vs => if keys.length < raws.length then none else some vs
    | none => none

def parseSampleCols (F : FloatFmt) (h : Hdr) (keys : List Bytes) : Nat → Bytes → Option (List (List (Option Val)))
  | 0, _ => some []
  | n + 1, s =>
    let (f, rest) := nextField s
    match parseValues F h keys f with
    | some v => (parseSampleCols F h keys n rest).map (v :: ·)
    | none => none

/-- `parse_samples` -/
def parseSamples (F : FloatFmt) (h : Hdr) (s : Bytes) : Option (List Bytes × List (List (Option Val))) :=
  if h.nsamples = 0 then (if s = [] then some ([], []) else none)
  else
    let (f, rest) := nextField s
    match parseKeys f with
    | some keys => (parseSampleCols F h keys h.nsamples rest).map fun vs => (keys, vs)
    | none => none

/-- the per-column steps of `parse_record_buf` (`.` is the missing column) -/
def idsCol (f : Bytes) : Except Err (List Bytes) := if f = DOT then .ok [] else orErr .ids (parseIds f)
def refCol (f : Bytes) : Except Err Bytes := if f = [] then .error Err.refBases else .ok f
def altsCol (f : Bytes) : Except Err (List Bytes) := if f = DOT then .ok [] else orErr .altBases (parseAlts f)
def qualCol (F : FloatFmt) (f : Bytes) : Except Err (Option Nat) :=
  if f = DOT then .ok none else
  if f = [] then .error Err.qual else orErr .qual ((F.prs f).map some)
def filtersCol (f : Bytes) : Except Err (List Bytes) :=
  if f = DOT then .ok [] else orErr .filters (parseFilters f)
def infoCol (F : FloatFmt) (h : Hdr) (f : Bytes) : Except Err (List (Bytes × Option Val)) :=
  if f = DOT then .ok [] else orErr .info (parseInfo F h f)

/-- `parse_record_buf` -/
def parseRecord (F : FloatFmt) (h : Hdr) (line : Bytes) : Except Err Rec := do
  let (chrom, s) := nextField line
  let (f, s) := nextField s
  let pos ← orErr .position (parsePos f)
  let (f, s) := nextField s
  let ids ← idsCol f
  let (f, s) := nextField s
  let ref ← refCol f
  let (f, s) := nextField s
  let alts ← altsCol f
  let (f, s) := nextField s
  let qual ← qualCol F f
  let (f, s) := nextField s
  let filters ← filtersCol f
  let (f, s) := nextField s
  let info ← infoCol F h f
  let (keys, samples) ← orErr .samples (parseSamples F h s)
  .ok ⟨chrom, pos, ids, ref, alts, qual, filters, info, keys, samples⟩

/-- `read_line`: a trailing CR (before the LF) is dropped -/
def stripCr (line : Bytes) : Bytes := if line.getLast? = some 13 then line.dropLast else line

end Noodles.Vcf
