import Noodles.Vcf.Model
/-!
# The lazy VCF record (`vcf::Record`) and `variant_end` (C09)

Transcribes `io/reader/record.rs` (`read_record`: eight field bounds on one buffer),
`record/fields.rs` (the `.` → empty rule per column), `record/{ids,alternate_bases,filters,info,
samples}.rs`, `record/info/field.rs` (`next`, `parse_value`), `record/samples/**`
(`Keys::iter`, `Samples::iter`, `Sample::iter`, `series/value.rs`, the lazy `Genotype`), the lazy
array readers `variant/record/{info/field,samples/series}/value/array/values.rs`, the conversion
`variant/record_buf/convert.rs` and `variant/record.rs::variant_end` for both views.
-/
namespace Noodles.Vcf
open Noodles.Text (splitOn join parseNat printNat)

/-! ## `read_record` -/

/-- `read_field`: the bytes before the next tab and the rest, `none` when the line ends first -/
def takeField : Bytes → Bytes × Option Bytes
  | [] => ([], none)
  | b :: r => if b = TAB then ([], some r) else
    let (f, rest) := takeField r
    (b :: f, rest)

structure LazyRec where
  chrom : Bytes
  pos : Bytes
  ids : Bytes
  ref : Bytes
  alts : Bytes
  qual : Bytes
  filters : Bytes
  info : Bytes
  /-- everything after the INFO column's tab -/
  rest : Bytes

/-- `read_record`: seven fields that must be followed by a tab (`unexpected EOL` otherwise), the
eighth ends at a tab or at the end of the line -/
def lazyRead (line : Bytes) : Option LazyRec :=
  match takeField line with
  | (f0, some s) => match takeField s with
    | (f1, some s) => match takeField s with
      | (f2, some s) => match takeField s with
        | (f3, some s) => match takeField s with
          | (f4, some s) => match takeField s with
            | (f5, some s) => match takeField s with
              | (f6, some s) => match takeField s with
                | (f7, some s) => some ⟨f0, f1, f2, f3, f4, f5, f6, f7, s⟩
                | (f7, none) => some ⟨f0, f1, f2, f3, f4, f5, f6, f7, []⟩
              | _ => none
            | _ => none
          | _ => none
        | _ => none
      | _ => none
    | _ => none
  | _ => none

/-- `Fields::{ids, alternate_bases, filters, info}`: `.` is the empty string -/
def unDot (s : Bytes) : Bytes := if s = DOT then [] else s

/-- `Fields::samples`: empty when FORMAT is `.` -/
def lazySamplesText (rest : Bytes) : Bytes :=
  if rest = [] || (nextField rest).1 = DOT then [] else rest

/-! ## accessors -/

/-- `IndexSet::from_iter`: first occurrences, in order -/
def dedup : List Bytes → List Bytes → List Bytes
  | _, [] => []
  | seen, x :: r => if seen.contains x then dedup seen r else x :: dedup (x :: seen) r

/-- `Fields::variant_start` -/
def lazyPos (s : Bytes) : Option (Option Nat) :=
  if s = [48] then some none
  else match parseUsize s with
    | some 0 => none
    | some n => some (some n)
    | none => none

/-- split when non-empty (`Ids::iter`, `AlternateBases::iter`, `filters::iter`) -/
def lazyList (d : UInt8) (s : Bytes) : List Bytes := if s = [] then [] else splitOn d s

/-- `read_key`: up to the first `=` or `;` -/
def readKey : Bytes → Bytes × Option (UInt8 × Bytes)
  | [] => ([], none)
  | b :: r => if b = 61 || b = 59 then ([], some (b, r)) else
    let (k, m) := readKey r
    (b :: k, m)

/-- `read_value`: up to the next `;` -/
def readValue : Bytes → Bytes × Option Bytes
  | [] => ([], none)
  | b :: r => if b = 59 then ([], some r) else
    let (v, m) := readValue r
    (b :: v, m)

/-- `record/info/field.rs::next` on a non-empty source: the raw `(key, value?)` pair and the rest;
`none` on a structural error (a `;` at the very end, an empty key) -/
def lazyInfoNext (src : Bytes) : Option ((Bytes × Option Bytes) × Bytes) :=
  match readKey src with
  | (key, none) => if key = [] then none else some ((key, none), [])
  | (key, some (m, rest)) =>
    if rest = [] && m = 59 then none
    else if key = [] then none
    else if m = 59 then some ((key, none), rest)
    else
      match readValue rest with
      | (v, none) => some ((key, some v), [])
      | (v, some rest') => if rest' = [] then none else some ((key, some v), rest')

/-- all raw fields (`Info::iter`) -/
def lazyInfoFields : Nat → Bytes → Option (List (Bytes × Option Bytes))
  | 0, _ => none
  | fuel + 1, src =>
    if src = [] then some [] else
    match lazyInfoNext src with
    | none => none
    | some (kv, rest) => (lazyInfoFields fuel rest).map (kv :: ·)

/-- `Info::get`: stops at the first field with that key (later fields are not looked at) -/
def lazyInfoFind (k : Bytes) : Nat → Bytes → Option (Option (Bytes × Option Bytes))
  | 0, _ => none
  | fuel + 1, src =>
    if src = [] then some none else
    match lazyInfoNext src with
    | none => none
    | some (kv, rest) => if kv.1 = k then some (some kv) else lazyInfoFind k fuel rest

/-- lazy arrays: an empty source has no entries (`Values::iter`) -/
def lazyArray {α : Type} (f : Bytes → Option α) (s : Bytes) : Option (List (Option α)) :=
  if s = [] then some [] else parseArray f s

/-- typed value of the lazy readers (`record/info/field/value.rs`, `record/samples/series/value.rs`)
followed by the conversion to the owned value -/
def lazyTyped (F : FloatFmt) (sh : Shape) (ty : Ty) (s : Bytes) : Option Val :=
  match sh, ty with
  | .zero, _ => none
  | _, .flag => none
  | .one, .integer => (parseI32 s).map .integer
  | .one, .float => (F.prs s).map .float
  | .one, .character => (parseChar s).map .character
  | .one, .string => (parseString s).map .string
  | .many, .integer => (lazyArray parseI32 s).map .ints
  | .many, .float => (lazyArray F.prs s).map .floats
  | .many, .character => (lazyArray parseChar s).map .chars
  | .many, .string => (lazyArray parseString s).map .strings

/-- `record/info/field/value.rs::parse_value` + conversion -/
def lazyInfoTyped (F : FloatFmt) (num : Num) (ty : Ty) (v : Bytes) : Option Val :=
  match num.shape, ty with
  | .zero, .flag => if v = [] then some .flag else none
  | sh, ty => lazyTyped F sh ty v

/-- `record/info/field.rs::parse_value` -/
def lazyInfoValue (F : FloatFmt) (h : Hdr) (key : Bytes) (raw : Option Bytes) : Option (Option Val) :=
  match h.infoDef key, raw with
  | none, none => some (some .flag)
  | d, raw =>
    let (num, ty) := d.getD (.count 1, .string)
    match raw with
    | some v =>
      if v = DOT then some none else (lazyInfoTyped F num ty v).map some
    | none => if ty = .flag then some (some .flag) else none

/-- `IndexMap::from_iter`: a repeated key keeps its first position and takes the last value -/
def insertKV (kv : Bytes × Option Val) : List (Bytes × Option Val) → List (Bytes × Option Val)
  | [] => [kv]
  | (k, v) :: r => if k = kv.1 then (k, kv.2) :: r else (k, v) :: insertKV kv r

def lazyInfo (F : FloatFmt) (h : Hdr) (s : Bytes) : Option (List (Bytes × Option Val)) :=
  match lazyInfoFields (s.length + 1) s with
  | none => none
  | some raws =>
    (mapM' (fun (kv : Bytes × Option Bytes) => (lazyInfoValue F h kv.1 kv.2).map fun v => (kv.1, v)) raws).map
      fun l => l.foldl (fun acc kv => insertKV kv acc) []

def cutColon : Bytes → Bytes × Bytes
  | [] => ([], [])
  | b :: r => if b = 58 then ([], r) else
    let (k, rest) := cutColon r
    (b :: k, rest)

/-- `Keys::iter`: `split_once(':')` until the source is empty (a trailing `:` yields no key) -/
def lazyKeys : Nat → Bytes → List Bytes
  | 0, _ => []
  | fuel + 1, s =>
    if s = [] then [] else
    let (k, rest) := cutColon s
    k :: lazyKeys fuel rest

/-- `split_once('\t').unwrap_or_default()` -/
def splitOnceTab (s : Bytes) : Bytes × Bytes :=
  match takeField s with
  | (f, some r) => (f, r)
  | (_, none) => ([], [])

/-- `Samples::iter`: tab-separated columns until the source is empty; `.` is an empty sample -/
def lazySampleTexts : Nat → Bytes → List Bytes
  | 0, _ => []
  | fuel + 1, s =>
    if s = [] then [] else
    let (f, rest) := nextField s
    (if f = DOT then [] else f) :: lazySampleTexts fuel rest

/-- the lazy `Genotype::iter`, collected -/
def lazyGenotype (s : Bytes) : Option (List Allele) :=
  let (t, rest) := nextAllele s
  let first : Option Allele :=
    match t with
    | b :: r =>
      if isPhasing b then (parseAllelePos r).map fun p => ⟨p, b = 124⟩
      else (parseAllelePos t).map fun p => ⟨p, !(rest.any (· = 47))⟩
    | [] => none
  match first with
  | none => none
  | some a => (parseAlleles (rest.length + 1) rest).map (a :: ·)

/-- `series/value.rs::parse_value` + conversion -/
def lazySampleValue (F : FloatFmt) (h : Hdr) (key raw : Bytes) : Option (Option Val) :=
  if raw = DOT then some none
  else if key = GT then (lazyGenotype raw).map fun g => some (.genotype g)
  else
    let d := h.formatDef key
    (lazyTyped F d.1.shape d.2 raw).map some

def lazyZip (F : FloatFmt) (h : Hdr) : List Bytes → List Bytes → Option (List (Option Val))
  | k :: ks, v :: vs => match lazySampleValue F h k v with
    | some x => (lazyZip F h ks vs).map (x :: ·)
    | none => none
  | _, _ => some []

/-- `Sample::iter`, collected -/
def lazySample (F : FloatFmt) (h : Hdr) (keys : List Bytes) (s : Bytes) : Option (List (Option Val)) :=
  if s = [] then some [] else lazyZip F h keys (splitOn 58 s)

/-- `Record::quality_score` -/
def lazyQual (F : FloatFmt) (q : Bytes) : Option (Option Nat) :=
  if q = DOT then some none else (F.prs q).map some

/-- `RecordBuf::try_from_variant_record` on the lazy record -/
def lazyToRec (F : FloatFmt) (h : Hdr) (z : LazyRec) : Option Rec := do
  let pos ← lazyPos z.pos
  let ids := dedup [] (lazyList 59 (unDot z.ids))
  let alts := lazyList 44 (unDot z.alts)
  let qual ← lazyQual F z.qual
  let filters := dedup [] (lazyList 59 (unDot z.filters))
  let info ← lazyInfo F h (unDot z.info)
  let st := lazySamplesText z.rest
  let (ktext, stext) := splitOnceTab st
  let keys := lazyKeys (ktext.length + 1) ktext
  let samples ← mapM' (lazySample F h keys) (lazySampleTexts (stext.length + 1) stext)
  some ⟨z.chrom, pos, ids, z.ref, alts, qual, filters, info, dedup [] keys, samples⟩

/-- the whole lazy path on a line -/
def lazyParse (F : FloatFmt) (h : Hdr) (line : Bytes) : Option Rec :=
  (lazyRead line).bind (lazyToRec F h)

/-! ## `variant_end` -/

def END : Bytes := [69, 78, 68]
def SVLEN : Bytes := [83, 86, 76, 69, 78]
def LEN : Bytes := [76, 69, 78]

def optMax (a : Option Nat) (b : Nat) : Option Nat :=
  match a with
  | some x => some (max x b)
  | none => some b

/-- `info_max_sv_len` on the values of an integer array; `none` = error (negative entry) -/
def maxNonNeg : List (Option Int) → Option Nat → Option (Option Nat)
  | [], acc => some acc
  | none :: r, acc => maxNonNeg r acc
  | some n :: r, acc => if n < 0 then none else maxNonNeg r (optMax acc n.toNat)

def indexOf? (k : Bytes) : List Bytes → Option Nat
  | [] => none
  | x :: r => if x = k then some 0 else (indexOf? k r).map (· + 1)

/-- the common tail of `variant_end`: the start is looked at last (`none` = it does not parse) -/
def endFrom (start : Option (Option Nat)) (len : Nat) : Option Nat :=
  match start with
  | none => none
  | some st =>
    let s := st.getD 1
    if s + (len - 1) ≤ USIZE_MAX then some (s + (len - 1)) else none

/-- `samples_max_len` on one column of already-typed values -/
def maxLenCol : List (Option Val) → Option Nat → Option (Option Nat)
  | [], acc => some acc
  | none :: r, acc => maxLenCol r acc
  | some (.integer n) :: r, acc => if n < 0 then none else maxLenCol r (optMax acc n.toNat)
  | some _ :: _, _ => none

/-- `variant_end` given: the INFO END lookup, the INFO SVLEN lookup and the FORMAT LEN column
(each `none` = absent, and an outer `none` from the caller = the lookup itself failed) -/
def variantEndCore (h : Hdr) (start : Option (Option Nat)) (refLen : Nat)
    (infoEnd : Option (Option Val)) (svlen : Option (Option Val)) (lenCol : Option (List (Option Val))) :
    Option Nat :=
  if h.before 4 5 then
    match infoEnd with
    | some (some (.integer n)) => if 1 ≤ n then some n.toNat else none
    | some (some _) => none
    | _ => if refLen = 0 then none else endFrom start refLen
  else
    if refLen = 0 then none else
    let m1 : Option Nat := match svlen with
      | some (some (.ints l)) => (maxNonNeg l none).map fun m => max refLen (m.getD 0)
      | some (some _) => none
      | _ => some refLen
    match m1 with
    | none => none
    | some m1 =>
      let m2 : Option Nat := match lenCol with
        | some col => (maxLenCol col none).map fun m => max m1 (m.getD 0)
        | none => some m1
      match m2 with
      | none => none
      | some m2 => endFrom start m2

def infoGet (k : Bytes) : List (Bytes × Option Val) → Option (Option Val)
  | [] => none
  | (k', v) :: r => if k' = k then some v else infoGet k r

/-- `variant_end` on the eager record (`impl Record for RecordBuf`) -/
def eagerEnd (h : Hdr) (r : Rec) : Option Nat :=
  let lenCol := (indexOf? LEN r.keys).map fun i => r.samples.map fun s => (s[i]?).getD none
  variantEndCore h (some r.pos) r.ref.length (infoGet END r.info) (infoGet SVLEN r.info) lenCol

/-- lazy `Info::get`: the first field with that key, typed by the header; outer `none` = error -/
def lazyInfoGet (F : FloatFmt) (h : Hdr) (k : Bytes) (info : Bytes) : Option (Option (Option Val)) :=
  match lazyInfoFind k (info.length + 1) info with
  | none => none
  | some none => some none
  | some (some kv) => (lazyInfoValue F h kv.1 kv.2).map some

/-- `Sample::get_index(i)` as used by `Series::iter`: the `i`-th raw value of one sample (`None`
when the sample has fewer values), typed by the column's key -/
def lazyColValue (F : FloatFmt) (h : Hdr) (key : Bytes) (i : Nat) (s : Bytes) : Option (Option Val) :=
  if s = [] then some none
  else match (splitOn 58 s)[i]? with
    | some raw => lazySampleValue F h key raw
    | none => some none

/-- `Series::iter` for the lazy samples -/
def lazyColumn (F : FloatFmt) (h : Hdr) (key : Bytes) (i : Nat) (samples : List Bytes) :
    Option (List (Option Val)) :=
  mapM' (lazyColValue F h key i) samples

/-- `variant_end` on the lazy record -/
def lazyEnd (F : FloatFmt) (h : Hdr) (z : LazyRec) : Option Nat :=
  let start := lazyPos z.pos
  let info := unDot z.info
  if h.before 4 5 then
    match lazyInfoGet F h END info with
    | none => none
    | some e => variantEndCore h start z.ref.length e none none
  else
    if z.ref = [] then none else
    match lazyInfoGet F h SVLEN info with
    | none => none
    | some sv =>
      let st := lazySamplesText z.rest
      let (ktext, stext) := splitOnceTab st
      let keys := lazyKeys (ktext.length + 1) ktext
      match indexOf? LEN keys with
      | none => variantEndCore h start z.ref.length none sv none
      | some i =>
        match lazyColumn F h LEN i (lazySampleTexts (stext.length + 1) stext) with
        | none => none
        | some col => variantEndCore h start z.ref.length none sv (some col)

end Noodles.Vcf
