import Noodles.Vcf.LazyProof
/-! `variant_end` of the lazy record = `variant_end` of the eager record, on the writer's lines. -/
namespace Noodles.Vcf
open Noodles.Text (splitOn join parseNat printNat)

theorem lazyInfoFind_join (k : Bytes) (rs : List (Bytes × Option Bytes)) (h : ∀ kr ∈ rs, RawOk kr) :
    ∀ fuel, rs.length < fuel →
      lazyInfoFind k fuel (if rs = [] then [] else join 59 (rs.map ft)) = some (rs.find? (·.1 = k)) := by
  induction rs with
  | nil =>
    intro fuel hf
    cases fuel with
    | zero => omega
    | succ f => simp [lazyInfoFind]
  | cons kr r ih =>
    intro fuel hf
    cases fuel with
    | zero => omega
    | succ f =>
      have hkr := h kr (by simp)
      have ihr := ih (fun x hx => h x (List.mem_cons_of_mem _ hx)) f (by simp at hf; omega)
      cases r with
      | nil =>
        have hne := ft_ne_nil kr hkr
        simp only [List.map_cons, List.map_nil, join, if_neg (List.cons_ne_nil _ _)]
        unfold lazyInfoFind
        simp only [hne, if_false, lazyInfoNext_last kr hkr]
        simp only [if_true] at ihr
        by_cases e : kr.1 = k
        · simp [e]
        · simp [e, ihr]
      | cons kr2 r2 =>
        have hne2 : join 59 ((kr2 :: r2).map ft) ≠ [] :=
          join_ne_nil 59 _ (by simp) (by
            intro x hx
            obtain ⟨y, hy, rfl⟩ := List.mem_map.mp hx
            exact ft_ne_nil y (h y (List.mem_cons_of_mem _ hy)))
        simp only [if_neg (List.cons_ne_nil _ _)] at ihr ⊢
        simp only [List.map_cons, join] at hne2 ihr ⊢
        unfold lazyInfoFind
        have hne : ft kr ++ 59 :: join 59 (ft kr2 :: List.map ft r2) ≠ [] := by simp
        simp only [hne, if_false, lazyInfoNext_more kr hkr _ hne2]
        by_cases e : kr.1 = k
        · simp [e]
        · simp [e, ihr]

theorem find_rel {F : FloatFmt} {h : Hdr} {info : List (Bytes × Option Val)}
    {rs : List (Bytes × Option Bytes)} (hr : All2 (FieldRel F h) info rs) (k : Bytes) :
    (match rs.find? (·.1 = k) with
      | none => some none
      | some kr => (lazyInfoValue F h kr.1 kr.2).map some) = some (infoGet k info) := by
  induction hr with
  | nil => rfl
  | @cons kv kr l₁ l₂ hd _ ih =>
    obtain ⟨e1, _, _, _, lz, _⟩ := hd
    obtain ⟨k', v⟩ := kv
    simp only at e1 lz
    by_cases e : kr.1 = k
    · have e' : k' = k := by rw [← e1]; exact e
      rw [e] at lz
      simp [e, lz, infoGet, e']
    · have e' : k' ≠ k := by rw [← e1]; exact e
      simp only [List.find?_cons, e, decide_false, infoGet, e', if_false]
      exact ih

theorem lazyInfoGet_ok {F : FloatFmt} {h : Hdr} {info : List (Bytes × Option Val)}
    {rs : List (Bytes × Option Bytes)} (hr : All2 (FieldRel F h) info rs)
    (hdup : hasDup (info.map (·.1)) = false) (k : Bytes) :
    lazyInfoGet F h k (unDot (infoText rs)) = some (infoGet k info) := by
  have hraw : ∀ kr ∈ rs, RawOk kr := by
    intro kr hkr
    obtain ⟨kv, _, rel⟩ := hr.of_mem_right hkr
    exact ⟨rel.2.1, fun tv e => (rel.2.2.2.2.2 tv e).2⟩
  have htext : unDot (infoText rs) = (if rs = [] then [] else join 59 (rs.map ft)) := by
    unfold infoText unDot
    by_cases e : rs = []
    · simp [e]
    · have hi : info ≠ [] := by
        intro e2; subst e2
        cases hr with
        | nil => exact e rfl
      have := (info_column hr hi hdup).2.1
      simp [e, this]
  have hlenb : rs.length < (unDot (infoText rs)).length + 1 := by
    rw [htext]
    by_cases e : rs = []
    · simp [e]
    · simp only [e, if_false]
      have : ∀ (l : List (Bytes × Option Bytes)), (∀ kr ∈ l, RawOk kr) → l.length ≤ (join 59 (l.map ft)).length := by
        intro l
        induction l with
        | nil => simp [join]
        | cons a t ih =>
          intro hl
          have ha := ft_ne_nil a (hl a (by simp))
          have := ih (fun x hx => hl x (List.mem_cons_of_mem _ hx))
          cases t with
          | nil =>
            simp only [List.map_cons, List.map_nil, join, List.length_cons, List.length_nil]
            cases hh : ft a with
            | nil => exact absurd hh ha
            | cons _ _ => simp
          | cons b u =>
            simp only [List.map_cons, join, List.length_append, List.length_cons] at this ⊢
            omega
      have := this rs hraw
      omega
  have hfind := lazyInfoFind_join k rs hraw _ hlenb
  rw [← htext] at hfind
  unfold lazyInfoGet
  rw [hfind]
  have := find_rel hr k
  cases hf : rs.find? (·.1 = k) with
  | none => rw [hf] at this; simpa using this
  | some kr => rw [hf] at this; simpa using this

/-- the lazy samples of the written line: its keys and its per-sample texts -/
theorem lazy_samples_struct (F : FloatFmt) (canon : Nat → Prop) (h : Hdr) (r : Rec)
    (w : WF canon h r) (rs : List (Bytes × Option Bytes)) (ts : List Bytes) (W : Written F h r rs ts) :
    lazyKeys ((splitOnceTab (lazySamplesText (samplesText r.keys ts).tail)).1.length + 1)
      (splitOnceTab (lazySamplesText (samplesText r.keys ts).tail)).1 = r.keys ∧
    lazySampleTexts ((splitOnceTab (lazySamplesText (samplesText r.keys ts).tail)).2.length + 1)
      (splitOnceTab (lazySamplesText (samplesText r.keys ts).tail)).2 =
        ts.map (fun t => if t = DOT then [] else t) := by
  obtain ⟨_, hlen, _⟩ := samples_cols W.wf_samples
  by_cases hs : r.samples = []
  · have hts : ts = [] := by
      cases ts with
      | nil => rfl
      | cons a b => rw [hs] at hlen; simp at hlen
    have hk := w.keys
    simp only [hs, if_true] at hk
    simp [hts, samplesText, lazySamplesText, splitOnceTab, takeField, lazyKeys, lazySampleTexts, hk]
  · have hk := w.keys
    simp only [hs, if_false] at hk
    obtain ⟨_, hkne, hkdot, hk9, _, _⟩ := keys_spec r.keys hk.1 hk.2
    have htsne : ts ≠ [] := by
      intro e; subst e; simp at hlen
      exact hs (List.length_eq_zero_iff.mp hlen.symm)
    have htsok : ∀ t ∈ ts, t ≠ [] ∧ TAB ∉ t := by
      intro t ht
      obtain ⟨v, _, rel⟩ := W.wf_samples.of_mem_right ht
      exact ⟨rel.2.1, rel.2.2.1⟩
    obtain ⟨t1, tr, ets⟩ : ∃ t1 tr, ts = t1 :: tr := by
      cases ts with
      | nil => exact absurd rfl htsne
      | cons a b => exact ⟨a, b, rfl⟩
    have hrest : (samplesText r.keys ts).tail = join 58 r.keys ++ colsText ts := by
      simp [samplesText, htsne]
    have hnf : nextField (join 58 r.keys ++ colsText ts) = (join 58 r.keys, (colsText ts).tail) :=
      colsText_tail_nextField _ hk9 ts
    have hlst : lazySamplesText (join 58 r.keys ++ colsText ts) = join 58 r.keys ++ colsText ts := by
      unfold lazySamplesText
      have : join 58 r.keys ++ colsText ts ≠ [] := by
        intro e; exact hkne (List.append_eq_nil_iff.mp e).1
      simp [this, hnf, hkdot]
    have hsplit : splitOnceTab (join 58 r.keys ++ colsText ts) = (join 58 r.keys, (colsText ts).tail) := by
      unfold splitOnceTab
      rw [ets]
      simp only [colsText, List.cons_append, List.tail_cons]
      rw [takeField_append _ _ hk9]
    have hkeys : lazyKeys ((join 58 r.keys).length + 1) (join 58 r.keys) = r.keys := by
      have := lazyKeys_join r.keys (fun k hk' => by
          have := validKey_keyLike k (hk.2.1 k hk')
          exact ⟨this.1, this.free.2.2.2⟩) ((join 58 r.keys).length + 1) (by
        have : ∀ l : List Bytes, (∀ k ∈ l, k ≠ []) → l.length ≤ (join 58 l).length := by
          intro l
          induction l with
          | nil => simp [join]
          | cons a t ih =>
            intro hl
            have ha := hl a (by simp)
            have := ih (fun x hx => hl x (List.mem_cons_of_mem _ hx))
            cases t with
            | nil =>
              simp only [join, List.length_cons, List.length_nil]
              cases hh : a with
              | nil => exact absurd hh ha
              | cons _ _ => simp
            | cons b u =>
              simp only [join, List.length_append, List.length_cons] at this ⊢
              omega
        have := this r.keys (fun k hk' => (validKey_keyLike k (hk.2.1 k hk')).1)
        omega)
      simpa [hk.1] using this
    have htexts := lazySampleTexts_cols ts htsok ((colsText ts).tail.length + 1) (by
      have := colsText_length ts (fun t ht => (htsok t ht).1)
      have h2 : (colsText ts).tail.length = (colsText ts).length - 1 := by simp
      have h3 : 1 ≤ ts.length := by rw [ets]; simp
      omega)
    simp only [hrest, hlst, hsplit, hkeys, htexts]
    exact ⟨trivial, trivial⟩

theorem indexOf_get (k : Bytes) (l : List Bytes) (i : Nat) (h : indexOf? k l = some i) : l[i]? = some k := by
  induction l generalizing i with
  | nil => simp [indexOf?] at h
  | cons x r ih =>
    simp only [indexOf?] at h
    by_cases e : x = k
    · simp [e] at h; subst h; simp [e]
    · simp only [e, if_false] at h
      cases hr : indexOf? k r with
      | none => rw [hr] at h; simp at h
      | some j =>
        rw [hr] at h; simp at h; subst h
        simpa using ih j hr

theorem lazyColumn_ok {F : FloatFmt} {h : Hdr} {keys : List Bytes} {samples : List (List (Option Val))}
    {ts : List Bytes} (hr : All2 (SampleRel F h keys) samples ts) (k : Bytes) (i : Nat)
    (hk : keys[i]? = some k) :
    lazyColumn F h k i (ts.map fun t => if t = DOT then [] else t) =
      some ((samples.map (normSample h)).map fun s => (s[i]?).getD none) := by
  unfold lazyColumn
  induction hr with
  | nil => rfl
  | cons hd _ ih =>
    obtain ⟨_, _, _, _, _, col⟩ := hd
    simp only [List.map_cons, mapM']
    rw [col i k hk, ih]
    rfl

/-- `variant_end` of the lazy record of the written line = `variant_end` of the parsed record -/
theorem span_written (F : FloatFmt) (canon : Nat → Prop) (hF : F.Lawful canon) (h : Hdr) (r : Rec)
    (w : WF canon h r) (rs : List (Bytes × Option Bytes)) (ts : List Bytes) (W : Written F h r rs ts) :
    lazyEnd F h ⟨r.chrom, writePos r.pos, listText 59 r.ids, r.ref, listText 44 r.alts,
      writeQual F r.qual, listText 59 r.filters, infoText rs, (samplesText r.keys ts).tail⟩ =
    eagerEnd h (normRec h r) := by
  have hpos := lazyPos_ok r.pos w.pos
  have hend := lazyInfoGet_ok W.wf_info w.info.2 END
  have hsv := lazyInfoGet_ok W.wf_info w.info.2 SVLEN
  obtain ⟨hkeys, htexts⟩ := lazy_samples_struct F canon h r w rs ts W
  unfold lazyEnd eagerEnd
  simp only [hpos, hend, hsv, normRec]
  by_cases hv : h.before 4 5 = true
  · simp only [hv, if_true]
    unfold variantEndCore
    simp only [hv, if_true]
  · simp only [hv]
    have href : r.ref ≠ [] := w.ref.1
    simp only [href, if_false, Bool.false_eq_true]
    simp only [hkeys, htexts]
    have hcore : ∀ e col, variantEndCore h (some r.pos) r.ref.length e (infoGet SVLEN r.info) col =
        variantEndCore h (some r.pos) r.ref.length none (infoGet SVLEN r.info) col := by
      intro e col
      unfold variantEndCore
      simp only [hv, Bool.false_eq_true, if_false]
    cases hi : indexOf? LEN r.keys with
    | none => simp only [Option.map_none]; rw [hcore (infoGet END r.info)]
    | some i =>
      have hk := indexOf_get LEN r.keys i hi
      simp only [Option.map_some]
      rw [lazyColumn_ok W.wf_samples LEN i hk, hcore (infoGet END r.info)]

end Noodles.Vcf
