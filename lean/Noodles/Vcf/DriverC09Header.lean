import Noodles.Basic.Wire
import Noodles.Vcf.HeaderModel
import Noodles.Vcf.HeaderWF
import Noodles.Vcf.DriverC09
/-! Line-protocol handler for the whole-header requests of C09 (`c09 hval|hstr …`); the wire format
is documented in harness/src/props/c09_header.rs. A header VALUE travels in the canonical dump
format of `DriverC09.dumpHeader` (`parseDump` is its inverse). -/
namespace Noodles.Vcf.DriverHeader
open Noodles.Wire (hex unhex)
open Noodles.Vcf Noodles.Vcf.Driver

def parseOptN (s : String) : Option (Option Nat) := if s = "-" then some none else s.toNat?.map some
def parseOptS (s : String) : Option (Option Bytes) := if s = "." then some none else (unhex s).map some

def parseOthers (s : String) : Option Header.Fields :=
  parseList (fun e => match e.splitOn "=" with
    | [k, v] => do pure (← unhex k, ← unhex v)
    | _ => none) s

def parseOtherL (s : String) : Option Header.OtherL :=
  match s.splitOn ";" with
  | [id, tag, os] => do pure ⟨← unhex id, ← unhex tag, ← parseOthers os⟩
  | _ => none

/-- one `|`-separated part of the dump, added to the header under construction -/
def addPart (h : Header.Header) (part : String) : Option Header.Header :=
  match part.splitOn ":" with
  | ["I", id, n, t, d, x, os] => do
    let l : Header.InfoL := ⟨← unhex id, ← parseNum n, ← parseTy t, ← unhex d, ← parseOptN x, ← parseOthers os⟩
    pure { h with infos := h.infos ++ [l] }
  | ["M", id, n, t, d, x, os] => do
    let l : Header.InfoL := ⟨← unhex id, ← parseNum n, ← parseTy t, ← unhex d, ← parseOptN x, ← parseOthers os⟩
    pure { h with formats := h.formats ++ [l] }
  | ["F", id, d, x, os] => do
    pure { h with filters := h.filters ++ [⟨← unhex id, ← unhex d, ← parseOptN x, ← parseOthers os⟩] }
  | ["A", id, d, os] => do
    pure { h with alts := h.alts ++ [⟨← unhex id, ← unhex d, ← parseOthers os⟩] }
  | ["C", id, len, md5, url, x, os] => do
    pure { h with contigs := h.contigs ++
      [⟨← unhex id, ← parseOptN len, ← parseOptS md5, ← parseOptS url, ← parseOptN x, ← parseOthers os⟩] }
  | ["O", key, "U", vs] => do
    pure { h with others := h.others ++ [(← unhex key, .unstructured (← parseList unhex vs))] }
  | ["O", key, "S", ms] => do
    let ms ← if ms = "!" then some [] else (ms.splitOn "/").mapM parseOtherL
    pure { h with others := h.others ++ [(← unhex key, .structured ms)] }
  | ["S", ss] => do pure { h with samples := ← parseList unhex ss }
  | _ => none

def parseVer (s : String) : Option (Nat × Nat) :=
  match s.splitOn "=" with
  | ["ver", v] => match v.splitOn "." with
    | [a, b] => do pure (← a.toNat?, ← b.toNat?)
    | _ => none
  | _ => none

/-- inverse of `Driver.dumpHeader` -/
def parseDump (s : String) : Option Header.Header :=
  match s.splitOn "|" with
  | ver :: parts => do
    let (a, b) ← parseVer ver
    parts.foldlM addPart ⟨a, b, [], [], [], [], [], [], []⟩
  | [] => none

def readBack (h : Header.Header) (r : Except Header.HErr Header.Header) : String :=
  match r with
  | .error e => hErr e
  | .ok h' => if h' = h then "same" else "diff:" ++ dumpHeader h'

/-- `wf=… w=… r=… s=…`: the decision of `wfHeader`, the written text, what `read_header` and
`Header::from_str` make of it -/
def valueAnswer (D : Header.DefTables) (h : Header.Header) : String :=
  let wf := if Header.wfHeader D h then "1" else "0"
  match Header.writeHeader h with
  | none => s!"wf={wf} w=err:invalid-input"
  | some t => s!"wf={wf} w={hex t} r={readBack h (Header.parseHeader D t)} s={readBack h (Header.parseStr D t)}"

def strAnswer (D : Header.DefTables) (text : Bytes) : String :=
  match Header.parseStr D text with
  | .error e => s!"p={hErr e}"
  | .ok h => s!"p={dumpHeader h}"

def handle? : List String → Option String
  | ["hval", defs, dump] =>
    some (match parseDefTables defs, parseDump dump with
      | some d, some h => valueAnswer d h
      | _, _ => "bad-op")
  | ["hstr", defs, text] =>
    some (match parseDefTables defs, unhex text with
      | some d, some t => strAnswer d t
      | _, _ => "bad-op")
  | _ => none

end Noodles.Vcf.DriverHeader
