import Noodles.Vcf.HeaderModel
import Noodles.Vcf.RecordProof
/-! Helper lemmas for the header-line theorems of C09: quoting, field lists, typed INFO / FORMAT maps. -/
namespace Noodles.Vcf.Header
open Noodles.Text (splitOn join parseNat printNat)
open Noodles.Vcf

/-! ### quoted strings -/

theorem parseQuoted_escape (v rest : Bytes) : parseQuoted (escape v ++ 34 :: rest) = some (v, rest) := by
  induction v with
  | nil => rw [parseQuoted.eq_def]; simp [escape]
  | cons b r ih =>
    unfold escape
    split
    · rename_i hb
      have hb' : b = 92 ∨ b = 34 := by simpa using hb
      simp only [List.cons_append]
      rw [parseQuoted.eq_def]
      simp only [show (92 : UInt8) ≠ 34 by decide, if_false, if_true]
      rcases hb' with rfl | rfl <;> simp [ih]
    · rename_i hb
      have h1 : b ≠ 92 := by intro e; subst e; simp at hb
      have h2 : b ≠ 34 := by intro e; subst e; simp at hb
      simp only [List.cons_append]
      rw [parseQuoted.eq_def]
      simp [h1, h2, ih]

/-! ### field values -/

/-- how a map field value is written: raw, or quoted and escaped -/
inductive FV
  | raw (v : Bytes)
  | str (v : Bytes)

def FV.text : FV → Bytes
  | .raw v => v
  | .str v => quote v

def FV.val : FV → Bytes
  | .raw v => v
  | .str v => v

/-- a raw value survives: no `,`, no `>`, not starting with `"` -/
def RawVal (v : Bytes) : Prop := (44 : UInt8) ∉ v ∧ (62 : UInt8) ∉ v ∧ v.head? ≠ some 34

def FV.Ok : FV → Prop
  | .raw v => RawVal v
  | .str _ => True

theorem parseRaw_stop (v rest : Bytes) (c : UInt8) (hc : c = 44 ∨ c = 62) (h44 : (44 : UInt8) ∉ v)
    (h62 : (62 : UInt8) ∉ v) : parseRaw (v ++ c :: rest) = some (v, c :: rest) := by
  induction v with
  | nil => rcases hc with rfl | rfl <;> simp [parseRaw]
  | cons b r ih =>
    have hb1 : b ≠ 44 := fun e => h44 (by simp [e])
    have hb2 : b ≠ 62 := fun e => h62 (by simp [e])
    simp [parseRaw, hb1, hb2, ih (fun e => h44 (List.mem_cons_of_mem _ e)) (fun e => h62 (List.mem_cons_of_mem _ e))]

theorem parseFieldValue_text (f : FV) (hf : f.Ok) (c : UInt8) (hc : c = 44 ∨ c = 62) (rest : Bytes) :
    parseFieldValue (f.text ++ c :: rest) = some (f.val, c :: rest) := by
  cases f with
  | raw v =>
    obtain ⟨h44, h62, hq⟩ := hf
    have := parseRaw_stop v rest c hc h44 h62
    simp only [FV.text, FV.val]
    unfold parseFieldValue
    cases v with
    | nil =>
      simp only [List.nil_append] at this ⊢
      rcases hc with rfl | rfl <;> exact this
    | cons b r =>
      have hb : b ≠ 34 := by intro e; subst e; simp at hq
      simp only [List.cons_append] at this ⊢
      split
      · rename_i heq; injection heq with h1 _; exact absurd h1 hb
      · exact this
  | str v =>
    simp only [FV.text, FV.val, quote, List.cons_append, List.append_assoc]
    unfold parseFieldValue
    simp [parseQuoted_escape]

/-! ### field lists -/

def fieldsText : List (Bytes × FV) → Bytes
  | [] => []
  | (k, f) :: r => 44 :: k ++ 61 :: f.text ++ fieldsText r

/-- a key survives: no `=`, not starting with `>` -/
def KeyOk (k : Bytes) : Prop := (61 : UInt8) ∉ k ∧ k.head? ≠ some 62

theorem parseFieldKey_stop (k rest : Bytes) (h : (61 : UInt8) ∉ k) :
    parseFieldKey (k ++ 61 :: rest) = some (k, rest) := by
  induction k with
  | nil => simp [parseFieldKey]
  | cons b r ih =>
    have hb : b ≠ 61 := fun e => h (by simp [e])
    simp [parseFieldKey, hb, ih (fun e => h (List.mem_cons_of_mem _ e))]

def vals (fs : List (Bytes × FV)) : Fields := fs.map fun kf => (kf.1, kf.2.val)

theorem splitFields_text (fs : List (Bytes × FV)) (rest : Bytes) :
    ∀ (k0 : Bytes) (f0 : FV), KeyOk k0 → f0.Ok → (∀ kf ∈ fs, KeyOk kf.1 ∧ kf.2.Ok) →
    ∀ fuel, fs.length + 1 < fuel →
      splitFields fuel (k0 ++ 61 :: f0.text ++ fieldsText fs ++ 62 :: rest) =
        some ((k0, f0.val) :: vals fs, 62 :: rest) := by
  induction fs with
  | nil =>
    intro k0 f0 hk hf _ fuel hfuel
    obtain ⟨f1, rfl⟩ : ∃ f1, fuel = f1 + 1 := ⟨fuel - 1, by omega⟩
    obtain ⟨f2, rfl⟩ : ∃ f2, f1 = f2 + 1 := ⟨f1 - 1, by simp at hfuel; omega⟩
    simp only [fieldsText, List.append_nil, List.append_assoc, List.cons_append]
    have hkey := parseFieldKey_stop k0 (f0.text ++ 62 :: rest) hk.1
    have hval := parseFieldValue_text f0 hf 62 (Or.inr rfl) rest
    unfold splitFields
    have hhead : ∀ x, k0 ++ 61 :: (f0.text ++ 62 :: rest) ≠ 62 :: x := by
      intro x e
      cases k0 with
      | nil => simp at e
      | cons b r => simp at e; exact hk.2 (by simp [e.1])
    split
    · rename_i x heq; exact absurd heq (hhead _)
    · simp [hkey, hval, consumeSep, splitFields, vals]
  | cons kf r ih =>
    intro k0 f0 hk hf hall fuel hfuel
    obtain ⟨k1, f1⟩ := kf
    obtain ⟨fu, rfl⟩ : ∃ fu, fuel = fu + 1 := ⟨fuel - 1, by omega⟩
    have h1 := hall (k1, f1) (by simp)
    have ihr := ih k1 f1 h1.1 h1.2 (fun x hx => hall x (List.mem_cons_of_mem _ hx)) fu
      (by simp at hfuel; omega)
    simp only [fieldsText, List.append_assoc, List.cons_append] at ihr ⊢
    have hkey := parseFieldKey_stop k0 (f0.text ++ 44 :: (k1 ++ 61 :: (f1.text ++ (fieldsText r ++ 62 :: rest)))) hk.1
    have hval := parseFieldValue_text f0 hf 44 (Or.inl rfl) (k1 ++ 61 :: (f1.text ++ (fieldsText r ++ 62 :: rest)))
    unfold splitFields
    have hhead : ∀ x, k0 ++ 61 :: (f0.text ++ 44 :: (k1 ++ 61 :: (f1.text ++ (fieldsText r ++ 62 :: rest)))) ≠ 62 :: x := by
      intro x e
      cases k0 with
      | nil => simp at e
      | cons b r => simp at e; exact hk.2 (by simp [e.1])
    split
    · rename_i x heq; exact absurd heq (hhead _)
    · simp [hkey, hval, consumeSep, ihr, vals]

/-- a written map `<k0=v0,k1=v1,…>` (anything may follow) parses to its fields -/
theorem parseMapFields_text (k0 : Bytes) (f0 : FV) (fs : List (Bytes × FV)) (rest : Bytes)
    (hk : KeyOk k0) (hf : f0.Ok) (hall : ∀ kf ∈ fs, KeyOk kf.1 ∧ kf.2.Ok) :
    parseMapFields (60 :: (k0 ++ 61 :: f0.text ++ fieldsText fs ++ 62 :: rest)) =
      some ((k0, f0.val) :: vals fs) := by
  unfold parseMapFields
  have hlen : fs.length + 1 < (k0 ++ 61 :: f0.text ++ fieldsText fs ++ 62 :: rest).length + 1 := by
    have : ∀ l : List (Bytes × FV), l.length ≤ (fieldsText l).length := by
      intro l
      induction l with
      | nil => simp
      | cons a t ih => obtain ⟨k, f⟩ := a; simp [fieldsText]; omega
    have := this fs
    simp only [List.length_append, List.length_cons]
    omega
  simp only []
  rw [splitFields_text fs rest k0 f0 hk hf hall _ hlen]
  rfl

/-! ### INFO / FORMAT lines -/

theorem hasDupKeys_cons (k v : Bytes) (r : Fields) :
    hasDupKeys ((k, v) :: r) = false ↔ (∀ kv ∈ r, kv.1 ≠ k) ∧ hasDupKeys r = false := by
  simp only [hasDupKeys, Bool.or_eq_false_iff, List.any_eq_false]
  constructor
  · intro ⟨a, b⟩; exact ⟨fun kv hkv => by simpa using a kv hkv, b⟩
  · intro ⟨a, b⟩; exact ⟨fun kv hkv => by simpa using a kv hkv, b⟩

theorem getField_skip (k k' v : Bytes) (r : Fields) (h : k' ≠ k) : getField k ((k', v) :: r) = getField k r := by
  simp [getField, h]

theorem getField_hit (k v : Bytes) (r : Fields) : getField k ((k, v) :: r) = some v := by
  simp [getField]

theorem getField_none (k : Bytes) (r : Fields) (h : ∀ kv ∈ r, kv.1 ≠ k) : getField k r = none := by
  induction r with
  | nil => rfl
  | cons a t ih =>
    obtain ⟨k', v⟩ := a
    rw [getField_skip k k' v t (h (k', v) (by simp))]
    exact ih (fun kv hkv => h kv (List.mem_cons_of_mem _ hkv))

theorem otherFields_all (std : List Bytes) (r : Fields) (h : ∀ kv ∈ r, kv.1 ∉ std) : otherFields std r = r := by
  unfold otherFields
  rw [List.filter_eq_self]
  intro kv hkv
  have := h kv hkv
  cases hc : std.contains kv.1 with
  | false => rfl
  | true => exact absurd (List.contains_iff_mem.mp hc) this

theorem otherFields_skip (std : List Bytes) (k v : Bytes) (r : Fields) (h : k ∈ std) :
    otherFields std ((k, v) :: r) = otherFields std r := by
  unfold otherFields
  simp [List.filter_cons, h]

/-- the optional IDX field -/
def idxField : Option Nat → List (Bytes × FV)
  | none => []
  | some n => [(IDX, .raw (printNat n))]

def strFields (fs : Fields) : List (Bytes × FV) := fs.map fun kv => (kv.1, FV.str kv.2)

theorem writeOthers_eq (fs : Fields) : writeOthers fs = fieldsText (strFields fs) := by
  induction fs with
  | nil => rfl
  | cons a r ih =>
    obtain ⟨k, v⟩ := a
    simp only [writeOthers, strFields, List.map_cons, fieldsText, strField, FV.text, List.cons_append,
      List.append_assoc] at ih ⊢
    rw [ih]

theorem writeIdx_eq (i : Option Nat) : writeIdx i = fieldsText (idxField i) := by
  cases i <;> simp [writeIdx, idxField, fieldsText, rawField, FV.text]

theorem fieldsText_append (a b : List (Bytes × FV)) : fieldsText (a ++ b) = fieldsText a ++ fieldsText b := by
  induction a with
  | nil => rfl
  | cons x r ih => obtain ⟨k, f⟩ := x; simp [fieldsText, ih]

theorem vals_strFields (fs : Fields) : vals (strFields fs) = fs := by
  induction fs with
  | nil => rfl
  | cons a r ih => obtain ⟨k, v⟩ := a; simp [vals, strFields, FV.val] at *; exact ih

theorem printNat_rawVal (n : Nat) : RawVal (printNat n) := by
  refine ⟨printNat_not_mem n 44 (by unfold IsDigit; decide), printNat_not_mem n 62 (by unfold IsDigit; decide), ?_⟩
  obtain ⟨b, r, e, hb⟩ := printNat_cons n
  rw [e]; simp
  intro e2; subst e2; unfold IsDigit at hb; simp at hb

/-- what a typed (INFO / FORMAT) line must satisfy to be written and read back -/
structure InfoLOk (std : List Bytes) (l : InfoL) : Prop where
  id : RawVal l.id
  idx : ∀ n, l.idx = some n → n ≤ USIZE_MAX
  count : ∀ n, l.num = .count n → n ≤ USIZE_MAX
  others_keys : ∀ kv ∈ l.others, KeyOk kv.1 ∧ kv.1 ∉ std
  others_dup : hasDupKeys l.others = false

def STD_TYPED : List Bytes := [ID, NUMBER, TYPE, DESCRIPTION, IDX]

/-- the fields of a typed line after the ID -/
def typedFields (l : InfoL) : List (Bytes × FV) :=
  [(NUMBER, .raw (writeNum l.num)), (TYPE, .raw (writeTy l.ty)), (DESCRIPTION, .str l.desc)] ++
    idxField l.idx ++ strFields l.others

theorem writeInfoL_eq (key : Bytes) (l : InfoL) :
    writeInfoL key l = [35, 35] ++ key ++ [61, 60] ++ ID ++ 61 :: (FV.raw l.id).text ++
      fieldsText (typedFields l) ++ [62, 10] := by
  simp [writeInfoL, mapLine, typedFields, fieldsText_append, fieldsText, writeOthers_eq, writeIdx_eq,
    rawField, strField, FV.text]

theorem writeNum_rawVal (n : Num) : RawVal (writeNum n) := by
  cases n with
  | count k => exact printNat_rawVal k
  | _ => (unfold RawVal writeNum; decide)

theorem writeTy_rawVal (t : Ty) : RawVal (writeTy t) := by
  cases t <;> (unfold RawVal writeTy; decide)

theorem keyOk_ID : KeyOk ID := by unfold KeyOk ID; decide
theorem keyOk_NUMBER : KeyOk NUMBER := by unfold KeyOk NUMBER; decide
theorem keyOk_TYPE : KeyOk TYPE := by unfold KeyOk TYPE; decide
theorem keyOk_DESCRIPTION : KeyOk DESCRIPTION := by unfold KeyOk DESCRIPTION; decide
theorem keyOk_IDX : KeyOk IDX := by unfold KeyOk IDX; decide

theorem typedFields_ok (l : InfoL) (h : InfoLOk STD_TYPED l) :
    ∀ kf ∈ typedFields l, KeyOk kf.1 ∧ kf.2.Ok := by
  intro kf hkf
  simp only [typedFields, List.mem_append, List.mem_cons, List.mem_nil_iff, or_false] at hkf
  rcases hkf with ((rfl | rfl | rfl) | hkf) | hkf
  · exact ⟨keyOk_NUMBER, writeNum_rawVal _⟩
  · exact ⟨keyOk_TYPE, writeTy_rawVal _⟩
  · exact ⟨keyOk_DESCRIPTION, trivial⟩
  · cases hi : l.idx with
    | none => simp [hi, idxField] at hkf
    | some n =>
      simp [hi, idxField] at hkf
      subst hkf
      exact ⟨keyOk_IDX, printNat_rawVal n⟩
  · obtain ⟨kv, hkv, rfl⟩ := List.mem_map.mp hkf
    exact ⟨(h.others_keys kv hkv).1, trivial⟩

theorem vals_append (a b : List (Bytes × FV)) : vals (a ++ b) = vals a ++ vals b := by
  simp [vals]

theorem std_ne {l : InfoL} (h : InfoLOk STD_TYPED l) :
    ∀ kv ∈ l.others, kv.1 ≠ ID ∧ kv.1 ≠ NUMBER ∧ kv.1 ≠ TYPE ∧ kv.1 ≠ DESCRIPTION ∧ kv.1 ≠ IDX := by
  intro kv hkv
  have := (h.others_keys kv hkv).2
  simp only [STD_TYPED, List.mem_cons, List.mem_nil_iff, or_false, not_or] at this
  exact ⟨this.1, this.2.1, this.2.2.1, this.2.2.2.1, this.2.2.2.2⟩

theorem parseUsize_idx (n : Nat) (hn : n ≤ USIZE_MAX) : parseUsize (printNat n) = some n :=
  parseUsize_printNat n hn

/-- a written typed map reads back (whatever follows the `>`) -/
theorem parseTypedMap_line (pn : Bytes → Option Num) (pt : Bytes → Option Ty) (l : InfoL)
    (h : InfoLOk STD_TYPED l) (hpn : pn (writeNum l.num) = some l.num)
    (hpt : pt (writeTy l.ty) = some l.ty) (rest : Bytes) :
    parseTypedMap pn pt (60 :: (ID ++ 61 :: (FV.raw l.id).text ++ fieldsText (typedFields l) ++ 62 :: rest))
      = some l := by
  have hfields := parseMapFields_text ID (.raw l.id) (typedFields l) rest keyOk_ID h.id (typedFields_ok l h)
  have hne := std_ne h
  have e1 : (ID ≠ NUMBER) ∧ (ID ≠ TYPE) ∧ (ID ≠ DESCRIPTION) ∧ (ID ≠ IDX) ∧ (NUMBER ≠ TYPE) ∧
      (NUMBER ≠ DESCRIPTION) ∧ (NUMBER ≠ IDX) ∧ (TYPE ≠ DESCRIPTION) ∧ (TYPE ≠ IDX) ∧ (DESCRIPTION ≠ IDX) := by
    unfold ID NUMBER TYPE DESCRIPTION IDX; decide
  obtain ⟨n1, n2, n3, n4, n5, n6, n7, n8, n9, n10⟩ := e1
  unfold parseTypedMap
  rw [hfields]
  obtain ⟨id, num, ty, desc, idx, others⟩ := l
  simp only at hpn hpt hne h
  have hdupo := h.others_dup
  simp only at hdupo
  cases idx with
  | none =>
    have hv : vals (typedFields ⟨id, num, ty, desc, none, others⟩) =
        (NUMBER, writeNum num) :: (TYPE, writeTy ty) :: (DESCRIPTION, desc) :: others := by
      simp only [typedFields, vals_append, vals_strFields, idxField]
      simp [vals, FV.val]
    simp only [hv, FV.val]
    have hd : hasDupKeys ((ID, id) :: (NUMBER, writeNum num) :: (TYPE, writeTy ty) :: (DESCRIPTION, desc) :: others) = false := by
      rw [hasDupKeys_cons, hasDupKeys_cons, hasDupKeys_cons, hasDupKeys_cons]
      refine ⟨?_, ?_, ?_, ?_, hdupo⟩
      · intro kv hkv; simp at hkv
        rcases hkv with rfl | rfl | rfl | hkv
        · exact n1.symm
        · exact n2.symm
        · exact n3.symm
        · exact (hne kv hkv).1
      · intro kv hkv; simp at hkv
        rcases hkv with rfl | rfl | hkv
        · exact n5.symm
        · exact n6.symm
        · exact (hne kv hkv).2.1
      · intro kv hkv; simp at hkv
        rcases hkv with rfl | hkv
        · exact n8.symm
        · exact (hne kv hkv).2.2.1
      · intro kv hkv; exact (hne kv hkv).2.2.2.1
    have gN : getField NUMBER ((ID, id) :: (NUMBER, writeNum num) :: (TYPE, writeTy ty) :: (DESCRIPTION, desc) :: others) = some (writeNum num) := by
      rw [getField_skip _ _ _ _ n1, getField_hit]
    have gT : getField TYPE ((ID, id) :: (NUMBER, writeNum num) :: (TYPE, writeTy ty) :: (DESCRIPTION, desc) :: others) = some (writeTy ty) := by
      rw [getField_skip _ _ _ _ n2, getField_skip _ _ _ _ n5, getField_hit]
    have gD : getField DESCRIPTION ((ID, id) :: (NUMBER, writeNum num) :: (TYPE, writeTy ty) :: (DESCRIPTION, desc) :: others) = some desc := by
      rw [getField_skip _ _ _ _ n3, getField_skip _ _ _ _ n6, getField_skip _ _ _ _ n8, getField_hit]
    have gX : getField IDX ((ID, id) :: (NUMBER, writeNum num) :: (TYPE, writeTy ty) :: (DESCRIPTION, desc) :: others) = none := by
      rw [getField_skip _ _ _ _ n4, getField_skip _ _ _ _ n7, getField_skip _ _ _ _ n9, getField_skip _ _ _ _ n10]
      exact getField_none _ _ (fun kv hkv => (hne kv hkv).2.2.2.2)
    have gI : getField ID ((ID, id) :: (NUMBER, writeNum num) :: (TYPE, writeTy ty) :: (DESCRIPTION, desc) :: others) = some id :=
      getField_hit _ _ _
    have oF : otherFields [ID, NUMBER, TYPE, DESCRIPTION, IDX] ((ID, id) :: (NUMBER, writeNum num) :: (TYPE, writeTy ty) :: (DESCRIPTION, desc) :: others) = others := by
      rw [otherFields_skip _ _ _ _ (by simp), otherFields_skip _ _ _ _ (by simp),
        otherFields_skip _ _ _ _ (by simp), otherFields_skip _ _ _ _ (by simp)]
      exact otherFields_all _ _ (fun kv hkv => (h.others_keys kv hkv).2)
    simp only [hd, Bool.false_eq_true, if_false, optField, gN, gT, gD, gX, gI, hpn, hpt, oF, Option.map_some]
  | some n =>
    have hn := h.idx n rfl
    have hv : vals (typedFields ⟨id, num, ty, desc, some n, others⟩) =
        (NUMBER, writeNum num) :: (TYPE, writeTy ty) :: (DESCRIPTION, desc) :: (IDX, printNat n) :: others := by
      simp only [typedFields, vals_append, vals_strFields, idxField]
      simp [vals, FV.val]
    simp only [hv, FV.val]
    have hd : hasDupKeys ((ID, id) :: (NUMBER, writeNum num) :: (TYPE, writeTy ty) :: (DESCRIPTION, desc) :: (IDX, printNat n) :: others) = false := by
      rw [hasDupKeys_cons, hasDupKeys_cons, hasDupKeys_cons, hasDupKeys_cons, hasDupKeys_cons]
      refine ⟨?_, ?_, ?_, ?_, ?_, hdupo⟩
      · intro kv hkv; simp at hkv
        rcases hkv with rfl | rfl | rfl | rfl | hkv
        · exact n1.symm
        · exact n2.symm
        · exact n3.symm
        · exact n4.symm
        · exact (hne kv hkv).1
      · intro kv hkv; simp at hkv
        rcases hkv with rfl | rfl | rfl | hkv
        · exact n5.symm
        · exact n6.symm
        · exact n7.symm
        · exact (hne kv hkv).2.1
      · intro kv hkv; simp at hkv
        rcases hkv with rfl | rfl | hkv
        · exact n8.symm
        · exact n9.symm
        · exact (hne kv hkv).2.2.1
      · intro kv hkv; simp at hkv
        rcases hkv with rfl | hkv
        · exact n10.symm
        · exact (hne kv hkv).2.2.2.1
      · intro kv hkv; exact (hne kv hkv).2.2.2.2
    have gN : getField NUMBER ((ID, id) :: (NUMBER, writeNum num) :: (TYPE, writeTy ty) :: (DESCRIPTION, desc) :: (IDX, printNat n) :: others) = some (writeNum num) := by
      rw [getField_skip _ _ _ _ n1, getField_hit]
    have gT : getField TYPE ((ID, id) :: (NUMBER, writeNum num) :: (TYPE, writeTy ty) :: (DESCRIPTION, desc) :: (IDX, printNat n) :: others) = some (writeTy ty) := by
      rw [getField_skip _ _ _ _ n2, getField_skip _ _ _ _ n5, getField_hit]
    have gD : getField DESCRIPTION ((ID, id) :: (NUMBER, writeNum num) :: (TYPE, writeTy ty) :: (DESCRIPTION, desc) :: (IDX, printNat n) :: others) = some desc := by
      rw [getField_skip _ _ _ _ n3, getField_skip _ _ _ _ n6, getField_skip _ _ _ _ n8, getField_hit]
    have gX : getField IDX ((ID, id) :: (NUMBER, writeNum num) :: (TYPE, writeTy ty) :: (DESCRIPTION, desc) :: (IDX, printNat n) :: others) = some (printNat n) := by
      rw [getField_skip _ _ _ _ n4, getField_skip _ _ _ _ n7, getField_skip _ _ _ _ n9, getField_skip _ _ _ _ n10, getField_hit]
    have gI : getField ID ((ID, id) :: (NUMBER, writeNum num) :: (TYPE, writeTy ty) :: (DESCRIPTION, desc) :: (IDX, printNat n) :: others) = some id :=
      getField_hit _ _ _
    have oF : otherFields [ID, NUMBER, TYPE, DESCRIPTION, IDX] ((ID, id) :: (NUMBER, writeNum num) :: (TYPE, writeTy ty) :: (DESCRIPTION, desc) :: (IDX, printNat n) :: others) = others := by
      rw [otherFields_skip _ _ _ _ (by simp), otherFields_skip _ _ _ _ (by simp),
        otherFields_skip _ _ _ _ (by simp), otherFields_skip _ _ _ _ (by simp),
        otherFields_skip _ _ _ _ (by simp)]
      exact otherFields_all _ _ (fun kv hkv => (h.others_keys kv hkv).2)
    simp only [hd, Bool.false_eq_true, if_false, optField, gN, gT, gD, gX, gI, hpn, hpt, oF,
      parseUsize_idx n hn, Option.map_some]

/-! ### whole INFO / FORMAT lines -/

def InfoNum : Num → Prop
  | .count _ | .a | .r | .g | .unknown => True
  | _ => False

theorem printNat_ne (n : Nat) (t : Bytes) (ht : ∃ b ∈ t, ¬ IsDigit b) : printNat n ≠ t := by
  intro e
  obtain ⟨b, hb, hd⟩ := ht
  exact hd (printNat_digits n b (by rw [e]; exact hb))

theorem parseInfoNum_write (n : Num) (hn : InfoNum n) (hc : ∀ k, n = .count k → k ≤ USIZE_MAX) :
    parseInfoNum (writeNum n) = some n := by
  cases n with
  | count k =>
    have h0 := printNat_ne_nil k
    have h1 := printNat_ne k [65] ⟨65, by simp, by unfold IsDigit; decide⟩
    have h2 := printNat_ne k [82] ⟨82, by simp, by unfold IsDigit; decide⟩
    have h3 := printNat_ne k [71] ⟨71, by simp, by unfold IsDigit; decide⟩
    have h4 := printNat_ne k [46] ⟨46, by simp, by unfold IsDigit; decide⟩
    simp [parseInfoNum, writeNum, h0, h1, h2, h3, h4, parseUsize_printNat k (hc k rfl)]
  | a => rfl
  | r => rfl
  | g => rfl
  | unknown => rfl
  | la => exact absurd hn (by simp [InfoNum])
  | lr => exact absurd hn (by simp [InfoNum])
  | lg => exact absurd hn (by simp [InfoNum])
  | p => exact absurd hn (by simp [InfoNum])
  | m => exact absurd hn (by simp [InfoNum])

theorem parseFormatNum_write (n : Num) (hc : ∀ k, n = .count k → k ≤ USIZE_MAX) :
    parseFormatNum (writeNum n) = some n := by
  cases n with
  | count k =>
    have h1 := printNat_ne k [76, 65] ⟨76, by simp, by unfold IsDigit; decide⟩
    have h2 := printNat_ne k [76, 82] ⟨76, by simp, by unfold IsDigit; decide⟩
    have h3 := printNat_ne k [76, 71] ⟨76, by simp, by unfold IsDigit; decide⟩
    have h4 := printNat_ne k [80] ⟨80, by simp, by unfold IsDigit; decide⟩
    have h5 := printNat_ne k [77] ⟨77, by simp, by unfold IsDigit; decide⟩
    have := parseInfoNum_write (.count k) trivial hc
    simp only [writeNum] at this
    simp [parseFormatNum, writeNum, h1, h2, h3, h4, h5, this]
  | a => rfl
  | r => rfl
  | g => rfl
  | unknown => rfl
  | la => rfl
  | lr => rfl
  | lg => rfl
  | p => rfl
  | m => rfl

theorem parseInfoTy_write (t : Ty) : parseInfoTy (writeTy t) = some t := by
  cases t <;> (unfold parseInfoTy writeTy T_INTEGER T_FLOAT T_FLAG T_CHARACTER T_STRING; decide)

theorem parseFormatTy_write (t : Ty) (ht : t ≠ .flag) : parseFormatTy (writeTy t) = some t := by
  unfold parseFormatTy
  rw [parseInfoTy_write]
  cases t <;> first | exact absurd rfl ht | rfl

/-- the written INFO line, without its line feed, reads back as the same INFO record -/
theorem info_line (D : DefTables) (maj min : Nat) (l : InfoL) (h : InfoLOk STD_TYPED l)
    (hn : InfoNum l.num) (hdef : defOk (D.info maj min) l = true) :
    ∃ line, writeInfoL K_INFO l = line ++ [10] ∧ parseRecordLine D maj min line = some (.info l) := by
  refine ⟨[35, 35] ++ K_INFO ++ [61, 60] ++ ID ++ 61 :: (FV.raw l.id).text ++
      fieldsText (typedFields l) ++ [62], by rw [writeInfoL_eq]; simp, ?_⟩
  have hp := parseTypedMap_line parseInfoNum parseInfoTy l h (parseInfoNum_write l.num hn h.count)
    (parseInfoTy_write l.ty) []
  have hk : parseFieldKey (K_INFO ++ 61 :: (60 :: (ID ++ 61 :: (FV.raw l.id).text ++ fieldsText (typedFields l) ++ [62])))
      = some (K_INFO, 60 :: (ID ++ 61 :: (FV.raw l.id).text ++ fieldsText (typedFields l) ++ [62])) :=
    parseFieldKey_stop K_INFO _ (by unfold K_INFO; decide)
  have e : [35, 35] ++ K_INFO ++ [61, 60] ++ ID ++ 61 :: (FV.raw l.id).text ++ fieldsText (typedFields l) ++ [62]
      = 35 :: 35 :: (K_INFO ++ 61 :: (60 :: (ID ++ 61 :: (FV.raw l.id).text ++ fieldsText (typedFields l) ++ [62]))) := by
    simp
  rw [e]
  unfold parseRecordLine
  simp only [hk]
  have n1 : K_INFO ≠ K_FILEFORMAT := by unfold K_INFO K_FILEFORMAT; decide
  simp only [n1, if_false, if_true, hp, hdef]

/-- the written FORMAT line, without its line feed, reads back as the same FORMAT record -/
theorem format_line (D : DefTables) (maj min : Nat) (l : InfoL) (h : InfoLOk STD_TYPED l)
    (ht : l.ty ≠ .flag) (hdef : defOk (D.format maj min) l = true) :
    ∃ line, writeInfoL K_FORMAT l = line ++ [10] ∧ parseRecordLine D maj min line = some (.format l) := by
  refine ⟨[35, 35] ++ K_FORMAT ++ [61, 60] ++ ID ++ 61 :: (FV.raw l.id).text ++
      fieldsText (typedFields l) ++ [62], by rw [writeInfoL_eq]; simp, ?_⟩
  have hp := parseTypedMap_line parseFormatNum parseFormatTy l h (parseFormatNum_write l.num h.count)
    (parseFormatTy_write l.ty ht) []
  have hk : parseFieldKey (K_FORMAT ++ 61 :: (60 :: (ID ++ 61 :: (FV.raw l.id).text ++ fieldsText (typedFields l) ++ [62])))
      = some (K_FORMAT, 60 :: (ID ++ 61 :: (FV.raw l.id).text ++ fieldsText (typedFields l) ++ [62])) :=
    parseFieldKey_stop K_FORMAT _ (by unfold K_FORMAT; decide)
  have e : [35, 35] ++ K_FORMAT ++ [61, 60] ++ ID ++ 61 :: (FV.raw l.id).text ++ fieldsText (typedFields l) ++ [62]
      = 35 :: 35 :: (K_FORMAT ++ 61 :: (60 :: (ID ++ 61 :: (FV.raw l.id).text ++ fieldsText (typedFields l) ++ [62]))) := by
    simp
  rw [e]
  unfold parseRecordLine
  simp only [hk]
  have n1 : K_FORMAT ≠ K_FILEFORMAT := by unfold K_FORMAT K_FILEFORMAT; decide
  have n2 : K_FORMAT ≠ K_INFO := by unfold K_FORMAT K_INFO; decide
  have n3 : K_FORMAT ≠ K_FILTER := by unfold K_FORMAT K_FILTER; decide
  simp only [n1, n2, n3, if_false, if_true, hp, hdef]

end Noodles.Vcf.Header
