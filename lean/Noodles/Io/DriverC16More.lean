import Noodles.Io.DriverC16Formats
import Noodles.Io.DriverC12More
import Noodles.Io.AsyncMore
import Noodles.Bgzf.SinkModel
/-! Line-protocol handler for the second C16 format extension (`c16 m-… `), the models of
`Noodles/Io/AsyncMore.lean`.  Argument syntax as in `DriverC16Formats` (`<asched>`, `<fb>`, `<asks>`)
and `DriverC12` (`<ssched>`); `<cap>` / `<scap>` = capacity of the tokio / std `BufReader`.

* `c16 m-tok <data> <asched> <fb> <cap> <ops>` — on `tokio::io::BufReader::with_capacity(cap, src)`:
  `b` = `read_u8()`, `l` = `read_until(b'\n')` + LF/CRLF strip (the noodles `read_line`)
* `c16 m-fq <data> <asched> <fb> <cap> <ssched> <scap>` — FASTQ `read_record` until 0 / error, both sides
* `c16 m-fa <sync 0|1> <data> <asched> <fb> <cap> <ssched> <scap>` — FASTA `read_definition` +
  `read_sequence` until 0 / error (async, with the value `read_sequence` returned), and (`sync = 1`,
  well-formed sequence lines) the sync `records()`
* `c16 m-ln <mode each|index> <utf8 0|1> <table> <data> <asched> <fb> <cap> <ssched> <scap>` — "one
  line, then parse it" readers; `<table>` as in `c12 lines`
* `c16 m-lz <sam|vcf> <data> <asched> <fb> <cap> <ssched> <scap>` — lazy `read_record` until 0 / error
* `c16 m-bcf <data> <asched> <fb> <asks> <ssched>` — BCF `read_record` until 0 / error on a raw stream
* `c16 m-bai <data> <asched> <fb> <asks> <ssched>` — BAI `read_index`
* `c16 m-tbi <data>` / `c16 m-csi <data>` — tabix / CSI `read_index` (payload of the BGZF file; the
  answer does not depend on the schedule — `runA_spec` — and the real readers sit behind the async BGZF
  reader, so none is given); the sync side is the reader AFTER the `fix:` diffs (`fixed = true`)
* `c16 m-wr <asched> <fb> <ssched> <pieces>` — `write_all` of every piece (hex, comma-separated, `-` =
  empty piece, `_` = no pieces) into the scripted async sink / sync sink
* `c16 m-fqw <sep> <rec;…>` / `c16 m-faw <width> <rec;…>` — the pieces the FASTQ / FASTA writers hand to
  `write_all` for records `name.desc.seq.qual` / `name.desc|~.seq` (`~` = no description)
-/
namespace Noodles.IO.Async
open Noodles.Wire hiding Bytes
open Noodles.IO
open Noodles.Bgzf.Async (Poll1 Poll)

def mkABuf (d : Bytes) (sc : List Poll1) (fb : Nat) : ABuf (ASrc UInt8) UInt8 := ⟨[], ⟨d, sc, fb, 0, 0⟩⟩

/-- stream position of a buffered async reader, `poll_read` calls and `Pending` answers of its source -/
def tailB (d : Bytes) (b : ABuf (ASrc UInt8) UInt8) : String :=
  s!"@{d.length - (b.stream scripted).length} s{b.inner.polls} p{b.inner.pendings}"

def runTokB (cap : Nat) : List Char → ABuf (ASrc UInt8) UInt8 → List String → List String × ABuf (ASrc UInt8) UInt8
  | [], b, acc => (acc.reverse, b)
  | 'b' :: ops, b, acc =>
    match readU8A scripted cap b with
    | (.ok x, b') => runTokB cap ops b' (toString x.toNat :: acc)
    | (.error e, b') => runTokB cap ops b' (errStr e :: acc)
  | _ :: ops, b, acc =>
    match readLineA scripted cap b with
    | (.ok (n, l), b') => runTokB cap ops b' (s!"{n}:{hex l}" :: acc)
    | (.error e, b') => runTokB cap ops b' (errStr e :: acc)

def fqStr (x : Nat × FastqRec) : String :=
  s!"{x.1}:{hex x.2.name}:{hex x.2.description}:{hex x.2.sequence}:{hex x.2.quality}"

/-- the async FASTA loop of the harness: `read_definition`, `read_sequence` (a fresh `Vec`), until
`read_definition` returns 0 or something fails -/
def faLoopA (cap : Nat) : Nat → ABuf (ASrc UInt8) UInt8 → List String → List String × Option Err × ABuf (ASrc UInt8) UInt8
  | 0, b, acc => (acc.reverse, some .fuel, b)
  | fuel+1, b, acc =>
    match readParsedLineA false parseDefinition scripted cap b with
    | (.error e, b1) => (acc.reverse, some e, b1)
    | (.ok none, b1) => (acc.reverse, none, b1)
    | (.ok (some (n, (name, desc))), b1) =>
      match readSequenceA true scripted cap b1 with
      | (.error e, b2) => (acc.reverse, some e, b2)
      | (.ok (sq, m), b2) => faLoopA cap fuel b2 (s!"{n}:{hex name}:{hex desc}:{m}:{hex sq}" :: acc)

def parsePieces (s : String) : Option (List Bytes) :=
  if s = "_" then some [] else (s.splitOn ",").mapM unhex

def sinkTail (s : ASink UInt8) : String := s!"s{s.polls} p{s.pendings}"

def parseSinkSched (s : String) : Option (List Noodles.Bgzf.SM.Step) :=
  (parseSched s).map fun l => l.map fun
    | .chunk n => Noodles.Bgzf.SM.Step.accept n
    | .interrupted => Noodles.Bgzf.SM.Step.interrupted

def parseFqRec (s : String) : Option FastqRec :=
  match s.splitOn "." with
  | [a, b, c, d] => do pure ⟨← unhex a, ← unhex b, ← unhex c, ← unhex d⟩
  | _ => none

def parseFaRec (s : String) : Option (Bytes × Option Bytes × Bytes) :=
  match s.splitOn "." with
  | [a, b, c] => do
    let desc ← if b = "~" then some none else (unhex b).map some
    pure (← unhex a, desc, ← unhex c)
  | _ => none

/-- `write_all` of an empty buffer polls nothing: empty pieces are not observable and are left out -/
def piecesStr (ps : List Bytes) : String :=
  let ps := ps.filter (fun p => !p.isEmpty)
  if ps.isEmpty then "_" else ",".intercalate (ps.map hex)

def idxA {β : Type} (p : Prog β) (d : Bytes) : Except Err β :=
  (p.runA scripted (fun _ => 32) ⟨d, [.pending, .ready 3, .ready 1, .pending, .pending, .ready 70], 5, 0, 0⟩).1

def handleC16More? : List String → Option String
  | ["m-tok", data, asched, fb, cap, ops] =>
    match unhex data, parseASched asched, fb.toNat?, cap.toNat? with
    | some d, some sc, some fb, some cap =>
      if cap = 0 then some "bad-op" else
      let r := runTokB cap (if ops = "-" then [] else ops.toList) (mkABuf d sc fb) []
      some s!"{joinOr "," r.1} {tailB d r.2}"
    | _, _, _, _ => some "bad-op"
  | ["m-fq", data, asched, fb, cap, ssched, scap] =>
    match unhex data, parseASched asched, fb.toNat?, cap.toNat?, parseSched ssched, scap.toNat? with
    | some d, some sc, some fb, some cap, some ss, some scap =>
      if cap = 0 || scap = 0 then some "bad-op" else
      let a := fastqRecordsAllA scripted cap (mkABuf d sc fb)
      let s := fastqRecordsAll true (BufR.ofSrc ⟨d, ss⟩ scap)
      some (s!"A recs={joinOr "," (a.1.1.map fqStr)} end={endStr a.1.2}{tailB d a.2}" ++
        s!" | S recs={joinOr "," (s.1.1.map fqStr)} end={endStr s.1.2}@{d.length - s.2.stream.length}")
    | _, _, _, _, _, _ => some "bad-op"
  | ["m-fa", sync, data, asched, fb, cap, ssched, scap] =>
    match unhex data, parseASched asched, fb.toNat?, cap.toNat?, parseSched ssched, scap.toNat? with
    | some d, some sc, some fb, some cap, some ss, some scap =>
      if cap = 0 || scap = 0 then some "bad-op" else
      let a := faLoopA cap (d.length + 1) (mkABuf d sc fb) []
      let sa := s!"A recs={joinOr "," a.1} end={endStr a.2.1}{tailB d a.2.2}"
      if sync = "1" then
        let ssn := match fastaRecordsAll noSizes (BufR.ofSrc ⟨d, ss⟩ scap) with
          | (.ok (recs, e), b') =>
            let rs := recs.map fun (r : FastaRec) => s!"{hex r.name}:{hex r.description}:{hex r.sequence}"
            s!"recs={joinOr "," rs} end={endStr e}@{d.length - b'.stream.length}"
          | (.error e, b') => s!"recs=- end={errStr e}@{d.length - b'.stream.length}"
        some s!"{sa} | S {ssn}"
      else some s!"{sa} | S -"
    | _, _, _, _, _, _ => some "bad-op"
  | ["m-ln", mode, utf8, table, data, asched, fb, cap, ssched, scap] =>
    match parseTable table, unhex data, parseASched asched, fb.toNat?, cap.toNat?, parseSched ssched, scap.toNat? with
    | some t, some d, some sc, some fb, some cap, some ss, some scap =>
      if cap = 0 || scap = 0 then some "bad-op" else
      let a := parsedLinesAllA (utf8 = "1") (tableParse t) scripted cap (mkABuf d sc fb)
      let s := parsedLinesAll (utf8 = "1") (tableParse t) (BufR.ofSrc ⟨d, ss⟩ scap)
      if mode = "each" then
        let sa := s!"recs={joinOr "," (a.1.1.map fun x => s!"{x.1}:{x.2}")} end={endStr a.1.2}{tailB d a.2}"
        some s!"A {sa} | S {linesAnswer id d s}"
      else
        let sa := match a.1.2 with
          | none => s!"recs={joinOr "," (a.1.1.map fun (x : Nat × String) => x.2)} end=eof{tailB d a.2}"
          | some e => s!"recs=- end={errStr e}"
        let ssn := match s with
          | (.ok (recs, none), b') => s!"recs={joinOr "," (recs.map fun (x : Nat × String) => x.2)} end=eof@{d.length - b'.stream.length}"
          | (.ok (_, some e), _) => s!"recs=- end={errStr e}"
          | (.error e, _) => s!"recs=- end={errStr e}"
        some s!"A {sa} | S {ssn}"
    | _, _, _, _, _, _, _ => some "bad-op"
  | ["m-lz", kind, data, asched, fb, cap, ssched, scap] =>
    match unhex data, parseASched asched, fb.toNat?, cap.toNat?, parseSched ssched, scap.toNat? with
    | some d, some sc, some fb, some cap, some ss, some scap =>
      if cap = 0 || scap = 0 then some "bad-op" else
      let vcf := kind = "vcf"
      let recStr := if vcf then vcfRecStr else samRecStr
      let rd : RdB LazyRec := if vcf then vcfReadRecord else samReadRecord
      let a := lazyRecordsAllA vcf rd scripted cap (mkABuf d sc fb)
      let s := if vcf then vcfRecordsAll (BufR.ofSrc ⟨d, ss⟩ scap) else samRecordsAll (BufR.ofSrc ⟨d, ss⟩ scap)
      -- after a failed record the two readers have consumed different amounts (the async one the whole
      -- line): positions and poll counts are printed only when the stream was read to its end
      let ta := match a.1.2 with | none => tailB d a.2 | some _ => ""
      let ssn := match s with
        | (.ok (recs, none), b') => s!"recs={joinOr "," (recs.map recStr)} end=eof@{d.length - b'.stream.length}"
        | (.ok (recs, some e), _) => s!"recs={joinOr "," (recs.map recStr)} end={errStr e}"
        | (.error e, _) => s!"recs=- end={errStr e}"
      some (s!"A recs={joinOr "," (a.1.1.map recStr)} end={endStr a.1.2}{ta} | S {ssn}")
    | _, _, _, _, _, _ => some "bad-op"
  | ["m-bcf", data, asched, fb, asks, ssched] =>
    match unhex data, parseASched asched, fb.toNat?, parseAsks asks, parseSched ssched with
    | some d, some sc, some fb, some asks, some ss =>
      let p := Prog.bcfRecords bcfIndexParam (d.length + 1) []
      let sa := match p.runA scripted (askOf asks) ⟨d, sc, fb, 0, 0⟩ with
        | (.ok (recs, e), s') => s!"recs={joinOr "," (recs.map bcfRecStr)} end={endStr e}{tailA d.length (d.length - s'.data.length) s'}"
        | (.error e, s') => s!"recs=- end={errStr e}{tailA d.length (d.length - s'.data.length) s'}"
      let ssn := match Prog.run noSizes p ⟨d, ss⟩ with
        | (.ok (recs, e), s') => s!"recs={joinOr "," (recs.map bcfRecStr)} end={endStr e}@{d.length - s'.data.length}"
        | (.error e, s') => s!"recs=- end={errStr e}@{d.length - s'.data.length}"
      some s!"A {sa} | S {ssn}"
    | _, _, _, _, _ => some "bad-op"
  | ["m-bai", data, asched, fb, asks, ssched] =>
    match unhex data, parseASched asched, fb.toNat?, parseAsks asks, parseSched ssched with
    | some d, some sc, some fb, some asks, some ss =>
      let sa := match Prog.baiReadIndexA.runA scripted (askOf asks) ⟨d, sc, fb, 0, 0⟩ with
        | (.ok ix, s') => s!"ok {Noodles.Index.fmtBai ix} {tailA d.length (d.length - s'.data.length) s'}"
        | (.error e, s') => s!"{errStr e} s{s'.polls} p{s'.pendings}"
      let ssn := match Prog.run noSizes Prog.baiReadIndex ⟨d, ss⟩ with
        | (.ok ix, s') => s!"ok {Noodles.Index.fmtBai ix} @{d.length - s'.data.length}"
        | (.error e, _) => errStr e
      some s!"A {sa} | S {ssn}"
    | _, _, _, _, _ => some "bad-op"
  | ["m-tbi", data] =>
    match unhex data with
    | some d =>
      let sa := match idxA (Prog.tabixReadIndexA (Prog.tabixHeaderF true)) d with
        | .ok ix => s!"ok {Noodles.Index.fmtTabix ix}"
        | .error e => errStr e
      let ssn := match Prog.run noSizes (Prog.tabixReadIndexF true) ⟨d, []⟩ with
        | (.ok ix, _) => s!"ok {Noodles.Index.fmtTabix ix}"
        | (.error e, _) => errStr e
      some s!"A {sa} | S {ssn}"
    | none => some "bad-op"
  | ["m-csi", data] =>
    match unhex data with
    | some d =>
      let sa := match idxA (Prog.csiReadIndexA (Prog.tabixHeaderF true)) d with
        | .ok ix => s!"ok {Noodles.Index.fmtCsi ix}"
        | .error e => errStr e
      let ssn := match Prog.run noSizes (Prog.csiReadIndexF true) ⟨d, []⟩ with
        | (.ok ix, _) => s!"ok {Noodles.Index.fmtCsi ix}"
        | (.error e, _) => errStr e
      some s!"A {sa} | S {ssn}"
    | none => some "bad-op"
  | ["m-wr", asched, fb, ssched, pieces] =>
    match parseASched asched, fb.toNat?, parseSinkSched ssched, parsePieces pieces with
    | some sc, some fb, some ss, some ps =>
      let a := writePiecesA (scriptedW : AWrite (ASink UInt8) UInt8) ps ⟨[], sc, fb, 0, 0⟩
      let ea := match a.1 with | .ok _ => "ok" | .error .writeZero => "err:write-zero" | .error .fuel => "err:fuel"
      let s := Noodles.Bgzf.SM.feed (Noodles.Bgzf.SM.Sink.fresh ss 0 none 0) ps
      let es := match s.1 with | none => "ok" | some _ => "err"
      some s!"A {ea} sink={hex a.2.accepted} {sinkTail a.2} | S {es} sink={hex s.2.accepted}"
    | _, _, _, _ => some "bad-op"
  | ["m-fqw", sep, recs] =>
    match unhex sep, (if recs = "_" then some [] else (recs.splitOn ";").mapM parseFqRec) with
    | some [sp], some rs => some (piecesStr (rs.flatMap (fastqPieces sp)))
    | _, _ => some "bad-op"
  | ["m-faw", width, recs] =>
    match width.toNat?, (if recs = "_" then some [] else (recs.splitOn ";").mapM parseFaRec) with
    | some w, some rs => some (piecesStr (rs.flatMap fun r => fastaPieces w r.1 r.2.1 r.2.2))
    | _, _ => some "bad-op"
  | _ => none

end Noodles.IO.Async
