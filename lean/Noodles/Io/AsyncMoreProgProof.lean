import Noodles.Io.AsyncMore
import Noodles.Io.AsyncLoopsProof
import Noodles.Io.MoreProof
/-!
# Proofs for `Noodles.Io.AsyncMore`, part 1: the `Prog` interpreter and the async index readers
-/
namespace Noodles.IO.Async
open Noodles.IO
open Noodles.Bgzf.Async (Poll1 Poll)

variable {σ α β : Type}

/-- `take(n).read_to_end` awaited under every poll schedule and growth policy: the next `n` bytes (all
there is, if less), and exactly the rest is left -/
theorem readUpToA_spec (A : ARead σ α) (hA : A.Lawful) (ask : Nat × σ → Nat) (hask : ∀ t, 0 < ask t)
    (s : σ) (n : Nat) :
    (readUpToA A ask s n).1 = .ok ((A.rest s).take n) ∧
    A.rest (readUpToA A ask s n).2 = (A.rest s).drop n := by
  have hB := takeRead_lawful A hA
  obtain ⟨r, t', h1, h2, h3⟩ := drive_spec
    (pollReadToEnd (takeRead A) ask (((takeRead A).rest (n, s)).length + 2))
    (fun t => (takeRead A).credit t.2)
    (fun t => t.1 ++ (takeRead A).rest t.2 = (takeRead A).rest (n, s))
    (fun r t' => r = .ok ((takeRead A).rest (n, s)) ∧ (takeRead A).rest t'.2 = [])
    (by
      intro t ht
      have hl : ((takeRead A).rest t.2).length ≤ ((takeRead A).rest (n, s)).length := by
        rw [← ht]; simp
      obtain ⟨p1, p2⟩ := pollReadToEnd_spec (takeRead A) hB ask hask
        (((takeRead A).rest (n, s)).length + 2) t.1 t.2 (by omega)
      rw [ht] at p1 p2
      exact ⟨p1, p2⟩)
    (A.credit s + 1) ([], (n, s)) (by simp) (by simp [takeRead])
  have hpres := drive_pres (pollReadToEnd (takeRead A) ask (((takeRead A).rest (n, s)).length + 2))
    (fun t => afterTake A t.2)
    (fun t => pollReadToEnd_pres (takeRead A) (afterTake A) (takeRead_after A hA) ask _ t)
    (A.credit s + 1) ([], (n, s))
  rw [h1] at hpres
  simp only [afterTake] at hpres
  simp only [takeRead] at h3
  have hrest : A.rest t'.2.2 = (A.rest s).drop n := by
    rw [← List.take_append_drop t'.2.1 (A.rest t'.2.2), h3, hpres, List.nil_append]
  subst h2
  simp only [readUpToA, await, h1]
  exact ⟨rfl, hrest⟩

/-- **A `Prog` run on a lawful async source computes `runPure` of the bytes that are left** — what
`Prog.run_spec` proves for the sync run -/
theorem runA_spec (A : ARead σ UInt8) (hA : A.Lawful) (ask : Nat × σ → Nat) (hask : ∀ t, 0 < ask t)
    (p : Prog β) (s : σ) :
    (p.runA A ask s).1 = (Prog.runPure p (A.rest s)).1 ∧
    A.rest (p.runA A ask s).2 = (Prog.runPure p (A.rest s)).2 := by
  induction p generalizing s with
  | ret b => exact ⟨rfl, rfl⟩
  | fail e => exact ⟨rfl, rfl⟩
  | exact n k ih =>
    obtain ⟨h1, h2⟩ := readExactA_spec A hA s n
    simp only [Prog.runA, Prog.runPure]
    rw [h1]
    have := ih (specReadExact (A.rest s) n).1 (readExactA A s n).2
    rw [h2] at this
    exact this
  | exactOrEof n k ih =>
    obtain ⟨h1, h2⟩ := readExactOrEofA_spec A hA s n
    simp only [Prog.runA, Prog.runPure]
    rw [h1]
    have := ih (specReadExactOrEof (A.rest s) n).1 (readExactOrEofA A s n).2
    rw [h2] at this
    exact this
  | upTo n k ih =>
    obtain ⟨h1, h2⟩ := readUpToA_spec A hA ask hask s n
    simp only [Prog.runA, Prog.runPure]
    rcases h : readUpToA A ask s n with ⟨r, s'⟩
    rw [h] at h1 h2
    simp only at h1 h2
    subst h1
    simp only
    have := ih ((A.rest s).take n) s'
    rw [h2] at this
    exact this

theorem runA_eq_sync (A : ARead σ UInt8) (hA : A.Lawful) (ask : Nat × σ → Nat) (hask : ∀ t, 0 < ask t)
    (sz : Nat → List Nat) (p : Prog β) (s : σ) (src : Src UInt8) (h : A.rest s = src.data) :
    (p.runA A ask s).1 = (Prog.run sz p src).1 ∧
    A.rest (p.runA A ask s).2 = (Prog.run sz p src).2.data := by
  obtain ⟨a1, a2⟩ := runA_spec A hA ask hask p s
  obtain ⟨b1, b2⟩ := Prog.run_spec sz p src
  rw [a1, a2, b1, b2, h]; exact ⟨rfl, rfl⟩

end Noodles.IO.Async

namespace Noodles.IO.Prog
open Noodles.Index (Chunk Meta Bins RefLin Bai Tabix Header Format RefCsi CsiIndex)
variable {β γ : Type}

/-- whatever `p` accepts, `q` accepts with the same value and the same bytes left -/
def Refines (p q : Prog β) : Prop := ∀ d x r, runPure p d = (.ok x, r) → runPure q d = (.ok x, r)

/-! ### the `do` notation, closure properties of `Refines` -/

theorem bind_eq {β γ : Type} (p : Prog β) (f : β → Prog γ) : (p >>= f) = Prog.bind p f := rfl
theorem pure_eq {β : Type} (b : β) : (pure b : Prog β) = ret b := rfl

theorem Refines.refl (p : Prog β) : Refines p p := fun _ _ _ h => h

theorem Refines.of_eq {p q : Prog β} (h : p = q) : Refines p q := h ▸ Refines.refl p

theorem Refines.trans {p q r : Prog β} (h1 : Refines p q) (h2 : Refines q r) : Refines p r :=
  fun d x t h => h2 d x t (h1 d x t h)

theorem Refines.fail (e : Err) (q : Prog β) : Refines (Prog.fail e) q := by
  intro d x r h
  simp [runPure] at h

theorem Refines.bind {p p' : Prog β} {f f' : β → Prog γ} (hp : Refines p p')
    (hf : ∀ a, Refines (f a) (f' a)) : Refines (Prog.bind p f) (Prog.bind p' f') := by
  intro d x r h
  rw [runPure_bind] at h ⊢
  rcases e : runPure p d with ⟨res, d'⟩
  rw [e] at h
  cases res with
  | error err => simp at h
  | ok a =>
    rw [hp d a d' e]
    exact hf a d' x r h

theorem runPure_mapErrInvalid (p : Prog β) (d : Bytes) :
    runPure (mapErrInvalid p) d =
      match runPure p d with
      | (.ok a, d') => (.ok a, d')
      | (.error _, d') => (.error .invalidData, d') := by
  unfold mapErrInvalid
  rw [runPure_bind, runPure_attempt]
  rcases runPure p d with ⟨res, d'⟩
  cases res <;> rfl

theorem Refines.mapErrInvalid_left {p q : Prog β} (h : Refines p q) : Refines (mapErrInvalid p) q := by
  intro d x r hr
  rw [runPure_mapErrInvalid] at hr
  rcases e : runPure p d with ⟨res, d'⟩
  rw [e] at hr
  cases res with
  | error err => simp at hr
  | ok a =>
    simp only [Prod.mk.injEq, Except.ok.injEq] at hr
    obtain ⟨rfl, rfl⟩ := hr
    exact h d a d' e

theorem Refines.many {p q : Prog β} (h : Refines p q) (n : Nat) : Refines (many p n) (many q n) := by
  induction n with
  | zero => exact Refines.refl _
  | succ n ih =>
    exact Refines.bind h fun a => Refines.bind ih fun as => Refines.refl _

theorem Refines.ite {c : Prop} [Decidable c] {p p' q q' : Prog β} (h1 : Refines p p') (h2 : Refines q q') :
    Refines (if c then p else q) (if c then p' else q') := by
  by_cases h : c
  · rw [if_pos h, if_pos h]; exact h1
  · rw [if_neg h, if_neg h]; exact h2

theorem i32leNonneg_refines_u32le : Refines i32leNonneg u32le := by
  intro d x r h
  unfold i32leNonneg at h
  rw [runPure_bind] at h
  rcases e : runPure u32le d with ⟨res, d'⟩
  rw [e] at h
  cases res with
  | error err => simp at h
  | ok a =>
    simp only at h
    by_cases ha : a < 2 ^ 31
    · rw [if_pos ha] at h
      simp only [runPure, Prod.mk.injEq, Except.ok.injEq] at h
      obtain ⟨rfl, rfl⟩ := h
      rfl
    · rw [if_neg ha] at h
      simp [runPure] at h

/-! ### BAI (and the reference sequences of tabix) -/

theorem chunks_refines (signed : Bool) : Refines chunks (chunksA signed) := by
  cases signed
  · exact Refines.bind i32leNonneg_refines_u32le fun n => Refines.refl _
  · exact Refines.refl _

theorem binsLinear_refines (signed : Bool) (metaId n : Nat) (bins : Bins) (md : Option Meta) :
    Refines (binsLinear metaId n bins md) (binsLinearA signed metaId n bins md) := by
  induction n generalizing bins md with
  | zero => exact Refines.refl _
  | succ n ih =>
    unfold binsLinear binsLinearA
    refine Refines.bind (Refines.refl _) fun id => ?_
    refine Refines.ite ?_ ?_
    · refine Refines.bind (Refines.mapErrInvalid_left (Refines.refl _)) fun m => ?_
      exact Refines.ite (Refines.refl _) (ih _ _)
    · refine Refines.bind (Refines.mapErrInvalid_left (chunks_refines signed)) fun cs => ?_
      exact Refines.ite (Refines.refl _) (ih _ _)

theorem refLinear_refines (signed : Bool) : Refines (refLinear signed) (refLinearA signed) := by
  unfold refLinear refLinearA
  refine Refines.bind (Refines.refl _) fun n => ?_
  refine Refines.bind (binsLinear_refines signed _ n [] none) fun x => ?_
  exact Refines.refl _

theorem baiReadIndex_refines : Refines baiReadIndex baiReadIndexA := by
  unfold baiReadIndex baiReadIndexA
  refine Refines.bind (Refines.refl _) fun _ => ?_
  refine Refines.bind (Refines.refl _) fun nRef => ?_
  refine Refines.bind (Refines.many (refLinear_refines false) nRef) fun refs => ?_
  exact Refines.refl _

/-! ### the bytes a reader leaves do not matter -/

theorem runPure_nil_rest (p : Prog β) : (runPure p []).2 = [] := by
  have := runPure_le p []
  exact List.eq_nil_of_length_eq_zero (by simpa using this)

/-- **the bytes a reader does not consume do not matter**: a run that leaves `r` is a run on the
bytes before `r` that leaves nothing -/
theorem runPure_split (p : Prog β) (d : Bytes) (res : Except Err β) (r : Bytes)
    (h : runPure p d = (res, r)) : ∃ c, d = c ++ r ∧ runPure p c = (res, []) := by
  induction p generalizing d with
  | ret b =>
    simp only [runPure, Prod.mk.injEq] at h
    obtain ⟨rfl, rfl⟩ := h
    exact ⟨[], rfl, rfl⟩
  | fail e =>
    simp only [runPure, Prod.mk.injEq] at h
    obtain ⟨rfl, rfl⟩ := h
    exact ⟨[], rfl, rfl⟩
  | exact n k ih =>
    by_cases hn : n ≤ d.length
    · simp only [runPure, specReadExact, if_pos hn] at h
      obtain ⟨c', hc1, hc2⟩ := ih _ _ h
      refine ⟨d.take n ++ c', ?_, ?_⟩
      · rw [List.append_assoc, ← hc1, List.take_append_drop]
      · have hl : (d.take n).length = n := by simp [List.length_take]; omega
        have hn' : n ≤ (d.take n ++ c').length := by simp [List.length_append, hl]
        simp only [runPure, specReadExact, if_pos hn', List.take_left' hl, List.drop_left' hl]
        exact hc2
    · have hr : r = [] := by
        have := runPure_nil_rest (k (.error .eof))
        simp only [runPure, specReadExact, if_neg hn] at h
        rw [h] at this; exact this
      subst hr
      exact ⟨d, by simp, h⟩
  | exactOrEof n k ih =>
    by_cases hn : n ≤ d.length
    · simp only [runPure, specReadExactOrEof, if_pos hn] at h
      obtain ⟨c', hc1, hc2⟩ := ih _ _ h
      refine ⟨d.take n ++ c', ?_, ?_⟩
      · rw [List.append_assoc, ← hc1, List.take_append_drop]
      · have hl : (d.take n).length = n := by simp [List.length_take]; omega
        have hn' : n ≤ (d.take n ++ c').length := by simp [List.length_append, hl]
        simp only [runPure, specReadExactOrEof, if_pos hn', List.take_left' hl, List.drop_left' hl]
        exact hc2
    · have hr : r = [] := by
        simp only [runPure, specReadExactOrEof, if_neg hn] at h
        by_cases h0 : d.length = 0
        · rw [if_pos h0] at h
          have := runPure_nil_rest (k (.ok []))
          rw [h] at this; exact this
        · rw [if_neg h0] at h
          have := runPure_nil_rest (k (.error .eof))
          rw [h] at this; exact this
      subst hr
      exact ⟨d, by simp, h⟩
  | upTo n k ih =>
    simp only [runPure] at h
    obtain ⟨c', hc1, hc2⟩ := ih _ _ h
    refine ⟨d.take n ++ c', ?_, ?_⟩
    · rw [List.append_assoc, ← hc1, List.take_append_drop]
    · simp only [runPure]
      by_cases hn : n ≤ d.length
      · have hl : (d.take n).length = n := by simp [List.length_take]; omega
        rw [List.take_left' hl, List.drop_left' hl]
        exact hc2
      · have hd : d.drop n = [] := List.drop_of_length_le (by omega)
        have ht : d.take n = d := List.take_of_length_le (by omega)
        rw [hd] at hc1
        have hc' : c' = [] := by
          cases c' with
          | nil => rfl
          | cons a as => simp at hc1
        subst hc'
        rw [ht, List.append_nil, List.take_of_length_le (by omega), List.drop_of_length_le (by omega)]
        rw [ht] at hc2
        exact hc2
/-! ### readers that consume a fixed number of bytes; the tabix header -/

/-- on success `p` has consumed exactly `k` bytes -/
def Consumes (p : Prog β) (k : Nat) : Prop :=
  ∀ d x r, runPure p d = (.ok x, r) → k ≤ d.length ∧ r = d.drop k

theorem Consumes.ret (b : β) : Consumes (ret b) 0 := by
  intro d x r h
  simp only [runPure, Prod.mk.injEq] at h
  exact ⟨Nat.zero_le _, by simp [h.2]⟩

theorem Consumes.fail (e : Err) (k : Nat) : Consumes (Prog.fail e : Prog β) k := by
  intro d x r h
  simp [runPure] at h

theorem Consumes.ite {c : Prop} [Decidable c] {p q : Prog β} {k : Nat} (hp : Consumes p k)
    (hq : Consumes q k) : Consumes (if c then p else q) k := by
  by_cases h : c
  · rw [if_pos h]; exact hp
  · rw [if_neg h]; exact hq

/-- what a successful `p >>= f` says about `f` when `p` consumes `k` bytes -/
theorem Consumes.step {p : Prog β} {k : Nat} (hp : Consumes p k) (f : β → Prog γ) (d : Bytes) (x : γ)
    (r : Bytes) (h : runPure (Prog.bind p f) d = (.ok x, r)) :
    k ≤ d.length ∧ ∃ a, runPure (f a) (d.drop k) = (.ok x, r) := by
  rw [runPure_bind] at h
  rcases e : runPure p d with ⟨res, d'⟩
  rw [e] at h
  cases res with
  | error err => simp at h
  | ok a =>
    obtain ⟨h1, h2⟩ := hp d a d' e
    subst h2
    exact ⟨h1, a, h⟩

theorem Consumes.bind {p : Prog β} {f : β → Prog γ} {k m : Nat} (hp : Consumes p k)
    (hf : ∀ a, Consumes (f a) m) : Consumes (Prog.bind p f) (k + m) := by
  intro d x r h
  obtain ⟨h1, a, h2⟩ := hp.step f d x r h
  obtain ⟨h3, h4⟩ := hf a _ x r h2
  simp only [List.length_drop] at h3
  exact ⟨by omega, by rw [h4, List.drop_drop]⟩

theorem readExact_consumes (n : Nat) : Consumes (readExact n) n := by
  intro d x r h
  rw [readExact_pure] at h
  by_cases hn : n ≤ d.length
  · rw [if_pos hn] at h
    simp only [Prod.mk.injEq] at h
    exact ⟨hn, h.2.symm⟩
  · rw [if_neg hn] at h; simp at h

theorem u32le_consumes : Consumes u32le 4 :=
  Consumes.bind (readExact_consumes 4) fun _ => Consumes.ret _

theorem i32leNonneg_consumes : Consumes i32leNonneg 4 :=
  Consumes.bind u32le_consumes fun _ => Consumes.ite (Consumes.ret _) (Consumes.fail _ _)

theorem column_consumes : Consumes column 4 :=
  Consumes.bind u32le_consumes fun _ => Consumes.ite (Consumes.ret _) (Consumes.fail _ _)

theorem columnEnd_consumes (f : Format) (cb : Nat) : Consumes (columnEnd f cb) 4 := by
  unfold columnEnd
  refine Consumes.ite ?_ ?_
  · exact Consumes.bind u32le_consumes fun _ => Consumes.ite (Consumes.ret _) (Consumes.fail _ _)
  · exact Consumes.bind column_consumes fun _ => Consumes.ite (Consumes.ret _) (Consumes.ret _)

/-- a successful `read_i32_le` + `usize::try_from`: the value read -/
theorem i32leNonneg_ok (d : Bytes) (l : Nat) (r : Bytes) (h : runPure i32leNonneg d = (.ok l, r)) :
    4 ≤ d.length ∧ l = leNat (d.take 4) ∧ l < 2 ^ 31 ∧ r = d.drop 4 := by
  unfold i32leNonneg u32le at h
  rw [runPure_bind, runPure_bind, readExact_pure] at h
  by_cases hn : 4 ≤ d.length
  · rw [if_pos hn] at h
    simp only [runPure] at h
    by_cases hl : leNat (d.take 4) < 2 ^ 31
    · rw [if_pos hl] at h
      simp only [runPure, Prod.mk.injEq, Except.ok.injEq] at h
      exact ⟨hn, h.1.symm, h.1 ▸ hl, h.2.symm⟩
    · rw [if_neg hl] at h; simp [runPure] at h
  · rw [if_neg hn] at h; simp at h

/-- the fixed `read_reference_sequence_names` accepts only when all `l_nm` bytes are there -/
theorem namesF_true_ok (e : Bytes) (ns : List Bytes) (r : Bytes)
    (h : runPure (namesF true) e = (.ok ns, r)) :
    4 ≤ e.length ∧ leNat (e.take 4) < 2 ^ 31 ∧ leNat (e.take 4) ≤ (e.drop 4).length ∧
      r = (e.drop 4).drop (leNat (e.take 4)) := by
  unfold namesF at h
  rw [bind_eq, runPure_bind] at h
  rcases e1 : runPure i32leNonneg e with ⟨res, d'⟩
  rw [e1] at h
  cases res with
  | error err => simp at h
  | ok l =>
    obtain ⟨h1, h2, h3, h4⟩ := i32leNonneg_ok e l d' e1
    subst h4
    simp only [runPure] at h
    rw [← h2]
    refine ⟨h1, h3, ?_⟩
    cases hn : Noodles.Index.namesGo ((e.drop 4).take l) [] [] with
    | error x => rw [hn] at h; simp [runPure] at h
    | ok ns' =>
      rw [hn] at h
      simp only at h
      by_cases hl : ((e.drop 4).take l).length < l
      · rw [if_pos (by simp only [Bool.true_and, decide_eq_true_eq]; exact hl)] at h
        simp [runPure] at h
      · rw [if_neg (by simp only [Bool.true_and, decide_eq_true_eq]; exact hl)] at h
        simp only [runPure, Prod.mk.injEq] at h
        simp only [List.length_take] at hl
        exact ⟨by omega, h.2.symm⟩

/-- a header the fixed sync reader accepts: 28 bytes, then exactly `l_nm` (the `i32` at offset 24)
bytes of names, all there -/
theorem tabixHeaderF_true_ok (d : Bytes) (hd : Header) (r : Bytes)
    (h : runPure (tabixHeaderF true) d = (.ok hd, r)) :
    28 ≤ d.length ∧ leNat ((d.drop 24).take 4) < 2 ^ 31 ∧
      28 + leNat ((d.drop 24).take 4) ≤ d.length ∧ r = d.drop (28 + leNat ((d.drop 24).take 4)) := by
  unfold tabixHeaderF at h
  simp only [bind_eq, pure_eq] at h
  obtain ⟨l1, fv, h⟩ := u32le_consumes.step _ _ _ _ h
  cases hf : Noodles.Index.decFormat fv with
  | none => rw [hf] at h; simp [runPure] at h
  | some f =>
    rw [hf] at h
    simp only at h
    obtain ⟨l2, cs, h⟩ := column_consumes.step _ _ _ _ h
    obtain ⟨l3, cb, h⟩ := column_consumes.step _ _ _ _ h
    obtain ⟨l4, ce, h⟩ := (columnEnd_consumes f cb).step _ _ _ _ h
    obtain ⟨l5, m, h⟩ := u32le_consumes.step _ _ _ _ h
    by_cases hm : m < 256
    · rw [if_neg (by simpa using hm)] at h
      obtain ⟨l6, sk, h⟩ := i32leNonneg_consumes.step _ _ _ _ h
      simp only [List.drop_drop, List.length_drop] at l2 l3 l4 l5 l6 h
      rw [runPure_bind] at h
      rcases e1 : runPure (namesF true) (d.drop 24) with ⟨res, d'⟩
      rw [e1] at h
      cases res with
      | error err => simp at h
      | ok ns =>
        obtain ⟨n1, n2, n3, n4⟩ := namesF_true_ok _ ns d' e1
        simp only [runPure, Prod.mk.injEq] at h
        simp only [List.drop_drop, List.length_drop] at n1 n3 n4
        refine ⟨by omega, n2, by omega, ?_⟩
        rw [← h.2, n4]
    · rw [if_pos (by simpa using hm)] at h
      simp [runPure] at h

theorem take_three {α : Type} (d : List α) (a b c : Nat) :
    d.take a ++ (d.drop a).take b ++ ((d.drop a).drop b).take c = d.take (a + b + c) := by
  rw [List.take_add, List.take_add, List.drop_drop]

theorem headerFromSlice_ok (hdr : Prog Header) (buf : Bytes) (h : Header) (r : Bytes)
    (hh : runPure hdr buf = (.ok h, r)) : headerFromSlice hdr buf = ret h := by
  unfold headerFromSlice
  rw [hh]

/-- the async tabix header reader (gather 28 + `l_nm` bytes, then the sync reader on the slice)
accepts what the fixed sync reader accepts -/
theorem tabixHeader_refines : Refines (tabixHeaderF true) (tabixHeaderA (tabixHeaderF true)) := by
  intro d h r hr
  obtain ⟨h1, h2, h3, h4⟩ := tabixHeaderF_true_ok d h r hr
  obtain ⟨c, hc1, hc2⟩ := runPure_split _ d _ r hr
  have hc : c = d.take (28 + leNat ((d.drop 24).take 4)) := by
    apply List.append_cancel_right (bs := r)
    rw [← hc1, h4, List.take_append_drop]
  subst hc
  unfold tabixHeaderA
  simp only [bind_eq]
  rw [runPure_bind, readExact_pure, if_pos (by omega)]
  simp only
  rw [runPure_bind, readExact_pure, if_pos (by simp only [List.length_drop]; omega)]
  simp only
  rw [if_neg (by simpa using h2)]
  simp only [runPure]
  rw [if_neg (by simp only [List.length_take, List.length_drop]; omega)]
  rw [take_three, headerFromSlice_ok _ _ _ _ hc2, h4]
  simp only [runPure, List.drop_drop]

theorem tabixReadIndex_refines :
    Refines (tabixReadIndexF true) (tabixReadIndexA (tabixHeaderF true)) := by
  unfold tabixReadIndexF tabixReadIndexA
  refine Refines.bind (Refines.refl _) fun _ => ?_
  refine Refines.bind (Refines.refl _) fun nRef => ?_
  refine Refines.bind (Refines.mapErrInvalid_left tabixHeader_refines) fun h => ?_
  refine Refines.bind (Refines.many (refLinear_refines true) nRef) fun refs => ?_
  exact Refines.refl _

/-! ### CSI: a reader under `take(l)`, the drained `aux` block -/

theorem drop_window {α : Type} (c t : List α) (l : Nat) (hc : c.length ≤ l) (ht : c.length < l → t = []) :
    (c ++ t).drop l = t := by
  by_cases h : c.length < l
  · rw [ht h, List.append_nil]; exact List.drop_of_length_le (by omega)
  · exact List.drop_left' (by omega)

theorem take_window {α : Type} (c t : List α) (l : Nat) (hc : c.length ≤ l) (ht : c.length < l → t = []) :
    (c ++ t).take l = c := by
  by_cases h : c.length < l
  · rw [ht h, List.append_nil]; exact List.take_of_length_le (by omega)
  · exact List.take_left' (by omega)

theorem take_min_window {α : Type} (c t : List α) (n l : Nat) (hc : c.length ≤ l)
    (ht : c.length < l → t = []) : (c ++ t).take (min n l) = c.take n := by
  by_cases hn : n ≤ l
  · rw [Nat.min_eq_left hn]
    by_cases h : c.length < l
    · rw [ht h, List.append_nil]
    · exact List.take_append_of_le_length (by omega)
  · rw [Nat.min_eq_right (by omega), take_window c t l hc ht]
    exact (List.take_of_length_le (by omega)).symm

theorem drop_min_window {α : Type} (c t : List α) (n l : Nat) (hc : c.length ≤ l)
    (ht : c.length < l → t = []) : (c ++ t).drop (min n l) = c.drop n ++ t := by
  by_cases hn : n ≤ l
  · rw [Nat.min_eq_left hn]
    by_cases h : c.length < l
    · rw [ht h, List.append_nil, List.append_nil]
    · exact List.drop_append_of_le_length (by omega)
  · rw [Nat.min_eq_right (by omega), drop_window c t l hc ht, List.drop_of_length_le (by omega),
      List.nil_append]

/-- the result of `limitRem` given the result of the reader on the window -/
def limRes (rem : Nat) : Except Err β → Except Err (β × Nat)
  | .ok b => .ok (b, rem)
  | .error e => .error e

/-- **a reader under `take(l)`** (`c` = the window: the next `l` bytes, fewer only at the end of the
stream; `t` = what follows) is the reader run on the window; the limit left covers what the reader
leaves of the window, and is exactly that when the window is full -/
theorem limitRem_spec (p : Prog β) (l : Nat) (c t : Bytes) (hc : c.length ≤ l)
    (ht : c.length < l → t = []) :
    ∃ rem, (runPure p c).2.length ≤ rem ∧ (c.length = l → rem = (runPure p c).2.length) ∧
      runPure (limitRem l p) (c ++ t) = (limRes rem (runPure p c).1, (runPure p c).2 ++ t) := by
  induction p generalizing l c with
  | ret b => exact ⟨l, hc, fun h => h.symm, rfl⟩
  | fail e => exact ⟨l, hc, fun h => h.symm, rfl⟩
  | exact n k ih =>
    by_cases hn : n ≤ l
    · simp only [limitRem, if_pos hn]
      by_cases hn2 : n ≤ c.length
      · have hn3 : n ≤ (c ++ t).length := by simp only [List.length_append]; omega
        obtain ⟨rem, r1, r2, r3⟩ := ih (.ok (c.take n)) (l - n) (c.drop n)
          (by simp only [List.length_drop]; omega)
          (fun h => ht (by simp only [List.length_drop] at h; omega))
        refine ⟨rem, ?_, ?_, ?_⟩
        · simpa only [runPure, specReadExact, if_pos hn2] using r1
        · intro h
          simpa only [runPure, specReadExact, if_pos hn2] using r2 (by simp only [List.length_drop]; omega)
        · simp only [runPure, specReadExact, if_pos hn2, if_pos hn3,
            List.take_append_of_le_length hn2, List.drop_append_of_le_length hn2]
          exact r3
      · have htn : t = [] := ht (by omega)
        subst htn
        obtain ⟨rem, r1, r2, r3⟩ := ih (.error .eof) (l - n) [] (Nat.zero_le _) (fun _ => rfl)
        refine ⟨rem, ?_, ?_, ?_⟩
        · simpa only [runPure, specReadExact, if_neg hn2] using r1
        · intro h; omega
        · simp only [List.append_nil] at r3 ⊢
          simp only [runPure, specReadExact, if_neg hn2]
          exact r3
    · simp only [limitRem, if_neg hn]
      have hn2 : ¬ n ≤ c.length := by omega
      obtain ⟨rem, r1, r2, r3⟩ := ih (.error .eof) 0 [] (Nat.le_refl _) (fun h => absurd h (Nat.lt_irrefl _))
      refine ⟨rem, ?_, ?_, ?_⟩
      · simpa only [runPure, specReadExact, if_neg hn2] using r1
      · intro _
        simpa only [runPure, specReadExact, if_neg hn2] using r2 rfl
      · simp only [runPure, specReadExact, if_neg hn2, drop_window c t l hc ht]
        simpa only [List.nil_append] using r3
  | exactOrEof n k ih =>
    by_cases hn : n ≤ l
    · simp only [limitRem, if_pos hn]
      by_cases hn2 : n ≤ c.length
      · have hn3 : n ≤ (c ++ t).length := by simp only [List.length_append]; omega
        obtain ⟨rem, r1, r2, r3⟩ := ih (.ok (c.take n)) (l - n) (c.drop n)
          (by simp only [List.length_drop]; omega)
          (fun h => ht (by simp only [List.length_drop] at h; omega))
        refine ⟨rem, ?_, ?_, ?_⟩
        · simpa only [runPure, specReadExactOrEof, if_pos hn2] using r1
        · intro h
          simpa only [runPure, specReadExactOrEof, if_pos hn2] using
            r2 (by simp only [List.length_drop]; omega)
        · simp only [runPure, specReadExactOrEof, if_pos hn2, if_pos hn3,
            List.take_append_of_le_length hn2, List.drop_append_of_le_length hn2]
          exact r3
      · have htn : t = [] := ht (by omega)
        subst htn
        by_cases h0 : c.length = 0
        · obtain ⟨rem, r1, r2, r3⟩ := ih (.ok []) (l - n) [] (Nat.zero_le _) (fun _ => rfl)
          refine ⟨rem, ?_, ?_, ?_⟩
          · simpa only [runPure, specReadExactOrEof, if_neg hn2, if_pos h0] using r1
          · intro h; omega
          · simp only [List.append_nil] at r3 ⊢
            simp only [runPure, specReadExactOrEof, if_neg hn2, if_pos h0]
            exact r3
        · obtain ⟨rem, r1, r2, r3⟩ := ih (.error .eof) (l - n) [] (Nat.zero_le _) (fun _ => rfl)
          refine ⟨rem, ?_, ?_, ?_⟩
          · simpa only [runPure, specReadExactOrEof, if_neg hn2, if_neg h0] using r1
          · intro h; omega
          · simp only [List.append_nil] at r3 ⊢
            simp only [runPure, specReadExactOrEof, if_neg hn2, if_neg h0]
            exact r3
    · simp only [limitRem, if_neg hn]
      have hn2 : ¬ n ≤ c.length := by omega
      by_cases h0 : c.length = 0
      · obtain ⟨rem, r1, r2, r3⟩ := ih (.ok []) 0 [] (Nat.le_refl _) (fun h => absurd h (Nat.lt_irrefl _))
        refine ⟨rem, ?_, ?_, ?_⟩
        · simpa only [runPure, specReadExactOrEof, if_neg hn2, if_pos h0] using r1
        · intro _
          simpa only [runPure, specReadExactOrEof, if_neg hn2, if_pos h0] using r2 rfl
        · simp only [runPure, specReadExactOrEof, if_neg hn2, if_pos h0, drop_window c t l hc ht,
            take_window c t l hc ht]
          simpa only [List.nil_append] using r3
      · obtain ⟨rem, r1, r2, r3⟩ := ih (.error .eof) 0 [] (Nat.le_refl _) (fun h => absurd h (Nat.lt_irrefl _))
        refine ⟨rem, ?_, ?_, ?_⟩
        · simpa only [runPure, specReadExactOrEof, if_neg hn2, if_neg h0] using r1
        · intro _
          simpa only [runPure, specReadExactOrEof, if_neg hn2, if_neg h0] using r2 rfl
        · simp only [runPure, specReadExactOrEof, if_neg hn2, if_neg h0, drop_window c t l hc ht,
            take_window c t l hc ht]
          simpa only [List.nil_append] using r3
  | upTo n k ih =>
    obtain ⟨rem, r1, r2, r3⟩ := ih (c.take n) (l - (c.take n).length) (c.drop n)
      (by simp only [List.length_drop, List.length_take]; omega)
      (fun h => ht (by simp only [List.length_drop, List.length_take] at h; omega))
    refine ⟨rem, ?_, ?_, ?_⟩
    · simpa only [runPure] using r1
    · intro h
      simpa only [runPure] using r2 (by simp only [List.length_drop, List.length_take]; omega)
    · simp only [limitRem, runPure, take_min_window c t n l hc ht, drop_min_window c t n l hc ht]
      exact r3

theorem i32leNonneg_nil : runPure i32leNonneg [] = (.error .eof, []) := rfl

/-- the fixed sync `read_aux` followed by `F`, against the async `read_aux` followed by `G`: the sync
reader accepts a short `aux` block (the drain stops at the end of the stream), the async one does
not — but then nothing is left for `F` -/
theorem csiAux_refines (hdr : Prog Header) (hh : hdr = tabixHeaderF true)
    (F G : Option Header → Prog β) (hFG : ∀ h, Refines (F h) (G h))
    (hF : ∀ h x r, runPure (F h) [] ≠ (.ok x, r)) :
    Refines (Prog.bind (csiAuxF true) F) (Prog.bind (csiAuxA hdr) G) := by
  intro d x r h
  unfold csiAuxF at h
  unfold csiAuxA
  simp only [bind_eq, pure_eq] at h ⊢
  rw [runPure_bind, runPure_bind] at h ⊢
  rcases e1 : runPure i32leNonneg d with ⟨res, d1⟩
  rw [e1] at h
  cases res with
  | error err => simp at h
  | ok l =>
    simp only at h ⊢
    by_cases hl : l = 0
    · rw [if_pos hl] at h ⊢
      simp only [runPure] at h ⊢
      exact hFG none d1 x r h
    · rw [if_neg hl] at h ⊢
      simp only [if_true] at h
      obtain ⟨rem, r1, r2, r3⟩ := limitRem_spec (tabixHeaderF true) l (d1.take l) (d1.drop l)
        (by simp only [List.length_take]; omega)
        (fun hlt => List.drop_of_length_le (by simp only [List.length_take] at hlt; omega))
      rw [List.take_append_drop] at r3
      rw [runPure_bind, r3] at h
      rcases e2 : runPure (tabixHeaderF true) (d1.take l) with ⟨res2, d2⟩
      rw [e2] at h r1 r2
      cases res2 with
      | error err => simp [limRes] at h
      | ok hd =>
        simp only [limRes, runPure] at h r1 r2
        by_cases hlen : l ≤ d1.length
        · have hrem : rem = d2.length := r2 (by simp only [List.length_take]; omega)
          rw [hrem, List.drop_left' rfl] at h
          simp only [runPure]
          rw [if_neg (by simp only [List.length_take]; omega), hh,
            headerFromSlice_ok _ _ _ _ e2]
          simp only [Prog.bind, runPure]
          exact hFG _ _ x r h
        · exfalso
          have hd : d1.drop l = [] := List.drop_of_length_le (by omega)
          rw [hd, List.append_nil, List.drop_of_length_le r1] at h
          exact hF _ x r h

theorem binsCsi_refines (metaId n : Nat) (bins : Bins) (index : Noodles.Csi.Binned) (md : Option Meta) :
    Refines (binsCsi metaId n bins index md) (binsCsiA metaId n bins index md) := by
  induction n generalizing bins index md with
  | zero => exact Refines.refl _
  | succ n ih =>
    unfold binsCsi binsCsiA
    refine Refines.bind (Refines.refl _) fun id => ?_
    refine Refines.bind (Refines.refl _) fun lo => ?_
    refine Refines.ite ?_ ?_
    · refine Refines.bind (Refines.refl _) fun m => ?_
      exact Refines.ite (Refines.refl _) (ih _ _ _)
    · refine Refines.bind (chunks_refines true) fun cs => ?_
      exact Refines.ite (Refines.refl _) (ih _ _ _)

theorem refCsi_refines (depth : Nat) : Refines (refCsi depth) (refCsiA depth) := by
  unfold refCsi refCsiA
  exact Refines.bind (Refines.refl _) fun n => binsCsi_refines _ n [] [] none

theorem csiReadIndex_refines :
    Refines (csiReadIndexF true) (csiReadIndexA (tabixHeaderF true)) := by
  unfold csiReadIndexF csiReadIndexA
  refine Refines.mapErrInvalid_left ?_
  refine Refines.bind (Refines.refl _) fun _ => ?_
  refine Refines.bind (Refines.refl _) fun ms => ?_
  refine Refines.bind (Refines.refl _) fun d => ?_
  by_cases hv : Noodles.Index.validGeometry ms d
  · rw [if_neg (by simpa using hv)]
    refine csiAux_refines _ rfl _ _ (fun h => ?_) (fun h x r => ?_)
    · rw [if_neg (by simpa using hv)]
      refine Refines.bind (Refines.refl _) fun nRef => ?_
      refine Refines.bind (Refines.many (refCsi_refines d) nRef) fun refs => ?_
      exact Refines.refl _
    · simp only [bind_eq]
      rw [runPure_bind, i32leNonneg_nil]
      simp
  · rw [if_pos (by simpa using hv)]
    exact Refines.fail _ _


/-! ### `fixed = true` is the model of C12 (`Noodles.Io.Binary`)

Since /repo `fix:` 125ecd7 and 8288cb5 the sync readers ARE the fixed ones, and `Noodles.Io.Binary`
(`names`, `csiAux`) transcribes them; `fixed = false` is the code before the two commits. -/

theorem namesF_true_eq : namesF true = names := by
  unfold namesF names
  simp only [Bool.true_and, decide_eq_true_eq]
  rfl

theorem tabixHeaderF_true_eq : tabixHeaderF true = tabixHeader := by
  unfold tabixHeaderF tabixHeader
  rw [namesF_true_eq]
  rfl

theorem tabixReadIndexF_true_eq : tabixReadIndexF true = tabixReadIndex := by
  unfold tabixReadIndexF tabixReadIndex
  rw [tabixHeaderF_true_eq]

theorem csiAuxF_true_eq : csiAuxF true = csiAux := by
  unfold csiAuxF csiAux
  rw [tabixHeaderF_true_eq]
  simp only [if_true]

theorem csiReadIndexF_true_eq : csiReadIndexF true = csiReadIndex := by
  unfold csiReadIndexF csiReadIndex
  rw [csiAuxF_true_eq]

/-- `fixed = true` is the model of C12 (`Noodles.Io.Binary`) -/
theorem tabixReadIndexF_true (d : Bytes) :
    runPure (tabixReadIndexF true) d = runPure tabixReadIndex d := by
  rw [tabixReadIndexF_true_eq]

theorem csiReadIndexF_true (d : Bytes) :
    runPure (csiReadIndexF true) d = runPure csiReadIndex d := by
  rw [csiReadIndexF_true_eq]

/-- lifting a refinement between `Prog`s (`Refines`: whatever the first accepts, the second
accepts with the same value and the same bytes left) to the two runs -/
theorem refines_lift {σ : Type} (ps pa : Prog β) (hr : Refines ps pa) (A : Noodles.IO.Async.ARead σ UInt8) (hA : A.Lawful)
    (ask : Nat × σ → Nat) (hask : ∀ t, 0 < ask t) (sz : Nat → List Nat) (s : σ) (src : Src UInt8)
    (h : A.rest s = src.data) (x : β) (hs : (run sz ps src).1 = .ok x) :
    (pa.runA A ask s).1 = .ok x ∧ A.rest (pa.runA A ask s).2 = (run sz ps src).2.data := by
  obtain ⟨a1, a2⟩ := Noodles.IO.Async.runA_spec A hA ask hask pa s
  obtain ⟨b1, b2⟩ := run_spec sz ps src
  rw [b1] at hs
  have hp : runPure ps src.data = (.ok x, (runPure ps src.data).2) := by
    rw [← hs]
  have := hr _ _ _ hp
  rw [a1, a2, b2, h, this]
  exact ⟨rfl, rfl⟩


end Noodles.IO.Prog
