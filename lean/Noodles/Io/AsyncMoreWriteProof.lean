import Noodles.Io.AsyncMore
import Noodles.Io.AsyncLoopsProof
import Noodles.Bgzf.SinkProof
/-!
# Proofs for `Noodles.Io.AsyncMore`, part 5: tokio `WriteAll` over a lawful `AsyncWrite`
-/
namespace Noodles.IO.Async
open Noodles.IO
open Noodles.Bgzf.Async (Poll1 Poll)

variable {σ α : Type}

theorem scriptedW_lawful : (scriptedW : AWrite (ASink α) α).Lawful := by
  constructor
  · intro s buf s' h
    simp only [scriptedW, ASink.poll] at h ⊢
    cases hs : s.sched with
    | nil => rw [hs] at h; simp at h
    | cons d sc =>
      rw [hs] at h
      cases d with
      | ready m => simp at h
      | pending =>
        simp only [Prod.mk.injEq, true_and] at h
        subst h
        exact ⟨rfl, by simp⟩
  · intro s buf n s' h
    simp only [scriptedW, ASink.poll] at h ⊢
    have key : ∀ m : Nat, min (max m 1) buf.length ≤ buf.length ∧ (buf ≠ [] → 0 < min (max m 1) buf.length) := by
      intro m
      refine ⟨Nat.min_le_right _ _, ?_⟩
      intro hb
      have : 0 < buf.length := List.length_pos_iff.2 hb
      omega
    cases hs : s.sched with
    | nil =>
      rw [hs] at h
      simp only [Prod.mk.injEq, Poll.ready.injEq] at h
      obtain ⟨h1, h2⟩ := h
      subst h1; subst h2
      exact ⟨(key _).1, (key _).2, rfl, by simp⟩
    | cons d sc =>
      rw [hs] at h
      cases d with
      | pending => simp at h
      | ready m =>
        simp only [Prod.mk.injEq, Poll.ready.injEq] at h
        obtain ⟨h1, h2⟩ := h
        subst h1; subst h2
        exact ⟨(key _).1, (key _).2, rfl, by simp⟩

/-- one poll of `WriteAll`: a `Pending` keeps `accepted ++ what is left of buf` (nothing lost, nothing
written twice), a `Ready` has handed over all of it -/
theorem pollWriteAll_spec (W : AWrite σ α) (hW : W.Lawful) (fuel : Nat) (buf : List α) (s : σ)
    (hf : buf.length < fuel) :
    (∀ t', pollWriteAll W fuel (buf, s) = (.pending, t') →
      W.sunk t'.2 ++ t'.1 = W.sunk s ++ buf ∧ t'.1.length ≤ buf.length ∧ W.credit t'.2 < W.credit s) ∧
    (∀ r t', pollWriteAll W fuel (buf, s) = (.ready r, t') →
      r = .ok () ∧ W.sunk t'.2 = W.sunk s ++ buf) := by
  induction fuel generalizing buf s with
  | zero => omega
  | succ fuel ih =>
    simp only [pollWriteAll]
    by_cases hb : buf.length = 0
    · rw [if_pos hb]
      have : buf = [] := List.eq_nil_of_length_eq_zero hb
      subst this
      refine ⟨(by intro t' h; cases h), ?_⟩
      intro r t' h
      cases h
      exact ⟨rfl, by simp⟩
    · rw [if_neg hb]
      have hne : buf ≠ [] := by intro h; rw [h] at hb; simp at hb
      rcases hp : W.poll s buf with ⟨r, s'⟩
      cases r with
      | pending =>
        obtain ⟨a, b⟩ := hW.pending _ _ _ hp
        simp only
        refine ⟨?_, (by intro r t' h; cases h)⟩
        intro t' h
        cases h
        exact ⟨by rw [a], Nat.le_refl _, b⟩
      | ready n =>
        obtain ⟨k1, k2, k3, k4⟩ := hW.ready _ _ _ _ hp
        have hn := k2 hne
        simp only
        rw [if_neg (by omega)]
        obtain ⟨i1, i2⟩ := ih (buf.drop n) s' (by rw [List.length_drop]; omega)
        have hsplit : W.sunk s' ++ buf.drop n = W.sunk s ++ buf := by
          rw [k3, List.append_assoc, List.take_append_drop]
        rw [hsplit] at i1 i2
        refine ⟨?_, i2⟩
        intro t' h
        obtain ⟨a, b, c⟩ := i1 t' h
        exact ⟨a, by rw [List.length_drop] at b; omega, by omega⟩

/-- **`write_all(buf).await` under every poll schedule of a lawful sink succeeds and has appended exactly
`buf`** -/
theorem writeAllA_spec (W : AWrite σ α) (hW : W.Lawful) (s : σ) (buf : List α) :
    (writeAllA W s buf).1 = .ok () ∧ W.sunk (writeAllA W s buf).2 = W.sunk s ++ buf := by
  obtain ⟨r, t', h1, h2, h3⟩ := drive_spec (pollWriteAll W (buf.length + 1)) (fun t => W.credit t.2)
    (fun t => W.sunk t.2 ++ t.1 = W.sunk s ++ buf ∧ t.1.length ≤ buf.length)
    (fun r t' => r = .ok () ∧ W.sunk t'.2 = W.sunk s ++ buf)
    (by
      intro t ht
      obtain ⟨p1, p2⟩ := pollWriteAll_spec W hW (buf.length + 1) t.1 t.2 (by omega)
      rw [ht.1] at p1 p2
      refine ⟨?_, ?_⟩
      · intro t' hp
        obtain ⟨a, b, c⟩ := p1 t' hp
        exact ⟨⟨a, by omega⟩, c⟩
      · intro r t' hp
        exact p2 r t' hp)
    (W.credit s + 1) (buf, s) ⟨rfl, Nat.le_refl _⟩ (Nat.lt_succ_self _)
  simp only [writeAllA, h1]
  exact ⟨h2, h3⟩

/-- a `Pending` poll of `WriteAll` is a stutter: what the sink holds followed by what is still to be
written is unchanged -/
theorem pollWriteAll_pending (W : AWrite σ α) (hW : W.Lawful) (fuel : Nat) (buf : List α) (s : σ)
    (hf : buf.length < fuel) (t' : List α × σ) (h : pollWriteAll W fuel (buf, s) = (.pending, t')) :
    W.sunk t'.2 ++ t'.1 = W.sunk s ++ buf ∧ W.credit t'.2 < W.credit s := by
  obtain ⟨a, _, c⟩ := (pollWriteAll_spec W hW fuel buf s hf).1 t' h
  exact ⟨a, c⟩

/-- consecutive `write_all` calls: everything arrives, in order -/
theorem writePiecesA_spec (W : AWrite σ α) (hW : W.Lawful) (ps : List (List α)) (s : σ) :
    (writePiecesA W ps s).1 = .ok () ∧ W.sunk (writePiecesA W ps s).2 = W.sunk s ++ ps.flatten := by
  induction ps generalizing s with
  | nil => exact ⟨rfl, by simp [writePiecesA]⟩
  | cons p ps ih =>
    obtain ⟨a1, a2⟩ := writeAllA_spec W hW s p
    simp only [writePiecesA]
    rcases h : writeAllA W s p with ⟨r, s'⟩
    rw [h] at a1 a2
    simp only at a1 a2
    subst a1
    obtain ⟨b1, b2⟩ := ih s'
    simp only
    exact ⟨b1, by rw [b2, a2]; simp [List.append_assoc]⟩

/-- the buffered writers: when every item serializes, the sink holds the concatenation of the
serializations; when item `k` is the first that does not, the error is returned and the sink holds
exactly the items before it (nothing of the failing item) -/
theorem bufferedWriteA_spec {ρ ε : Type} (ser : ρ → Except ε Bytes) (W : AWrite σ UInt8) (hW : W.Lawful)
    (rs : List ρ) (s : σ) :
    (∀ bss, rs.mapM ser = .ok bss →
      (bufferedWriteA ser W rs s).1 = .ok () ∧ W.sunk (bufferedWriteA ser W rs s).2 = W.sunk s ++ bss.flatten) ∧
    (∀ pre r post bss e, rs = pre ++ r :: post → pre.mapM ser = .ok bss → ser r = .error e →
      (bufferedWriteA ser W rs s).1 = .error (.inl e) ∧
      W.sunk (bufferedWriteA ser W rs s).2 = W.sunk s ++ bss.flatten) := by
  induction rs generalizing s with
  | nil =>
    refine ⟨?_, ?_⟩
    · intro bss h
      simp only [List.mapM_nil, pure, Except.pure, Except.ok.injEq] at h
      subst h
      exact ⟨rfl, by simp [bufferedWriteA]⟩
    · intro pre r post bss e h
      cases pre <;> simp at h
  | cons r rs ih =>
    refine ⟨?_, ?_⟩
    · intro bss h
      rw [List.mapM_cons] at h
      cases hs : ser r with
      | error e => rw [hs] at h; simp [bind, Except.bind] at h
      | ok bs =>
        rw [hs] at h
        cases hm : rs.mapM ser with
        | error e => rw [hm] at h; simp [bind, Except.bind] at h
        | ok bss' =>
          rw [hm] at h
          simp only [bind, Except.bind, pure, Except.pure, Except.ok.injEq] at h
          subst h
          obtain ⟨a1, a2⟩ := writeAllA_spec W hW s bs
          simp only [bufferedWriteA, hs]
          rcases hw : writeAllA W s bs with ⟨x, s'⟩
          rw [hw] at a1 a2
          simp only at a1 a2
          subst a1
          obtain ⟨b1, b2⟩ := (ih s').1 bss' hm
          simp only
          exact ⟨b1, by rw [b2, a2]; simp [List.append_assoc]⟩
    · intro pre r' post bss e h hpre he
      cases pre with
      | nil =>
        simp only [List.nil_append, List.cons.injEq] at h
        obtain ⟨h1, h2⟩ := h
        subst h1
        simp only [List.mapM_nil, pure, Except.pure, Except.ok.injEq] at hpre
        subst hpre
        simp [bufferedWriteA, he]
      | cons p pre' =>
        simp only [List.cons_append, List.cons.injEq] at h
        obtain ⟨h1, h2⟩ := h
        subst h1
        rw [List.mapM_cons] at hpre
        cases hs : ser r with
        | error e' => rw [hs] at hpre; simp [bind, Except.bind] at hpre
        | ok bs =>
          rw [hs] at hpre
          cases hm : pre'.mapM ser with
          | error e' => rw [hm] at hpre; simp [bind, Except.bind] at hpre
          | ok bss' =>
            rw [hm] at hpre
            simp only [bind, Except.bind, pure, Except.pure, Except.ok.injEq] at hpre
            subst hpre
            obtain ⟨a1, a2⟩ := writeAllA_spec W hW s bs
            simp only [bufferedWriteA, hs]
            rcases hw : writeAllA W s bs with ⟨x, s'⟩
            rw [hw] at a1 a2
            simp only at a1 a2
            subst a1
            obtain ⟨b1, b2⟩ := (ih s').2 pre' r' post bss' e h2 hm he
            simp only
            exact ⟨b1, by rw [b2, a2]; simp [List.append_assoc]⟩

open Noodles.Bgzf.SM in
/-- the sync twin: `write_all` of the same pieces into a destination that never fails (short writes
and `Interrupted` under any script) appends their concatenation -/
theorem feed_ok (script : List Step) (fb : Nat) (ps : List Bytes) :
    (feed (Sink.fresh script fb none 0) ps).1 = none ∧
    (feed (Sink.fresh script fb none 0) ps).2.accepted = ps.flatten := by
  have t := feed_trans (Sink.fresh script fb none 0) ps rfl
  rcases t.res with ⟨a, _, c⟩ | ⟨_, _, c⟩
  · exact ⟨a, by simpa [Sink.fresh] using c⟩
  · exact absurd rfl c

end Noodles.IO.Async
