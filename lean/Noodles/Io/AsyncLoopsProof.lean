import Noodles.Io.AsyncLoops
import Noodles.Io.LoopsProof
/-!
# Proofs for the format-level async poll machines (C16)

Every async function of `Noodles.Io.AsyncLoops`, over ANY lawful `AsyncRead`, computes the closed form
that `Noodles.Io.LoopsProof` proves for its sync twin — hence the same values, the same errors and the
same bytes left in the stream, whatever the poll schedule.
-/
namespace Noodles.IO.Async
open Noodles.IO
open Noodles.Bgzf.Async (Poll1 Poll)

variable {σ α : Type}

/-! ## list helpers -/

theorem take_min_length (l : List α) (j : Nat) : l.take (min j l.length) = l.take j := by
  by_cases h : j ≤ l.length
  · rw [Nat.min_eq_left h]
  · rw [Nat.min_eq_right (by omega), List.take_length, List.take_of_length_le (by omega)]

theorem drop_min_length (l : List α) (j : Nat) : l.drop (min j l.length) = l.drop j := by
  by_cases h : j ≤ l.length
  · rw [Nat.min_eq_left h]
  · rw [Nat.min_eq_right (by omega), List.drop_length, List.drop_of_length_le (by omega)]

/-! ## lawful readers -/

theorem scripted_lawful : (scripted : ARead (ASrc α) α).Lawful := by
  constructor
  · intro s n s' h
    simp only [scripted, ASrc.poll] at h ⊢
    cases hs : s.sched with
    | nil => rw [hs] at h; simp at h
    | cons d sc =>
      rw [hs] at h
      cases d with
      | ready m => simp at h
      | pending =>
        simp only [Prod.mk.injEq, true_and] at h
        subst h
        simp
  · intro s n bs s' h
    simp only [scripted, ASrc.poll] at h ⊢
    have key : ∀ j, j ≤ n →
        ∃ k, k ≤ n ∧ k ≤ s.data.length ∧ s.data.take j = s.data.take k ∧ s.data.drop j = s.data.drop k ∧
          (0 < n → s.data ≠ [] → 0 < j → 0 < k) := by
      intro j hj
      refine ⟨min j s.data.length, by omega, Nat.min_le_right _ _, (take_min_length _ _).symm,
        (drop_min_length _ _).symm, ?_⟩
      intro _ hne hj0
      have : 0 < s.data.length := List.length_pos_iff.mpr hne
      omega
    cases hs : s.sched with
    | nil =>
      rw [hs] at h
      simp only [Prod.mk.injEq, Poll.ready.injEq] at h
      obtain ⟨h1, h2⟩ := h
      subst h1; subst h2
      obtain ⟨k, a, b, c, d, e⟩ := key (min n (max s.fallback 1)) (Nat.min_le_left _ _)
      exact ⟨k, a, b, c, d, fun h0 hne => e h0 hne (by omega), by simp [hs]⟩
    | cons d sc =>
      rw [hs] at h
      cases d with
      | pending => simp at h
      | ready m =>
        simp only [Prod.mk.injEq, Poll.ready.injEq] at h
        obtain ⟨h1, h2⟩ := h
        subst h1; subst h2
        obtain ⟨k, a, b, c, d, e⟩ := key (min n (max m 1)) (Nat.min_le_left _ _)
        exact ⟨k, a, b, c, d, fun h0 hne => e h0 hne (by omega), by simp⟩

theorem takeRead_lawful (A : ARead σ α) (hA : A.Lawful) : (takeRead A).Lawful := by
  constructor
  · intro t n t' h
    simp only [takeRead] at h ⊢
    by_cases h0 : t.1 = 0
    · rw [if_pos h0] at h; simp at h
    · rw [if_neg h0] at h
      rcases hp : A.poll t.2 (min n t.1) with ⟨r, s'⟩
      rw [hp] at h
      cases r with
      | ready bs => simp at h
      | pending =>
        simp only [Prod.mk.injEq, true_and] at h
        subst h
        obtain ⟨a, b⟩ := hA.pending _ _ _ hp
        exact ⟨by simp [a], b⟩
  · intro t n bs t' h
    simp only [takeRead] at h ⊢
    by_cases h0 : t.1 = 0
    · rw [if_pos h0] at h
      simp only [Prod.mk.injEq, Poll.ready.injEq] at h
      obtain ⟨h1, h2⟩ := h
      subst h1; subst h2
      exact ⟨0, Nat.zero_le _, Nat.zero_le _, by simp, by simp, by simp [h0], Nat.le_refl _⟩
    · rw [if_neg h0] at h
      rcases hp : A.poll t.2 (min n t.1) with ⟨r, s'⟩
      rw [hp] at h
      cases r with
      | pending => simp at h
      | ready bs' =>
        simp only [Prod.mk.injEq, Poll.ready.injEq] at h
        obtain ⟨h1, h2⟩ := h
        subst h1; subst h2
        obtain ⟨k, k1, k2, k3, k4, k5, k6⟩ := hA.ready _ _ _ _ hp
        have hlen : bs'.length = k := by rw [k3, List.length_take]; omega
        refine ⟨k, by omega, ?_, ?_, ?_, ?_, k6⟩
        · rw [List.length_take]; omega
        · rw [k3, List.take_take, Nat.min_eq_left (by omega)]
        · simp only [hlen, k4]
          rw [List.take_drop, show k + (t.1 - k) = t.1 by omega]
        · intro hn hne
          apply k5 (by omega)
          intro h; rw [h] at hne; simp at hne

/-- what comes after the `Take` is not touched by polling it -/
theorem takeRead_after (A : ARead σ α) (hA : A.Lawful) (t : Nat × σ) (n : Nat) :
    afterTake A ((takeRead A).poll t n).2 = afterTake A t := by
  simp only [takeRead, afterTake]
  by_cases h0 : t.1 = 0
  · rw [if_pos h0]
  · rw [if_neg h0]
    rcases hp : A.poll t.2 (min n t.1) with ⟨r, s'⟩
    cases r with
    | pending => simp only; rw [(hA.pending _ _ _ hp).1]
    | ready bs =>
      simp only
      obtain ⟨k, k1, k2, k3, k4, _, _⟩ := hA.ready _ _ _ _ hp
      have hlen : bs.length = k := by rw [k3, List.length_take]; omega
      rw [hlen, k4, List.drop_drop]
      congr 1; omega

/-! ## `drive` -/

/-- a future whose `Pending` polls keep an invariant and use up credit, and whose `Ready` polls
establish `Post`, is driven to a `Post` result by `credit + 1` polls -/
theorem drive_spec {τ β : Type} (poll : τ → Poll β × τ) (credit : τ → Nat) (Inv : τ → Prop)
    (Post : β → τ → Prop)
    (hp : ∀ t, Inv t → (∀ t', poll t = (.pending, t') → Inv t' ∧ credit t' < credit t) ∧
      (∀ b t', poll t = (.ready b, t') → Post b t'))
    (fuel : Nat) (t : τ) (hi : Inv t) (hf : credit t < fuel) :
    ∃ b t', drive poll fuel t = (some b, t') ∧ Post b t' := by
  induction fuel generalizing t with
  | zero => omega
  | succ fuel ih =>
    obtain ⟨h1, h2⟩ := hp t hi
    rcases hpt : poll t with ⟨r, t'⟩
    cases r with
    | pending =>
      obtain ⟨a, b⟩ := h1 t' hpt
      obtain ⟨x, t'', c, d⟩ := ih t' a (by omega)
      exact ⟨x, t'', by simp only [drive, hpt]; exact c, d⟩
    | ready x => exact ⟨x, t', by simp only [drive, hpt], h2 x t' hpt⟩

/-- a quantity that no poll changes is not changed by `drive` -/
theorem drive_pres {τ β γ : Type} (poll : τ → Poll β × τ) (g : τ → γ) (hg : ∀ t, g (poll t).2 = g t)
    (fuel : Nat) (t : τ) : g (drive poll fuel t).2 = g t := by
  induction fuel generalizing t with
  | zero => rfl
  | succ fuel ih =>
    rcases hpt : poll t with ⟨r, t'⟩
    have := hg t
    rw [hpt] at this
    cases r with
    | pending => simp only [drive, hpt]; rw [ih t', this]
    | ready x => simp only [drive, hpt]; exact this

/-! ## `read`, `read_exact` -/

/-- `reader.read(buf).await`: some prefix of what is left, at most `n` bytes, not empty unless `n = 0`
or the stream is at its end -/
theorem readA_spec (A : ARead σ α) (hA : A.Lawful) (s : σ) (n : Nat) :
    ∃ bs s' k, readA A s n = (some bs, s') ∧ k ≤ n ∧ k ≤ (A.rest s).length ∧ bs = (A.rest s).take k ∧
      A.rest s' = (A.rest s).drop k ∧ (0 < n → A.rest s ≠ [] → 0 < k) := by
  obtain ⟨bs, s', h1, h2⟩ := drive_spec (fun s => A.poll s n) A.credit (fun t => A.rest t = A.rest s)
    (fun bs s' => ∃ k, k ≤ n ∧ k ≤ (A.rest s).length ∧ bs = (A.rest s).take k ∧
      A.rest s' = (A.rest s).drop k ∧ (0 < n → A.rest s ≠ [] → 0 < k))
    (by
      intro t ht
      refine ⟨?_, ?_⟩
      · intro t' hp
        obtain ⟨a, b⟩ := hA.pending _ _ _ hp
        exact ⟨by rw [a, ht], b⟩
      · intro bs t' hp
        obtain ⟨k, k1, k2, k3, k4, k5, _⟩ := hA.ready _ _ _ _ hp
        rw [ht] at k2 k3 k4 k5
        exact ⟨k, k1, k2, k3, k4, k5⟩)
    (A.credit s + 1) s rfl (Nat.lt_succ_self _)
  obtain ⟨k, hk⟩ := h2
  exact ⟨bs, s', k, h1, hk⟩

/-- one poll of `ReadExact`: a `Pending` keeps what was gathered (`acc ++ rest` is unchanged), a
`Ready` is the closed form of `read_exact` on `acc ++ rest` -/
theorem pollReadExact_spec (A : ARead σ α) (hA : A.Lawful) (n : Nat) (fuel : Nat) (acc : List α) (s : σ)
    (hacc : acc.length ≤ n) (hf : n - acc.length < fuel) :
    (∀ t', pollReadExact A n fuel (acc, s) = (.pending, t') →
      t'.1 ++ A.rest t'.2 = acc ++ A.rest s ∧ t'.1.length ≤ n ∧ A.credit t'.2 < A.credit s) ∧
    (∀ r t', pollReadExact A n fuel (acc, s) = (.ready r, t') →
      r = (specReadExact (acc ++ A.rest s) n).1 ∧ A.rest t'.2 = (specReadExact (acc ++ A.rest s) n).2) := by
  induction fuel generalizing acc s with
  | zero => omega
  | succ fuel ih =>
    by_cases hrem : n - acc.length ≠ 0
    · simp only [pollReadExact, if_pos hrem]
      rcases hp : A.poll s (n - acc.length) with ⟨r, s'⟩
      cases r with
      | pending =>
        obtain ⟨a, b⟩ := hA.pending _ _ _ hp
        simp only
        refine ⟨?_, by intro r t' h; cases h⟩
        intro t' h
        cases h
        exact ⟨by simp [a], hacc, b⟩
      | ready bs =>
        obtain ⟨k, k1, k2, k3, k4, k5, k6⟩ := hA.ready _ _ _ _ hp
        have hlen : bs.length = k := by rw [k3, List.length_take]; omega
        simp only
        by_cases hb : bs.length = 0
        · rw [if_pos hb]
          refine ⟨(by intro t' h; cases h), ?_⟩
          intro r t' h
          cases h
          have hk0 : k = 0 := by omega
          have hrest : A.rest s = [] := by
            by_cases hne : A.rest s = []
            · exact hne
            · have := k5 (by omega) hne; omega
          simp only [specReadExact, hrest, List.append_nil]
          rw [if_neg (by omega)]
          exact ⟨rfl, by rw [k4, hrest]; simp⟩
        · rw [if_neg hb]
          have hsplit : acc ++ bs ++ A.rest s' = acc ++ A.rest s := by
            rw [List.append_assoc, k3, k4, List.take_append_drop]
          obtain ⟨i1, i2⟩ := ih (acc ++ bs) s' (by simp; omega) (by simp; omega)
          rw [hsplit] at i1 i2
          refine ⟨?_, i2⟩
          intro t' h
          obtain ⟨a, b, c⟩ := i1 t' h
          exact ⟨a, b, by omega⟩
    · have hrem' : ¬ (n - acc.length ≠ 0) := hrem
      simp only [pollReadExact, if_neg hrem']
      refine ⟨(by intro t' h; cases h), ?_⟩
      intro r t' h
      cases h
      have hn : acc.length = n := by omega
      simp only [specReadExact]
      rw [if_pos (by simp; omega)]
      constructor
      · rw [List.take_append_of_le_length (by omega), List.take_of_length_le (by omega)]
      · rw [List.drop_append_of_le_length (by omega), List.drop_of_length_le (by omega)]; simp

/-- **`read_exact().await` / `read_u32_le().await` under every poll schedule** is the closed form
`specReadExact` that `defaultReadExact_spec` proves for the sync `read_exact` -/
theorem readExactA_spec (A : ARead σ α) (hA : A.Lawful) (s : σ) (n : Nat) :
    (readExactA A s n).1 = (specReadExact (A.rest s) n).1 ∧
    A.rest (readExactA A s n).2 = (specReadExact (A.rest s) n).2 := by
  obtain ⟨r, t', h1, h2⟩ := drive_spec (pollReadExact A n (n + 1)) (fun t => A.credit t.2)
    (fun t => t.1 ++ A.rest t.2 = A.rest s ∧ t.1.length ≤ n)
    (fun r t' => r = (specReadExact (A.rest s) n).1 ∧ A.rest t'.2 = (specReadExact (A.rest s) n).2)
    (by
      intro t ht
      obtain ⟨p1, p2⟩ := pollReadExact_spec A hA n (n + 1) t.1 t.2 ht.2 (by omega)
      rw [ht.1] at p1 p2
      refine ⟨?_, ?_⟩
      · intro t' hp
        obtain ⟨a, b, c⟩ := p1 t' hp
        exact ⟨⟨a, b⟩, c⟩
      · intro r t' hp
        exact p2 r t' hp)
    (A.credit s + 1) ([], s) ⟨by simp, by simp⟩ (Nat.lt_succ_self _)
  simp only [readExactA, await, h1]
  exact h2

/-! ## noodles-bam `read_exact_or_eof`, `read_record` -/

/-- the async gather loop delivers exactly the next `want` bytes (all there is, if less) -/
theorem gatherA_spec (A : ARead σ α) (hA : A.Lawful) (fuel : Nat) (s : σ) (want : Nat) (acc : List α)
    (hf : want < fuel) :
    (gatherA A fuel s want acc).1 = .ok (acc ++ (A.rest s).take want) ∧
    A.rest (gatherA A fuel s want acc).2 = (A.rest s).drop want := by
  induction fuel generalizing s want acc with
  | zero => omega
  | succ fuel ih =>
    by_cases h0 : want = 0
    · subst h0; simp [gatherA]
    · obtain ⟨bs, s', k, hr, k1, k2, k3, k4, k5⟩ := readA_spec A hA s want
      have hlen : bs.length = k := by rw [k3, List.length_take]; omega
      simp only [gatherA, if_neg h0, hr]
      by_cases hb : bs.length = 0
      · rw [if_pos hb]
        have hrest : A.rest s = [] := by
          by_cases hne : A.rest s = []
          · exact hne
          · have := k5 (by omega) hne; omega
        simp only
        rw [k4, hrest]; simp
      · rw [if_neg hb]
        obtain ⟨i1, i2⟩ := ih s' (want - bs.length) (acc ++ bs) (by omega)
        obtain ⟨t1, t2⟩ := take_take_drop (A.rest s) k want k1
        rw [← k3] at t1 t2
        rw [i1, i2, k4, t2, List.append_assoc, t1]
        exact ⟨rfl, rfl⟩

/-- **`read_exact_or_eof` (async) under every poll schedule** is the closed form
`specReadExactOrEof` that `readExactOrEof_spec` proves for the sync function -/
theorem readExactOrEofA_spec (A : ARead σ α) (hA : A.Lawful) (s : σ) (want : Nat) :
    (readExactOrEofA A s want).1 = (specReadExactOrEof (A.rest s) want).1 ∧
    A.rest (readExactOrEofA A s want).2 = (specReadExactOrEof (A.rest s) want).2 := by
  obtain ⟨h1, h2⟩ := gatherA_spec A hA (want + 1) s want [] (Nat.lt_succ_self _)
  unfold readExactOrEofA specReadExactOrEof
  rcases hg : gatherA A (want + 1) s want [] with ⟨r, s'⟩
  rw [hg] at h1 h2
  simp only at h1 h2
  subst h1
  simp only [List.nil_append]
  by_cases h : want ≤ (A.rest s).length
  · have hl : ((A.rest s).take want).length = want := by simp [List.length_take]; omega
    rw [if_neg (by rw [hl]; omega), if_pos h]; exact ⟨rfl, h2⟩
  · have hdrop : (A.rest s).drop want = [] := List.drop_of_length_le (by omega)
    have htake : (A.rest s).take want = A.rest s := List.take_of_length_le (by omega)
    rw [if_neg h, htake]
    by_cases hz : (A.rest s).length = 0
    · have : A.rest s = [] := List.eq_nil_of_length_eq_zero hz
      rw [if_neg (by omega), if_pos hz]; simp [this, h2]
    · rw [if_pos (by omega), if_neg hz]; exact ⟨rfl, by rw [h2, hdrop]⟩

/-- async `read_exact` = sync `read_exact` on the same bytes -/
theorem readExactA_eq_sync (A : ARead σ α) (hA : A.Lawful) (s : σ) (src : Src α)
    (h : A.rest s = src.data) (n : Nat) :
    (readExactA A s n).1 = (defaultReadExact src n).1 ∧
    A.rest (readExactA A s n).2 = (defaultReadExact src n).2.data := by
  obtain ⟨a1, a2⟩ := readExactA_spec A hA s n
  obtain ⟨b1, b2⟩ := defaultReadExact_spec src n
  rw [a1, a2, b1, b2, h]; exact ⟨rfl, rfl⟩

/-- async `read_exact_or_eof` = sync `read_exact_or_eof` on the same bytes -/
theorem readExactOrEofA_eq_sync (A : ARead σ α) (hA : A.Lawful) (s : σ) (src : Src α)
    (h : A.rest s = src.data) (want : Nat) :
    (readExactOrEofA A s want).1 = (readExactOrEof src want).1 ∧
    A.rest (readExactOrEofA A s want).2 = (readExactOrEof src want).2.data := by
  obtain ⟨a1, a2⟩ := readExactOrEofA_spec A hA s want
  obtain ⟨b1, b2⟩ := readExactOrEof_spec src want
  rw [a1, a2, b1, b2, h]; exact ⟨rfl, rfl⟩

/-! ## `read_to_end` through a `Take`: `read_exact_to_vec` -/

/-- one poll of `ReadToEnd`: a `Pending` keeps what was gathered, a `Ready` has gathered everything
the reader had left -/
theorem pollReadToEnd_spec {τ : Type} (B : ARead τ α) (hB : B.Lawful) (ask : τ → Nat)
    (hask : ∀ t, 0 < ask t) (fuel : Nat) (acc : List α) (t : τ) (hf : (B.rest t).length < fuel) :
    (∀ t', pollReadToEnd B ask fuel (acc, t) = (.pending, t') →
      t'.1 ++ B.rest t'.2 = acc ++ B.rest t ∧ B.credit t'.2 < B.credit t) ∧
    (∀ r t', pollReadToEnd B ask fuel (acc, t) = (.ready r, t') →
      r = .ok (acc ++ B.rest t) ∧ B.rest t'.2 = []) := by
  induction fuel generalizing acc t with
  | zero => omega
  | succ fuel ih =>
    simp only [pollReadToEnd]
    rcases hp : B.poll t (ask t) with ⟨r, s'⟩
    cases r with
    | pending =>
      obtain ⟨a, b⟩ := hB.pending _ _ _ hp
      simp only
      refine ⟨?_, (by intro r t' h; cases h)⟩
      intro t' h
      cases h
      exact ⟨by simp [a], b⟩
    | ready bs =>
      obtain ⟨k, k1, k2, k3, k4, k5, k6⟩ := hB.ready _ _ _ _ hp
      have hlen : bs.length = k := by rw [k3, List.length_take]; omega
      simp only
      by_cases hb : bs.length = 0
      · rw [if_pos hb]
        refine ⟨(by intro t' h; cases h), ?_⟩
        intro r t' h
        cases h
        have hrest : B.rest t = [] := by
          by_cases hne : B.rest t = []
          · exact hne
          · have := k5 (hask t) hne; omega
        simp only
        rw [k4, hrest]; simp
      · rw [if_neg hb]
        have hsplit : acc ++ bs ++ B.rest s' = acc ++ B.rest t := by
          rw [List.append_assoc, k3, k4, List.take_append_drop]
        obtain ⟨i1, i2⟩ := ih (acc ++ bs) s' (by rw [k4, List.length_drop]; omega)
        rw [hsplit] at i1 i2
        refine ⟨?_, i2⟩
        intro t' h
        obtain ⟨a, b⟩ := i1 t' h
        exact ⟨a, by omega⟩

theorem pollReadToEnd_pres {τ γ : Type} (B : ARead τ α) (g : τ → γ) (hg : ∀ t n, g (B.poll t n).2 = g t)
    (ask : τ → Nat) (fuel : Nat) (t : List α × τ) : g (pollReadToEnd B ask fuel t).2.2 = g t.2 := by
  induction fuel generalizing t with
  | zero => rfl
  | succ fuel ih =>
    have h1 := hg t.2 (ask t.2)
    simp only [pollReadToEnd]
    rcases hp : B.poll t.2 (ask t.2) with ⟨r, s'⟩
    rw [hp] at h1
    cases r with
    | pending => exact h1
    | ready bs =>
      simp only
      by_cases hb : bs.length = 0
      · rw [if_pos hb]; exact h1
      · rw [if_neg hb, ih]; exact h1

/-- **`read_exact_to_vec` (async) under every poll schedule and every buffer growth policy** is the
closed form of `read_exact`: the next `len` bytes, or `UnexpectedEof` with the stream used up -/
theorem readExactToVecA_spec (A : ARead σ α) (hA : A.Lawful) (ask : Nat × σ → Nat)
    (hask : ∀ t, 0 < ask t) (s : σ) (len : Nat) :
    (readExactToVecA A ask s len).1 = (specReadExact (A.rest s) len).1 ∧
    A.rest (readExactToVecA A ask s len).2 = (specReadExact (A.rest s) len).2 := by
  have hB := takeRead_lawful A hA
  obtain ⟨r, t', h1, h2, h3⟩ := drive_spec
    (pollReadToEnd (takeRead A) ask (((takeRead A).rest (len, s)).length + 2))
    (fun t => (takeRead A).credit t.2)
    (fun t => t.1 ++ (takeRead A).rest t.2 = (takeRead A).rest (len, s))
    (fun r t' => r = .ok ((takeRead A).rest (len, s)) ∧ (takeRead A).rest t'.2 = [])
    (by
      intro t ht
      have hl : ((takeRead A).rest t.2).length ≤ ((takeRead A).rest (len, s)).length := by
        rw [← ht]; simp
      obtain ⟨p1, p2⟩ := pollReadToEnd_spec (takeRead A) hB ask hask
        (((takeRead A).rest (len, s)).length + 2) t.1 t.2 (by omega)
      rw [ht] at p1 p2
      exact ⟨p1, p2⟩)
    (A.credit s + 1) ([], (len, s)) (by simp) (by simp [takeRead])
  have hpres := drive_pres (pollReadToEnd (takeRead A) ask (((takeRead A).rest (len, s)).length + 2))
    (fun t => afterTake A t.2)
    (fun t => pollReadToEnd_pres (takeRead A) (afterTake A) (takeRead_after A hA) ask _ t)
    (A.credit s + 1) ([], (len, s))
  rw [h1] at hpres
  simp only [afterTake] at hpres
  simp only [takeRead] at h3
  have hrest : A.rest t'.2.2 = (A.rest s).drop len := by
    rw [← List.take_append_drop t'.2.1 (A.rest t'.2.2), h3, hpres, List.nil_append]
  subst h2
  simp only [readExactToVecA, await, h1, specReadExact]
  have htl : ((takeRead A).rest (len, s)).length = min len (A.rest s).length := by
    simp [takeRead, List.length_take]
  by_cases h : len ≤ (A.rest s).length
  · rw [if_pos (by rw [htl]; omega), if_pos h]
    exact ⟨rfl, hrest⟩
  · rw [if_neg (by rw [htl]; omega), if_neg h]
    exact ⟨rfl, by rw [hrest]; exact List.drop_of_length_le (by omega)⟩

/-- the sync `take(len).read_to_end` loop delivers exactly the next `lim` bytes (all there is, if
less), whatever the delivery schedule and the sizes it asks for -/
theorem readToEndTakeS_spec (ask : Src α → Nat) (hask : ∀ s, 0 < ask s) (fuel : Nat) (s : Src α)
    (lim : Nat) (acc : List α) (hf : lim + s.sched.length < fuel) :
    (readToEndTakeS ask fuel s lim acc).1 = acc ++ s.data.take lim ∧
    (readToEndTakeS ask fuel s lim acc).2.data = s.data.drop lim := by
  induction fuel generalizing s lim acc with
  | zero => omega
  | succ fuel ih =>
    by_cases h0 : lim = 0
    · subst h0; simp [readToEndTakeS]
    · have hw : min (ask s) lim ≠ 0 := by have := hask s; omega
      simp only [readToEndTakeS, if_neg h0]
      rcases read_cases s (min (ask s) lim) hw with ⟨sc, hs, hr⟩ | ⟨k, sc, hk1, hkw, hsc, hr⟩
      · rw [hr]
        exact ih ⟨s.data, sc⟩ lim acc (by rw [hs] at hf; simp at hf ⊢; omega)
      · rw [hr]
        simp only
        by_cases hb : (s.data.take k).length = 0
        · rw [if_pos hb]
          have hd : s.data = [] := by
            cases hdata : s.data with
            | nil => rfl
            | cons x xs => rw [hdata] at hb; simp [List.length_take] at hb; omega
          simp [hd]
        · rw [if_neg hb]
          have hle : (s.data.take k).length ≤ k := by simp [List.length_take]; omega
          obtain ⟨h1, h2⟩ := ih ⟨s.data.drop k, sc⟩ (lim - (s.data.take k).length) (acc ++ s.data.take k)
            (by simp only; omega)
          obtain ⟨t1, t2⟩ := take_take_drop s.data k lim (by omega)
          constructor
          · rw [h1]; simp only [List.append_assoc]; rw [t1]
          · rw [h2]; exact t2

/-- `read_exact_to_vec` (sync) is the closed form of `read_exact` -/
theorem readExactToVecS_spec (ask : Src α → Nat) (hask : ∀ s, 0 < ask s) (s : Src α) (len : Nat) :
    (readExactToVecS ask s len).1 = (specReadExact s.data len).1 ∧
    (readExactToVecS ask s len).2.data = (specReadExact s.data len).2 := by
  obtain ⟨h1, h2⟩ := readToEndTakeS_spec ask hask (len + s.sched.length + 1) s len [] (by omega)
  unfold readExactToVecS specReadExact
  simp only
  rw [h1]
  simp only [List.nil_append]
  by_cases h : len ≤ s.data.length
  · have : (s.data.take len).length = len := by simp [List.length_take]; omega
    rw [if_pos this, if_pos h]; exact ⟨rfl, h2⟩
  · have : (s.data.take len).length ≠ len := by simp [List.length_take]; omega
    rw [if_neg this, if_neg h]
    refine ⟨rfl, ?_⟩
    rw [h2]; exact List.drop_of_length_le (by omega)

/-- async `read_exact_to_vec` = sync `read_exact_to_vec` on the same bytes -/
theorem readExactToVecA_eq_sync (A : ARead σ α) (hA : A.Lawful) (ask : Nat × σ → Nat)
    (hask : ∀ t, 0 < ask t) (askS : Src α → Nat) (haskS : ∀ s, 0 < askS s) (s : σ) (src : Src α)
    (h : A.rest s = src.data) (len : Nat) :
    (readExactToVecA A ask s len).1 = (readExactToVecS askS src len).1 ∧
    A.rest (readExactToVecA A ask s len).2 = (readExactToVecS askS src len).2.data := by
  obtain ⟨a1, a2⟩ := readExactToVecA_spec A hA ask hask s len
  obtain ⟨b1, b2⟩ := readExactToVecS_spec askS haskS src len
  rw [a1, a2, b1, b2, h]; exact ⟨rfl, rfl⟩

/-- the sync `read_exact_to_vec` and the `read_exact` it replaced compute the same -/
theorem readExactToVecS_eq_readExact (ask : Src α → Nat) (hask : ∀ s, 0 < ask s) (s : Src α) (len : Nat) :
    (readExactToVecS ask s len).1 = (defaultReadExact s len).1 ∧
    (readExactToVecS ask s len).2.data = (defaultReadExact s len).2.data := by
  obtain ⟨a1, a2⟩ := readExactToVecS_spec ask hask s len
  obtain ⟨b1, b2⟩ := defaultReadExact_spec s len
  rw [a1, a2, b1, b2]; exact ⟨rfl, rfl⟩

/-! ## BAM records -/

theorem bamReadRecordA_eq_sync (A : ARead σ UInt8) (hA : A.Lawful) (ask : Nat × σ → Nat)
    (hask : ∀ t, 0 < ask t) (askS : Src UInt8 → Nat) (haskS : ∀ s, 0 < askS s) (s : σ) (src : Src UInt8)
    (h : A.rest s = src.data) :
    (bamReadRecordA A ask s).1 = (bamReadRecordS askS src).1 ∧
    A.rest (bamReadRecordA A ask s).2 = (bamReadRecordS askS src).2.data := by
  obtain ⟨a1, a2⟩ := readExactOrEofA_eq_sync A hA s src h 4
  unfold bamReadRecordA bamReadRecordS
  rcases h1 : readExactOrEofA A s 4 with ⟨r1, t1⟩
  rcases h2 : readExactOrEof src 4 with ⟨r2, t2⟩
  rw [h1, h2] at a1 a2
  simp only at a1 a2
  subst a1
  cases r1 with
  | error e => exact ⟨rfl, a2⟩
  | ok hdr =>
    simp only
    by_cases hn : leNat (zeroPad 4 hdr) = 0
    · rw [if_pos hn, if_pos hn]; exact ⟨rfl, a2⟩
    · rw [if_neg hn, if_neg hn]
      obtain ⟨b1, b2⟩ := readExactToVecA_eq_sync A hA ask hask askS haskS t1 t2 a2 (leNat (zeroPad 4 hdr))
      rcases h3 : readExactToVecA A ask t1 (leNat (zeroPad 4 hdr)) with ⟨r3, t3⟩
      rcases h4 : readExactToVecS askS t2 (leNat (zeroPad 4 hdr)) with ⟨r4, t4⟩
      rw [h3, h4] at b1 b2
      simp only at b1 b2
      subst b1
      cases r3 with
      | error e => exact ⟨rfl, b2⟩
      | ok body =>
        simp only
        by_cases hv : bamValidate body = true
        · rw [if_pos hv, if_pos hv]; exact ⟨rfl, b2⟩
        · rw [if_neg hv, if_neg hv]; exact ⟨rfl, b2⟩

theorem bamRecordsA_eq_sync (A : ARead σ UInt8) (hA : A.Lawful) (ask : Nat × σ → Nat)
    (hask : ∀ t, 0 < ask t) (askS : Src UInt8 → Nat) (haskS : ∀ s, 0 < askS s) (fuel : Nat) (s : σ)
    (src : Src UInt8) (acc : List Bytes) (h : A.rest s = src.data) :
    (bamRecordsA A ask fuel s acc).1 = (bamRecordsS askS fuel src acc).1 ∧
    A.rest (bamRecordsA A ask fuel s acc).2 = (bamRecordsS askS fuel src acc).2.data := by
  induction fuel generalizing s src acc with
  | zero => simp [bamRecordsA, bamRecordsS, h]
  | succ fuel ih =>
    obtain ⟨a1, a2⟩ := bamReadRecordA_eq_sync A hA ask hask askS haskS s src h
    simp only [bamRecordsA, bamRecordsS]
    rcases h1 : bamReadRecordA A ask s with ⟨r1, t1⟩
    rcases h2 : bamReadRecordS askS src with ⟨r2, t2⟩
    rw [h1, h2] at a1 a2
    simp only at a1 a2
    subst a1
    cases r1 with
    | eof => exact ⟨rfl, a2⟩
    | err e => exact ⟨rfl, a2⟩
    | record r => exact ih t1 t2 (r :: acc) a2

/-- the sync record reader as it is now computes what C12's model of it (`read_exact` into a resized
buffer) computes: C12's theorems about `bamReadRecord` are theorems about `bamReadRecordS` -/
theorem bamReadRecordS_eq_c12 (ask : Src UInt8 → Nat) (hask : ∀ s, 0 < ask s) (s : Src UInt8) :
    (bamReadRecordS ask s).1 = (bamReadRecord s).1 ∧
    (bamReadRecordS ask s).2.data = (bamReadRecord s).2.data := by
  unfold bamReadRecordS bamReadRecord
  rcases h1 : readExactOrEof s 4 with ⟨r1, t1⟩
  cases r1 with
  | error e => exact ⟨rfl, rfl⟩
  | ok hdr =>
    simp only
    by_cases hn : leNat (zeroPad 4 hdr) = 0
    · rw [if_pos hn, if_pos hn]; exact ⟨rfl, rfl⟩
    · rw [if_neg hn, if_neg hn]
      obtain ⟨b1, b2⟩ := readExactToVecS_eq_readExact ask hask t1 (leNat (zeroPad 4 hdr))
      rcases h3 : readExactToVecS ask t1 (leNat (zeroPad 4 hdr)) with ⟨r3, t3⟩
      rcases h4 : defaultReadExact t1 (leNat (zeroPad 4 hdr)) with ⟨r4, t4⟩
      rw [h3, h4] at b1 b2
      simp only at b1 b2
      subst b1
      cases r3 with
      | error e => exact ⟨rfl, b2⟩
      | ok body =>
        simp only
        by_cases hv : bamValidate body = true
        · rw [if_pos hv, if_pos hv]; exact ⟨rfl, b2⟩
        · rw [if_neg hv, if_neg hv]; exact ⟨rfl, b2⟩

/-- the sync record stream as it is now = C12's model of it, from sources that hold the same bytes -/
theorem bamRecordsS_eq_c12 (ask : Src UInt8 → Nat) (hask : ∀ s, 0 < ask s) (fuel : Nat)
    (s s' : Src UInt8) (acc : List Bytes) (h : s.data = s'.data) :
    (bamRecordsS ask fuel s acc).1 = (bamRecords fuel s' acc).1 ∧
    (bamRecordsS ask fuel s acc).2.data = (bamRecords fuel s' acc).2.data := by
  induction fuel generalizing s s' acc with
  | zero => simp [bamRecordsS, bamRecords, h]
  | succ fuel ih =>
    obtain ⟨a1, a2⟩ := bamReadRecordS_eq_c12 ask hask s
    obtain ⟨b1, b2⟩ := bamReadRecord_irrel s s' h
    simp only [bamRecordsS, bamRecords]
    rcases h1 : bamReadRecordS ask s with ⟨r1, t1⟩
    rcases h2 : bamReadRecord s' with ⟨r2, t2⟩
    rw [h1] at a1 a2
    rw [h2] at b1 b2
    simp only at a1 a2 b1 b2
    have hr : r1 = r2 := by rw [a1, b1]
    have hd : t1.data = t2.data := by rw [a2, b2]
    subst hr
    cases r1 with
    | eof => exact ⟨rfl, hd⟩
    | err e => exact ⟨rfl, hd⟩
    | record r => exact ih t1 t2 (r :: acc) hd

/-- the async record stream never runs out of fuel and is never starved: its ending is end of stream
or a genuine I/O error class -/
theorem bamRecordsAllA_ne_fuel (A : ARead σ UInt8) (hA : A.Lawful) (ask : Nat × σ → Nat)
    (hask : ∀ t, 0 < ask t) (s : σ) : (bamRecordsAllA A ask s).1.2 ≠ some .fuel := by
  have h := (bamRecordsA_eq_sync A hA ask hask (fun _ => 1) (fun _ => Nat.one_pos)
    ((A.rest s).length + 1) s ⟨A.rest s, []⟩ [] rfl).1
  have h2 := (bamRecordsS_eq_c12 (fun _ => 1) (fun _ => Nat.one_pos) ((A.rest s).length + 1)
    ⟨A.rest s, []⟩ ⟨A.rest s, []⟩ [] rfl).1
  unfold bamRecordsAllA
  rw [h, h2]
  exact bamRecords_fuel_ok _ ⟨A.rest s, []⟩ [] (Nat.lt_succ_self _)

/-! ## `BufReader`, the scan future -/

theorem pollFillBuf_cases (A : ARead σ α) (hA : A.Lawful) (cap : Nat) (hc : 0 < cap) (b : ABuf σ α) :
    (∃ b', pollFillBuf A cap b = (.pending, b') ∧ b'.stream A = b.stream A ∧
      A.credit b'.inner < A.credit b.inner) ∨
    (∃ w b', pollFillBuf A cap b = (.ready w, b') ∧ b'.buf = w ∧ b'.stream A = b.stream A ∧
      A.credit b'.inner ≤ A.credit b.inner ∧ (w = [] → b.stream A = [])) := by
  unfold pollFillBuf
  by_cases hb : b.buf.length ≠ 0
  · right
    rw [if_pos hb]
    refine ⟨b.buf, b, rfl, rfl, rfl, Nat.le_refl _, ?_⟩
    intro h; rw [h] at hb; simp at hb
  · rw [if_neg hb]
    have hbuf : b.buf = [] := List.eq_nil_of_length_eq_zero (by omega)
    rcases hp : A.poll b.inner cap with ⟨r, s'⟩
    cases r with
    | pending =>
      left
      obtain ⟨a1, a2⟩ := hA.pending _ _ _ hp
      exact ⟨_, rfl, by simp [ABuf.stream, a1], a2⟩
    | ready bs =>
      right
      obtain ⟨k, k1, k2, k3, k4, k5, k6⟩ := hA.ready _ _ _ _ hp
      have hlen : bs.length = k := by rw [k3, List.length_take]; omega
      refine ⟨bs, ⟨bs, s'⟩, rfl, rfl, ?_, k6, ?_⟩
      · simp only [ABuf.stream, hbuf, List.nil_append]
        rw [k3, k4, List.take_append_drop]
      · intro hw
        have hk0 : k = 0 := by rw [hw] at hlen; simpa using hlen.symm
        have : A.rest b.inner = [] := by
          by_cases hne : A.rest b.inner = []
          · exact hne
          · have := k5 hc hne; omega
        simp [ABuf.stream, hbuf, this]

theorem aconsume_stream (A : ARead σ α) (b : ABuf σ α) (n : Nat) (hn : n ≤ b.buf.length) :
    (aconsume n b).stream A = (b.stream A).drop n := by
  simp only [aconsume, ABuf.stream]
  rw [List.drop_append_of_le_length hn]

/-- one poll of the scan future: a `Pending` keeps what the loop has computed so far (`spec` of the
state and the stream is unchanged), a `Ready` is `spec` of the stream -/
theorem scanPoll_spec {st ρ : Type} (A : ARead σ α) (hA : A.Lawful) (cap : Nat) (hc : 0 < cap)
    (k : st → List α → Scan st ρ) (spec : st → List α → ρ × List α) (H : ScanSpec k spec)
    (fuel : Nat) (s0 : st) (b : ABuf σ α) (hf : (b.stream A).length < fuel) :
    (∀ t', scanPoll A cap k fuel (s0, b) = (.pending, t') →
      spec t'.1 (t'.2.stream A) = spec s0 (b.stream A) ∧
      (t'.2.stream A).length ≤ (b.stream A).length ∧ A.credit t'.2.inner < A.credit b.inner) ∧
    (∀ r t', scanPoll A cap k fuel (s0, b) = (.ready r, t') →
      r = .ok (spec s0 (b.stream A)).1 ∧ t'.2.stream A = (spec s0 (b.stream A)).2) := by
  induction fuel generalizing s0 b with
  | zero => omega
  | succ fuel ih =>
    rcases pollFillBuf_cases A hA cap hc b with ⟨b', hfb, hst, hcr⟩ | ⟨w, b', hfb, hbuf, hst, hcr, hnil⟩
    · simp only [scanPoll, hfb]
      refine ⟨?_, (by intro r t' h; cases h)⟩
      intro t' h
      cases h
      exact ⟨by rw [hst], by rw [hst]; exact Nat.le_refl _, hcr⟩
    · simp only [scanPoll, hfb]
      have hstream : b.stream A = w ++ A.rest b'.inner := by rw [← hst, ABuf.stream, hbuf]
      have hys : w = [] → A.rest b'.inner = [] := by
        intro hw
        have := hnil hw
        rw [hstream, hw] at this
        simpa using this
      cases hk : k s0 w with
      | done r =>
        simp only
        have := H.done s0 w (A.rest b'.inner) r hys hk
        refine ⟨(by intro t' h; cases h), ?_⟩
        intro r' t' h
        cases h
        rw [hstream, this]
        exact ⟨rfl, by rw [hst, hstream]⟩
      | more st' n =>
        simp only
        obtain ⟨hn0, hnw, hsp⟩ := H.more s0 w (A.rest b'.inner) st' n hys hk
        have hcs : (aconsume n b').stream A = (b.stream A).drop n := by
          rw [aconsume_stream A b' n (by rw [hbuf]; exact hnw), hst]
        have hlen : ((aconsume n b').stream A).length + n ≤ (b.stream A).length := by
          rw [hcs, List.length_drop]
          have : n ≤ (b.stream A).length := by rw [hstream]; simp; omega
          omega
        obtain ⟨i1, i2⟩ := ih st' (aconsume n b') (by omega)
        rw [hcs] at i1 i2
        rw [hstream] at i1 i2 ⊢
        rw [hsp]
        refine ⟨?_, i2⟩
        intro t' h
        obtain ⟨a1, a2, a3⟩ := i1 t' h
        refine ⟨a1, ?_, ?_⟩
        · rw [List.length_drop] at a2; omega
        · exact Nat.lt_of_lt_of_le a3 hcr
      | last r n =>
        simp only
        obtain ⟨hnw, hsp⟩ := H.last s0 w (A.rest b'.inner) r n hys hk
        have hcs : (aconsume n b').stream A = (b.stream A).drop n := by
          rw [aconsume_stream A b' n (by rw [hbuf]; exact hnw), hst]
        refine ⟨(by intro t' h; cases h), ?_⟩
        intro r' t' h
        cases h
        simp only
        rw [hcs, hstream, hsp]
        exact ⟨rfl, rfl⟩

/-- **A `fill_buf` / `consume` loop awaited under every poll schedule computes `spec` of the stream** —
the statement `scanLoop_spec` makes about the sync loop with the same window function -/
theorem scanA_spec {st ρ : Type} (A : ARead σ α) (hA : A.Lawful) (cap : Nat) (hc : 0 < cap)
    (k : st → List α → Scan st ρ) (spec : st → List α → ρ × List α) (H : ScanSpec k spec)
    (s0 : st) (b : ABuf σ α) :
    (scanA A cap k s0 b).1 = .ok (spec s0 (b.stream A)).1 ∧
    (scanA A cap k s0 b).2.stream A = (spec s0 (b.stream A)).2 := by
  obtain ⟨r, t', h1, h2⟩ := drive_spec (scanPoll A cap k ((b.stream A).length + 2))
    (fun t => A.credit t.2.inner)
    (fun t => spec t.1 (t.2.stream A) = spec s0 (b.stream A) ∧ (t.2.stream A).length ≤ (b.stream A).length)
    (fun r t' => r = .ok (spec s0 (b.stream A)).1 ∧ t'.2.stream A = (spec s0 (b.stream A)).2)
    (by
      intro t ht
      obtain ⟨p1, p2⟩ := scanPoll_spec A hA cap hc k spec H ((b.stream A).length + 2) t.1 t.2 (by omega)
      rw [ht.1] at p1 p2
      refine ⟨?_, ?_⟩
      · intro t' hp
        obtain ⟨a, b', c⟩ := p1 t' hp
        exact ⟨⟨a, by omega⟩, c⟩
      · intro r t' hp
        exact p2 r t' hp)
    (A.credit b.inner + 1) (s0, b) ⟨rfl, Nat.le_refl _⟩ (Nat.lt_succ_self _)
  simp only [scanA, await, h1]
  exact h2

/-! ### quantities no poll changes -/

theorem pollFillBuf_pres {γ : Type} (A : ARead σ α) (g : σ → γ) (hg : ∀ s n, g (A.poll s n).2 = g s)
    (cap : Nat) (b : ABuf σ α) : g (pollFillBuf A cap b).2.inner = g b.inner := by
  unfold pollFillBuf
  by_cases hb : b.buf.length ≠ 0
  · rw [if_pos hb]
  · rw [if_neg hb]
    have := hg b.inner cap
    rcases hp : A.poll b.inner cap with ⟨r, s'⟩
    rw [hp] at this
    cases r <;> exact this

theorem scanPoll_pres {γ st ρ : Type} (A : ARead σ α) (g : σ → γ) (hg : ∀ s n, g (A.poll s n).2 = g s)
    (cap : Nat) (k : st → List α → Scan st ρ) (fuel : Nat) (t : st × ABuf σ α) :
    g (scanPoll A cap k fuel t).2.2.inner = g t.2.inner := by
  induction fuel generalizing t with
  | zero => rfl
  | succ fuel ih =>
    have h1 := pollFillBuf_pres A g hg cap t.2
    rcases hfb : pollFillBuf A cap t.2 with ⟨r, b'⟩
    rw [hfb] at h1
    simp only [scanPoll, hfb]
    cases r with
    | pending => exact h1
    | ready w =>
      simp only
      cases k t.1 w with
      | done r => exact h1
      | more st' n => simp only; rw [ih]; exact h1
      | last r n => exact h1

theorem scanA_pres {γ st ρ : Type} (A : ARead σ α) (g : σ → γ) (hg : ∀ s n, g (A.poll s n).2 = g s)
    (cap : Nat) (k : st → List α → Scan st ρ) (s0 : st) (b : ABuf σ α) :
    g (scanA A cap k s0 b).2.inner = g b.inner := by
  have := drive_pres (scanPoll A cap k ((b.stream A).length + 2)) (fun t => g t.2.inner)
    (fun t => scanPoll_pres A g hg cap k _ t) (A.credit b.inner + 1) (s0, b)
  simp only [scanA, await]
  rcases hd : drive (scanPoll A cap k ((b.stream A).length + 2)) (A.credit b.inner + 1) (s0, b) with ⟨r, t'⟩
  rw [hd] at this
  cases r <;> exact this

/-! ## `read_until`, `read_line` -/

/-- `read_until` as a stream function with the bytes already appended as state -/
def specUntilSt (p : α → Bool) (acc xs : List α) : List α × List α :=
  (acc ++ (specUntil p xs).1, (specUntil p xs).2)

theorem untilStep_spec (p : α → Bool) : ScanSpec (untilStep p) (specUntilSt p) := by
  constructor
  · intro acc w ys r hwy hk
    simp only [untilStep] at hk
    split at hk
    · cases hk
    · rename_i heq
      split at hk
      · rename_i hwl
        injection hk with hk
        have hw : w = [] := List.eq_nil_of_length_eq_zero hwl
        rw [← hk, hw, hwy hw]
        simp [specUntilSt, specUntil, findSplit]
      · cases hk
  · intro acc w ys st' n hwy hk
    simp only [untilStep] at hk
    split at hk
    · cases hk
    · rename_i heq
      split at hk
      · cases hk
      · rename_i hwl
        injection hk with h1 h2
        subst h1; subst h2
        refine ⟨by omega, Nat.le_refl _, ?_⟩
        have hd : (w ++ ys).drop w.length = ys := by simp
        rw [hd]
        simp only [specUntilSt, specUntil]
        rw [findSplit_append_none _ w ys heq]
        cases findSplit p ys with
        | none => simp [List.append_assoc]
        | some t => obtain ⟨pre, d, post⟩ := t; simp [List.append_assoc]
  · intro acc w ys r n hwy hk
    simp only [untilStep] at hk
    split at hk
    · rename_i pre d post heq
      injection hk with h1 h2
      subst h1; subst h2
      have hw := findSplit_some_eq _ w pre post d heq
      refine ⟨by rw [hw]; simp, ?_⟩
      simp only [specUntilSt, specUntil]
      rw [findSplit_append_some _ w ys pre post d heq]
      simp only
      congr 1
      · simp [List.append_assoc]
      · rw [hw]; simp
    · split at hk <;> cases hk

/-- async `read_line` = sync `read_line` on the same stream, whatever the two buffers hold -/
theorem readLineA_eq_sync (A : ARead σ UInt8) (hA : A.Lawful) (cap : Nat) (hc : 0 < cap)
    (b : ABuf σ UInt8) (bs : BufR UInt8) (hcs : 0 < bs.cap) (h : b.stream A = bs.stream) :
    (readLineA A cap b).1 = .ok (readLine bs).1 ∧
    (readLineA A cap b).2.stream A = (readLine bs).2.stream ∧ (readLine bs).2.cap = bs.cap := by
  obtain ⟨a1, a2⟩ := scanA_spec A hA cap hc (untilStep (· == LF)) (specUntilSt (· == LF))
    (untilStep_spec _) [] b
  obtain ⟨b1, b2, b3⟩ := readUntil_spec (· == LF) bs.fuel bs [] hcs (mu_lt_fuel bs)
  unfold readLineA readLine
  rcases hs : scanA A cap (untilStep (· == LF)) [] b with ⟨r, b'⟩
  rw [hs] at a1 a2
  simp only at a1 a2
  subst a1
  simp only [specUntilSt, List.nil_append] at a2 ⊢
  simp only [List.nil_append] at b1
  rw [b1, h]
  exact ⟨rfl, by rw [a2, b2, h], b3⟩

/-! ## noodles-gff `read_line` -/

theorem gffReadLineA_eq_sync (A : ARead σ UInt8) (hA : A.Lawful) (cap : Nat) (hc : 0 < cap)
    (fuel : Nat) (b : ABuf σ UInt8) (bs : BufR UInt8) (hcs : 0 < bs.cap) (h : b.stream A = bs.stream) :
    (gffReadLineA A cap fuel b).1 = (gffReadLineS fuel bs).1 ∧
    (gffReadLineA A cap fuel b).2.stream A = (gffReadLineS fuel bs).2.stream ∧
    0 < (gffReadLineS fuel bs).2.cap := by
  induction fuel generalizing b bs with
  | zero => exact ⟨rfl, h, hcs⟩
  | succ fuel ih =>
    obtain ⟨a1, a2, a3⟩ := readLineA_eq_sync A hA cap hc b bs hcs h
    simp only [gffReadLineA, gffReadLineS]
    rcases h1 : readLineA A cap b with ⟨r1, t1⟩
    rcases h2 : readLine bs with ⟨r2, t2⟩
    rw [h1, h2] at a1 a2
    rw [h2] at a3
    simp only at a1 a2 a3
    subst a1
    obtain ⟨n, l⟩ := r2
    simp only
    by_cases hstop : (n = 0 || !isBlank l) = true
    · rw [if_pos hstop, if_pos hstop]; exact ⟨rfl, a2, by rw [a3]; exact hcs⟩
    · rw [if_neg hstop, if_neg hstop]
      exact ih t1 t2 (by rw [a3]; exact hcs) a2

theorem gffLinesA_eq_sync (A : ARead σ UInt8) (hA : A.Lawful) (cap : Nat) (hc : 0 < cap)
    (fuel : Nat) (b : ABuf σ UInt8) (bs : BufR UInt8) (acc : List (Nat × Bytes)) (hcs : 0 < bs.cap)
    (h : b.stream A = bs.stream) :
    (gffLinesA A cap fuel b acc).1 = (gffLinesS fuel bs acc).1 ∧
    (gffLinesA A cap fuel b acc).2.stream A = (gffLinesS fuel bs acc).2.stream := by
  induction fuel generalizing b bs acc with
  | zero => exact ⟨rfl, h⟩
  | succ fuel ih =>
    obtain ⟨a1, a2, a3⟩ := gffReadLineA_eq_sync A hA cap hc (bs.stream.length + 1) b bs hcs h
    simp only [gffLinesA, gffLinesS]
    rw [h]
    rcases h1 : gffReadLineA A cap (bs.stream.length + 1) b with ⟨r1, t1⟩
    rcases h2 : gffReadLineS (bs.stream.length + 1) bs with ⟨r2, t2⟩
    rw [h1, h2] at a1 a2
    rw [h2] at a3
    simp only at a1 a2 a3
    subst a1
    cases r1 with
    | error e => exact ⟨rfl, a2⟩
    | ok x =>
      obtain ⟨n, l⟩ := x
      simp only
      by_cases hn : n = 0
      · rw [if_pos hn, if_pos hn]; exact ⟨rfl, a2⟩
      · rw [if_neg hn, if_neg hn]; exact ih t1 t2 ((n, l) :: acc) a3 a2

/-! ## the SAM / VCF header sub-readers -/

theorem hdrReadLineA_eq_sync (A : ARead σ UInt8) (hA : A.Lawful) (cap : Nat) (hc : 0 < cap) (pfx : UInt8)
    (isEol : Bool) (b : ABuf σ UInt8) (bs : BufR UInt8) (hcs : 0 < bs.cap) (h : b.stream A = bs.stream) :
    (hdrReadLineA A cap pfx isEol b).1 = (hdrReadLine pfx isEol bs).1 ∧
    (hdrReadLineA A cap pfx isEol b).2.stream A = (hdrReadLine pfx isEol bs).2.stream ∧
    (hdrReadLine pfx isEol bs).2.cap = bs.cap := by
  obtain ⟨a1, a2⟩ := scanA_spec A hA cap hc (hdrStep pfx) (specHdr pfx) (hdrStep_spec pfx) ([], isEol) b
  obtain ⟨b1, b2, b3⟩ := scanLoop_spec (hdrStep pfx) (specHdr pfx) (hdrStep_spec pfx) bs.fuel ([], isEol) bs hcs
    (mu_lt_fuel bs)
  unfold hdrReadLineA hdrReadLine
  rcases e1 : scanA A cap (hdrStep pfx) ([], isEol) b with ⟨r1, t1⟩
  rcases e2 : scanLoop true (hdrStep pfx) bs.fuel ([], isEol) bs with ⟨r2, t2⟩
  rw [e1] at a1 a2
  rw [e2] at b1 b2 b3
  simp only at a1 a2 b1 b2 b3
  subst a1; subst b1
  rw [h]
  exact ⟨rfl, by rw [a2, b2, h], b3⟩

theorem hdrLinesA_eq_sync (A : ARead σ UInt8) (hA : A.Lawful) (cap : Nat) (hc : 0 < cap) (pfx : UInt8)
    (fuel : Nat) (isEol : Bool) (b : ABuf σ UInt8) (bs : BufR UInt8) (acc : List Bytes) (hcs : 0 < bs.cap)
    (h : b.stream A = bs.stream) :
    (hdrLinesA A cap pfx fuel isEol b acc).1 = (hdrLines pfx fuel isEol bs acc).1 ∧
    (hdrLinesA A cap pfx fuel isEol b acc).2.stream A = (hdrLines pfx fuel isEol bs acc).2.stream := by
  induction fuel generalizing isEol b bs acc with
  | zero => exact ⟨rfl, h⟩
  | succ fuel ih =>
    obtain ⟨a1, a2, a3⟩ := hdrReadLineA_eq_sync A hA cap hc pfx isEol b bs hcs h
    simp only [hdrLinesA, hdrLines]
    rcases h1 : hdrReadLineA A cap pfx isEol b with ⟨r1, t1⟩
    rcases h2 : hdrReadLine pfx isEol bs with ⟨r2, t2⟩
    rw [h1, h2] at a1 a2
    rw [h2] at a3
    simp only at a1 a2 a3
    subst a1
    cases r1 with
    | error e => exact ⟨rfl, a2⟩
    | ok x =>
      obtain ⟨n, l, e⟩ := x
      cases n with
      | zero => exact ⟨rfl, a2⟩
      | succ n => exact ih e t1 t2 (l :: acc) (by rw [a3]; exact hcs) a2

theorem payload_bamRecordOps (recs : List Bytes) :
    Noodles.Bgzf.payload (bamRecordOps recs) = bamFramed recs := by
  induction recs with
  | nil => rfl
  | cons r rs ih =>
    simp only [bamRecordOps, bamFramed, List.flatMap_cons, List.map_cons, List.flatten_cons] at ih ⊢
    simp only [List.cons_append, List.nil_append, Noodles.Bgzf.payload, ih, List.append_assoc]

/-! ## the BAM header -/

/-- one `read_until(b'\n')` over noodles-bam `sam_header::Reader` on the stream: nothing if the previous
line is complete and the stream is at its end or goes on with a NUL; else through the first LF, or
everything -/
def specBamHdr (st : Bytes × Bool) (xs : Bytes) : (Bytes × Bool) × Bytes :=
  if hdrStop st.2 xs then (st, xs)
  else match findSplit (· == LF) xs with
    | some (pre, d, post) => ((st.1 ++ pre ++ [d], true), post)
    | none => ((st.1 ++ xs, false), [])

theorem hdrStop_window (e : Bool) (w ys : Bytes) (h : w = [] → ys = []) :
    hdrStop e (w ++ ys) = hdrStop e w := by
  simp only [hdrStop, head?_append_window w ys h]

theorem bamHdrStep_spec : ScanSpec bamHdrStep specBamHdr := by
  constructor
  · intro st w ys r hwy hk
    obtain ⟨acc, e⟩ := st
    simp only [bamHdrStep] at hk
    simp only [specBamHdr, hdrStop_window _ w ys hwy]
    by_cases hc : hdrStop e w = true
    · rw [if_pos hc] at hk ⊢
      injection hk with hk
      rw [hk]
    · rw [if_neg hc] at hk ⊢
      split at hk
      · cases hk
      · rename_i heq
        split at hk
        · rename_i hwl
          injection hk with hk
          have hw : w = [] := List.eq_nil_of_length_eq_zero hwl
          rw [← hk, hw, hwy hw]
          simp [findSplit]
        · cases hk
  · intro st w ys st' n hwy hk
    obtain ⟨acc, e⟩ := st
    simp only [bamHdrStep] at hk
    simp only [specBamHdr, hdrStop_window _ w ys hwy]
    by_cases hc : hdrStop e w = true
    · rw [if_pos hc] at hk; cases hk
    · rw [if_neg hc] at hk ⊢
      split at hk
      · cases hk
      · rename_i heq
        split at hk
        · cases hk
        · rename_i hwl
          injection hk with h1 h2
          subst h1; subst h2
          refine ⟨by omega, Nat.le_refl _, ?_⟩
          rw [findSplit_append_none _ w ys heq]
          have hd : (w ++ ys).drop w.length = ys := by simp
          rw [hd]
          have hns : ∀ zs, hdrStop false zs = false := by intro zs; simp [hdrStop]
          simp only [hns, Bool.false_eq_true, if_false]
          cases findSplit (fun c => c == LF) ys with
          | none => simp [List.append_assoc]
          | some t => obtain ⟨pre, d, post⟩ := t; simp [List.append_assoc]
  · intro st w ys r n hwy hk
    obtain ⟨acc, e⟩ := st
    simp only [bamHdrStep] at hk
    simp only [specBamHdr, hdrStop_window _ w ys hwy]
    by_cases hc : hdrStop e w = true
    · rw [if_pos hc] at hk; cases hk
    · rw [if_neg hc] at hk ⊢
      split at hk
      · rename_i pre d post heq
        injection hk with h1 h2
        subst h1; subst h2
        have hw := findSplit_some_eq _ w pre post d heq
        refine ⟨by rw [hw]; simp, ?_⟩
        rw [findSplit_append_some _ w ys pre post d heq]
        simp only
        congr 1
        rw [hw]; simp
      · split at hk <;> cases hk

theorem default_buf_pos : 0 < DEFAULT_BUF_SIZE := by decide

theorem readLineHdrA_eq_sync (A : ARead σ UInt8) (hA : A.Lawful) (isEol : Bool)
    (b : ABuf (Nat × σ) UInt8) (bs : BufR UInt8) (hcs : 0 < bs.cap)
    (h : b.stream (takeRead A) = bs.stream) :
    (readLineHdrA A isEol b).1 = (readLineHdrS isEol bs).1 ∧
    (readLineHdrA A isEol b).2.stream (takeRead A) = (readLineHdrS isEol bs).2.stream ∧
    (readLineHdrS isEol bs).2.cap = bs.cap := by
  obtain ⟨a1, a2⟩ := scanA_spec (takeRead A) (takeRead_lawful A hA) DEFAULT_BUF_SIZE default_buf_pos
    bamHdrStep specBamHdr bamHdrStep_spec ([], isEol) b
  obtain ⟨b1, b2, b3⟩ := scanLoop_spec bamHdrStep specBamHdr bamHdrStep_spec bs.fuel ([], isEol) bs hcs
    (mu_lt_fuel bs)
  unfold readLineHdrA readLineHdrS
  rcases e1 : scanA (takeRead A) DEFAULT_BUF_SIZE bamHdrStep ([], isEol) b with ⟨r1, t1⟩
  rcases e2 : scanLoop true bamHdrStep bs.fuel ([], isEol) bs with ⟨r2, t2⟩
  rw [e1] at a1 a2
  rw [e2] at b1 b2 b3
  simp only at a1 a2 b1 b2 b3
  subst a1; subst b1
  rw [h]
  exact ⟨rfl, by rw [a2, b2, h], b3⟩

theorem readLineHdrA_pres (A : ARead σ UInt8) (hA : A.Lawful) (isEol : Bool) (b : ABuf (Nat × σ) UInt8) :
    afterTake A (readLineHdrA A isEol b).2.inner = afterTake A b.inner := by
  have := scanA_pres (takeRead A) (afterTake A) (takeRead_after A hA) DEFAULT_BUF_SIZE bamHdrStep ([], isEol) b
  unfold readLineHdrA
  rcases e1 : scanA (takeRead A) DEFAULT_BUF_SIZE bamHdrStep ([], isEol) b with ⟨r1, t1⟩
  rw [e1] at this
  cases r1 with
  | error e => exact this
  | ok x => exact this

theorem samHeaderLinesA_eq_sync {π : Type} (A : ARead σ UInt8) (hA : A.Lawful) (P : HdrParser π)
    (fuel : Nat) (isEol : Bool) (p : π) (b : ABuf (Nat × σ) UInt8) (bs : BufR UInt8) (hcs : 0 < bs.cap)
    (h : b.stream (takeRead A) = bs.stream) :
    (samHeaderLinesA A P fuel isEol p b).1 = (samHeaderLinesS P fuel isEol p bs).1 ∧
    (samHeaderLinesA A P fuel isEol p b).2.stream (takeRead A) = (samHeaderLinesS P fuel isEol p bs).2.stream ∧
    0 < (samHeaderLinesS P fuel isEol p bs).2.cap := by
  induction fuel generalizing isEol p b bs with
  | zero => exact ⟨rfl, h, hcs⟩
  | succ fuel ih =>
    obtain ⟨a1, a2, a3⟩ := readLineHdrA_eq_sync A hA isEol b bs hcs h
    simp only [samHeaderLinesA, samHeaderLinesS]
    rcases h1 : readLineHdrA A isEol b with ⟨r1, t1⟩
    rcases h2 : readLineHdrS isEol bs with ⟨r2, t2⟩
    rw [h1, h2] at a1 a2
    rw [h2] at a3
    simp only at a1 a2 a3
    subst a1
    have hc2 : 0 < t2.cap := by rw [a3]; exact hcs
    cases r1 with
    | error e => exact ⟨rfl, a2, hc2⟩
    | ok x =>
      obtain ⟨n, l, e⟩ := x
      simp only
      by_cases hn : n = 0
      · rw [if_pos hn, if_pos hn]; exact ⟨rfl, a2, hc2⟩
      · rw [if_neg hn, if_neg hn]
        cases P.parsePartial p l with
        | none => exact ⟨rfl, a2, hc2⟩
        | some p' => exact ih e p' t1 t2 hc2 a2

theorem samHeaderLinesA_pres {π : Type} (A : ARead σ UInt8) (hA : A.Lawful) (P : HdrParser π)
    (fuel : Nat) (isEol : Bool) (p : π) (b : ABuf (Nat × σ) UInt8) :
    afterTake A (samHeaderLinesA A P fuel isEol p b).2.inner = afterTake A b.inner := by
  induction fuel generalizing isEol p b with
  | zero => rfl
  | succ fuel ih =>
    have h0 := readLineHdrA_pres A hA isEol b
    simp only [samHeaderLinesA]
    rcases h1 : readLineHdrA A isEol b with ⟨r1, t1⟩
    rw [h1] at h0
    cases r1 with
    | error e => exact h0
    | ok x =>
      obtain ⟨n, l, e⟩ := x
      simp only
      by_cases hn : n = 0
      · rw [if_pos hn]; exact h0
      · rw [if_neg hn]
        cases P.parsePartial p l with
        | none => exact h0
        | some p' => simp only; rw [ih]; exact h0

/-- the text phase of the two header readers: same result; on success both sub-readers are used up
(`discard_to_end`), and the async one has not touched what follows the text -/
theorem readSamHeaderA_eq_sync {π : Type} (A : ARead σ UInt8) (hA : A.Lawful) (P : HdrParser π)
    (b : ABuf (Nat × σ) UInt8) (bs : BufR UInt8) (hcs : 0 < bs.cap)
    (h : b.stream (takeRead A) = bs.stream) :
    (readSamHeaderA A P b).1 = (readSamHeaderS P bs).1 ∧
    (∀ p, (readSamHeaderA A P b).1 = .ok p → (readSamHeaderA A P b).2.stream (takeRead A) = []) ∧
    afterTake A (readSamHeaderA A P b).2.inner = afterTake A b.inner := by
  obtain ⟨a1, a2, a3⟩ := samHeaderLinesA_eq_sync A hA P (bs.stream.length + 1) true P.init b bs hcs h
  have hp := samHeaderLinesA_pres A hA P (bs.stream.length + 1) true P.init b
  unfold readSamHeaderA readSamHeaderS
  rw [h]
  rcases h1 : samHeaderLinesA A P (bs.stream.length + 1) true P.init b with ⟨r1, t1⟩
  rcases h2 : samHeaderLinesS P (bs.stream.length + 1) true P.init bs with ⟨r2, t2⟩
  rw [h1, h2] at a1 a2
  rw [h2] at a3
  rw [h1] at hp
  simp only at a1 a2 a3 hp
  subst a1
  cases r1 with
  | error e => exact ⟨rfl, (by intro p hh; cases hh), hp⟩
  | ok p =>
    simp only
    obtain ⟨c1, c2⟩ := scanA_spec (takeRead A) (takeRead_lawful A hA) DEFAULT_BUF_SIZE default_buf_pos
      (discardStep (α := UInt8)) specDiscard discardStep_spec 0 t1
    obtain ⟨d1, d2, _⟩ := scanLoop_spec (discardStep (α := UInt8)) specDiscard discardStep_spec t2.fuel 0 t2 a3
      (mu_lt_fuel t2)
    have hp2 := scanA_pres (takeRead A) (afterTake A) (takeRead_after A hA) DEFAULT_BUF_SIZE
      (discardStep (α := UInt8)) 0 t1
    unfold discardToEndA discardToEnd
    rcases e1 : scanA (takeRead A) DEFAULT_BUF_SIZE (discardStep (α := UInt8)) 0 t1 with ⟨r3, t3⟩
    rcases e2 : scanLoop true (discardStep (α := UInt8)) t2.fuel 0 t2 with ⟨r4, t4⟩
    rw [e1] at c1 c2 hp2
    rw [e2] at d1
    simp only at c1 c2 d1 hp2
    subst c1; subst d1
    refine ⟨rfl, ?_, by simp only; rw [hp2, hp]⟩
    intro _ _
    simp only
    rw [c2]; rfl

theorem readRefSeqA_eq_sync (A : ARead σ UInt8) (hA : A.Lawful) (ask : Nat × σ → Nat)
    (hask : ∀ t, 0 < ask t) (askS : Src UInt8 → Nat) (haskS : ∀ s, 0 < askS s) (s : σ) (src : Src UInt8)
    (h : A.rest s = src.data) :
    (readRefSeqA A ask s).1 = (readRefSeqS askS src).1 ∧
    A.rest (readRefSeqA A ask s).2 = (readRefSeqS askS src).2.data := by
  obtain ⟨a1, a2⟩ := readExactA_eq_sync A hA s src h 4
  unfold readRefSeqA readRefSeqS
  rcases h1 : readExactA A s 4 with ⟨r1, t1⟩
  rcases h2 : defaultReadExact src 4 with ⟨r2, t2⟩
  rw [h1, h2] at a1 a2
  simp only at a1 a2
  subst a1
  cases r1 with
  | error e => exact ⟨rfl, a2⟩
  | ok ln =>
    simp only
    obtain ⟨b1, b2⟩ := readExactToVecA_eq_sync A hA ask hask askS haskS t1 t2 a2 (leNat ln)
    rcases h3 : readExactToVecA A ask t1 (leNat ln) with ⟨r3, t3⟩
    rcases h4 : readExactToVecS askS t2 (leNat ln) with ⟨r4, t4⟩
    rw [h3, h4] at b1 b2
    simp only at b1 b2
    subst b1
    cases r3 with
    | error e => exact ⟨rfl, b2⟩
    | ok cname =>
      simp only
      cases cstrName cname with
      | none => exact ⟨rfl, b2⟩
      | some name =>
        simp only
        obtain ⟨c1, c2⟩ := readExactA_eq_sync A hA t3 t4 b2 4
        rcases h5 : readExactA A t3 4 with ⟨r5, t5⟩
        rcases h6 : defaultReadExact t4 4 with ⟨r6, t6⟩
        rw [h5, h6] at c1 c2
        simp only at c1 c2
        subst c1
        cases r5 with
        | error e => exact ⟨rfl, c2⟩
        | ok lr =>
          simp only
          by_cases hz : leNat lr = 0
          · rw [if_pos hz, if_pos hz]; exact ⟨rfl, c2⟩
          · rw [if_neg hz, if_neg hz]; exact ⟨rfl, c2⟩

theorem readRefSeqsLoopA_eq_sync (A : ARead σ UInt8) (hA : A.Lawful) (ask : Nat × σ → Nat)
    (hask : ∀ t, 0 < ask t) (askS : Src UInt8 → Nat) (haskS : ∀ s, 0 < askS s) (n : Nat) (s : σ)
    (src : Src UInt8) (acc : List (Bytes × Nat)) (h : A.rest s = src.data) :
    (readRefSeqsLoopA A ask n s acc).1 = (readRefSeqsLoopS askS n src acc).1 ∧
    A.rest (readRefSeqsLoopA A ask n s acc).2 = (readRefSeqsLoopS askS n src acc).2.data := by
  induction n generalizing s src acc with
  | zero => exact ⟨rfl, h⟩
  | succ n ih =>
    obtain ⟨a1, a2⟩ := readRefSeqA_eq_sync A hA ask hask askS haskS s src h
    simp only [readRefSeqsLoopA, readRefSeqsLoopS]
    rcases h1 : readRefSeqA A ask s with ⟨r1, t1⟩
    rcases h2 : readRefSeqS askS src with ⟨r2, t2⟩
    rw [h1, h2] at a1 a2
    simp only at a1 a2
    subst a1
    cases r1 with
    | error e => exact ⟨rfl, a2⟩
    | ok x => obtain ⟨name, len⟩ := x; exact ih t1 t2 _ a2

theorem readRefSeqsA_eq_sync (A : ARead σ UInt8) (hA : A.Lawful) (ask : Nat × σ → Nat)
    (hask : ∀ t, 0 < ask t) (askS : Src UInt8 → Nat) (haskS : ∀ s, 0 < askS s) (s : σ) (src : Src UInt8)
    (h : A.rest s = src.data) :
    (readRefSeqsA A ask s).1 = (readRefSeqsS askS src).1 ∧
    A.rest (readRefSeqsA A ask s).2 = (readRefSeqsS askS src).2.data := by
  obtain ⟨a1, a2⟩ := readExactA_eq_sync A hA s src h 4
  unfold readRefSeqsA readRefSeqsS
  rcases h1 : readExactA A s 4 with ⟨r1, t1⟩
  rcases h2 : defaultReadExact src 4 with ⟨r2, t2⟩
  rw [h1, h2] at a1 a2
  simp only at a1 a2
  subst a1
  cases r1 with
  | error e => exact ⟨rfl, a2⟩
  | ok nr => exact readRefSeqsLoopA_eq_sync A hA ask hask askS haskS (leNat nr) t1 t2 [] a2

/-- **the async BAM header reader = the sync one**: same result (parser state and dictionary, or the
same error); when it succeeds, the same bytes are left -/
theorem bamReadHeaderA_eq_sync {π : Type} (A : ARead σ UInt8) (hA : A.Lawful) (ask : Nat × σ → Nat)
    (hask : ∀ t, 0 < ask t) (askS : Src UInt8 → Nat) (haskS : ∀ s, 0 < askS s) (P : HdrParser π)
    (s : σ) (src : Src UInt8) (h : A.rest s = src.data) :
    (bamReadHeaderA A ask P s).1 = (bamReadHeaderS askS P src).1 ∧
    (∀ x, (bamReadHeaderA A ask P s).1 = .ok x →
      A.rest (bamReadHeaderA A ask P s).2 = (bamReadHeaderS askS P src).2.data) := by
  obtain ⟨a1, a2⟩ := readExactA_eq_sync A hA s src h 4
  unfold bamReadHeaderA bamReadHeaderS
  rcases h1 : readExactA A s 4 with ⟨r1, t1⟩
  rcases h2 : defaultReadExact src 4 with ⟨r2, t2⟩
  rw [h1, h2] at a1 a2
  simp only at a1 a2
  subst a1
  cases r1 with
  | error e => exact ⟨rfl, by intro x hx; cases hx⟩
  | ok magic =>
    simp only
    by_cases hm : magic ≠ BAM_MAGIC
    · rw [if_pos hm, if_pos hm]; exact ⟨rfl, by intro x hx; cases hx⟩
    · rw [if_neg hm, if_neg hm]
      obtain ⟨b1, b2⟩ := readExactA_eq_sync A hA t1 t2 a2 4
      rcases h3 : readExactA A t1 4 with ⟨r3, t3⟩
      rcases h4 : defaultReadExact t2 4 with ⟨r4, t4⟩
      rw [h3, h4] at b1 b2
      simp only at b1 b2
      subst b1
      cases r3 with
      | error e => exact ⟨rfl, by intro x hx; cases hx⟩
      | ok lt =>
        simp only
        obtain ⟨c1, c2, c3⟩ := readSamHeaderA_eq_sync A hA P ⟨[], (leNat lt, t3)⟩
          ⟨[], ⟨t4.data.take (leNat lt), t4.sched⟩, DEFAULT_BUF_SIZE⟩ default_buf_pos
          (by simp [ABuf.stream, BufR.stream, takeRead, b2])
        rcases h5 : readSamHeaderA A P ⟨[], (leNat lt, t3)⟩ with ⟨r5, t5⟩
        rcases h6 : readSamHeaderS P ⟨[], ⟨t4.data.take (leNat lt), t4.sched⟩, DEFAULT_BUF_SIZE⟩ with ⟨r6, t6⟩
        rw [h5, h6] at c1
        rw [h5] at c2 c3
        simp only at c1 c2 c3
        subst c1
        cases r5 with
        | error e => exact ⟨rfl, by intro x hx; cases hx⟩
        | ok p =>
          simp only
          have hst := c2 p rfl
          simp only [ABuf.stream, takeRead, List.append_eq_nil_iff] at hst
          simp only [afterTake] at c3
          have hrest : A.rest t5.inner.2 = t4.data.drop (leNat lt) := by
            rw [← List.take_append_drop t5.inner.1 (A.rest t5.inner.2), hst.2, c3, List.nil_append, b2]
          obtain ⟨d1, d2⟩ := readRefSeqsA_eq_sync A hA ask hask askS haskS t5.inner.2
            ⟨t4.data.drop (leNat lt), t6.src.sched⟩ hrest
          rcases h7 : readRefSeqsA A ask t5.inner.2 with ⟨r7, t7⟩
          rcases h8 : readRefSeqsS askS ⟨t4.data.drop (leNat lt), t6.src.sched⟩ with ⟨r8, t8⟩
          rw [h7, h8] at d1 d2
          simp only at d1 d2
          subst d1
          cases r7 with
          | error e => exact ⟨rfl, by intro x hx; cases hx⟩
          | ok refs => exact ⟨rfl, fun _ _ => d2⟩

/-- header, then records: the whole stream -/
theorem bamFileA_eq_sync {π : Type} (A : ARead σ UInt8) (hA : A.Lawful) (ask : Nat × σ → Nat)
    (hask : ∀ t, 0 < ask t) (askS : Src UInt8 → Nat) (haskS : ∀ s, 0 < askS s) (P : HdrParser π)
    (s : σ) (src : Src UInt8) (h : A.rest s = src.data) :
    (bamFileA A ask P s).1 = (bamFileS askS P src).1 ∧
    (∀ x, (bamFileA A ask P s).1.header = .ok x →
      A.rest (bamFileA A ask P s).2 = (bamFileS askS P src).2.data) := by
  obtain ⟨a1, a2⟩ := bamReadHeaderA_eq_sync A hA ask hask askS haskS P s src h
  unfold bamFileA bamFileS
  rcases h1 : bamReadHeaderA A ask P s with ⟨r1, t1⟩
  rcases h2 : bamReadHeaderS askS P src with ⟨r2, t2⟩
  rw [h1, h2] at a1 a2
  simp only at a1 a2
  subst a1
  cases r1 with
  | error e => exact ⟨rfl, by intro x hx; cases hx⟩
  | ok hd =>
    simp only
    have hr := a2 hd rfl
    obtain ⟨b1, b2⟩ := bamRecordsA_eq_sync A hA ask hask askS haskS ((A.rest t1).length + 1) t1 t2 [] hr
    unfold bamRecordsAllA bamRecordsAllS
    rw [← hr]
    rw [b1]
    exact ⟨rfl, fun _ _ => b2⟩

end Noodles.IO.Async
