import Noodles.Bgzf.SinkModel
/-!
# Writer programs over scripted destinations (model)

Every noodles format writer emits through `std::io::Write::write_all` on its inner writer and
propagates with `?`. This file gives that shape a syntax — `WProg`: `emit bytes` (= one `write_all`),
`flush`, `finish`, an error of the writer's own logic (`fail`), sequencing with early return — and
an executable semantics `exec` over an *implementation of `Write`* (`Impl σ`): the layer that sits
between the format writer and the destination. Three layers are transcribed:

* `direct`   — the format writer holds the destination itself (`sam::io::Writer::new(sink)`, FASTA,
               FASTQ, GFF, GTF, BED, VCF, fai, gzi, BAI, CRAM);
* `buffered` — `std::io::BufWriter` (what `bed::io::writer::Builder::build_from_writer`,
               `sam::io::writer::Builder::build_from_writer`, the `*::fs::write` helpers and
               noodles-util put in between), transcribed from std `io/buffered/bufwriter.rs`
               (`write_all`, `write_all_cold`, `flush_buf` with its `BufGuard`, `flush`, `Drop`);
* `bgzf`     — `bgzf::io::Writer` (BAM, BCF, CSI, tabix, SAM/VCF `.gz`): the model of
               `Noodles/Bgzf/SinkModel.lean`, reused unchanged.

The destination is `adversary::ScriptSink` of the harness, this time complete: `write` *and*
`flush` are calls that count and can fail, and the scripted failure is either permanent or happens
once (`fail_once`), after which the destination recovers.
-/
namespace Noodles.WP
open Noodles.Codec (Bytes le)
open Noodles.Bgzf
open Noodles.Bgzf.SM (Step WRes WErr)

/-! ## the destination -/

/-- `adversary::ScriptSink`. `failAt = some k`: call `k` (0-based, `write` and `flush` both count)
fails with the error kind `kind` (never `Interrupted`); later calls fail too unless `failOnce`. -/
structure Dest where
  accepted : Bytes
  script : List Step
  /-- bytes accepted per call once the script is exhausted -/
  fallback : Nat
  calls : Nat
  failAt : Option Nat
  failOnce : Bool
  kind : Nat
  failed : Bool
  deriving Repr

def Dest.fresh (script : List Step) (fallback : Nat) (failAt : Option Nat) (failOnce : Bool)
    (kind : Nat) : Dest :=
  ⟨[], script, fallback, 0, failAt, failOnce, kind, false⟩

/-- `ScriptSink::check_fail`: `i == k || (i > k && !fail_once)` -/
def Dest.failsNow (s : Dest) : Bool :=
  match s.failAt with
  | some k => s.calls == k || (decide (k < s.calls) && !s.failOnce)
  | none => false

/-- `<ScriptSink as Write>::write` -/
def Dest.write (s : Dest) (buf : Bytes) : WRes × Dest :=
  if s.failsNow then (.fail, { s with calls := s.calls + 1, failed := true })
  else if buf.isEmpty then (.ok 0, { s with calls := s.calls + 1 })
  else match s.script with
    | .interrupted :: sc => (.interrupted, { s with calls := s.calls + 1, script := sc })
    | .accept n :: sc =>
      (.ok (min (max n 1) buf.length),
        { s with calls := s.calls + 1, script := sc,
                 accepted := s.accepted ++ buf.take (min (max n 1) buf.length) })
    | [] =>
      (.ok (min (max s.fallback 1) buf.length),
        { s with calls := s.calls + 1,
                 accepted := s.accepted ++ buf.take (min (max s.fallback 1) buf.length) })

/-- `<ScriptSink as Write>::flush`: only `check_fail` -/
def Dest.flush (s : Dest) : Option WErr × Dest :=
  if s.failsNow then (some (.sink s.kind), { s with calls := s.calls + 1, failed := true })
  else (none, { s with calls := s.calls + 1 })

/-- the loop shared by `Write::write_all` (std default) and `BufWriter::flush_buf`: call `write` on
what is left; `Ok(0)` is `WriteZero`; `Interrupted` is retried; any other error is returned. The
third component is what was NOT written (`BufWriter` keeps it buffered). `fuel` bounds the loop:
every iteration consumes a byte of `buf` or an `interrupted` entry of the script. -/
def Dest.writeAllR : Nat → Dest → Bytes → Option WErr × Dest × Bytes
  | 0, s, buf => if buf.isEmpty then (none, s, []) else (some .sinkZero, s, buf)
  | fuel+1, s, buf =>
    if buf.isEmpty then (none, s, []) else
    match s.write buf with
    | (.ok n, s') => if n = 0 then (some .sinkZero, s', buf) else Dest.writeAllR fuel s' (buf.drop n)
    | (.interrupted, s') => Dest.writeAllR fuel s' buf
    | (.fail, s') => (some (.sink s.kind), s', buf)

def Dest.writeAllRF (s : Dest) (buf : Bytes) : Option WErr × Dest × Bytes :=
  Dest.writeAllR (buf.length + s.script.length + 1) s buf

/-- `std::io::Write::write_all` on the destination -/
def Dest.writeAll (s : Dest) (buf : Bytes) : Option WErr × Dest :=
  ((s.writeAllRF buf).1, (s.writeAllRF buf).2.1)

/-! ## writer programs -/

/-- The code of a writer call, as far as the inner writer can see it. -/
inductive WProg
  /-- nothing (a loop over zero records, an `if` not taken) -/
  | skip
  /-- `inner.write_all(b)?` (also each piece of a `write!`/`writeln!`, which std turns into
  `write_all` calls through `write_fmt`'s adapter) -/
  | emit (b : Bytes)
  /-- `inner.flush()?` -/
  | flush
  /-- the layer's finishing call: `bgzf::io::Writer::try_finish`; for the other layers `flush` -/
  | finish
  /-- `return Err(e)` of the writer's own logic (invalid record, length does not fit the field) -/
  | fail (e : Err)
  /-- `p?; q` -/
  | seq (p q : WProg)
  deriving Repr

/-- `for x in xs { p x? }` -/
def seqAll : List WProg → WProg
  | [] => .skip
  | p :: ps => .seq p (seqAll ps)

/-- consecutive `write_all`s -/
def emits (l : List Bytes) : WProg := seqAll (l.map .emit)

/-- what the program does when nothing at the destination fails: everything it hands to
`write_all` up to its first own error, and that error -/
def WProg.outcome : WProg → Bytes × Option Err
  | .skip => ([], none)
  | .emit b => (b, none)
  | .flush => ([], none)
  | .finish => ([], none)
  | .fail e => ([], some e)
  | .seq p q =>
    match p.outcome.2 with
    | some e => (p.outcome.1, some e)
    | none => (p.outcome.1 ++ q.outcome.1, q.outcome.2)

def WProg.bytes (p : WProg) : Bytes := p.outcome.1

/-- the first error of the writer's own logic, if any -/
def WProg.ownErr (p : WProg) : Option Err := p.outcome.2

/-- the program contains no finishing call -/
def WProg.noFinish : WProg → Bool
  | .finish => false
  | .seq p q => p.noFinish && q.noFinish
  | _ => true

/-- An implementation of `std::io::Write` (plus the finishing call and `Drop`) with state `σ`. -/
structure Impl (σ : Type) where
  writeAll : σ → Bytes → Option WErr × σ
  flush : σ → Option WErr × σ
  finish : σ → Option WErr × σ
  /-- what `Drop` does when the layer goes out of scope still holding its destination -/
  drop : σ → σ

/-- `?`: the first error ends the computation -/
def andThen {σ : Type} (o : Option WErr × σ) (g : σ → Option WErr × σ) : Option WErr × σ :=
  match o with
  | (some e, s') => (some e, s')
  | (none, s') => g s'

/-- run a program: the first error ends it (`?`) -/
def exec {σ : Type} (I : Impl σ) : WProg → σ → Option WErr × σ
  | .skip, s => (none, s)
  | .emit b, s => I.writeAll s b
  | .flush, s => I.flush s
  | .finish, s => I.finish s
  | .fail e, s => (some (.enc e), s)
  | .seq p q, s => andThen (exec I p s) (exec I q)

/-- the caller: one writer call after the other, stopping at the first `Err`; returns the index of
the failing call with its error -/
def runCalls {σ : Type} (I : Impl σ) : List WProg → Nat → σ → Option (Nat × WErr) × σ
  | [], _, s => (none, s)
  | c :: cs, i, s =>
    match exec I c s with
    | (some e, s') => (some (i, e), s')
    | (none, s') => runCalls I cs (i + 1) s'

/-- a whole session as the harness drives it: the calls; after an `Err`, or when the caller lets
the writer go out of scope (`dropAfterOk`), the layer is dropped. Returns the failing call, the
state when the last explicit call returned, and the state after `Drop`. -/
def session {σ : Type} (I : Impl σ) (calls : List WProg) (dropAfterOk : Bool) (s : σ) :
    Option (Nat × WErr) × σ × σ :=
  match runCalls I calls 0 s with
  | (some e, s') => (some e, s', I.drop s')
  | (none, s') => (none, s', if dropAfterOk then I.drop s' else s')

/-! ## layer 1: the destination itself -/

def direct : Impl Dest where
  writeAll := Dest.writeAll
  flush := Dest.flush
  finish := Dest.flush
  drop := id

/-! ## layer 2: `std::io::BufWriter` -/

/-- `BufWriter<ScriptSink>`. `panicked` is only ever true while the destination is being called
(it guards against a double write when the destination panics; `ScriptSink` does not), so it is
not part of the state. -/
structure BufW where
  cap : Nat
  buf : Bytes
  dest : Dest
  deriving Repr

def BufW.init (cap : Nat) (d : Dest) : BufW := ⟨cap, [], d⟩

/-- `flush_buf`: the `write` loop over the buffered bytes; `BufGuard::drop` removes what was
written, also on the error path -/
def BufW.flushBuf (w : BufW) : Option WErr × BufW :=
  ((w.dest.writeAllRF w.buf).1, { w with dest := (w.dest.writeAllRF w.buf).2.1, buf := (w.dest.writeAllRF w.buf).2.2 })

/-- the second half of `write_all_cold`: a chunk that would not fit an empty buffer goes straight
to the destination (`self.get_mut().write_all(buf)`), anything else is buffered -/
def BufW.stage2 (b : Bytes) (w1 : BufW) : Option WErr × BufW :=
  if b.length ≥ w1.cap then ((w1.dest.writeAll b).1, { w1 with dest := (w1.dest.writeAll b).2 })
  else (none, { w1 with buf := w1.buf ++ b })

/-- `write_all` / `write_all_cold`: `if buf.len() < spare_capacity { buffer } else { if buf.len() >
spare_capacity { flush_buf()? }; … }` -/
def BufW.writeAll (w : BufW) (b : Bytes) : Option WErr × BufW :=
  if b.length < w.cap - w.buf.length then (none, { w with buf := w.buf ++ b })
  else if b.length > w.cap - w.buf.length then andThen w.flushBuf (BufW.stage2 b)
  else w.stage2 b

/-- the destination's own `flush`, through the layer -/
def BufW.flushDest (w1 : BufW) : Option WErr × BufW :=
  ((w1.dest.flush).1, { w1 with dest := (w1.dest.flush).2 })

/-- `flush`: `self.flush_buf().and_then(|()| self.get_mut().flush())` -/
def BufW.flush (w : BufW) : Option WErr × BufW := andThen w.flushBuf BufW.flushDest

/-- `Drop`: `if !self.panicked { let _r = self.flush_buf(); }` — the destination is not flushed -/
def BufW.drop (w : BufW) : BufW := w.flushBuf.2

def buffered : Impl BufW where
  writeAll := BufW.writeAll
  flush := BufW.flush
  finish := BufW.flush
  drop := BufW.drop

/-! ## layer 3: `bgzf::io::Writer` (`Noodles/Bgzf/SinkModel.lean`) -/

def bgzf (D : Deflater) (lvl : Nat) : Impl SM.FW where
  writeAll := fun w b => SM.writeAll D lvl (b.length + 1) w b
  flush := SM.flush D lvl
  finish := SM.tryFinish D lvl
  drop := SM.drop D lvl

/-! ## the same layers over a destination that cannot fail (what the theorems compare with) -/

structure Pure (α : Type) where
  writeAll : α → Bytes → Except Err α
  flush : α → Except Err α
  finish : α → Except Err α

def pexec {α : Type} (M : Pure α) : WProg → α → Except Err α
  | .skip, a => .ok a
  | .emit b, a => M.writeAll a b
  | .flush, a => M.flush a
  | .finish, a => M.finish a
  | .fail e, _ => .error e
  | .seq p q, a =>
    match pexec M p a with
    | .error e => .error e
    | .ok a' => pexec M q a'

/-- a perfect destination: the bytes it holds -/
def pdirect : Pure Bytes where
  writeAll := fun a b => .ok (a ++ b)
  flush := fun a => .ok a
  finish := fun a => .ok a

/-- `BufWriter` over a perfect destination -/
structure PBuf where
  cap : Nat
  buf : Bytes
  sink : Bytes
  deriving Repr

def PBuf.flush (w : PBuf) : PBuf := { w with sink := w.sink ++ w.buf, buf := [] }

def PBuf.stage2 (b : Bytes) (a : PBuf) : PBuf :=
  if b.length ≥ a.cap then { a with sink := a.sink ++ b } else { a with buf := a.buf ++ b }

def PBuf.writeAll (w : PBuf) (b : Bytes) : PBuf :=
  if b.length < w.cap - w.buf.length then { w with buf := w.buf ++ b }
  else if b.length > w.cap - w.buf.length then w.flush.stage2 b
  else w.stage2 b

def pbuffered : Pure PBuf where
  writeAll := fun a b => .ok (a.writeAll b)
  flush := fun a => .ok a.flush
  finish := fun a => .ok a.flush

/-- `bgzf::io::Writer` over a perfect destination: `Noodles/Bgzf/Frame.lean` -/
def pbgzf (D : Deflater) (lvl : Nat) : Pure Writer where
  writeAll := fun w b => Bgzf.step D lvl w (.write b)
  flush := Bgzf.flush D lvl
  finish := Bgzf.finish D lvl

def BufW.pure (w : BufW) : PBuf := ⟨w.cap, w.buf, w.dest.accepted⟩

end Noodles.WP
