import Noodles.Io.Loops
import Noodles.Index.Text
/-!
# The text record readers of noodles over a `BufReader` (model for C12, part 2)

On top of `Noodles.Io.Loops` (`BufReader` of any capacity over a scheduled source, `read_until`,
`read_line`, the `fill_buf` scanner loop and `read_field`) this file transcribes

* the lazy SAM record reader — noodles-sam `io/reader/record.rs` (`read_record`: ten
  `read_required_field`, `read_last_required_field`, `read_line` for the data fields; all into ONE
  buffer with the field ends recorded) and the record loop;
* the lazy VCF record reader — noodles-vcf `io/reader/record.rs` (seven required fields, the last
  required field, `read_line`; the buffer is a `String`: it is validated as UTF-8 after every field
  and `BufRead::read_line` validates what it appends);
* the "one line, then parse it" readers — noodles-sam `io/reader/record_buf.rs::read_record_buf`,
  noodles-vcf `io/reader.rs::read_record_buf`, noodles-fasta `fai/io/reader/record.rs`, noodles-cram
  `crai/io/reader/record.rs`, noodles-gtf `io/reader/line.rs`, noodles-fasta
  `io/reader/definition.rs::read_definition` — with the line parser as a parameter, and the GFF3 line
  reader that skips blank lines (noodles-gff `io/reader/line.rs`);
* the FASTA sequence reader — noodles-fasta `io/reader/sequence.rs` (`consume_empty_lines`,
  `Reader::fill_buf`, `Reader::read`, `read_sequence` = std `read_to_end`) and the record iterator
  (`io/reader/records.rs`).

All scanners are the code at the pinned commit (`fill_buf` retried on `Interrupted` where the Rust
code retries it; `consume_empty_lines` and the sequence reader's `fill_buf` use `?` and rely on their
callers — `read_to_end`, `read_sequence_limit` — to retry).
-/
namespace Noodles.IO

/-- a reader over a `BufReader`: result (or `io::Error` class) and the `BufReader` afterwards -/
def RdB (β : Type) : Type := BufR UInt8 → Except Err β × BufR UInt8

namespace RdB
variable {β γ : Type}

def pure (a : β) : RdB β := fun b => (.ok a, b)
def fail (e : Err) : RdB β := fun b => (.error e, b)

/-- `?` -/
def bind (f : RdB β) (g : β → RdB γ) : RdB γ := fun b =>
  match f b with
  | (.error e, b') => (.error e, b')
  | (.ok a, b') => g a b'

instance : Monad RdB where
  pure := pure
  bind := bind

/-- look at the error instead of returning it -/
def attempt (f : RdB β) : RdB (Except Err β) := fun b =>
  match f b with
  | (.error e, b') => (.ok (.error e), b')
  | (.ok a, b') => (.ok (.ok a), b')

end RdB

/-! ## fields and lines appended to one buffer -/

/-- `read_field(reader, dst)` of noodles-sam / noodles-vcf `io/reader/record.rs`: the field is
appended to `dst` — the record's single buffer — and the CR check looks at the bytes of the field
itself (`dst[start..]`, fix df17d10; before it the end of the whole buffer was looked at and a CR
of the previous field was popped when the last field was empty). Returns (the buffer, `len`,
`is_eol`). -/
def readFieldInto (dst : Bytes) : RdB (Bytes × Nat × Bool) := fun b =>
  match scanLoop true fieldStep b.fuel (dst, 0, none) b with
  | (.error e, b') => (.error e, b')
  | (.ok (d, len, m), b') =>
    let isEol := m == some LF
    (.ok (if isEol && (d.drop dst.length).getLast? == some CR then d.dropLast else d, len, isEol), b')

/-- noodles `read_line(reader, buf)` with a buffer that already has content: `read_until(b'\n')`
appends; `Ok(0)` leaves the buffer alone; otherwise LF and then CR are popped off the END OF THE
BUFFER. Returns (bytes read, the buffer). -/
def readLineInto (dst : Bytes) : RdB (Nat × Bytes) := fun b =>
  let r := readUntil (· == LF) b.fuel b []
  (.ok (r.1.length, dst ++ stripEol r.1), r.2)

/-- the same through `BufRead::read_line(&mut String)` (noodles-vcf, crai): std validates what
was appended as UTF-8 — after consuming it — and fails with `InvalidData` -/
def readLineUtf8Into (dst : Bytes) : RdB (Nat × Bytes) := fun b =>
  let r := readUntil (· == LF) b.fuel b []
  if Noodles.Index.validUtf8 r.1 then
    (.ok (r.1.length, dst ++ stripEol r.1), r.2)
  else (.error .invalidData, r.2)

/-! ## the lazy SAM record reader -/

/-- `read_required_field`: a field that must not end the line -/
def samRequiredField (dst : Bytes) : RdB (Bytes × Nat) :=
  RdB.bind (readFieldInto dst) fun (d, len, isEol) =>
    if isEol then RdB.fail .invalidData else RdB.pure (d, len)

/-- `k` times `len += read_required_field(reader, buf)?; bounds.…_end = buf.len();`
(`ends` = the recorded field ends, newest first) -/
def samRequiredFields : Nat → Bytes → List Nat → Nat → RdB (Bytes × List Nat × Nat)
  | 0, dst, ends, len => RdB.pure (dst, ends, len)
  | k+1, dst, ends, len =>
    RdB.bind (samRequiredField dst) fun (d, n) => samRequiredFields k d (d.length :: ends) (len + n)

structure LazyRec where
  /-- bytes read -/
  len : Nat
  /-- the record's buffer: the fields without their delimiters, then the rest of the line -/
  buf : Bytes
  /-- the ends of the standard fields in `buf` -/
  ends : List Nat
  deriving Repr, DecidableEq

/-- noodles-sam `read_record`: ten required fields, the last required field (may end the line), and
— unless it did — `read_line` for the data fields. At a clean end of stream every field is empty
and the result is `Ok(0)`. -/
def samReadRecord : RdB LazyRec :=
  RdB.bind (samRequiredFields 10 [] [] 0) fun (d, ends, len) =>
  RdB.bind (readFieldInto d) fun (d', n, isEol) =>
    if isEol then RdB.pure ⟨len + n, d', (d'.length :: ends).reverse⟩
    else RdB.bind (readLineInto d') fun (m, d'') => RdB.pure ⟨len + n + m, d'', (d'.length :: ends).reverse⟩

/-- `while reader.read_record(&mut record)? != 0` over a record reader `rd` (`len = 0` ends it) -/
def lazyRecords (rd : RdB LazyRec) : Nat → List LazyRec → RdB (List LazyRec × Option Err)
  | 0, acc => RdB.pure (acc.reverse, some .fuel)
  | fuel+1, acc =>
    RdB.bind (RdB.attempt rd) fun
      | .error e => RdB.pure (acc.reverse, some e)
      | .ok r => if r.len = 0 then RdB.pure (acc.reverse, none) else lazyRecords rd fuel (r :: acc)

def samRecordsAll : RdB (List LazyRec × Option Err) := fun b =>
  lazyRecords samReadRecord (b.stream.length + 1) [] b

/-! ## the lazy VCF record reader -/

/-- noodles-vcf `read_field`: as `read_field` of noodles-sam, then `String::from_utf8` of the WHOLE
buffer (`InvalidData`) -/
def vcfReadFieldInto (dst : Bytes) : RdB (Bytes × Nat × Bool) :=
  RdB.bind (readFieldInto dst) fun (d, len, isEol) =>
    if Noodles.Index.validUtf8 d then RdB.pure (d, len, isEol) else RdB.fail .invalidData

def vcfRequiredField (dst : Bytes) : RdB (Bytes × Nat) :=
  RdB.bind (vcfReadFieldInto dst) fun (d, len, isEol) =>
    if isEol then RdB.fail .invalidData else RdB.pure (d, len)

def vcfRequiredFields : Nat → Bytes → List Nat → Nat → RdB (Bytes × List Nat × Nat)
  | 0, dst, ends, len => RdB.pure (dst, ends, len)
  | k+1, dst, ends, len =>
    RdB.bind (vcfRequiredField dst) fun (d, n) => vcfRequiredFields k d (d.length :: ends) (len + n)

/-- noodles-vcf `read_record`: seven required fields, the last required field (INFO), `read_line`
for the rest (FORMAT and samples) -/
def vcfReadRecord : RdB LazyRec :=
  RdB.bind (vcfRequiredFields 7 [] [] 0) fun (d, ends, len) =>
  RdB.bind (vcfReadFieldInto d) fun (d', n, isEol) =>
    if isEol then RdB.pure ⟨len + n, d', (d'.length :: ends).reverse⟩
    else RdB.bind (readLineUtf8Into d') fun (m, d'') => RdB.pure ⟨len + n + m, d'', (d'.length :: ends).reverse⟩

def vcfRecordsAll : RdB (List LazyRec × Option Err) := fun b =>
  lazyRecords vcfReadRecord (b.stream.length + 1) [] b

/-! ## one line, then parse it -/

/-- `buf.clear(); match read_line(reader, buf)? { 0 => Ok(0), n => { parse(buf)?; Ok(n) } }`
(`utf8`: the line goes through `BufRead::read_line(&mut String)` — VCF, crai; SAM, fai, GTF and FASTA
definitions read bytes). `none` = `Ok(0)`. -/
def readParsedLine {ρ : Type} (utf8 : Bool) (parse : Bytes → Except Err ρ) : RdB (Option (Nat × ρ)) :=
  RdB.bind (if utf8 then readLineUtf8Into [] else readLineInto []) fun (n, l) =>
    if n = 0 then RdB.pure none
    else match parse l with
      | .error e => RdB.fail e
      | .ok r => RdB.pure (some (n, r))

/-- the caller's loop: items until `Ok(0)` or the first error -/
def parsedLines {ρ : Type} (rd : RdB (Option (Nat × ρ))) :
    Nat → List (Nat × ρ) → RdB (List (Nat × ρ) × Option Err)
  | 0, acc => RdB.pure (acc.reverse, some .fuel)
  | fuel+1, acc =>
    RdB.bind (RdB.attempt rd) fun
      | .error e => RdB.pure (acc.reverse, some e)
      | .ok none => RdB.pure (acc.reverse, none)
      | .ok (some r) => parsedLines rd fuel (r :: acc)

def parsedLinesAll {ρ : Type} (utf8 : Bool) (parse : Bytes → Except Err ρ) :
    RdB (List (Nat × ρ) × Option Err) := fun b =>
  parsedLines (readParsedLine utf8 parse) (b.stream.length + 1) [] b

/-- `u8::is_ascii_whitespace`: space, TAB, LF, FF, CR -/
def isAsciiWhitespace (c : UInt8) : Bool := c == 32 || c == 9 || c == 10 || c == 12 || c == 13

/-- noodles-gff `io/reader/line.rs::read_line`: lines that are blank (only ASCII whitespace) are
skipped; `Ok(0)` only at the end of the stream -/
def gffReadLine : Nat → RdB (Nat × Bytes)
  | 0 => RdB.fail .fuel
  | fuel+1 =>
    RdB.bind (readLineInto []) fun (n, l) =>
      if n = 0 || !(l.all isAsciiWhitespace) then RdB.pure (n, l) else gffReadLine fuel

/-- the GFF3 line reader as a `parsedLines` item reader -/
def gffLine : RdB (Option (Nat × Bytes)) := fun b =>
  match gffReadLine (b.stream.length + 1) b with
  | (.error e, b') => (.error e, b')
  | (.ok (n, l), b') => (.ok (if n = 0 then none else some (n, l)), b')

def gffLinesAll : RdB (List (Nat × Bytes) × Option Err) := fun b =>
  parsedLines gffLine (b.stream.length + 1) [] b

/-! ## FASTA -/

def GT : UInt8 := 62

/-- noodles-fasta `parse_definition`: `>`, the name up to the first ASCII whitespace (not empty), the
rest trimmed of ASCII whitespace is the description -/
def parseDefinition (l : Bytes) : Except Err (Bytes × Bytes) :=
  match l with
  | [] => .error .invalidData
  | c :: r =>
    if c ≠ GT then .error .invalidData
    else
      let name := r.takeWhile (fun x => !isAsciiWhitespace x)
      let rest := r.dropWhile (fun x => !isAsciiWhitespace x)
      if name.isEmpty then .error .invalidData
      else .ok (name, ((rest.dropWhile isAsciiWhitespace).reverse.dropWhile isAsciiWhitespace).reverse)

/-- `consume_empty_lines`: per round, a CR at the start of the window is consumed, then an LF at the
start of the (next) window; the loop ends with a round that consumed neither. Both `fill_buf()?`
return an `Interrupted` to the caller. -/
def consumeEmptyLines : Nat → RdB Unit
  | 0 => RdB.fail .fuel
  | fuel+1 => fun b =>
    match fillBuf b with
    | (.interrupted, b1) => (.error .interrupted, b1)
    | (.ok w1, b1) =>
      let cr := w1.head? == some CR
      let b2 := if cr then consume 1 b1 else b1
      match fillBuf b2 with
      | (.interrupted, b3) => (.error .interrupted, b3)
      | (.ok w2, b3) =>
        let lf := w2.head? == some LF
        let b4 := if lf then consume 1 b3 else b3
        if cr || lf then consumeEmptyLines fuel b4 else (.ok (), b4)

/-- the part of a window before its first LF (all of it if there is none) -/
def lineOf : Bytes → Bytes
  | [] => []
  | c :: r => if c == LF then [] else c :: lineOf r

/-- `line.ends_with(&[CARRIAGE_RETURN])` ⇒ drop it -/
def stripCr (l : Bytes) : Bytes := if l.getLast? == some CR then l.dropLast else l

/-- `sequence::Reader::fill_buf`: `consume_empty_lines`, then one window of the inner reader: nothing
if it is empty or starts with `>`; otherwise the window up to its first LF, without a trailing CR.
Nothing is consumed here. -/
def seqFillBuf : RdB Bytes := fun b =>
  match consumeEmptyLines b.fuel b with
  | (.error e, b1) => (.error e, b1)
  | (.ok _, b1) =>
    match fillBuf b1 with
    | (.interrupted, b2) => (.error .interrupted, b2)
    | (.ok w, b2) =>
      if w.length = 0 || w.head? == some GT then (.ok [], b2)
      else (.ok (stripCr (lineOf w)), b2)

/-- `<&[u8] as Read>::read(buf)`: how much of a window of `len` bytes goes into a buffer of `want`
bytes (`none`: a buffer at least as long as the window; a buffer is never empty) -/
def seqAmt (want : Option Nat) (len : Nat) : Nat :=
  match want with
  | none => len
  | some n => min (max n 1) len

/-- `sequence::Reader::read(buf)` with `buf.len() = want`: `fill_buf()?`, copy, `consume(amt)` -/
def seqRead (want : Option Nat) : RdB Bytes := fun b =>
  match seqFillBuf b with
  | (.error e, b1) => (.error e, b1)
  | (.ok w, b1) => (.ok (w.take (seqAmt want w.length)), consume (seqAmt want w.length) b1)

/-- `read_sequence` = std `Read::read_to_end` on the sequence reader: `read` into whatever spare
capacity the vector has — the sizes are std's business (a fresh `Vec` is first probed with a 32-byte
buffer), here an arbitrary list `sizes` of buffer lengths ≥ 1, afterwards always enough for the whole
window — until `Ok(0)`; `Interrupted` is retried with the same buffer. -/
def seqReadToEnd : Nat → List Nat → Bytes → RdB Bytes
  | 0, _, _ => RdB.fail .fuel
  | fuel+1, sizes, acc => fun b =>
    match seqRead sizes.head? b with
    | (.error .interrupted, b') => seqReadToEnd fuel sizes acc b'
    | (.error e, b') => (.error e, b')
    | (.ok bs, b') =>
      if bs.length = 0 then (.ok acc, b') else seqReadToEnd fuel sizes.tail (acc ++ bs) b'

def readSequence (sizes : List Nat) : RdB Bytes := fun b => seqReadToEnd b.fuel sizes [] b

structure FastaRec where
  name : Bytes
  description : Bytes
  sequence : Bytes
  deriving Repr, DecidableEq

/-- `Records::next`: `read_definition` (`Ok(0)` ends the iteration), then `read_sequence` into a
fresh `Vec`. `sizes k` are the buffer lengths std uses for the `k`-th sequence. -/
def fastaRecords (sizes : Nat → List Nat) : Nat → Nat → List FastaRec → RdB (List FastaRec × Option Err)
  | 0, _, acc => RdB.pure (acc.reverse, some .fuel)
  | fuel+1, k, acc =>
    RdB.bind (RdB.attempt (readParsedLine false parseDefinition)) fun
      | .error e => RdB.pure (acc.reverse, some e)
      | .ok none => RdB.pure (acc.reverse, none)
      | .ok (some (_, (name, desc))) =>
        RdB.bind (RdB.attempt (readSequence (sizes k))) fun
          | .error e => RdB.pure (acc.reverse, some e)
          | .ok sq => fastaRecords sizes fuel (k + 1) (⟨name, desc, sq⟩ :: acc)

def fastaRecordsAll (sizes : Nat → List Nat) : RdB (List FastaRec × Option Err) := fun b =>
  fastaRecords sizes (b.stream.length + 1) 0 [] b

end Noodles.IO
