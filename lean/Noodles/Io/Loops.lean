import Noodles.Basic.IO
/-!
# The noodles read loops that carry state across refills (model for C12)

Layer IO (`Noodles.Basic.IO`) gives the byte source: the data still to be delivered plus a FINITE
adversarial delivery schedule (`chunk n` = hand over at most `n ≥ 1` bytes, `interrupted` = fail once
with `ErrorKind::Interrupted`); after the schedule the source delivers whatever is asked for.

This file transcribes, on top of it,

* `gather` — the common loop of noodles-bgzf `io/reader.rs::default_read_exact` and noodles-bam
  `io/reader/record.rs::read_exact_or_eof` (loop on `read`, retry on `Interrupted`, stop at `Ok(0)`),
  and the two functions themselves (`defaultReadExact`, `readExactOrEof`);
* BAM record framing: `read_block_size`, `read_record`, `validate`
  (noodles-bam `io/reader/record.rs`) and the record stream;
* BGZF framing: `read_frame_into`, `parse_frame` header/trailer checks
  (noodles-bgzf `io/reader/frame.rs`) and `read_nonempty_block_with` (`io/reader.rs`);
* `std::io::BufReader` (`fill_buf` / `consume`, any capacity ≥ 1) over such a source, `BufRead::read_until`
  and the noodles `read_line` (LF / CRLF strip; noodles-sam `io/reader.rs`, noodles-fasta
  `io/reader.rs`, noodles-fastq `io/reader/record.rs`, BAM/BCF/CRAM header readers);
* the `fill_buf` / `consume` scanners: one generic loop `scanLoop` and its instances
  `read_field` (noodles-sam / noodles-vcf `io/reader/record.rs`, noodles-bed `io/reader/record.rs`),
  `consume_line` / `discard_line` (noodles-fastq, noodles-bed), `discard_to_end` (BAM/BCF/CRAM header
  sub-readers), the SAM / VCF header sub-reader (`header::Reader::fill_buf`, the `is_eol` flag) under
  `read_header`'s `read_line` loop, the FASTQ name scanner (`read_definition`) and the whole FASTQ and
  BED record readers.

**Fixed behaviour.** At the pinned commit the scanners call `reader.fill_buf()?` and therefore hand
`ErrorKind::Interrupted` to their caller (finding F22), and the FASTQ name scanner strips the CR of a
CRLF line ending only if it sits in the same `fill_buf` window as the LF. The model has a flag
`fixed`: `fixed = true` is the behaviour after the `fix:` diffs (retry on `Interrupted`, CR stripped
after the name is assembled) — this is what the property theorems are about and what the driver runs;
`fixed = false` is today's code, kept so that the counterexamples can be stated and checked.
-/
namespace Noodles.IO
variable {α : Type}

inductive Err | eof | invalidData | interrupted | fuel
  deriving Repr, DecidableEq

/-! ## unbuffered loops over a `Src` -/

/-- The loop shared by `default_read_exact` and `read_exact_or_eof`:
```
while !buf.is_empty() { match reader.read(buf) { Ok(0) => break, Ok(n) => buf = &mut buf[n..],
                                                 Err(Interrupted) => {}, Err(e) => return Err(e) } }
```
Returns the bytes gathered (`acc`); `want` = bytes still missing. -/
def gather : Nat → Src α → Nat → List α → List α × Src α
  | 0, s, _, acc => (acc, s)
  | fuel+1, s, want, acc =>
    if want = 0 then (acc, s)
    else match read s want with
      | (.interrupted, s') => gather fuel s' want acc
      | (.ok bs, s') =>
        if bs.length = 0 then (acc, s') else gather fuel s' (want - bs.length) (acc ++ bs)

/-- enough fuel for `gather`: every iteration delivers a byte, uses up a schedule entry, or stops -/
def gatherFuel (s : Src α) (want : Nat) : Nat := want + s.sched.length + 1

/-- noodles-bgzf `default_read_exact` (= the contract of `std::io::Read::read_exact`):
all `want` bytes, else `UnexpectedEof` -/
def defaultReadExact (s : Src α) (want : Nat) : Except Err (List α) × Src α :=
  let r := gather (gatherFuel s want) s want []
  if r.1.length = want then (.ok r.1, r.2) else (.error .eof, r.2)

/-- noodles-bam `read_exact_or_eof`: `Ok` when the buffer was filled OR nothing at all was read
(the caller's buffer then stays zeroed); `UnexpectedEof` when it was filled only partly.
Returns the bytes actually read. -/
def readExactOrEof (s : Src α) (want : Nat) : Except Err (List α) × Src α :=
  let r := gather (gatherFuel s want) s want []
  if 0 < r.1.length ∧ r.1.length ≠ want then (.error .eof, r.2) else (.ok r.1, r.2)

abbrev Bytes := List UInt8

/-- little-endian value of a byte string -/
def leNat : Bytes → Nat
  | [] => 0
  | b :: r => b.toNat + 256 * leNat r

/-- `bs` zero-extended / truncated to `n` bytes (a `[0; n]` buffer partly overwritten) -/
def zeroPad (n : Nat) (bs : Bytes) : Bytes := (bs ++ List.replicate n 0).take n

/-- noodles-bam `validate`: at least 32 bytes and long enough for name, CIGAR, bases, qualities -/
def bamValidate (src : Bytes) : Bool :=
  if src.length < 32 then false
  else
    let nameLen := src[8]!.toNat
    let cigarOps := leNat ((src.drop 12).take 2)
    let baseCount := leNat ((src.drop 16).take 4)
    let qualityScoresEnd := 32 + nameLen + cigarOps * 4 + (baseCount + 1) / 2 + baseCount
    !(src.length < qualityScoresEnd : Bool)

inductive RecRes | eof | record (bs : Bytes) | err (e : Err)
  deriving Repr, DecidableEq

/-- noodles-bam `read_record`: `read_block_size` (`read_exact_or_eof` of 4 bytes; a block size of 0 —
also what a clean end of stream leaves in the zeroed buffer — is end of stream), then
`reader.read_exact(block_size)`, then `validate`. -/
def bamReadRecord (s : Src UInt8) : RecRes × Src UInt8 :=
  match readExactOrEof s 4 with
  | (.error e, s1) => (.err e, s1)
  | (.ok hdr, s1) =>
    let n := leNat (zeroPad 4 hdr)
    if n = 0 then (.eof, s1)
    else match defaultReadExact s1 n with
      | (.error e, s2) => (.err e, s2)
      | (.ok body, s2) => if bamValidate body then (.record body, s2) else (.err .eof, s2)

/-- the record stream: `read_record` until end of stream or the first error -/
def bamRecords : Nat → Src UInt8 → List Bytes → (List Bytes × Option Err) × Src UInt8
  | 0, s, acc => ((acc.reverse, some .fuel), s)
  | fuel+1, s, acc =>
    match bamReadRecord s with
    | (.eof, s') => ((acc.reverse, none), s')
    | (.err e, s') => ((acc.reverse, some e), s')
    | (.record r, s') => bamRecords fuel s' (r :: acc)

def bamRecordsAll (s : Src UInt8) : (List Bytes × Option Err) × Src UInt8 :=
  bamRecords (s.data.length + 1) s []

/-! ### BGZF framing -/

def BGZF_HEADER_SIZE : Nat := 18
def GZ_TRAILER_SIZE : Nat := 8
def MIN_FRAME_SIZE : Nat := BGZF_HEADER_SIZE + GZ_TRAILER_SIZE
def BGZF_MAX_ISIZE : Nat := 65536

inductive FrameRes | none | frame (bs : Bytes) | err (e : Err)
  deriving Repr, DecidableEq

/-- noodles-bgzf `read_frame_into`: `read_exact` of the 18-byte header — ANY `UnexpectedEof` there
(clean end or a partial header) is `Ok(None)`; BSIZE + 1 < 26 is `InvalidData`; then `read_exact` of
the rest of the frame. -/
def readFrameInto (s : Src UInt8) : FrameRes × Src UInt8 :=
  match defaultReadExact s BGZF_HEADER_SIZE with
  | (.error _, s1) => (.none, s1)
  | (.ok hdr, s1) =>
    let blockSize := leNat (hdr.drop 16) + 1
    if blockSize < MIN_FRAME_SIZE then (.err .invalidData, s1)
    else match defaultReadExact s1 (blockSize - BGZF_HEADER_SIZE) with
      | (.error e, s2) => (.err e, s2)
      | (.ok rest, s2) => (.frame (hdr ++ rest), s2)

/-- `is_valid_header`: gzip magic, CM = 8, FLG = 4, XLEN = 6, SI = "BC", SLEN = 2 -/
def isValidHeader (src : Bytes) : Bool :=
  src.take 4 == [0x1f, 0x8b, 0x08, 0x04] && (src.drop 10).take 6 == [0x06, 0x00, 0x42, 0x43, 0x02, 0x00]

/-- `parse_frame` as far as it does not need DEFLATE: header check, ISIZE ≤ 64 KiB.
Returns ISIZE (= the length of the block's data when the payload inflates and its CRC matches). -/
def parseFrame (src : Bytes) : Except Err Nat :=
  if !isValidHeader src then .error .invalidData
  else
    let isize := leNat (src.drop (src.length - 4))
    if isize ≤ BGZF_MAX_ISIZE then .ok isize else .error .invalidData

/-- what one `fill_buf` on an exhausted block does (`read_nonempty_block_with`): frames are read until
one has data; result = (inner-stream bytes consumed by the frames read, length of the block's data);
data length 0 = end of stream. -/
def readNonemptyBlock : Nat → Src UInt8 → Nat → Except Err (Nat × Nat) × Src UInt8
  | 0, s, _ => (.error .fuel, s)
  | fuel+1, s, adv =>
    match readFrameInto s with
    | (.none, s') => (.ok (adv, 0), s')
    | (.err e, s') => (.error e, s')
    | (.frame f, s') =>
      match parseFrame f with
      | .error e => (.error e, s')
      | .ok isize => if isize > 0 then (.ok (adv + f.length, isize), s') else readNonemptyBlock fuel s' (adv + f.length)

/-- every frame of the stream, in order, until end of stream or the first framing error -/
def bgzfFrames : Nat → Src UInt8 → List Bytes → (List Bytes × Option Err) × Src UInt8
  | 0, s, acc => ((acc.reverse, some .fuel), s)
  | fuel+1, s, acc =>
    match readFrameInto s with
    | (.none, s') => ((acc.reverse, none), s')
    | (.err e, s') => ((acc.reverse, some e), s')
    | (.frame f, s') => bgzfFrames fuel s' (f :: acc)

def bgzfFramesAll (s : Src UInt8) : (List Bytes × Option Err) × Src UInt8 :=
  bgzfFrames (s.data.length + 1) s []

/-- reading a BGZF stream block by block (`fill_buf` + `consume(len)` until `fill_buf` is empty):
per block (reader `position()` after it, data length); then the outcome -/
def bgzfBlocks : Nat → Src UInt8 → Nat → List (Nat × Nat) → (List (Nat × Nat) × Option Err) × Src UInt8
  | 0, s, _, acc => ((acc.reverse, some .fuel), s)
  | fuel+1, s, pos, acc =>
    match readNonemptyBlock (s.data.length + 1) s 0 with
    | (.error e, s') => ((acc.reverse, some e), s')
    | (.ok (adv, len), s') =>
      if len = 0 then ((((pos + adv, 0) :: acc).reverse, none), s')
      else bgzfBlocks fuel s' (pos + adv) ((pos + adv, len) :: acc)

def bgzfBlocksAll (s : Src UInt8) : (List (Nat × Nat) × Option Err) × Src UInt8 :=
  bgzfBlocks (s.data.length + 1) s 0 []

/-! ## `std::io::BufReader` over a source -/

/-- `BufReader<R>`: the unconsumed part of the internal buffer, the inner reader, the capacity -/
structure BufR (α : Type) where
  buf : List α
  src : Src α
  cap : Nat

/-- the bytes a `BufR` will still deliver, in order -/
def BufR.stream (b : BufR α) : List α := b.buf ++ b.src.data

def BufR.ofSrc (s : Src α) (cap : Nat) : BufR α := ⟨[], s, cap⟩

/-- `BufReader::fill_buf`: the buffer if it is not empty, else ONE `read` of `cap` bytes from the
inner reader (an `Interrupted` from it is returned, as `std` does) -/
def fillBuf (b : BufR α) : ReadRes α × BufR α :=
  if b.buf.length ≠ 0 then (.ok b.buf, b)
  else match read b.src b.cap with
    | (.interrupted, s') => (.interrupted, { b with src := s' })
    | (.ok bs, s') => (.ok bs, { b with buf := bs, src := s' })

/-- `BufReader::consume` -/
def consume (n : Nat) (b : BufR α) : BufR α := { b with buf := b.buf.drop n }

/-- first element satisfying `p` (the `memchr` family): (before, it, after) -/
def findSplit (p : α → Bool) : List α → Option (List α × α × List α)
  | [] => none
  | x :: xs =>
    if p x then some ([], x, xs)
    else match findSplit p xs with
      | none => none
      | some (pre, d, post) => some (x :: pre, d, post)

/-- `BufRead::read_until(delim, buf)` (std): `fill_buf` (retrying `Interrupted`), append up to and
including the delimiter, `consume`; stop at the delimiter or at end of stream. Returns the bytes
appended (their number is the function's return value). -/
def readUntil (p : α → Bool) : Nat → BufR α → List α → List α × BufR α
  | 0, b, acc => (acc, b)
  | fuel+1, b, acc =>
    match fillBuf b with
    | (.interrupted, b') => readUntil p fuel b' acc
    | (.ok w, b') =>
      match findSplit p w with
      | some (pre, d, _) => (acc ++ pre ++ [d], consume (pre.length + 1) b')
      | none => if w.length = 0 then (acc, b') else readUntil p fuel (consume w.length b') (acc ++ w)

/-- enough fuel for any loop that per iteration consumes a byte, a schedule entry, or stops -/
def BufR.fuel (b : BufR α) : Nat := b.stream.length + b.src.sched.length + 2

def LF : UInt8 := 10
def CR : UInt8 := 13

/-- strip one trailing LF, and then one trailing CR -/
def stripEol (l : Bytes) : Bytes :=
  if l.getLast? = some LF then
    let l' := l.dropLast
    if l'.getLast? = some CR then l'.dropLast else l'
  else l

/-- noodles `read_line`: `read_until(b'\n')`, then pop LF and CR. Returns (bytes read, line). -/
def readLine (b : BufR UInt8) : (Nat × Bytes) × BufR UInt8 :=
  let r := readUntil (· == LF) b.fuel b []
  ((r.1.length, stripEol r.1), r.2)

/-! ## `fill_buf` / `consume` scanners -/

/-- what a scanner does with one `fill_buf` window in state `σ`: stop with a result (nothing more is
consumed), consume `n` bytes and go on in a new state, or consume `n` bytes and stop -/
inductive Scan (σ ρ : Type) | done (r : ρ) | more (st : σ) (n : Nat) | last (r : ρ) (n : Nat)

/-- the scanner loop `loop { let src = reader.fill_buf()?; … reader.consume(n); }`.
`fixed = false`: `?` returns `Interrupted` to the caller (the code at the pinned commit);
`fixed = true`: the refill is retried (after the `fix:` diffs). -/
def scanLoop {σ ρ : Type} (fixed : Bool) (k : σ → List α → Scan σ ρ) :
    Nat → σ → BufR α → Except Err ρ × BufR α
  | 0, _, b => (.error .fuel, b)
  | fuel+1, st, b =>
    match fillBuf b with
    | (.interrupted, b') => if fixed then scanLoop fixed k fuel st b' else (.error .interrupted, b')
    | (.ok w, b') =>
      match k st w with
      | .done r => (.ok r, b')
      | .more st' n => scanLoop fixed k fuel st' (consume n b')
      | .last r n => (.ok r, consume n b')

def TAB : UInt8 := 9

/-- state of `read_field`: (bytes appended to `dst`, `len`, the matched delimiter) -/
abbrev FieldSt := Bytes × Nat × Option UInt8

/-- one window of `read_field` (noodles-sam, noodles-bed; noodles-vcf after the fix: the bytes are
validated as UTF-8 only once the field is complete):
```
if r#match.is_some() || src.is_empty() { break; }
let (buf, n) = match memchr2(b'\t', b'\n', src) { Some(i) => { r#match = Some(src[i]); (&src[..i], i + 1) }
                                                   None => (src, src.len()) };
dst.extend(buf); len += n; reader.consume(n);
``` -/
def fieldStep (st : FieldSt) (w : Bytes) : Scan FieldSt FieldSt :=
  if st.2.2.isSome || w.length = 0 then .done st
  else match findSplit (fun c => c == TAB || c == LF) w with
    | some (pre, d, _) => .more (st.1 ++ pre, st.2.1 + (pre.length + 1), some d) (pre.length + 1)
    | none => .more (st.1 ++ w, st.2.1 + w.length, none) w.length

/-- `read_field`: (field bytes, `len`, `is_eol`); a CR before the LF is stripped after the loop -/
def readField (fixed : Bool) (b : BufR UInt8) : Except Err (Bytes × Nat × Bool) × BufR UInt8 :=
  match scanLoop fixed fieldStep b.fuel ([], 0, none) b with
  | (.error e, b') => (.error e, b')
  | (.ok (dst, len, m), b') =>
    let isEol := m == some LF
    (.ok (if isEol && dst.getLast? == some CR then dst.dropLast else dst, len, isEol), b')

/-- one window of `consume_line` (noodles-fastq) / `discard_line` (noodles-bed): state = (`len`, `is_eol`) -/
def lineStep (st : Nat × Bool) (w : Bytes) : Scan (Nat × Bool) Nat :=
  if w.length = 0 || st.2 then .done st.1
  else match findSplit (· == LF) w with
    | some (pre, _, _) => .more (st.1 + (pre.length + 1), true) (pre.length + 1)
    | none => .more (st.1 + w.length, false) w.length

/-- `consume_line` / `discard_line`: number of bytes consumed, through the first LF or to the end -/
def consumeLine (fixed : Bool) (b : BufR UInt8) : Except Err Nat × BufR UInt8 :=
  scanLoop fixed lineStep b.fuel (0, false) b

/-- one window of `discard_to_end` (BAM / BCF / CRAM header sub-readers): consume everything -/
def discardStep (n : Nat) (w : List α) : Scan Nat Nat :=
  if w.length = 0 then .done n else .more (n + w.length) w.length

def discardToEnd (fixed : Bool) (b : BufR α) : Except Err Nat × BufR α :=
  scanLoop fixed discardStep b.fuel 0 b

/-! ### the SAM / VCF header sub-readers (noodles-sam `io/reader/header.rs`, noodles-vcf `io/reader/header.rs`)

`header::Reader` is a `BufRead` adaptor with one flag, `is_eol`: its `fill_buf` returns nothing when
the previous line is complete and the inner window does not start with the prefix (`@` / `#`) — the
header is over —, else the inner window up to and including its first LF (`is_eol = true`), else the
whole window (`is_eol = false`). `read_header` reads it line by line with `read_line`
(`read_until(b'\n')`, which retries an `Interrupted` coming through `fill_buf`). -/

/-- one round of `read_until(b'\n')` over `header::Reader`; state = (bytes appended, `is_eol`) -/
def hdrStep (pfx : UInt8) (st : Bytes × Bool) (w : Bytes) : Scan (Bytes × Bool) (Bytes × Bool) :=
  if st.2 && w.head? != some pfx then .done st           -- `fill_buf` returns `&[]`: `read_until` returns
  else match findSplit (· == LF) w with
    | some (pre, d, _) => .last (st.1 ++ pre ++ [d], true) (pre.length + 1)
    | none => if w.length = 0 then .done (st.1, false) else .more (st.1 ++ w, false) w.length

/-- `read_line` on the header reader: (bytes read, line without LF / CRLF, `is_eol` afterwards) -/
def hdrReadLine (pfx : UInt8) (isEol : Bool) (b : BufR UInt8) : Except Err (Nat × Bytes × Bool) × BufR UInt8 :=
  match scanLoop true (hdrStep pfx) b.fuel ([], isEol) b with
  | (.error e, b') => (.error e, b')
  | (.ok (l, e), b') => (.ok (l.length, stripEol l, e), b')

/-- `read_header`'s loop `while read_line(&mut reader, &mut buf)? != 0`: the raw header lines -/
def hdrLines (pfx : UInt8) : Nat → Bool → BufR UInt8 → List Bytes → Except Err (List Bytes) × BufR UInt8
  | 0, _, b, _ => (.error .fuel, b)
  | fuel+1, isEol, b, acc =>
    match hdrReadLine pfx isEol b with
    | (.error e, b') => (.error e, b')
    | (.ok (0, _, _), b') => (.ok acc.reverse, b')
    | (.ok (_, l, e), b') => hdrLines pfx fuel e b' (l :: acc)

def hdrLinesAll (pfx : UInt8) (b : BufR UInt8) : Except Err (List Bytes) × BufR UInt8 :=
  hdrLines pfx (b.stream.length + 1) true b []

/-! ### the FASTQ record reader (noodles-fastq `io/reader/record.rs`, `record/definition.rs`) -/

/-- `read_u8` = `reader.read_exact(&mut [0; 1])` on a `BufReader`: the next byte of the stream
(`BufReader::read_exact` takes it from the buffer, or goes through `read`, which refills the buffer
or — when the capacity is 1 — reads straight from the inner reader; `Interrupted` is retried by
`read_exact`).  `none` = `UnexpectedEof`. -/
def readU8 : Nat → BufR α → Option α × BufR α
  | 0, b => (none, b)
  | fuel+1, b =>
    match b.buf with
    | x :: rest => (some x, { b with buf := rest })
    | [] =>
      if 1 ≥ b.cap then
        -- `BufReader::read` bypasses an empty buffer when the request is at least the capacity
        match read b.src 1 with
        | (.interrupted, s') => readU8 fuel { b with src := s' }
        | (.ok [], s') => (none, { b with src := s' })
        | (.ok (x :: _), s') => (some x, { b with src := s' })
      else match fillBuf b with
        | (.interrupted, b') => readU8 fuel b'
        | (.ok [], b') => (none, b')
        | (.ok (x :: rest), b') => (some x, { b' with buf := rest })

def SPACE : UInt8 := 32
def AT : UInt8 := 64
def PLUS : UInt8 := 43

/-- state of the name scanner: (name bytes, `len`, `is_eol`, matched a needle) -/
abbrev NameSt := Bytes × Nat × Bool × Bool

/-- one window of the name loop of `read_definition`: up to the first space, tab or LF.
`fixed = false`: a CR is stripped only if it is in the same window as the LF (today's code);
`fixed = true`: the window contributes `src[..i]` unchanged and the CR is stripped after the loop. -/
def nameStep (fixed : Bool) (st : NameSt) (w : Bytes) : Scan NameSt NameSt :=
  if st.2.2.2 || w.length = 0 then .done st
  else match findSplit (fun c => c == SPACE || c == TAB || c == LF) w with
    | some (pre, d, _) =>
      let isLf := d == LF
      let piece := if isLf && !fixed && pre.getLast? == some CR then pre.dropLast else pre
      .more (st.1 ++ piece, st.2.1 + (pre.length + 1), isLf, true) (pre.length + 1)
    | none => .more (st.1 ++ w, st.2.1 + w.length, st.2.2.1, false) w.length

structure FastqRec where
  name : Bytes
  description : Bytes
  sequence : Bytes
  quality : Bytes
  deriving Repr, DecidableEq

/-- `read_definition`: `Ok(0)` at a clean end of stream, `InvalidData` unless the first byte is `@`;
the name; the rest of the line (if any) is the description (`read_line`). Returns (len, name, description). -/
def fastqReadDefinition (fixed : Bool) (b : BufR UInt8) : Except Err (Nat × Bytes × Bytes) × BufR UInt8 :=
  match readU8 b.fuel b with
  | (none, b1) => (.ok (0, [], []), b1)
  | (some c, b1) =>
    if c ≠ AT then (.error .invalidData, b1)
    else match scanLoop fixed (nameStep fixed) b1.fuel ([], 1, false, false) b1 with
      | (.error e, b2) => (.error e, b2)
      | (.ok (name, len, isEol, _), b2) =>
        if isEol then
          (.ok (len, if fixed && name.getLast? == some CR then name.dropLast else name, []), b2)
        else
          let r := readLine b2
          (.ok (len + r.1.1, name, r.1.2), r.2)

/-- `consume_plus_line`: `read_u8` must be `+`, then `consume_line` -/
def fastqConsumePlusLine (fixed : Bool) (b : BufR UInt8) : Except Err Nat × BufR UInt8 :=
  match readU8 b.fuel b with
  | (none, b1) => (.error .eof, b1)
  | (some c, b1) =>
    if c ≠ PLUS then (.error .invalidData, b1)
    else match consumeLine fixed b1 with
      | (.error e, b2) => (.error e, b2)
      | (.ok n, b2) => (.ok (n + 1), b2)

/-- noodles-fastq `read_record`: `none` = `Ok(0)` (end of stream) -/
def fastqReadRecord (fixed : Bool) (b : BufR UInt8) : Except Err (Option (Nat × FastqRec)) × BufR UInt8 :=
  match fastqReadDefinition fixed b with
  | (.error e, b1) => (.error e, b1)
  | (.ok (0, _, _), b1) => (.ok none, b1)
  | (.ok (n, name, desc), b1) =>
    let s := readLine b1
    match fastqConsumePlusLine fixed s.2 with
    | (.error e, b3) => (.error e, b3)
    | (.ok m, b3) =>
      let q := readLine b3
      (.ok (some (n + s.1.1 + m + q.1.1, ⟨name, desc, s.1.2, q.1.2⟩)), q.2)

/-- all records until end of stream or the first error -/
def fastqRecords (fixed : Bool) : Nat → BufR UInt8 → List (Nat × FastqRec) →
    (List (Nat × FastqRec) × Option Err) × BufR UInt8
  | 0, b, acc => ((acc.reverse, some .fuel), b)
  | fuel+1, b, acc =>
    match fastqReadRecord fixed b with
    | (.error e, b') => ((acc.reverse, some e), b')
    | (.ok none, b') => ((acc.reverse, none), b')
    | (.ok (some r), b') => fastqRecords fixed fuel b' (r :: acc)

def fastqRecordsAll (fixed : Bool) (b : BufR UInt8) : (List (Nat × FastqRec) × Option Err) × BufR UInt8 :=
  fastqRecords fixed (b.stream.length + 1) b []

/-! ### the BED record reader (noodles-bed `io/reader/record.rs`, `Record<3>`) -/

def HASH : UInt8 := 35

/-- the first byte of the next `fill_buf` window (`none` at end of stream): what
`reader.fill_buf()?.starts_with(..)` / `src[0]` look at -/
def peekStep (_ : Unit) (w : List α) : Scan Unit (Option α) := .done w.head?

def peek (fixed : Bool) (b : BufR α) : Except Err (Option α) × BufR α :=
  scanLoop fixed peekStep b.fuel () b

/-- `skip_comment_lines`: while the next window starts with `#`, `discard_line`
(every round consumes at least the `#`, so `stream.length + 1` rounds suffice) -/
def skipCommentLines (fixed : Bool) : Nat → BufR UInt8 → Except Err Unit × BufR UInt8
  | 0, b => (.error .fuel, b)
  | fuel+1, b =>
    match peek fixed b with
    | (.error e, b') => (.error e, b')
    | (.ok c, b') =>
      if c = some HASH then
        match consumeLine fixed b' with
        | (.error e, b'') => (.error e, b'')
        | (.ok _, b'') => skipCommentLines fixed fuel b''
      else (.ok (), b')

/-- `read_required_field`: a field that must not end the line -/
def readRequiredField (fixed : Bool) (b : BufR UInt8) : Except Err (Bytes × Nat) × BufR UInt8 :=
  match readField fixed b with
  | (.error e, b') => (.error e, b')
  | (.ok (f, n, isEol), b') => if isEol then (.error .invalidData, b') else (.ok (f, n), b')

/-- `read_other_fields`: fields until the end of the line or of the stream -/
def readOtherFields (fixed : Bool) : Nat → BufR UInt8 → List Bytes → Nat → Except Err (List Bytes × Nat) × BufR UInt8
  | 0, b, _, _ => (.error .fuel, b)
  | fuel+1, b, acc, len =>
    match readField fixed b with
    | (.error e, b') => (.error e, b')
    | (.ok (f, n, isEol), b') =>
      if n = 0 then (.ok (acc.reverse, len), b')
      else if isEol then (.ok ((f :: acc).reverse, len + n), b')
      else readOtherFields fixed fuel b' (f :: acc) (len + n)

/-- `read_record_3`: (bytes read, the three standard fields ++ the other fields); 0 bytes = end of stream -/
def bedReadRecord3 (fixed : Bool) (b : BufR UInt8) : Except Err (Nat × List Bytes) × BufR UInt8 :=
  match skipCommentLines fixed (b.stream.length + 1) b with
  | (.error e, b0) => (.error e, b0)
  | (.ok _, b0) =>
  match readRequiredField fixed b0 with
  | (.error e, b1) => (.error e, b1)
  | (.ok (f1, n1), b1) =>
  match readRequiredField fixed b1 with
  | (.error e, b2) => (.error e, b2)
  | (.ok (f2, n2), b2) =>
  match readField fixed b2 with
  | (.error e, b3) => (.error e, b3)
  | (.ok (f3, n3, isEol), b3) =>
    if isEol then (.ok (n1 + n2 + n3, [f1, f2, f3]), b3)
    else match readOtherFields fixed (b3.stream.length + 1) b3 [] 0 with
      | (.error e, b4) => (.error e, b4)
      | (.ok (fs, n4), b4) => (.ok (n1 + n2 + n3 + n4, [f1, f2, f3] ++ fs), b4)

end Noodles.IO
