import Noodles.Io.Loops
import Noodles.Bgzf.AsyncReader
import Noodles.Bgzf.Frame
/-!
# The format-level async readers as `poll` machines over an abstract `AsyncRead` (model for C16)

The sync twins are the read loops of `Noodles.Io.Loops` (the model C12 is proved about) plus the sync
BAM header reader and the sync GFF line reader transcribed below.

**The async source.**  `ARead σ α` is `tokio::io::AsyncRead` seen from its caller: `poll s n` is
`poll_read(cx, buf)` with `buf.remaining() = n` — `pending`, or `ready bs` with the bytes put into
`buf`.  Two ghost fields say what a *lawful* reader is (`ARead.Lawful`): `rest s` is the byte string it
will still deliver, `credit s` bounds the `Pending` answers it can still give; a `Pending` poll changes
nothing but the credit, a `Ready` poll hands over a prefix of `rest` of at most `n` bytes, non-empty
unless `n = 0` or the stream is at its end.  `scripted` is the adversarial source of the harness
(`adversary.rs::AsyncSchedReader`: a schedule of `Ready(n)` / `Pending`, then `fallback` bytes per poll);
`takeRead` is `tokio::io::Take`.  No I/O errors are modelled (the assumption of C16).

**Futures.**  A hand-written future is its state plus its `poll` function, transcribed from the source:
tokio `Read`, `ReadExact`, `ReadU32Le`, `ReadToEnd` (`io/util/read.rs`, `read_exact.rs`, `read_int.rs`,
`read_to_end.rs`),
`BufReader::poll_fill_buf` / `consume` (`buf_reader.rs`), `Take::poll_read` (`take.rs`),
`read_until_internal` (`read_until.rs`), and noodles-bam `sam_header::Reader::poll_fill_buf` / `consume`
(`async/io/reader/header/sam_header.rs`).  A `poll` may answer `pending` at every point where the source
does, keeping in its state whatever it has gathered so far.  `.await` is `drive`: the task polls the
future until it is `Ready` (the adversary wakes the task immediately, the executor polls it again).
The bodies of `async fn`s (compiler-generated state machines that keep their locals across an await) are
written in direct style over `drive`: noodles-bam `async/io/reader.rs::read_exact_to_vec`,
`async/io/reader/record.rs` (`read_exact_or_eof`, `read_block_size`, `read_record`), `async/io/reader/header.rs` (`read_header_inner`, `read_sam_header`,
`read_line`), `header/sam_header.rs::discard_to_end`, `header/reference_sequences.rs`,
`reference_sequences/reference_sequence.rs`, `header/magic_number.rs`; noodles-gff
`async/io/reader.rs::read_line`, `async/io/reader/line.rs::read_line`; the `read_line` loop of
noodles-sam / noodles-vcf `async/io/reader/header.rs::read_header` over their `header::Reader`
(`poll_fill_buf` / `consume`).  At the end: the `write_all` calls both BAM writers make on their BGZF
writer (`bamRecordOps`; the writer poll machine itself is `Noodles.Bgzf.AW`).

**`Vec` growth is a parameter.**  `read_to_end` offers `poll_read` / `read` the spare capacity of the
caller's `Vec` (after `reserve(32)`, or a 32-byte probe): how many bytes that is depends on the
allocator's growth policy and on the capacity the buffer happens to have from earlier calls.  The
models take it as a function `ask` of the reader state (along a run of a lawful reader no state
repeats, so this is any sequence of sizes); the ASSUMED LAW is `0 < ask t` (tokio and std always offer
at least one byte), validated by the harness on every run.

`fuel` arguments bound loops whose termination the theorems prove (`Err.fuel` is never returned).
-/
namespace Noodles.IO.Async
open Noodles.IO
open Noodles.Bgzf.Async (Poll1 Poll)

variable {σ α : Type}

/-! ## the async source -/

/-- `tokio::io::AsyncRead` as its caller sees it, with two ghost observations (`rest`, `credit`) -/
structure ARead (σ α : Type) where
  /-- `poll_read(cx, buf)` with `buf.remaining() = n`: `pending`, or `ready` with the bytes added to `buf` -/
  poll : σ → Nat → Poll (List α) × σ
  /-- ghost: the bytes still to be delivered, in order -/
  rest : σ → List α
  /-- ghost: a bound on the number of `Pending` answers still to come -/
  credit : σ → Nat

/-- the contract of an `AsyncRead` that delivers a byte string: `Pending` only finitely often and
without effect; `Ready` with a prefix of what is left, at most `n` bytes, at least one unless `n = 0`
or nothing is left -/
structure ARead.Lawful (A : ARead σ α) : Prop where
  pending : ∀ s n s', A.poll s n = (.pending, s') → A.rest s' = A.rest s ∧ A.credit s' < A.credit s
  ready : ∀ s n bs s', A.poll s n = (.ready bs, s') →
    ∃ k, k ≤ n ∧ k ≤ (A.rest s).length ∧ bs = (A.rest s).take k ∧ A.rest s' = (A.rest s).drop k ∧
      (0 < n → A.rest s ≠ [] → 0 < k) ∧ A.credit s' ≤ A.credit s

/-- the harness's `AsyncSchedReader`: data not yet delivered, the schedule, the bytes per poll once the
schedule is used up (`fallback.max(1)`), and two counters the correspondence prints: `poll_read` calls
and `Pending` answers so far -/
structure ASrc (α : Type) where
  data : List α
  sched : List Poll1
  fallback : Nat
  polls : Nat
  pendings : Nat

def ASrc.poll (s : ASrc α) (n : Nat) : Poll (List α) × ASrc α :=
  match s.sched with
  | .pending :: sc => (.pending, { s with sched := sc, polls := s.polls + 1, pendings := s.pendings + 1 })
  | .ready m :: sc =>
    (.ready (s.data.take (min n (max m 1))),
     { s with data := s.data.drop (min n (max m 1)), sched := sc, polls := s.polls + 1 })
  | [] =>
    (.ready (s.data.take (min n (max s.fallback 1))),
     { s with data := s.data.drop (min n (max s.fallback 1)), polls := s.polls + 1 })

/-- the scripted source as an `ARead` -/
def scripted : ARead (ASrc α) α := ⟨ASrc.poll, (·.data), (·.sched.length)⟩

/-- `tokio::io::Take<R>::poll_read`: nothing (and no poll of the inner reader) once the limit is 0,
otherwise a poll of the inner reader with the buffer cut to the limit. State = (limit, inner). -/
def takeRead (A : ARead σ α) : ARead (Nat × σ) α where
  poll := fun t n =>
    if t.1 = 0 then (.ready [], t)
    else match A.poll t.2 (min n t.1) with
      | (.pending, s') => (.pending, (t.1, s'))
      | (.ready bs, s') => (.ready bs, (t.1 - bs.length, s'))
  rest := fun t => (A.rest t.2).take t.1
  credit := fun t => A.credit t.2

/-- ghost: what the inner reader delivers after the `Take` is exhausted -/
def afterTake (A : ARead σ α) (t : Nat × σ) : List α := (A.rest t.2).drop t.1

/-! ## futures: state + `poll`; `.await` = `drive` -/

/-- `fut.await` inside a task whose waker is invoked at once: poll until `Ready`.  `none` = the fuel
ran out (excluded by the theorems: `credit + 1` polls always suffice). -/
def drive {τ β : Type} (poll : τ → Poll β × τ) : Nat → τ → Option β × τ
  | 0, t => (none, t)
  | fuel+1, t =>
    match poll t with
    | (.pending, t') => drive poll fuel t'
    | (.ready b, t') => (some b, t')

/-- `.await` of a future with an `io::Result` output -/
def await {τ β : Type} (poll : τ → Poll (Except Err β) × τ) (fuel : Nat) (t : τ) : Except Err β × τ :=
  match drive poll fuel t with
  | (some r, t') => (r, t')
  | (none, t') => (.error .fuel, t')

/-- tokio `ReadExact::poll` for a buffer of `n` bytes; state = (bytes filled so far, reader):
```
loop { let rem = me.buf.remaining();
       if rem != 0 { ready!(Pin::new(&mut *me.reader).poll_read(cx, me.buf))?;
                     if me.buf.remaining() == rem { return Err(eof()).into(); } }
       else { return Poll::Ready(Ok(me.buf.capacity())); } }
```
tokio `ReadU32Le::poll` (`read_int.rs`: a 4-byte buffer, `read` = bytes filled, `while read < 4`
poll the rest of the buffer, `UnexpectedEof` when a poll adds nothing) is the same transition function
with `n = 4`; `read_u32_le` is modelled by it. -/
def pollReadExact (A : ARead σ α) (n : Nat) :
    Nat → List α × σ → Poll (Except Err (List α)) × (List α × σ)
  | 0, t => (.ready (.error .fuel), t)
  | fuel+1, t =>
    if n - t.1.length ≠ 0 then
      match A.poll t.2 (n - t.1.length) with
      | (.pending, s') => (.pending, (t.1, s'))
      | (.ready bs, s') =>
        if bs.length = 0 then (.ready (.error .eof), (t.1, s'))
        else pollReadExact A n fuel (t.1 ++ bs, s')
    else (.ready (.ok t.1), t)

/-- `reader.read_exact(&mut buf).await` with `buf.len() = n` (also `read_u32_le().await` with `n = 4`,
before `from_le_bytes`) -/
def readExactA (A : ARead σ α) (s : σ) (n : Nat) : Except Err (List α) × σ :=
  let r := await (pollReadExact A n (n + 1)) (A.credit s + 1) ([], s)
  (r.1, r.2.2)

/-- `reader.read(buf).await` with `buf.len() = n` (tokio `Read::poll`: one `poll_read`);
`none` = starved (excluded by the theorems) -/
def readA (A : ARead σ α) (s : σ) (n : Nat) : Option (List α) × σ :=
  drive (fun s => A.poll s n) (A.credit s + 1) s

/-- tokio `ReadToEnd::poll` (`read_to_end_internal` over `poll_read_to_end`); state = (bytes appended
so far, reader).  Every round offers the reader `ask` bytes of spare capacity; a round that adds
nothing ends the future with the bytes gathered:
```
loop { let ret = ready!(poll_read_to_end(buf, reader.as_mut(), cx));
       match ret { Err(err) => return Poll::Ready(Err(err)),
                   Ok(0) => return Poll::Ready(Ok(mem::replace(num_read, 0))),
                   Ok(num) => { *num_read += num; } } }
``` -/
def pollReadToEnd {τ : Type} (B : ARead τ α) (ask : τ → Nat) :
    Nat → List α × τ → Poll (Except Err (List α)) × (List α × τ)
  | 0, t => (.ready (.error .fuel), t)
  | fuel+1, t =>
    match B.poll t.2 (ask t.2) with
    | (.pending, s') => (.pending, (t.1, s'))
    | (.ready bs, s') =>
      if bs.length = 0 then (.ready (.ok t.1), (t.1, s'))
      else pollReadToEnd B ask fuel (t.1 ++ bs, s')

/-- noodles-bam `async/io/reader.rs::read_exact_to_vec`:
`buf.clear(); if reader.take(len).read_to_end(buf).await? == len { Ok(()) } else { Err(UnexpectedEof) }`.
The `Take` is dropped afterwards: reading goes on with the reader inside it. -/
def readExactToVecA (A : ARead σ α) (ask : Nat × σ → Nat) (s : σ) (len : Nat) : Except Err (List α) × σ :=
  let r := await (pollReadToEnd (takeRead A) ask (((takeRead A).rest (len, s)).length + 2))
    (A.credit s + 1) ([], (len, s))
  match r.1 with
  | .error e => (.error e, r.2.2.2)
  | .ok got => if got.length = len then (.ok got, r.2.2.2) else (.error .eof, r.2.2.2)

/-- the sync twin's `reader.by_ref().take(len).read_to_end(buf)` (std `default_read_to_end` over
`Take::read`): `Take` answers `Ok(0)` without calling the inner reader once its limit is used up and
otherwise cuts the request to the limit; `read_to_end` retries `Interrupted` and stops at the first
read of 0 bytes. `lim` = the limit left. -/
def readToEndTakeS (ask : Src α → Nat) : Nat → Src α → Nat → List α → List α × Src α
  | 0, s, _, acc => (acc, s)
  | fuel+1, s, lim, acc =>
    if lim = 0 then (acc, s)
    else match read s (min (ask s) lim) with
      | (.interrupted, s') => readToEndTakeS ask fuel s' lim acc
      | (.ok bs, s') =>
        if bs.length = 0 then (acc, s') else readToEndTakeS ask fuel s' (lim - bs.length) (acc ++ bs)

/-- noodles-bam `io/reader.rs::read_exact_to_vec` (the sync twin) -/
def readExactToVecS (ask : Src α → Nat) (s : Src α) (len : Nat) : Except Err (List α) × Src α :=
  let r := readToEndTakeS ask (len + s.sched.length + 1) s len []
  if r.1.length = len then (.ok r.1, r.2) else (.error .eof, r.2)

/-! ## noodles-bam `async/io/reader/record.rs` -/

/-- the loop of the async `read_exact_or_eof`:
```
while !buf.is_empty() { match reader.read(buf).await { Ok(0) => break,
    Ok(n) => { buf = &mut buf[n..]; bytes_read += n; } … } }
``` -/
def gatherA (A : ARead σ α) : Nat → σ → Nat → List α → Except Err (List α) × σ
  | 0, s, _, _ => (.error .fuel, s)
  | fuel+1, s, want, acc =>
    if want = 0 then (.ok acc, s)
    else match readA A s want with
      | (none, s') => (.error .fuel, s')
      | (some bs, s') =>
        if bs.length = 0 then (.ok acc, s') else gatherA A fuel s' (want - bs.length) (acc ++ bs)

/-- async `read_exact_or_eof`: `Ok` when the buffer was filled or nothing at all was read,
`UnexpectedEof` when it was filled partly.  Returns the bytes read. -/
def readExactOrEofA (A : ARead σ α) (s : σ) (want : Nat) : Except Err (List α) × σ :=
  match gatherA A (want + 1) s want [] with
  | (.error e, s') => (.error e, s')
  | (.ok got, s') =>
    if 0 < got.length ∧ got.length ≠ want then (.error .eof, s') else (.ok got, s')

/-- async `read_record`: `read_block_size` (`read_exact_or_eof` into a zeroed 4-byte buffer,
`u32::from_le_bytes`; 0 = end of stream), `read_exact_to_vec(reader, buf, block_size)`, `validate` -/
def bamReadRecordA (A : ARead σ UInt8) (ask : Nat × σ → Nat) (s : σ) : RecRes × σ :=
  match readExactOrEofA A s 4 with
  | (.error e, s1) => (.err e, s1)
  | (.ok hdr, s1) =>
    if leNat (zeroPad 4 hdr) = 0 then (.eof, s1)
    else match readExactToVecA A ask s1 (leNat (zeroPad 4 hdr)) with
      | (.error e, s2) => (.err e, s2)
      | (.ok body, s2) => if bamValidate body then (.record body, s2) else (.err .eof, s2)

/-- `read_record` until it returns 0 or fails (what `records()` / a `while read_record()? != 0` loop see) -/
def bamRecordsA (A : ARead σ UInt8) (ask : Nat × σ → Nat) : Nat → σ → List Bytes → (List Bytes × Option Err) × σ
  | 0, s, acc => ((acc.reverse, some .fuel), s)
  | fuel+1, s, acc =>
    match bamReadRecordA A ask s with
    | (.eof, s') => ((acc.reverse, none), s')
    | (.err e, s') => ((acc.reverse, some e), s')
    | (.record r, s') => bamRecordsA A ask fuel s' (r :: acc)

def bamRecordsAllA (A : ARead σ UInt8) (ask : Nat × σ → Nat) (s : σ) : (List Bytes × Option Err) × σ :=
  bamRecordsA A ask ((A.rest s).length + 1) s []

/-- the sync twin as it is now (noodles-bam `io/reader/record.rs::read_record` with `read_exact_to_vec`);
`Noodles.IO.bamReadRecord` (C12's model, `read_exact` into a resized buffer) computes the same
(`bamReadRecordS_eq_c12`) -/
def bamReadRecordS (ask : Src UInt8 → Nat) (s : Src UInt8) : RecRes × Src UInt8 :=
  match readExactOrEof s 4 with
  | (.error e, s1) => (.err e, s1)
  | (.ok hdr, s1) =>
    if leNat (zeroPad 4 hdr) = 0 then (.eof, s1)
    else match readExactToVecS ask s1 (leNat (zeroPad 4 hdr)) with
      | (.error e, s2) => (.err e, s2)
      | (.ok body, s2) => if bamValidate body then (.record body, s2) else (.err .eof, s2)

def bamRecordsS (ask : Src UInt8 → Nat) : Nat → Src UInt8 → List Bytes → (List Bytes × Option Err) × Src UInt8
  | 0, s, acc => ((acc.reverse, some .fuel), s)
  | fuel+1, s, acc =>
    match bamReadRecordS ask s with
    | (.eof, s') => ((acc.reverse, none), s')
    | (.err e, s') => ((acc.reverse, some e), s')
    | (.record r, s') => bamRecordsS ask fuel s' (r :: acc)

def bamRecordsAllS (ask : Src UInt8 → Nat) (s : Src UInt8) : (List Bytes × Option Err) × Src UInt8 :=
  bamRecordsS ask (s.data.length + 1) s []

/-! ## tokio `BufReader` and the `fill_buf` / `consume` loops -/

/-- `tokio::io::BufReader<R>`: the unconsumed part of the internal buffer (`buf[pos..cap]`) and the inner reader -/
structure ABuf (σ α : Type) where
  buf : List α
  inner : σ

/-- the bytes an `ABuf` will still deliver -/
def ABuf.stream (A : ARead σ α) (b : ABuf σ α) : List α := b.buf ++ A.rest b.inner

/-- `BufReader::poll_fill_buf`: the buffer if it is not empty, else ONE `poll_read` of the inner reader
into the whole internal buffer (`cap` bytes) -/
def pollFillBuf (A : ARead σ α) (cap : Nat) (b : ABuf σ α) : Poll (List α) × ABuf σ α :=
  if b.buf.length ≠ 0 then (.ready b.buf, b)
  else match A.poll b.inner cap with
    | (.pending, s') => (.pending, { b with inner := s' })
    | (.ready bs, s') => (.ready bs, ⟨bs, s'⟩)

/-- `BufReader::consume` -/
def aconsume (n : Nat) (b : ABuf σ α) : ABuf σ α := { b with buf := b.buf.drop n }

/-- one `poll` of a future that loops `fill_buf` / `consume` with a window function `k` (the same
`Scan` vocabulary as the sync `scanLoop`): the loop state `st` and the reader are kept across a
`Pending`.  This is `read_until_internal` (tokio), and the state machine of an `async fn` whose only
await point is `reader.fill_buf().await` at the head of its loop. -/
def scanPoll {st ρ : Type} (A : ARead σ α) (cap : Nat) (k : st → List α → Scan st ρ) :
    Nat → st × ABuf σ α → Poll (Except Err ρ) × (st × ABuf σ α)
  | 0, t => (.ready (.error .fuel), t)
  | fuel+1, t =>
    match pollFillBuf A cap t.2 with
    | (.pending, b') => (.pending, (t.1, b'))
    | (.ready w, b') =>
      match k t.1 w with
      | .done r => (.ready (.ok r), (t.1, b'))
      | .more st' n => scanPoll A cap k fuel (st', aconsume n b')
      | .last r n => (.ready (.ok r), (t.1, aconsume n b'))

/-- the scan future awaited -/
def scanA {st ρ : Type} (A : ARead σ α) (cap : Nat) (k : st → List α → Scan st ρ) (s0 : st)
    (b : ABuf σ α) : Except Err ρ × ABuf σ α :=
  let r := await (scanPoll A cap k ((b.stream A).length + 2)) (A.credit b.inner + 1) (s0, b)
  (r.1, r.2.2)

/-- one window of tokio `read_until_internal(delim)`; state = the bytes appended so far:
```
let available = ready!(reader.as_mut().poll_fill_buf(cx))?;
if let Some(i) = memchr(delimiter, available) { buf.extend_from_slice(&available[..=i]); (true, i + 1) }
else { buf.extend_from_slice(available); (false, available.len()) };
reader.as_mut().consume(used); *read += used;
if done || used == 0 { return Poll::Ready(Ok(mem::replace(read, 0))); }
``` -/
def untilStep (p : α → Bool) (acc : List α) (w : List α) : Scan (List α) (List α) :=
  match findSplit p w with
  | some (pre, d, _) => .last (acc ++ pre ++ [d]) (pre.length + 1)
  | none => if w.length = 0 then .done acc else .more (acc ++ w) w.length

/-- the async `read_line` of noodles-fasta / -fastq / -gff / -sam (`async/io/reader.rs`):
`read_until(b'\n', buf).await`, then pop LF and CR.  (bytes read, line) -/
def readLineA (A : ARead σ UInt8) (cap : Nat) (b : ABuf σ UInt8) :
    Except Err (Nat × Bytes) × ABuf σ UInt8 :=
  match scanA A cap (untilStep (· == LF)) [] b with
  | (.error e, b') => (.error e, b')
  | (.ok l, b') => (.ok (l.length, stripEol l), b')

/-! ## noodles-gff `read_line` (both twins) -/

/-- `u8::is_ascii_whitespace` on every byte (noodles-gff `io/reader/line.rs::is_blank`) -/
def isBlank (l : Bytes) : Bool := l.all fun c => c == 32 || c == 9 || c == 10 || c == 12 || c == 13

/-- noodles-gff `async/io/reader/line.rs::read_line`:
`loop { dst.clear(); let n = super::read_line(reader, dst).await?; if n == 0 || !is_blank(dst) { return Ok(n); } }`
(the count returned is that of the last line read) -/
def gffReadLineA (A : ARead σ UInt8) (cap : Nat) : Nat → ABuf σ UInt8 → Except Err (Nat × Bytes) × ABuf σ UInt8
  | 0, b => (.error .fuel, b)
  | fuel+1, b =>
    match readLineA A cap b with
    | (.error e, b') => (.error e, b')
    | (.ok (n, l), b') => if n = 0 || !isBlank l then (.ok (n, l), b') else gffReadLineA A cap fuel b'

/-- noodles-gff `io/reader/line.rs::read_line` (the sync twin) over `std::io::BufReader` -/
def gffReadLineS : Nat → BufR UInt8 → Except Err (Nat × Bytes) × BufR UInt8
  | 0, b => (.error .fuel, b)
  | fuel+1, b =>
    match readLine b with
    | ((n, l), b') => if n = 0 || !isBlank l then (.ok (n, l), b') else gffReadLineS fuel b'

/-- `while reader.read_line(&mut line).await? != 0`: every line until end of stream -/
def gffLinesA (A : ARead σ UInt8) (cap : Nat) : Nat → ABuf σ UInt8 → List (Nat × Bytes) →
    (List (Nat × Bytes) × Option Err) × ABuf σ UInt8
  | 0, b, acc => ((acc.reverse, some .fuel), b)
  | fuel+1, b, acc =>
    match gffReadLineA A cap ((b.stream A).length + 1) b with
    | (.error e, b') => ((acc.reverse, some e), b')
    | (.ok (n, l), b') => if n = 0 then ((acc.reverse, none), b') else gffLinesA A cap fuel b' ((n, l) :: acc)

def gffLinesS : Nat → BufR UInt8 → List (Nat × Bytes) → (List (Nat × Bytes) × Option Err) × BufR UInt8
  | 0, b, acc => ((acc.reverse, some .fuel), b)
  | fuel+1, b, acc =>
    match gffReadLineS (b.stream.length + 1) b with
    | (.error e, b') => ((acc.reverse, some e), b')
    | (.ok (n, l), b') => if n = 0 then ((acc.reverse, none), b') else gffLinesS fuel b' ((n, l) :: acc)

/-! ## the SAM / VCF header sub-readers (noodles-sam, noodles-vcf `async/io/reader/header.rs`)

The async `header::Reader` is the sync one with `poll_fill_buf` for `fill_buf`: the same filter
expression (`is_eol`, the prefix `@` / `#`, the first LF) over the inner reader's window — the window
function `Noodles.IO.hdrStep` of the sync model. -/

/-- `read_until(b'\n')` + LF / CRLF strip on the async header reader: (bytes read, line, `is_eol` afterwards) -/
def hdrReadLineA (A : ARead σ UInt8) (cap : Nat) (pfx : UInt8) (isEol : Bool) (b : ABuf σ UInt8) :
    Except Err (Nat × Bytes × Bool) × ABuf σ UInt8 :=
  match scanA A cap (hdrStep pfx) ([], isEol) b with
  | (.error e, b') => (.error e, b')
  | (.ok (l, e), b') => (.ok (l.length, stripEol l, e), b')

/-- async `read_header`'s loop `while read_line(&mut reader, &mut buf).await? != 0`: the raw header lines -/
def hdrLinesA (A : ARead σ UInt8) (cap : Nat) (pfx : UInt8) :
    Nat → Bool → ABuf σ UInt8 → List Bytes → Except Err (List Bytes) × ABuf σ UInt8
  | 0, _, b, _ => (.error .fuel, b)
  | fuel+1, isEol, b, acc =>
    match hdrReadLineA A cap pfx isEol b with
    | (.error e, b') => (.error e, b')
    | (.ok (0, _, _), b') => (.ok acc.reverse, b')
    | (.ok (_, l, e), b') => hdrLinesA A cap pfx fuel e b' (l :: acc)

def hdrLinesAllA (A : ARead σ UInt8) (cap : Nat) (pfx : UInt8) (b : ABuf σ UInt8) :
    Except Err (List Bytes) × ABuf σ UInt8 :=
  hdrLinesA A cap pfx ((b.stream A).length + 1) true b []

/-! ## the BAM header reader (both twins) -/

def DEFAULT_BUF_SIZE : Nat := 8192
def BAM_MAGIC : Bytes := [0x42, 0x41, 0x4d, 0x01]

/-- `sam::header::Parser` as a parameter (an external component, the same code on both sides):
`parsePartial` is `parse_partial` (`none` = the line is rejected → `InvalidData`), `refs` is the
reference sequence dictionary of `finish()` as (name, length) pairs. -/
structure HdrParser (π : Type) where
  init : π
  parsePartial : π → Bytes → Option π
  refs : π → List (Bytes × Nat)

/-- `*this.is_eol && src.first().map(|&b| b == NUL).unwrap_or(true)`: the header text is over -/
def hdrStop (isEol : Bool) (w : Bytes) : Bool :=
  isEol && (match w.head? with | none => true | some c => c == 0)

/-- one window of `read_until(b'\n')` over noodles-bam `sam_header::Reader` (async: `poll_fill_buf` +
`consume`, sync: `fill_buf` + `consume` — the two filters are the same expression); state = (bytes
appended, `is_eol`):
```
let buf = if *this.is_eol && src.first().map(|&b| b == NUL).unwrap_or(true) { &[] }
          else if let Some(i) = src.as_bstr().find_byte(LINE_FEED) { *this.is_eol = true; &src[..=i] }
          else { *this.is_eol = false; src };
``` -/
def bamHdrStep (st : Bytes × Bool) (w : Bytes) : Scan (Bytes × Bool) (Bytes × Bool) :=
  if hdrStop st.2 w then .done st
  else match findSplit (· == LF) w with
    | some (pre, d, _) => .last (st.1 ++ pre ++ [d], true) (pre.length + 1)
    | none => if w.length = 0 then .done (st.1, false) else .more (st.1 ++ w, false) w.length

/-- `CStr::from_bytes_with_nul(buf)` then `to_bytes()` (`bytes_with_nul_to_bstring`): the only NUL is the last byte -/
def cstrName (c : Bytes) : Option Bytes :=
  match findSplit (· == 0) c with
  | some (pre, _, []) => some pre
  | _ => none

/-- `IndexMap::insert`: a known name keeps its index and gets the new value -/
def refInsert (m : List (Bytes × Nat)) (name : Bytes) (len : Nat) : List (Bytes × Nat) :=
  if m.any (fun e => e.1 == name) then m.map (fun e => if e.1 == name then (name, len) else e)
  else m ++ [(name, len)]

/-- the end of `read_header_inner`: an empty dictionary in the text takes the binary one, otherwise
`reference_sequences_eq` (same names and lengths in the same order) -/
def mergeRefs {π : Type} (P : HdrParser π) (p : π) (refs : List (Bytes × Nat)) :
    Except Err (π × List (Bytes × Nat)) :=
  if (P.refs p).isEmpty then .ok (p, refs)
  else if P.refs p == refs then .ok (p, P.refs p)
  else .error .invalidData

/-! ### async -/

/-- async `read_line` (header.rs) on the `sam_header::Reader`: (bytes read, line, `is_eol` afterwards) -/
def readLineHdrA (A : ARead σ UInt8) (isEol : Bool) (b : ABuf (Nat × σ) UInt8) :
    Except Err (Nat × Bytes × Bool) × ABuf (Nat × σ) UInt8 :=
  match scanA (takeRead A) DEFAULT_BUF_SIZE bamHdrStep ([], isEol) b with
  | (.error e, b') => (.error e, b')
  | (.ok (l, e), b') => (.ok (l.length, stripEol l, e), b')

/-- the loop of async `read_sam_header`: `while read_line(reader, &mut buf).await? != 0 { parser.parse_partial(&buf)?; }` -/
def samHeaderLinesA {π : Type} (A : ARead σ UInt8) (P : HdrParser π) :
    Nat → Bool → π → ABuf (Nat × σ) UInt8 → Except Err π × ABuf (Nat × σ) UInt8
  | 0, _, _, b => (.error .fuel, b)
  | fuel+1, isEol, p, b =>
    match readLineHdrA A isEol b with
    | (.error e, b') => (.error e, b')
    | (.ok (n, l, e), b') =>
      if n = 0 then (.ok p, b')
      else match P.parsePartial p l with
        | none => (.error .invalidData, b')
        | some p' => samHeaderLinesA A P fuel e p' b'

/-- async `sam_header::Reader::discard_to_end` (on the inner `BufReader<Take<R>>`, past the NUL filter) -/
def discardToEndA (A : ARead σ α) (b : ABuf (Nat × σ) α) : Except Err Nat × ABuf (Nat × σ) α :=
  scanA (takeRead A) DEFAULT_BUF_SIZE discardStep 0 b

/-- async `read_sam_header` on `BufReader::new(inner.take(l_text))` -/
def readSamHeaderA {π : Type} (A : ARead σ UInt8) (P : HdrParser π) (b : ABuf (Nat × σ) UInt8) :
    Except Err π × ABuf (Nat × σ) UInt8 :=
  match samHeaderLinesA A P ((b.stream (takeRead A)).length + 1) true P.init b with
  | (.error e, b1) => (.error e, b1)
  | (.ok p, b1) =>
    match discardToEndA A b1 with
    | (.error e, b2) => (.error e, b2)
    | (.ok _, b2) => (.ok p, b2)

/-- async `read_reference_sequence`: `read_name` (`l_name`, the NUL-terminated name through
`read_exact_to_vec`), `read_length` (non-zero) -/
def readRefSeqA (A : ARead σ UInt8) (ask : Nat × σ → Nat) (s : σ) : Except Err (Bytes × Nat) × σ :=
  match readExactA A s 4 with
  | (.error e, s1) => (.error e, s1)
  | (.ok ln, s1) =>
    match readExactToVecA A ask s1 (leNat ln) with
    | (.error e, s2) => (.error e, s2)
    | (.ok cname, s2) =>
      match cstrName cname with
      | none => (.error .invalidData, s2)
      | some name =>
        match readExactA A s2 4 with
        | (.error e, s3) => (.error e, s3)
        | (.ok lr, s3) => if leNat lr = 0 then (.error .invalidData, s3) else (.ok (name, leNat lr), s3)

def readRefSeqsLoopA (A : ARead σ UInt8) (ask : Nat × σ → Nat) :
    Nat → σ → List (Bytes × Nat) → Except Err (List (Bytes × Nat)) × σ
  | 0, s, acc => (.ok acc, s)
  | n+1, s, acc =>
    match readRefSeqA A ask s with
    | (.error e, s') => (.error e, s')
    | (.ok (name, len), s') => readRefSeqsLoopA A ask n s' (refInsert acc name len)

/-- async `read_reference_sequences`: `n_ref`, then that many entries inserted into an `IndexMap` -/
def readRefSeqsA (A : ARead σ UInt8) (ask : Nat × σ → Nat) (s : σ) : Except Err (List (Bytes × Nat)) × σ :=
  match readExactA A s 4 with
  | (.error e, s1) => (.error e, s1)
  | (.ok nr, s1) => readRefSeqsLoopA A ask (leNat nr) s1 []

/-- async `read_header_inner`: magic, `l_text`, the text through `BufReader<Take<&mut R>>`
(`read_sam_header`, which ends with `discard_to_end`), the reference sequences, the merge.
The sub-reader is dropped after the text: reading goes on with the reader inside the `Take`. -/
def bamReadHeaderA {π : Type} (A : ARead σ UInt8) (ask : Nat × σ → Nat) (P : HdrParser π) (s : σ) :
    Except Err (π × List (Bytes × Nat)) × σ :=
  match readExactA A s 4 with
  | (.error e, s1) => (.error e, s1)
  | (.ok magic, s1) =>
    if magic ≠ BAM_MAGIC then (.error .invalidData, s1)
    else match readExactA A s1 4 with
      | (.error e, s2) => (.error e, s2)
      | (.ok lt, s2) =>
        match readSamHeaderA A P ⟨[], (leNat lt, s2)⟩ with
        | (.error e, b1) => (.error e, b1.inner.2)
        | (.ok p, b1) =>
          match readRefSeqsA A ask b1.inner.2 with
          | (.error e, s3) => (.error e, s3)
          | (.ok refs, s3) => (mergeRefs P p refs, s3)

/-! ### sync (noodles-bam `io/reader/header.rs` and its sub-modules)

`std::io::Take` is modelled by its contract: the `BufReader<Take<&mut R>>` of the sync
`sam_header::Reader` is a `BufR` over the first `l_text` undelivered bytes (same delivery schedule);
when it is dropped the outer reader goes on after those bytes. `read_u32_le` is `read_exact` of 4 bytes. -/

def readLineHdrS (isEol : Bool) (b : BufR UInt8) : Except Err (Nat × Bytes × Bool) × BufR UInt8 :=
  match scanLoop true bamHdrStep b.fuel ([], isEol) b with
  | (.error e, b') => (.error e, b')
  | (.ok (l, e), b') => (.ok (l.length, stripEol l, e), b')

def samHeaderLinesS {π : Type} (P : HdrParser π) : Nat → Bool → π → BufR UInt8 → Except Err π × BufR UInt8
  | 0, _, _, b => (.error .fuel, b)
  | fuel+1, isEol, p, b =>
    match readLineHdrS isEol b with
    | (.error e, b') => (.error e, b')
    | (.ok (n, l, e), b') =>
      if n = 0 then (.ok p, b')
      else match P.parsePartial p l with
        | none => (.error .invalidData, b')
        | some p' => samHeaderLinesS P fuel e p' b'

def readSamHeaderS {π : Type} (P : HdrParser π) (b : BufR UInt8) : Except Err π × BufR UInt8 :=
  match samHeaderLinesS P (b.stream.length + 1) true P.init b with
  | (.error e, b1) => (.error e, b1)
  | (.ok p, b1) =>
    match discardToEnd true b1 with
    | (.error e, b2) => (.error e, b2)
    | (.ok _, b2) => (.ok p, b2)

def readRefSeqS (ask : Src UInt8 → Nat) (s : Src UInt8) : Except Err (Bytes × Nat) × Src UInt8 :=
  match defaultReadExact s 4 with
  | (.error e, s1) => (.error e, s1)
  | (.ok ln, s1) =>
    match readExactToVecS ask s1 (leNat ln) with
    | (.error e, s2) => (.error e, s2)
    | (.ok cname, s2) =>
      match cstrName cname with
      | none => (.error .invalidData, s2)
      | some name =>
        match defaultReadExact s2 4 with
        | (.error e, s3) => (.error e, s3)
        | (.ok lr, s3) => if leNat lr = 0 then (.error .invalidData, s3) else (.ok (name, leNat lr), s3)

def readRefSeqsLoopS (ask : Src UInt8 → Nat) :
    Nat → Src UInt8 → List (Bytes × Nat) → Except Err (List (Bytes × Nat)) × Src UInt8
  | 0, s, acc => (.ok acc, s)
  | n+1, s, acc =>
    match readRefSeqS ask s with
    | (.error e, s') => (.error e, s')
    | (.ok (name, len), s') => readRefSeqsLoopS ask n s' (refInsert acc name len)

def readRefSeqsS (ask : Src UInt8 → Nat) (s : Src UInt8) : Except Err (List (Bytes × Nat)) × Src UInt8 :=
  match defaultReadExact s 4 with
  | (.error e, s1) => (.error e, s1)
  | (.ok nr, s1) => readRefSeqsLoopS ask (leNat nr) s1 []

/-- sync `read_header_inner` -/
def bamReadHeaderS {π : Type} (ask : Src UInt8 → Nat) (P : HdrParser π) (s : Src UInt8) :
    Except Err (π × List (Bytes × Nat)) × Src UInt8 :=
  match defaultReadExact s 4 with
  | (.error e, s1) => (.error e, s1)
  | (.ok magic, s1) =>
    if magic ≠ BAM_MAGIC then (.error .invalidData, s1)
    else match defaultReadExact s1 4 with
      | (.error e, s2) => (.error e, s2)
      | (.ok lt, s2) =>
        match readSamHeaderS P ⟨[], ⟨s2.data.take (leNat lt), s2.sched⟩, DEFAULT_BUF_SIZE⟩ with
        | (.error e, b1) => (.error e, ⟨s2.data.drop (leNat lt), b1.src.sched⟩)
        | (.ok p, b1) =>
          match readRefSeqsS ask ⟨s2.data.drop (leNat lt), b1.src.sched⟩ with
          | (.error e, s3) => (.error e, s3)
          | (.ok refs, s3) => (mergeRefs P p refs, s3)

/-! ## a whole BAM stream: `read_header`, then `read_record` until end of stream -/

structure FileRes (π : Type) where
  header : Except Err (π × List (Bytes × Nat))
  records : List Bytes
  ending : Option Err

def bamFileA {π : Type} (A : ARead σ UInt8) (ask : Nat × σ → Nat) (P : HdrParser π) (s : σ) : FileRes π × σ :=
  match bamReadHeaderA A ask P s with
  | (.error e, s1) => (⟨.error e, [], none⟩, s1)
  | (.ok h, s1) =>
    let r := bamRecordsAllA A ask s1
    (⟨.ok h, r.1.1, r.1.2⟩, r.2)

def bamFileS {π : Type} (ask : Src UInt8 → Nat) (P : HdrParser π) (s : Src UInt8) : FileRes π × Src UInt8 :=
  match bamReadHeaderS ask P s with
  | (.error e, s1) => (⟨.error e, [], none⟩, s1)
  | (.ok h, s1) =>
    let r := bamRecordsAllS ask s1
    (⟨.ok h, r.1.1, r.1.2⟩, r.2)

/-! ## the BAM writers' calls on their BGZF writer -/

def le32 (n : Nat) : Bytes :=
  [UInt8.ofNat (n % 256), UInt8.ofNat (n / 256 % 256), UInt8.ofNat (n / 65536 % 256), UInt8.ofNat (n / 16777216 % 256)]

/-- what `write_alignment_record` does with an encoded record `buf` on BOTH sides (noodles-bam
`async/io/writer.rs`, `io/writer.rs`): `write_u32_le(block_size)` — async: tokio `WriteU32Le`, the
`write_all` loop over a 4-byte buffer (`write_int.rs`: `poll_write` the rest, `Ok(0)` = `WriteZero`);
sync: `write_all(&n.to_le_bytes())` — then `write_all(&buf)` -/
def bamRecordOps (recs : List Bytes) : List Noodles.Bgzf.Op :=
  recs.flatMap fun r => [.write (le32 r.length), .write r]

/-- the BAM record stream: every record behind its `block_size` -/
def bamFramed (recs : List Bytes) : Bytes := (recs.map fun r => le32 r.length ++ r).flatten

end Noodles.IO.Async
