import Noodles.Basic.Wire
import Noodles.Io.Loops
/-! Line-protocol handler for the read-loop models (`c12 …`).

Requests (bytes as hex, `-` = empty; a schedule is a comma-separated list of `c<n>` (deliver at most
`n` bytes), `i` (`Interrupted`), each optionally repeated `*<k>`; `-` = empty schedule):

* `c12 bam <data> <sched>` — `bam::io::Reader::from(src).read_record` until end / error
* `c12 frames <data> <sched>` — `bgzf::io::Reader::new(src)`, `fill_buf` + `consume` until end / error
* `c12 fastq <fixed> <data> <sched> <cap>` — `fastq::io::Reader::new(BufReader::with_capacity(cap, src))`
* `c12 bed <fixed> <data> <sched> <cap>` — `bed::io::Reader::<3, _>::new(BufReader::with_capacity(cap, src))`
* `c12 hdr <prefix byte> <data> <sched> <cap>` — `sam::io::Reader::header_reader()` (`40`) /
  `vcf::io::Reader::header_reader()` (`23`) read with `read_until(b'\n')` + LF/CRLF strip until it returns 0
* `c12 exact <data> <sched> <n1,n2,…>` — successive `default_read_exact` calls (model only; replayed
  against `std::io::Read::read_exact`, whose contract it transcribes)
-/
namespace Noodles.IO
open Noodles.Wire

def parseDelivery (t : String) : Option (List Delivery) :=
  let (body, rep) := match t.splitOn "*" with
    | [b, k] => (b, k.toNat?)
    | _ => (t, some 1)
  match rep with
  | none => none
  | some k =>
    match body.toList with
    | ['i'] => some (List.replicate k .interrupted)
    | 'c' :: r => (String.ofList r).toNat?.map fun n => List.replicate k (.chunk n)
    | _ => none

def parseSched (s : String) : Option (List Delivery) :=
  if s = "-" then some [] else (s.splitOn ",").mapM parseDelivery |>.map List.flatten

def errStr : Err → String
  | .eof => "err:eof"
  | .invalidData => "err:invalid-data"
  | .interrupted => "err:interrupted"
  | .fuel => "err:fuel"

def endStr (e : Option Err) : String :=
  match e with
  | none => "eof"
  | some e => errStr e

/-- read name of a BAM record: `l_read_name` at offset 8, name (NUL-terminated) at offset 32 -/
def bamName (r : Bytes) : Bytes :=
  let l := r[8]!.toNat
  (r.drop 32).take (l - 1)

/-- the BED reader exposes its start / end columns only as parsed numbers, so the harness can print
them only in canonical decimal: do the same here (an all-digit field loses its leading zeros) -/
def canonNum (f : Bytes) : Bytes :=
  if !f.isEmpty && f.all (fun c => 48 ≤ c && c ≤ 57) then
    let t := f.dropWhile (· == 48)
    if t.isEmpty then [48] else t
  else f

def canonBedFields : List Bytes → List Bytes
  | a :: b :: c :: rest => a :: canonNum b :: canonNum c :: rest
  | l => l

def joinOr (sep : String) (l : List String) : String := if l.isEmpty then "-" else sep.intercalate l

def handleC12 : List String → String
  | ["bam", data, sched] =>
    match unhex data, parseSched sched with
    | some d, some sc =>
      let r := bamRecordsAll ⟨d, sc⟩
      let recs := r.1.1.map fun x => s!"{x.length}:{hex (bamName x)}"
      s!"recs={joinOr "," recs} end={endStr r.1.2}@{d.length - r.2.data.length}"
    | _, _ => "bad-op"
  | ["frames", data, sched] =>
    match unhex data, parseSched sched with
    | some d, some sc =>
      let r := bgzfBlocksAll ⟨d, sc⟩
      let bl := r.1.1.map fun x => s!"{x.1}:{x.2}"
      s!"blocks={joinOr "," bl} end={endStr r.1.2}@{d.length - r.2.data.length}"
    | _, _ => "bad-op"
  | ["fastq", fixed, data, sched, cap] =>
    match unhex data, parseSched sched, cap.toNat? with
    | some d, some sc, some cap =>
      if cap = 0 then "bad-op" else
      let r := fastqRecordsAll (fixed = "1") (BufR.ofSrc ⟨d, sc⟩ cap)
      let recs := r.1.1.map fun x =>
        s!"{x.1}:{hex x.2.name}:{hex x.2.description}:{hex x.2.sequence}:{hex x.2.quality}"
      s!"recs={joinOr "," recs} end={endStr r.1.2}@{d.length - r.2.stream.length}"
    | _, _, _ => "bad-op"
  | ["bed", fixed, data, sched, cap] =>
    match unhex data, parseSched sched, cap.toNat? with
    | some d, some sc, some cap =>
      if cap = 0 then "bad-op" else
      let fx := fixed = "1"
      let rec go (fuel : Nat) (b : BufR UInt8) (acc : List String) : String :=
        match fuel with
        | 0 => "err:fuel"
        | fuel+1 =>
          match bedReadRecord3 fx b with
          | (.error e, b') => s!"recs={joinOr "," acc.reverse} end={errStr e}@{d.length - b'.stream.length}"
          | (.ok (0, _), b') => s!"recs={joinOr "," acc.reverse} end=eof@{d.length - b'.stream.length}"
          | (.ok (n, fs), b') => go fuel b' (s!"{n}:{":".intercalate ((canonBedFields fs).map hex)}" :: acc)
      go (d.length + 1) (BufR.ofSrc ⟨d, sc⟩ cap) []
    | _, _, _ => "bad-op"
  | ["hdr", pfx, data, sched, cap] =>
    match unhex pfx, unhex data, parseSched sched, cap.toNat? with
    | some [pf], some d, some sc, some cap =>
      if cap = 0 then "bad-op" else
      match hdrLinesAll pf (BufR.ofSrc ⟨d, sc⟩ cap) with
      | (.ok ls, b') => s!"lines={joinOr "," (ls.map hex)} end=ok@{d.length - b'.stream.length}"
      | (.error e, b') => s!"lines=- end={errStr e}@{d.length - b'.stream.length}"
    | _, _, _, _ => "bad-op"
  | ["exact", data, sched, wants] =>
    match unhex data, parseSched sched, nats wants with
    | some d, some sc, some ws =>
      let rec goX (ws : List Nat) (s : Src UInt8) (acc : List String) : String :=
        match ws with
        | [] => s!"{joinOr "," acc.reverse} @{d.length - s.data.length}"
        | w :: ws =>
          match defaultReadExact s w with
          | (.ok bs, s') => goX ws s' (hex bs :: acc)
          | (.error e, s') => goX ws s' (errStr e :: acc)
      goX ws ⟨d, sc⟩ []
    | _, _, _ => "bad-op"
  | _ => "bad-op"

end Noodles.IO
