import Noodles.Io.BgzfSource
import Noodles.Io.LoopsProof
import Noodles.Io.MoreProof
/-!
# Proofs for `Noodles.Io.BgzfSource`

`Sim r₁ r₂`: two BGZF reader states with the same unread block bytes over the same undelivered
compressed bytes — whatever the two delivery schedules are.  Every operation of the reader answers the
same on `Sim` states and keeps them `Sim`; every loop built from `read` alone inherits that.
-/
namespace Noodles.IO.Comp
open Noodles.IO

def Sim (r₁ r₂ : BR) : Prop := r₁.buf = r₂.buf ∧ r₁.inner.data = r₂.inner.data

theorem Sim.rfl' (r : BR) : Sim r r := ⟨rfl, rfl⟩

theorem readBlock_irrel (dec : Bytes → Except Err Bytes) (fuel : Nat) (r₁ r₂ : BR) (h : Sim r₁ r₂) :
    (readBlock dec fuel r₁).1 = (readBlock dec fuel r₂).1 ∧
    Sim (readBlock dec fuel r₁).2 (readBlock dec fuel r₂).2 := by
  induction fuel generalizing r₁ r₂ with
  | zero => exact ⟨rfl, h⟩
  | succ fuel ih =>
    obtain ⟨hb, hd⟩ := h
    obtain ⟨e1, e2⟩ := readFrameInto_irrel r₁.inner r₂.inner hd
    rcases h1 : readFrameInto r₁.inner with ⟨f1, s1⟩
    rcases h2 : readFrameInto r₂.inner with ⟨f2, s2⟩
    rw [h1, h2] at e1 e2
    simp only at e1 e2
    subst e1
    simp only [readBlock, h1, h2]
    cases f1 with
    | none => exact ⟨rfl, rfl, e2⟩
    | err e => exact ⟨rfl, hb, e2⟩
    | frame f =>
      simp only
      cases parseBlock dec f with
      | error e => exact ⟨rfl, hb, e2⟩
      | ok d =>
        simp only
        split
        · exact ⟨rfl, rfl, e2⟩
        · exact ih _ _ ⟨rfl, e2⟩

theorem blockFuel_sim (r₁ r₂ : BR) (h : Sim r₁ r₂) : blockFuel r₁ = blockFuel r₂ := by
  unfold blockFuel; rw [h.2]

theorem fillBuf_irrel (dec : Bytes → Except Err Bytes) (r₁ r₂ : BR) (h : Sim r₁ r₂) :
    (fillBuf dec r₁).1 = (fillBuf dec r₂).1 ∧ Sim (fillBuf dec r₁).2 (fillBuf dec r₂).2 := by
  unfold fillBuf
  rw [blockFuel_sim r₁ r₂ h, h.1]
  split
  · obtain ⟨a, b⟩ := readBlock_irrel dec (blockFuel r₂) r₁ r₂ h
    rcases h1 : readBlock dec (blockFuel r₂) r₁ with ⟨x1, t1⟩
    rcases h2 : readBlock dec (blockFuel r₂) r₂ with ⟨x2, t2⟩
    rw [h1, h2] at a b
    simp only at a b
    subst a
    cases x1 with
    | error e => exact ⟨rfl, b⟩
    | ok u => exact ⟨by simp only [b.1], b⟩
  · exact ⟨rfl, h⟩

theorem consume_sim (n : Nat) (r₁ r₂ : BR) (h : Sim r₁ r₂) : Sim (consume n r₁) (consume n r₂) := by
  unfold consume Sim
  exact ⟨by simp only [h.1], h.2⟩

theorem read_irrel (dec : Bytes → Except Err Bytes) (n : Nat) (r₁ r₂ : BR) (h : Sim r₁ r₂) :
    (read dec r₁ n).1 = (read dec r₂ n).1 ∧ Sim (read dec r₁ n).2 (read dec r₂ n).2 := by
  unfold read
  rw [blockFuel_sim r₁ r₂ h, h.1]
  split
  · obtain ⟨a, b⟩ := readBlock_irrel dec (blockFuel r₂) r₁ r₂ h
    rcases h1 : readBlock dec (blockFuel r₂) r₁ with ⟨x1, t1⟩
    rcases h2 : readBlock dec (blockFuel r₂) r₂ with ⟨x2, t2⟩
    rw [h1, h2] at a b
    simp only at a b
    subst a
    cases x1 with
    | error e => exact ⟨rfl, b⟩
    | ok u => exact ⟨by simp only [b.1], rfl, b.2⟩
  · obtain ⟨a, b⟩ := fillBuf_irrel dec r₁ r₂ h
    rcases h1 : fillBuf dec r₁ with ⟨x1, t1⟩
    rcases h2 : fillBuf dec r₂ with ⟨x2, t2⟩
    rw [h1, h2] at a b
    simp only at a b
    subst a
    cases x1 with
    | error e => exact ⟨rfl, b⟩
    | ok w => exact ⟨rfl, consume_sim _ _ _ b⟩

theorem gatherB_irrel (dec : Bytes → Except Err Bytes) (fuel : Nat) (r₁ r₂ : BR) (want : Nat) (acc : Bytes)
    (h : Sim r₁ r₂) :
    (gatherB dec fuel r₁ want acc).1 = (gatherB dec fuel r₂ want acc).1 ∧
    Sim (gatherB dec fuel r₁ want acc).2 (gatherB dec fuel r₂ want acc).2 := by
  induction fuel generalizing r₁ r₂ want acc with
  | zero => exact ⟨rfl, h⟩
  | succ fuel ih =>
    unfold gatherB
    split
    · exact ⟨rfl, h⟩
    · obtain ⟨a, b⟩ := read_irrel dec want r₁ r₂ h
      rcases h1 : read dec r₁ want with ⟨x1, t1⟩
      rcases h2 : read dec r₂ want with ⟨x2, t2⟩
      rw [h1, h2] at a b
      simp only at a b
      subst a
      cases x1 with
      | error e =>
        cases e with
        | interrupted => exact ih _ _ _ _ b
        | eof => exact ⟨rfl, b⟩
        | invalidData => exact ⟨rfl, b⟩
        | fuel => exact ⟨rfl, b⟩
      | ok bs =>
        simp only
        split
        · exact ⟨rfl, b⟩
        · exact ih _ _ _ _ b

theorem readExactB_irrel (dec : Bytes → Except Err Bytes) (n : Nat) (r₁ r₂ : BR) (h : Sim r₁ r₂) :
    (readExactB dec r₁ n).1 = (readExactB dec r₂ n).1 ∧ Sim (readExactB dec r₁ n).2 (readExactB dec r₂ n).2 := by
  unfold readExactB
  rw [h.1]
  split
  · exact ⟨rfl, consume_sim _ _ _ h⟩
  · obtain ⟨a, b⟩ := gatherB_irrel dec (n + 1) r₁ r₂ n [] h
    rcases h1 : gatherB dec (n + 1) r₁ n [] with ⟨x1, t1⟩
    rcases h2 : gatherB dec (n + 1) r₂ n [] with ⟨x2, t2⟩
    rw [h1, h2] at a b
    simp only at a b
    subst a
    cases x1 with
    | error e => exact ⟨rfl, b⟩
    | ok bs =>
      simp only
      split
      · exact ⟨rfl, b⟩
      · exact ⟨rfl, b⟩

theorem readExactOrEofB_irrel (dec : Bytes → Except Err Bytes) (n : Nat) (r₁ r₂ : BR) (h : Sim r₁ r₂) :
    (readExactOrEofB dec r₁ n).1 = (readExactOrEofB dec r₂ n).1 ∧
    Sim (readExactOrEofB dec r₁ n).2 (readExactOrEofB dec r₂ n).2 := by
  unfold readExactOrEofB
  obtain ⟨a, b⟩ := gatherB_irrel dec (n + 1) r₁ r₂ n [] h
  rcases h1 : gatherB dec (n + 1) r₁ n [] with ⟨x1, t1⟩
  rcases h2 : gatherB dec (n + 1) r₂ n [] with ⟨x2, t2⟩
  rw [h1, h2] at a b
  simp only at a b
  subst a
  cases x1 with
  | error e => exact ⟨rfl, b⟩
  | ok bs =>
    simp only
    split
    · exact ⟨rfl, b⟩
    · exact ⟨rfl, b⟩

theorem takeReadToEndB_irrel (dec : Bytes → Except Err Bytes) (fuel : Nat) (r₁ r₂ : BR) (limit : Nat)
    (sizes : List Nat) (acc : Bytes) (h : Sim r₁ r₂) :
    (takeReadToEndB dec fuel r₁ limit sizes acc).1 = (takeReadToEndB dec fuel r₂ limit sizes acc).1 ∧
    Sim (takeReadToEndB dec fuel r₁ limit sizes acc).2 (takeReadToEndB dec fuel r₂ limit sizes acc).2 := by
  induction fuel generalizing r₁ r₂ limit sizes acc with
  | zero => exact ⟨rfl, h⟩
  | succ fuel ih =>
    unfold takeReadToEndB
    split
    · exact ⟨rfl, h⟩
    · generalize takeWantB limit sizes = want
      obtain ⟨a, b⟩ := read_irrel dec want r₁ r₂ h
      rcases h1 : read dec r₁ want with ⟨x1, t1⟩
      rcases h2 : read dec r₂ want with ⟨x2, t2⟩
      rw [h1, h2] at a b
      simp only at a b
      subst a
      cases x1 with
      | error e =>
        cases e with
        | interrupted => exact ih _ _ _ _ _ b
        | eof => exact ⟨rfl, b⟩
        | invalidData => exact ⟨rfl, b⟩
        | fuel => exact ⟨rfl, b⟩
      | ok bs =>
        simp only
        split
        · exact ⟨rfl, b⟩
        · exact ih _ _ _ _ _ b

theorem runBAt_irrel {β : Type} (dec : Bytes → Except Err Bytes) (sz : Nat → List Nat) (p : Prog β) (i : Nat)
    (r₁ r₂ : BR) (h : Sim r₁ r₂) :
    (runBAt dec sz p i r₁).1 = (runBAt dec sz p i r₂).1 ∧ Sim (runBAt dec sz p i r₁).2 (runBAt dec sz p i r₂).2 := by
  induction p generalizing r₁ r₂ i with
  | ret b => exact ⟨rfl, h⟩
  | fail e => exact ⟨rfl, h⟩
  | exact n k ih =>
    obtain ⟨a, b⟩ := readExactB_irrel dec n r₁ r₂ h
    simp only [runBAt]
    rw [a]
    exact ih _ i _ _ b
  | exactOrEof n k ih =>
    obtain ⟨a, b⟩ := readExactOrEofB_irrel dec n r₁ r₂ h
    simp only [runBAt]
    rw [a]
    exact ih _ i _ _ b
  | upTo n k ih =>
    obtain ⟨a, b⟩ := takeReadToEndB_irrel dec (n + 1) r₁ r₂ n (sz i) [] h
    simp only [runBAt]
    rcases h1 : takeReadToEndB dec (n + 1) r₁ n (sz i) [] with ⟨x1, t1⟩
    rcases h2 : takeReadToEndB dec (n + 1) r₂ n (sz i) [] with ⟨x2, t2⟩
    rw [h1, h2] at a b
    simp only at a b
    subst a
    cases x1 with
    | error e => exact ⟨rfl, b⟩
    | ok bs => exact ih _ (i + 1) _ _ b

theorem readScript_irrel (dec : Bytes → Except Err Bytes) (ns : List Nat) (r₁ r₂ : BR) (acc : List Bytes)
    (h : Sim r₁ r₂) :
    (readScript dec ns r₁ acc).1 = (readScript dec ns r₂ acc).1 ∧
    Sim (readScript dec ns r₁ acc).2 (readScript dec ns r₂ acc).2 := by
  induction ns generalizing r₁ r₂ acc with
  | nil => exact ⟨rfl, h⟩
  | cons n ns ih =>
    obtain ⟨a, b⟩ := read_irrel dec n r₁ r₂ h
    unfold readScript
    rcases h1 : read dec r₁ n with ⟨x1, t1⟩
    rcases h2 : read dec r₂ n with ⟨x2, t2⟩
    rw [h1, h2] at a b
    simp only at a b
    subst a
    cases x1 with
    | error e => exact ⟨rfl, b⟩
    | ok bs => exact ih _ _ _ b

/-! ## one `read` against the block structure of the file -/

/-- with unread bytes in the block, `read` hands out a prefix of them and does not touch the inner
reader -/
theorem read_buffered (dec : Bytes → Except Err Bytes) (r : BR) (n : Nat) (h : r.buf ≠ []) :
    read dec r n = (.ok (r.buf.take n), ⟨r.inner, r.buf.drop (r.buf.take n).length⟩) := by
  have he : r.buf.isEmpty = false := by
    cases hb : r.buf with
    | nil => exact absurd hb h
    | cons a t => rfl
  simp [read, fillBuf, consume, he]

/-- with the block used up, `read` is decided by the next non-empty block of the compressed bytes
that are left — under every schedule -/
theorem read_exhausted (dec : Bytes → Except Err Bytes) (data : Bytes) (sched : List Delivery) (n : Nat) :
    match nextBlock dec data with
    | .error e => (read dec ⟨⟨data, sched⟩, []⟩ n).1 = .error e
    | .ok (b, rest) =>
      (read dec ⟨⟨data, sched⟩, []⟩ n).2.inner.data = rest ∧
      if BGZF_MAX_ISIZE ≤ n then
        (read dec ⟨⟨data, sched⟩, []⟩ n).1 = .ok b ∧ (read dec ⟨⟨data, sched⟩, []⟩ n).2.buf = []
      else
        (read dec ⟨⟨data, sched⟩, []⟩ n).1 = .ok (b.take n) ∧
        (read dec ⟨⟨data, sched⟩, []⟩ n).2.buf = b.drop (b.take n).length := by
  obtain ⟨a, b⟩ := readBlock_irrel dec (data.length + 1) ⟨⟨data, sched⟩, []⟩ ⟨⟨data, []⟩, []⟩ ⟨rfl, rfl⟩
  unfold nextBlock
  rcases h2 : readBlock dec (data.length + 1) ⟨⟨data, []⟩, []⟩ with ⟨x2, t2⟩
  rcases h1 : readBlock dec (data.length + 1) ⟨⟨data, sched⟩, []⟩ with ⟨x1, t1⟩
  rw [h1, h2] at a b
  simp only at a b
  subst a
  obtain ⟨b1, b2⟩ := b
  cases x1 with
  | error e =>
    by_cases hn : BGZF_MAX_ISIZE ≤ n <;> simp [read, fillBuf, blockFuel, h1, hn]
  | ok u =>
    by_cases hn : BGZF_MAX_ISIZE ≤ n
    · simp [read, blockFuel, h1, hn, b1, b2]
    · simp [read, fillBuf, consume, blockFuel, h1, hn, b1, b2]

end Noodles.IO.Comp

namespace Noodles.IO.Comp
open Noodles.IO

theorem defaultReadExact_err (s : Src UInt8) (n : Nat) (e : Err) (s' : Src UInt8)
    (h : defaultReadExact s n = (.error e, s')) : e = .eof := by
  unfold defaultReadExact at h
  simp only at h
  split at h
  · simp at h
  · simp only [Prod.mk.injEq, Except.error.injEq] at h
    exact h.1.symm

theorem readFrameInto_not_intr (s : Src UInt8) : (readFrameInto s).1 ≠ .err .interrupted := by
  unfold readFrameInto
  rcases h1 : defaultReadExact s BGZF_HEADER_SIZE with ⟨x1, s1⟩
  cases x1 with
  | error e => simp
  | ok hdr =>
    simp only
    split
    · simp
    · rcases h2 : defaultReadExact s1 (leNat (hdr.drop 16) + 1 - BGZF_HEADER_SIZE) with ⟨x2, s2⟩
      cases x2 with
      | error e =>
        have := defaultReadExact_err _ _ _ _ h2
        subst this
        simp
      | ok rest => simp

theorem parseFrame_err (f : Bytes) (e : Err) (h : parseFrame f = .error e) : e = .invalidData := by
  unfold parseFrame at h
  split at h
  · simp at h; exact h.symm
  · simp only at h
    split at h <;> simp at h
    exact h.symm

theorem parseBlock_not_intr (dec : Bytes → Except Err Bytes) (hd : ∀ f, dec f ≠ .error .interrupted) (f : Bytes) :
    parseBlock dec f ≠ .error .interrupted := by
  unfold parseBlock
  cases hpf : parseFrame f with
  | error e =>
    have := parseFrame_err f e hpf
    subst this
    simp
  | ok isize =>
    have := hd f
    cases hdf : dec f with
    | error e => simp only; intro hc; rw [hdf] at this; simp at hc; subst hc; exact this rfl
    | ok d => simp only; split <;> simp

theorem readBlock_not_intr (dec : Bytes → Except Err Bytes) (hd : ∀ f, dec f ≠ .error .interrupted)
    (fuel : Nat) (r : BR) : (readBlock dec fuel r).1 ≠ .error .interrupted := by
  induction fuel generalizing r with
  | zero => simp [readBlock]
  | succ fuel ih =>
    have hf := readFrameInto_not_intr r.inner
    unfold readBlock
    rcases h1 : readFrameInto r.inner with ⟨x, s'⟩
    rw [h1] at hf
    cases x with
    | none => simp
    | err e => simp only; intro hc; simp at hc; subst hc; exact hf rfl
    | frame f =>
      simp only
      have hp := parseBlock_not_intr dec hd f
      cases hpf : parseBlock dec f with
      | error e => simp only; intro hc; simp at hc; subst hc; exact hp hpf
      | ok d =>
        simp only
        split
        · simp
        · exact ih _

theorem fillBuf_not_intr (dec : Bytes → Except Err Bytes) (hd : ∀ f, dec f ≠ .error .interrupted)
    (r : BR) : (fillBuf dec r).1 ≠ .error .interrupted := by
  have hb := readBlock_not_intr dec hd (blockFuel r) r
  unfold fillBuf
  split
  · rcases h1 : readBlock dec (blockFuel r) r with ⟨x, r'⟩
    rw [h1] at hb
    cases x with
    | error e => simp only at hb ⊢; intro hc; simp at hc; subst hc; exact hb rfl
    | ok u => simp
  · simp

theorem read_not_intr (dec : Bytes → Except Err Bytes) (hd : ∀ f, dec f ≠ .error .interrupted)
    (r : BR) (n : Nat) : (read dec r n).1 ≠ .error .interrupted := by
  unfold read
  split
  · have hb := readBlock_not_intr dec hd (blockFuel r) r
    rcases h1 : readBlock dec (blockFuel r) r with ⟨x, r'⟩
    rw [h1] at hb
    cases x with
    | error e => simp only at hb ⊢; intro hc; simp at hc; subst hc; exact hb rfl
    | ok u => simp
  · have hf := fillBuf_not_intr dec hd r
    rcases h1 : fillBuf dec r with ⟨x, r'⟩
    rw [h1] at hf
    cases x with
    | error e => simp only at hf ⊢; exact hf
    | ok w => simp

end Noodles.IO.Comp
