import Noodles.Io.AsyncMore
import Noodles.Io.AsyncLoopsProof
import Noodles.Io.MoreProof
/-!
# Proofs for `Noodles.Io.AsyncMore`, part 4: the async lazy SAM / VCF `read_record`
(one line, then the SYNC record reader on the slice) = the sync record reader on the stream
-/
namespace Noodles.IO.Async
open Noodles.IO
open Noodles.Bgzf.Async (Poll1 Poll)

variable {σ : Type}

/-! ## one line of a stream -/

/-- `l` is ONE line of a stream that goes on with `post`: `pre ++ [LF]` with no LF in `pre`, or — at
the end of the stream (`post = []`) — a string without LF -/
def CL (post : Bytes) : Bytes → Prop
  | [] => post = []
  | c :: r => if c = LF then r = [] else CL post r

/-- the delimiter predicate of `read_field` -/
abbrev pField : UInt8 → Bool := fun c => c == TAB || c == LF
/-- the delimiter predicate of `read_line` -/
abbrev pLine : UInt8 → Bool := fun c => c == LF

theorem CL_nil {post : Bytes} : CL post [] ↔ post = [] := Iff.rfl

theorem CL_cons_lf {post r : Bytes} : CL post (LF :: r) ↔ r = [] := by
  simp [CL]

theorem CL_cons_ne {post r : Bytes} {c : UInt8} (h : c ≠ LF) : CL post (c :: r) ↔ CL post r := by
  simp [CL, h]

theorem CL_of_findSplit_none (xs : Bytes) (h : findSplit pLine xs = none) : CL [] xs := by
  induction xs with
  | nil => rfl
  | cons x xs ih =>
    simp only [findSplit] at h
    by_cases hp : (x == LF) = true
    · rw [if_pos hp] at h; cases h
    · rw [if_neg hp] at h
      have hx : x ≠ LF := by intro e; exact hp (by simp [e])
      rw [CL_cons_ne hx]
      cases hf : findSplit pLine xs with
      | none => exact ih hf
      | some t => rw [hf] at h; cases h

theorem CL_of_findSplit_some (xs pre post : Bytes) (d : UInt8)
    (h : findSplit pLine xs = some (pre, d, post)) : CL post (pre ++ [d]) := by
  induction xs generalizing pre with
  | nil => simp [findSplit] at h
  | cons x xs ih =>
    simp only [findSplit] at h
    by_cases hp : (x == LF) = true
    · rw [if_pos hp] at h
      simp only [Option.some.injEq, Prod.mk.injEq] at h
      obtain ⟨rfl, rfl, rfl⟩ := h
      have : x = LF := by simpa using hp
      subst this
      simp [CL]
    · rw [if_neg hp] at h
      have hx : x ≠ LF := by intro e; exact hp (by simp [e])
      cases hf : findSplit pLine xs with
      | none => rw [hf] at h; cases h
      | some t =>
        obtain ⟨pre', d', post'⟩ := t
        rw [hf] at h
        simp only [Option.some.injEq, Prod.mk.injEq] at h
        obtain ⟨rfl, rfl, rfl⟩ := h
        rw [List.cons_append, CL_cons_ne hx]
        exact ih pre' hf

/-- the line that `read_until(LF)` reads is one line, and the stream is the line and the rest -/
theorem specUntil_CL (xs : Bytes) :
    CL (specUntil pLine xs).2 (specUntil pLine xs).1 ∧
    xs = (specUntil pLine xs).1 ++ (specUntil pLine xs).2 := by
  unfold specUntil
  cases hf : findSplit pLine xs with
  | none => exact ⟨CL_of_findSplit_none xs hf, by simp⟩
  | some t =>
    obtain ⟨pre, d, post⟩ := t
    exact ⟨CL_of_findSplit_some xs pre post d hf, by
      rw [findSplit_some_eq _ _ _ _ _ hf]; simp⟩

/-- a delimiter found in one line: after an LF nothing is left; after anything else, one line -/
theorem CL_findSplit_some (p : UInt8 → Bool) (post l a t : Bytes) (d : UInt8) (hc : CL post l)
    (h : findSplit p l = some (a, d, t)) : (d = LF → t = []) ∧ (d ≠ LF → CL post t) := by
  induction l generalizing a with
  | nil => simp [findSplit] at h
  | cons x xs ih =>
    simp only [findSplit] at h
    by_cases hp : p x = true
    · rw [if_pos hp] at h
      simp only [Option.some.injEq, Prod.mk.injEq] at h
      obtain ⟨rfl, rfl, rfl⟩ := h
      constructor
      · intro e; subst e; exact CL_cons_lf.1 hc
      · intro e; exact (CL_cons_ne e).1 hc
    · rw [if_neg hp] at h
      cases hf : findSplit p xs with
      | none => rw [hf] at h; cases h
      | some u =>
        obtain ⟨pre', d', post'⟩ := u
        rw [hf] at h
        simp only [Option.some.injEq, Prod.mk.injEq] at h
        obtain ⟨rfl, rfl, rfl⟩ := h
        by_cases hx : x = LF
        · subst hx
          have := CL_cons_lf.1 hc
          subst this
          simp [findSplit] at hf
        · exact ih pre' ((CL_cons_ne hx).1 hc) hf

/-- no LF in one line: the stream ends with it -/
theorem CL_findSplit_none (p : UInt8 → Bool) (hp : p LF = true) (post l : Bytes) (hc : CL post l)
    (h : findSplit p l = none) : post = [] := by
  induction l with
  | nil => exact hc
  | cons x xs ih =>
    simp only [findSplit] at h
    by_cases hx : x = LF
    · subst hx; rw [if_pos hp] at h; cases h
    · by_cases hpx : p x = true
      · rw [if_pos hpx] at h; cases h
      · rw [if_neg hpx] at h
        cases hf : findSplit p xs with
        | none => exact ih ((CL_cons_ne hx).1 hc) hf
        | some u => rw [hf] at h; cases h

theorem findSplit_some_p {α : Type} (p : α → Bool) (l a t : List α) (d : α)
    (h : findSplit p l = some (a, d, t)) : p d = true := by
  induction l generalizing a with
  | nil => simp [findSplit] at h
  | cons x xs ih =>
    simp only [findSplit] at h
    by_cases hp : p x = true
    · rw [if_pos hp] at h
      simp only [Option.some.injEq, Prod.mk.injEq] at h
      obtain ⟨rfl, rfl, rfl⟩ := h
      exact hp
    · rw [if_neg hp] at h
      cases hf : findSplit p xs with
      | none => rw [hf] at h; cases h
      | some u =>
        obtain ⟨pre', d', post'⟩ := u
        rw [hf] at h
        simp only [Option.some.injEq, Prod.mk.injEq] at h
        obtain ⟨rfl, rfl, rfl⟩ := h
        exact ih pre' hf

/-- `read_until(LF)` on one line followed by `post`: the line, and `post` is left -/
theorem specUntil_line (post l : Bytes) (hc : CL post l) :
    specUntil pLine (l ++ post) = (l, post) ∧ specUntil pLine l = (l, []) := by
  unfold specUntil
  cases hf : findSplit pLine l with
  | none =>
    have := CL_findSplit_none pLine rfl post l hc hf
    subst this
    simp [hf]
  | some u =>
    obtain ⟨a, d, t⟩ := u
    have hd : d = LF := by simpa using findSplit_some_p _ _ _ _ _ hf
    have ht := (CL_findSplit_some pLine post l a t d hc hf).1 hd
    subst ht
    rw [findSplit_append_some _ _ _ _ _ _ hf]
    have := findSplit_some_eq _ _ _ _ _ hf
    simp [this]

/-- `read_field` on one line followed by `post`: the same field, and `post` stays behind -/
theorem specField_line (post l : Bytes) (st : FieldSt) (hst : st.2.2 = none) (hc : CL post l) :
    specField st (l ++ post) = ((specField st l).1, (specField st l).2 ++ post) ∧
    ((specField st l).1.2.2 = some LF → (specField st l).2 = []) ∧
    ((specField st l).1.2.2 ≠ some LF → CL post (specField st l).2) := by
  unfold specField
  simp only [hst, Option.isSome_none, Bool.false_eq_true, if_false]
  cases hf : findSplit pField l with
  | none =>
    have := CL_findSplit_none pField rfl post l hc hf
    subst this
    simp [hf, CL]
  | some u =>
    obtain ⟨a, d, t⟩ := u
    obtain ⟨h1, h2⟩ := CL_findSplit_some pField post l a t d hc hf
    rw [findSplit_append_some _ _ _ _ _ _ hf]
    refine ⟨rfl, ?_, ?_⟩
    · intro e; simp only [Option.some.injEq] at e; exact h1 e
    · intro e; simp only [ne_eq, Option.some.injEq] at e; exact h2 e


/-! ## UTF-8 validity and ASCII delimiters -/

section Utf8
open Noodles.Index

theorem inRange_ascii (d : UInt8) (hd : d.toNat < 0x80) (lo hi : Nat) (hlo : 0x80 ≤ lo) :
    inRange d lo hi = false := by
  simp [inRange]; omega

theorem validUtf8_ascii_cons (b0 : UInt8) (r : Bytes) (h : b0.toNat < 0x80) :
    validUtf8 (b0 :: r) = validUtf8 r := by
  rw [validUtf8.eq_def]; simp [h]

theorem validUtf8_bad_cons (b0 : UInt8) (r : Bytes) (h1 : ¬b0.toNat < 128)
    (h2 : ¬inRange b0 194 223 = true) (h3 : ¬inRange b0 224 239 = true) (h4 : ¬inRange b0 240 244 = true) :
    validUtf8 (b0 :: r) = false := by
  rw [validUtf8.eq_def]; simp [h1, h2, h3, h4]

theorem validUtf8_app_ascii (d : UInt8) (hd : d.toNat < 0x80) (t a : Bytes) :
    validUtf8 (a ++ d :: t) = (validUtf8 a && validUtf8 t) := by
  have e1 : inRange d 0x80 0xBF = false := inRange_ascii d hd _ _ (by omega)
  have e2 : inRange d 0xA0 0xBF = false := inRange_ascii d hd _ _ (by omega)
  have e3 : inRange d 0x80 0x9F = false := inRange_ascii d hd _ _ (by omega)
  have e4 : inRange d 0x90 0xBF = false := inRange_ascii d hd _ _ (by omega)
  have e5 : inRange d 0x80 0x8F = false := inRange_ascii d hd _ _ (by omega)
  fun_induction validUtf8 a with
  | case1 => simp [validUtf8_ascii_cons _ _ hd]
  | case2 b0 r h ih => simp [validUtf8_ascii_cons _ _ h, ih]
  | case3 b0 h1 h2 b1 r1 ih => simp [validUtf8, h1, h2, ih, Bool.and_assoc]
  | case4 b0 r h1 h2 hx =>
    cases r with
    | nil => simp [validUtf8, h1, h2, e1]
    | cons b1 r1 => exact (hx b1 r1 rfl).elim
  | case5 b0 h1 h2 h3 b1 b2 r2 ih => simp [validUtf8, h1, h2, h3, ih, Bool.and_assoc]
  | case6 b0 r h1 h2 h3 hx =>
    match r, hx with
    | [], _ => cases t <;> simp [validUtf8, h1, h2, h3, e1, e2, e3]
    | [b1], _ => simp [validUtf8, h1, h2, h3, e1]
    | b1 :: b2 :: r2, hx => exact (hx b1 b2 r2 rfl).elim
  | case7 b0 h1 h2 h3 h4 b1 b2 b3 r3 ih => simp [validUtf8, h1, h2, h3, h4, ih, Bool.and_assoc]
  | case8 b0 r h1 h2 h3 h4 hx =>
    match r, hx with
    | [], _ => 
      match t with
      | [] => simp [validUtf8, h1, h2, h3, h4]
      | [_] => simp [validUtf8, h1, h2, h3, h4]
      | _ :: _ :: _ => simp [validUtf8, h1, h2, h3, h4, e1, e4, e5]
    | [b1], _ => cases t <;> simp [validUtf8, h1, h2, h3, h4, e1]
    | [b1, b2], _ => simp [validUtf8, h1, h2, h3, h4, e1]
    | b1 :: b2 :: b3 :: r3, hx => exact (hx b1 b2 b3 r3 rfl).elim
  | case9 b0 r h1 h2 h3 h4 => simp [validUtf8_bad_cons _ _ h1 h2 h3 h4]

theorem validUtf8_app_valid (x y : Bytes) (hx : validUtf8 x = true) :
    validUtf8 (x ++ y) = validUtf8 y := by
  fun_induction validUtf8 x with
  | case1 => simp
  | case2 b0 r h ih => simp [validUtf8_ascii_cons _ _ h, ih hx]
  | case3 b0 h1 h2 b1 r1 ih =>
    simp only [Bool.and_eq_true] at hx
    simp [validUtf8, h1, h2, ih hx.2, hx.1]
  | case4 => simp at hx
  | case5 b0 h1 h2 h3 b1 b2 r2 ih => 
    simp only [Bool.and_eq_true] at hx
    simp [validUtf8, h1, h2, h3, ih hx.2, hx.1.1, hx.1.2]
  | case6 => simp at hx
  | case7 b0 h1 h2 h3 h4 b1 b2 b3 r3 ih =>
    simp only [Bool.and_eq_true] at hx
    simp [validUtf8, h1, h2, h3, h4, ih hx.2, hx.1.1.1, hx.1.1.2, hx.1.2]
  | case8 => simp at hx
  | case9 => simp at hx

end Utf8

/-! ## the primitives in closed form -/

/-- what `read_field(reader, dst)` returns, from the final state of its scanner -/
def fieldOut (dst : Bytes) (s : FieldSt) : Bytes × Nat × Bool :=
  (if (s.2.2 == some LF) && (s.1.drop dst.length).getLast? == some CR then s.1.dropLast else s.1,
   s.2.1, s.2.2 == some LF)

theorem readFieldInto_spec (dst : Bytes) (b : BufR UInt8) (hc : 0 < b.cap) :
    (readFieldInto dst b).1 = .ok (fieldOut dst (specField (dst, 0, none) b.stream).1) ∧
    (readFieldInto dst b).2.stream = (specField (dst, 0, none) b.stream).2 ∧
    (readFieldInto dst b).2.cap = b.cap := by
  obtain ⟨a1, a2, a3⟩ :=
    scanLoop_spec fieldStep specField fieldStep_spec b.fuel (dst, 0, none) b hc (mu_lt_fuel b)
  unfold readFieldInto
  rcases e : scanLoop true fieldStep b.fuel (dst, 0, none) b with ⟨r, t⟩
  rw [e] at a1 a2 a3
  simp only at a1 a2 a3
  subst a1
  exact ⟨rfl, a2, a3⟩

theorem readLineInto_spec (dst : Bytes) (b : BufR UInt8) (hc : 0 < b.cap) :
    (readLineInto dst b).1 = .ok ((specUntil pLine b.stream).1.length,
      dst ++ stripEol (specUntil pLine b.stream).1) ∧
    (readLineInto dst b).2.stream = (specUntil pLine b.stream).2 ∧
    (readLineInto dst b).2.cap = b.cap := by
  obtain ⟨a1, a2, a3⟩ := readUntil_spec pLine b.fuel b [] hc (mu_lt_fuel b)
  simp only [List.nil_append] at a1
  simp only [readLineInto]
  rw [a1]
  exact ⟨rfl, a2, a3⟩

theorem readLineUtf8Into_spec (dst : Bytes) (b : BufR UInt8) (hc : 0 < b.cap) :
    (readLineUtf8Into dst b).1 =
      (if Noodles.Index.validUtf8 (specUntil pLine b.stream).1 then
        .ok ((specUntil pLine b.stream).1.length, dst ++ stripEol (specUntil pLine b.stream).1)
       else .error .invalidData) ∧
    (readLineUtf8Into dst b).2.stream = (specUntil pLine b.stream).2 ∧
    (readLineUtf8Into dst b).2.cap = b.cap := by
  obtain ⟨a1, a2, a3⟩ := readUntil_spec pLine b.fuel b [] hc (mu_lt_fuel b)
  simp only [List.nil_append] at a1
  simp only [readLineUtf8Into]
  rw [a1]
  by_cases hv : Noodles.Index.validUtf8 (specUntil pLine b.stream).1 = true
  · rw [if_pos hv, if_pos hv]; exact ⟨rfl, a2, a3⟩
  · rw [if_neg hv, if_neg hv]; exact ⟨rfl, a2, a3⟩

theorem specField_len_pos (dst l : Bytes) (hl : l ≠ []) : 0 < (specField (dst, 0, none) l).1.2.1 := by
  unfold specField
  simp only [Option.isSome_none, Bool.false_eq_true, if_false]
  cases hf : findSplit pField l with
  | none =>
    simp only [Nat.zero_add]
    cases l with
    | nil => exact (hl rfl).elim
    | cons x xs => simp
  | some u => obtain ⟨a, d, t⟩ := u; simp

theorem pField_ascii (d : UInt8) (h : pField d = true) : d.toNat < 0x80 := by
  simp only [Bool.or_eq_true, beq_iff_eq] at h
  rcases h with rfl | rfl <;> decide

/-- the bytes of a field that passed `from_utf8` (the buffer before it being valid) are valid, so
that the validity of the line is the validity of what comes after the field -/
theorem fieldOut_utf8 (dst l : Bytes) (hv : Noodles.Index.validUtf8 dst = true)
    (hd : Noodles.Index.validUtf8 (fieldOut dst (specField (dst, 0, none) l).1).1 = true) :
    Noodles.Index.validUtf8 l = Noodles.Index.validUtf8 (specField (dst, 0, none) l).2 := by
  unfold specField at hd ⊢
  simp only [Option.isSome_none, Bool.false_eq_true, if_false] at hd ⊢
  cases hf : findSplit pField l with
  | none =>
    rw [hf] at hd
    simp only [fieldOut] at hd
    have : (none == some LF) = false := rfl
    rw [this] at hd
    simp only [Bool.false_and, Bool.false_eq_true, if_false] at hd
    rw [validUtf8_app_valid _ _ hv] at hd
    simp [hd, Noodles.Index.validUtf8]
  | some u =>
    obtain ⟨a, d, t⟩ := u
    rw [hf] at hd
    simp only [fieldOut, List.drop_left] at hd
    have hl := findSplit_some_eq _ _ _ _ _ hf
    have hasc := pField_ascii d (findSplit_some_p _ _ _ _ _ hf)
    have ha : Noodles.Index.validUtf8 a = true := by
      by_cases hc : ((some d == some LF) && a.getLast? == some CR) = true
      · rw [if_pos hc] at hd
        simp only [Bool.and_eq_true, beq_iff_eq] at hc
        obtain ⟨ys, e⟩ := List.getLast?_eq_some_iff.1 hc.2
        rw [e] at hd ⊢
        rw [← List.append_assoc, List.dropLast_concat, validUtf8_app_valid _ _ hv] at hd
        rw [validUtf8_app_ascii CR (by decide), hd]; rfl
      · rw [if_neg hc] at hd
        rwa [validUtf8_app_valid _ _ hv] at hd
    rw [hl, validUtf8_app_ascii d hasc, ha, Bool.true_and]

/-! ## locality: the record reader on the stream and on its first line -/

/-- `b1` reads what `b2` reads and then `post` -/
structure Sim (post : Bytes) (b1 b2 : BufR UInt8) : Prop where
  c1 : 0 < b1.cap
  c2 : 0 < b2.cap
  st : b1.stream = b2.stream ++ post

/-- `read_field` on a stream and on its first line: the same field; the line's LF ends both -/
theorem readFieldInto_loc (dst post : Bytes) (b1 b2 : BufR UInt8) (hs : Sim post b1 b2)
    (hcl : CL post b2.stream) :
    ∃ d n e b1' b2', readFieldInto dst b1 = (.ok (d, n, e), b1') ∧
      readFieldInto dst b2 = (.ok (d, n, e), b2') ∧
      Sim post b1' b2' ∧ (e = true → b2'.stream = []) ∧ (e = false → CL post b2'.stream) ∧
      (b2.stream ≠ [] → 0 < n) ∧
      (Noodles.Index.validUtf8 dst = true → Noodles.Index.validUtf8 d = true →
        Noodles.Index.validUtf8 b2.stream = Noodles.Index.validUtf8 b2'.stream) := by
  obtain ⟨a1, a2, a3⟩ := readFieldInto_spec dst b1 hs.c1
  obtain ⟨c1, c2, c3⟩ := readFieldInto_spec dst b2 hs.c2
  obtain ⟨l1, l2, l3⟩ := specField_line post b2.stream (dst, 0, none) rfl hcl
  rw [hs.st, l1] at a1 a2
  simp only at a1 a2
  refine ⟨(fieldOut dst (specField (dst, 0, none) b2.stream).1).1,
    (fieldOut dst (specField (dst, 0, none) b2.stream).1).2.1,
    (fieldOut dst (specField (dst, 0, none) b2.stream).1).2.2,
    (readFieldInto dst b1).2, (readFieldInto dst b2).2, Prod.ext a1 rfl, Prod.ext c1 rfl,
    ⟨by rw [a3]; exact hs.c1, by rw [c3]; exact hs.c2, by rw [a2, c2]⟩, ?_, ?_, ?_, ?_⟩
  · intro he
    rw [c2]
    exact l2 (by simpa [fieldOut] using he)
  · intro he
    rw [c2]
    exact l3 (by simpa [fieldOut] using he)
  · intro hne
    exact specField_len_pos dst b2.stream hne
  · intro hv hd
    rw [c2]
    exact fieldOut_utf8 dst b2.stream hv hd

/-- a field reader on a stream and on its first line, with an invariant `I buffer rest-of-line` -/
def FieldLoc (fr : Bytes → RdB (Bytes × Nat × Bool)) (I : Bytes → Bytes → Prop) : Prop :=
  ∀ dst post b1 b2, Sim post b1 b2 → CL post b2.stream → I dst b2.stream →
    (∃ b1' b2', fr dst b1 = (.error .invalidData, b1') ∧ fr dst b2 = (.error .invalidData, b2')) ∨
    (∃ d n e b1' b2', fr dst b1 = (.ok (d, n, e), b1') ∧ fr dst b2 = (.ok (d, n, e), b2') ∧
      Sim post b1' b2' ∧ (e = true → b2'.stream = []) ∧ (e = false → CL post b2'.stream) ∧
      (b2.stream ≠ [] → 0 < n) ∧ I d b2'.stream)

/-- a line reader on a stream and on its first line -/
def LineLoc (lr : Bytes → RdB (Nat × Bytes)) (I : Bytes → Bytes → Prop) (Fin : Prop) : Prop :=
  ∀ dst post b1 b2, Sim post b1 b2 → CL post b2.stream → I dst b2.stream →
    (∃ b1' b2', lr dst b1 = (.error .invalidData, b1') ∧ lr dst b2 = (.error .invalidData, b2')) ∨
    (∃ m d b1' b2', lr dst b1 = (.ok (m, d), b1') ∧ lr dst b2 = (.ok (m, d), b2') ∧
      b1'.stream = post ∧ Fin)

/-! ### the record reader over any field and line reader -/

def reqField (fr : Bytes → RdB (Bytes × Nat × Bool)) (dst : Bytes) : RdB (Bytes × Nat) :=
  RdB.bind (fr dst) fun (d, len, isEol) =>
    if isEol then RdB.fail .invalidData else RdB.pure (d, len)

def reqFields (fr : Bytes → RdB (Bytes × Nat × Bool)) :
    Nat → Bytes → List Nat → Nat → RdB (Bytes × List Nat × Nat)
  | 0, dst, ends, len => RdB.pure (dst, ends, len)
  | k+1, dst, ends, len =>
    RdB.bind (reqField fr dst) fun (d, n) => reqFields fr k d (d.length :: ends) (len + n)

def genRecord (fr : Bytes → RdB (Bytes × Nat × Bool)) (lr : Bytes → RdB (Nat × Bytes)) (k : Nat) :
    RdB LazyRec :=
  RdB.bind (reqFields fr k [] [] 0) fun (d, ends, len) =>
  RdB.bind (fr d) fun (d', n, isEol) =>
    if isEol then RdB.pure ⟨len + n, d', (d'.length :: ends).reverse⟩
    else RdB.bind (lr d') fun (m, d'') => RdB.pure ⟨len + n + m, d'', (d'.length :: ends).reverse⟩

theorem samRequiredFields_eq (k : Nat) (dst : Bytes) (ends : List Nat) (len : Nat) :
    samRequiredFields k dst ends len = reqFields readFieldInto k dst ends len := by
  induction k generalizing dst ends len with
  | zero => rfl
  | succ k ih =>
    simp only [samRequiredFields, reqFields]
    show RdB.bind (reqField readFieldInto dst) _ = _
    congr 1
    funext x
    exact ih _ _ _

theorem samReadRecord_eq : samReadRecord = genRecord readFieldInto readLineInto 10 := by
  unfold samReadRecord genRecord
  rw [samRequiredFields_eq]

theorem vcfRequiredFields_eq (k : Nat) (dst : Bytes) (ends : List Nat) (len : Nat) :
    vcfRequiredFields k dst ends len = reqFields vcfReadFieldInto k dst ends len := by
  induction k generalizing dst ends len with
  | zero => rfl
  | succ k ih =>
    simp only [vcfRequiredFields, reqFields]
    show RdB.bind (reqField vcfReadFieldInto dst) _ = _
    congr 1
    funext x
    exact ih _ _ _

theorem vcfReadRecord_eq : vcfReadRecord = genRecord vcfReadFieldInto readLineUtf8Into 7 := by
  unfold vcfReadRecord genRecord
  rw [vcfRequiredFields_eq]

theorem reqFields_loc (fr : Bytes → RdB (Bytes × Nat × Bool)) (I : Bytes → Bytes → Prop)
    (hf : FieldLoc fr I) (k : Nat) (dst : Bytes) (ends : List Nat) (len : Nat) (post : Bytes)
    (b1 b2 : BufR UInt8) (hs : Sim post b1 b2) (hcl : CL post b2.stream) (hI : I dst b2.stream) :
    (∃ b1' b2', reqFields fr k dst ends len b1 = (.error .invalidData, b1') ∧
      reqFields fr k dst ends len b2 = (.error .invalidData, b2')) ∨
    (∃ d ends' len' b1' b2', reqFields fr k dst ends len b1 = (.ok (d, ends', len'), b1') ∧
      reqFields fr k dst ends len b2 = (.ok (d, ends', len'), b2') ∧
      Sim post b1' b2' ∧ CL post b2'.stream ∧ I d b2'.stream ∧ len ≤ len' ∧
      (0 < k → b2.stream ≠ [] → 0 < len')) := by
  induction k generalizing dst ends len b1 b2 with
  | zero =>
    exact .inr ⟨dst, ends, len, b1, b2, rfl, rfl, hs, hcl, hI, Nat.le_refl _, fun h => absurd h (by omega)⟩
  | succ k ih =>
    simp only [reqFields, reqField, RdB.bind]
    rcases hf dst post b1 b2 hs hcl hI with ⟨b1', b2', e1, e2⟩ | ⟨d, n, e, b1', b2', e1, e2, hs', he1, he0, hn, hI'⟩
    · rw [e1, e2]
      exact .inl ⟨b1', b2', rfl, rfl⟩
    · rw [e1, e2]
      cases e with
      | true => exact .inl ⟨b1', b2', rfl, rfl⟩
      | false =>
        simp only [Bool.false_eq_true, if_false, RdB.pure]
        rcases ih d (d.length :: ends) (len + n) b1' b2' hs' (he0 rfl) hI' with
          ⟨c1, c2, f1, f2⟩ | ⟨d2, ends2, len2, c1, c2, f1, f2, g1, g2, g3, g4, g5⟩
        · exact .inl ⟨c1, c2, f1, f2⟩
        · refine .inr ⟨d2, ends2, len2, c1, c2, f1, f2, g1, g2, g3, by omega, ?_⟩
          intro _ hne
          have := hn hne
          omega

/-- **locality of the record reader**: on a stream and on its first line the same result; on success
the stream is left at the end of the line, and a non-empty line is a non-zero `len` -/
theorem genRecord_loc (fr : Bytes → RdB (Bytes × Nat × Bool)) (lr : Bytes → RdB (Nat × Bytes))
    (I : Bytes → Bytes → Prop) (Fin : Prop) (hf : FieldLoc fr I) (hl : LineLoc lr I Fin)
    (hfin : ∀ d, I d [] → Fin) (k : Nat) (hk : 0 < k) (post : Bytes)
    (b1 b2 : BufR UInt8) (hs : Sim post b1 b2) (hcl : CL post b2.stream) (hI : I [] b2.stream) :
    (genRecord fr lr k b1).1 = (genRecord fr lr k b2).1 ∧
    (∀ e, (genRecord fr lr k b1).1 = .error e → e = .invalidData) ∧
    (∀ r, (genRecord fr lr k b1).1 = .ok r →
      (genRecord fr lr k b1).2.stream = post ∧ (b2.stream ≠ [] → r.len ≠ 0) ∧ Fin) := by
  rcases reqFields_loc fr I hf k [] [] 0 post b1 b2 hs hcl hI with
    ⟨c1, c2, f1, f2⟩ | ⟨d, ends, len, c1, c2, f1, f2, hs1, hcl1, hI1, _, hpos⟩
  · have h1 : genRecord fr lr k b1 = (.error .invalidData, c1) := by
      simp only [genRecord, RdB.bind, f1]
    have h2 : genRecord fr lr k b2 = (.error .invalidData, c2) := by
      simp only [genRecord, RdB.bind, f2]
    rw [h1, h2]
    exact ⟨rfl, fun e he => by cases he; rfl, fun r hr => by cases hr⟩
  · rcases hf d post c1 c2 hs1 hcl1 hI1 with
      ⟨b1', b2', e1, e2⟩ | ⟨d', n, e, b1', b2', e1, e2, hs', he1, he0, hn, hI'⟩
    · have h1 : genRecord fr lr k b1 = (.error .invalidData, b1') := by
        simp only [genRecord, RdB.bind, f1, e1]
      have h2 : genRecord fr lr k b2 = (.error .invalidData, b2') := by
        simp only [genRecord, RdB.bind, f2, e2]
      rw [h1, h2]
      exact ⟨rfl, fun e he => by cases he; rfl, fun r hr => by cases hr⟩
    · cases e with
      | true =>
        have h1 : genRecord fr lr k b1 = (.ok ⟨len + n, d', (d'.length :: ends).reverse⟩, b1') := by
          simp only [genRecord, RdB.bind, f1, e1, if_true, RdB.pure]
        have h2 : genRecord fr lr k b2 = (.ok ⟨len + n, d', (d'.length :: ends).reverse⟩, b2') := by
          simp only [genRecord, RdB.bind, f2, e2, if_true, RdB.pure]
        rw [h1, h2]
        refine ⟨rfl, fun e he => (by cases he), fun r hr => ?_⟩
        cases hr
        refine ⟨by rw [hs'.st, he1 rfl]; rfl, fun hne => ?_, hfin d' (by rw [← he1 rfl]; exact hI')⟩
        have := hpos hk hne
        simp only; omega
      | false =>
        rcases hl d' post b1' b2' hs' (he0 rfl) hI' with
          ⟨t1, t2, g1, g2⟩ | ⟨m, d'', t1, t2, g1, g2, g3, g4⟩
        · have h1 : genRecord fr lr k b1 = (.error .invalidData, t1) := by
            simp only [genRecord, RdB.bind, f1, e1, Bool.false_eq_true, if_false, g1]
          have h2 : genRecord fr lr k b2 = (.error .invalidData, t2) := by
            simp only [genRecord, RdB.bind, f2, e2, Bool.false_eq_true, if_false, g2]
          rw [h1, h2]
          exact ⟨rfl, fun e he => by cases he; rfl, fun r hr => by cases hr⟩
        · have h1 : genRecord fr lr k b1 =
              (.ok ⟨len + n + m, d'', (d'.length :: ends).reverse⟩, t1) := by
            simp only [genRecord, RdB.bind, f1, e1, Bool.false_eq_true, if_false, g1, RdB.pure]
          have h2 : genRecord fr lr k b2 =
              (.ok ⟨len + n + m, d'', (d'.length :: ends).reverse⟩, t2) := by
            simp only [genRecord, RdB.bind, f2, e2, Bool.false_eq_true, if_false, g2, RdB.pure]
          rw [h1, h2]
          refine ⟨rfl, fun e he => (by cases he), fun r hr => ?_⟩
          cases hr
          refine ⟨g3, fun hne => ?_, g4⟩
          have := hpos hk hne
          simp only; omega

/-! ### SAM -/

theorem readFieldInto_fieldLoc : FieldLoc readFieldInto (fun _ _ => True) := by
  intro dst post b1 b2 hs hcl _
  obtain ⟨d, n, e, b1', b2', e1, e2, hs', he1, he0, hn, _⟩ := readFieldInto_loc dst post b1 b2 hs hcl
  exact .inr ⟨d, n, e, b1', b2', e1, e2, hs', he1, he0, hn, trivial⟩

theorem readLineInto_lineLoc : LineLoc readLineInto (fun _ _ => True) True := by
  intro dst post b1 b2 hs hcl _
  obtain ⟨a1, a2, _⟩ := readLineInto_spec dst b1 hs.c1
  obtain ⟨c1, c2, _⟩ := readLineInto_spec dst b2 hs.c2
  obtain ⟨l1, l2⟩ := specUntil_line post b2.stream hcl
  rw [hs.st, l1] at a1 a2
  rw [l2] at c1
  exact .inr ⟨_, _, (readLineInto dst b1).2, (readLineInto dst b2).2, Prod.ext a1 rfl,
    Prod.ext c1 rfl, a2, trivial⟩

/-! ### VCF -/

/-- the invariant of the VCF reader on the line `l0`: the buffer is valid UTF-8, and the line is
valid iff what is left of it is -/
def Iv (l0 dst t : Bytes) : Prop :=
  Noodles.Index.validUtf8 dst = true ∧ Noodles.Index.validUtf8 t = Noodles.Index.validUtf8 l0

theorem vcfReadFieldInto_fieldLoc (l0 : Bytes) : FieldLoc vcfReadFieldInto (Iv l0) := by
  intro dst post b1 b2 hs hcl hI
  obtain ⟨d, n, e, b1', b2', e1, e2, hs', he1, he0, hn, hu⟩ := readFieldInto_loc dst post b1 b2 hs hcl
  by_cases hv : Noodles.Index.validUtf8 d = true
  · refine .inr ⟨d, n, e, b1', b2', ?_, ?_, hs', he1, he0, hn, hv, ?_⟩
    · simp only [vcfReadFieldInto, RdB.bind, e1, hv, if_true, RdB.pure]
    · simp only [vcfReadFieldInto, RdB.bind, e2, hv, if_true, RdB.pure]
    · rw [← hu hI.1 hv]; exact hI.2
  · refine .inl ⟨b1', b2', ?_, ?_⟩
    · simp only [vcfReadFieldInto, RdB.bind, e1, hv, Bool.false_eq_true, if_false, RdB.fail]
    · simp only [vcfReadFieldInto, RdB.bind, e2, hv, Bool.false_eq_true, if_false, RdB.fail]

theorem readLineUtf8Into_lineLoc (l0 : Bytes) :
    LineLoc readLineUtf8Into (Iv l0) (Noodles.Index.validUtf8 l0 = true) := by
  intro dst post b1 b2 hs hcl hI
  obtain ⟨a1, a2, _⟩ := readLineUtf8Into_spec dst b1 hs.c1
  obtain ⟨c1, c2, _⟩ := readLineUtf8Into_spec dst b2 hs.c2
  obtain ⟨l1, l2⟩ := specUntil_line post b2.stream hcl
  rw [hs.st, l1] at a1 a2
  rw [l2] at c1
  simp only at a1 a2 c1
  by_cases hv : Noodles.Index.validUtf8 b2.stream = true
  · rw [if_pos hv] at a1 c1
    exact .inr ⟨_, _, (readLineUtf8Into dst b1).2, (readLineUtf8Into dst b2).2, Prod.ext a1 rfl,
      Prod.ext c1 rfl, a2, by rw [← hI.2]; exact hv⟩
  · rw [if_neg hv] at a1 c1
    exact .inl ⟨(readLineUtf8Into dst b1).2, (readLineUtf8Into dst b2).2, Prod.ext a1 rfl,
      Prod.ext c1 rfl⟩

/-! ### the two record readers -/

/-- what the async reader needs of the sync record reader `rd`: on a stream and on its first line
the same result (an error is `InvalidData`); on success the stream is left after the line, a
non-empty line gives a non-zero `len`, and (`utf8`) the line is valid UTF-8 -/
def RecLoc (utf8 : Bool) (rd : RdB LazyRec) : Prop :=
  ∀ post b1 b2, Sim post b1 b2 → CL post b2.stream →
    (rd b1).1 = (rd b2).1 ∧ (∀ e, (rd b1).1 = .error e → e = .invalidData) ∧
    (∀ r, (rd b1).1 = .ok r → (rd b1).2.stream = post ∧ (b2.stream ≠ [] → r.len ≠ 0) ∧
      (utf8 = true → Noodles.Index.validUtf8 b2.stream = true))

theorem samReadRecord_recLoc : RecLoc false samReadRecord := by
  intro post b1 b2 hs hcl
  rw [samReadRecord_eq]
  obtain ⟨p1, p2, p3⟩ := genRecord_loc readFieldInto readLineInto (fun _ _ => True) True
    readFieldInto_fieldLoc readLineInto_lineLoc (fun _ _ => trivial) 10 (by decide) post b1 b2 hs hcl
    trivial
  exact ⟨p1, p2, fun r hr => ⟨(p3 r hr).1, (p3 r hr).2.1, fun h => by cases h⟩⟩

theorem vcfReadRecord_recLoc : RecLoc true vcfReadRecord := by
  intro post b1 b2 hs hcl
  rw [vcfReadRecord_eq]
  obtain ⟨p1, p2, p3⟩ := genRecord_loc vcfReadFieldInto readLineUtf8Into (Iv b2.stream)
    (Noodles.Index.validUtf8 b2.stream = true)
    (vcfReadFieldInto_fieldLoc _) (readLineUtf8Into_lineLoc _)
    (fun d hd => by rw [← hd.2]; rfl) 7 (by decide) post b1 b2 hs hcl ⟨rfl, rfl⟩
  exact ⟨p1, p2, fun r hr => ⟨(p3 r hr).1, (p3 r hr).2.1, fun _ => (p3 r hr).2.2⟩⟩

theorem sliceBuf_stream (l : Bytes) : (sliceBuf l).stream = l := by
  simp [sliceBuf, BufR.stream]

theorem reqFields_nil (fr : Bytes → RdB (Bytes × Nat × Bool))
    (h : fr [] (sliceBuf []) = (.ok ([], 0, false), sliceBuf [])) (k : Nat) (ends : List Nat) :
    ∃ ends', reqFields fr k [] ends 0 (sliceBuf []) = (.ok ([], ends', 0), sliceBuf []) := by
  induction k generalizing ends with
  | zero => exact ⟨ends, rfl⟩
  | succ k ih =>
    obtain ⟨ends', he⟩ := ih (([] : Bytes).length :: ends)
    refine ⟨ends', ?_⟩
    simp only [reqFields, reqField, RdB.bind, h, Bool.false_eq_true, if_false, RdB.pure, Nat.add_zero]
    exact he

/-- at the end of the stream: `Ok(0)` -/
theorem genRecord_nil (fr : Bytes → RdB (Bytes × Nat × Bool)) (lr : Bytes → RdB (Nat × Bytes))
    (h : fr [] (sliceBuf []) = (.ok ([], 0, false), sliceBuf []))
    (hl : lr [] (sliceBuf []) = (.ok (0, []), sliceBuf [])) (k : Nat) :
    ∃ r, (genRecord fr lr k (sliceBuf [])).1 = .ok r ∧ r.len = 0 := by
  obtain ⟨ends', he⟩ := reqFields_nil fr h k []
  refine ⟨⟨0, [], (([] : Bytes).length :: ends').reverse⟩, ?_, rfl⟩
  simp only [genRecord, RdB.bind, he, h, Bool.false_eq_true, if_false, hl, RdB.pure, Nat.add_zero]

theorem samReadRecord_nil : ∃ r, (samReadRecord (sliceBuf [])).1 = .ok r ∧ r.len = 0 := by
  rw [samReadRecord_eq]
  exact genRecord_nil _ _ rfl rfl 10

theorem vcfReadRecord_nil : ∃ r, (vcfReadRecord (sliceBuf [])).1 = .ok r ∧ r.len = 0 := by
  rw [vcfReadRecord_eq]
  exact genRecord_nil _ _ rfl rfl 7

/-! ## the async reader -/

/-- the async lazy `read_record` over any sync record reader that is local -/
theorem lazyReadRecordA_eq_sync_gen (utf8 : Bool) (rd : RdB LazyRec) (hirr : IrrelB rd)
    (hloc : RecLoc utf8 rd) (hnil : ∃ r, (rd (sliceBuf [])).1 = .ok r ∧ r.len = 0)
    (A : ARead σ UInt8) (hA : A.Lawful) (cap : Nat) (hc : 0 < cap)
    (b : ABuf σ UInt8) (bs : BufR UInt8) (hcs : 0 < bs.cap) (h : b.stream A = bs.stream) :
    (lazyReadRecordA utf8 rd A cap b).1 = (rd bs).1.map lazyOpt ∧
    (∀ x, (rd bs).1 = .ok x → (lazyReadRecordA utf8 rd A cap b).2.stream A = (rd bs).2.stream) ∧
    0 < (rd bs).2.cap := by
  obtain ⟨a1, a2⟩ := scanA_spec A hA cap hc (untilStep pLine) (specUntilSt pLine)
    (untilStep_spec _) [] b
  obtain ⟨hcl, hxs⟩ := specUntil_CL bs.stream
  have hcap := (hirr bs bs hcs hcs rfl).2.2.1
  unfold lazyReadRecordA
  rcases hsc : scanA A cap (untilStep pLine) [] b with ⟨r, b'⟩
  rw [hsc] at a1 a2
  simp only [specUntilSt, List.nil_append, h] at a1 a2
  subst a1
  simp only
  have hsim : Sim (specUntil pLine bs.stream).2 bs (sliceBuf (specUntil pLine bs.stream).1) :=
    ⟨hcs, Nat.one_pos, by rw [sliceBuf_stream]; exact hxs⟩
  obtain ⟨p1, p2, p3⟩ := hloc _ bs _ hsim (by rw [sliceBuf_stream]; exact hcl)
  rw [sliceBuf_stream] at p3
  by_cases hu : (utf8 && !Noodles.Index.validUtf8 (specUntil pLine bs.stream).1) = true
  · rw [if_pos hu]
    cases hr : (rd bs).1 with
    | error e =>
      have := p2 e hr
      subst this
      exact ⟨rfl, fun x hx => (by cases hx), hcap⟩
    | ok r =>
      exfalso
      simp only [Bool.and_eq_true, Bool.not_eq_true'] at hu
      have := (p3 r hr).2.2 hu.1
      rw [this] at hu
      exact absurd hu.2 (by decide)
  · rw [if_neg hu]
    by_cases hl : (specUntil pLine bs.stream).1.length = 0
    · rw [if_pos hl]
      have hl' := List.eq_nil_of_length_eq_zero hl
      obtain ⟨r0, hr0, hlen⟩ := hnil
      rw [hl', hr0] at p1
      refine ⟨?_, fun x hx => ?_, hcap⟩
      · rw [p1]
        show Except.ok none = Except.ok (lazyOpt r0)
        simp [lazyOpt, hlen]
      · rw [a2, (p3 x hx).1]
    · rw [if_neg hl]
      have hne : (specUntil pLine bs.stream).1 ≠ [] := fun e => hl (by rw [e]; rfl)
      rcases hrd : rd (sliceBuf (specUntil pLine bs.stream).1) with ⟨res, t⟩
      rw [hrd] at p1
      simp only at p1
      cases res with
      | error e =>
        simp only
        refine ⟨by rw [p1]; rfl, fun x hx => ?_, hcap⟩
        rw [p1] at hx; cases hx
      | ok r =>
        simp only
        refine ⟨?_, fun x hx => ?_, hcap⟩
        · rw [p1]
          show Except.ok (some r) = Except.ok (lazyOpt r)
          have := (p3 r p1).2.1 hne
          simp [lazyOpt, this]
        · rw [a2, (p3 x hx).1]

/-- the record loop over any record reader for which async `read_record` = sync `read_record` -/
theorem lazyRecordsA_eq_sync_gen (utf8 : Bool) (rd : RdB LazyRec) (A : ARead σ UInt8) (cap : Nat)
    (hrec : ∀ (b : ABuf σ UInt8) (bs : BufR UInt8), 0 < bs.cap → b.stream A = bs.stream →
      (lazyReadRecordA utf8 rd A cap b).1 = (rd bs).1.map lazyOpt ∧
      (∀ x, (rd bs).1 = .ok x → (lazyReadRecordA utf8 rd A cap b).2.stream A = (rd bs).2.stream) ∧
      0 < (rd bs).2.cap)
    (fuel : Nat) (b : ABuf σ UInt8) (bs : BufR UInt8) (acc : List LazyRec) (hcs : 0 < bs.cap)
    (h : b.stream A = bs.stream) :
    .ok (lazyRecordsA utf8 rd A cap fuel b acc).1 = (lazyRecords rd fuel acc bs).1 := by
  induction fuel generalizing b bs acc with
  | zero => rfl
  | succ fuel ih =>
    obtain ⟨q1, q2, q3⟩ := hrec b bs hcs h
    simp only [lazyRecordsA, lazyRecords, RdB.bind, RdB.attempt]
    rcases h1 : lazyReadRecordA utf8 rd A cap b with ⟨r1, t1⟩
    rcases h2 : rd bs with ⟨r2, t2⟩
    rw [h1, h2] at q1 q2
    rw [h2] at q3
    simp only at q1 q2 q3
    subst q1
    cases r2 with
    | error e => rfl
    | ok r =>
      by_cases hz : r.len = 0
      · have : Except.map lazyOpt (Except.ok r : Except Err LazyRec) = .ok none := by
          show Except.ok (lazyOpt r) = _
          simp [lazyOpt, hz]
        rw [this]
        simp only [hz, if_true]
        rfl
      · have : Except.map lazyOpt (Except.ok r : Except Err LazyRec) = .ok (some r) := by
          show Except.ok (lazyOpt r) = _
          simp [lazyOpt, hz]
        rw [this]
        simp only [hz, if_false]
        exact ih t1 t2 (r :: acc) q3 (q2 r rfl)

theorem lazyReadRecordA_sam_eq_sync (A : ARead σ UInt8) (hA : A.Lawful) (cap : Nat) (hc : 0 < cap)
    (b : ABuf σ UInt8) (bs : BufR UInt8) (hcs : 0 < bs.cap) (h : b.stream A = bs.stream) :
    (lazyReadRecordA false samReadRecord A cap b).1 = (samReadRecord bs).1.map lazyOpt ∧
    (∀ x, (samReadRecord bs).1 = .ok x →
      (lazyReadRecordA false samReadRecord A cap b).2.stream A = (samReadRecord bs).2.stream) ∧
    0 < (samReadRecord bs).2.cap :=
  lazyReadRecordA_eq_sync_gen false samReadRecord samReadRecord_irrelB samReadRecord_recLoc
    samReadRecord_nil A hA cap hc b bs hcs h

theorem lazyReadRecordA_vcf_eq_sync (A : ARead σ UInt8) (hA : A.Lawful) (cap : Nat) (hc : 0 < cap)
    (b : ABuf σ UInt8) (bs : BufR UInt8) (hcs : 0 < bs.cap) (h : b.stream A = bs.stream) :
    (lazyReadRecordA true vcfReadRecord A cap b).1 = (vcfReadRecord bs).1.map lazyOpt ∧
    (∀ x, (vcfReadRecord bs).1 = .ok x →
      (lazyReadRecordA true vcfReadRecord A cap b).2.stream A = (vcfReadRecord bs).2.stream) ∧
    0 < (vcfReadRecord bs).2.cap :=
  lazyReadRecordA_eq_sync_gen true vcfReadRecord vcfReadRecord_irrelB vcfReadRecord_recLoc
    vcfReadRecord_nil A hA cap hc b bs hcs h

/-- the record streams: the same records in the same order and the same ending -/
theorem lazyRecordsA_sam_eq_sync (A : ARead σ UInt8) (hA : A.Lawful) (cap : Nat) (hc : 0 < cap)
    (fuel : Nat) (b : ABuf σ UInt8) (bs : BufR UInt8) (acc : List LazyRec) (hcs : 0 < bs.cap)
    (h : b.stream A = bs.stream) :
    .ok (lazyRecordsA false samReadRecord A cap fuel b acc).1 = (lazyRecords samReadRecord fuel acc bs).1 :=
  lazyRecordsA_eq_sync_gen false samReadRecord A cap
    (fun b bs hcs h => lazyReadRecordA_sam_eq_sync A hA cap hc b bs hcs h) fuel b bs acc hcs h

theorem lazyRecordsA_vcf_eq_sync (A : ARead σ UInt8) (hA : A.Lawful) (cap : Nat) (hc : 0 < cap)
    (fuel : Nat) (b : ABuf σ UInt8) (bs : BufR UInt8) (acc : List LazyRec) (hcs : 0 < bs.cap)
    (h : b.stream A = bs.stream) :
    .ok (lazyRecordsA true vcfReadRecord A cap fuel b acc).1 = (lazyRecords vcfReadRecord fuel acc bs).1 :=
  lazyRecordsA_eq_sync_gen true vcfReadRecord A cap
    (fun b bs hcs h => lazyReadRecordA_vcf_eq_sync A hA cap hc b bs hcs h) fuel b bs acc hcs h

end Noodles.IO.Async
