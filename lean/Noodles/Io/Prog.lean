import Noodles.Io.Loops
/-!
# Readers that touch their source only through `read_exact`-style calls (model for C12, part 2)

The binary readers of noodles that are not framing loops of their own — the BCF record reader, the
CRAM file definition and container readers, the BAI / CSI / tabix / gzi index readers — never look at
a `read()` return value themselves: every byte comes in through

* `Read::read_exact(&mut [0; n])` (std's default loop, or noodles-bgzf `default_read_exact`; retries
  `Interrupted`, `UnexpectedEof` when the source ends early) — `Prog.exact`,
* noodles-bam / noodles-bcf `read_exact_or_eof` (the same loop; a source that ends before the FIRST
  byte is not an error) — `Prog.exactOrEof`,
* reading a `Take(n)` adaptor to its end — `reader.take(n).read_to_end(buf)`, the body of
  `read_exact_to_vec` (noodles-bam `io/reader.rs`, noodles-bcf `io/reader.rs`; inline in noodles-cram
  `io/reader/container.rs::read_container`), and `BufReader::new(reader.take(n))` + `read_until` (the
  reference sequence names of tabix / CSI): the next `n` bytes or as many as there are — `Prog.upTo`,

and the number of bytes asked for next depends only on the bytes received so far. `Prog β` is the
type of such readers, as a tree: a node is one of the three calls, its children are indexed by what
the call returned. A reader written in `do` notation over `Prog` is a transcription of the Rust
function with `?` as the monad's bind.

`Prog.run` executes a reader over a scheduled source (`Noodles.IO.Src`), using the transcribed loops of
`Noodles.Io.Loops` (`defaultReadExact`, `readExactOrEof`) and `takeReadToEnd` below for the three calls.
-/
namespace Noodles.IO

/-- `reader.take(limit).read_to_end(buf)` (std `Take` + the default `read_to_end`): `read` calls into
the vector's spare capacity — how much that is, is std's business: an arbitrary list `sizes` of buffer
lengths ≥ 1, afterwards always enough — each cut by `Take` to what the limit still allows, until the
limit is used up (`Take::read` then returns `Ok(0)` WITHOUT touching the inner reader) or the inner
reader returns `Ok(0)`; `Interrupted` is retried with the same buffer. Returns the bytes appended. -/
def takeReadToEnd {α : Type} : Nat → Src α → Nat → List Nat → List α → List α × Src α
  | 0, s, _, _, acc => (acc, s)
  | fuel+1, s, limit, sizes, acc =>
    if limit = 0 then (acc, s)
    else
      let want := match sizes.head? with
        | none => limit
        | some n => min (max n 1) limit
      match read s want with
      | (.interrupted, s') => takeReadToEnd fuel s' limit sizes acc
      | (.ok bs, s') =>
        if bs.length = 0 then (acc, s')
        else takeReadToEnd fuel s' (limit - bs.length) sizes.tail (acc ++ bs)

inductive Prog (β : Type) where
  /-- `return Ok(b)` -/
  | ret (b : β)
  /-- `return Err(e)` -/
  | fail (e : Err)
  /-- `reader.read_exact(&mut buf[..n])`; the continuation gets `Ok(bytes)` or `Err(UnexpectedEof)` -/
  | exact (n : Nat) (k : Except Err Bytes → Prog β)
  /-- `read_exact_or_eof(reader, &mut buf[..n])`; `Ok(bytes read)` — all `n`, or none at a clean end -/
  | exactOrEof (n : Nat) (k : Except Err Bytes → Prog β)
  /-- `reader.take(n).read_to_end(&mut buf)`: everything a `Take(n)` delivers — the next `n` bytes,
  fewer only if the source ends -/
  | upTo (n : Nat) (k : Bytes → Prog β)

namespace Prog
variable {β γ : Type}

def bind : Prog β → (β → Prog γ) → Prog γ
  | ret b, f => f b
  | fail e, _ => fail e
  | exact n k, f => exact n fun r => bind (k r) f
  | exactOrEof n k, f => exactOrEof n fun r => bind (k r) f
  | upTo n k, f => upTo n fun r => bind (k r) f

instance : Monad Prog where
  pure := ret
  bind := bind

/-- `match p { Ok(x) => Ok(Ok(x)), Err(e) => Ok(Err(e)) }`: lets a caller look at the error
(`Err(ref e) if e.kind() == UnexpectedEof => …`, `.map_err(…)`, a record loop that stops at the first
error) -/
def attempt : Prog β → Prog (Except Err β)
  | ret b => ret (.ok b)
  | fail e => ret (.error e)
  | exact n k => exact n fun r => attempt (k r)
  | exactOrEof n k => exactOrEof n fun r => attempt (k r)
  | upTo n k => upTo n fun r => attempt (k r)

/-- `.map_err(|e| io::Error::new(io::ErrorKind::InvalidData, e))`: every error — `UnexpectedEof`
included — becomes `InvalidData` -/
def mapErrInvalid (p : Prog β) : Prog β :=
  bind (attempt p) fun
    | .ok b => ret b
    | .error _ => fail .invalidData

/-- `reader.read_exact(&mut buf)?` with `buf.len() = n` -/
def readExact (n : Nat) : Prog Bytes :=
  exact n fun
    | .ok bs => ret bs
    | .error e => fail e

/-- `read_exact_to_vec(reader, buf, len)` (noodles-bam, noodles-bcf; inline in the CRAM container
reader): `buf.clear()`, `reader.take(len).read_to_end(buf)`, and `UnexpectedEof` unless `len` bytes
arrived -/
def readExactToVec (n : Nat) : Prog Bytes :=
  upTo n fun bs => if bs.length = n then ret bs else fail .eof

/-- the executable meaning of a reader over a scheduled source: result and the source afterwards.
`sz i` are the buffer lengths std uses in the `i`-th `read_to_end` of the run. -/
def runAt (sz : Nat → List Nat) : Prog β → Nat → Src UInt8 → Except Err β × Src UInt8
  | ret b, _, s => (.ok b, s)
  | fail e, _, s => (.error e, s)
  | exact n k, i, s => runAt sz (k (defaultReadExact s n).1) i (defaultReadExact s n).2
  | exactOrEof n k, i, s => runAt sz (k (readExactOrEof s n).1) i (readExactOrEof s n).2
  | upTo n k, i, s =>
    runAt sz (k (takeReadToEnd (gatherFuel s n) s n (sz i) []).1) (i + 1)
      (takeReadToEnd (gatherFuel s n) s n (sz i) []).2

def run (sz : Nat → List Nat) (p : Prog β) (s : Src UInt8) : Except Err β × Src UInt8 := runAt sz p 0 s

/-- `p` repeated `n` times (`(0..n).map(|_| p(reader)).collect::<io::Result<Vec<_>>>()`) -/
def many (p : Prog β) : Nat → Prog (List β)
  | 0 => ret []
  | n+1 => bind p fun a => bind (many p n) fun as => ret (a :: as)

/-! ## fixed-width integers (`num.rs` of every crate: `read_exact` + `from_le_bytes` / `from_be_bytes`) -/

/-- big-endian value of a byte string -/
def beNat (bs : Bytes) : Nat := bs.foldl (fun a b => a * 256 + b.toNat) 0

def u8 : Prog Nat := bind (readExact 1) fun bs => ret (leNat bs)
def u16le : Prog Nat := bind (readExact 2) fun bs => ret (leNat bs)
def u32le : Prog Nat := bind (readExact 4) fun bs => ret (leNat bs)
def u64le : Prog Nat := bind (readExact 8) fun bs => ret (leNat bs)

/-- `n as i32` / `n as i64` of an unsigned value below `2 ^ bits` -/
def toSigned (bits n : Nat) : Int := if n < 2 ^ (bits - 1) then (n : Int) else (n : Int) - (2 ^ bits : Nat)

/-- `read_i32_le` -/
def i32le : Prog Int := bind u32le fun n => ret (toSigned 32 n)

/-- `read_i32_le(reader).and_then(|n| usize::try_from(n) …)` (also `u64::try_from`, `u32::try_from`):
a negative value is `InvalidData` -/
def i32leNonneg : Prog Nat :=
  bind u32le fun n => if n < 2 ^ 31 then ret n else fail .invalidData

end Prog
end Noodles.IO
