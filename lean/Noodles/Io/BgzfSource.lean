import Noodles.Io.Prog
/-!
# `bgzf::io::Reader` as a byte source, and reader programs run through it (model for C12, part "comp")

Transcribed from noodles-bgzf `src/io/reader.rs` (`impl Read`, `impl BufRead`, `read_nonempty_block_with`,
`default_read_exact`) on top of `Noodles.IO.readFrameInto` / `parseFrame` (`src/io/reader/frame.rs`,
modelled in `Noodles/Io/Loops.lean`), and from noodles-bam `src/io/reader/header.rs` with its
sub-modules (`magic_number.rs`, `sam_header.rs`, `reference_sequences.rs`,
`reference_sequences/reference_sequence.rs`).

* The reader's state is the inner (compressed, scheduled) source and the UNREAD part of the current
  block (`block.data().as_ref()` = `buf[pos..len]`; `has_remaining()` = that slice is non-empty;
  `consume(amt)` = `pos = min(pos + amt, len)`).  `position` / `virtual_position` are C02's business
  (`Noodles/Bgzf/ReaderModel.lean`) and are not repeated here.
* DEFLATE + CRC-32 are a parameter `dec : frame ↦ data` ("this frame inflates to these bytes, or it is
  refused"): `parse_block` = `parse_frame` (header check, ISIZE ≤ 64 KiB), `block_initialize`, `inflate`
  into exactly ISIZE bytes — so data of any other length is an error (`parseBlock`).
* `read_frame_into` reads with the INNER reader's `read_exact` (std: retries `Interrupted`), so an inner
  `Interrupted` is always retried and never surfaces; an inner short read is never the end.
* The state after an `Err` is NOT modelled (scripts stop at the first error): after an `inflate`
  failure on the `fill_buf` path the real block buffer holds ISIZE unspecified bytes that a further
  `read` would hand out.  That is the same under every schedule, so it is outside C12.
-/
namespace Noodles.IO.Comp
open Noodles.IO

/-- `parse_block` / `parse_block_into_buf` up to where the bytes land: `parse_frame`, then `inflate`
of the compressed data into a destination of exactly ISIZE bytes (`dec` = DEFLATE + CRC-32 check) -/
def parseBlock (dec : Bytes → Except Err Bytes) (f : Bytes) : Except Err Bytes :=
  match parseFrame f with
  | .error e => .error e
  | .ok isize =>
    match dec f with
    | .error e => .error e
    | .ok d => if d.length = isize then .ok d else .error .invalidData

/-- `bgzf::io::Reader<R>`: the inner reader and the unread part of the current block -/
structure BR where
  inner : Src UInt8
  buf : Bytes

/-- `Reader::new(inner)` -/
def BR.init (s : Src UInt8) : BR := ⟨s, []⟩

/-- `read_nonempty_block_with(f)`: frames are read until one has data (`break`), the stream ends
(`read_frame_into` = `None`: the block is emptied) or something fails (`?`).  On success the block is
the new data, unread. -/
def readBlock (dec : Bytes → Except Err Bytes) : Nat → BR → Except Err Unit × BR
  | 0, r => (.error .fuel, r)
  | fuel+1, r =>
    match readFrameInto r.inner with
    | (.none, s') => (.ok (), ⟨s', []⟩)
    | (.err e, s') => (.error e, ⟨s', r.buf⟩)
    | (.frame f, s') =>
      match parseBlock dec f with
      | .error e => (.error e, ⟨s', r.buf⟩)
      | .ok d => if 0 < d.length then (.ok (), ⟨s', d⟩) else readBlock dec fuel ⟨s', d⟩

/-- every frame has at least 26 bytes, so this many rounds are never used up -/
def blockFuel (r : BR) : Nat := r.inner.data.length + 1

/-- `BufRead::fill_buf`: `if !has_remaining() { read_block()? }`, then the unread part of the block -/
def fillBuf (dec : Bytes → Except Err Bytes) (r : BR) : Except Err Bytes × BR :=
  if r.buf.isEmpty then
    match readBlock dec (blockFuel r) r with
    | (.ok (), r') => (.ok r'.buf, r')
    | (.error e, r') => (.error e, r')
  else (.ok r.buf, r)

/-- `BufRead::consume(amt)` -/
def consume (n : Nat) (r : BR) : BR := { r with buf := r.buf.drop n }

/-- `Read::read(buf)` with `buf.len() = n`: with nothing unread and `n ≥ 64 KiB` the next non-empty
block is inflated straight into `buf` (`read_block_into_buf`: the whole block is returned and the
block is left fully consumed); otherwise `fill_buf`, copy `min(n, window)` bytes, `consume`. -/
def read (dec : Bytes → Except Err Bytes) (r : BR) (n : Nat) : Except Err Bytes × BR :=
  if r.buf.isEmpty && decide (BGZF_MAX_ISIZE ≤ n) then
    match readBlock dec (blockFuel r) r with
    | (.ok (), r') => (.ok r'.buf, { r' with buf := [] })
    | (.error e, r') => (.error e, r')
  else
    match fillBuf dec r with
    | (.error e, r') => (.error e, r')
    | (.ok w, r') => (.ok (w.take n), consume (w.take n).length r')

/-- the loop of `default_read_exact` (noodles-bgzf) and of `read_exact_or_eof` (noodles-bam) over
`Reader::read`: `Ok(0)` ends it, `Interrupted` is retried (a dead branch here: `read` never returns
it, see `bgzfRead_never_interrupted`), any other error is returned.  `want` = bytes still missing. -/
def gatherB (dec : Bytes → Except Err Bytes) : Nat → BR → Nat → Bytes → Except Err Bytes × BR
  | 0, r, _, _ => (.error .fuel, r)
  | fuel+1, r, want, acc =>
    if want = 0 then (.ok acc, r)
    else match read dec r want with
      | (.error .interrupted, r') => gatherB dec fuel r' want acc
      | (.error e, r') => (.error e, r')
      | (.ok bs, r') =>
        if bs.length = 0 then (.ok acc, r') else gatherB dec fuel r' (want - bs.length) (acc ++ bs)

/-- `Read::read_exact` as `bgzf::io::Reader` overrides it: served from the current block when it holds
`n` unread bytes, otherwise `default_read_exact(self, buf)` -/
def readExactB (dec : Bytes → Except Err Bytes) (r : BR) (n : Nat) : Except Err Bytes × BR :=
  if n ≤ r.buf.length then (.ok (r.buf.take n), consume n r)
  else match gatherB dec (n + 1) r n [] with
    | (.error e, r') => (.error e, r')
    | (.ok bs, r') => if bs.length = n then (.ok bs, r') else (.error .eof, r')

/-- noodles-bam / noodles-bcf `read_exact_or_eof` over the BGZF reader -/
def readExactOrEofB (dec : Bytes → Except Err Bytes) (r : BR) (n : Nat) : Except Err Bytes × BR :=
  match gatherB dec (n + 1) r n [] with
  | (.error e, r') => (.error e, r')
  | (.ok bs, r') => if 0 < bs.length ∧ bs.length ≠ n then (.error .eof, r') else (.ok bs, r')

/-- the request size of one `read` under `Take(limit)` inside `read_to_end`: what std asks for (the next
of `sizes`, at least 1; the whole limit once the list is used up), cut to the limit -/
def takeWantB (limit : Nat) (sizes : List Nat) : Nat :=
  match sizes.head? with
  | none => limit
  | some n => min (max n 1) limit

/-- `reader.take(limit).read_to_end(buf)` over the BGZF reader (cf. `takeReadToEnd`): requests of
arbitrary sizes `≥ 1` (64 KiB and more included: the direct path), each cut to the limit; an error of
the reader is returned (`?`). -/
def takeReadToEndB (dec : Bytes → Except Err Bytes) : Nat → BR → Nat → List Nat → Bytes → Except Err Bytes × BR
  | 0, r, _, _, _ => (.error .fuel, r)
  | fuel+1, r, limit, sizes, acc =>
    if limit = 0 then (.ok acc, r)
    else
      match read dec r (takeWantB limit sizes) with
      | (.error .interrupted, r') => takeReadToEndB dec fuel r' limit sizes acc
      | (.error e, r') => (.error e, r')
      | (.ok bs, r') =>
        if bs.length = 0 then (.ok acc, r')
        else takeReadToEndB dec fuel r' (limit - bs.length) sizes.tail (acc ++ bs)

/-- a reader program run over `bgzf::io::Reader` (cf. `Prog.runAt` over a raw source).  An error of the
BGZF layer reaches the continuation of `read_exact` / `read_exact_or_eof` like any other error; inside
`take(n).read_to_end(..)?` it ends the run (every such call site in noodles has the `?`). -/
def runBAt {β : Type} (dec : Bytes → Except Err Bytes) (sz : Nat → List Nat) :
    Prog β → Nat → BR → Except Err β × BR
  | .ret b, _, r => (.ok b, r)
  | .fail e, _, r => (.error e, r)
  | .exact n k, i, r => runBAt dec sz (k (readExactB dec r n).1) i (readExactB dec r n).2
  | .exactOrEof n k, i, r => runBAt dec sz (k (readExactOrEofB dec r n).1) i (readExactOrEofB dec r n).2
  | .upTo n k, i, r =>
    match takeReadToEndB dec (n + 1) r n (sz i) [] with
    | (.error e, r') => (.error e, r')
    | (.ok bs, r') => runBAt dec sz (k bs) (i + 1) r'

def runB {β : Type} (dec : Bytes → Except Err Bytes) (sz : Nat → List Nat) (p : Prog β) (r : BR) :
    Except Err β × BR := runBAt dec sz p 0 r

/-! ## the stream a BGZF file stands for (no schedule, no request sizes) -/

/-- the next non-empty block of a compressed byte string and what follows it: `readBlock` on a source
that delivers whatever is asked.  `.ok ([], rest)` = end of stream. -/
def nextBlock (dec : Bytes → Except Err Bytes) (data : Bytes) : Except Err (Bytes × Bytes) :=
  match readBlock dec (data.length + 1) ⟨⟨data, []⟩, []⟩ with
  | (.ok (), r) => .ok (r.buf, r.inner.data)
  | (.error e, _) => .error e

/-- all blocks of a compressed byte string, in order, and how the stream ends: `none` = end of stream
(also a cut inside an 18-byte member header, as `read_frame_into` has it), `some e` = the error of the
first member that cannot be read -/
def blocksOf (dec : Bytes → Except Err Bytes) : Nat → Bytes → List Bytes × Option Err
  | 0, _ => ([], some .fuel)
  | fuel+1, data =>
    match nextBlock dec data with
    | .error e => ([], some e)
    | .ok (b, rest) =>
      if b.isEmpty then ([], none)
      else ((b :: (blocksOf dec fuel rest).1), (blocksOf dec fuel rest).2)

/-- the uncompressed payload of the members that can be read -/
def payloadOf (dec : Bytes → Except Err Bytes) (data : Bytes) : Bytes :=
  (blocksOf dec (data.length + 1) data).1.flatten

/-- a script of `read(n_i)` calls: the byte strings returned, until the script ends, a call returns
nothing (`n_i > 0`: end of stream) or fails -/
def readScript (dec : Bytes → Except Err Bytes) : List Nat → BR → List Bytes → (List Bytes × Option Err) × BR
  | [], r, acc => ((acc.reverse, none), r)
  | n :: ns, r, acc =>
    match read dec r n with
    | (.error e, r') => ((acc.reverse, some e), r')
    | (.ok bs, r') => readScript dec ns r' (bs :: acc)

/-! ## the BAM header reader (`bam::io::reader::header::read_header`) as a `Prog` -/

/-- `bytes_with_nul_to_bstring` (`CStr::from_bytes_with_nul`): the last byte is the only NUL -/
def cstr (bs : Bytes) : Except Err Bytes :=
  match bs.reverse with
  | [] => .error .invalidData
  | z :: revInit => if z = 0 ∧ ¬ (0 : UInt8) ∈ revInit then .ok revInit.reverse else .error .invalidData

/-- `ReferenceSequences::insert` (an `IndexMap`): a name that is already there keeps its place and
gets the new value -/
def insertRef (name : Bytes) (len : Nat) : List (Bytes × Nat) → List (Bytes × Nat)
  | [] => [(name, len)]
  | (n, l) :: rest => if n = name then (n, len) :: rest else (n, l) :: insertRef name len rest

/-- `read_reference_sequence`: `l_name` (`u32`), `read_exact_to_vec`, the C string, `l_ref` (`u32`,
`NonZero`) -/
def readReferenceSequence : Prog (Bytes × Nat) := do
  let lName ← Prog.u32le
  let cName ← Prog.readExactToVec lName
  match cstr cName with
  | .error e => Prog.fail e
  | .ok name =>
    let lRef ← Prog.u32le
    if lRef = 0 then Prog.fail .invalidData else Prog.ret (name, lRef)

/-- the `for _ in 0..n_ref` loop of `read_reference_sequences` -/
def refsLoop : Nat → List (Bytes × Nat) → Prog (List (Bytes × Nat))
  | 0, acc => Prog.ret acc
  | n+1, acc => Prog.bind readReferenceSequence fun (name, len) => refsLoop n (insertRef name len acc)

/-- `read_reference_sequences`: `n_ref` (`u32`), then the entries -/
def readReferenceSequences : Prog (List (Bytes × Nat)) :=
  Prog.bind Prog.u32le fun nRef => refsLoop nRef []

/-- one trailing CR off (`read_line`, after the LF was popped) -/
def stripCr (l : Bytes) : Bytes :=
  match l.reverse with
  | c :: r => if c = CR then r.reverse else l
  | [] => l

/-- the lines `read_sam_header` hands to the parser, as a function of the `l_text` bytes: the
`sam_header::Reader` ends the text at a NUL (or the end) AT THE START OF A LINE (`is_eol`), a line runs
through its LF (LF and one CR before it stripped), a last line without LF is everything that is left
(NULs included, nothing stripped) -/
def hdrTextLines : Nat → Bytes → List Bytes → List Bytes
  | 0, _, acc => acc.reverse
  | fuel+1, t, acc =>
    match t with
    | [] => acc.reverse
    | b :: _ =>
      if b = 0 then acc.reverse
      else
        match t.span (· != LF) with
        | (pre, []) => (pre :: acc).reverse
        | (pre, _ :: post) => hdrTextLines fuel post (stripCr pre :: acc)

/-- `reference_sequences_eq` -/
def refsEq (a b : List (Bytes × Nat)) : Bool := a.length == b.length && (a.zip b).all fun (x, y) => x.1 == y.1 && x.2 == y.2

structure BamHeader where
  /-- the header lines the SAM parser was given -/
  lines : List Bytes
  /-- the reference sequence dictionary of the result -/
  refs : List (Bytes × Nat)
  deriving DecidableEq, Repr

def BAM_MAGIC : Bytes := [0x42, 0x41, 0x4d, 0x01]

/-- `read_header_inner`: magic, `l_text`, the text (a `BufReader<Take<R>>` read to its end by
`read_line` + `discard_to_end`: `upTo`), the lines through the SAM header parser (`parse` = the @SQ
dictionary of `parse_partial`* + `finish`, or refusal = `InvalidData`), the binary reference sequences,
and the consistency rule: an empty @SQ dictionary is replaced by the binary one, otherwise the two must
agree in names and lengths. -/
def bamReadHeader (parse : List Bytes → Except Err (List (Bytes × Nat))) : Prog BamHeader := do
  let magic ← Prog.readExact 4
  if magic ≠ BAM_MAGIC then Prog.fail .invalidData
  else
    let lText ← Prog.u32le
    Prog.upTo lText fun text =>
      let lines := hdrTextLines (text.length + 1) text []
      match parse lines with
      | .error _ => Prog.fail .invalidData
      | .ok sq =>
        Prog.bind readReferenceSequences fun refs =>
          if sq.isEmpty then Prog.ret ⟨lines, refs⟩
          else if refsEq sq refs then Prog.ret ⟨lines, sq⟩
          else Prog.fail .invalidData

end Noodles.IO.Comp
